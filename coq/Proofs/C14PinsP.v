(* C14 -- constants of Gen/Consts.v (rewritten from the source of /repo by tools/genconsts on
   every run) compared with literals.  Used by: Model/AtomParse.v and the reference Model/PMSGrammar.v share the comparable-version encoding and the character classes (the two regular expressions are pinned by C14_regex_pinned).
   A changed constant makes this file fail to build; the check then reports
   "proof obligation no longer checks" for Properties/C14.v (C14_constants_pinned) instead of
   letting model, predicate and code move together unnoticed. *)
From LC Require Import Lib.Bytes Gen.Consts.
Local Open Scope string_scope.

Lemma c14_constants_pinned :
  (* frozen from the reviewed tree (portage/parse/chartype.go) *)
  PP_isNameVerChar = bs "a-zA-Z0-9/_+*.-" /\
  (* PMS 3.1.3: a slot name starts with [A-Za-z0-9_] *)
  PP_isSlotNameStartChar = bs "a-zA-Z0-9_" /\
  (* PMS 3.1.3: [A-Za-z0-9+_.-] *)
  PP_isSlotNameMidChar = bs "a-zA-Z0-9+_.-" /\
  (* PMS 3.1.5: [A-Za-z0-9_-] *)
  PP_isRepoNameChar = bs "a-zA-Z0-9_-" /\
  (* frozen from the reviewed tree (characters of a bracketed USE-dependency list) *)
  PP_isUseDepChar = bs "a-zA-Z0-9+_@!?=(),-" /\
  (* PMS 3.1.4: [A-Za-z0-9+_@-] *)
  PP_IsUseFlagChar = bs "a-zA-Z0-9+_@-" /\
  (* frozen from the reviewed tree (width pinned by portage/atom/decode_test.go; known finding C13 id=1) *)
  PA_numericVersionSegmentWidth = 5%N /\
  (* frozen from the reviewed tree (comparable form: _alpha < _beta < _pre < _rc < none < _p as _a.._d, _n, _p) *)
  PA_releaseSuffixAlpha = bs "_a" /\
  (* frozen from the reviewed tree *)
  PA_releaseSuffixBeta = bs "_b" /\
  (* frozen from the reviewed tree *)
  PA_releaseSuffixPre = bs "_c" /\
  (* frozen from the reviewed tree *)
  PA_releaseSuffixRc = bs "_d" /\
  (* frozen from the reviewed tree *)
  PA_releaseSuffixNormal = bs "_n" /\
  (* frozen from the reviewed tree *)
  PA_releaseSuffixPatch = bs "_p" /\
  (* frozen from the reviewed tree (-r0 at width 5) *)
  PA_defaultRevision = bs "r00000" /\
  (* frozen from the reviewed tree *)
  PA_maxAlphaVersion = bs "zzzzz".
Proof. repeat split; vm_compute; reflexivity. Qed.
