(* C15: under -p (e_pretend) no command of layercake changes the world, logs an operation or
   advances the operation counter.  Instance of Proofs/MonadP.R_run_command with the unary
   relation "the final state is the initial state". *)
From LC Require Import Lib.Bytes Lib.Lex Lib.Fields Lib.PathM Gen.Consts
  Model.MountInfo Model.FsTree Model.Kernel Model.Layers Cases.Verdict Cases.LC Cases.C15
  Proofs.MonadP.

(* ------------------------------------------------------------------ reflexivity of the comparisons *)
Lemma list_beq_refl {A} (eq : A -> A -> bool) :
  (forall x, eq x x = true) -> forall l, list_beq eq l l = true.
Proof.
  intros Heq l. induction l as [|x l IH]; cbn [list_beq]; [reflexivity|].
  rewrite Heq, IH. reflexivity.
Qed.

Lemma node_beq_refl n : node_beq n n = true.
Proof. destruct n; cbn [node_beq]; auto using beq_refl. Qed.

Lemma entry_beq_refl x : entry_beq x x = true.
Proof. unfold entry_beq. rewrite beq_refl, node_beq_refl. reflexivity. Qed.

Lemma fs_beq_refl f : fs_beq f f = true.
Proof. unfold fs_beq. apply list_beq_refl, entry_beq_refl. Qed.

Lemma kline_beq_refl k : kline_beq k k = true.
Proof.
  unfold kline_beq. rewrite !beq_refl. cbn [andb].
  rewrite (list_beq_refl beq beq_refl). cbn [andb].
  apply list_beq_refl. intros [a [b|]]; cbn [fst snd opt_beq]; rewrite !beq_refl; reflexivity.
Qed.

Lemma ktab_beq_refl t : ktab_beq t t = true.
Proof. unfold ktab_beq. apply list_beq_refl, kline_beq_refl. Qed.

(* ------------------------------------------------------------------ the state is preserved *)
Definition pres {A} (m : M A) : Prop := forall s, snd (m s) = s.

Lemma pres_bind {A B} (m : M A) (f : A -> M B) :
  pres m -> (forall a, pres (f a)) -> pres (bind m f).
Proof.
  intros Hm Hf s. unfold bind. specialize (Hm s). destruct (m s) as [o s1].
  cbn [snd] in Hm. subst s1. destruct o; try reflexivity. apply Hf.
Qed.

Section Pretend.
Variable e : env.
Hypothesis Hp : e_pretend e = true.

Lemma mutate_pretend o act s : mutate e o act s = (Ret tt, s).
Proof. unfold mutate. rewrite Hp. reflexivity. Qed.

Lemma cursor_writes_pretend tmp chunks s : cursor_writes e tmp chunks s = (Ret tt, s).
Proof.
  induction chunks as [|x r IH]; cbn [cursor_writes]; [reflexivity|].
  unfold bind. rewrite mutate_pretend. exact IH.
Qed.

Lemma wfa_pretend p chunks s : write_file_atomically e p chunks s = (Ret tt, s).
Proof.
  unfold write_file_atomically, do_op.
  rewrite mutate_pretend, cursor_writes_pretend, mutate_pretend. reflexivity.
Qed.

Lemma pres_run_command c um cmd : is_manual cmd = false -> pres (run_command e c um cmd).
Proof.
  apply (R_run_command e e (fun A m1 _ => pres m1)); try reflexivity.
  - intros A a s. reflexivity.
  - intros A s. reflexivity.
  - intros A s. reflexivity.
  - intros A s. reflexivity.
  - intros A B m1 m2 f1 f2 Hm Hf. apply pres_bind; assumption.
  - intros s. reflexivity.
  - intros s. reflexivity.
  - intros o act _ s. rewrite mutate_pretend. reflexivity.
  - intros p chunks s. rewrite wfa_pretend. reflexivity.
Qed.
End Pretend.

(* the model theorem: every command, every world, every fault plan *)
Theorem pretend_no_effect e c um cmd w :
  e_pretend e = true -> is_manual cmd = false ->
  snd (run e c um cmd w) = MkSt w 0 [].
Proof. intros Hp Hm. unfold run. apply pres_run_command; assumption. Qed.

Corollary pretend_world_log_count e c um cmd w :
  e_pretend e = true -> is_manual cmd = false ->
  s_w (snd (run e c um cmd w)) = w /\ s_log (snd (run e c um cmd w)) = []
  /\ s_n (snd (run e c um cmd w)) = 0%nat.
Proof. intros Hp Hm. rewrite pretend_no_effect by assumption. repeat split. Qed.

Theorem C15_model_proof cfg w e cmd um :
  e_pretend e = true -> is_manual cmd = false ->
  C15.step_spec cfg w (LC.view_of_model cfg w e cmd um) = true.
Proof.
  intros Hp Hm. unfold LC.view_of_model.
  pose proof (pretend_no_effect e cfg um cmd (LC.world_of w) Hp Hm) as H.
  destruct (run e cfg um cmd (LC.world_of w)) as [o st]. cbn [snd] in H. subst st.
  unfold C15.step_spec, LCS.unchanged.
  cbn [LC.v_env LC.v_after LC.v_log LC.wo_fs LC.wo_ks s_w s_log w_fs w_ks LC.world_of rev].
  rewrite Hp, fs_beq_refl, ktab_beq_refl, !N.eqb_refl. reflexivity.
Qed.

(* the hypotheses are satisfiable by a world in which the command would otherwise mutate *)
Definition ex_cfg : cfgT :=
  MkCfg (bs "/b") (bs "/b/layers") (bs "build") (bs "packages") (bs "generated")
        (bs "overlayfs/workdir") (bs "overlayfs/upperdir") (bs "/b/export") (bs "packages") (bs "generated").
Definition ex_env (p : bool) (fl : fault) : env := MkEnv p fl false false [].
Definition ex_world : LC.wobs := LC.MkWO [(bs "/", Dir)] (MkKS [] 2 1).

Example C15_hyps_nontrivial :
  e_pretend (ex_env true NoFault) = true /\ is_manual CInit = false
  /\ LC.v_log (LC.view_of_model ex_cfg ex_world (ex_env false NoFault) CInit []) <> []
  /\ LC.v_log (LC.view_of_model ex_cfg ex_world (ex_env true NoFault) CInit []) = [].
Proof. vm_compute. repeat split; discriminate. Qed.

(* why the manual commands are excluded: they are the kernel acting, not layercake *)
Example C15_manual_excluded :
  C15.step_spec ex_cfg ex_world
    (LC.view_of_model ex_cfg ex_world (ex_env true NoFault) (CKMount (bs "proc") (bs "/") (bs "proc") 0 []) [])
  = false.
Proof. vm_compute. reflexivity. Qed.

(* likewise for somebody editing a file by hand (CEdit) *)
Example C15_edit_excluded :
  C15.step_spec ex_cfg ex_world
    (LC.view_of_model ex_cfg ex_world (ex_env true NoFault) (CEdit (bs "/x") (bs "y")) [])
  = false.
Proof. vm_compute. reflexivity. Qed.
