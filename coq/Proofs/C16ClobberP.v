(* C16 (a): no command deletes or replaces an export-tree entry that is not a symlink.
   Instance of the frame of C16FrameP with the protected set "non-symlink entries below the
   exports directory"; structural descent through every command. *)
From LC Require Import Lib.Bytes Lib.Lex Lib.Fields Lib.PathM Gen.Consts
  Model.MountInfo Model.FsTree Model.Kernel Model.Layers Cases.Verdict Cases.LC Cases.C16
  Proofs.MonadP Proofs.C15P Proofs.PathP Proofs.C16FsP Proofs.C16MonadP Proofs.C16FrameP.
Close Scope string_scope.
Open Scope list_scope.

Definition prot_a (c : cfgT) (p : bytes) (nd : node) : Prop :=
  under (c_exports c) p = true /\ forall t, nd <> Link t.

(* ------------------------------------------------------------------ export targets are not "" *)
Lemma adjust_prefixed_nonempty p cb t :
  p <> [] -> (forall name pre, cb name = Some pre -> pre <> []) ->
  adjust_prefixed p cb = Some t -> t <> [].
Proof.
  intros Hp Hcb. unfold adjust_prefixed. destruct p as [|a p']; [congruence|].
  destruct (span_while is_sigil (a :: p')) as [sigil rest].
  destruct (span_while (fun ch => negb (Ascii.eqb ch sl)) rest) as [name tail].
  match goal with |- match ?np with _ => _ end = _ -> _ => set (NP := np) end.
  assert (Hnp : NP <> Some []).
  { subst NP. destruct sigil; [discriminate|]. destruct (beq _ _); [|discriminate].
    destruct (cb name) as [pre|] eqn:Ecb; [|discriminate]. intros H. injection H as H.
    exact (pathjoin_nonempty pre [tail] (Hcb _ _ Ecb) H). }
  destruct NP as [[|ch r]|]; [congruence| |discriminate].
  destruct (Ascii.eqb ch sl); intros H; [injection H as <-; discriminate|discriminate].
Qed.

Lemma map_opt_in {A B} (g : A -> option B) l : forall ys, map_opt g l = Some ys ->
  forall y, In y ys -> exists x, In x l /\ g x = Some y.
Proof.
  induction l as [|x r IH]; intros ys H y Hy; cbn [map_opt] in H.
  - injection H as <-. destruct Hy.
  - destruct (g x) as [y0|] eqn:Eg; [|discriminate]. destruct (map_opt g r) as [ys0|]; [|discriminate].
    injection H as <-. destruct Hy as [<-|Hy].
    + exists x. split; [now left|exact Eg].
    + destruct (IH ys0 eq_refl y Hy) as (x' & Hin & Hg). exists x'. split; [now right|exact Hg].
Qed.

Lemma expand_exports_nonempty c l es x :
  c_exports c <> [] -> Forall (fun nm => nm_mount nm <> []) (l_exports l) ->
  expand_config_exports c l = Some es -> In x es -> x_mount x <> [].
Proof.
  intros HE Hexp Hes Hx. unfold expand_config_exports in Hes.
  destruct (map_opt_in _ _ _ Hes x Hx) as (nm & Hnm & Hg).
  rewrite Forall_forall in Hexp. specialize (Hexp nm Hnm).
  destruct (adjust_prefixed (nm_mount nm) _) as [tgt|] eqn:Ea; [|discriminate].
  injection Hg as <-. cbn [x_mount]. eapply adjust_prefixed_nonempty; [exact Hexp| |exact Ea].
  intros name pre. cbv beta.
  destruct (beq name _); [intros H; injection H as <-; apply pathjoin_nonempty, HE|].
  destruct (beq name _); [intros H; injection H as <-; apply pathjoin_nonempty, HE|discriminate].
Qed.

Lemma ancestors_in fuel m : forall n acc ch,
  ancestors_and_self fuel m n acc = Some ch -> forall x, In x ch -> In x acc \/ In x m.
Proof.
  induction fuel as [|fuel IH]; intros n acc ch H x Hx; cbn [ancestors_and_self] in H.
  - destruct n; [injection H as <-; now left|discriminate].
  - destruct n as [|a n']; [injection H as <-; now left|].
    destruct (lm_get m (a :: n')) as [l|] eqn:El; [|discriminate].
    destruct (IH _ _ _ H x Hx) as [[<-|Hin]|Hin]; auto.
    right. apply (lm_get_in _ _ _ El).
Qed.

Lemma is_file_get f p x : fs_get f p = Some (File x) -> is_file f p = true.
Proof. intros H. unfold is_file, stat. cbn [stat_fuel]. rewrite H. reflexivity. Qed.

(* a hand edit (CEdit, not layercake) is outside the export tree *)
Definition edit_ok (c : cfgT) (cmd : command) : bool :=
  match cmd with CEdit p _ => negb (under (c_exports c) p) | _ => true end.

(* ------------------------------------------------------------------ the descent *)
Section Clobber.
Variable c : cfgT.
Notation E := (c_exports c).
Notation L := (c_layers c).
Hypothesis E_ne : E <> [].
Hypothesis L_ne : L <> [].
Hypothesis E_nr : beq E root = false.
Hypothesis L_nr : beq L root = false.
Hypothesis EL : at_or_under E L = false.
Hypothesis LE : at_or_under L E = false.
Hypothesis HP_layer : forall n, legal_name n = true -> n <> [] -> under L (layer_path c n) = true.
Hypothesis HP_conf : forall n, legal_name n = true ->
  under L (pathjoin [layer_path c n; D_LayerconfigFile]) = true.
Hypothesis HP_bashrc : forall n, legal_name n = true -> n <> [] ->
  under L (pathjoin [pathjoin [pathjoin [layer_path c n; c_buildroot c]; bs "root"]; bs ".bashrc"]) = true.
Variable e : env.
Hypothesis He : plain e.

Definition RR : fsT -> fsT -> Prop := Rel (prot_a c).
Lemma RR_refl f : RR f f.
Proof. apply Rel_refl. Qed.
Lemma RR_trans f1 f2 f3 : RR f1 f2 -> RR f2 f3 -> RR f1 f3.
Proof. apply Rel_trans. Qed.
Lemma prot_a_E p nd : prot_a c p nd -> under E p = true.
Proof. intros [H _]. exact H. Qed.
Lemma RR_ext f f' : ext f f' -> RR f f'.
Proof. apply Rel_ext. Qed.
Lemma RR_of_A {A} (m : M A) : steps (AO c) m -> steps RR m.
Proof. apply stepsR_of_A; try assumption. exact prot_a_E. Qed.

Lemma stepsR_mkdir p : steps RR (fs_mkdir e p).
Proof.
  intros s. apply st_do_op; [apply RR_refl|exact He|]. cbn [fs_effect]. intros f' Hf.
  apply RR_ext. eapply mkdir_all_ext, Hf.
Qed.
Lemma stepsR_symlink l t : steps RR (fs_symlink e l t).
Proof.
  intros s. apply st_do_op; [apply RR_refl|exact He|]. cbn [fs_effect]. intros f' Hf.
  apply RR_ext. eapply symlink_ext, Hf.
Qed.

Lemma st_rm_symlink p s : p <> [] -> is_symlink (fsof s) p = true -> st RR (fs_remove e p) s.
Proof.
  intros Hp Hs. unfold is_symlink, lstat in Hs.
  destruct (fs_get (fsof s) p) as [[| |t]|] eqn:Hg; try discriminate Hs.
  apply st_do_op; [apply RR_refl|exact He|]. cbn [fs_effect]. intros f' Hf.
  unfold RR. eapply Rel_rm_link; [exact Hp|exact Hg| |exact Hf].
  intros [_ H]. exact (H t eq_refl).
Qed.

Ltac sstep :=
  cbv beta zeta;
  lazymatch goal with
  | |- steps _ (bind get_fs _) => apply steps_get_fs; intros ?
  | |- steps _ (bind _ _) => apply (steps_bind _ RR_trans); [|intros ?]
  | |- steps _ (ret _) => apply (steps_ret _ RR_refl)
  | |- steps _ fail => apply (steps_fail _ RR_refl)
  | |- steps _ diverge => apply (steps_diverge _ RR_refl)
  | |- steps _ panic => apply (steps_panic _ RR_refl)
  | |- steps _ (guard _) => apply (steps_guard _ RR_refl)
  | |- steps _ (fs_mkdir _ _) => apply stepsR_mkdir
  | |- steps _ (fs_symlink _ _ _) => apply stepsR_symlink
  | |- steps _ (fs_mount _ _ _ _ _) => apply (steps_fs_mount _ RR_refl); exact He
  | |- steps _ (fs_unmount _ _) => apply (steps_fs_unmount _ RR_refl); exact He
  | |- steps _ (refresh_mounts _ _) => apply (steps_refresh_mounts _ RR_refl)
  | |- steps _ (renormalize _) => apply (steps_renormalize _ RR_refl)
  | |- steps _ (mapM_ _ _) => apply (steps_mapM_ _ RR_refl RR_trans); intros ? ?
  | |- steps _ (foldM _ _ _) => apply (steps_foldM _ RR_refl RR_trans); intros ? ?
  | |- steps _ (match ?x with _ => _ end) => destruct x eqn:?
  end.
Ltac sauto := repeat sstep.

Lemma stepsR_fresh src tgt :
  steps RR (f1 <- get_fs ;;
            (if is_dir f1 (pathdir tgt) then ret tt else fs_mkdir e (pathdir tgt)) ;;;
            fs_symlink e tgt src).
Proof. sauto. Qed.

Lemma stepsR_msid src tgt : tgt <> [] -> steps RR (make_symlink_in_dir e src tgt).
Proof.
  intros Ht s. unfold make_symlink_in_dir. apply st_get_fs. cbv beta zeta.
  destruct (is_symlink (fsof s) tgt) eqn:Hs; [|apply stepsR_fresh].
  assert (Hrm : st RR (fs_remove e tgt ;;;
                       (f1 <- get_fs ;;
                        (if is_dir f1 (pathdir tgt) then ret tt else fs_mkdir e (pathdir tgt)) ;;;
                        fs_symlink e tgt src)) s).
  { apply st_bind; [exact RR_trans|apply st_rm_symlink; assumption|]. intros _ s' _. apply stepsR_fresh. }
  destruct (readlink (fsof s) tgt) as [t|]; [|exact Hrm].
  destruct (beq t src); [apply (steps_ret _ RR_refl)|exact Hrm].
Qed.

Lemma stepsR_make_export_symlinks l : layer_ok c l -> steps RR (make_export_symlinks e c l).
Proof.
  intros (_ & _ & Hexp). unfold make_export_symlinks.
  destruct (expand_config_exports c l) as [es|] eqn:Ees; [|apply (steps_fail _ RR_refl)].
  apply (steps_bind _ RR_trans); [|intros _].
  - apply (steps_mapM_ _ RR_refl RR_trans). intros x Hx. apply stepsR_msid.
    eapply expand_exports_nonempty; eauto.
  - apply (steps_mapM_ _ RR_refl RR_trans). intros lt Hlt.
    assert (Hne : fst lt <> []).
    { unfold automated_exports in Hlt. destruct Hlt as [<-|[<-|[]]]; cbn [fst]; apply pathjoin_nonempty, E_ne. }
    destruct (memb (fst lt) (map x_mount es)); [apply (steps_ret _ RR_refl)|].
    intros s. apply st_get_fs. cbv beta.
    destruct (exists_ (fsof s) (snd lt)); [apply stepsR_msid, Hne|].
    destruct (is_symlink (fsof s) (fst lt)) eqn:Hs; [|apply (steps_ret _ RR_refl)].
    apply st_rm_symlink; assumption.
Qed.

Lemma stepsR_makedirs ld a : steps RR (makedirs e c ld a).
Proof. unfold makedirs. sauto. Qed.

Lemma stepsR_mount_loop xs : forall ld, steps RR (mount_loop e c xs ld).
Proof.
  induction xs as [|x r IH]; intros ld; cbn [mount_loop]; [apply (steps_ret _ RR_refl)|].
  sauto; apply IH.
Qed.

Lemma stepsR_mount_one ld a : steps RR (mount_one e c ld a).
Proof. unfold mount_one. sauto. all: apply (stepsR_mount_loop). Qed.

Lemma stepsR_mount_layer ld a : ld_ok c ld -> steps RR (mount_layer e c ld a).
Proof.
  intros Hld. unfold mount_layer.
  apply (steps_bind _ RR_trans); [apply (steps_guard _ RR_refl)|intros _].
  destruct (lm_get (ld_map ld) a) as [l|]; [|apply (steps_panic _ RR_refl)].
  apply (steps_bind _ RR_trans); [apply (steps_guard _ RR_refl)|intros _].
  destruct (ancestors_and_self (S (length (ld_map ld))) (ld_map ld) a []) as [ch|] eqn:Ech;
    [|apply (steps_diverge _ RR_refl)].
  apply (steps_bind _ RR_trans); [|intros ld1].
  { apply (steps_foldM _ RR_refl RR_trans). intros ld0 x. apply stepsR_makedirs. }
  apply (steps_bind _ RR_trans); [|intros ld2].
  { apply (steps_foldM _ RR_refl RR_trans). intros ld0 x. apply stepsR_mount_one. }
  apply (steps_bind _ RR_trans); [|intros _; apply (steps_ret _ RR_refl)].
  apply (steps_mapM_ _ RR_refl RR_trans). intros x Hx. apply stepsR_make_export_symlinks.
  destruct (ancestors_in _ _ _ _ _ Ech x Hx) as [[]|Hin]. apply Hld, Hin.
Qed.

Lemma stepsR_unmount_layer ld a : steps RR (unmount_layer e c ld a).
Proof. unfold unmount_layer. sauto. Qed.

Lemma stepsR_unmount_loop names : forall ld busy, steps RR (unmount_loop e c names ld busy).
Proof.
  induction names as [|n r IH]; intros ld busy; cbn [unmount_loop]; [apply (steps_ret _ RR_refl)|].
  apply (steps_bind _ RR_trans); [apply stepsR_unmount_layer|intros x; apply IH].
Qed.

Lemma stepsR_unmount ld a all : steps RR (unmount e c ld a all).
Proof.
  unfold unmount. sauto.
  - apply (stepsR_unmount_loop).
  - apply stepsR_unmount_layer.
Qed.

Lemma stepsR_shake ld : steps RR (shake e c ld).
Proof. unfold shake. sauto. Qed.

Lemma stepsR_chroot_prepare ld a : ld_ok c ld -> steps RR (chroot_prepare e c ld a).
Proof. intros Hld. unfold chroot_prepare. sauto. apply stepsR_mount_layer, Hld. Qed.

Lemma stepsR_add_layer ld name base configfile : steps RR (add_layer e c ld name base configfile).
Proof.
  unfold add_layer.
  apply steps_guard_bind; [exact RR_refl|intros Hg]. apply andb_true_iff in Hg as [Hg _].
  destruct (test_name_free _ _ Hg) as [Hne Hleg].
  apply (steps_bind _ RR_trans); [apply (steps_guard _ RR_refl)|intros _].
  apply steps_get_fs. intros f. cbv zeta.
  match goal with |- steps _ (match ?b with _ => _ end) => destruct b as [[ms es]|] end;
    [|apply (steps_fail _ RR_refl)].
  cbn [l_path].
  apply (steps_bind _ RR_trans); [apply stepsR_mkdir|intros _].
  apply (steps_bind _ RR_trans); [|intros _].
  { apply RR_of_A. apply stepsA_write_layerfile'; try assumption; cbn [l_name l_path]; auto. }
  apply (steps_bind _ RR_trans); [apply stepsR_mkdir|intros _].
  apply (steps_bind _ RR_trans); [|intros _; apply (steps_renormalize _ RR_refl)].
  destruct base as [|b0 base'].
  - cbv zeta. apply (steps_bind _ RR_trans); [apply stepsR_mkdir|intros _].
    apply RR_of_A. apply stepsA_write_text; try assumption.
    unfold build_path. cbn [l_path]. apply HP_bashrc; assumption.
  - apply (steps_bind _ RR_trans); [apply stepsR_mkdir|intros _; apply stepsR_mkdir].
Qed.

Lemma no_link_prot : forall l0 : layer, forall lt, In lt (automated_exports c l0) ->
  forall t, ~ prot_a c (fst lt) (Link t).
Proof. intros l0 lt _ t [_ H]. exact (H t eq_refl). Qed.

Lemma stepsR_remove_layer_a ld name files : ld_ok c ld -> steps RR (remove_layer e c ld name files).
Proof.
  intros Hld. apply stepsR_remove_layer; try assumption; try exact prot_a_E.
  intros l0 _. apply no_link_prot.
Qed.
Lemma stepsR_rename_layer_a ld a b0 : ld_ok c ld -> steps RR (rename_layer e c ld a b0).
Proof.
  intros Hld. apply stepsR_rename_layer; try assumption; try exact prot_a_E.
  intros l0 _. apply no_link_prot.
Qed.
Lemma stepsR_rebase_layer_a ld a b0 : ld_ok c ld -> steps RR (rebase_layer e c ld a b0).
Proof.
  intros Hld. apply stepsR_rebase_layer; try assumption; try exact prot_a_E.
Qed.

(* init: everything it does extends the tree, given that it only writes files that were not
   regular files to begin with *)
Section Init.
Variable f0 : fsT.
Definition R0 (f f' : fsT) : Prop := ext f0 f -> ext f0 f'.
Lemma R0_refl f : R0 f f.
Proof. intros H. exact H. Qed.
Lemma R0_trans a b d : R0 a b -> R0 b d -> R0 a d.
Proof. intros H1 H2 H. apply H2, H1, H. Qed.
Lemma R0_ext f f' : ext f f' -> R0 f f'.
Proof. intros H H0. eapply ext_trans; eauto. Qed.

Lemma steps0_mkdir p : steps R0 (fs_mkdir e p).
Proof.
  intros s. apply st_do_op; [apply R0_refl|exact He|]. cbn [fs_effect]. intros f' Hf.
  apply R0_ext. eapply mkdir_all_ext, Hf.
Qed.

Lemma steps0_write_text p x : is_file f0 p = false -> steps R0 (fs_write_text e p x).
Proof.
  intros Hnf s. apply st_mutate; [exact He|]. intros s1 _. unfold bind, get_fs. fold (fsof s1).
  destruct (write_text (fsof s1) p x) as [f'|] eqn:Hw; [|cbn; apply R0_refl]. cbn.
  intros H0. destruct (write_text_cases _ _ _ _ Hw) as [[_ ->]|(old & Hold & ->)].
  - eapply ext_trans; [exact H0|apply ext_snoc].
  - intros q y Hq. rewrite fs_get_set. destruct (beq p q) eqn:Epq; [|apply H0, Hq].
    apply beq_eq in Epq. subst q. exfalso. pose proof (H0 p y Hq) as H1. rewrite Hold in H1.
    injection H1 as <-. rewrite (is_file_get f0 p old Hq) in Hnf. discriminate.
Qed.

Lemma st0_init s : fsof s = f0 -> st R0 (init_base e c) s.
Proof.
  intros Hs. unfold init_base. apply st_get_fs. rewrite Hs. clear Hs. revert s. cbv zeta.
  match goal with |- forall s, st R0 ?m s => change (steps R0 m) end.
  apply (steps_bind _ R0_trans); [|intros _].
  { destruct (filter _ _); [apply (steps_ret _ R0_refl)|].
    destruct (_ || _); [apply (steps_fail _ R0_refl)|apply (steps_ret _ R0_refl)]. }
  apply (steps_bind _ R0_trans); [|intros _].
  { apply (steps_mapM_ _ R0_refl R0_trans). intros p _. apply steps0_mkdir. }
  apply (steps_bind _ R0_trans); [|intros _].
  { apply (steps_mapM_ _ R0_refl R0_trans). intros pc Hpc. apply steps0_write_text.
    apply filter_In in Hpc as [_ Hpc]. apply negb_true_iff in Hpc. exact Hpc. }
  destruct (filter _ _); [|apply (steps_fail _ R0_refl)].
  destruct (filter _ _); [|apply (steps_ret _ R0_refl)].
  destruct (filter _ _); [apply (steps_fail _ R0_refl)|apply (steps_ret _ R0_refl)].
Qed.
End Init.

Lemma stepsR_init_base : steps RR (init_base e c).
Proof.
  intros s. unfold st. apply RR_ext. apply (st0_init (fsof s) s eq_refl). apply ext_refl.
Qed.

Lemma nofs_apply_op_kernel o : is_fs_op o = false -> nofs (apply_op o).
Proof.
  intros Ho s. pose proof (apply_op_spec o s) as H.
  destruct o; try discriminate Ho; cbn [fs_effect] in H; apply H.
Qed.

Lemma steps_get_layers_bind (R : fsT -> fsT -> Prop) (R_refl : forall f, R f f) {B} um (k : ldefs -> M B) :
  (forall ld, ld_ok c ld -> steps R (k ld)) -> steps R (bind (get_layers c um) k).
Proof.
  intros H s. unfold st, bind. destruct (get_layers c um s) as [o s1] eqn:Eg.
  pose proof (pres_get_layers c um s) as Hp. rewrite Eg in Hp. cbn [snd] in Hp. subst s1.
  destruct o as [ld| | | |]; cbn [snd]; try apply R_refl.
  apply H. eapply get_layers_ok, Eg.
Qed.

(* somebody overwrites a file outside the export tree by hand *)
Lemma stepsR_edit p x : under E p = false ->
  steps RR (f <- get_fs ;;
            match open_trunc f p with
            | FOk f' => put_fs (append_file f' p x) ;;; ret None
            | FErr => @fail (option ldefs)
            end).
Proof.
  intros Hp s. apply st_get_fs. destruct (open_trunc (fsof s) p) as [f'|] eqn:Ho; [|apply (steps_fail _ RR_refl)].
  unfold st. cbn. intros p0 nd [Hu Hnl] Hg Hd.
  assert (Hne : p0 <> p) by (intros ->; congruence).
  split.
  - rewrite append_file_get by exact Hne. rewrite (open_trunc_get _ _ _ _ Ho Hne). exact Hg.
  - intros q r Hq Hpq. destruct (beq q p) eqn:Eqp.
    + apply beq_eq in Eqp. subst q. exfalso. pose proof (Hd p r Hq Hpq) as Hdir.
      unfold open_trunc, lstat in Ho. rewrite Hdir in Ho. discriminate Ho.
    + apply beq_false in Eqp. rewrite append_file_get by exact Eqp.
      rewrite (open_trunc_get _ _ _ _ Ho Eqp). eapply Hd; eauto.
Qed.

Theorem stepsR_run_command um cmd : edit_ok c cmd = true -> steps RR (run_command e c um cmd).
Proof.
  intros Hedit. destruct cmd; cbn [run_command].
  1: { apply (steps_bind _ RR_trans); [apply stepsR_init_base|intros _; apply (steps_ret _ RR_refl)]. }
  11,12: apply (steps_bind _ RR_trans); [|intros _; apply (steps_ret _ RR_refl)];
         apply (steps_nofs _ RR_refl), nofs_apply_op_kernel; reflexivity.
  11: { cbn [edit_ok] in Hedit. apply negb_true_iff in Hedit. apply stepsR_edit, Hedit. }
  all: apply steps_get_fs; intros f;
       apply (steps_bind _ RR_trans); [apply (steps_guard _ RR_refl)|intros _];
       apply (steps_get_layers_bind _ RR_refl); intros ld Hld;
       apply (steps_bind _ RR_trans); [|intros ld'; apply (steps_ret _ RR_refl)].
  - apply stepsR_add_layer.
  - apply stepsR_remove_layer_a, Hld.
  - apply stepsR_rename_layer_a, Hld.
  - apply stepsR_rebase_layer_a, Hld.
  - apply stepsR_makedirs.
  - apply stepsR_mount_layer, Hld.
  - apply stepsR_unmount.
  - apply stepsR_shake.
  - apply stepsR_chroot_prepare, Hld.
  - apply (steps_ret _ RR_refl).
Qed.

End Clobber.

(* ------------------------------------------------------------------ the decidable form *)
Definition tree_ok (c : cfgT) (f : fsT) : bool :=
  forallb (fun en => if under (c_exports c) (fst en) then dirchainb f (fst en) else true) f.

Definition clobber_spec (c : cfgT) (f f' : fsT) : bool :=
  forallb (fun en => if C16.in_export_tree c (fst en) then
                      match snd en with
                      | Link _ => true
                      | n => opt_beq node_beq (fs_get f' (fst en)) (Some n)
                      end
                    else true) f.

Lemma nodup_get f : LC.nodup_paths (map fst f) = true ->
  forall p n, In (p, n) f -> fs_get f p = Some n.
Proof.
  induction f as [|[q m] r IH]; cbn [map fst LC.nodup_paths]; intros H p n Hin; [destruct Hin|].
  apply andb_true_iff in H as [H1 H2]. cbn [fs_get]. destruct Hin as [Hin|Hin].
  - injection Hin as -> ->. rewrite beq_refl. reflexivity.
  - destruct (beq q p) eqn:Eqp; [|apply IH; assumption]. exfalso.
    apply beq_eq in Eqp. subst q. apply negb_true_iff in H1.
    assert (Hm : memb p (map fst r) = true).
    { unfold memb. apply existsb_exists. exists p. split; [|apply beq_refl].
      apply in_map_iff. exists (p, n). split; [reflexivity|exact Hin]. }
    congruence.
Qed.

Lemma Rel_clobber_spec c f f' :
  LC.nodup_paths (map fst f) = true -> tree_ok c f = true -> Rel (prot_a c) f f' ->
  clobber_spec c f f' = true.
Proof.
  intros Hnd Htree HR. unfold clobber_spec. apply forallb_forall. intros [p n] Hin. cbn [fst snd].
  unfold C16.in_export_tree. destruct (under (c_exports c) p) eqn:Hu; [|reflexivity].
  assert (Hg : fs_get f p = Some n) by (apply nodup_get; assumption).
  assert (Hd : dirchain f p).
  { unfold tree_ok in Htree. rewrite forallb_forall in Htree. specialize (Htree (p, n) Hin).
    cbn [fst] in Htree. rewrite Hu in Htree. apply dirchainb_spec, Htree. }
  destruct n as [|x|t]; [| |reflexivity].
  - destruct (HR p Dir) as [H _]; auto. { split; [exact Hu|discriminate]. } rewrite H. reflexivity.
  - destruct (HR p (File x)) as [H _]; auto. { split; [exact Hu|discriminate]. } rewrite H.
    cbn [opt_beq node_beq]. apply beq_refl.
Qed.
