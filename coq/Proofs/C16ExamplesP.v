(* C16: the hypotheses of the theorems are satisfiable by worlds in which the commands act, and
   each hypothesis is needed: closed witnesses (vm_compute) on which C16.step_spec is false
   when one of them is dropped. *)
From LC Require Import Lib.Bytes Lib.Lex Lib.Fields Lib.PathM Gen.Consts
  Model.MountInfo Model.FsTree Model.Kernel Model.Layers Cases.Verdict Cases.LC Cases.C16
  Proofs.MonadP Proofs.C15P Proofs.C16FsP Proofs.C16ClobberP Proofs.C16RenameP Proofs.C16MountP
  Proofs.C16P.
Import LC LCS.
Open Scope list_scope.

Definition e0 : env := ex_env false NoFault.
Definition d (s : string) : bytes * node := (bs s, Dir).
Definition fl (s : string) (c : string) : bytes * node := (bs s, File (bs c)).
Definition nlc : string := String (Ascii.ascii_of_nat 10) EmptyString.

(* base /b, layers /b/layers, exports /b/export (C15P.ex_cfg); a base layer "a" that is ready to
   mount, with packages/ and generated/ directories, two candidate export sources p1, p2, and
   foreign content in the export tree *)
Definition fs1 (conf : string) : fsT :=
  [d "/"; d "/b"; d "/b/layers"; d "/b/export"; fl "/b/default_layerconfig.skel" "";
   d "/b/layers/a"; fl "/b/layers/a/layerconfig" conf;
   d "/b/layers/a/build"; d "/b/layers/a/build/bin"; d "/b/layers/a/build/etc"; d "/b/layers/a/build/lib";
   d "/b/layers/a/build/opt"; d "/b/layers/a/build/root"; d "/b/layers/a/build/sbin"; d "/b/layers/a/build/usr";
   d "/b/layers/a/build/p1"; d "/b/layers/a/build/p2";
   d "/b/layers/a/packages"; d "/b/layers/a/generated";
   d "/b/export/packages"; fl "/b/export/packages/README" "keep"; fl "/b/export/index.html" "x"].
Definition w1 (conf : string) : wobs := MkWO (fs1 conf) (MkKS [] 2 1).
Definition v1 (conf : string) (cmd : command) : sview := view_of_model ex_cfg (w1 conf) e0 cmd [].

Definition conf_one : string := ("export symlink p1 $$package_export" ++ nlc)%string.
Definition conf_dup : string :=
  ("export symlink p1 $$package_export" ++ nlc ++ "export symlink p2 $$package_export" ++ nlc)%string.
Definition conf_abs : string := ("export symlink p1 /b/export/packages/a" ++ nlc)%string.

(* ------------------------------------------------------------------ the hypotheses are satisfiable *)
(* mount of "a" without directives: 3 operations (symlink, mkdir, symlink), reported Ok *)
Example C16_hyps_mount_nontrivial :
  plain_env e0 = true /\ cfg_ok ex_cfg = true /\ cfg_ok_mount ex_cfg = true
  /\ world_ok ex_cfg (w1 "") = true /\ mount_ok ex_cfg (w1 "") (CMount (bs "a")) = true
  /\ v_res (v1 "" (CMount (bs "a"))) = ROk /\ length (v_log (v1 "" (CMount (bs "a")))) = 3%nat
  /\ readlink (wo_fs (v_after (v1 "" (CMount (bs "a"))))) (bs "/b/export/packages/a") = Some (bs "/b/layers/a/packages").
Proof. vm_compute. repeat split. Qed.

(* mount with one explicit directive: the link goes to the directive's source *)
Example C16_hyps_mount_explicit_nontrivial :
  world_ok ex_cfg (w1 conf_one) = true /\ mount_ok ex_cfg (w1 conf_one) (CMount (bs "a")) = true
  /\ v_res (v1 conf_one (CMount (bs "a"))) = ROk
  /\ readlink (wo_fs (v_after (v1 conf_one (CMount (bs "a"))))) (bs "/b/export/packages/a")
     = Some (bs "/b/layers/a/build/p1").
Proof. vm_compute. repeat split. Qed.

(* rename / remove after a mount has made the links: the links go, the foreign file stays *)
Definition w2 : wobs := v_after (v1 "" (CMount (bs "a"))).
Example C16_hyps_remove_nontrivial :
  world_ok ex_cfg w2 = true /\ rr_of (CRemove (bs "a") false) = Some (bs "a")
  /\ exists_ (wo_fs w2) (bs "/b/export/packages/a") = true
  /\ v_res (view_of_model ex_cfg w2 e0 (CRemove (bs "a") false) []) = ROk
  /\ exists_ (wo_fs (v_after (view_of_model ex_cfg w2 e0 (CRemove (bs "a") false) []))) (bs "/b/export/packages/a") = false
  /\ fs_get (wo_fs (v_after (view_of_model ex_cfg w2 e0 (CRemove (bs "a") false) []))) (bs "/b/export/packages/README")
     = Some (File (bs "keep")).
Proof. vm_compute. repeat split. Qed.
Example C16_hyps_rename_nontrivial :
  rr_of (CRename (bs "a") (bs "z")) = Some (bs "a")
  /\ v_res (view_of_model ex_cfg w2 e0 (CRename (bs "a") (bs "z")) []) = ROk
  /\ length (v_log (view_of_model ex_cfg w2 e0 (CRename (bs "a") (bs "z")) [])) = 5%nat.
Proof. vm_compute. repeat split. Qed.

(* ------------------------------------------------------------------ the former counterexamples to (c) *)
(* two directives name the same entry with different sources: layercake links the LAST source
   (make_symlink_in_dir replaces a symlink that points elsewhere); with the refined predicate
   (explicit_targets = all the sources named for the entry) the world satisfies step_spec and
   is covered by the theorem (mount_ok holds) *)
Example C16_dup_directives_ok :
  plain_env e0 = true /\ cfg_ok ex_cfg = true /\ cfg_ok_mount ex_cfg = true /\ world_ok ex_cfg (w1 conf_dup) = true
  /\ mount_ok ex_cfg (w1 conf_dup) (CMount (bs "a")) = true
  /\ v_res (v1 conf_dup (CMount (bs "a"))) = ROk /\ length (v_log (v1 conf_dup (CMount (bs "a")))) = 5%nat
  /\ readlink (wo_fs (v_after (v1 conf_dup (CMount (bs "a"))))) (bs "/b/export/packages/a")
     = Some (bs "/b/layers/a/build/p2")
  /\ C16.step_spec ex_cfg (w1 conf_dup) (v1 conf_dup (CMount (bs "a"))) = true.
Proof. vm_compute. repeat split. Qed.

(* a directive whose target is written as the absolute path of the link: now recognised as
   explicit through its expanded target *)
Example C16_written_out_target_ok :
  plain_env e0 = true /\ cfg_ok ex_cfg = true /\ cfg_ok_mount ex_cfg = true /\ world_ok ex_cfg (w1 conf_abs) = true
  /\ mount_ok ex_cfg (w1 conf_abs) (CMount (bs "a")) = true
  /\ v_res (v1 conf_abs (CMount (bs "a"))) = ROk
  /\ readlink (wo_fs (v_after (v1 conf_abs (CMount (bs "a"))))) (bs "/b/export/packages/a")
     = Some (bs "/b/layers/a/build/p1")
  /\ C16.step_spec ex_cfg (w1 conf_abs) (v1 conf_abs (CMount (bs "a"))) = true.
Proof. vm_compute. repeat split. Qed.

(* ------------------------------------------------------------------ (c) without chain_own: refuted in the model *)
(* a directive that targets a path which is not one of the layer's own links -- here the
   PARENT of the link, twice, around the directive for the link: the second one finds a symlink
   pointing elsewhere, and the model's textual remove_all takes the link entry listed below it
   along (in a real tree the link would have been created inside build/p2, through the
   symlinked directory: "intermediate symlinked directories are outside wf", Model/FsTree.v) *)
Definition fs3 (conf : string) : fsT :=
  [d "/"; d "/b"; d "/b/layers"; d "/b/export"; fl "/b/default_layerconfig.skel" "";
   d "/b/layers/a"; fl "/b/layers/a/layerconfig" conf;
   d "/b/layers/a/build"; d "/b/layers/a/build/bin"; d "/b/layers/a/build/etc"; d "/b/layers/a/build/lib";
   d "/b/layers/a/build/opt"; d "/b/layers/a/build/root"; d "/b/layers/a/build/sbin"; d "/b/layers/a/build/usr";
   d "/b/layers/a/build/p1"; d "/b/layers/a/build/p2"].
Definition w3 (conf : string) : wobs := MkWO (fs3 conf) (MkKS [] 2 1).
Definition conf_par : string :=
  ("export symlink p2 /b/export/packages" ++ nlc ++ "export symlink p1 $$package_export" ++ nlc
   ++ "export symlink p1 /b/export/packages" ++ nlc)%string.
Definition v3 : sview := view_of_model ex_cfg (w3 conf_par) e0 (CMount (bs "a")) [].
Example C16_after_mount_refuted_foreign_target :
  plain_env e0 = true /\ cfg_ok ex_cfg = true /\ cfg_ok_mount ex_cfg = true /\ world_ok ex_cfg (w3 conf_par) = true
  /\ mount_ok ex_cfg (w3 conf_par) (CMount (bs "a")) = false
  /\ v_res v3 = ROk /\ length (v_log v3) = 4%nat
  /\ exists_ (wo_fs (v_after v3)) (bs "/b/export/packages/a") = false
  /\ C16.step_spec ex_cfg (w3 conf_par) v3 = false.
Proof. vm_compute. repeat split. Qed.

(* ------------------------------------------------------------------ why the well-formedness hypotheses *)
(* an entry below a symlink entry (impossible in a real tree): removing the link takes it along *)
Definition w_sub : wobs :=
  MkWO (fs1 "" ++ [(bs "/b/export/packages/a", Link (bs "/b/layers/a/packages")); fl "/b/export/packages/a/foo" "x"])
       (MkKS [] 2 1).
Example C16_tree_ok_needed :
  cfg_ok ex_cfg = true /\ nodup_paths (map fst (wo_fs w_sub)) = true /\ tree_ok ex_cfg (wo_fs w_sub) = false
  /\ v_res (view_of_model ex_cfg w_sub e0 (CRemove (bs "a") false) []) = ROk
  /\ C16.step_spec ex_cfg w_sub (view_of_model ex_cfg w_sub e0 (CRemove (bs "a") false) []) = false.
Proof. vm_compute. repeat split. Qed.

(* the same path twice: the predicate compares every listed entry with the first match *)
Definition w_dup : wobs := MkWO (fs1 "" ++ [fl "/b/export/index.html" "y"]) (MkKS [] 2 1).
Example C16_nodup_needed :
  nodup_paths (map fst (wo_fs w_dup)) = false
  /\ C16.step_spec ex_cfg w_dup (view_of_model ex_cfg w_dup e0 CProbe []) = false.
Proof. vm_compute. repeat split. Qed.

(* a build root that leaves the layer directory: `add` writes its .bashrc into the export tree *)
Definition cfg_esc : cfgT :=
  MkCfg (bs "/b") (bs "/b/layers") (bs "../../export/q") (bs "packages") (bs "generated")
        (bs "overlayfs/workdir") (bs "overlayfs/upperdir") (bs "/b/export") (bs "packages") (bs "generated").
Definition w_esc : wobs :=
  MkWO (fs1 "" ++ [d "/b/export/q"; d "/b/export/q/root"; fl "/b/export/q/root/.bashrc" "mine"]) (MkKS [] 2 1).
Example C16_cfg_ok_needed :
  cfg_ok cfg_esc = false /\ world_ok cfg_esc w_esc = true
  /\ v_res (view_of_model cfg_esc w_esc e0 (CAdd (bs "z") [] []) []) = ROk
  /\ C16.step_spec cfg_esc w_esc (view_of_model cfg_esc w_esc e0 (CAdd (bs "z") [] []) []) = false.
Proof. vm_compute. repeat split. Qed.

(* the same name for both export sub-directories: one path cannot be both links *)
Definition cfg_same : cfgT :=
  MkCfg (bs "/b") (bs "/b/layers") (bs "build") (bs "packages") (bs "generated")
        (bs "overlayfs/workdir") (bs "overlayfs/upperdir") (bs "/b/export") (bs "packages") (bs "packages").
Example C16_cfg_ok_mount_needed :
  cfg_ok cfg_same = true /\ cfg_ok_mount cfg_same = false /\ world_ok cfg_same (w1 "") = true
  /\ v_res (view_of_model cfg_same (w1 "") e0 (CMount (bs "a")) []) = ROk
  /\ C16.step_spec cfg_same (w1 "") (view_of_model cfg_same (w1 "") e0 (CMount (bs "a")) []) = false.
Proof. vm_compute. repeat split. Qed.

(* a hand edit (CEdit: not layercake) of a file inside the export tree changes a non-symlink
   entry, trivially; outside the export tree it is covered by the theorem *)
Example C16_edit_ok_needed :
  cfg_ok ex_cfg = true /\ world_ok ex_cfg (w1 "") = true
  /\ edit_ok ex_cfg (CEdit (bs "/b/export/index.html") (bs "zz")) = false
  /\ v_res (v1 "" (CEdit (bs "/b/export/index.html") (bs "zz"))) = ROk
  /\ C16.step_spec ex_cfg (w1 "") (v1 "" (CEdit (bs "/b/export/index.html") (bs "zz"))) = false.
Proof. vm_compute. repeat split. Qed.
Example C16_edit_outside_ok :
  edit_ok ex_cfg (CEdit (bs "/b/layers/a/layerconfig") (bs "zz")) = true
  /\ v_res (v1 "" (CEdit (bs "/b/layers/a/layerconfig") (bs "zz"))) = ROk
  /\ C16.step_spec ex_cfg (w1 "") (v1 "" (CEdit (bs "/b/layers/a/layerconfig") (bs "zz"))) = true.
Proof. vm_compute. repeat split. Qed.
