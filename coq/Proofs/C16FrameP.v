(* C16, the frame: what a run of a layercake command can do to the export tree.

   [Rel prot f f']: every protected entry of f that has a chain of directory entries above it
   is still there, unchanged, in f', with its chain.  [AO f f']: f and f' agree outside the
   layers directory.  Both are preorders; AO and extension are included in Rel; removing a
   symlink entry that is not itself protected is in Rel.  Section [Frame] is parametric in
   the protected set, so that it serves "non-symlink entries" (never_clobbers) and
   "entries not named after the layer" (rename / remove). *)
From LC Require Import Lib.Bytes Lib.Lex Lib.Fields Lib.PathM Gen.Consts
  Model.MountInfo Model.FsTree Model.Kernel Model.Layers Cases.Verdict Cases.LC Cases.C16
  Proofs.MonadP Proofs.C15P Proofs.PathP Proofs.C16FsP Proofs.C16MonadP.
Close Scope string_scope.
Open Scope list_scope.

(* ------------------------------------------------------------------ layers as loaded from disk *)
Definition layer_ok (c : cfgT) (l : layer) : Prop :=
  legal_name (l_name l) = true /\ l_path l = layer_path c (l_name l)
  /\ Forall (fun nm => nm_mount nm <> []) (l_exports l).
Definition ld_ok (c : cfgT) (ld : ldefs) : Prop := forall l, In l (ld_map ld) -> layer_ok c l.

Lemma lf_step_exports st line :
  Forall (fun nm => nm_mount nm <> []) (lf_exports st) ->
  Forall (fun nm => nm_mount nm <> []) (lf_exports (lf_step st line)).
Proof.
  intros H. unfold lf_step.
  repeat match goal with
  | |- context [if ?b then _ else _] => destruct b
  | |- context [match ?x with _ => _ end] => destruct x
  end; cbn [lf_exports]; try exact H.
  apply Forall_app. split; [exact H|]. constructor; [|constructor]. cbn [nm_mount]. apply clean_nonempty.
Qed.

Lemma read_layerfile_exports content :
  Forall (fun nm => nm_mount nm <> []) (lf_exports (read_layerfile content)).
Proof.
  unfold read_layerfile.
  assert (G : forall ls st, Forall (fun nm => nm_mount nm <> []) (lf_exports st) ->
            Forall (fun nm => nm_mount nm <> []) (lf_exports (fold_left lf_step ls st))).
  { induction ls as [|x r IH]; intros st H; cbn [fold_left]; [exact H|]. apply IH, lf_step_exports, H. }
  apply G. constructor.
Qed.

Lemma load_layer_ok c f n l : legal_name n = true -> load_layer c f n = Some l -> layer_ok c l /\ l_name l = n.
Proof.
  intros Hn. unfold load_layer.
  destruct (if is_file f _ then read_file f _ else None) as [content|]; [|discriminate].
  intros H. injection H as <-. unfold layer_ok. cbn [l_name l_path l_exports].
  repeat split; auto. apply read_layerfile_exports.
Qed.

Lemma read_layer_files_ok c f l : In l (read_layer_files c f) -> layer_ok c l.
Proof.
  unfold read_layer_files. generalize (Lex.sort (children f (c_layers c))) as names.
  induction names as [|n r IH]; cbn [fold_right]; [intros []|].
  destruct (legal_name n) eqn:Hn; [|exact IH].
  destruct (load_layer c f n) as [l0|] eqn:El; [|exact IH].
  intros [<-|Hin]; [|apply IH, Hin]. apply (load_layer_ok c f n l0 Hn El).
Qed.

Lemma layer_ok_static c l l' : static l = static l' -> layer_ok c l -> layer_ok c l'.
Proof.
  intros Hs (H1 & H2 & H3). unfold layer_ok.
  rewrite <- (static_name _ _ Hs), <- (static_path _ _ Hs), <- (static_exports _ _ Hs). auto.
Qed.

Lemma get_layers_ok c um s ld s' : get_layers c um s = (Ret ld, s') -> s' = s /\ ld_ok c ld.
Proof.
  intros H. destruct (get_layers_ret c um s ld s' H) as [-> Hm]. split; [reflexivity|].
  intros l Hl. apply (in_map static) in Hl. rewrite Hm in Hl. apply in_map_iff in Hl as (l0 & Hs & Hin).
  eapply layer_ok_static; [exact Hs|]. eapply read_layer_files_ok, Hin.
Qed.

Lemma test_name_need m n : test_name m n NNeed = true -> n <> [] /\ legal_name n = true.
Proof.
  unfold test_name. destruct n as [|ch r]; [discriminate|]. intros H.
  apply andb_true_iff in H as [H _]. split; [discriminate|exact H].
Qed.
Lemma test_name_free m n : test_name m n NFree = true -> n <> [] /\ legal_name n = true.
Proof.
  unfold test_name. destruct n as [|ch r]; [discriminate|]. intros H.
  apply andb_true_iff in H as [H _]. split; [discriminate|exact H].
Qed.

Lemma pathjoin_nonempty x rest : x <> [] -> pathjoin (x :: rest) <> [].
Proof.
  intros Hx. unfold pathjoin. cbn [filter].
  assert (E : beq x [] = false) by (apply beq_false; exact Hx). rewrite E. cbn [negb].
  apply clean_nonempty.
Qed.

(* ------------------------------------------------------------------ the frame *)
Section Frame.
Variable c : cfgT.
Notation E := (c_exports c).
Notation L := (c_layers c).
Hypothesis E_ne : E <> [].
Hypothesis L_ne : L <> [].
Hypothesis E_nr : beq E root = false.
Hypothesis L_nr : beq L root = false.
Hypothesis EL : at_or_under E L = false.
Hypothesis LE : at_or_under L E = false.

Variable prot : bytes -> node -> Prop.
Hypothesis prot_E : forall p nd, prot p nd -> under E p = true.

Definition Rel (f f' : fsT) : Prop :=
  forall p nd, prot p nd -> fs_get f p = Some nd -> dirchain f p ->
    fs_get f' p = Some nd /\ dirchain f' p.

Lemma Rel_refl f : Rel f f.
Proof. intros p nd _ H1 H2. auto. Qed.
Lemma Rel_trans f1 f2 f3 : Rel f1 f2 -> Rel f2 f3 -> Rel f1 f3.
Proof. intros H12 H23 p nd Hp H1 H2. destruct (H12 p nd Hp H1 H2) as [H3 H4]. exact (H23 p nd Hp H3 H4). Qed.

Lemma Rel_ext f f' : ext f f' -> Rel f f'.
Proof. intros He p nd _ H1 H2. split; [apply He, H1|eapply dirchain_ext; eauto]. Qed.

(* agreement outside the layers directory *)
Definition AO (f f' : fsT) : Prop := forall q, at_or_under L q = false -> fs_get f' q = fs_get f q.
Lemma AO_refl f : AO f f.
Proof. intros q _. reflexivity. Qed.
Lemma AO_trans f1 f2 f3 : AO f1 f2 -> AO f2 f3 -> AO f1 f3.
Proof. intros H12 H23 q Hq. rewrite (H23 q Hq). apply H12, Hq. Qed.

(* an export entry and its ancestors are outside the layers directory *)
Lemma export_outside p : under E p = true -> at_or_under L p = false.
Proof.
  intros Hp. destruct (at_or_under L p) eqn:H; [|reflexivity]. exfalso.
  exact (disjoint_subtrees E L p E_ne L_ne E_nr L_nr EL LE Hp H).
Qed.
Lemma export_anc_outside q r : under E (q ++ sl :: r) = true -> at_or_under L q = false.
Proof.
  intros Hp. destruct (at_or_under L q) eqn:H; [|reflexivity]. exfalso.
  apply (disjoint_subtrees E L (q ++ sl :: r) E_ne L_ne E_nr L_nr EL LE Hp).
  apply (at_or_under_sub L _ L_nr). right. apply (at_or_under_sub L q L_nr) in H.
  destruct H as [->|H]; [exists r; reflexivity|]. eapply sub_trans; [exact H|]. exists r. reflexivity.
Qed.

Lemma Rel_AO f f' : AO f f' -> Rel f f'.
Proof.
  intros Ha p nd Hp H1 H2. pose proof (prot_E p nd Hp) as Hu. split.
  - rewrite (Ha p (export_outside p Hu)). exact H1.
  - intros q r Hq ->. rewrite (Ha q (export_anc_outside q r Hu)). eapply H2; eauto.
Qed.

(* removing a symlink entry that is not itself protected *)
Lemma Rel_rm_link f T t f' :
  T <> [] -> fs_get f T = Some (Link t) -> ~ prot T (Link t) -> remove_all f T = FOk f' -> Rel f f'.
Proof.
  intros HT HL Hnp Hrm p nd Hp H1 H2.
  assert (Hr : beq T root = false).
  { unfold remove_all in Hrm. destruct (beq T root); [discriminate|reflexivity]. }
  assert (Hout : at_or_under T p = false).
  { destruct (at_or_under T p) eqn:Hat; [|reflexivity]. exfalso.
    unfold at_or_under in Hat. apply orb_true_iff in Hat as [Hat|Hat].
    - apply beq_eq in Hat. subst p. rewrite HL in H1. injection H1 as <-. contradiction.
    - exact (dirchain_not_under_link f p T t HT Hr HL H2 Hat). }
  split.
  - rewrite (remove_all_get f T f' p Hrm), Hout. exact H1.
  - intros q r Hq Hpq. rewrite (remove_all_get f T f' q Hrm).
    destruct (at_or_under T q) eqn:Hat; [|eapply H2; eauto]. exfalso.
    assert (Hat' : at_or_under T p = true).
    { apply (at_or_under_sub T p Hr). right. apply (at_or_under_sub T q Hr) in Hat. subst p.
      destruct Hat as [->|Hat]; [exists r; reflexivity|]. eapply sub_trans; [exact Hat|]. exists r. reflexivity. }
    congruence.
Qed.

(* ---- monad level *)
Variable e : env.
Hypothesis He : plain e.

Notation stepsR := (steps Rel).
Notation stepsA := (steps AO).

Lemma stepsR_of_A {A} (m : M A) : stepsA m -> stepsR m.
Proof. intros H s. apply Rel_AO, H. Qed.

Lemma steps_guard_bind (R : fsT -> fsT -> Prop) (R_refl : forall f, R f f) {B} b (k : unit -> M B) :
  (b = true -> steps R (k tt)) -> steps R (bind (guard b) k).
Proof.
  intros H. destruct b; intros s.
  - exact (H eq_refl s).
  - unfold st. cbn. apply R_refl.
Qed.

Lemma steps_try_cleanup (R : fsT -> fsT -> Prop) (R_trans : forall a b d, R a b -> R b d -> R a d)
  {A} (m : M A) (h : M unit) : steps R m -> steps R h -> steps R (try_cleanup m h).
Proof.
  intros Hm Hh s. unfold st, try_cleanup. specialize (Hm s). unfold st in Hm.
  destruct (m s) as [o s1]. cbn [snd] in Hm. destruct o; cbn [snd]; try exact Hm.
  eapply R_trans; [exact Hm|]. apply Hh.
Qed.

(* paths under the layers directory *)
Lemma sub_L_neq p q : under L p = true -> at_or_under L q = false -> q <> p.
Proof. intros Hp Hq ->. rewrite (under_at_or_under _ _ Hp) in Hq. discriminate. Qed.
Lemma sub_L_out p q : under L p = true -> at_or_under L q = false -> at_or_under p q = false.
Proof.
  intros Hp Hq. destruct (at_or_under p q) eqn:H; [|reflexivity].
  rewrite (under_at_or_under _ _ (under_trans L p q L_ne L_nr Hp H)) in Hq. discriminate.
Qed.

Lemma stepsA_open p : under L p = true -> stepsA (do_op e (OOpen p)).
Proof.
  intros Hp s. apply st_do_op; [apply AO_refl|exact He|]. cbn [fs_effect]. intros f' Hf q Hq.
  apply (open_trunc_get _ _ _ _ Hf). eapply sub_L_neq; eauto.
Qed.

Lemma stepsA_rename a b0 : under L a = true -> under L b0 = true -> stepsA (fs_rename e a b0).
Proof.
  intros Ha Hb s. apply st_do_op; [apply AO_refl|exact He|]. cbn [fs_effect]. intros f' Hf q Hq.
  apply (rename_get _ _ _ _ _ Hf); eapply sub_L_out; eauto.
Qed.

Lemma stepsA_remove p : under L p = true -> stepsA (fs_remove e p).
Proof.
  intros Hp s. apply st_do_op; [apply AO_refl|exact He|]. cbn [fs_effect]. intros f' Hf q Hq.
  rewrite (remove_all_get _ _ _ q Hf). rewrite (sub_L_out p q Hp Hq). reflexivity.
Qed.

Lemma stepsA_write_text p x : under L p = true -> stepsA (fs_write_text e p x).
Proof.
  intros Hp s. apply st_mutate; [exact He|]. intros s1 _.
  unfold bind, get_fs. fold (fsof s1).
  destruct (write_text (fsof s1) p x) as [f'|] eqn:Hw.
  - cbn. intros q Hq. apply (write_text_get _ _ _ _ _ Hw). eapply sub_L_neq; eauto.
  - cbn. apply AO_refl.
Qed.

Lemma stepsA_cursor_writes tmp chunks : under L tmp = true -> stepsA (cursor_writes e tmp chunks).
Proof.
  intros Hp. induction chunks as [|x r IH]; cbn [cursor_writes]; [apply steps_ret, AO_refl|].
  apply steps_bind; [exact AO_trans| |intros _; exact IH].
  intros s. apply st_mutate; [exact He|]. intros s1 _. cbn. intros q Hq.
  apply append_file_get. eapply sub_L_neq; eauto.
Qed.

Lemma stepsA_drop_tmp tmp : under L tmp = true -> stepsA (drop_tmp tmp).
Proof.
  intros Hp s. unfold st, drop_tmp. cbn. intros q Hq. apply drop_get. eapply sub_L_neq; eauto.
Qed.

Lemma stepsA_wfa p chunks : under L p = true -> stepsA (write_file_atomically e p chunks).
Proof.
  intros Hp s. unfold st. rewrite wfa_eq.
  assert (Ht : under L (p ++ tmp_suffix) = true) by (apply under_app; assumption).
  revert s. change (stepsA (wfa_body e p chunks)). unfold wfa_body.
  apply steps_bind; [exact AO_trans|apply stepsA_open, Ht|intros _].
  apply steps_try_cleanup; [exact AO_trans| |apply stepsA_drop_tmp, Ht].
  apply steps_bind; [exact AO_trans|apply stepsA_cursor_writes, Ht|intros _].
  apply stepsA_rename; assumption.
Qed.

(* the configuration facts the commands rely on (discharged in C16P from decidable checks) *)
Hypothesis HP_layer : forall n, legal_name n = true -> n <> [] -> under L (layer_path c n) = true.
Hypothesis HP_conf : forall n, legal_name n = true ->
  under L (pathjoin [layer_path c n; D_LayerconfigFile]) = true.

Lemma stepsA_write_layerfile' l : legal_name (l_name l) = true -> l_path l = layer_path c (l_name l) ->
  stepsA (write_layerfile e l).
Proof.
  intros H1 H2. unfold write_layerfile, layerconfig_path. apply stepsA_wfa.
  rewrite H2. apply HP_conf, H1.
Qed.
Lemma stepsA_write_layerfile l : layer_ok c l -> stepsA (write_layerfile e l).
Proof. intros (H1 & H2 & _). apply stepsA_write_layerfile'; assumption. Qed.

(* removing the export links of a layer: only symlink entries go *)
Lemma stepsR_remove_export_links l :
  (forall lt, In lt (automated_exports c l) -> forall t, ~ prot (fst lt) (Link t)) ->
  stepsR (remove_export_links e c l).
Proof.
  intros Hnp. unfold remove_export_links. apply steps_mapM_; [exact Rel_refl|exact Rel_trans|].
  intros lt Hlt s. apply st_get_fs.
  destruct (negb (exists_ (fsof s) (fst lt))); [apply steps_ret, Rel_refl|].
  destruct (negb (is_symlink (fsof s) (fst lt))) eqn:Hs; [apply steps_fail, Rel_refl|].
  apply negb_false_iff in Hs. unfold is_symlink, lstat in Hs.
  destruct (fs_get (fsof s) (fst lt)) as [[| |t]|] eqn:Hg; try discriminate Hs.
  apply st_do_op; [apply Rel_refl|exact He|]. cbn [fs_effect]. intros f' Hf.
  eapply Rel_rm_link; [|exact Hg|apply Hnp, Hlt|exact Hf].
  unfold automated_exports in Hlt. destruct Hlt as [<-|[<-|[]]]; cbn [fst]; apply pathjoin_nonempty, E_ne.
Qed.

Lemma children_in_order_in m n k : In k (children_in_order e m n) -> In k m.
Proof.
  unfold children_in_order. intros H. apply in_app_or in H as [H|H].
  - apply in_flat_map in H as (x & _ & H).
    destruct (lm_get (filter (fun l => beq (l_base l) n) m) x) as [l0|] eqn:El; [|destruct H].
    destruct H as [<-|[]]. apply lm_get_in in El as [El _]. apply filter_In in El. apply El.
  - apply filter_In in H as [H _]. apply filter_In in H. apply H.
Qed.

Lemma layer_ok_set_base k b0 : layer_ok c k -> layer_ok c (set_base k b0).
Proof. intros H. exact H. Qed.

Lemma stepsR_remove_layer ld name files :
  ld_ok c ld ->
  (forall l, l_name l = name ->
     forall lt, In lt (automated_exports c l) -> forall t, ~ prot (fst lt) (Link t)) ->
  stepsR (remove_layer e c ld name files).
Proof.
  intros Hld Hnp. unfold remove_layer.
  apply steps_guard_bind; [exact Rel_refl|intros Hg]. destruct (test_name_need _ _ Hg) as [Hne Hleg].
  destruct (lm_get (ld_map ld) name) as [l|] eqn:El; [|apply steps_panic, Rel_refl].
  destruct (lm_get_in _ _ _ El) as [Hin Hnm]. destruct (Hld l Hin) as (_ & Hpath & _).
  assert (HuL : under L (l_path l) = true) by (rewrite Hpath, Hnm; apply HP_layer; assumption).
  apply steps_bind; [exact Rel_trans|apply steps_guard, Rel_refl|intros _].
  apply steps_bind; [exact Rel_trans|apply steps_guard, Rel_refl|intros _].
  apply steps_bind; [exact Rel_trans|apply steps_guard, Rel_refl|intros _].
  apply steps_bind; [exact Rel_trans|apply stepsR_remove_export_links, Hnp, Hnm|intros _].
  apply steps_get_fs. intros f.
  apply steps_bind; [exact Rel_trans| |intros _; apply steps_renormalize, Rel_refl].
  destruct (files || pristine_tree c f l).
  - apply stepsR_of_A, stepsA_remove, HuL.
  - cbv zeta. destruct (exists_ f (l_path l ++ D_RemovedLayerSuffix)); [apply steps_fail, Rel_refl|].
    apply stepsR_of_A, stepsA_rename; [exact HuL|apply under_app; assumption].
Qed.

Lemma stepsR_rename_layer ld oldname newname :
  ld_ok c ld ->
  (forall l, l_name l = oldname ->
     forall lt, In lt (automated_exports c l) -> forall t, ~ prot (fst lt) (Link t)) ->
  stepsR (rename_layer e c ld oldname newname).
Proof.
  intros Hld Hnp. unfold rename_layer.
  apply steps_guard_bind; [exact Rel_refl|intros Hg]. apply andb_true_iff in Hg as [Hg1 Hg2].
  destruct (test_name_need _ _ Hg1) as [Hne Hleg]. destruct (test_name_free _ _ Hg2) as [Hne2 Hleg2].
  destruct (lm_get (ld_map ld) oldname) as [l|] eqn:El; [|apply steps_panic, Rel_refl].
  destruct (lm_get_in _ _ _ El) as [Hin Hnm]. destruct (Hld l Hin) as (_ & Hpath & Hexp).
  assert (HuL : under L (l_path l) = true) by (rewrite Hpath, Hnm; apply HP_layer; assumption).
  apply steps_bind; [exact Rel_trans|apply steps_guard, Rel_refl|intros _].
  apply steps_bind; [exact Rel_trans|apply steps_guard, Rel_refl|intros _].
  cbv zeta.
  apply steps_bind; [exact Rel_trans|apply steps_guard, Rel_refl|intros _].
  apply steps_bind; [exact Rel_trans|apply stepsR_remove_export_links, Hnp, Hnm|intros _].
  apply steps_bind; [exact Rel_trans| |intros _].
  { apply stepsR_of_A, stepsA_rename; [exact HuL|apply HP_layer; assumption]. }
  apply steps_bind; [exact Rel_trans| |intros _].
  { apply steps_mapM_; [exact Rel_refl|exact Rel_trans|]. intros k Hk.
    apply stepsR_of_A, stepsA_write_layerfile, layer_ok_set_base, Hld.
    eapply children_in_order_in, Hk. }
  apply steps_bind; [exact Rel_trans|apply steps_renormalize, Rel_refl|intros ld'].
  apply steps_bind; [exact Rel_trans| |intros _; apply steps_ret, Rel_refl].
  apply stepsR_of_A, stepsA_write_layerfile. unfold layer_ok. cbn [set_name_path l_name l_path l_exports].
  auto.
Qed.

Lemma stepsR_rebase_layer ld name newbase : ld_ok c ld -> stepsR (rebase_layer e c ld name newbase).
Proof.
  intros Hld. unfold rebase_layer.
  apply steps_bind; [exact Rel_trans|apply steps_guard, Rel_refl|intros _].
  destruct (lm_get (ld_map ld) name) as [l|] eqn:El; [|apply steps_panic, Rel_refl].
  destruct (lm_get_in _ _ _ El) as [Hin Hnm].
  apply steps_bind; [exact Rel_trans|apply steps_guard, Rel_refl|intros _].
  apply steps_bind; [exact Rel_trans|apply steps_guard, Rel_refl|intros _].
  cbv zeta.
  apply steps_bind; [exact Rel_trans|apply steps_guard, Rel_refl|intros _].
  apply steps_bind; [exact Rel_trans|apply steps_guard, Rel_refl|intros _].
  apply steps_bind; [exact Rel_trans|apply steps_renormalize, Rel_refl|intros ld'].
  apply steps_bind; [exact Rel_trans| |intros _; apply steps_ret, Rel_refl].
  apply stepsR_of_A, stepsA_write_layerfile, layer_ok_set_base, Hld, Hin.
Qed.

End Frame.
