(* File-tree facts used by the C16 proofs: [fs_get] through the list operations of
   Model/FsTree.v, string-level facts about [under] / [at_or_under], and for every mutating
   operation of the tree the set of paths whose lookup can change. *)
From LC Require Import Lib.Bytes Lib.Lex Lib.Fields Lib.PathM Model.FsTree.
Close Scope string_scope.
Open Scope list_scope.

(* ------------------------------------------------------------------ strings *)
Lemma beq_eq a b : beq a b = true -> a = b.
Proof. apply beq_true. Qed.

Lemma prefixb_app p r : prefixb p (p ++ r) = true.
Proof. apply prefixb_spec. exists r. reflexivity. Qed.

Lemma prefixb_false p s : prefixb p s = false <-> ~ exists r, s = p ++ r.
Proof.
  split.
  - intros H Hex. apply prefixb_spec in Hex. congruence.
  - intros H. destruct (prefixb p s) eqn:E; [|reflexivity]. apply prefixb_spec in E. contradiction.
Qed.

(* two prefixes of one string are comparable *)
Lemma app_eq_comparable {A} (a : list A) : forall b x y,
  a ++ x = b ++ y -> (exists t, b = a ++ t) \/ (exists t, a = b ++ t).
Proof.
  induction a as [|c a IH]; intros b x y H.
  - left. exists b. reflexivity.
  - destruct b as [|d b].
    + right. exists (c :: a). reflexivity.
    + cbn in H. injection H as -> H. destruct (IH b x y H) as [[t ->]|[t ->]].
      * left. exists t. reflexivity.
      * right. exists t. reflexivity.
Qed.

Lemma skipn_app_len {A} (a x : list A) : skipn (length a) (a ++ x) = x.
Proof. induction a; cbn; auto. Qed.

Lemma root_len : root = [sl].
Proof. reflexivity. Qed.

(* [sub d q]: q lies strictly below d, as strings *)
Definition sub (d q : bytes) : Prop := exists r, q = d ++ sl :: r.

Lemma sub_trans a b q : sub a b -> sub b q -> sub a q.
Proof. intros [r1 ->] [r2 ->]. exists (r1 ++ sl :: r2). rewrite <- app_assoc. reflexivity. Qed.

Lemma sub_neq d q : sub d q -> q <> d.
Proof.
  intros [r ->] H. apply (f_equal (@length _)) in H. rewrite app_length in H. cbn in H. lia.
Qed.

Lemma under_sub d q : beq d root = false -> (under d q = true <-> sub d q).
Proof.
  intros Hd. unfold under. rewrite Hd. rewrite prefixb_spec. unfold sub. split.
  - intros [r ->]. exists r. rewrite <- app_assoc. reflexivity.
  - intros [r ->]. exists r. rewrite <- app_assoc. reflexivity.
Qed.

Lemma at_or_under_sub d q : beq d root = false -> (at_or_under d q = true <-> q = d \/ sub d q).
Proof.
  intros Hd. unfold at_or_under. rewrite orb_true_iff, beq_true, (under_sub d q Hd). tauto.
Qed.

Lemma at_or_under_refl d : at_or_under d d = true.
Proof. unfold at_or_under. rewrite beq_refl. reflexivity. Qed.

Lemma under_at_or_under d q : under d q = true -> at_or_under d q = true.
Proof. intros H. unfold at_or_under. rewrite H. apply orb_true_r. Qed.

(* below a non-root, non-empty directory nothing is the root *)
Lemma sub_not_root d q : d <> [] -> sub d q -> beq q root = false.
Proof.
  intros Hd [r ->]. apply beq_false. intros H. apply (f_equal (@length _)) in H.
  rewrite app_length in H. cbn in H. destruct d; [congruence|]. cbn in H. lia.
Qed.

Lemma under_trans a b q : a <> [] -> beq a root = false ->
  under a b = true -> at_or_under b q = true -> under a q = true.
Proof.
  intros Ha Hr Hab Hbq. apply (under_sub a b Hr) in Hab.
  assert (Hb : beq b root = false) by (eapply sub_not_root; eauto).
  apply (at_or_under_sub b q Hb) in Hbq. apply (under_sub a q Hr).
  destruct Hbq as [->|Hbq]; [exact Hab|]. eapply sub_trans; eauto.
Qed.

Lemma at_or_under_trans a b q : a <> [] -> beq a root = false ->
  at_or_under a b = true -> at_or_under b q = true -> at_or_under a q = true.
Proof.
  intros Ha Hr Hab Hbq. unfold at_or_under in Hab. apply orb_true_iff in Hab as [Hab|Hab].
  - apply beq_eq in Hab. subst b. exact Hbq.
  - apply under_at_or_under. eapply under_trans; eauto.
Qed.

(* a suffix appended to something below d stays below d *)
Lemma under_app d p x : beq d root = false -> under d p = true -> under d (p ++ x) = true.
Proof.
  intros Hd H. apply (under_sub d _ Hd) in H. apply (under_sub d _ Hd).
  destruct H as [r ->]. exists (r ++ x). rewrite <- app_assoc. reflexivity.
Qed.

(* two directories neither of which is at or under the other have disjoint subtrees *)
Lemma disjoint_subtrees a b p :
  a <> [] -> b <> [] -> beq a root = false -> beq b root = false ->
  at_or_under a b = false -> at_or_under b a = false ->
  under a p = true -> at_or_under b p = true -> False.
Proof.
  intros Ha Hb Hra Hrb Hab Hba Hap Hbp.
  apply (under_sub a p Hra) in Hap. apply (at_or_under_sub b p Hrb) in Hbp.
  assert (Nab : ~ (b = a \/ sub a b)).
  { intros H. apply (at_or_under_sub a b Hra) in H. congruence. }
  assert (Nba : ~ (a = b \/ sub b a)).
  { intros H. apply (at_or_under_sub b a Hrb) in H. congruence. }
  destruct Hap as [r1 E1]. destruct Hbp as [->|[r2 E2]].
  - apply Nab. right. exists r1. exact E1.
  - rewrite E1 in E2.
    assert (E3 : (a ++ [sl]) ++ r1 = (b ++ [sl]) ++ r2) by (rewrite <- !app_assoc; exact E2).
    destruct (app_eq_comparable _ _ _ _ E3) as [[t Ht]|[t Ht]].
    + destruct t as [|c t] using rev_ind.
      * rewrite app_nil_r in Ht. apply app_inj_tail in Ht as [Ht _]. apply Nab. now left.
      * clear IHt. rewrite !app_assoc in Ht. apply app_inj_tail in Ht as [Ht _].
        rewrite <- app_assoc in Ht. apply Nab. right. exists t. exact Ht.
    + destruct t as [|c t] using rev_ind.
      * rewrite app_nil_r in Ht. apply app_inj_tail in Ht as [Ht _]. apply Nba. now left.
      * clear IHt. rewrite !app_assoc in Ht. apply app_inj_tail in Ht as [Ht _].
        rewrite <- app_assoc in Ht. apply Nba. right. exists t. exact Ht.
Qed.

(* ------------------------------------------------------------------ fs_get through list operations *)
Lemma fs_get_app f g p :
  fs_get (f ++ g) p = match fs_get f p with Some x => Some x | None => fs_get g p end.
Proof.
  induction f as [|[q n] r IH]; cbn [app fs_get]; [reflexivity|].
  destruct (beq q p); [reflexivity|exact IH].
Qed.

Lemma fs_get_snoc f q n p :
  fs_get (f ++ [(q, n)]) p =
  match fs_get f p with Some x => Some x | None => if beq q p then Some n else None end.
Proof. rewrite fs_get_app. reflexivity. Qed.

Lemma fs_get_filter (P : bytes -> bool) f p :
  fs_get (filter (fun e => P (fst e)) f) p = if P p then fs_get f p else None.
Proof.
  induction f as [|[q n] r IH]; cbn [filter fs_get fst].
  - destruct (P p); reflexivity.
  - destruct (P q) eqn:EP; cbn [fs_get]; destruct (beq q p) eqn:E.
    + apply beq_eq in E. subst q. rewrite EP. reflexivity.
    + exact IH.
    + apply beq_eq in E. subst q. rewrite IH, EP. reflexivity.
    + exact IH.
Qed.

Lemma fs_get_set f q n p : fs_get (fs_set f q n) p = if beq q p then Some n else fs_get f p.
Proof.
  induction f as [|[q' m] r IH]; cbn [fs_set fs_get].
  - reflexivity.
  - destruct (beq q' q) eqn:E1; cbn [fs_get].
    + apply beq_eq in E1. subst q'. destruct (beq q p); reflexivity.
    + destruct (beq q' p) eqn:E2.
      * apply beq_eq in E2. subst q'. rewrite beq_sym in E1. rewrite E1. reflexivity.
      * exact IH.
Qed.

Lemma fs_get_in f p n : fs_get f p = Some n -> In (p, n) f.
Proof.
  induction f as [|[q m] r IH]; cbn [fs_get]; [discriminate|].
  destruct (beq q p) eqn:E.
  - intros H. injection H as ->. apply beq_eq in E. subst. now left.
  - intros H. right. now apply IH.
Qed.

(* ------------------------------------------------------------------ moving a subtree *)
Lemma moved_key_at_b a b q : at_or_under a q = true -> at_or_under b (b ++ rel_suffix a q) = true.
Proof.
  intros H. unfold rel_suffix. destruct (beq a root) eqn:Ha.
  - destruct (beq q root) eqn:Hq.
    + rewrite app_nil_r. apply at_or_under_refl.
    + unfold at_or_under, under in H. rewrite Ha, Hq in H. cbn [orb] in H.
      apply beq_eq in Ha. subst a. rewrite beq_sym in Hq.
      assert (Hq' : beq q root = false) by (rewrite beq_sym; exact Hq).
      rewrite beq_sym in H. rewrite Hq in H. cbn [orb] in H.
      apply andb_true_iff in H as [Habs _]. destruct q as [|ch q']; [discriminate|].
      cbn in Habs. apply Ascii.eqb_eq in Habs. subst ch.
      apply under_at_or_under. unfold under. destruct (beq b root) eqn:Hb.
      * apply beq_eq in Hb. subst b. cbn. reflexivity.
      * apply prefixb_spec. exists q'. rewrite <- app_assoc. reflexivity.
  - apply (at_or_under_sub a q Ha) in H. destruct H as [->|[r ->]].
    + replace (skipn (length a) a) with (@nil ascii).
      * rewrite app_nil_r. apply at_or_under_refl.
      * symmetry. rewrite <- (app_nil_r a) at 2. apply skipn_app_len.
    + rewrite skipn_app_len. apply under_at_or_under. unfold under. destruct (beq b root) eqn:Hb.
      * apply beq_eq in Hb. subst b. cbn. reflexivity.
      * apply prefixb_spec. exists r. rewrite <- app_assoc. reflexivity.
Qed.

Lemma fs_get_move a b f p :
  at_or_under a p = false -> at_or_under b p = false ->
  fs_get (map (move_entry a b) f) p = fs_get f p.
Proof.
  intros Ha Hb. induction f as [|[q n] r IH]; cbn [map fs_get]; [reflexivity|].
  unfold move_entry at 1. cbn [fst snd]. destruct (at_or_under a q) eqn:Hq.
  - cbn [fs_get]. destruct (beq (b ++ rel_suffix a q) p) eqn:E1.
    + apply beq_eq in E1. subst p. rewrite moved_key_at_b in Hb by exact Hq. discriminate.
    + destruct (beq q p) eqn:E2; [|exact IH]. apply beq_eq in E2. subst q. congruence.
  - cbn [fs_get]. destruct (beq q p); [reflexivity|exact IH].
Qed.

(* ------------------------------------------------------------------ the operations *)
(* extension: every lookup that succeeded still gives the same node *)
Definition ext (f f' : fsT) : Prop := forall q x, fs_get f q = Some x -> fs_get f' q = Some x.
Lemma ext_refl f : ext f f.
Proof. intros q x H. exact H. Qed.
Lemma ext_trans a b c : ext a b -> ext b c -> ext a c.
Proof. intros H1 H2 q x H. apply H2, H1, H. Qed.
Lemma ext_snoc f q n : ext f (f ++ [(q, n)]).
Proof. intros p x H. rewrite fs_get_snoc, H. reflexivity. Qed.

(* mkdir_all: only appends directories, at paths that did not exist, all among the prefixes *)
Lemma mkdir_prefixes_spec ps : forall f f', mkdir_prefixes f ps = FOk f' ->
  ext f f' /\ forall q, fs_get f q = None ->
    fs_get f' q = None \/ (fs_get f' q = Some Dir /\ In q ps).
Proof.
  induction ps as [|a r IH]; intros f f' H; cbn [mkdir_prefixes] in H.
  - injection H as <-. split; [apply ext_refl|]. intros q Hq. now left.
  - destruct (stat f a) as [[| |]|] eqn:Es; try discriminate H.
    + destruct (IH _ _ H) as [He Hn]. split; [exact He|]. intros q Hq.
      destruct (Hn q Hq) as [Hn'|[Hd Hin]]; [now left|right; split; [exact Hd|now right]].
    + destruct (lstat f a) eqn:El; [discriminate H|].
      destruct (IH _ _ H) as [He Hn]. split.
      * eapply ext_trans; [apply ext_snoc|exact He].
      * intros q Hq. destruct (beq a q) eqn:Eaq.
        -- apply beq_eq in Eaq. subst q. right. split; [|now left].
           apply He. rewrite fs_get_snoc, Hq, beq_refl. reflexivity.
        -- assert (Hq' : fs_get (f ++ [(a, Dir)]) q = None) by (rewrite fs_get_snoc, Hq, Eaq; reflexivity).
           destruct (Hn q Hq') as [Hn'|[Hd Hin]]; [now left|right; split; [exact Hd|now right]].
Qed.

Lemma mkdir_all_ext f p f' : mkdir_all f p = FOk f' -> ext f f'.
Proof.
  unfold mkdir_all. destruct (is_dir f p); [intros H; injection H as <-; apply ext_refl|].
  destruct (names_fit p); [|discriminate]. intros H. apply (mkdir_prefixes_spec _ _ _ H).
Qed.

Lemma mkdir_all_new f p f' q : mkdir_all f p = FOk f' -> fs_get f q = None ->
  fs_get f' q = None \/ (fs_get f' q = Some Dir /\ In q (prefixes p)).
Proof.
  unfold mkdir_all. destruct (is_dir f p); [intros H Hq; injection H as <-; now left|].
  destruct (names_fit p); [|discriminate]. intros H. apply (mkdir_prefixes_spec _ _ _ H).
Qed.

Lemma symlink_spec f l t f' : symlink f l t = FOk f' ->
  fs_get f l = None /\ f' = f ++ [(l, Link t)].
Proof.
  unfold symlink, lstat. destruct (fs_get f l); [discriminate|].
  destruct (is_dir f (pathdir l) && names_fit l); [|discriminate]. intros H. injection H as <-. auto.
Qed.

Lemma symlink_ext f l t f' : symlink f l t = FOk f' -> ext f f'.
Proof. intros H. destruct (symlink_spec _ _ _ _ H) as [_ ->]. apply ext_snoc. Qed.

Lemma remove_all_get f p f' q : remove_all f p = FOk f' ->
  fs_get f' q = if at_or_under p q then None else fs_get f q.
Proof.
  unfold remove_all. destruct (beq p root); [discriminate|]. intros H. injection H as <-.
  rewrite (fs_get_filter (fun x => negb (at_or_under p x))). destruct (at_or_under p q); reflexivity.
Qed.

Lemma rename_get f a b f' q : rename f a b = FOk f' ->
  at_or_under a q = false -> at_or_under b q = false -> fs_get f' q = fs_get f q.
Proof.
  intros H Ha Hb. unfold rename in H.
  assert (Hbq : negb (beq b q) = true).
  { apply negb_true_iff. apply beq_false. intros ->. rewrite at_or_under_refl in Hb. discriminate. }
  assert (Hfil : fs_get (map (move_entry a b) (filter (fun e => negb (beq (fst e) b)) f)) q = fs_get f q).
  { rewrite fs_get_move by assumption.
    rewrite (fs_get_filter (fun x => negb (beq x b))). rewrite beq_sym, Hbq. reflexivity. }
  destruct (lstat f a) as [na|]; [|discriminate H].
  destruct (negb (is_dir f (pathdir b)) || negb (names_fit b)); [discriminate H|].
  destruct (at_or_under a b).
  { destruct (beq a b); [|discriminate H]. injection H as <-. reflexivity. }
  destruct (lstat f b) as [[| |]|].
  - destruct na; try discriminate H. destruct (has_children f b); [discriminate H|].
    injection H as <-. exact Hfil.
  - destruct na; try discriminate H; injection H as <-; exact Hfil.
  - destruct na; try discriminate H; injection H as <-; exact Hfil.
  - injection H as <-. apply fs_get_move; assumption.
Qed.

Lemma write_text_get f p c f' q : write_text f p c = FOk f' -> q <> p -> fs_get f' q = fs_get f q.
Proof.
  intros H Hq. unfold write_text, lstat in H.
  assert (Hb : beq p q = false) by (apply beq_false; congruence).
  destruct (fs_get f p) as [[| |]|] eqn:E; try discriminate H.
  - injection H as <-. rewrite fs_get_set, Hb. reflexivity.
  - destruct (is_dir f (pathdir p) && names_fit p); [|discriminate H]. injection H as <-.
    rewrite fs_get_snoc, Hb. destruct (fs_get f q); reflexivity.
Qed.

(* write_text either creates the file or rewrites an existing regular file *)
Lemma write_text_cases f p c f' : write_text f p c = FOk f' ->
  (fs_get f p = None /\ f' = f ++ [(p, File c)])
  \/ (exists old, fs_get f p = Some (File old) /\ f' = fs_set f p (File (c ++ skipn (length c) old))).
Proof.
  unfold write_text, lstat. destruct (fs_get f p) as [[| |]|]; try discriminate.
  - intros H. injection H as <-. right. eexists. split; reflexivity.
  - destruct (is_dir f (pathdir p) && names_fit p); [|discriminate]. intros H. injection H as <-. left. auto.
Qed.

Lemma open_trunc_get f p f' q : open_trunc f p = FOk f' -> q <> p -> fs_get f' q = fs_get f q.
Proof.
  intros H Hq. unfold open_trunc, lstat in H.
  assert (Hb : beq p q = false) by (apply beq_false; congruence).
  destruct (fs_get f p) as [[| |]|] eqn:E; try discriminate H.
  - injection H as <-. rewrite fs_get_set, Hb. reflexivity.
  - destruct (is_dir f (pathdir p) && names_fit p); [|discriminate H]. injection H as <-.
    rewrite fs_get_snoc, Hb. destruct (fs_get f q); reflexivity.
Qed.

Lemma append_file_get f p c q : q <> p -> fs_get (append_file f p c) q = fs_get f q.
Proof.
  intros Hq. unfold append_file, lstat.
  assert (Hb : beq p q = false) by (apply beq_false; congruence).
  destruct (fs_get f p) as [[| |]|]; try reflexivity. rewrite fs_get_set, Hb. reflexivity.
Qed.

Lemma drop_get f tmp q : q <> tmp ->
  fs_get (filter (fun x => negb (beq (fst x) tmp)) f) q = fs_get f q.
Proof.
  intros Hq. rewrite (fs_get_filter (fun x => negb (beq x tmp))).
  assert (Hb : beq q tmp = false) by (apply beq_false; congruence). rewrite Hb. reflexivity.
Qed.

(* ------------------------------------------------------------------ ancestors *)
(* the non-empty proper ancestors of p, as strings: every q with p = q ++ "/" ++ r *)
Definition ancs (p : bytes) : list bytes :=
  flat_map (fun i => match nth_error p i with
                     | Some ch => if Ascii.eqb ch sl then [firstn i p] else []
                     | None => [] end) (seq 1 (length p - 1)).

Lemma ancs_spec q r : q <> [] -> In q (ancs (q ++ sl :: r)).
Proof.
  intros Hq. unfold ancs. apply in_flat_map. exists (length q). split.
  - apply in_seq. rewrite app_length. cbn [length]. destruct q; [congruence|]. cbn [length]. lia.
  - rewrite nth_error_app2 by lia. rewrite Nat.sub_diag. cbn [nth_error]. rewrite Ascii.eqb_refl.
    left. rewrite firstn_app, Nat.sub_diag, firstn_all. cbn [firstn]. apply app_nil_r.
Qed.

(* every proper non-empty ancestor of p is a directory entry *)
Definition dirchain (f : fsT) (p : bytes) : Prop :=
  forall q r, q <> [] -> p = q ++ sl :: r -> fs_get f q = Some Dir.
Definition is_dir_entry (f : fsT) (q : bytes) : bool :=
  match fs_get f q with Some Dir => true | _ => false end.
Definition dirchainb (f : fsT) (p : bytes) : bool := forallb (is_dir_entry f) (ancs p).

Lemma dirchainb_spec f p : dirchainb f p = true -> dirchain f p.
Proof.
  intros H q r Hq ->. unfold dirchainb in H. rewrite forallb_forall in H.
  specialize (H q (ancs_spec q r Hq)). unfold is_dir_entry in H.
  destruct (fs_get f q) as [[| |]|]; try discriminate H. reflexivity.
Qed.

Lemma dirchain_ext f f' p : ext f f' -> dirchain f p -> dirchain f' p.
Proof. intros He Hd q r Hq Hp. apply He. eapply Hd; eauto. Qed.

(* an entry with a directory chain does not sit under a symlink entry *)
Lemma dirchain_not_under_link f p T t :
  T <> [] -> beq T root = false -> fs_get f T = Some (Link t) -> dirchain f p ->
  under T p = true -> False.
Proof.
  intros HT Hr HL Hd Hu. apply (under_sub T p Hr) in Hu. destruct Hu as [r Hp].
  rewrite (Hd T r HT Hp) in HL. discriminate.
Qed.
