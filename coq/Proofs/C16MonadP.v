(* Monad-level infrastructure of the C16 proofs.

   1. Under a plain environment (no -p, no fault) [mutate] just logs and runs its action; the
      effect of [do_op] on the file tree is [fs_effect].
   2. [pres] programs (state untouched) and [nofs] programs (file tree untouched).
   3. Section [Rel]: for a preorder R on file trees, [st R m s] says that running m from s
      takes the tree of s to an R-related tree; closure under the monad structure.
   4. The layer map after [get_layers]: same static fields as [read_layer_files]. *)
From LC Require Import Lib.Bytes Lib.Lex Lib.Fields Lib.PathM Gen.Consts
  Model.MountInfo Model.FsTree Model.Kernel Model.Layers Cases.Verdict Cases.LC
  Proofs.MonadP Proofs.C15P Proofs.C16FsP.
Close Scope string_scope.
Open Scope list_scope.

Definition fsof (s : mst) : fsT := w_fs (s_w s).

Definition plain (e : env) : Prop := e_pretend e = false /\ e_fault e = NoFault.

Lemma plain_env_plain e : LCS.plain_env e = true -> plain e.
Proof.
  unfold LCS.plain_env, plain. intros H. apply andb_true_iff in H as [H1 H2].
  apply negb_true_iff in H1. split; [exact H1|]. destruct (e_fault e); congruence.
Qed.

Lemma mutate_plain e o {act : M unit} s : plain e ->
  mutate e o act s = act (MkSt (s_w s) (S (s_n s)) (o :: s_log s)).
Proof. intros [Hp Hf]. unfold mutate. rewrite Hp, Hf. reflexivity. Qed.

(* ------------------------------------------------------------------ effect of one operation *)
Definition fs_effect (o : op) (f : fsT) : fres :=
  match o with
  | OMkdir p => mkdir_all f p
  | OOpen p => open_trunc f p
  | ORename a b0 => rename f a b0
  | ORemove p => remove_all f p
  | OSymlink l t => symlink f l t
  | _ => FOk f
  end.
Definition is_fs_op (o : op) : bool :=
  match o with OMount _ _ _ _ _ | OUmount _ _ => false | _ => true end.

Lemma apply_op_spec o s :
  match fs_effect o (fsof s) with
  | FOk f' => fsof (snd (apply_op o s)) = f' /\ (is_fs_op o = true -> fst (apply_op o s) = Ret tt)
  | FErr => fsof (snd (apply_op o s)) = fsof s /\ fst (apply_op o s) = Fail
  end.
Proof.
  unfold apply_op, bind, get_fs, get_ks, fsof. destruct s as [[f k] n lg]. cbn [s_w w_fs w_ks].
  destruct o; cbn [fs_effect is_fs_op].
  - destruct (mkdir_all f p); cbn; auto.
  - cbn. auto.
  - destruct (open_trunc f p); cbn; auto.
  - cbn. auto.
  - destruct (rename f a b0); cbn; auto.
  - destruct (remove_all f p); cbn; auto.
  - destruct (symlink f link target); cbn; auto.
  - destruct (kmount f k src tgt fstype flags data); cbn; split; auto; discriminate.
  - destruct (kumount k tgt flags); cbn; split; auto; discriminate.
Qed.

Lemma do_op_spec e o s : plain e ->
  match fs_effect o (fsof s) with
  | FOk f' => fsof (snd (do_op e o s)) = f' /\ (is_fs_op o = true -> fst (do_op e o s) = Ret tt)
  | FErr => fsof (snd (do_op e o s)) = fsof s /\ fst (do_op e o s) = Fail
  end.
Proof.
  intros Hp. unfold do_op. rewrite (mutate_plain e o s Hp).
  exact (apply_op_spec o (MkSt (s_w s) (S (s_n s)) (o :: s_log s))).
Qed.

(* a returning operation did apply its effect *)
Lemma do_op_ret e o s a s' : plain e -> do_op e o s = (Ret a, s') ->
  fs_effect o (fsof s) = FOk (fsof s').
Proof.
  intros Hp H. pose proof (do_op_spec e o s Hp) as Hs. rewrite H in Hs. cbn [fst snd] in Hs.
  destruct (fs_effect o (fsof s)); [destruct Hs as [-> _]; reflexivity|].
  destruct Hs as [_ Hs]. discriminate Hs.
Qed.

(* ------------------------------------------------------------------ programs that leave the tree alone *)
Definition nofs {A} (m : M A) : Prop := forall s, fsof (snd (m s)) = fsof s.

Lemma nofs_pres {A} (m : M A) : pres m -> nofs m.
Proof. intros H s. rewrite H. reflexivity. Qed.

Lemma nofs_bind {A B} (m : M A) (k : A -> M B) : nofs m -> (forall a, nofs (k a)) -> nofs (bind m k).
Proof.
  intros Hm Hk s. unfold bind. specialize (Hm s). destruct (m s) as [o s1]. cbn [snd] in Hm.
  destruct o as [a| | | |]; cbn [snd]; try exact Hm. rewrite Hk. exact Hm.
Qed.

Lemma nofs_ret {A} (a : A) : nofs (ret a).
Proof. intros s. reflexivity. Qed.
Lemma nofs_fail {A} : nofs (@fail A).
Proof. intros s. reflexivity. Qed.

Lemma nofs_do_op_kernel e o : plain e -> is_fs_op o = false -> nofs (do_op e o).
Proof.
  intros Hp Ho s. pose proof (do_op_spec e o s Hp) as H.
  destruct o; try discriminate Ho; cbn [fs_effect] in H; apply H.
Qed.

Lemma nofs_fs_mount e s0 t ty d : plain e -> nofs (fs_mount e s0 t ty d).
Proof.
  intros Hp. unfold fs_mount. apply nofs_bind; [apply nofs_do_op_kernel; auto|intros _].
  destruct (memb s0 propagation_sources); [apply nofs_do_op_kernel; auto|apply nofs_ret].
Qed.

Lemma nofs_fs_unmount e t : plain e -> nofs (fs_unmount e t).
Proof. intros Hp. apply nofs_do_op_kernel; auto. Qed.

Lemma pres_ret {A} (a : A) : pres (ret a).
Proof. intros s. reflexivity. Qed.
Lemma pres_fail {A} : pres (@fail A).
Proof. intros s. reflexivity. Qed.
Lemma pres_diverge {A} : pres (@diverge A).
Proof. intros s. reflexivity. Qed.
Lemma pres_panic {A} : pres (@panic A).
Proof. intros s. reflexivity. Qed.
Lemma pres_get_fs : pres get_fs.
Proof. intros s. reflexivity. Qed.
Lemma pres_get_ks : pres get_ks.
Proof. intros s. reflexivity. Qed.
Lemma pres_guard b : pres (guard b).
Proof. destruct b; [apply pres_ret|apply pres_fail]. Qed.

Lemma pres_refresh_mounts c ld : pres (refresh_mounts c ld).
Proof.
  unfold refresh_mounts. apply pres_bind; [apply pres_get_ks|intros k].
  destruct (probe_of k); [apply pres_panic|apply pres_ret].
Qed.

Lemma pres_find_layers c : pres (find_layers c).
Proof.
  unfold find_layers. apply pres_bind; [apply pres_get_fs|intros f].
  destruct (negb (is_dir f (c_layers c))); [apply pres_fail|].
  destruct (negb (check_inheritance (read_layer_files c f))); [apply pres_fail|].
  destruct (normalize_order (read_layer_files c f)); [apply pres_ret|apply pres_diverge].
Qed.

Lemma pres_probe_all c um ld : pres (probe_all c um ld).
Proof.
  unfold probe_all. apply pres_bind; [apply pres_refresh_mounts|intros ld1].
  apply pres_bind; [apply pres_get_fs|intros f]. apply pres_ret.
Qed.

Lemma pres_get_layers c um : pres (get_layers c um).
Proof. unfold get_layers. apply pres_bind; [apply pres_find_layers|intros ld; apply pres_probe_all]. Qed.

Lemma pres_renormalize ld : pres (renormalize ld).
Proof. unfold renormalize. destruct (normalize_order (ld_map ld)); [apply pres_ret|apply pres_diverge]. Qed.

(* ------------------------------------------------------------------ a preorder on trees along a run *)
Section Rel.
Variable R : fsT -> fsT -> Prop.
Hypothesis R_refl : forall f, R f f.
Hypothesis R_trans : forall a b c, R a b -> R b c -> R a c.

Definition st {A} (m : M A) (s : mst) : Prop := R (fsof s) (fsof (snd (m s))).
Definition steps {A} (m : M A) : Prop := forall s, st m s.

Lemma st_bind {A B} (m : M A) (k : A -> M B) s :
  st m s -> (forall a s', m s = (Ret a, s') -> st (k a) s') -> st (bind m k) s.
Proof.
  unfold st, bind. intros Hm Hk. destruct (m s) as [o s1] eqn:E. cbn [snd] in Hm.
  destruct o as [a| | | |]; cbn [snd]; try exact Hm.
  eapply R_trans; [exact Hm|]. apply (Hk a s1 eq_refl).
Qed.

Lemma steps_bind {A B} (m : M A) (k : A -> M B) :
  steps m -> (forall a, steps (k a)) -> steps (bind m k).
Proof. intros Hm Hk s. apply st_bind; [apply Hm|]. intros a s' _. apply Hk. Qed.

Lemma st_nofs {A} (m : M A) s : fsof (snd (m s)) = fsof s -> st m s.
Proof. intros H. unfold st. rewrite H. apply R_refl. Qed.

Lemma steps_nofs {A} (m : M A) : nofs m -> steps m.
Proof. intros H s. apply st_nofs, H. Qed.

Lemma steps_pres {A} (m : M A) : pres m -> steps m.
Proof. intros H. apply steps_nofs, nofs_pres, H. Qed.

Lemma steps_ret {A} (a : A) : steps (ret a).
Proof. apply steps_pres, pres_ret. Qed.
Lemma steps_fail {A} : steps (@fail A).
Proof. apply steps_pres, pres_fail. Qed.
Lemma steps_diverge {A} : steps (@diverge A).
Proof. apply steps_pres, pres_diverge. Qed.
Lemma steps_panic {A} : steps (@panic A).
Proof. apply steps_pres, pres_panic. Qed.
Lemma steps_guard b : steps (guard b).
Proof. apply steps_pres, pres_guard. Qed.

(* reading the tree: the continuation sees the current tree *)
Lemma st_get_fs {B} (k : fsT -> M B) s : st (k (fsof s)) s -> st (bind get_fs k) s.
Proof. intros H. exact H. Qed.

Lemma steps_get_fs {B} (k : fsT -> M B) : (forall f, steps (k f)) -> steps (bind get_fs k).
Proof. intros H s. apply st_get_fs, H. Qed.

Lemma steps_mapM_ {X} (g : X -> M unit) l : (forall x, In x l -> steps (g x)) -> steps (mapM_ g l).
Proof.
  induction l as [|x r IH]; intros H; cbn [mapM_]; [apply steps_ret|].
  apply steps_bind; [apply H; now left|intros _; apply IH]. intros y Hy. apply H. now right.
Qed.

Lemma steps_foldM {X} (g : ldefs -> X -> M ldefs) l :
  (forall ld x, steps (g ld x)) -> forall ld, steps (foldM g l ld).
Proof.
  intros H. induction l as [|x r IH]; intros ld; cbn [foldM]; [apply steps_ret|].
  apply steps_bind; [apply H|intros ld'; apply IH].
Qed.

(* one mutating operation under a plain environment *)
Lemma st_do_op e o s : plain e ->
  (forall f', fs_effect o (fsof s) = FOk f' -> R (fsof s) f') -> st (do_op e o) s.
Proof.
  intros Hp H. unfold st. pose proof (do_op_spec e o s Hp) as Hs.
  destruct (fs_effect o (fsof s)) as [f'|].
  - destruct Hs as [-> _]. apply H. reflexivity.
  - destruct Hs as [-> _]. apply R_refl.
Qed.

Lemma st_mutate e o (act : M unit) s : plain e ->
  (forall s1, fsof s1 = fsof s -> R (fsof s1) (fsof (snd (act s1)))) -> st (mutate e o act) s.
Proof.
  intros Hp H. unfold st. rewrite (mutate_plain e o s Hp).
  exact (H (MkSt (s_w s) (S (s_n s)) (o :: s_log s)) eq_refl).
Qed.

Lemma steps_refresh_mounts c ld : steps (refresh_mounts c ld).
Proof. apply steps_pres, pres_refresh_mounts. Qed.
Lemma steps_renormalize ld : steps (renormalize ld).
Proof. apply steps_pres, pres_renormalize. Qed.
Lemma steps_fs_mount e s0 t ty d : plain e -> steps (fs_mount e s0 t ty d).
Proof. intros Hp. apply steps_nofs, nofs_fs_mount, Hp. Qed.
Lemma steps_fs_unmount e t : plain e -> steps (fs_unmount e t).
Proof. intros Hp. apply steps_nofs, nofs_fs_unmount, Hp. Qed.

End Rel.

(* ------------------------------------------------------------------ static fields of layers *)
Definition static (l : layer) : bytes * bytes * list nmount * list nmount * bytes :=
  (l_name l, l_base l, l_mounts l, l_exports l, l_path l).

Lemma static_name l l' : static l = static l' -> l_name l = l_name l'.
Proof. unfold static. congruence. Qed.
Lemma static_base l l' : static l = static l' -> l_base l = l_base l'.
Proof. unfold static. congruence. Qed.
Lemma static_exports l l' : static l = static l' -> l_exports l = l_exports l'.
Proof. unfold static. congruence. Qed.
Lemma static_path l l' : static l = static l' -> l_path l = l_path l'.
Proof. unfold static. congruence. Qed.

Ltac fls_atom :=
  match goal with
  | |- context [lm_get ?a ?b] => destruct (lm_get a b)
  | |- context [get_mount ?a ?b] => destruct (get_mount a b)
  | |- context [minimal_dirs_present ?a ?b] => destruct (minimal_dirs_present a b)
  | |- context [expand_config_mounts ?a ?b ?c] => destruct (expand_config_mounts a b c)
  | |- context [expand_config_exports ?a ?b] => destruct (expand_config_exports a b)
  | |- context [fold_left ?f ?xs ?a] => first [destruct (fold_left f xs a) as [[? ?] ?] | destruct (fold_left f xs a) as [? ?]]
  | |- context [N.ltb ?a ?b] => destruct (N.ltb a b)
  | |- context [N.eqb ?a ?b] => destruct (N.eqb a b)
  | |- context [beq ?a ?b] => destruct (beq a b)
  | |- context [l_mbusy ?a] => destruct (l_mbusy a)
  | |- context [l_overlain ?a] => destruct (l_overlain a)
  | |- context [if ?b then _ else _] => is_var b; destruct b
  end.
Lemma find_layerstate_static c f ld l : static (find_layerstate c f ld l) = static l.
Proof.
  unfold find_layerstate. cbn [l_base l_state set_kmounts set_state].
  destruct (l_base l) eqn:EB; repeat (fls_atom; cbn [negb orb andb]); reflexivity.
Qed.

Lemma lm_get_in m n l : lm_get m n = Some l -> In l m /\ l_name l = n.
Proof.
  induction m as [|x r IH]; cbn; [discriminate|]. destruct (beq (l_name x) n) eqn:E.
  - intros H. injection H as ->. apply beq_true in E. split; [now left|exact E].
  - intros H. destruct (IH H). split; [now right|assumption].
Qed.

Lemma lm_set_static m l' l : lm_get m (l_name l') = Some l -> static l' = static l ->
  map static (lm_set m l') = map static m.
Proof.
  induction m as [|x r IH]; cbn; [discriminate|]. destruct (beq (l_name x) (l_name l')) eqn:E.
  - intros H Hs. injection H as ->. cbn. now rewrite Hs.
  - intros H Hs. cbn. now rewrite IH.
Qed.

Lemma lm_get_static m m' n : map static m = map static m' ->
  match lm_get m n, lm_get m' n with
  | Some l, Some l' => static l = static l'
  | None, None => True
  | _, _ => False
  end.
Proof.
  revert m'. induction m as [|x r IH]; intros [|x' r'] H; cbn in *; try discriminate; auto.
  assert (Hx : static x = static x') by congruence.
  assert (Hr : map static r = map static r') by congruence.
  rewrite <- (static_name _ _ Hx).
  destruct (beq (l_name x) n); [exact Hx|now apply IH].
Qed.

Lemma map_static_overlain (g : layer -> bool) m :
  map static (map (fun l => set_overlain l (g l)) m) = map static m.
Proof. rewrite map_map. apply map_ext. reflexivity. Qed.

Lemma probe_layer_static c f um ld n :
  map static (ld_map (probe_layer c f um ld n)) = map static (ld_map ld).
Proof.
  unfold probe_layer. destruct (lm_get (ld_map ld) n) as [l|] eqn:E; [|reflexivity].
  cbv zeta. cbn [ld_map].
  destruct (lm_get_in _ _ _ E) as [_ Hn].
  eapply lm_set_static.
  - match goal with |- lm_get _ (l_name ?x) = _ => assert (Hx : l_name x = n) end.
    { repeat match goal with
      | |- l_name (if ?b then _ else _) = _ => destruct b
      end; try (rewrite (static_name _ _ (find_layerstate_static _ _ _ _))); exact Hn. }
    rewrite Hx. exact E.
  - repeat match goal with
    | |- static (if ?b then _ else _) = _ => destruct b
    end; try rewrite find_layerstate_static; reflexivity.
Qed.

Lemma fold_probe_static c f um order : forall ld,
  map static (ld_map (fold_left (probe_layer c f um) order ld)) = map static (ld_map ld).
Proof.
  induction order as [|n r IH]; intros ld; cbn [fold_left]; [reflexivity|].
  now rewrite IH, probe_layer_static.
Qed.

(* what get_layers returns: the layers on disk, up to the probed (dynamic) fields *)
Lemma get_layers_ret c um s ld s' : get_layers c um s = (Ret ld, s') ->
  s' = s /\ map static (ld_map ld) = map static (read_layer_files c (fsof s)).
Proof.
  intros H. pose proof (pres_get_layers c um s) as Hp. rewrite H in Hp. cbn [snd] in Hp.
  split; [exact Hp|]. subst s'.
  unfold get_layers, find_layers, probe_all, refresh_mounts, bind, get_fs, get_ks, ret, fail, diverge, panic in H.
  fold (fsof s) in H.
  destruct (negb (is_dir (fsof s) (c_layers c))); [discriminate H|].
  destruct (negb (check_inheritance (read_layer_files c (fsof s)))); [discriminate H|].
  destruct (normalize_order (read_layer_files c (fsof s))) as [o|]; [|discriminate H].
  destruct (probe_of (w_ks (s_w s))) as [|ms ds]; [discriminate H|].
  injection H as <-. rewrite fold_probe_static. cbn [ld_map]. apply map_static_overlain.
Qed.

(* ------------------------------------------------------------------ partial-correctness triples *)
(* only runs that return normally are constrained *)
Definition hoareR {A} (P : mst -> Prop) (m : M A) (Q : A -> mst -> Prop) : Prop :=
  forall s a s', P s -> m s = (Ret a, s') -> Q a s'.

Lemma bind_ret_inv {A B} (m : M A) (k : A -> M B) s b s2 :
  bind m k s = (Ret b, s2) -> exists a s1, m s = (Ret a, s1) /\ k a s1 = (Ret b, s2).
Proof.
  unfold bind. destruct (m s) as [o s1]. destruct o as [a| | | |]; try discriminate.
  intros H. exists a, s1. auto.
Qed.

Lemma hoare_bind {A B} P (m : M A) Q (k : A -> M B) Q' :
  hoareR P m Q -> (forall a, hoareR (Q a) (k a) Q') -> hoareR P (bind m k) Q'.
Proof.
  intros Hm Hk s b s2 HP H. destruct (bind_ret_inv _ _ _ _ _ H) as (a & s1 & H1 & H2).
  exact (Hk a s1 b s2 (Hm s a s1 HP H1) H2).
Qed.

Lemma hoare_conseq {A} (P P' : mst -> Prop) (m : M A) (Q Q' : A -> mst -> Prop) :
  hoareR P m Q -> (forall s, P' s -> P s) -> (forall a s, Q a s -> Q' a s) -> hoareR P' m Q'.
Proof. intros H HP HQ s a s' Hs Hr. apply HQ. eapply H; eauto. Qed.

Lemma hoare_and {A} P1 P2 (m : M A) Q1 Q2 :
  hoareR P1 m Q1 -> hoareR P2 m Q2 ->
  hoareR (fun s => P1 s /\ P2 s) m (fun a s => Q1 a s /\ Q2 a s).
Proof. intros H1 H2 s a s' [Hp1 Hp2] Hr. split; [eapply H1|eapply H2]; eauto. Qed.

Lemma hoare_ret {A} (P : mst -> Prop) (a : A) : hoareR P (ret a) (fun _ s => P s).
Proof. intros s b s' HP H. unfold ret in H. injection H as E1 E2. subst. exact HP. Qed.
Lemma hoare_ret' {A} (P : mst -> Prop) (a : A) (Q : A -> mst -> Prop) :
  (forall s, P s -> Q a s) -> hoareR P (ret a) Q.
Proof. intros HQ s b s' HP H. unfold ret in H. injection H as E1 E2. subst. apply HQ, HP. Qed.
Lemma hoare_fail {A} P (Q : A -> mst -> Prop) : hoareR P fail Q.
Proof. intros s a s' _ H. discriminate H. Qed.
Lemma hoare_panic {A} P (Q : A -> mst -> Prop) : hoareR P panic Q.
Proof. intros s a s' _ H. discriminate H. Qed.
Lemma hoare_diverge {A} P (Q : A -> mst -> Prop) : hoareR P diverge Q.
Proof. intros s a s' _ H. discriminate H. Qed.

Lemma hoare_guard_bind {B} P b (k : unit -> M B) Q :
  (b = true -> hoareR P (k tt) Q) -> hoareR P (bind (guard b) k) Q.
Proof.
  intros H. destruct b.
  - intros s a s' HP Hr. exact (H eq_refl s a s' HP Hr).
  - intros s a s' _ Hr. discriminate Hr.
Qed.

Lemma hoare_get_fs_bind {B} P (k : fsT -> M B) Q :
  (forall f, hoareR (fun s => P s /\ fsof s = f) (k f) Q) -> hoareR P (bind get_fs k) Q.
Proof. intros H s a s' HP Hr. exact (H (fsof s) s a s' (conj HP eq_refl) Hr). Qed.

Lemma hoare_pres {A} P (m : M A) : pres m -> hoareR P m (fun _ s => P s).
Proof. intros Hm s a s' HP Hr. pose proof (Hm s) as E. rewrite Hr in E. cbn [snd] in E. subst s'. exact HP. Qed.

(* a tree predicate preserved along an R-run *)
Lemma hoare_steps {A} (R : fsT -> fsT -> Prop) (m : M A) (Pf : fsT -> Prop) :
  steps R m -> (forall f f', R f f' -> Pf f -> Pf f') ->
  hoareR (fun s => Pf (fsof s)) m (fun _ s => Pf (fsof s)).
Proof.
  intros Hm HR s a s' HP Hr. specialize (Hm s). unfold st in Hm. rewrite Hr in Hm. cbn [snd] in Hm.
  eapply HR; eauto.
Qed.

Lemma hoare_mapM_inv {X} (I : mst -> Prop) (g : X -> M unit) l :
  (forall x, In x l -> hoareR I (g x) (fun _ s => I s)) -> hoareR I (mapM_ g l) (fun _ s => I s).
Proof.
  induction l as [|x r IH]; intros H; cbn [mapM_]; [apply hoare_ret|].
  eapply hoare_bind; [apply H; now left|]. intros u. cbv beta. apply IH. intros y Hy. apply H. now right.
Qed.

(* each element establishes its own post-condition, and no element destroys another's *)
Lemma hoare_mapM_each {X} (Ax : X -> mst -> Prop) (g : X -> M unit) l :
  (forall x, In x l -> hoareR (fun _ => True) (g x) (fun _ s => Ax x s)) ->
  (forall x y, In x l -> In y l -> hoareR (Ax x) (g y) (fun _ s => Ax x s)) ->
  hoareR (fun _ => True) (mapM_ g l) (fun _ s => forall x, In x l -> Ax x s).
Proof.
  induction l as [|x r IH]; intros H1 H2; cbn [mapM_].
  - apply hoare_ret'. intros s _ y [].
  - eapply hoare_bind; [apply H1; now left|]. intros u. cbv beta.
    eapply hoare_conseq.
    + apply (hoare_and (Ax x) (fun _ => True)).
      * apply hoare_mapM_inv. intros y Hy. apply H2; [now left|now right].
      * apply IH; [intros y Hy; apply H1; now right|intros y z Hy Hz; apply H2; now right].
    + intros s Hs. split; [exact Hs|exact I].
    + cbv beta. intros _ s [Hx Hr] y [<-|Hy]; [exact Hx|apply Hr, Hy].
Qed.
