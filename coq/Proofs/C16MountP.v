(* C16 (c): after a successful mount every layer of the chain has its two export links right.

   [FP Ts f f']: outside the subtrees of the link paths Ts, existing entries of f are unchanged
   in f' and the only new entries are directories above the links' parent directories.
   make_symlink_in_dir on T is an FP [T] run that ends with T a symlink to the wanted target;
   the step for an automated export either makes the link, removes a stale symlink, or leaves
   a foreign entry alone.  Under [own_targets] (every expanded export directive of a layer
   targets one of that layer's two links, however spelled and however often) an entry named by
   directives ends as a symlink to the source of the last directive naming it, which is a
   member of the spec's [explicit_targets]. *)
From LC Require Import Lib.Bytes Lib.Lex Lib.Fields Lib.PathM Gen.Consts
  Model.MountInfo Model.FsTree Model.Kernel Model.Layers Cases.Verdict Cases.LC Cases.C16
  Proofs.MonadP Proofs.C15P Proofs.PathP Proofs.C16FsP Proofs.C16MonadP Proofs.C16FrameP
  Proofs.C16ClobberP Proofs.C16PathP.
Close Scope string_scope.
Open Scope list_scope.

(* every expanded export directive of x targets one of x's own two links *)
Definition own_targets (c : cfgT) (x : layer) : bool :=
  match expand_config_exports c x with
  | Some es => forallb (fun xm => beq (x_mount xm) (C16.pkg_link c (l_name x))
                                  || beq (x_mount xm) (C16.gen_link c (l_name x))) es
  | None => true
  end.

Definition links_ok (c : cfgT) (x : layer) (f : fsT) : Prop :=
  C16.link_ok f (C16.pkg_link c (l_name x)) (pathjoin [l_path x; c_binpkg c])
              (C16.explicit_targets c x (C16.pkg_link c (l_name x))) = true
  /\ C16.link_ok f (C16.gen_link c (l_name x)) (pathjoin [l_path x; c_gen c])
              (C16.explicit_targets c x (C16.gen_link c (l_name x))) = true.

Lemma memb_in x l : memb x l = true <-> In x l.
Proof.
  unfold memb. rewrite existsb_exists. split.
  - intros (y & Hy & E). apply beq_eq in E. subst. exact Hy.
  - intros H. exists x. split; [exact H|apply beq_refl].
Qed.

Lemma nodup_paths_NoDup l : LC.nodup_paths l = true -> NoDup l.
Proof.
  induction l as [|x r IH]; cbn [LC.nodup_paths]; intros H; constructor.
  - apply andb_true_iff in H as [H _]. apply negb_true_iff in H. intros Hin.
    apply memb_in in Hin. congruence.
  - apply andb_true_iff in H as [_ H]. apply IH, H.
Qed.

Lemma NoDup_map_inj {A B} (g : A -> B) l : NoDup (map g l) ->
  forall a b, In a l -> In b l -> g a = g b -> a = b.
Proof.
  induction l as [|x r IH]; cbn [map]; intros Hnd a b Ha Hb E; [destruct Ha|].
  inversion Hnd as [|? ? Hx Hr]; subst. destruct Ha as [<-|Ha], Hb as [<-|Hb]; auto.
  - exfalso. apply Hx. rewrite E. apply in_map, Hb.
  - exfalso. apply Hx. rewrite <- E. apply in_map, Ha.
Qed.

(* ------------------------------------------------------------------ footprint *)
Definition FP (Ts : list bytes) (f f' : fsT) : Prop :=
  forall q, (forall t, In t Ts -> at_or_under t q = false) ->
    match fs_get f q with
    | Some nd => fs_get f' q = Some nd
    | None => fs_get f' q = None
              \/ (fs_get f' q = Some Dir /\ exists t, In t Ts /\ at_or_under q (pathdir t) = true)
    end.

Lemma FP_refl Ts f : FP Ts f f.
Proof. intros q _. destruct (fs_get f q); auto. Qed.

Lemma FP_trans Ts f1 f2 f3 : FP Ts f1 f2 -> FP Ts f2 f3 -> FP Ts f1 f3.
Proof.
  intros H12 H23 q Hq. specialize (H12 q Hq). specialize (H23 q Hq).
  destruct (fs_get f1 q) as [nd|].
  - rewrite H12 in H23. exact H23.
  - destruct H12 as [H12|[H12 Hd]].
    + rewrite H12 in H23. exact H23.
    + rewrite H12 in H23. right. split; assumption.
Qed.

Lemma FP_mono Ts Ts' f f' : incl Ts Ts' -> FP Ts f f' -> FP Ts' f f'.
Proof.
  intros Hi H q Hq. assert (Hq' : forall t, In t Ts -> at_or_under t q = false) by (intros t Ht; apply Hq, Hi, Ht).
  specialize (H q Hq'). destruct (fs_get f q); [exact H|].
  destruct H as [H|[H (t & Ht & Hd)]]; [now left|right]. split; [exact H|]. exists t. split; [apply Hi, Ht|exact Hd].
Qed.

Lemma FP_remove T f f' : remove_all f T = FOk f' -> FP [T] f f'.
Proof.
  intros H q Hq. rewrite (remove_all_get _ _ _ q H), (Hq T (or_introl eq_refl)).
  destruct (fs_get f q); auto.
Qed.

Lemma FP_mkdir T cs f f' : Forall PathM.plain cs -> pathdir T = slcat cs ->
  mkdir_all f (pathdir T) = FOk f' -> FP [T] f f'.
Proof.
  intros Hp Hd H q _. destruct (fs_get f q) as [nd|] eqn:E.
  - apply (mkdir_all_ext _ _ _ H), E.
  - destruct (mkdir_all_new _ _ _ q H E) as [H1|[H1 H2]]; [now left|right]. split; [exact H1|].
    exists T. split; [now left|]. rewrite Hd in *. apply prefixes_slcat; assumption.
Qed.

Lemma FP_symlink T src f f' : symlink f T src = FOk f' -> FP [T] f f'.
Proof.
  intros H q Hq. destruct (symlink_spec _ _ _ _ H) as [_ ->]. rewrite fs_get_snoc.
  assert (E : beq T q = false).
  { apply beq_false. intros ->. pose proof (Hq q (or_introl eq_refl)) as Hqq.
    rewrite at_or_under_refl in Hqq. discriminate. }
  rewrite E. destruct (fs_get f q); auto.
Qed.

(* what FP preserves *)
Lemma FP_get Ts f f' q nd : FP Ts f f' -> (forall t, In t Ts -> at_or_under t q = false) ->
  fs_get f q = Some nd -> fs_get f' q = Some nd.
Proof. intros H Hq E. specialize (H q Hq). rewrite E in H. exact H. Qed.

Lemma FP_absent Ts f f' q : FP Ts f f' -> (forall t, In t Ts -> at_or_under t q = false) ->
  (forall t, In t Ts -> at_or_under q (pathdir t) = false) ->
  fs_get f q = None -> fs_get f' q = None.
Proof.
  intros H Hq Hd E. specialize (H q Hq). rewrite E in H. destruct H as [H|[_ (t & Ht & Hd')]]; [exact H|].
  rewrite (Hd t Ht) in Hd'. discriminate.
Qed.

Lemma FP_nolink Ts f f' q : FP Ts f f' -> (forall t, In t Ts -> at_or_under t q = false) ->
  (forall t, fs_get f q <> Some (Link t)) -> forall t, fs_get f' q <> Some (Link t).
Proof.
  intros H Hq Hn t. specialize (H q Hq). destruct (fs_get f q) as [nd|] eqn:E.
  - rewrite H. apply Hn.
  - destruct H as [H|[H _]]; rewrite H; discriminate.
Qed.

Lemma link_ok_FP Ts f f' link auto expl :
  FP Ts f f' -> (forall t, In t Ts -> at_or_under t link = false) ->
  (forall t, In t Ts -> at_or_under t auto = false) ->
  (forall t, In t Ts -> at_or_under auto (pathdir t) = false) ->
  C16.link_ok f link auto expl = true -> C16.link_ok f' link auto expl = true.
Proof.
  intros H Hl Ha Hd Hok. unfold C16.link_ok in *.
  assert (Hex : exists_ f' auto = exists_ f auto).
  { unfold exists_, lstat. destruct (fs_get f auto) as [nd|] eqn:E.
    - rewrite (FP_get _ _ _ _ _ H Ha E). reflexivity.
    - rewrite (FP_absent _ _ _ _ H Ha Hd E). reflexivity. }
  rewrite Hex. unfold lstat in *.
  set (wanted := match expl with _ :: _ => expl | [] => if exists_ f auto then [auto] else [] end) in *.
  destruct (fs_get f link) as [nd|] eqn:E.
  - rewrite (FP_get _ _ _ _ _ H Hl E). exact Hok.
  - destruct wanted as [|t0 ts]; [|discriminate Hok].
    pose proof (FP_nolink _ _ _ _ H Hl) as Hn. rewrite E in Hn.
    destruct (fs_get f' link) as [[| |t]|]; auto. exfalso. apply (Hn ltac:(discriminate) t). reflexivity.
Qed.

(* ------------------------------------------------------------------ named pieces of the model *)
Definition fresh e (src tgt : bytes) : M unit :=
  f1 <- get_fs ;;
  (if is_dir f1 (pathdir tgt) then ret tt else fs_mkdir e (pathdir tgt)) ;;;
  fs_symlink e tgt src.

Lemma msid_unfold e src tgt :
  make_symlink_in_dir e src tgt =
  (f <- get_fs ;;
   if is_symlink f tgt then
     match readlink f tgt with
     | Some t => if beq t src then ret tt else fs_remove e tgt ;;; fresh e src tgt
     | None => fs_remove e tgt ;;; fresh e src tgt
     end
   else fresh e src tgt).
Proof. reflexivity. Qed.

Definition auto_step e (targets : list bytes) (lt : bytes * bytes) : M unit :=
  if memb (fst lt) targets then ret tt else
  f <- get_fs ;;
  if exists_ f (snd lt) then make_symlink_in_dir e (snd lt) (fst lt)
  else if is_symlink f (fst lt) then fs_remove e (fst lt) else ret tt.

Lemma mes_unfold e c l :
  make_export_symlinks e c l =
  match expand_config_exports c l with
  | None => fail
  | Some es =>
    mapM_ (fun x => make_symlink_in_dir e (x_source x) (x_mount x)) es ;;;
    mapM_ (auto_step e (map x_mount es)) (automated_exports c l)
  end.
Proof. reflexivity. Qed.

Lemma hoare_true {A} P (m : M A) : hoareR P m (fun _ _ => True).
Proof. intros s a s' _ _. exact I. Qed.

Section Links.
Variable e : env.
Hypothesis He : plain e.

Lemma stepsFP_remove T : steps (FP [T]) (fs_remove e T).
Proof.
  intros s. apply st_do_op; [apply FP_refl|exact He|]. cbn [fs_effect]. intros f' Hf. apply FP_remove, Hf.
Qed.

Section OneLink.
Variables (T : bytes) (cs : list bytes).
Hypothesis cs_plain : Forall PathM.plain cs.
Hypothesis T_dir : pathdir T = slcat cs.

Lemma stepsFP_fresh src : steps (FP [T]) (fresh e src T).
Proof.
  unfold fresh. apply steps_get_fs. intros f1.
  apply (steps_bind _ (FP_trans [T])).
  - destruct (is_dir f1 (pathdir T)); [apply steps_ret, FP_refl|].
    intros s. apply st_do_op; [apply FP_refl|exact He|]. cbn [fs_effect]. intros f' Hf.
    eapply FP_mkdir; eauto.
  - intros _ s. apply st_do_op; [apply FP_refl|exact He|]. cbn [fs_effect]. intros f' Hf.
    eapply FP_symlink, Hf.
Qed.

Lemma stepsFP_msid src : steps (FP [T]) (make_symlink_in_dir e src T).
Proof.
  rewrite msid_unfold. apply steps_get_fs. intros f.
  assert (Hrm : steps (FP [T]) (fs_remove e T ;;; fresh e src T)).
  { apply (steps_bind _ (FP_trans [T])); [apply stepsFP_remove|intros _; apply stepsFP_fresh]. }
  destruct (is_symlink f T); [|apply stepsFP_fresh].
  destruct (readlink f T) as [t|]; [|exact Hrm].
  destruct (beq t src); [apply steps_ret, FP_refl|exact Hrm].
Qed.

Lemma fresh_post src : hoareR (fun _ => True) (fresh e src T) (fun _ s => fs_get (fsof s) T = Some (Link src)).
Proof.
  unfold fresh. apply hoare_get_fs_bind. intros f1.
  eapply hoare_bind; [apply hoare_true|]. intros u. cbv beta.
  intros s a s' _ Hr. pose proof (do_op_ret e _ s a s' He Hr) as Hf. cbn [fs_effect] in Hf.
  destruct (symlink_spec _ _ _ _ Hf) as [Hn ->]. rewrite fs_get_snoc, Hn, beq_refl. reflexivity.
Qed.

Lemma msid_post src :
  hoareR (fun _ => True) (make_symlink_in_dir e src T) (fun _ s => fs_get (fsof s) T = Some (Link src)).
Proof.
  rewrite msid_unfold. apply hoare_get_fs_bind. intros f.
  assert (Hrm : hoareR (fun s => True /\ fsof s = f) (fs_remove e T ;;; fresh e src T)
                       (fun _ s => fs_get (fsof s) T = Some (Link src))).
  { eapply hoare_bind; [apply hoare_true|]. intros u. cbv beta.
    eapply hoare_conseq; [apply fresh_post|cbv beta; auto|cbv beta; auto]. }
  assert (Hfr : hoareR (fun s => True /\ fsof s = f) (fresh e src T)
                       (fun _ s => fs_get (fsof s) T = Some (Link src))).
  { eapply hoare_conseq; [apply fresh_post|cbv beta; auto|cbv beta; auto]. }
  destruct (is_symlink f T) eqn:Hs; [|exact Hfr].
  unfold readlink, is_symlink, lstat in *. destruct (fs_get f T) as [[| |t]|] eqn:Hg; try discriminate Hs.
  destruct (beq t src) eqn:Ets; [|exact Hrm].
  apply beq_eq in Ets. subst t. apply hoare_ret'. intros s [_ <-]. exact Hg.
Qed.

(* the step for the automated export (T, auto) when no explicit directive names T *)
Lemma auto_step_post targets auto :
  ~ In T targets -> at_or_under T auto = false ->
  hoareR (fun _ => True) (auto_step e targets (T, auto))
         (fun _ s => C16.link_ok (fsof s) T auto [] = true).
Proof.
  intros Hnt Hta. unfold auto_step. cbn [fst snd].
  destruct (memb T targets) eqn:Hm; [apply memb_in in Hm; contradiction|].
  apply hoare_get_fs_bind. intros f. destruct (exists_ f auto) eqn:Hex.
  - (* the directory exists: link made, directory still there *)
    assert (Hpres : forall g g', FP [T] g g' -> exists_ g auto = true -> exists_ g' auto = true).
    { intros g g' Hfp Hg. unfold exists_, lstat in *. destruct (fs_get g auto) as [nd|] eqn:E; [|discriminate].
      rewrite (FP_get _ _ _ _ nd Hfp); auto. intros t [<-|[]]. exact Hta. }
    eapply hoare_conseq.
    + apply (hoare_and _ _ _ _ _ (msid_post auto)
               (hoare_steps (FP [T]) _ (fun g => exists_ g auto = true) (stepsFP_msid auto) Hpres)).
    + cbv beta. intros s [_ <-]. split; [exact I|exact Hex].
    + cbv beta. intros _ s [H1 H2]. unfold C16.link_ok, lstat. rewrite H2, H1.
      unfold memb. cbn [existsb]. rewrite beq_refl. reflexivity.
  - destruct (is_symlink f T) eqn:Hs.
    + intros s a s' [_ Hf] Hr. subst f. pose proof (do_op_ret e _ s a s' He Hr) as Hrm. cbn [fs_effect] in Hrm.
      unfold C16.link_ok, exists_, lstat in *.
      rewrite (remove_all_get _ _ _ auto Hrm), Hta.
      destruct (fs_get (fsof s) auto); [discriminate Hex|].
      rewrite (remove_all_get _ _ _ T Hrm), at_or_under_refl. reflexivity.
    + apply hoare_ret'. intros s [_ <-]. unfold C16.link_ok. rewrite Hex.
      unfold is_symlink in Hs. destruct (lstat (fsof s) T) as [[| |t]|]; try discriminate Hs; auto.
Qed.

Lemma stepsFP_auto_step targets auto : steps (FP [T]) (auto_step e targets (T, auto)).
Proof.
  unfold auto_step. cbn [fst snd]. destruct (memb T targets); [apply steps_ret, FP_refl|].
  apply steps_get_fs. intros f. destruct (exists_ f auto); [apply stepsFP_msid|].
  destruct (is_symlink f T); [apply stepsFP_remove|apply steps_ret, FP_refl].
Qed.
End OneLink.
End Links.

Lemma steps_mono (R R' : fsT -> fsT -> Prop) {A} (m : M A) :
  (forall f f', R f f' -> R' f f') -> steps R m -> steps R' m.
Proof. intros H Hm s. apply H, Hm. Qed.

(* ------------------------------------------------------------------ the chain, on disk and as probed *)
Lemma ancestors_static fuel m m0 : map static m = map static m0 ->
  forall n acc acc0, map static acc = map static acc0 ->
  match ancestors_and_self fuel m n acc, ancestors_and_self fuel m0 n acc0 with
  | Some a, Some b => map static a = map static b
  | None, None => True
  | _, _ => False
  end.
Proof.
  intros Hm. induction fuel as [|fuel IH]; intros n acc acc0 Ha; cbn [ancestors_and_self].
  - destruct n; [exact Ha|exact I].
  - destruct n as [|a n']; [exact Ha|].
    pose proof (lm_get_static m m0 (a :: n') Hm) as Hg.
    destruct (lm_get m (a :: n')) as [l|], (lm_get m0 (a :: n')) as [l0|]; try contradiction; [|exact I].
    rewrite (static_base _ _ Hg). apply IH. cbn [map]. rewrite Hg, Ha. reflexivity.
Qed.

Lemma ancestors_props fuel m : forall n acc ch, ancestors_and_self fuel m n acc = Some ch ->
  forall x, In x ch -> In x acc \/ (lm_get m (l_name x) = Some x /\ l_name x <> []).
Proof.
  induction fuel as [|fuel IH]; intros n acc ch H x Hx; cbn [ancestors_and_self] in H.
  - destruct n; [injection H as <-; now left|discriminate].
  - destruct n as [|a n']; [injection H as <-; now left|].
    destruct (lm_get m (a :: n')) as [l|] eqn:El; [|discriminate].
    destruct (IH _ _ _ H x Hx) as [[<-|Hin]|Hr]; auto.
    right. destruct (lm_get_in _ _ _ El) as [_ Hn]. rewrite Hn. split; [exact El|discriminate].
Qed.

Lemma expand_static c x x0 : static x = static x0 ->
  expand_config_exports c x = expand_config_exports c x0.
Proof.
  intros Hs. unfold expand_config_exports.
  rewrite (static_name _ _ Hs), (static_path _ _ Hs), (static_exports _ _ Hs). reflexivity.
Qed.

Lemma links_ok_static c x x0 f : static x = static x0 -> links_ok c x f -> links_ok c x0 f.
Proof.
  unfold links_ok, C16.explicit_targets. intros Hs. rewrite (expand_static c x x0 Hs).
  rewrite (static_name _ _ Hs), (static_path _ _ Hs). auto.
Qed.

Lemma own_targets_static c x x0 : static x = static x0 -> own_targets c x = own_targets c x0.
Proof.
  unfold own_targets. intros Hs. rewrite (expand_static c x x0 Hs), (static_name _ _ Hs). reflexivity.
Qed.

Lemma filter_none {A} (p : A -> bool) l : (forall a, In a l -> p a = false) -> filter p l = [].
Proof.
  induction l as [|a r IH]; intros H; cbn [filter]; [reflexivity|].
  rewrite (H a (or_introl eq_refl)). apply IH. intros b Hb. apply H. now right.
Qed.

Lemma in_map_static x l l0 : map static l = map static l0 -> In x l -> exists x0, In x0 l0 /\ static x0 = static x.
Proof.
  intros Hm Hx. apply (in_map static) in Hx. rewrite Hm in Hx. apply in_map_iff in Hx as (x0 & Hs & Hin).
  exists x0. auto.
Qed.

Section Chain.
Variable c : cfgT.
Variable e : env.
Hypothesis He : plain e.
Notation Pn := (C16.pkg_link c).
Notation Gn := (C16.gen_link c).
Definition autoP (n : bytes) : bytes := pathjoin [layer_path c n; c_binpkg c].
Definition autoG (n : bytes) : bytes := pathjoin [layer_path c n; c_gen c].
Definition names_ok (n : bytes) : Prop := legal_name n = true /\ n <> [].
Definition lks (n : bytes) : list bytes := [Pn n; Gn n].
Definition aus (n : bytes) : list bytes := [autoP n; autoG n].

(* the configuration facts (discharged in C16P from decidable checks) *)
Hypothesis H_dir : forall n, names_ok n -> forall T, In T (lks n) ->
  exists cs, Forall PathM.plain cs /\ pathdir T = slcat cs.
Hypothesis H_PG : forall n, names_ok n ->
  at_or_under (Pn n) (Gn n) = false /\ at_or_under (Gn n) (Pn n) = false.
Hypothesis H_diff : forall n m, names_ok n -> names_ok m -> n <> m ->
  forall T, In T (lks m) -> forall T', In T' (lks n) -> at_or_under T T' = false.
Hypothesis H_auto : forall n m, names_ok n -> names_ok m ->
  forall T, In T (lks m) -> forall A, In A (aus n) ->
    at_or_under T A = false /\ at_or_under A (pathdir T) = false.

Section Layer.
Variable x : layer.
Hypothesis Hname : names_ok (l_name x).
Hypothesis Hpath : l_path x = layer_path c (l_name x).
Variable es : list xmount.
Hypothesis Hexp : expand_config_exports c x = Some es.
Hypothesis Hown : forall xm, In xm es -> In (x_mount xm) (lks (l_name x)).
Notation n := (l_name x).
Notation ap := (pathjoin [l_path x; c_binpkg c]).
Notation ag := (pathjoin [l_path x; c_gen c]).
Notation msid_of := (fun xm : xmount => make_symlink_in_dir e (x_source xm) (x_mount xm)).

Definition targets : list bytes := map x_mount es.

Lemma ap_auto : ap = autoP n.
Proof. unfold autoP. rewrite Hpath. reflexivity. Qed.
Lemma ag_auto : ag = autoG n.
Proof. unfold autoG. rewrite Hpath. reflexivity. Qed.

Lemma lks_apart T T' : In T (lks n) -> In T' (lks n) -> T <> T' -> at_or_under T' T = false.
Proof.
  intros HT HT' Hne. destruct (H_PG n Hname) as [PG GP].
  destruct HT as [<-|[<-|[]]], HT' as [<-|[<-|[]]]; try congruence; assumption.
Qed.

(* the spec's explicit_targets against the expanded directives *)
Lemma explicit_eq T :
  C16.explicit_targets c x T = map x_source (filter (fun xm => beq (x_mount xm) T) es).
Proof. unfold C16.explicit_targets. rewrite Hexp. reflexivity. Qed.

Lemma explicit_none T : ~ In T targets -> C16.explicit_targets c x T = [].
Proof.
  intros H. rewrite explicit_eq, filter_none; [reflexivity|]. intros xm Hxm.
  apply beq_false. intros E0. apply H. rewrite <- E0. apply in_map, Hxm.
Qed.

Lemma explicit_in xm : In xm es ->
  exists y ys, C16.explicit_targets c x (x_mount xm) = y :: ys /\ memb (x_source xm) (y :: ys) = true.
Proof.
  intros Hxm. rewrite explicit_eq.
  assert (Hin : In (x_source xm) (map x_source (filter (fun ym => beq (x_mount ym) (x_mount xm)) es))).
  { apply in_map, filter_In. split; [exact Hxm|apply beq_refl]. }
  destruct (map x_source _) as [|y ys]; [destruct Hin|].
  exists y, ys. split; [reflexivity|]. apply memb_in, Hin.
Qed.

(* phase 1: every entry named by a directive ends as a symlink to the source of one of the
   directives naming it (the last one) *)
Lemma phase1_post : forall l, (forall xm, In xm l -> In (x_mount xm) (lks n)) ->
  hoareR (fun _ => True) (mapM_ msid_of l)
         (fun _ s => forall T, In T (map x_mount l) ->
            exists xm, In xm l /\ x_mount xm = T /\ fs_get (fsof s) T = Some (Link (x_source xm))).
Proof.
  induction l as [|xm0 r IH]; intros Hl; cbn [mapM_ map].
  - apply hoare_ret'. intros s _ T [].
  - eapply hoare_bind; [apply (msid_post e He)|]. intros u. cbv beta.
    assert (Hr : forall xm, In xm r -> In (x_mount xm) (lks n)) by (intros xm Hxm; apply Hl; now right).
    assert (Hkeep : hoareR (fun s => fs_get (fsof s) (x_mount xm0) = Some (Link (x_source xm0)))
                           (mapM_ msid_of r)
                           (fun _ s => ~ In (x_mount xm0) (map x_mount r) ->
                                       fs_get (fsof s) (x_mount xm0) = Some (Link (x_source xm0)))).
    { destruct (memb (x_mount xm0) (map x_mount r)) eqn:Em.
      - apply memb_in in Em. eapply hoare_conseq; [apply (hoare_true (fun _ => True))|intros s _; exact I|].
        cbv beta. intros u' s _ Hn. contradiction.
      - assert (Hn : ~ In (x_mount xm0) (map x_mount r)).
        { intros Hin. apply memb_in in Hin. congruence. }
        eapply hoare_conseq; [apply hoare_mapM_inv|cbv beta; intros s Hs; exact Hs|cbv beta; auto].
        intros y Hy. destruct (H_dir n Hname _ (Hr y Hy)) as (cs & Hcs & Hd).
        apply (hoare_steps (FP [x_mount y]) _
                 (fun g => fs_get g (x_mount xm0) = Some (Link (x_source xm0)))).
        + eapply stepsFP_msid; eauto.
        + intros f f' Hfp Hg. apply (FP_get _ _ _ _ _ Hfp); [|exact Hg]. intros t [<-|[]].
          apply lks_apart; [apply Hl; now left|apply Hr, Hy|].
          intros E0. apply Hn. rewrite E0. apply in_map, Hy. }
    eapply hoare_conseq.
    + apply (hoare_and _ _ _ _ _ Hkeep (IH Hr)).
    + cbv beta. intros s H. split; [exact H|exact I].
    + cbv beta. intros _ s [H1 H2] T HT.
      destruct (memb T (map x_mount r)) eqn:Em.
      * apply memb_in in Em. destruct (H2 T Em) as (xm & Hxm & Hm & Hg).
        exists xm. split; [now right|auto].
      * destruct HT as [<-|HT]; [|apply memb_in in HT; congruence].
        exists xm0. split; [now left|]. split; [reflexivity|]. apply H1.
        intros Hin. apply memb_in in Hin. congruence.
Qed.

Lemma stepsFP_phase1 : steps (FP (lks n)) (mapM_ msid_of es).
Proof.
  apply (steps_mapM_ _ (FP_refl (lks n)) (FP_trans (lks n))). intros xm Hxm.
  destruct (H_dir n Hname _ (Hown xm Hxm)) as (cs & Hcs & Hd).
  apply (steps_mono (FP [x_mount xm])); [|eapply stepsFP_msid; eauto].
  intros f f'. apply FP_mono. intros t [<-|[]]. apply Hown, Hxm.
Qed.

(* phase 2, one step, seen from a link T *)
Lemma auto_self_ret T a : In T targets -> auto_step e targets (T, a) = ret tt.
Proof. intros H. unfold auto_step. cbn [fst]. apply memb_in in H. rewrite H. reflexivity. Qed.

Lemma stepsFP_auto T a : In T (lks n) -> steps (FP [T]) (auto_step e targets (T, a)).
Proof.
  intros HT. destruct (H_dir n Hname T HT) as (cs & Hcs & Hd).
  eapply stepsFP_auto_step; eauto.
Qed.

Lemma phase2_unfold :
  mapM_ (auto_step e targets) (automated_exports c x) =
  (auto_step e targets (Pn n, ap) ;;; (auto_step e targets (Gn n, ag) ;;; ret tt)).
Proof. reflexivity. Qed.

Lemma auto_facts T' : In T' (lks n) -> forall a, In a [ap; ag] ->
  at_or_under T' a = false /\ at_or_under a (pathdir T') = false.
Proof.
  intros HT' a Ha. apply (H_auto n n Hname Hname T' HT').
  rewrite ap_auto, ag_auto in Ha. exact Ha.
Qed.

(* an entry named by a directive: symlink to one of the named directories *)
Definition named_ok (T : bytes) (f : fsT) : Prop :=
  exists xm, In xm es /\ x_mount xm = T /\ fs_get f T = Some (Link (x_source xm)).

Lemma named_link_ok T a f : named_ok T f -> C16.link_ok f T a (C16.explicit_targets c x T) = true.
Proof.
  intros (xm & Hxm & Hm & Hg). destruct (explicit_in xm Hxm) as (y & ys & He1 & He2).
  rewrite Hm in He1. rewrite He1. unfold C16.link_ok, lstat. rewrite Hg. exact He2.
Qed.

Lemma named_FP T T' f f' : In T (lks n) -> In T' (lks n) -> T <> T' ->
  FP [T'] f f' -> named_ok T f -> named_ok T f'.
Proof.
  intros HT HT' Hne Hfp (xm & Hxm & Hm & Hg). exists xm. split; [exact Hxm|]. split; [exact Hm|].
  apply (FP_get _ _ _ _ _ Hfp); [|exact Hg]. intros t [<-|[]]. apply lks_apart; assumption.
Qed.

Lemma phase1_named T : In T targets -> hoareR (fun _ => True) (mapM_ msid_of es) (fun _ s => named_ok T (fsof s)).
Proof.
  intros HT. eapply hoare_conseq; [apply (phase1_post es Hown)|cbv beta; auto|].
  cbv beta. intros _ s H. exact (H T HT).
Qed.

Lemma PG_neq : Pn n <> Gn n.
Proof.
  intros E0. destruct (H_PG n Hname) as [H _]. rewrite <- E0, at_or_under_refl in H. discriminate.
Qed.

Lemma mes_pkg :
  hoareR (fun _ => True) (make_export_symlinks e c x)
         (fun _ s => C16.link_ok (fsof s) (Pn n) ap (C16.explicit_targets c x (Pn n)) = true).
Proof.
  rewrite mes_unfold, Hexp. fold targets. rewrite phase2_unfold.
  destruct (H_PG n Hname) as [PG GP].
  assert (HPin : In (Pn n) (lks n)) by now left.
  assert (HGin : In (Gn n) (lks n)) by (right; now left).
  destruct (memb (Pn n) targets) eqn:Em.
  - apply memb_in in Em.
    eapply hoare_bind; [apply (phase1_named _ Em)|]. intros u. cbv beta.
    rewrite auto_self_ret by exact Em.
    eapply hoare_bind; [apply hoare_ret|]. intros u0. cbv beta.
    eapply hoare_bind; [|intros u1; apply hoare_ret'].
    + apply (hoare_steps (FP [Gn n]) _ (named_ok (Pn n))); [apply stepsFP_auto, HGin|].
      intros f f'. apply named_FP; auto. apply PG_neq.
    + cbv beta. intros s. apply named_link_ok.
  - assert (Hnt : ~ In (Pn n) targets) by (intros Hin; apply memb_in in Hin; congruence).
    rewrite (explicit_none _ Hnt).
    eapply hoare_bind; [apply hoare_true|]. intros u. cbv beta.
    destruct (H_dir n Hname _ HPin) as (cs & Hcs & Hd).
    destruct (auto_facts _ HPin ap (or_introl eq_refl)) as [A1 A2].
    destruct (auto_facts _ HGin ap (or_introl eq_refl)) as [A3 A4].
    eapply hoare_bind; [eapply auto_step_post; eauto|].
    intros u0. cbv beta. eapply hoare_bind; [|intros u1; apply hoare_ret].
    apply (hoare_steps (FP [Gn n]) _ (fun g => C16.link_ok g (Pn n) ap [] = true)); [apply stepsFP_auto, HGin|].
    intros f f' Hfp. apply (link_ok_FP _ _ _ _ _ _ Hfp); intros t0 [<-|[]]; assumption.
Qed.

Lemma mes_gen :
  hoareR (fun _ => True) (make_export_symlinks e c x)
         (fun _ s => C16.link_ok (fsof s) (Gn n) ag (C16.explicit_targets c x (Gn n)) = true).
Proof.
  rewrite mes_unfold, Hexp. fold targets. rewrite phase2_unfold.
  destruct (H_PG n Hname) as [PG GP].
  assert (HPin : In (Pn n) (lks n)) by now left.
  assert (HGin : In (Gn n) (lks n)) by (right; now left).
  destruct (memb (Gn n) targets) eqn:Em.
  - apply memb_in in Em.
    eapply hoare_bind; [apply (phase1_named _ Em)|]. intros u. cbv beta.
    eapply hoare_bind.
    { apply (hoare_steps (FP [Pn n]) _ (named_ok (Gn n))); [apply stepsFP_auto, HPin|].
      intros f f'. apply named_FP; auto. intros E0. apply PG_neq. symmetry. exact E0. }
    intros u0. cbv beta. rewrite auto_self_ret by exact Em.
    eapply hoare_bind; [apply hoare_ret|]. intros u1. cbv beta. apply hoare_ret'.
    intros s. apply named_link_ok.
  - assert (Hnt : ~ In (Gn n) targets) by (intros Hin; apply memb_in in Hin; congruence).
    rewrite (explicit_none _ Hnt).
    eapply hoare_bind; [apply hoare_true|]. intros u. cbv beta.
    eapply hoare_bind; [apply hoare_true|]. intros u0. cbv beta.
    destruct (H_dir n Hname _ HGin) as (cs & Hcs & Hd).
    destruct (auto_facts _ HGin ag (or_intror (or_introl eq_refl))) as [A1 A2].
    eapply hoare_bind; [eapply auto_step_post; eauto|].
    intros u1. cbv beta. apply hoare_ret.
Qed.

Lemma mes_links : hoareR (fun _ => True) (make_export_symlinks e c x) (fun _ s => links_ok c x (fsof s)).
Proof.
  eapply hoare_conseq; [apply (hoare_and _ _ _ _ _ mes_pkg mes_gen)|cbv beta; auto|].
  cbv beta. intros _ s H. exact H.
Qed.

Lemma stepsFP_mes : steps (FP (lks n)) (make_export_symlinks e c x).
Proof.
  rewrite mes_unfold, Hexp. fold targets. rewrite phase2_unfold.
  assert (HPin : In (Pn n) (lks n)) by now left.
  assert (HGin : In (Gn n) (lks n)) by (right; now left).
  apply (steps_bind _ (FP_trans (lks n))); [apply stepsFP_phase1|intros _].
  apply (steps_bind _ (FP_trans (lks n))); [|intros _].
  { apply (steps_mono (FP [Pn n])); [|apply stepsFP_auto, HPin].
    intros f f'. apply FP_mono. intros t [<-|[]]. exact HPin. }
  apply (steps_bind _ (FP_trans (lks n))); [|intros _; apply steps_ret, FP_refl].
  apply (steps_mono (FP [Gn n])); [|apply stepsFP_auto, HGin].
  intros f f'. apply FP_mono. intros t [<-|[]]. exact HGin.
Qed.
End Layer.

(* the links of layer x survive the link-making of a layer with another name *)
Lemma links_FP_other x y f f' :
  names_ok (l_name x) -> l_path x = layer_path c (l_name x) -> names_ok (l_name y) ->
  l_name x <> l_name y -> FP (lks (l_name y)) f f' -> links_ok c x f -> links_ok c x f'.
Proof.
  intros Hx Hpx Hy Hne Hfp [H1 H2].
  assert (HPin : In (Pn (l_name x)) (lks (l_name x))) by now left.
  assert (HGin : In (Gn (l_name x)) (lks (l_name x))) by (right; now left).
  split.
  - apply (link_ok_FP _ _ _ _ _ _ Hfp); [| | |exact H1]; intros t Ht.
    + apply (H_diff (l_name x) (l_name y) Hx Hy Hne t Ht _ HPin).
    + apply (H_auto (l_name x) (l_name y) Hx Hy t Ht). rewrite (ap_auto x Hpx). now left.
    + apply (H_auto (l_name x) (l_name y) Hx Hy t Ht). rewrite (ap_auto x Hpx). now left.
  - apply (link_ok_FP _ _ _ _ _ _ Hfp); [| | |exact H2]; intros t Ht.
    + apply (H_diff (l_name x) (l_name y) Hx Hy Hne t Ht _ HGin).
    + apply (H_auto (l_name x) (l_name y) Hx Hy t Ht). rewrite (ag_auto x Hpx). right. now left.
    + apply (H_auto (l_name x) (l_name y) Hx Hy t Ht). rewrite (ag_auto x Hpx). right. now left.
Qed.

Lemma own_targets_spec x es0 : own_targets c x = true -> expand_config_exports c x = Some es0 ->
  forall xm, In xm es0 -> In (x_mount xm) (lks (l_name x)).
Proof.
  unfold own_targets. intros H Hexp xm Hxm. rewrite Hexp in H. rewrite forallb_forall in H.
  specialize (H xm Hxm). apply orb_true_iff in H as [H|H]; apply beq_eq in H; rewrite H;
    [now left|right; now left].
Qed.

Lemma mes_links_gen x : names_ok (l_name x) -> l_path x = layer_path c (l_name x) ->
  own_targets c x = true ->
  hoareR (fun _ => True) (make_export_symlinks e c x) (fun _ s => links_ok c x (fsof s)).
Proof.
  intros Hn Hp Ho. destruct (expand_config_exports c x) as [es0|] eqn:Hexp.
  - eapply mes_links; try eassumption. eapply own_targets_spec; eassumption.
  - rewrite mes_unfold, Hexp. apply hoare_fail.
Qed.

Lemma stepsFP_mes_gen x : names_ok (l_name x) -> l_path x = layer_path c (l_name x) ->
  own_targets c x = true -> steps (FP (lks (l_name x))) (make_export_symlinks e c x).
Proof.
  intros Hn Hp Ho. destruct (expand_config_exports c x) as [es0|] eqn:Hexp.
  - eapply stepsFP_mes; try eassumption. eapply own_targets_spec; eassumption.
  - rewrite mes_unfold, Hexp. apply steps_fail, FP_refl.
Qed.

Definition chain_layer_ok (m : lmap) (x : layer) : Prop :=
  lm_get m (l_name x) = Some x /\ names_ok (l_name x) /\ l_path x = layer_path c (l_name x)
  /\ own_targets c x = true.

Lemma chain_links m ch : (forall x, In x ch -> chain_layer_ok m x) ->
  hoareR (fun _ => True) (mapM_ (fun x => make_export_symlinks e c x) ch)
         (fun _ s => forall x, In x ch -> links_ok c x (fsof s)).
Proof.
  intros Hch. apply (hoare_mapM_each (fun x s => links_ok c x (fsof s))).
  - intros x Hx. destruct (Hch x Hx) as (_ & H1 & H2 & H3). apply mes_links_gen; assumption.
  - intros x y Hx Hy. destruct (Hch x Hx) as (Gx & X1 & X2 & X3). destruct (Hch y Hy) as (Gy & Y1 & Y2 & Y3).
    destruct (beq (l_name x) (l_name y)) eqn:Eb.
    + apply beq_eq in Eb. rewrite Eb in Gx. rewrite Gy in Gx. injection Gx as <-.
      eapply hoare_conseq; [apply (mes_links_gen y Y1 Y2 Y3)|cbv beta; auto|cbv beta; auto].
    + apply beq_false in Eb.
      apply (hoare_steps (FP (lks (l_name y))) _ (links_ok c x)); [apply stepsFP_mes_gen; assumption|].
      intros f f'. apply links_FP_other; assumption.
Qed.

Lemma mount_layer_post ld f0 n :
  map static (ld_map ld) = map static (read_layer_files c f0) -> ld_ok c ld ->
  (forall x0, In x0 (LCS.chain c f0 n) -> own_targets c x0 = true) ->
  hoareR (fun _ => True) (mount_layer e c ld n)
         (fun _ s => forall x0, In x0 (LCS.chain c f0 n) -> links_ok c x0 (fsof s)).
Proof.
  intros Hm Hld Hsim. unfold mount_layer. apply hoare_guard_bind. intros Hg.
  destruct (lm_get (ld_map ld) n) as [l|]; [|apply hoare_panic].
  eapply hoare_bind; [apply hoare_pres, pres_guard|intros u; cbv beta].
  destruct (ancestors_and_self (S (length (ld_map ld))) (ld_map ld) n []) as [ch|] eqn:Ech; [|apply hoare_diverge].
  pose proof (ancestors_static (S (length (ld_map ld))) _ _ Hm n [] [] eq_refl) as Hst. rewrite Ech in Hst.
  assert (Hlen : length (ld_map ld) = length (read_layer_files c f0)).
  { apply (f_equal (@length _)) in Hm. rewrite !map_length in Hm. exact Hm. }
  unfold LCS.chain, LCS.layers_on_disk in *. rewrite <- Hlen in *.
  destruct (ancestors_and_self (S (length (ld_map ld))) (read_layer_files c f0) n []) as [ch0|]; [|contradiction].
  eapply hoare_bind; [apply hoare_true|intros ld1; cbv beta].
  eapply hoare_bind; [apply hoare_true|intros ld2; cbv beta].
  eapply hoare_bind; [apply (chain_links (ld_map ld) ch)|].
  - intros x Hx. destruct (ancestors_props _ _ _ _ _ Ech x Hx) as [[]|[Hg1 Hne]].
    destruct (lm_get_in _ _ _ Hg1) as [Hin _]. destruct (Hld x Hin) as (Hleg & Hpath & _).
    split; [exact Hg1|]. split; [split; assumption|]. split; [exact Hpath|].
    destruct (in_map_static x ch ch0 Hst Hx) as (x0 & Hx0 & Hs).
    rewrite <- (own_targets_static c x0 x Hs). apply Hsim, Hx0.
  - intros u0. cbv beta. apply hoare_ret'. intros s H x0 Hx0.
    destruct (in_map_static x0 ch0 ch (eq_sym Hst) Hx0) as (x & Hx & Hs).
    apply (links_ok_static c x x0 _ Hs). apply H, Hx.
Qed.

Lemma run_mount_post um n f0 :
  (forall x0, In x0 (LCS.chain c f0 n) -> own_targets c x0 = true) ->
  hoareR (fun s => fsof s = f0) (run_command e c um (CMount n))
         (fun _ s => forall x0, In x0 (LCS.chain c f0 n) -> links_ok c x0 (fsof s)).
Proof.
  intros Hsim s b s2 Hs Hr. cbn [run_command] in Hr.
  destruct (bind_ret_inv _ _ _ _ _ Hr) as (f & s1 & H1 & H2). unfold get_fs in H1. injection H1 as _ <-.
  destruct (bind_ret_inv _ _ _ _ _ H2) as (u & s3 & H3 & H4).
  pose proof (pres_guard (base_set_up c f) s) as Hp. rewrite H3 in Hp. cbn [snd] in Hp. subst s3.
  destruct (bind_ret_inv _ _ _ _ _ H4) as (ld & s4 & H5 & H6).
  destruct (get_layers_ret c um s ld s4 H5) as [-> Hm]. destruct (get_layers_ok c um s ld s H5) as [_ Hld].
  destruct (bind_ret_inv _ _ _ _ _ H6) as (ld' & s5 & H7 & H8). unfold ret in H8. injection H8 as _ <-.
  rewrite Hs in Hm. exact (mount_layer_post ld f0 n Hm Hld Hsim s ld' s5 I H7).
Qed.
End Chain.
