(* C16 (c): after a successful mount every layer of the chain has its two export links right.

   [FP Ts f f']: outside the subtrees of the link paths Ts, existing entries of f are unchanged
   in f' and the only new entries are directories above the links' parent directories.
   make_symlink_in_dir on T is an FP [T] run that ends with T a symlink to the wanted target;
   the step for an automated export either makes the link, removes a stale symlink, or leaves
   a foreign entry alone.  Under [exports_simple] (every export directive names exactly
   "$$package_export" or "$$file_export", each at most once) the explicit directives and the
   spec's [explicit_target] coincide. *)
From LC Require Import Lib.Bytes Lib.Lex Lib.Fields Lib.PathM Gen.Consts
  Model.MountInfo Model.FsTree Model.Kernel Model.Layers Cases.Verdict Cases.LC Cases.C16
  Proofs.MonadP Proofs.C15P Proofs.PathP Proofs.C16FsP Proofs.C16MonadP Proofs.C16FrameP
  Proofs.C16ClobberP Proofs.C16PathP.
Close Scope string_scope.
Open Scope list_scope.

Definition kP : bytes := bs "$$" ++ bs "package_export".
Definition kG : bytes := bs "$$" ++ bs "file_export".

Definition exports_simple (x : layer) : bool :=
  forallb (fun nm => beq (nm_mount nm) kP || beq (nm_mount nm) kG) (l_exports x)
  && LC.nodup_paths (map nm_mount (l_exports x)).

Definition links_ok (c : cfgT) (x : layer) (f : fsT) : Prop :=
  C16.link_ok f (C16.pkg_link c (l_name x)) (pathjoin [l_path x; c_binpkg c])
              (C16.explicit_target c x (bs "package_export")) = true
  /\ C16.link_ok f (C16.gen_link c (l_name x)) (pathjoin [l_path x; c_gen c])
              (C16.explicit_target c x (bs "file_export")) = true.

Lemma memb_in x l : memb x l = true <-> In x l.
Proof.
  unfold memb. rewrite existsb_exists. split.
  - intros (y & Hy & E). apply beq_eq in E. subst. exact Hy.
  - intros H. exists x. split; [exact H|apply beq_refl].
Qed.

Lemma nodup_paths_NoDup l : LC.nodup_paths l = true -> NoDup l.
Proof.
  induction l as [|x r IH]; cbn [LC.nodup_paths]; intros H; constructor.
  - apply andb_true_iff in H as [H _]. apply negb_true_iff in H. intros Hin.
    apply memb_in in Hin. congruence.
  - apply andb_true_iff in H as [_ H]. apply IH, H.
Qed.

Lemma NoDup_map_inj {A B} (g : A -> B) l : NoDup (map g l) ->
  forall a b, In a l -> In b l -> g a = g b -> a = b.
Proof.
  induction l as [|x r IH]; cbn [map]; intros Hnd a b Ha Hb E; [destruct Ha|].
  inversion Hnd as [|? ? Hx Hr]; subst. destruct Ha as [<-|Ha], Hb as [<-|Hb]; auto.
  - exfalso. apply Hx. rewrite E. apply in_map, Hb.
  - exfalso. apply Hx. rewrite <- E. apply in_map, Ha.
Qed.

(* ------------------------------------------------------------------ footprint *)
Definition FP (Ts : list bytes) (f f' : fsT) : Prop :=
  forall q, (forall t, In t Ts -> at_or_under t q = false) ->
    match fs_get f q with
    | Some nd => fs_get f' q = Some nd
    | None => fs_get f' q = None
              \/ (fs_get f' q = Some Dir /\ exists t, In t Ts /\ at_or_under q (pathdir t) = true)
    end.

Lemma FP_refl Ts f : FP Ts f f.
Proof. intros q _. destruct (fs_get f q); auto. Qed.

Lemma FP_trans Ts f1 f2 f3 : FP Ts f1 f2 -> FP Ts f2 f3 -> FP Ts f1 f3.
Proof.
  intros H12 H23 q Hq. specialize (H12 q Hq). specialize (H23 q Hq).
  destruct (fs_get f1 q) as [nd|].
  - rewrite H12 in H23. exact H23.
  - destruct H12 as [H12|[H12 Hd]].
    + rewrite H12 in H23. exact H23.
    + rewrite H12 in H23. right. split; assumption.
Qed.

Lemma FP_mono Ts Ts' f f' : incl Ts Ts' -> FP Ts f f' -> FP Ts' f f'.
Proof.
  intros Hi H q Hq. assert (Hq' : forall t, In t Ts -> at_or_under t q = false) by (intros t Ht; apply Hq, Hi, Ht).
  specialize (H q Hq'). destruct (fs_get f q); [exact H|].
  destruct H as [H|[H (t & Ht & Hd)]]; [now left|right]. split; [exact H|]. exists t. split; [apply Hi, Ht|exact Hd].
Qed.

Lemma FP_remove T f f' : remove_all f T = FOk f' -> FP [T] f f'.
Proof.
  intros H q Hq. rewrite (remove_all_get _ _ _ q H), (Hq T (or_introl eq_refl)).
  destruct (fs_get f q); auto.
Qed.

Lemma FP_mkdir T cs f f' : Forall PathM.plain cs -> pathdir T = slcat cs ->
  mkdir_all f (pathdir T) = FOk f' -> FP [T] f f'.
Proof.
  intros Hp Hd H q _. destruct (fs_get f q) as [nd|] eqn:E.
  - apply (mkdir_all_ext _ _ _ H), E.
  - destruct (mkdir_all_new _ _ _ q H E) as [H1|[H1 H2]]; [now left|right]. split; [exact H1|].
    exists T. split; [now left|]. rewrite Hd in *. apply prefixes_slcat; assumption.
Qed.

Lemma FP_symlink T src f f' : symlink f T src = FOk f' -> FP [T] f f'.
Proof.
  intros H q Hq. destruct (symlink_spec _ _ _ _ H) as [_ ->]. rewrite fs_get_snoc.
  assert (E : beq T q = false).
  { apply beq_false. intros ->. pose proof (Hq q (or_introl eq_refl)) as Hqq.
    rewrite at_or_under_refl in Hqq. discriminate. }
  rewrite E. destruct (fs_get f q); auto.
Qed.

(* what FP preserves *)
Lemma FP_get Ts f f' q nd : FP Ts f f' -> (forall t, In t Ts -> at_or_under t q = false) ->
  fs_get f q = Some nd -> fs_get f' q = Some nd.
Proof. intros H Hq E. specialize (H q Hq). rewrite E in H. exact H. Qed.

Lemma FP_absent Ts f f' q : FP Ts f f' -> (forall t, In t Ts -> at_or_under t q = false) ->
  (forall t, In t Ts -> at_or_under q (pathdir t) = false) ->
  fs_get f q = None -> fs_get f' q = None.
Proof.
  intros H Hq Hd E. specialize (H q Hq). rewrite E in H. destruct H as [H|[_ (t & Ht & Hd')]]; [exact H|].
  rewrite (Hd t Ht) in Hd'. discriminate.
Qed.

Lemma FP_nolink Ts f f' q : FP Ts f f' -> (forall t, In t Ts -> at_or_under t q = false) ->
  (forall t, fs_get f q <> Some (Link t)) -> forall t, fs_get f' q <> Some (Link t).
Proof.
  intros H Hq Hn t. specialize (H q Hq). destruct (fs_get f q) as [nd|] eqn:E.
  - rewrite H. apply Hn.
  - destruct H as [H|[H _]]; rewrite H; discriminate.
Qed.

Lemma link_ok_FP Ts f f' link auto expl :
  FP Ts f f' -> (forall t, In t Ts -> at_or_under t link = false) ->
  (forall t, In t Ts -> at_or_under t auto = false) ->
  (forall t, In t Ts -> at_or_under auto (pathdir t) = false) ->
  C16.link_ok f link auto expl = true -> C16.link_ok f' link auto expl = true.
Proof.
  intros H Hl Ha Hd Hok. unfold C16.link_ok in *.
  assert (Hex : exists_ f' auto = exists_ f auto).
  { unfold exists_, lstat. destruct (fs_get f auto) as [nd|] eqn:E.
    - rewrite (FP_get _ _ _ _ _ H Ha E). reflexivity.
    - rewrite (FP_absent _ _ _ _ H Ha Hd E). reflexivity. }
  rewrite Hex. unfold lstat in *.
  set (wanted := match expl with Some t => Some t | None => if exists_ f auto then Some auto else None end) in *.
  destruct (fs_get f link) as [nd|] eqn:E.
  - rewrite (FP_get _ _ _ _ _ H Hl E). exact Hok.
  - destruct wanted as [t|]; [discriminate Hok|].
    pose proof (FP_nolink _ _ _ _ H Hl) as Hn. rewrite E in Hn.
    destruct (fs_get f' link) as [[| |t]|]; auto. exfalso. apply (Hn ltac:(discriminate) t). reflexivity.
Qed.

(* ------------------------------------------------------------------ named pieces of the model *)
Definition fresh e (src tgt : bytes) : M unit :=
  f1 <- get_fs ;;
  (if is_dir f1 (pathdir tgt) then ret tt else fs_mkdir e (pathdir tgt)) ;;;
  fs_symlink e tgt src.

Lemma msid_unfold e src tgt :
  make_symlink_in_dir e src tgt =
  (f <- get_fs ;;
   if is_symlink f tgt then
     match readlink f tgt with
     | Some t => if beq t src then ret tt else fs_remove e tgt ;;; fresh e src tgt
     | None => fs_remove e tgt ;;; fresh e src tgt
     end
   else fresh e src tgt).
Proof. reflexivity. Qed.

Definition auto_step e (targets : list bytes) (lt : bytes * bytes) : M unit :=
  if memb (fst lt) targets then ret tt else
  f <- get_fs ;;
  if exists_ f (snd lt) then make_symlink_in_dir e (snd lt) (fst lt)
  else if is_symlink f (fst lt) then fs_remove e (fst lt) else ret tt.

Lemma mes_unfold e c l :
  make_export_symlinks e c l =
  match expand_config_exports c l with
  | None => fail
  | Some es =>
    mapM_ (fun x => make_symlink_in_dir e (x_source x) (x_mount x)) es ;;;
    mapM_ (auto_step e (map x_mount es)) (automated_exports c l)
  end.
Proof. reflexivity. Qed.

Lemma hoare_true {A} P (m : M A) : hoareR P m (fun _ _ => True).
Proof. intros s a s' _ _. exact I. Qed.

Section Links.
Variable e : env.
Hypothesis He : plain e.

Lemma stepsFP_remove T : steps (FP [T]) (fs_remove e T).
Proof.
  intros s. apply st_do_op; [apply FP_refl|exact He|]. cbn [fs_effect]. intros f' Hf. apply FP_remove, Hf.
Qed.

Section OneLink.
Variables (T : bytes) (cs : list bytes).
Hypothesis cs_plain : Forall PathM.plain cs.
Hypothesis T_dir : pathdir T = slcat cs.

Lemma stepsFP_fresh src : steps (FP [T]) (fresh e src T).
Proof.
  unfold fresh. apply steps_get_fs. intros f1.
  apply (steps_bind _ (FP_trans [T])).
  - destruct (is_dir f1 (pathdir T)); [apply steps_ret, FP_refl|].
    intros s. apply st_do_op; [apply FP_refl|exact He|]. cbn [fs_effect]. intros f' Hf.
    eapply FP_mkdir; eauto.
  - intros _ s. apply st_do_op; [apply FP_refl|exact He|]. cbn [fs_effect]. intros f' Hf.
    eapply FP_symlink, Hf.
Qed.

Lemma stepsFP_msid src : steps (FP [T]) (make_symlink_in_dir e src T).
Proof.
  rewrite msid_unfold. apply steps_get_fs. intros f.
  assert (Hrm : steps (FP [T]) (fs_remove e T ;;; fresh e src T)).
  { apply (steps_bind _ (FP_trans [T])); [apply stepsFP_remove|intros _; apply stepsFP_fresh]. }
  destruct (is_symlink f T); [|apply stepsFP_fresh].
  destruct (readlink f T) as [t|]; [|exact Hrm].
  destruct (beq t src); [apply steps_ret, FP_refl|exact Hrm].
Qed.

Lemma fresh_post src : hoareR (fun _ => True) (fresh e src T) (fun _ s => fs_get (fsof s) T = Some (Link src)).
Proof.
  unfold fresh. apply hoare_get_fs_bind. intros f1.
  eapply hoare_bind; [apply hoare_true|]. intros u. cbv beta.
  intros s a s' _ Hr. pose proof (do_op_ret e _ s a s' He Hr) as Hf. cbn [fs_effect] in Hf.
  destruct (symlink_spec _ _ _ _ Hf) as [Hn ->]. rewrite fs_get_snoc, Hn, beq_refl. reflexivity.
Qed.

Lemma msid_post src :
  hoareR (fun _ => True) (make_symlink_in_dir e src T) (fun _ s => fs_get (fsof s) T = Some (Link src)).
Proof.
  rewrite msid_unfold. apply hoare_get_fs_bind. intros f.
  assert (Hrm : hoareR (fun s => True /\ fsof s = f) (fs_remove e T ;;; fresh e src T)
                       (fun _ s => fs_get (fsof s) T = Some (Link src))).
  { eapply hoare_bind; [apply hoare_true|]. intros u. cbv beta.
    eapply hoare_conseq; [apply fresh_post|cbv beta; auto|cbv beta; auto]. }
  assert (Hfr : hoareR (fun s => True /\ fsof s = f) (fresh e src T)
                       (fun _ s => fs_get (fsof s) T = Some (Link src))).
  { eapply hoare_conseq; [apply fresh_post|cbv beta; auto|cbv beta; auto]. }
  destruct (is_symlink f T) eqn:Hs; [|exact Hfr].
  unfold readlink, is_symlink, lstat in *. destruct (fs_get f T) as [[| |t]|] eqn:Hg; try discriminate Hs.
  destruct (beq t src) eqn:Ets; [|exact Hrm].
  apply beq_eq in Ets. subst t. apply hoare_ret'. intros s [_ <-]. exact Hg.
Qed.

(* the step for the automated export (T, auto) when no explicit directive names T *)
Lemma auto_step_post targets auto :
  ~ In T targets -> at_or_under T auto = false ->
  hoareR (fun _ => True) (auto_step e targets (T, auto))
         (fun _ s => C16.link_ok (fsof s) T auto None = true).
Proof.
  intros Hnt Hta. unfold auto_step. cbn [fst snd].
  destruct (memb T targets) eqn:Hm; [apply memb_in in Hm; contradiction|].
  apply hoare_get_fs_bind. intros f. destruct (exists_ f auto) eqn:Hex.
  - (* the directory exists: link made, directory still there *)
    assert (Hpres : forall g g', FP [T] g g' -> exists_ g auto = true -> exists_ g' auto = true).
    { intros g g' Hfp Hg. unfold exists_, lstat in *. destruct (fs_get g auto) as [nd|] eqn:E; [|discriminate].
      rewrite (FP_get _ _ _ _ nd Hfp); auto. intros t [<-|[]]. exact Hta. }
    eapply hoare_conseq.
    + apply (hoare_and _ _ _ _ _ (msid_post auto)
               (hoare_steps (FP [T]) _ (fun g => exists_ g auto = true) (stepsFP_msid auto) Hpres)).
    + cbv beta. intros s [_ <-]. split; [exact I|exact Hex].
    + cbv beta. intros _ s [H1 H2]. unfold C16.link_ok, lstat. rewrite H2, H1. apply beq_refl.
  - destruct (is_symlink f T) eqn:Hs.
    + intros s a s' [_ Hf] Hr. subst f. pose proof (do_op_ret e _ s a s' He Hr) as Hrm. cbn [fs_effect] in Hrm.
      unfold C16.link_ok, exists_, lstat in *.
      rewrite (remove_all_get _ _ _ auto Hrm), Hta.
      destruct (fs_get (fsof s) auto); [discriminate Hex|].
      rewrite (remove_all_get _ _ _ T Hrm), at_or_under_refl. reflexivity.
    + apply hoare_ret'. intros s [_ <-]. unfold C16.link_ok. rewrite Hex.
      unfold is_symlink in Hs. destruct (lstat (fsof s) T) as [[| |t]|]; try discriminate Hs; auto.
Qed.

Lemma stepsFP_auto_step targets auto : steps (FP [T]) (auto_step e targets (T, auto)).
Proof.
  unfold auto_step. cbn [fst snd]. destruct (memb T targets); [apply steps_ret, FP_refl|].
  apply steps_get_fs. intros f. destruct (exists_ f auto); [apply stepsFP_msid|].
  destruct (is_symlink f T); [apply stepsFP_remove|apply steps_ret, FP_refl].
Qed.
End OneLink.
End Links.
