(* C16: the model's own step satisfies the property predicate of Cases/C16.v.
   The hypotheses are decidable checks on the configuration ([cfg_ok], [cfg_ok_links]) and on
   the observed world ([world_ok], [chain_own]). *)
From LC Require Import Lib.Bytes Lib.Lex Lib.Fields Lib.PathM Gen.Consts
  Model.MountInfo Model.FsTree Model.Kernel Model.Layers Cases.Verdict Cases.LC Cases.C16
  Proofs.MonadP Proofs.C15P Proofs.C10P Proofs.PathP
  Proofs.C16FsP Proofs.C16MonadP Proofs.C16FrameP Proofs.C16ClobberP Proofs.C16PathP
  Proofs.C16RenameP Proofs.C16MountP.
Close Scope string_scope.
Open Scope list_scope.
Import LC LCS.

(* the layers and exports directories are clean absolute paths, disjoint subtrees; the build
   root inside a layer is a relative path of plain components *)
Definition cfg_ok (c : cfgT) : bool :=
  dir_ok (c_layers c) && dir_ok (c_exports c)
  && negb (at_or_under (c_exports c) (c_layers c)) && negb (at_or_under (c_layers c) (c_exports c))
  && rel_ok (c_buildroot c).

(* unique paths; every export-tree entry has all its ancestors as directory entries *)
Definition world_ok (c : cfgT) (w : wobs) : bool :=
  nodup_paths (map fst (wo_fs w)) && tree_ok c (wo_fs w).

(* the second conjunct of C16.step_spec, named *)
Definition cmd_spec (c : cfgT) (w : wobs) (v : sview) : bool :=
  let f := wo_fs w in let f' := wo_fs (v_after v) in
  match v_cmd v, v_res v with
  | CMount n, ROk =>
    forallb (fun x =>
      C16.link_ok f' (C16.pkg_link c (l_name x)) (pathjoin [l_path x; c_binpkg c]) (C16.explicit_targets c x (C16.pkg_link c (l_name x)))
      && C16.link_ok f' (C16.gen_link c (l_name x)) (pathjoin [l_path x; c_gen c]) (C16.explicit_targets c x (C16.gen_link c (l_name x))))
      (chain c f n)
  | CRename n _, ROk | CRemove n _, ROk =>
    negb (exists_ f' (C16.pkg_link c n)) && negb (exists_ f' (C16.gen_link c n))
    && forallb (fun e => if C16.in_export_tree c (fst e) && negb (beq (fst e) (C16.pkg_link c n))
                            && negb (beq (fst e) (C16.gen_link c n))
                         then opt_beq node_beq (fs_get f' (fst e)) (Some (snd e)) else true) f
  | _, _ => true
  end.

Lemma step_spec_split c w v :
  C16.step_spec c w v =
  if negb (plain_env (v_env v)) then true
  else clobber_spec c (wo_fs w) (wo_fs (v_after v)) && cmd_spec c w v.
Proof. reflexivity. Qed.

(* what cfg_ok gives *)
Lemma cfg_ok_facts c : cfg_ok c = true ->
  c_exports c <> [] /\ c_layers c <> [] /\ beq (c_exports c) root = false /\ beq (c_layers c) root = false
  /\ at_or_under (c_exports c) (c_layers c) = false /\ at_or_under (c_layers c) (c_exports c) = false
  /\ (forall n, legal_name n = true -> n <> [] -> under (c_layers c) (layer_path c n) = true)
  /\ (forall n, legal_name n = true -> under (c_layers c) (pathjoin [layer_path c n; D_LayerconfigFile]) = true)
  /\ (forall n, legal_name n = true -> n <> [] ->
        under (c_layers c) (pathjoin [pathjoin [pathjoin [layer_path c n; c_buildroot c]; bs "root"]; bs ".bashrc"]) = true).
Proof.
  unfold cfg_ok. intros H.
  apply andb_true_iff in H as [H Hbr]. apply andb_true_iff in H as [H HLE].
  apply andb_true_iff in H as [H HEL]. apply andb_true_iff in H as [HdL HdE].
  destruct (dir_ok_slcat _ HdL) as (csL & HLne & HLp & HL).
  destruct (dir_ok_slcat _ HdE) as (csE & HEne & HEp & HE).
  apply negb_true_iff in HLE, HEL.
  split; [rewrite HE; apply slcat_nonempty, HEne|].
  split; [rewrite HL; apply slcat_nonempty, HLne|].
  split; [rewrite HE; apply slcat_not_root; assumption|].
  split; [rewrite HL; apply slcat_not_root; assumption|].
  split; [assumption|]. split; [assumption|].
  split; [intros n; apply (HP_layer_proof c csL); assumption|].
  split; [intros n; apply (HP_conf_proof c csL); assumption|].
  intros n. apply (HP_bashrc_proof c csL); assumption.
Qed.

(* ------------------------------------------------------------------ (a) never clobbers *)
Theorem never_clobbers_run c e um cmd w :
  plain e -> cfg_ok c = true -> edit_ok c cmd = true ->
  Rel (prot_a c) (w_fs w) (w_fs (s_w (snd (run e c um cmd w)))).
Proof.
  intros He Hc Hed. destruct (cfg_ok_facts c Hc) as (H1 & H2 & H3 & H4 & H5 & H6 & H7 & H8 & H9).
  unfold run. exact (stepsR_run_command c H1 H2 H3 H4 H5 H6 H7 H8 H9 e He um cmd Hed (MkSt w 0 [])).
Qed.

Theorem C16_never_clobbers_proof cfg w e cmd um :
  plain_env e = true -> cfg_ok cfg = true -> world_ok cfg w = true -> edit_ok cfg cmd = true ->
  clobber_spec cfg (wo_fs w) (wo_fs (v_after (view_of_model cfg w e cmd um))) = true.
Proof.
  intros He Hc Hw Hed. apply plain_env_plain in He. unfold world_ok in Hw. apply andb_true_iff in Hw as [Hnd Htr].
  rewrite view_after. cbn [wo_fs]. apply Rel_clobber_spec; [exact Hnd|exact Htr|].
  exact (never_clobbers_run cfg e um cmd (world_of w) He Hc Hed).
Qed.

(* ------------------------------------------------------------------ (b) rename / remove *)
(* the two sub-directories of the exports directory are relative paths of plain components *)
Definition cfg_ok_links (c : cfgT) : bool := rel_ok (c_exp_binpkg c) && rel_ok (c_exp_gen c).

Lemma cfg_ok_links_facts c : cfg_ok c = true -> cfg_ok_links c = true ->
  forall n, legal_name n = true -> n <> [] ->
    under (c_exports c) (C16.pkg_link c n) = true /\ under (c_exports c) (C16.gen_link c n) = true.
Proof.
  unfold cfg_ok, cfg_ok_links. intros H H2.
  apply andb_true_iff in H as [H _]. apply andb_true_iff in H as [H _].
  apply andb_true_iff in H as [H _]. apply andb_true_iff in H as [_ HdE].
  apply andb_true_iff in H2 as [Hx Hy].
  destruct (dir_ok_slcat _ HdE) as (csE & HEne & HEp & HE).
  intros n. apply (HP_links_proof c csE); assumption.
Qed.

Lemma view_cmd c w e cmd um : v_cmd (view_of_model c w e cmd um) = cmd.
Proof. unfold view_of_model. destruct (run e c um cmd (world_of w)). reflexivity. Qed.

Lemma cmd_spec_rr c w v n : rr_of (v_cmd v) = Some n -> v_res v = ROk ->
  cmd_spec c w v = rr_spec c n (wo_fs w) (wo_fs (v_after v)).
Proof.
  intros Hrr Hok. unfold cmd_spec. rewrite Hok.
  destruct (v_cmd v); try discriminate Hrr; cbn [rr_of] in Hrr; injection Hrr as ->; reflexivity.
Qed.

Theorem C16_rename_remove_proof cfg w e cmd um n :
  plain_env e = true -> cfg_ok cfg = true -> cfg_ok_links cfg = true -> world_ok cfg w = true ->
  rr_of cmd = Some n -> v_res (view_of_model cfg w e cmd um) = ROk ->
  rr_spec cfg n (wo_fs w) (wo_fs (v_after (view_of_model cfg w e cmd um))) = true.
Proof.
  intros He Hc Hcl Hw Hrr Hok. apply plain_env_plain in He.
  unfold world_ok in Hw. apply andb_true_iff in Hw as [Hnd Htr].
  destruct (cfg_ok_facts cfg Hc) as (H1 & H2 & H3 & H4 & H5 & H6 & H7 & H8 & H9).
  pose proof (cfg_ok_links_facts cfg Hc Hcl) as H10.
  rewrite view_after. cbn [wo_fs]. rewrite view_res in Hok. unfold run in *.
  destruct (run_command e cfg um cmd (MkSt (world_of w) 0 [])) as [o st1] eqn:Hrun.
  cbn [fst snd] in *. destruct o as [a| | | |]; try discriminate Hok.
  destruct (run_rr_absent cfg H1 H2 H3 H4 H5 H6 H7 H8 H10 e He um cmd n Hrr _ _ _ I Hrun) as [A1 A2].
  pose proof (run_rr_rel cfg H1 H2 H3 H4 H5 H6 H7 H8 e He um cmd n Hrr (MkSt (world_of w) 0 [])) as HR.
  unfold st in HR. rewrite Hrun in HR. cbn [snd] in HR.
  apply Rel_rr_spec; assumption.
Qed.

(* ------------------------------------------------------------------ (c) after mount *)
(* the two export sub-directories are distinct plain names; the per-layer package / generated
   directories are relative paths of plain components *)
Definition cfg_ok_mount (c : cfgT) : bool :=
  plainb (c_exp_binpkg c) && plainb (c_exp_gen c) && negb (beq (c_exp_binpkg c) (c_exp_gen c))
  && rel_ok (c_binpkg c) && rel_ok (c_gen c).

(* every expanded export directive of every layer of the chain targets one of that layer's own
   two links (however it is spelled, and however many directives name one link) *)
Definition chain_own (c : cfgT) (f : fsT) (n : bytes) : bool := forallb (own_targets c) (chain c f n).

Definition mount_spec (c : cfgT) (n : bytes) (f f' : fsT) : bool :=
  forallb (fun x =>
    C16.link_ok f' (C16.pkg_link c (l_name x)) (pathjoin [l_path x; c_binpkg c]) (C16.explicit_targets c x (C16.pkg_link c (l_name x)))
    && C16.link_ok f' (C16.gen_link c (l_name x)) (pathjoin [l_path x; c_gen c]) (C16.explicit_targets c x (C16.gen_link c (l_name x))))
    (chain c f n).

Lemma cfg_ok_mount_links c : cfg_ok_mount c = true -> cfg_ok_links c = true.
Proof.
  unfold cfg_ok_mount, cfg_ok_links. intros H.
  apply andb_true_iff in H as [H _]. apply andb_true_iff in H as [H _]. apply andb_true_iff in H as [H _].
  apply andb_true_iff in H as [H1 H2]. apply plainb_spec in H1, H2.
  destruct (plain_rel_ok _ H1) as [-> _]. destruct (plain_rel_ok _ H2) as [-> _]. reflexivity.
Qed.

Lemma in_lks c n T : In T (lks c n) -> is_link_of c n T.
Proof. unfold lks, is_link_of. intros [<-|[<-|[]]]; auto. Qed.
Lemma in_aus c n A : In A (aus c n) -> is_auto_of c n A.
Proof. unfold aus, autoP, autoG, is_auto_of. intros [<-|[<-|[]]]; auto. Qed.

Theorem C16_after_mount_partial_proof cfg w e n um :
  plain_env e = true -> cfg_ok cfg = true -> cfg_ok_mount cfg = true ->
  chain_own cfg (wo_fs w) n = true ->
  v_res (view_of_model cfg w e (CMount n) um) = ROk ->
  mount_spec cfg n (wo_fs w) (wo_fs (v_after (view_of_model cfg w e (CMount n) um))) = true.
Proof.
  intros He Hc Hcm Hsim Hok. apply plain_env_plain in He.
  unfold cfg_ok in Hc. apply andb_true_iff in Hc as [Hc Hbr]. apply andb_true_iff in Hc as [Hc HLE].
  apply andb_true_iff in Hc as [Hc HEL]. apply andb_true_iff in Hc as [HdL HdE].
  apply negb_true_iff in HLE, HEL.
  destruct (dir_ok_slcat _ HdL) as (csL & HLne & HLp & HL).
  destruct (dir_ok_slcat _ HdE) as (csE & HEne & HEp & HE).
  unfold cfg_ok_mount in Hcm. apply andb_true_iff in Hcm as [Hcm Hgen]. apply andb_true_iff in Hcm as [Hcm Hbin].
  apply andb_true_iff in Hcm as [Hcm Hbg]. apply andb_true_iff in Hcm as [Hxb Hxg].
  apply plainb_spec in Hxb, Hxg. apply negb_true_iff, beq_false in Hbg.
  rewrite view_after. cbn [wo_fs]. rewrite view_res in Hok. unfold run in *.
  destruct (run_command e cfg um (CMount n) (MkSt (world_of w) 0 [])) as [o st1] eqn:Hrun.
  cbn [fst snd] in *. destruct o as [a| | | |]; try discriminate Hok.
  unfold chain_own in Hsim. rewrite forallb_forall in Hsim.
  assert (Hpost : forall x0, In x0 (chain cfg (wo_fs w) n) -> links_ok cfg x0 (w_fs (s_w st1))).
  { refine (run_mount_post cfg e He _ _ _ _ um n (wo_fs w) Hsim (MkSt (world_of w) 0 []) a st1 eq_refl Hrun).
    - intros n0 [Hl Hne] T HT.
      apply (H_dir_proof cfg csE HEne HEp HE Hxb Hxg n0 T Hl Hne (in_lks _ _ _ HT)).
    - intros n0 [Hl Hne]. apply (H_PG_proof cfg csE HEne HEp HE Hxb Hxg Hbg n0 Hl Hne).
    - intros n0 m [Hl Hne] [Hlm Hnem] Hnm T HT T' HT'.
      apply (H_diff_proof cfg csE HEne HEp HE Hxb Hxg n0 m T T' Hl Hne Hlm Hnem Hnm (in_lks _ _ _ HT) (in_lks _ _ _ HT')).
    - intros n0 m [Hl Hne] [Hlm Hnem] T HT A HA.
      apply (H_auto_proof cfg csE csL HEne HEp HE HLne HLp HL HEL HLE Hxb Hxg Hbin Hgen n0 m T A Hl Hne Hlm Hnem
               (in_lks _ _ _ HT) (in_aus _ _ _ HA)). }
  unfold mount_spec. apply forallb_forall. intros x0 Hx0. destruct (Hpost x0 Hx0) as [H1 H2].
  rewrite H1, H2. reflexivity.
Qed.

Lemma cmd_spec_mount c w v n : v_cmd v = CMount n -> v_res v = ROk ->
  cmd_spec c w v = mount_spec c n (wo_fs w) (wo_fs (v_after v)).
Proof. intros Hc Hok. unfold cmd_spec. rewrite Hc, Hok. reflexivity. Qed.

(* ------------------------------------------------------------------ the whole predicate *)
Definition mount_ok (c : cfgT) (w : wobs) (cmd : command) : bool :=
  match cmd with CMount n => chain_own c (wo_fs w) n | _ => true end.

Theorem C16_model_partial_proof cfg w e cmd um :
  cfg_ok cfg = true -> cfg_ok_mount cfg = true -> world_ok cfg w = true -> mount_ok cfg w cmd = true ->
  edit_ok cfg cmd = true ->
  C16.step_spec cfg w (view_of_model cfg w e cmd um) = true.
Proof.
  intros Hc Hcm Hw Hmo Hed. rewrite step_spec_split, view_env.
  destruct (plain_env e) eqn:He; [|reflexivity]. cbn [negb].
  rewrite (C16_never_clobbers_proof cfg w e cmd um He Hc Hw Hed). cbn [andb].
  destruct (v_res (view_of_model cfg w e cmd um)) eqn:Hres.
  2-5: unfold cmd_spec; rewrite Hres, view_cmd; destruct cmd; reflexivity.
  destruct (rr_of cmd) as [n|] eqn:Hrr.
  - rewrite (cmd_spec_rr cfg w _ n); [|rewrite view_cmd; exact Hrr|exact Hres].
    apply C16_rename_remove_proof; auto. apply cfg_ok_mount_links, Hcm.
  - destruct cmd; try discriminate Hrr; try (unfold cmd_spec; rewrite Hres, view_cmd; reflexivity).
    rewrite (cmd_spec_mount cfg w _ a); [|apply view_cmd|exact Hres].
    apply C16_after_mount_partial_proof; auto.
Qed.
