(* Path facts for C16: the normal form "/c1/c2/.../cn" ([slcat cs], all ci plain) of a clean
   absolute path other than "/", and path.Join of such a path with relative paths made of
   plain components. *)
From LC Require Import Lib.Bytes Lib.Lex Lib.Fields Lib.PathM Gen.Consts
  Model.MountInfo Model.FsTree Model.Kernel Model.Layers Cases.Verdict Cases.LC Cases.C16
  Proofs.PathP Proofs.C16FsP Proofs.LegalNameP.
Close Scope string_scope.
Open Scope list_scope.

Definition slcat (cs : list bytes) : bytes := flat_map (fun x => sl :: x) cs.

Lemma slcat_app a b : slcat (a ++ b) = slcat a ++ slcat b.
Proof. unfold slcat. apply flat_map_app. Qed.

Lemma slcat_pjoin cs : cs <> [] -> sl :: pjoin cs = slcat cs.
Proof.
  induction cs as [|x r IH]; [congruence|]. intros _. destruct r as [|y r'].
  - cbn. rewrite app_nil_r. reflexivity.
  - change (pjoin (x :: y :: r')) with (x ++ sl :: pjoin (y :: r')).
    rewrite IH by discriminate. reflexivity.
Qed.

Lemma plain_noslash x : plain x -> nosep sl x.
Proof. intros (_ & _ & _ & H). exact H. Qed.

Lemma psplit_cons_sl s : psplit (sl :: s) = [] :: psplit s.
Proof. unfold psplit, split. cbn [split_acc]. rewrite Ascii.eqb_refl. reflexivity. Qed.

Lemma psplit_slcat cs : cs <> [] -> Forall plain cs -> psplit (slcat cs) = [] :: cs.
Proof.
  intros Hne Hp. rewrite <- slcat_pjoin by exact Hne. rewrite psplit_cons_sl. f_equal.
  apply split_join; [exact Hne|]. eapply Forall_impl; [|exact Hp]. apply plain_noslash.
Qed.

Lemma slcat_rooted cs : cs <> [] -> is_rooted (slcat cs) = true.
Proof. destruct cs; [congruence|]. intros _. reflexivity. Qed.

Lemma slcat_nonempty cs : cs <> [] -> slcat cs <> [].
Proof. destruct cs; [congruence|]. discriminate. Qed.

Lemma clean_slcat cs : cs <> [] -> Forall plain cs -> clean (slcat cs) = slcat cs.
Proof.
  intros Hne Hp. rewrite clean_unfold by (apply slcat_nonempty, Hne).
  rewrite slcat_rooted by exact Hne. unfold cstack. rewrite slcat_rooted by exact Hne.
  rewrite psplit_slcat by assumption. cbn [fold_left]. unfold stepc at 2. cbn [beq orb].
  rewrite fold_plain by exact Hp. rewrite app_nil_r, rev_involutive.
  cbn [assemble]. apply slcat_pjoin, Hne.
Qed.

Lemma slcat_not_root cs : cs <> [] -> Forall plain cs -> beq (slcat cs) root = false.
Proof.
  intros Hne Hp. destruct cs as [|x r]; [congruence|]. inversion Hp as [|? ? (Hx & _) _]; subst.
  apply beq_false. intros H. destruct x; [congruence|]. cbn in H. discriminate H.
Qed.

(* a clean absolute path other than "/" *)
Definition dir_ok (d : bytes) : bool := is_abs d && beq (clean d) d && negb (beq d root).

Lemma dir_ok_slcat d : dir_ok d = true -> exists cs, cs <> [] /\ Forall plain cs /\ d = slcat cs.
Proof.
  unfold dir_ok. intros H. apply andb_true_iff in H as [H H3]. apply andb_true_iff in H as [H1 H2].
  apply beq_eq in H2. apply negb_true_iff in H3. unfold is_abs in H1.
  assert (Hne : d <> []) by (intros ->; discriminate H1).
  rewrite clean_unfold in H2 by exact Hne. rewrite H1 in H2. cbn [assemble] in H2.
  pose proof (cstack_nf d) as Hnf. rewrite H1 in Hnf. apply nf_rooted_plain in Hnf.
  exists (cstack d). destruct (cstack d) as [|x r] eqn:Ec.
  - cbn in H2. rewrite <- H2 in H3. discriminate H3.
  - split; [discriminate|]. split; [exact Hnf|]. rewrite <- H2 at 1. apply slcat_pjoin. discriminate.
Qed.

(* a relative path made of plain components *)
Definition rel_ok (r : bytes) : bool := negb (beq r []) && forallb plainb (psplit r).

Lemma join_split_acc sep s : forall cur, join sep (split_acc sep cur s) = rev cur ++ s.
Proof.
  induction s as [|ch r IH]; intros cur; cbn [split_acc].
  - cbn. rewrite app_nil_r. reflexivity.
  - destruct (Ascii.eqb ch sep) eqn:E.
    + apply Ascii.eqb_eq in E. subst ch.
      pose proof (split_acc_nonempty sep [] r) as Hne. specialize (IH []).
      destruct (split_acc sep [] r) as [|y ys]; [congruence|].
      change (join sep (rev cur :: y :: ys)) with (rev cur ++ sep :: join sep (y :: ys)).
      rewrite IH. reflexivity.
    + rewrite IH. cbn [rev]. rewrite <- app_assoc. reflexivity.
Qed.
Lemma pjoin_psplit s : pjoin (psplit s) = s.
Proof. unfold pjoin, psplit, split. rewrite join_split_acc. reflexivity. Qed.

Lemma rel_ok_spec r : rel_ok r = true -> exists ps, ps <> [] /\ Forall plain ps /\ r = pjoin ps /\ psplit r = ps.
Proof.
  unfold rel_ok. intros H. apply andb_true_iff in H as [H1 H2]. exists (psplit r).
  split; [apply split_acc_nonempty|]. split.
  - apply Forall_forall. intros x Hx. apply plainb_spec. rewrite forallb_forall in H2. apply H2, Hx.
  - split; [symmetry; apply pjoin_psplit|reflexivity].
Qed.

Lemma plain_rel_ok x : plain x -> rel_ok x = true /\ psplit x = [x].
Proof.
  intros Hx. assert (Hs : psplit x = [x]).
  { unfold psplit, split. rewrite split_acc_end by (apply plain_noslash, Hx). rewrite app_nil_r, rev_involutive. reflexivity. }
  split; [|exact Hs]. unfold rel_ok. rewrite Hs. cbn [forallb].
  destruct Hx as (H1 & H2 & H3 & H4).
  assert (Hp : plainb x = true) by (apply plainb_spec; repeat split; assumption).
  rewrite Hp. apply beq_false in H1. rewrite H1. reflexivity.
Qed.

(* "/" ++ joined relative paths = the concatenated components *)
Lemma slcat_pjoin_map pss : pss <> [] -> Forall (fun ps => ps <> []) pss ->
  sl :: pjoin (map pjoin pss) = slcat (concat pss).
Proof.
  induction pss as [|ps r IH]; [congruence|]. intros _ Hne. inversion Hne as [|? ? Hps Hr]; subst.
  destruct r as [|ps2 r'].
  - cbn [map concat]. rewrite app_nil_r. cbn [pjoin join]. apply slcat_pjoin, Hps.
  - change (pjoin (map pjoin (ps :: ps2 :: r'))) with (pjoin ps ++ sl :: pjoin (map pjoin (ps2 :: r'))).
    rewrite IH by (try discriminate; assumption).
    change (concat (ps :: ps2 :: r')) with (ps ++ concat (ps2 :: r')). rewrite (slcat_app ps).
    rewrite <- (slcat_pjoin ps Hps). reflexivity.
Qed.

Lemma filter_nonempty_id rs : Forall (fun r => r <> []) rs -> filter (fun x => negb (beq x [])) rs = rs.
Proof.
  induction 1 as [|x r Hx _ IH]; cbn [filter]; [reflexivity|].
  apply beq_false in Hx. rewrite Hx. cbn [negb]. now rewrite IH.
Qed.

Lemma pathjoin_rel cs rs :
  cs <> [] -> Forall plain cs -> Forall (fun r => rel_ok r = true) rs ->
  pathjoin (slcat cs :: rs) = slcat (cs ++ flat_map psplit rs).
Proof.
  intros Hne Hp Hrs. unfold pathjoin.
  assert (Hrne : Forall (fun r => r <> []) (slcat cs :: rs)).
  { constructor; [apply slcat_nonempty, Hne|]. eapply Forall_impl; [|exact Hrs].
    intros r Hr. unfold rel_ok in Hr. apply andb_true_iff in Hr as [Hr _].
    apply negb_true_iff, beq_false in Hr. exact Hr. }
  rewrite filter_nonempty_id by exact Hrne.
  assert (Hpl : Forall plain (cs ++ flat_map psplit rs)).
  { apply Forall_app. split; [exact Hp|]. apply Forall_forall. intros x Hx.
    apply in_flat_map in Hx as (r & Hr & Hx). rewrite Forall_forall in Hrs.
    destruct (rel_ok_spec r (Hrs r Hr)) as (ps & _ & Hps & _ & Hsp). rewrite Hsp in Hx.
    rewrite Forall_forall in Hps. apply Hps, Hx. }
  assert (Hj : pjoin (slcat cs :: rs) = slcat (cs ++ flat_map psplit rs)).
  { destruct rs as [|r0 rs'].
    - cbn [flat_map pjoin join]. rewrite app_nil_r. reflexivity.
    - change (pjoin (slcat cs :: r0 :: rs')) with (slcat cs ++ sl :: pjoin (r0 :: rs')).
      rewrite slcat_app. f_equal.
      assert (Hm : r0 :: rs' = map pjoin (map psplit (r0 :: rs'))).
      { rewrite map_map. rewrite <- (map_id (r0 :: rs')) at 1. apply map_ext. intros a. symmetry. apply pjoin_psplit. }
      rewrite Hm at 1. rewrite slcat_pjoin_map.
      + rewrite flat_map_concat_map. reflexivity.
      + discriminate.
      + apply Forall_forall. intros ps Hin. apply in_map_iff in Hin as (r & <- & _). apply split_acc_nonempty. }
  change (clean (pjoin (slcat cs :: rs)) = slcat (cs ++ flat_map psplit rs)). rewrite Hj.
  apply clean_slcat; [|exact Hpl]. destruct cs; [congruence|discriminate].
Qed.

Lemma under_slcat cs ps : cs <> [] -> Forall plain cs -> ps <> [] ->
  under (slcat cs) (slcat (cs ++ ps)) = true.
Proof.
  intros Hne Hp Hps. apply under_sub; [apply slcat_not_root; assumption|].
  rewrite slcat_app. destruct ps as [|x r]; [congruence|]. exists (x ++ slcat r). reflexivity.
Qed.

(* ------------------------------------------------------------------ layer names *)
(* every byte of a legal name is a name byte (LegalNameP): an ASCII letter, digit, '_', '-', or
   a byte >= 128 of a two-byte letter; in particular neither '/' nor '.' *)
Lemma legal_name_chars n : legal_name n = true -> Forall (fun ch => name_byte ch = true) n.
Proof. apply legal_name_bytes. Qed.

Lemma legal_plain n : legal_name n = true -> n <> [] -> plain n.
Proof.
  intros Hl Hne. pose proof (legal_name_chars n Hl) as Hc. rewrite Forall_forall in Hc.
  unfold plain. split; [exact Hne|]. split; [|split].
  - intros ->. specialize (Hc (nb 46) (or_introl eq_refl)). rewrite name_byte_dot in Hc. discriminate.
  - intros ->. specialize (Hc (nb 46) (or_introl eq_refl)). rewrite name_byte_dot in Hc. discriminate.
  - intros Hin. specialize (Hc sl Hin). change sl with (nb 47) in Hc. rewrite name_byte_sl in Hc. discriminate.
Qed.

(* ------------------------------------------------------------------ the configuration facts of C16 *)
Definition conf_plain : plain D_LayerconfigFile.
Proof. apply plainb_spec. vm_compute. reflexivity. Qed.
Definition root_plain : plain (bs "root").
Proof. apply plainb_spec. vm_compute. reflexivity. Qed.
Definition bashrc_plain : plain (bs ".bashrc").
Proof. apply plainb_spec. vm_compute. reflexivity. Qed.

Section Cfg.
Variable c : cfgT.
Variable csL : list bytes.
Hypothesis csL_ne : csL <> [].
Hypothesis csL_plain : Forall plain csL.
Hypothesis HL : c_layers c = slcat csL.

Lemma layer_path_nf n : legal_name n = true -> n <> [] -> layer_path c n = slcat (csL ++ [n]).
Proof.
  intros Hl Hne. unfold layer_path. rewrite HL.
  destruct (plain_rel_ok n (legal_plain n Hl Hne)) as [Hr Hs].
  rewrite pathjoin_rel; [|assumption|assumption|constructor; [exact Hr|constructor]].
  cbn [flat_map]. rewrite Hs. reflexivity.
Qed.

Lemma layer_path_empty : layer_path c [] = c_layers c.
Proof.
  unfold layer_path, pathjoin. cbn [filter beq negb]. rewrite HL.
  assert (E : beq (slcat csL) [] = false) by (apply beq_false, slcat_nonempty, csL_ne).
  rewrite E. cbn [negb pjoin join]. apply clean_slcat; assumption.
Qed.

Lemma HP_layer_proof n : legal_name n = true -> n <> [] -> under (c_layers c) (layer_path c n) = true.
Proof.
  intros Hl Hne. rewrite layer_path_nf by assumption. rewrite HL. apply under_slcat; try assumption. discriminate.
Qed.

Lemma HP_conf_proof n : legal_name n = true ->
  under (c_layers c) (pathjoin [layer_path c n; D_LayerconfigFile]) = true.
Proof.
  intros Hl. destruct (plain_rel_ok _ conf_plain) as [Hr Hs]. destruct n as [|ch r].
  - rewrite layer_path_empty, HL.
    rewrite pathjoin_rel; [|assumption|assumption|constructor; [exact Hr|constructor]].
    apply under_slcat; try assumption. cbn [flat_map]. rewrite Hs. discriminate.
  - rewrite layer_path_nf by (try discriminate; assumption).
    rewrite pathjoin_rel; [| | |constructor; [exact Hr|constructor]].
    + rewrite HL, <- app_assoc. apply under_slcat; try assumption. discriminate.
    + destruct csL; discriminate.
    + apply Forall_app. split; [assumption|]. constructor; [|constructor]. apply legal_plain; [assumption|discriminate].
Qed.

Hypothesis Hbr : rel_ok (c_buildroot c) = true.

Lemma HP_bashrc_proof n : legal_name n = true -> n <> [] ->
  under (c_layers c)
    (pathjoin [pathjoin [pathjoin [layer_path c n; c_buildroot c]; bs "root"]; bs ".bashrc"]) = true.
Proof.
  intros Hl Hne. rewrite layer_path_nf by assumption.
  destruct (plain_rel_ok _ root_plain) as [Hr1 Hs1]. destruct (plain_rel_ok _ bashrc_plain) as [Hr2 Hs2].
  destruct (rel_ok_spec _ Hbr) as (ps & Hpsne & Hps & _ & Hsp).
  assert (P1 : Forall plain (csL ++ [n])).
  { apply Forall_app. split; [assumption|]. constructor; [|constructor]. apply legal_plain; assumption. }
  rewrite (pathjoin_rel (csL ++ [n]) [c_buildroot c]);
    [|destruct csL; discriminate|exact P1|constructor; [exact Hbr|constructor]].
  cbn [flat_map]. rewrite Hsp, app_nil_r.
  assert (P2 : Forall plain ((csL ++ [n]) ++ ps)) by (apply Forall_app; split; assumption).
  rewrite (pathjoin_rel ((csL ++ [n]) ++ ps) [bs "root"]);
    [|destruct csL; discriminate|exact P2|constructor; [exact Hr1|constructor]].
  cbn [flat_map]. rewrite Hs1, app_nil_r.
  assert (P3 : Forall plain (((csL ++ [n]) ++ ps) ++ [bs "root"])).
  { apply Forall_app. split; [exact P2|]. constructor; [exact root_plain|constructor]. }
  rewrite (pathjoin_rel _ [bs ".bashrc"]);
    [|destruct csL; discriminate|exact P3|constructor; [exact Hr2|constructor]].
  rewrite HL, <- !app_assoc. apply under_slcat; try assumption. discriminate.
Qed.
End Cfg.

(* the export links of a layer *)
Section CfgE.
Variable c : cfgT.
Variable csE : list bytes.
Hypothesis csE_ne : csE <> [].
Hypothesis csE_plain : Forall plain csE.
Hypothesis HE : c_exports c = slcat csE.
Hypothesis Hx : rel_ok (c_exp_binpkg c) = true.
Hypothesis Hy : rel_ok (c_exp_gen c) = true.

Lemma pkg_link_nf n : legal_name n = true -> n <> [] ->
  C16.pkg_link c n = slcat (csE ++ psplit (c_exp_binpkg c) ++ [n]).
Proof.
  intros Hl Hne. unfold C16.pkg_link. rewrite HE.
  destruct (plain_rel_ok n (legal_plain n Hl Hne)) as [Hr Hs].
  rewrite pathjoin_rel; [|assumption|assumption|constructor; [exact Hx|constructor; [exact Hr|constructor]]].
  cbn [flat_map]. rewrite Hs, app_nil_r. reflexivity.
Qed.
Lemma gen_link_nf n : legal_name n = true -> n <> [] ->
  C16.gen_link c n = slcat (csE ++ psplit (c_exp_gen c) ++ [n]).
Proof.
  intros Hl Hne. unfold C16.gen_link. rewrite HE.
  destruct (plain_rel_ok n (legal_plain n Hl Hne)) as [Hr Hs].
  rewrite pathjoin_rel; [|assumption|assumption|constructor; [exact Hy|constructor; [exact Hr|constructor]]].
  cbn [flat_map]. rewrite Hs, app_nil_r. reflexivity.
Qed.

Lemma HP_links_proof n : legal_name n = true -> n <> [] ->
  under (c_exports c) (C16.pkg_link c n) = true /\ under (c_exports c) (C16.gen_link c n) = true.
Proof.
  intros Hl Hne. rewrite pkg_link_nf, gen_link_nf by assumption. rewrite HE.
  split; apply under_slcat; try assumption; intros H; apply app_eq_nil in H as [_ H]; discriminate H.
Qed.
End CfgE.

(* ------------------------------------------------------------------ comparing normal forms *)
Definition sl_or_end (u : bytes) : Prop := u = [] \/ exists u', u = sl :: u'.

Lemma noslash_split x : forall y u v, nosep sl x -> nosep sl y -> x ++ u = y ++ v ->
  sl_or_end u -> sl_or_end v -> x = y /\ u = v.
Proof.
  induction x as [|ch x IH]; intros y u v Hx Hy H Hu Hv.
  - destruct y as [|d y]; [auto|]. exfalso. cbn in H. destruct Hu as [->|[u' ->]]; [discriminate|].
    injection H as <- _. apply Hy. now left.
  - destruct y as [|d y].
    + exfalso. cbn in H. destruct Hv as [->|[v' ->]]; [discriminate|]. injection H as -> _. apply Hx. now left.
    + cbn in H. injection H as -> H.
      destruct (IH y u v) as [-> ->]; auto; intros Hin; [apply Hx|apply Hy]; now right.
Qed.

Lemma slcat_sl_or_end cs : sl_or_end (slcat cs).
Proof. destruct cs as [|x r]; [now left|right; eexists; reflexivity]. Qed.

Lemma slcat_app_inv a : forall b r, Forall plain a -> Forall plain b -> slcat b = slcat a ++ r ->
  sl_or_end r -> exists t, b = a ++ t.
Proof.
  induction a as [|x a IH]; intros b r Ha Hb H Hr; [exists b; reflexivity|].
  inversion Ha as [|? ? Hx Ha']; subst. destruct b as [|y b].
  - cbn in H. discriminate H.
  - inversion Hb as [|? ? Hy Hb']; subst. cbn [slcat flat_map] in H. fold (slcat b) in H. fold (slcat a) in H.
    injection H as H. rewrite <- app_assoc in H.
    destruct (noslash_split y x (slcat b) (slcat a ++ r)) as [-> H2]; auto using plain_noslash, slcat_sl_or_end.
    { destruct a as [|x2 a2]; [exact Hr|right; eexists; reflexivity]. }
    destruct (IH b r Ha' Hb' H2 Hr) as [t ->]. exists t. reflexivity.
Qed.

Lemma slcat_at_or_under a b : a <> [] -> Forall plain a -> Forall plain b ->
  at_or_under (slcat a) (slcat b) = true -> exists t, b = a ++ t.
Proof.
  intros Hne Ha Hb H. apply at_or_under_sub in H; [|apply slcat_not_root; assumption].
  destruct H as [H|[r H]].
  - apply (slcat_app_inv a b [] Ha Hb); [rewrite app_nil_r; exact H|now left].
  - apply (slcat_app_inv a b (sl :: r) Ha Hb H). right. eexists. reflexivity.
Qed.

Lemma slcat_inj a b : Forall plain a -> Forall plain b -> slcat a = slcat b -> a = b.
Proof.
  intros Ha Hb H. destruct (slcat_app_inv a b [] Ha Hb) as [t Ht]; [rewrite app_nil_r; auto|now left|].
  destruct (slcat_app_inv b a [] Hb Ha) as [t' Ht']; [rewrite app_nil_r; auto|now left|].
  subst b. rewrite <- app_assoc in Ht'. rewrite <- (app_nil_r a) in Ht' at 1. apply app_inv_head in Ht'.
  symmetry in Ht'. apply app_eq_nil in Ht' as [-> _]. now rewrite app_nil_r.
Qed.

(* ------------------------------------------------------------------ MkdirAll's prefixes *)
Lemma prefixes_acc_in cs : forall cur q, In q (prefixes_acc cur cs) ->
  exists k, (k < length cs)%nat /\ q = cur ++ slcat (firstn (S k) cs).
Proof.
  induction cs as [|x r IH]; intros cur q H; cbn [prefixes_acc] in H; [destruct H|].
  destruct H as [<-|H].
  - exists 0%nat. split; [cbn; lia|]. cbn. rewrite app_nil_r. reflexivity.
  - destruct (IH _ _ H) as (k & Hk & ->). exists (S k). split; [cbn; lia|].
    rewrite <- app_assoc. reflexivity.
Qed.

Lemma prefixes_slcat cs q : Forall plain cs -> In q (prefixes (slcat cs)) ->
  at_or_under q (slcat cs) = true.
Proof.
  intros Hp H. destruct cs as [|x0 r0] eqn:Ecs.
  { cbn in H. destruct H. }
  rewrite <- Ecs in *. assert (Hne : cs <> []) by (rewrite Ecs; discriminate). clear Ecs.
  unfold prefixes in H. rewrite psplit_slcat in H by assumption. cbn [filter beq negb] in H.
  assert (Hf : filter (fun x => negb (beq x [])) cs = cs).
  { apply filter_nonempty_id. eapply Forall_impl; [|exact Hp]. intros a (Ha & _). exact Ha. }
  rewrite Hf in H. destruct (prefixes_acc_in _ _ _ H) as (k & Hk & ->). cbn [app].
  rewrite <- (firstn_skipn (S k) cs) at 2.
  assert (Hfp : Forall plain (firstn (S k) cs)).
  { apply Forall_forall. intros a Ha. rewrite Forall_forall in Hp. apply Hp.
    rewrite <- (firstn_skipn (S k) cs). apply in_or_app. now left. }
  assert (Hfne : firstn (S k) cs <> []) by (destruct cs; [congruence|discriminate]).
  destruct (skipn (S k) cs) as [|y ys] eqn:Es.
  - rewrite app_nil_r. apply at_or_under_refl.
  - apply under_at_or_under, under_slcat; try assumption. discriminate.
Qed.

(* ------------------------------------------------------------------ path.Dir *)
Lemma lss_noslash n : nosep sl n -> forall cur acc found,
  last_slash_split n cur acc found = (found, acc, rev cur ++ n).
Proof.
  induction n as [|ch r IH]; intros Hn cur acc found; cbn [last_slash_split].
  - rewrite app_nil_r. reflexivity.
  - destruct (Ascii.eqb ch sl) eqn:E.
    + exfalso. apply Ascii.eqb_eq in E. subst. apply Hn. now left.
    + rewrite IH by (intros Hin; apply Hn; now right). cbn [rev]. rewrite <- app_assoc. reflexivity.
Qed.

Lemma lss_spec n : nosep sl n -> forall d cur acc found, exists accf,
  last_slash_split (d ++ sl :: n) cur acc found = (true, accf, n)
  /\ rev accf = rev acc ++ rev cur ++ d ++ [sl].
Proof.
  intros Hn. induction d as [|ch d IH]; intros cur acc found.
  - cbn [app last_slash_split]. rewrite Ascii.eqb_refl. rewrite lss_noslash by exact Hn.
    eexists. split; [reflexivity|]. cbn [rev]. rewrite rev_app_distr. cbn [app]. rewrite <- app_assoc. reflexivity.
  - cbn [app last_slash_split]. destruct (Ascii.eqb ch sl) eqn:E.
    + apply Ascii.eqb_eq in E. subst ch. destruct (IH [] (sl :: cur ++ acc) true) as (accf & H1 & H2).
      exists accf. split; [exact H1|]. rewrite H2. cbn [rev]. rewrite rev_app_distr.
      cbn [app]. rewrite <- !app_assoc. reflexivity.
    + destruct (IH (ch :: cur) acc found) as (accf & H1 & H2).
      exists accf. split; [exact H1|]. rewrite H2. cbn [rev]. rewrite <- !app_assoc. reflexivity.
Qed.

Lemma pathsplit_last d n : nosep sl n -> pathsplit (d ++ sl :: n) = (d ++ [sl], n).
Proof.
  intros Hn. unfold pathsplit. destruct (lss_spec n Hn d [] [] false) as (accf & H1 & H2).
  rewrite H1. rewrite H2. reflexivity.
Qed.

Lemma pathdir_slcat cs n : cs <> [] -> Forall plain cs -> plain n ->
  pathdir (slcat (cs ++ [n])) = slcat cs.
Proof.
  intros Hne Hp Hn. rewrite slcat_app. cbn [slcat flat_map]. rewrite app_nil_r.
  unfold pathdir. rewrite pathsplit_last by (apply plain_noslash, Hn). cbn [fst].
  fold (slcat cs).
  assert (Hnz : slcat cs ++ [sl] <> []) by (destruct (slcat cs); discriminate).
  assert (Hr : is_rooted (slcat cs ++ [sl]) = true).
  { destruct cs; [congruence|]. reflexivity. }
  rewrite clean_unfold by exact Hnz. rewrite Hr. unfold cstack. rewrite Hr.
  unfold psplit. rewrite split_app_sep. fold psplit. rewrite psplit_slcat by assumption.
  assert (Hps : psplit (@nil ascii) = [[]]) by reflexivity. rewrite Hps.
  assert (Hnil : forall st, stepc true st [] = st) by reflexivity.
  rewrite fold_left_app. cbn [fold_left]. rewrite !Hnil.
  rewrite fold_plain by exact Hp. rewrite app_nil_r.
  rewrite rev_involutive. cbn [assemble]. apply slcat_pjoin, Hne.
Qed.

Lemma snoc_ne {A} (l : list A) x : l ++ [x] <> [].
Proof. intros H. apply app_eq_nil in H as [_ H]. discriminate H. Qed.

(* ------------------------------------------------------------------ the link paths of C16 (c) *)
Section CfgM.
Variable c : cfgT.
Variables csE csL : list bytes.
Hypothesis csE_ne : csE <> [].
Hypothesis csE_plain : Forall plain csE.
Hypothesis HE : c_exports c = slcat csE.
Hypothesis csL_ne : csL <> [].
Hypothesis csL_plain : Forall plain csL.
Hypothesis HL : c_layers c = slcat csL.
Hypothesis EL : at_or_under (c_exports c) (c_layers c) = false.
Hypothesis LE : at_or_under (c_layers c) (c_exports c) = false.
Hypothesis Hxb : plain (c_exp_binpkg c).
Hypothesis Hxg : plain (c_exp_gen c).
Hypothesis Hbg : c_exp_binpkg c <> c_exp_gen c.
Hypothesis Hbin : rel_ok (c_binpkg c) = true.
Hypothesis Hgen : rel_ok (c_gen c) = true.

Notation xb := (c_exp_binpkg c).
Notation xg := (c_exp_gen c).

Definition is_link_of (n T : bytes) : Prop := T = C16.pkg_link c n \/ T = C16.gen_link c n.
Definition is_auto_of (n A : bytes) : Prop :=
  A = pathjoin [layer_path c n; c_binpkg c] \/ A = pathjoin [layer_path c n; c_gen c].

Lemma link_nf n T : legal_name n = true -> n <> [] -> is_link_of n T ->
  exists a, (a = xb \/ a = xg) /\ T = slcat ((csE ++ [a]) ++ [n]).
Proof.
  intros Hl Hne [-> | ->].
  - exists xb. split; [now left|]. rewrite (pkg_link_nf c csE csE_ne csE_plain HE) by
      (try assumption; apply plain_rel_ok; assumption).
    destruct (plain_rel_ok _ Hxb) as [_ ->]. rewrite <- app_assoc. reflexivity.
  - exists xg. split; [now right|]. rewrite (gen_link_nf c csE csE_ne csE_plain HE) by
      (try assumption; apply plain_rel_ok; assumption).
    destruct (plain_rel_ok _ Hxg) as [_ ->]. rewrite <- app_assoc. reflexivity.
Qed.

Lemma Ea_plain a : a = xb \/ a = xg -> Forall plain (csE ++ [a]).
Proof.
  intros Ha. apply Forall_app. split; [assumption|]. constructor; [|constructor].
  destruct Ha as [-> | ->]; assumption.
Qed.
Lemma Ean_plain a n : a = xb \/ a = xg -> legal_name n = true -> n <> [] -> Forall plain ((csE ++ [a]) ++ [n]).
Proof.
  intros Ha Hl Hne. apply Forall_app. split; [apply Ea_plain, Ha|]. constructor; [|constructor].
  apply legal_plain; assumption.
Qed.

Lemma H_dir_proof n T : legal_name n = true -> n <> [] -> is_link_of n T ->
  exists cs, Forall plain cs /\ pathdir T = slcat cs.
Proof.
  intros Hl Hne HT. destruct (link_nf n T Hl Hne HT) as (a & Ha & ->).
  exists (csE ++ [a]). split; [apply Ea_plain, Ha|].
  apply pathdir_slcat; [destruct csE; discriminate|apply Ea_plain, Ha|apply legal_plain; assumption].
Qed.

Lemma H_abs_proof n T : legal_name n = true -> n <> [] -> is_link_of n T ->
  pathjoin [T; []] = T /\ exists r, T = sl :: r.
Proof.
  intros Hl Hne HT. destruct (link_nf n T Hl Hne HT) as (a & Ha & ->).
  assert (Hne2 : (csE ++ [a]) ++ [n] <> []) by (destruct csE; discriminate).
  split.
  - unfold pathjoin. cbn [filter beq negb].
    assert (E0 : beq (slcat ((csE ++ [a]) ++ [n])) [] = false) by (apply beq_false, slcat_nonempty, Hne2).
    rewrite E0. cbn [negb pjoin join]. apply clean_slcat; [exact Hne2|apply Ean_plain; assumption].
  - destruct ((csE ++ [a]) ++ [n]) as [|y ys]; [congruence|]. eexists. reflexivity.
Qed.

Lemma links_not_nested n m T T' : legal_name n = true -> n <> [] -> legal_name m = true -> m <> [] ->
  is_link_of m T -> is_link_of n T' -> at_or_under T T' = true -> T = T'.
Proof.
  intros Hl Hne Hlm Hnem HT HT' H.
  destruct (link_nf m T Hlm Hnem HT) as (a & Ha & ->). destruct (link_nf n T' Hl Hne HT') as (b & Hb & ->).
  destruct (slcat_at_or_under _ _ (snoc_ne _ _) (Ean_plain a m Ha Hlm Hnem)
              (Ean_plain b n Hb Hl Hne) H) as [t Ht].
  rewrite <- !app_assoc in Ht. apply app_inv_head in Ht. cbn [app] in Ht. injection Ht as -> -> _. reflexivity.
Qed.

Lemma H_PG_proof n : legal_name n = true -> n <> [] ->
  at_or_under (C16.pkg_link c n) (C16.gen_link c n) = false
  /\ at_or_under (C16.gen_link c n) (C16.pkg_link c n) = false.
Proof.
  intros Hl Hne.
  assert (Hneq : C16.pkg_link c n <> C16.gen_link c n).
  { destruct (link_nf n _ Hl Hne (or_introl eq_refl)) as (a & Ha & Ea).
    rewrite (pkg_link_nf c csE csE_ne csE_plain HE), (gen_link_nf c csE csE_ne csE_plain HE)
      by (try assumption; apply plain_rel_ok; assumption).
    destruct (plain_rel_ok _ Hxb) as [_ ->]. destruct (plain_rel_ok _ Hxg) as [_ ->].
    intros H. apply slcat_inj in H.
    - apply app_inv_head in H. injection H as H. contradiction.
    - rewrite app_assoc. apply Ean_plain; auto.
    - rewrite app_assoc. apply Ean_plain; auto. }
  split.
  - destruct (at_or_under (C16.pkg_link c n) (C16.gen_link c n)) eqn:H; [|reflexivity]. exfalso. apply Hneq.
    apply (links_not_nested n n _ _ Hl Hne Hl Hne (or_introl eq_refl) (or_intror eq_refl) H).
  - destruct (at_or_under (C16.gen_link c n) (C16.pkg_link c n)) eqn:H; [|reflexivity]. exfalso. apply Hneq. symmetry.
    apply (links_not_nested n n _ _ Hl Hne Hl Hne (or_intror eq_refl) (or_introl eq_refl) H).
Qed.

Lemma H_diff_proof n m T T' : legal_name n = true -> n <> [] -> legal_name m = true -> m <> [] -> n <> m ->
  is_link_of m T -> is_link_of n T' -> at_or_under T T' = false.
Proof.
  intros Hl Hne Hlm Hnem Hnm HT HT'. destruct (at_or_under T T') eqn:H; [|reflexivity]. exfalso.
  destruct (link_nf m T Hlm Hnem HT) as (a & Ha & ->). destruct (link_nf n T' Hl Hne HT') as (b & Hb & ->).
  destruct (slcat_at_or_under _ _ (snoc_ne _ _) (Ean_plain a m Ha Hlm Hnem)
              (Ean_plain b n Hb Hl Hne) H) as [t Ht].
  rewrite <- !app_assoc in Ht. apply app_inv_head in Ht. cbn [app] in Ht. injection Ht as _ Hmn _. congruence.
Qed.

Lemma auto_under_L n A : legal_name n = true -> n <> [] -> is_auto_of n A -> under (c_layers c) A = true.
Proof.
  intros Hl Hne HA. unfold is_auto_of in HA. rewrite (layer_path_nf c csL csL_ne csL_plain HL n Hl Hne) in HA.
  assert (P1 : Forall plain (csL ++ [n])).
  { apply Forall_app. split; [assumption|]. constructor; [|constructor]. apply legal_plain; assumption. }
  destruct HA as [-> | ->].
  - rewrite (pathjoin_rel (csL ++ [n]) [c_binpkg c]);
      [|destruct csL; discriminate|exact P1|constructor; [exact Hbin|constructor]].
    rewrite HL, <- app_assoc. apply under_slcat; try assumption. discriminate.
  - rewrite (pathjoin_rel (csL ++ [n]) [c_gen c]);
      [|destruct csL; discriminate|exact P1|constructor; [exact Hgen|constructor]].
    rewrite HL, <- app_assoc. apply under_slcat; try assumption. discriminate.
Qed.

Lemma H_auto_proof n m T A : legal_name n = true -> n <> [] -> legal_name m = true -> m <> [] ->
  is_link_of m T -> is_auto_of n A ->
  at_or_under T A = false /\ at_or_under A (pathdir T) = false.
Proof.
  intros Hl Hne Hlm Hnem HT HA.
  pose proof (auto_under_L n A Hl Hne HA) as HuA.
  assert (E_ne : c_exports c <> []) by (rewrite HE; apply slcat_nonempty, csE_ne).
  assert (L_ne : c_layers c <> []) by (rewrite HL; apply slcat_nonempty, csL_ne).
  assert (E_nr : beq (c_exports c) root = false) by (rewrite HE; apply slcat_not_root; assumption).
  assert (L_nr : beq (c_layers c) root = false) by (rewrite HL; apply slcat_not_root; assumption).
  destruct (link_nf m T Hlm Hnem HT) as (a & Ha & ET).
  assert (HuT : under (c_exports c) T = true).
  { rewrite ET, HE, <- app_assoc. apply under_slcat; try assumption. discriminate. }
  assert (HuD : under (c_exports c) (pathdir T) = true).
  { rewrite ET, pathdir_slcat; [|destruct csE; discriminate|apply Ea_plain, Ha|apply legal_plain; assumption].
    rewrite HE. apply under_slcat; try assumption. discriminate. }
  split.
  - destruct (at_or_under T A) eqn:H; [|reflexivity]. exfalso.
    apply (disjoint_subtrees (c_exports c) (c_layers c) A E_ne L_ne E_nr L_nr EL LE).
    + exact (under_trans (c_exports c) T A E_ne E_nr HuT H).
    + apply under_at_or_under, HuA.
  - destruct (at_or_under A (pathdir T)) eqn:H; [|reflexivity]. exfalso.
    apply (disjoint_subtrees (c_exports c) (c_layers c) (pathdir T) E_ne L_ne E_nr L_nr EL LE HuD).
    apply under_at_or_under. exact (under_trans (c_layers c) A (pathdir T) L_ne L_nr HuA H).
Qed.
End CfgM.
