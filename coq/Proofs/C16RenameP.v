(* C16 (b): after a successful rename / remove of layer n no export entry named after n is
   left, and every other export entry is unchanged. *)
From LC Require Import Lib.Bytes Lib.Lex Lib.Fields Lib.PathM Gen.Consts
  Model.MountInfo Model.FsTree Model.Kernel Model.Layers Cases.Verdict Cases.LC Cases.C16
  Proofs.MonadP Proofs.C15P Proofs.PathP Proofs.C16FsP Proofs.C16MonadP Proofs.C16FrameP
  Proofs.C16ClobberP.
Close Scope string_scope.
Open Scope list_scope.

Definition prot_b (c : cfgT) (n : bytes) (p : bytes) (nd : node) : Prop :=
  under (c_exports c) p = true /\ p <> C16.pkg_link c n /\ p <> C16.gen_link c n.

(* never creates an entry *)
Definition NC (f f' : fsT) : Prop := forall q, fs_get f q = None -> fs_get f' q = None.
Lemma NC_refl f : NC f f.
Proof. intros q H. exact H. Qed.
Lemma NC_trans a b d : NC a b -> NC b d -> NC a d.
Proof. intros H1 H2 q H. apply H2, H1, H. Qed.

Lemma exists_false f p : exists_ f p = false -> fs_get f p = None.
Proof. unfold exists_, lstat. destruct (fs_get f p); [discriminate|reflexivity]. Qed.
Lemma exists_false_iff f p : fs_get f p = None -> exists_ f p = false.
Proof. unfold exists_, lstat. intros ->. reflexivity. Qed.

Section RenRem.
Variable c : cfgT.
Notation E := (c_exports c).
Notation L := (c_layers c).
Hypothesis E_ne : E <> [].
Hypothesis L_ne : L <> [].
Hypothesis E_nr : beq E root = false.
Hypothesis L_nr : beq L root = false.
Hypothesis EL : at_or_under E L = false.
Hypothesis LE : at_or_under L E = false.
Hypothesis HP_layer : forall n, legal_name n = true -> n <> [] -> under L (layer_path c n) = true.
Hypothesis HP_conf : forall n, legal_name n = true ->
  under L (pathjoin [layer_path c n; D_LayerconfigFile]) = true.
Hypothesis HP_links : forall n, legal_name n = true -> n <> [] ->
  under E (C16.pkg_link c n) = true /\ under E (C16.gen_link c n) = true.
Variable e : env.
Hypothesis He : plain e.

Definition absent2 (n : bytes) (f : fsT) : Prop :=
  fs_get f (C16.pkg_link c n) = None /\ fs_get f (C16.gen_link c n) = None.

Lemma AO_absent n f f' : legal_name n = true -> n <> [] -> AO c f f' -> absent2 n f -> absent2 n f'.
Proof.
  intros Hl Hne Ha [H1 H2]. destruct (HP_links n Hl Hne) as [U1 U2]. split.
  - rewrite Ha; [exact H1|]. apply (export_outside c E_ne L_ne E_nr L_nr EL LE), U1.
  - rewrite Ha; [exact H2|]. apply (export_outside c E_ne L_ne E_nr L_nr EL LE), U2.
Qed.

(* one element of remove_export_links *)
Definition rel_elem (lt : bytes * bytes) : M unit :=
  f <- get_fs ;;
  if negb (exists_ f (fst lt)) then ret tt
  else if negb (is_symlink f (fst lt)) then fail
  else fs_remove e (fst lt).

Lemma rel_elem_post lt : hoareR (fun _ => True) (rel_elem lt) (fun _ s => fs_get (fsof s) (fst lt) = None).
Proof.
  intros s a s' _ Hr. unfold rel_elem, bind, get_fs in Hr. fold (fsof s) in Hr.
  destruct (exists_ (fsof s) (fst lt)) eqn:Hex; cbn [negb] in Hr.
  - destruct (is_symlink (fsof s) (fst lt)); cbn [negb] in Hr; [|discriminate Hr].
    pose proof (do_op_ret e _ s a s' He Hr) as Hf. cbn [fs_effect] in Hf.
    rewrite (remove_all_get _ _ _ (fst lt) Hf), at_or_under_refl. reflexivity.
  - unfold ret in Hr. injection Hr as _ <-. apply exists_false, Hex.
Qed.

Lemma rel_elem_NC lt : steps NC (rel_elem lt).
Proof.
  intros s. unfold rel_elem. apply st_get_fs.
  destruct (negb (exists_ (fsof s) (fst lt))); [apply (steps_ret _ NC_refl)|].
  destruct (negb (is_symlink (fsof s) (fst lt))); [apply (steps_fail _ NC_refl)|].
  apply st_do_op; [apply NC_refl|exact He|]. cbn [fs_effect]. intros f' Hf q Hq.
  rewrite (remove_all_get _ _ _ q Hf), Hq. destruct (at_or_under (fst lt) q); reflexivity.
Qed.

Lemma rel_post l :
  hoareR (fun _ => True) (remove_export_links e c l)
         (fun _ s => forall lt, In lt (automated_exports c l) -> fs_get (fsof s) (fst lt) = None).
Proof.
  unfold remove_export_links. change (hoareR (fun _ => True) (mapM_ rel_elem (automated_exports c l))
    (fun _ s => forall lt, In lt (automated_exports c l) -> fs_get (fsof s) (fst lt) = None)).
  apply (hoare_mapM_each (fun lt s => fs_get (fsof s) (fst lt) = None)).
  - intros lt _. apply rel_elem_post.
  - intros x y _ _. apply (hoare_steps NC (rel_elem y) (fun f => fs_get f (fst x) = None)).
    + apply rel_elem_NC.
    + intros f f' H. apply H.
Qed.

Lemma rel_post_absent l :
  hoareR (fun _ => True) (remove_export_links e c l) (fun _ s => absent2 (l_name l) (fsof s)).
Proof.
  eapply hoare_conseq; [apply (rel_post l)|auto|]. cbv beta. intros _ s H. split.
  - apply (H (C16.pkg_link c (l_name l), pathjoin [l_path l; c_binpkg c])). now left.
  - apply (H (C16.gen_link c (l_name l), pathjoin [l_path l; c_gen c])). right. now left.
Qed.

Lemma hoare_AO_absent {A} n (m : M A) : legal_name n = true -> n <> [] -> steps (AO c) m ->
  hoareR (fun s => absent2 n (fsof s)) m (fun _ s => absent2 n (fsof s)).
Proof.
  intros Hl Hne Hm. apply (hoare_steps (AO c) m (absent2 n)); [exact Hm|].
  intros f f'. apply AO_absent; assumption.
Qed.

Notation stepsA := (steps (AO c)).

Lemma remove_layer_post ld n files : ld_ok c ld ->
  hoareR (fun _ => True) (remove_layer e c ld n files) (fun _ s => absent2 n (fsof s)).
Proof.
  intros Hld. unfold remove_layer. apply hoare_guard_bind. intros Hg.
  destruct (test_name_need _ _ Hg) as [Hne Hleg].
  destruct (lm_get (ld_map ld) n) as [l|] eqn:El; [|apply hoare_panic].
  destruct (lm_get_in _ _ _ El) as [Hin Hnm]. destruct (Hld l Hin) as (_ & Hpath & _).
  assert (HuL : under L (l_path l) = true) by (rewrite Hpath, Hnm; apply HP_layer; assumption).
  eapply hoare_bind; [apply hoare_pres, pres_guard|intros u; cbv beta].
  eapply hoare_bind; [apply hoare_pres, pres_guard|intros u0; cbv beta].
  eapply hoare_bind; [apply hoare_pres, pres_guard|intros u1; cbv beta].
  eapply hoare_bind; [apply rel_post_absent|intros u2; cbv beta]. rewrite Hnm.
  apply hoare_AO_absent; [assumption|assumption|].
  apply steps_get_fs. intros f.
  apply (steps_bind _ (AO_trans c)); [|intros _; apply steps_renormalize, AO_refl].
  destruct (files || pristine_tree c f l).
  - apply stepsA_remove; assumption.
  - cbv zeta. destruct (exists_ f (l_path l ++ D_RemovedLayerSuffix)); [apply steps_fail, AO_refl|].
    apply stepsA_rename; try assumption. apply under_app; assumption.
Qed.

Lemma rename_layer_post ld n newname : ld_ok c ld ->
  hoareR (fun _ => True) (rename_layer e c ld n newname) (fun _ s => absent2 n (fsof s)).
Proof.
  intros Hld. unfold rename_layer. apply hoare_guard_bind. intros Hg.
  apply andb_true_iff in Hg as [Hg1 Hg2].
  destruct (test_name_need _ _ Hg1) as [Hne Hleg]. destruct (test_name_free _ _ Hg2) as [Hne2 Hleg2].
  destruct (lm_get (ld_map ld) n) as [l|] eqn:El; [|apply hoare_panic].
  destruct (lm_get_in _ _ _ El) as [Hin Hnm]. destruct (Hld l Hin) as (_ & Hpath & Hexp).
  assert (HuL : under L (l_path l) = true) by (rewrite Hpath, Hnm; apply HP_layer; assumption).
  eapply hoare_bind; [apply hoare_pres, pres_guard|intros u; cbv beta].
  eapply hoare_bind; [apply hoare_pres, pres_guard|intros u0; cbv beta]. cbv zeta.
  eapply hoare_bind; [apply hoare_pres, pres_guard|intros u1; cbv beta].
  eapply hoare_bind; [apply rel_post_absent|intros u2; cbv beta]. rewrite Hnm.
  apply hoare_AO_absent; [assumption|assumption|].
  apply (steps_bind _ (AO_trans c)); [|intros _].
  { apply stepsA_rename; try assumption. apply HP_layer; assumption. }
  apply (steps_bind _ (AO_trans c)); [|intros _].
  { apply (steps_mapM_ _ (AO_refl c) (AO_trans c)). intros k Hk.
    apply stepsA_write_layerfile; try assumption. apply layer_ok_set_base, Hld.
    eapply children_in_order_in, Hk. }
  apply (steps_bind _ (AO_trans c)); [apply steps_renormalize, AO_refl|intros ld'].
  apply (steps_bind _ (AO_trans c)); [|intros _; apply steps_ret, AO_refl].
  apply stepsA_write_layerfile; try assumption. unfold layer_ok.
  cbn [set_name_path l_name l_path l_exports]. auto.
Qed.

Lemma hoare_get_layers_bind {B} P um (k : ldefs -> M B) Q :
  (forall ld, ld_ok c ld -> hoareR P (k ld) Q) -> hoareR P (bind (get_layers c um) k) Q.
Proof.
  intros H s b s2 HP Hr. destruct (bind_ret_inv _ _ _ _ _ Hr) as (ld & s1 & H1 & H2).
  destruct (get_layers_ok c um s ld s1 H1) as [-> Hld]. exact (H ld Hld s b s2 HP H2).
Qed.

(* is the command a rename / remove of n *)
Definition rr_of (cmd : command) : option bytes :=
  match cmd with CRename n _ => Some n | CRemove n _ => Some n | _ => None end.

Lemma run_rr_absent um cmd n : rr_of cmd = Some n ->
  hoareR (fun _ => True) (run_command e c um cmd) (fun _ s => absent2 n (fsof s)).
Proof.
  intros Hrr. destruct cmd; try discriminate Hrr; cbn [rr_of] in Hrr; injection Hrr as ->; cbn [run_command].
  - apply hoare_get_fs_bind. intros f.
    eapply hoare_bind; [apply hoare_pres, pres_guard|intros u; cbv beta].
    apply hoare_get_layers_bind. intros ld Hld.
    eapply hoare_bind; [|intros ld'; apply hoare_ret].
    eapply hoare_conseq; [apply (remove_layer_post ld n files Hld)|cbv beta; auto|cbv beta; auto].
  - apply hoare_get_fs_bind. intros f.
    eapply hoare_bind; [apply hoare_pres, pres_guard|intros u; cbv beta].
    apply hoare_get_layers_bind. intros ld Hld.
    eapply hoare_bind; [|intros ld'; apply hoare_ret].
    eapply hoare_conseq; [apply (rename_layer_post ld n b0 Hld)|cbv beta; auto|cbv beta; auto].
Qed.

(* every other export entry is unchanged *)
Lemma prot_b_E n p nd : prot_b c n p nd -> under E p = true.
Proof. intros [H _]. exact H. Qed.

Lemma prot_b_links n l : l_name l = n ->
  forall lt, In lt (automated_exports c l) -> forall t, ~ prot_b c n (fst lt) (Link t).
Proof.
  intros <- lt Hlt t (_ & H1 & H2). unfold automated_exports in Hlt.
  destruct Hlt as [<-|[<-|[]]]; cbn [fst] in *; [apply H1|apply H2]; reflexivity.
Qed.

Lemma run_rr_rel um cmd n : rr_of cmd = Some n -> steps (Rel (prot_b c n)) (run_command e c um cmd).
Proof.
  intros Hrr.
  assert (Rr : forall f, Rel (prot_b c n) f f) by apply Rel_refl.
  assert (Rt : forall f1 f2 f3, Rel (prot_b c n) f1 f2 -> Rel (prot_b c n) f2 f3 -> Rel (prot_b c n) f1 f3)
    by apply Rel_trans.
  destruct cmd; try discriminate Hrr; cbn [rr_of] in Hrr; injection Hrr as ->; cbn [run_command].
  - apply steps_get_fs; intros f.
    apply (steps_bind _ Rt); [apply (steps_guard _ Rr)|intros _].
    apply (steps_get_layers_bind c _ Rr); intros ld Hld.
    apply (steps_bind _ Rt); [|intros ld'; apply (steps_ret _ Rr)].
    apply stepsR_remove_layer; try assumption; try apply prot_b_E. intros l Hl. apply prot_b_links, Hl.
  - apply steps_get_fs; intros f.
    apply (steps_bind _ Rt); [apply (steps_guard _ Rr)|intros _].
    apply (steps_get_layers_bind c _ Rr); intros ld Hld.
    apply (steps_bind _ Rt); [|intros ld'; apply (steps_ret _ Rr)].
    apply stepsR_rename_layer; try assumption; try apply prot_b_E. intros l Hl. apply prot_b_links, Hl.
Qed.

End RenRem.

(* ------------------------------------------------------------------ the decidable form *)
Definition rr_spec (c : cfgT) (n : bytes) (f f' : fsT) : bool :=
  negb (exists_ f' (C16.pkg_link c n)) && negb (exists_ f' (C16.gen_link c n))
  && forallb (fun en => if C16.in_export_tree c (fst en) && negb (beq (fst en) (C16.pkg_link c n))
                           && negb (beq (fst en) (C16.gen_link c n))
                        then opt_beq node_beq (fs_get f' (fst en)) (Some (snd en)) else true) f.

Lemma Rel_rr_spec c n f f' :
  LC.nodup_paths (map fst f) = true -> tree_ok c f = true -> Rel (prot_b c n) f f' ->
  fs_get f' (C16.pkg_link c n) = None -> fs_get f' (C16.gen_link c n) = None ->
  rr_spec c n f f' = true.
Proof.
  intros Hnd Htree HR A1 A2. unfold rr_spec.
  rewrite (exists_false_iff _ _ A1), (exists_false_iff _ _ A2). cbn [negb andb].
  apply forallb_forall. intros [p nd] Hin. cbn [fst snd]. unfold C16.in_export_tree.
  destruct (under (c_exports c) p) eqn:Hu; [|reflexivity]. cbn [andb].
  destruct (beq p (C16.pkg_link c n)) eqn:E1; [reflexivity|].
  destruct (beq p (C16.gen_link c n)) eqn:E2; [reflexivity|]. cbn [negb andb].
  assert (Hg : fs_get f p = Some nd) by (apply nodup_get; assumption).
  assert (Hd : dirchain f p).
  { unfold tree_ok in Htree. rewrite forallb_forall in Htree. specialize (Htree (p, nd) Hin).
    cbn [fst] in Htree. rewrite Hu in Htree. apply dirchainb_spec, Htree. }
  apply beq_false in E1, E2.
  destruct (HR p nd) as [H _]; auto. { split; [exact Hu|split; assumption]. }
  rewrite H. cbn [opt_beq]. apply node_beq_refl.
Qed.
