(* C17: the hypotheses of the property theorems are satisfiable by non-trivial inputs. *)
From LC Require Import Lib.Bytes Lib.Lex Lib.Fields Lib.PathM Gen.Consts Model.StageLine Model.StageDoc
  Model.StageWild Model.StageWildDoc Model.Recipe Model.RecipeDoc Model.Compress Proofs.StageWildP Proofs.C17RecipeP
  Proofs.C17ListP Cases.C17.
Import C17.
Open Scope string_scope.
Open Scope N_scope.

Definition lits (s : string) : list ftok := map FLit (bs s).

(*  file '/usr/lib/script (dev).tmpl' "src=~user/my make conf" uid=0:0 mod=u+x,o-r  *)
Definition ex_line : sline :=
  MkSL [MkF [] QBare (lits "file");
        MkF (bs " ") QSingle (lits "/usr/lib/script (dev).tmpl");
        MkF (bs "  ") QDouble (lits "src=~user/my make conf");
        MkF (bs " ") QBare (lits "uid=0:0");
        MkF [c_tab] QBare (lits "mod=u+x,o-r")] (bs " ").
Example ex_line_ok : sline_ok ex_line = true /\ kf_line ex_line = 0
  /\ d_status (doc_line ex_line) = MustAccept.
Proof. vm_compute. repeat split; reflexivity. Qed.

(*  file /home/user/some\*name   and   dir "/etc/port age/*" absent=skip  *)
Definition ex_line2 : sline :=
  MkSL [MkF [] QBare (lits "dir");
        MkF (bs " ") QDouble (lits "/etc/port age/" ++ [FEsc; FStar]);
        MkF (bs " ") QBare (lits "absent=skip")] [].
Example ex_line2_ok : sline_ok ex_line2 = true /\ kf_line ex_line2 = 0
  /\ d_status (doc_line ex_line2) = MustAccept /\ d_wild (doc_line ex_line2) = true.
Proof. vm_compute. repeat split; reflexivity. Qed.

Example ex_mode : parse_mod (bs "u+x,o-r") = Some (4091, 64) /\ simple_mode (bs "g+s,u-s") = true.
Proof. vm_compute. split; reflexivity. Qed.

Example ex_uid : dec_of (bs "2147483647") = Some 2147483647 /\ parse_dev (bs "b8:300") = Some (98, 8, 300).
Proof. vm_compute. split; reflexivity. Qed.

(* a build root and a wildcard *)
Definition ex_tree : tree :=
  [MkT (bs "/etc") 1 []; MkT (bs "/etc/aa") 2 []; MkT (bs "/etc/ab") 2 []; MkT (bs "/etc/b") 2 [];
   MkT (bs "/etc/x*y") 2 []; MkT (bs "/etc/d") 1 []; MkT (bs "/etc/d/f") 2 []; MkT (bs "/etc/l") 3 (bs "aa")].
Definition ex_entry : entry := set_ltype (set_name entry0 (bs "/etc/a*") true) V_FileType_file.
Example ex_wild : tree_ok ex_tree = true /\ e_wild ex_entry = true /\ e_source ex_entry = []
  /\ glob ex_tree (e_name ex_entry) = GOk [bs "/etc/aa"; bs "/etc/ab"].
Proof. vm_compute. repeat split; reflexivity. Qed.

(* round 6: a wildcard source below the build root; nested entries keep their relative paths, and a
   script with such a line has a documented result *)
Definition ex_src_tree : tree :=
  [MkT (bs "/srv") 1 []; MkT (bs "/srv/ov") 1 []; MkT (bs "/srv/ov/aa") 2 []; MkT (bs "/srv/ov/conf.d") 1 [];
   MkT (bs "/srv/ov/conf.d/aa") 2 []; MkT (bs "/srv/ov/conf.d/local") 1 []; MkT (bs "/srv/ov/conf.d/local/start.sh") 2 []].
Definition ex_src_entry : entry :=
  set_ltype (set_source (set_name entry0 (bs "/opt/site") false) (bs "$$stageroot/srv/ov/*") true) V_FileType_dir.
Example ex_wild_src : tree_ok ex_src_tree = true /\ stageroot_tail (e_source ex_src_entry) = Some (bs "/srv/ov/*")
  /\ glob ex_src_tree (bs "/srv/ov/*") = GOk [bs "/srv/ov/aa"; bs "/srv/ov/conf.d"]
  /\ add_src_wild ex_src_tree [] ex_src_entry
     = AOk [MkL (bs "/opt/site/conf.d/local/start.sh") 2 []; MkL (bs "/opt/site/conf.d/local") 1 [];
            MkL (bs "/opt/site/conf.d/aa") 2 []; MkL (bs "/opt/site/conf.d") 1 []; MkL (bs "/opt/site/aa") 2 []].
Proof. vm_compute. repeat split; reflexivity. Qed.
Definition ex_src_items : list sitem :=
  [SLine (MkSL [MkF [] QBare (lits "dir"); MkF (bs " ") QBare (lits "/opt/site");
                MkF (bs " ") QBare (lits "src=$$stageroot/srv/ov/" ++ [FStar])] [])].
Example ex_list_src : forallb item_ok ex_src_items = true /\ no_kf ex_src_items = true
  /\ snd (run_list ex_src_tree [] [] (map item_render ex_src_items)) = false
  /\ doc_run ex_src_tree [] ex_src_items
     = DOk [bs "/opt/site/conf.d/local/start.sh"; bs "/opt/site/conf.d/local"; bs "/opt/site/conf.d/aa";
            bs "/opt/site/conf.d"; bs "/opt/site/aa"].
Proof. vm_compute. repeat split; reflexivity. Qed.

(* a script: add everything below /etc/d*, drop what starts with a, add the file named x*y *)
Definition ex_items : list sitem :=
  [SLine (MkSL [MkF [] QBare (lits "dir"); MkF (bs " ") QBare (lits "/etc/d" ++ [FStar])] []);
   SComment (bs "  # comment");
   SLine (MkSL [MkF [c_tab] QBare (lits "omit"); MkF (bs " ") QSingle (lits "/etc/a" ++ [FStar])] (bs " "));
   SLine (MkSL [MkF [] QBare (lits "file"); MkF (bs " ") QBare (lits "/etc/x" ++ [FEsc] ++ lits "y")] [])].
Example ex_list : forallb item_ok ex_items = true /\ no_kf ex_items = true
  /\ snd (run_list ex_tree [] [bs "/etc/aa"; bs "/etc/b"] (map item_render ex_items)) = false
  /\ doc_run ex_tree [bs "/etc/aa"; bs "/etc/b"] ex_items
     = DOk [bs "/etc/x*y"; bs "/etc/d/f"; bs "/etc/d"; bs "/etc/b"].
Proof. vm_compute. repeat split; reflexivity. Qed.

(* a recipe *)
Definition ex_recipe : list ritem :=
  [RLine (MkQ (bs "  ") (bs "root") (bs " ") (bs "/r") []); RComment (bs "// c");
   RLine (MkQ [] (bs "atoms") [c_tab] (bs "app-misc/eix  x/y") (bs " ")); RLine (MkQ [] (bs "nobdeps") [] [] [])].
Example ex_recipe_ok : forallb ritem_ok ex_recipe = true
  /\ doc_recipe (MkEnv (bs "/cwd") [bs "/r"] [(bs "/r/etc/portage/make.profile", [bs "sys-apps/foo"])] [])
                (MkRC [] [] [] []) ex_recipe = DROk [bs "sys-apps/foo"; bs "app-misc/eix"; bs "x/y"].
Proof. vm_compute. split; reflexivity. Qed.

(* a recipe whose arguments hold white space inside: two blanks, a tab, \v, NBSP (C2 A0), EM SPACE
   (E2 80 83) -- all of it belongs to the value; the sibling "/srv/build root" is another directory *)
Definition ex_ws_val : bytes :=
  (bs "/srv/build  root" ++ [c_tab; nb 11] ++ bs "x" ++ [nb 194; nb 160] ++ bs "y" ++ [nb 226; nb 128; nb 131] ++ bs "z")%list.
Definition ex_recipe_ws : list ritem :=
  [RLine (MkQ (bs " ") (bs "root") (bs "  ") ex_ws_val [c_tab; c_sp])].
Example ex_recipe_ws_ok : forallb ritem_ok ex_recipe_ws = true
  /\ parse_recipe_line (ritem_render (hd (RComment []) ex_recipe_ws)) = (bs "root", ex_ws_val)
  /\ doc_recipe (MkEnv (bs "/cwd") [ex_ws_val; bs "/srv/build root x y z"]
                       [((ex_ws_val ++ bs "/etc/portage/make.profile")%list, [bs "sys-apps/right"]);
                        (bs "/srv/build root x y z/etc/portage/make.profile", [bs "sys-apps/wrong"])] [])
                (MkRC [] [] [] []) ex_recipe_ws = DROk [bs "sys-apps/right"]
  /\ rline_ok (MkQ [] (bs "root") (bs " ") (bs "/x" ++ [nb 194; nb 160])%list []) = false.
Proof. vm_compute. repeat split; reflexivity. Qed.

Example ex_raw_bad : raw_bad (bs "  profile  ") = true /\ raw_bad (bs "bogus 1") = true.
Proof. vm_compute. split; reflexivity. Qed.

(* a case of the correspondence check *)
Definition ex_case : case :=
  MkCase (ILine (Some ex_line) (render_line ex_line)) (OLine (parse_line (render_line ex_line)) true).
Example ex_case_ok : wf ex_case = true /\ kf ex_case = 0 /\ verdict ex_case = 7.
Proof. vm_compute. repeat split; reflexivity. Qed.
