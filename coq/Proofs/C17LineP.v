From LC Require Import Lib.Bytes Lib.Fields Gen.Consts Model.StageLine Model.StageDoc Proofs.StageFieldsP Proofs.StageModeP.
From Coq Require Import ZifyBool ZifyNat ZifyN.
Open Scope N_scope.
Open Scope list_scope.
(* C17: the model of parseLine (Model/StageLine.v) against the documented add-files grammar
   (Model/StageDoc.v), one structured line at a time. *)

(* ------------------------------------------------------------------ an error flag stays set *)
Lemma opt_step_bad ty e f : snd (opt_step ty (e, true) f) = true.
Proof.
  unfold opt_step. destruct (split2 c_eq f) as [k [v|]]; [|destruct k; reflexivity].
  destruct k as [|c k]; [reflexivity|].
  destruct (proc_option e ty (c :: k) v); reflexivity.
Qed.

Lemma fold_bad ty : forall l e, snd (fold_left (opt_step ty) l (e, true)) = true.
Proof.
  induction l as [|f l IH]; intros e; cbn [fold_left]; [reflexivity|].
  destruct (opt_step ty (e, true) f) as [e' b] eqn:E.
  pose proof (opt_step_bad ty e f) as H. rewrite E in H. cbn [snd] in H. subst b. apply IH.
Qed.

(* ------------------------------------------------------------------ type keywords *)
Lemma memb_types ty : memb ty doc_types = true ->
  ty = t_file \/ ty = t_dir \/ ty = t_node \/ ty = t_symlink \/ ty = t_tbd \/ ty = t_omit.
Proof.
  unfold memb, doc_types. cbn [existsb]. rewrite !orb_true_iff, !beq_true.
  intuition discriminate.
Qed.

Lemma memb_keys k : memb k doc_keys = true ->
  k = k_mod \/ k = k_gid \/ k = k_uid \/ k = k_src \/ k = k_dev \/ k = k_targ \/ k = k_absent.
Proof.
  unfold memb, doc_keys. cbn [existsb]. rewrite !orb_true_iff, !beq_true.
  intuition discriminate.
Qed.

Lemma type_of_some ty t a : type_of ty = Some (t, a) ->
  memb ty doc_types = true /\ t = doc_type_code ty /\ a = negb (beq ty t_omit).
Proof.
  unfold type_of.
  destruct (beq ty t_file) eqn:E1; [apply beq_true in E1; subst ty; intros H; injection H as <- <-; repeat split; reflexivity|].
  destruct (beq ty t_dir) eqn:E2; [apply beq_true in E2; subst ty; intros H; injection H as <- <-; repeat split; reflexivity|].
  destruct (beq ty t_node) eqn:E3; [apply beq_true in E3; subst ty; intros H; injection H as <- <-; repeat split; reflexivity|].
  destruct (beq ty t_symlink) eqn:E4; [apply beq_true in E4; subst ty; intros H; injection H as <- <-; repeat split; reflexivity|].
  destruct (beq ty t_tbd) eqn:E5; [apply beq_true in E5; subst ty; intros H; injection H as <- <-; repeat split; reflexivity|].
  destruct (beq ty t_omit) eqn:E6; [apply beq_true in E6; subst ty; intros H; injection H as <- <-; repeat split; reflexivity|].
  discriminate.
Qed.

Lemma type_of_doc ty : memb ty doc_types = true ->
  type_of ty = Some (doc_type_code ty, negb (beq ty t_omit)).
Proof.
  intros H. apply memb_types in H.
  destruct H as [H|[H|[H|[H|[H|H]]]]]; subst ty; reflexivity.
Qed.

Lemma type_of_none ty : memb ty doc_types = false -> type_of ty = None.
Proof.
  intros H. destruct (type_of ty) as [[t a]|] eqn:E; [|reflexivity].
  apply type_of_some in E as [E _]. congruence.
Qed.

Lemma in_star_dec (s : bytes) : In c_star s <-> existsb (Ascii.eqb c_star) s = true.
Proof.
  rewrite existsb_exists. split.
  - intros H. exists c_star. split; [exact H|apply Ascii.eqb_refl].
  - intros (x & Hx & E). apply Ascii.eqb_eq in E. now subst x.
Qed.

Lemma types_nostar ty : memb ty doc_types = true -> ~ In c_star ty.
Proof.
  intros H Hin. apply in_star_dec in Hin. apply memb_types in H.
  destruct H as [H|[H|[H|[H|[H|H]]]]]; subst ty; vm_compute in Hin; discriminate Hin.
Qed.

Lemma keys_nostar k : memb k doc_keys = true -> ~ In c_star k.
Proof.
  intros H Hin. apply in_star_dec in Hin. apply memb_keys in H.
  destruct H as [H|[H|[H|[H|[H|[H|H]]]]]]; subst k; vm_compute in Hin; discriminate Hin.
Qed.

(* ------------------------------------------------------------------ plain fields *)
Lemma plain_fvalue : forall ts b, plain_of ts = Some b -> fvalue ts = b.
Proof.
  induction ts as [|t ts IH]; intros b H; cbn [plain_of] in H.
  - now injection H as <-.
  - destruct t as [c| |]; try discriminate H.
    destruct (plain_of ts) as [b'|]; [|discriminate H]. injection H as <-.
    rewrite fvalue_cons. cbn [tok_value app]. f_equal. now apply IH.
Qed.

Lemma plain_none_star : forall ts, plain_of ts = None -> In c_star (fvalue ts).
Proof.
  induction ts as [|t ts IH]; intros H; cbn [plain_of] in H; [discriminate H|].
  rewrite fvalue_cons. apply in_or_app.
  destruct t as [c| |].
  - right. destruct (plain_of ts); [discriminate H|]. now apply IH.
  - left. cbn [tok_value In]. auto.
  - left. cbn [tok_value In]. auto.
Qed.

Lemma type_star_rejected ts : plain_of ts = None -> type_of (fvalue ts) = None.
Proof.
  intros H. apply type_of_none. destruct (memb (fvalue ts) doc_types) eqn:E; [|reflexivity].
  exfalso. exact (types_nostar _ E (plain_none_star ts H)).
Qed.

(* ------------------------------------------------------------------ parseSource on a field value *)
Lemma bts_tail t r : bsl_then_star (t :: r) = false -> bsl_then_star r = false.
Proof.
  destruct t as [c| |]; cbn [bsl_then_star]; try tauto.
  destruct r as [|[c'| |] r']; try tauto.
  rewrite orb_false_iff. tauto.
Qed.

Lemma bts_head c r : bsl_then_star (FLit c :: FStar :: r) = false -> Ascii.eqb c c_bsl = false.
Proof. cbn [bsl_then_star]. rewrite orb_false_iff. tauto. Qed.

Lemma ps_spec : forall ts wild prevbs,
  forallb StageDoc.tok_ok ts = true -> bsl_then_star ts = false ->
  (prevbs = true -> match ts with FStar :: _ => False | _ => True end) ->
  ps_loop (fvalue ts) wild prevbs
  = if star_before_slash ts wild then None else Some (wild || has_star ts).
Proof.
  induction ts as [|t ts IH]; intros wild prevbs Hok Hb Hp.
  - cbn. now rewrite orb_false_r.
  - cbn [forallb] in Hok. apply andb_true_iff in Hok as [Ht Hok].
    pose proof (bts_tail _ _ Hb) as Hb'.
    rewrite fvalue_cons. destruct t as [c| |].
    + apply tok_ok_lit in Ht as [_ Hst].
      cbn [tok_value app ps_loop star_before_slash]. unfold has_star. cbn [existsb orb]. fold (has_star ts).
      destruct (Ascii.eqb c c_slash) eqn:Esl.
      * destruct wild; [reflexivity|]. cbn [orb]. apply IH; auto. discriminate.
      * destruct (Ascii.eqb c c_bsl) eqn:Eb.
        -- apply IH; auto. intros _. destruct ts as [|[c'| |] ts']; auto.
           apply bts_head in Hb. congruence.
        -- rewrite Hst. cbn [andb]. apply IH; auto. discriminate.
    + cbn [tok_value app ps_loop star_before_slash]. unfold has_star. cbn [existsb orb]. fold (has_star ts).
      change (Ascii.eqb c_bsl c_slash) with false. change (Ascii.eqb c_bsl c_bsl) with true.
      change (Ascii.eqb c_star c_slash) with false. change (Ascii.eqb c_star c_bsl) with false.
      cbv iota. cbn [negb andb]. apply IH; auto. discriminate.
    + destruct prevbs; [exfalso; now apply Hp|].
      cbn [tok_value app ps_loop star_before_slash]. unfold has_star. cbn [existsb orb]. fold (has_star ts).
      change (Ascii.eqb c_star c_slash) with false. change (Ascii.eqb c_star c_bsl) with false.
      change (Ascii.eqb c_star c_star) with true. cbv iota. cbn [negb andb].
      rewrite IH; auto; [|discriminate]. now rewrite orb_true_r.
Qed.

Lemma nostar_sbs : forall ts, has_star ts = false -> star_before_slash ts false = false.
Proof.
  induction ts as [|t ts IH]; intros H; [reflexivity|].
  unfold has_star in H. cbn [existsb] in H. fold (has_star ts) in H.
  destruct t as [c| |]; cbn [star_before_slash]; try discriminate H.
  - cbn [orb] in H. rewrite (IH H). now destruct (Ascii.eqb c c_slash).
  - cbn [orb] in H. now apply IH.
Qed.

Lemma nostar_bts : forall ts, has_star ts = false -> bsl_then_star ts = false.
Proof.
  induction ts as [|t ts IH]; intros H; [reflexivity|].
  unfold has_star in H. cbn [existsb] in H. fold (has_star ts) in H.
  destruct t as [c| |]; try discriminate H; cbn [orb] in H; cbn [bsl_then_star].
  - destruct ts as [|[c'| |] ts']; auto. discriminate H.
  - auto.
Qed.

Lemma fvalue_nonempty ts : ts <> [] -> fvalue ts <> [].
Proof.
  destruct ts as [|t ts]; [congruence|]. intros _ H. rewrite fvalue_cons in H.
  apply app_eq_nil in H as [H _]. exact (tok_value_nonempty t H).
Qed.

(* a value without wildcard is a good source / target *)
Lemma parse_source_nostar ts : ts <> [] -> forallb StageDoc.tok_ok ts = true -> has_star ts = false ->
  parse_source (fvalue ts) = Some false.
Proof.
  intros Hne Hok Hs. unfold parse_source.
  destruct (fvalue ts) as [|c r] eqn:E; [exfalso; exact (fvalue_nonempty ts Hne E)|].
  rewrite <- E. rewrite ps_spec; auto.
  - rewrite (nostar_sbs ts Hs), Hs. reflexivity.
  - now apply nostar_bts.
  - discriminate.
Qed.

(* ------------------------------------------------------------------ the name field *)
Lemma name_spec ts e : forallb StageDoc.tok_ok ts = true -> bsl_then_star ts = false ->
  match doc_name ts with
  | MustAccept => name_step e (fvalue ts) = (set_name e (fvalue ts) (has_star ts), false)
  | Either => False
  | _ => snd (name_step e (fvalue ts)) = true
  end.
Proof.
  intros Hok Hb. unfold doc_name.
  destruct ts as [|[c| |] r].
  - reflexivity.
  - destruct (Ascii.eqb c c_slash) eqn:Esl.
    + apply Ascii.eqb_eq in Esl. subst c.
      destruct r as [|t r']; [reflexivity|].
      assert (Hlen : (length (fvalue (FLit c_slash :: t :: r')) <? 2)%nat = false).
      { rewrite !fvalue_cons, !app_length. cbn [tok_value length].
        destruct t; cbn [tok_value length]; lia. }
      assert (Hps : parse_source (fvalue (FLit c_slash :: t :: r'))
                    = if star_before_slash (FLit c_slash :: t :: r') false then None
                      else Some (has_star (FLit c_slash :: t :: r'))).
      { unfold parse_source. rewrite fvalue_cons. cbn [tok_value app].
        change (c_slash :: fvalue (t :: r')) with (fvalue (FLit c_slash :: t :: r')).
        rewrite ps_spec by (auto; discriminate). reflexivity. }
      unfold name_step. rewrite Hlen.
      rewrite fvalue_cons in *. cbn [tok_value app] in *. rewrite Ascii.eqb_refl.
      rewrite Hps.
      destruct (star_before_slash (FLit c_slash :: t :: r') false); reflexivity.
    + unfold name_step. rewrite fvalue_cons. cbn [tok_value app]. rewrite Esl.
      destruct (length (c :: fvalue r) <? 2)%nat; reflexivity.
  - unfold name_step. rewrite fvalue_cons. cbn [tok_value app].
    change (Ascii.eqb c_bsl c_slash) with false.
    destruct (length (c_bsl :: c_star :: fvalue r) <? 2)%nat; reflexivity.
  - unfold name_step. rewrite fvalue_cons. cbn [tok_value app].
    change (Ascii.eqb c_star c_slash) with false.
    destruct (length (c_star :: fvalue r) <? 2)%nat; reflexivity.
Qed.

(* ------------------------------------------------------------------ key=value *)
Lemma split2_acc_keeps sep x : forall s cur k v,
  split2_acc sep cur s = (k, Some v) -> In x cur -> In x k.
Proof.
  induction s as [|c s IH]; intros cur k v H Hin; cbn [split2_acc] in H; [discriminate H|].
  destruct (Ascii.eqb c sep).
  - injection H as <- _. apply in_rev in Hin. exact Hin.
  - eapply IH; [exact H|]. now right.
Qed.

Lemma split_eq_some : forall ts acc key val, split_eq ts acc = Some (key, val) ->
  split2_acc c_eq acc (fvalue ts) = (key, Some (fvalue val)).
Proof.
  induction ts as [|t ts IH]; intros acc key val H; cbn [split_eq] in H; [discriminate H|].
  destruct t as [c| |]; try discriminate H.
  rewrite fvalue_cons. cbn [tok_value app split2_acc].
  destruct (Ascii.eqb c c_eq).
  - now injection H as <- <-.
  - now apply IH.
Qed.

Lemma split_eq_none : forall ts acc, split_eq ts acc = None ->
  forall k v, split2_acc c_eq acc (fvalue ts) = (k, Some v) -> In c_star k.
Proof.
  induction ts as [|t ts IH]; intros acc H k v H2.
  - cbn in H2. discriminate H2.
  - rewrite fvalue_cons in H2. destruct t as [c| |]; cbn [split_eq] in H; cbn [tok_value app split2_acc] in H2.
    + destruct (Ascii.eqb c c_eq); [discriminate H|]. eapply IH; eauto.
    + change (Ascii.eqb c_bsl c_eq) with false in H2. change (Ascii.eqb c_star c_eq) with false in H2.
      cbv iota in H2. eapply split2_acc_keeps; [exact H2|]. now left.
    + change (Ascii.eqb c_star c_eq) with false in H2.
      cbv iota in H2. eapply split2_acc_keeps; [exact H2|]. now left.
Qed.

Lemma split_eq_tok_ok : forall ts acc key val, split_eq ts acc = Some (key, val) ->
  forallb StageDoc.tok_ok ts = true -> forallb StageDoc.tok_ok val = true.
Proof.
  induction ts as [|t ts IH]; intros acc key val H Hok; cbn [split_eq] in H; [discriminate H|].
  cbn [forallb] in Hok. apply andb_true_iff in Hok as [_ Hok].
  destruct t as [c| |]; try discriminate H.
  destruct (Ascii.eqb c c_eq).
  - now injection H as _ <-.
  - eapply IH; eauto.
Qed.

(* ------------------------------------------------------------------ the option table *)
Lemma proc_option_key e ty key val e' : proc_option e ty key val = Some e' -> memb key doc_keys = true.
Proof.
  unfold proc_option, memb, doc_keys. cbn [existsb].
  destruct (beq key k_mod); [reflexivity|].
  destruct (beq key k_gid); [reflexivity|].
  destruct (beq key k_uid); [reflexivity|].
  destruct (beq key k_src); [reflexivity|].
  destruct (beq key k_dev); [reflexivity|].
  destruct (beq key k_targ); [reflexivity|].
  destruct (beq key k_absent); [reflexivity|]. discriminate.
Qed.

Lemma proc_option_star e ty key val : In c_star key -> proc_option e ty key val = None.
Proof.
  intros Hin. destruct (proc_option e ty key val) eqn:E; [|reflexivity].
  exfalso. apply proc_option_key in E. exact (keys_nostar _ E Hin).
Qed.

Lemma po_mod e ty v : proc_option e ty k_mod v = proc_mod e ty v.  Proof. reflexivity. Qed.
Lemma po_gid e ty v : proc_option e ty k_gid v = proc_giduid e ty true v.  Proof. reflexivity. Qed.
Lemma po_uid e ty v : proc_option e ty k_uid v = proc_giduid e ty false v.  Proof. reflexivity. Qed.
Lemma po_src e ty v : proc_option e ty k_src v = proc_src e ty v.  Proof. reflexivity. Qed.
Lemma po_dev e ty v : proc_option e ty k_dev v = proc_dev e ty v.  Proof. reflexivity. Qed.
Lemma po_targ e ty v : proc_option e ty k_targ v = proc_targ e ty v.  Proof. reflexivity. Qed.
Lemma po_absent e ty v : proc_option e ty k_absent v = proc_absent e ty v.  Proof. reflexivity. Qed.

(* the forbidden lists of the code are the complement of the manual's table *)
Lemma table_agrees e ty key val : memb ty doc_types = true -> memb key doc_keys = true ->
  doc_allowed ty key = false -> proc_option e ty key val = None.
Proof.
  intros Ht Hk. apply memb_types in Ht. apply memb_keys in Hk.
  destruct Ht as [H|[H|[H|[H|[H|H]]]]]; subst ty;
  destruct Hk as [H|[H|[H|[H|[H|[H|H]]]]]]; subst key; intros Ha;
  first [ discriminate Ha | reflexivity ].
Qed.

Lemma table_agrees_rev e ty key val e' : memb ty doc_types = true ->
  proc_option e ty key val = Some e' -> doc_allowed ty key = true.
Proof.
  intros Ht H. destruct (doc_allowed ty key) eqn:Ea; [reflexivity|].
  rewrite (table_agrees e ty key val Ht (proc_option_key _ _ _ _ _ H) Ea) in H. discriminate H.
Qed.

Lemma allowed_types ty key : doc_allowed ty key = true ->
  ty = t_file \/ ty = t_dir \/ ty = t_node \/ ty = t_symlink \/ ty = t_tbd.
Proof.
  unfold doc_allowed.
  destruct (beq ty t_file) eqn:E1; [apply beq_true in E1; auto|].
  destruct (beq ty t_dir) eqn:E2; [apply beq_true in E2; auto|].
  destruct (beq ty t_node) eqn:E3; [apply beq_true in E3; auto|].
  destruct (beq ty t_symlink) eqn:E4; [apply beq_true in E4; auto|].
  destruct (beq ty t_tbd) eqn:E5; [apply beq_true in E5; auto 6|]. discriminate.
Qed.

Lemma forb_mod ty : doc_allowed ty k_mod = true -> forbidden ty [t_symlink; t_omit; t_tbd] = false.
Proof. intros H. destruct (allowed_types _ _ H) as [E|[E|[E|[E|E]]]]; subst ty; first [reflexivity|discriminate H]. Qed.
Lemma forb_gid ty : doc_allowed ty k_gid = true -> forbidden ty [t_symlink; t_omit; t_tbd] = false.
Proof. intros H. destruct (allowed_types _ _ H) as [E|[E|[E|[E|E]]]]; subst ty; first [reflexivity|discriminate H]. Qed.
Lemma forb_uid ty : doc_allowed ty k_uid = true -> forbidden ty [t_symlink; t_omit; t_tbd] = false.
Proof. intros H. destruct (allowed_types _ _ H) as [E|[E|[E|[E|E]]]]; subst ty; first [reflexivity|discriminate H]. Qed.
Lemma forb_src ty : doc_allowed ty k_src = true -> forbidden ty [t_symlink; t_omit; t_tbd] = false.
Proof. intros H. destruct (allowed_types _ _ H) as [E|[E|[E|[E|E]]]]; subst ty; first [reflexivity|discriminate H]. Qed.
Lemma forb_dev ty : doc_allowed ty k_dev = true -> forbidden ty [t_file; t_dir; t_symlink; t_omit; t_tbd] = false.
Proof. intros H. destruct (allowed_types _ _ H) as [E|[E|[E|[E|E]]]]; subst ty; first [reflexivity|discriminate H]. Qed.
Lemma forb_targ ty : doc_allowed ty k_targ = true -> forbidden ty [t_file; t_dir; t_node; t_omit; t_tbd] = false.
Proof. intros H. destruct (allowed_types _ _ H) as [E|[E|[E|[E|E]]]]; subst ty; first [reflexivity|discriminate H]. Qed.
Lemma forb_absent ty : doc_allowed ty k_absent = true -> forbidden ty [t_omit] = false.
Proof. intros H. destruct (allowed_types _ _ H) as [E|[E|[E|[E|E]]]]; subst ty; first [reflexivity|discriminate H]. Qed.

(* ------------------------------------------------------------------ values with an asterisk *)
Lemma forallb_in_false {A} (p : A -> bool) x : forall l, In x l -> p x = false -> forallb p l = false.
Proof.
  induction l as [|y l IH]; intros Hin Hp; [destruct Hin|].
  cbn [forallb]. destruct Hin as [->|Hin]; [now rewrite Hp|].
  rewrite (IH Hin Hp). apply andb_false_r.
Qed.

Lemma mod_step_star st : mod_step st c_star = None.
Proof. destruct st as [a an o g s]. reflexivity. Qed.

Lemma mod_loop_star : forall s st, In c_star s -> mod_loop s st = None.
Proof.
  induction s as [|c s IH]; intros st Hin; [destruct Hin|].
  cbn [mod_loop]. destruct Hin as [->|Hin]; [now rewrite mod_step_star|].
  destruct (mod_step st c); [now apply IH|reflexivity].
Qed.

Lemma parse_mod_star s : In c_star s -> parse_mod s = None.
Proof.
  intros Hin. unfold parse_mod.
  rewrite (forallb_in_false is_oct c_star s Hin) by reflexivity.
  now rewrite mod_loop_star.
Qed.

Lemma parse_mod_ref s : chmod_ref s 0 = None -> parse_mod s = None.
Proof.
  intros H. destruct (parse_mod s) as [[a o]|] eqn:E; [|reflexivity].
  rewrite (mode_is_chmod s a o E 0) in H by lia. discriminate H.
Qed.

Lemma parse_uint_star max s : In c_star s -> parse_uint max s = None.
Proof.
  intros Hin. unfold parse_uint. destruct s as [|c r]; [reflexivity|].
  now rewrite (forallb_in_false is_dec c_star (c :: r) Hin) by reflexivity.
Qed.

Lemma parse_int_star s : In c_star s -> parse_int31_nonneg s = None.
Proof.
  intros Hin. unfold parse_int31_nonneg. destruct s as [|c r]; [reflexivity|].
  destruct (Ascii.eqb c c_plus) eqn:E1.
  - apply Ascii.eqb_eq in E1. subst c. destruct Hin as [H|Hin]; [discriminate H|].
    now apply parse_uint_star.
  - destruct (Ascii.eqb c c_minus) eqn:E2.
    + apply Ascii.eqb_eq in E2. subst c. destruct Hin as [H|Hin]; [discriminate H|].
      now rewrite parse_uint_star.
    + now apply parse_uint_star.
Qed.

Lemma split2_acc_in sep x : x <> sep -> forall s cur a ob,
  split2_acc sep cur s = (a, ob) -> In x (rev cur ++ s) ->
  In x a \/ exists b, ob = Some b /\ In x b.
Proof.
  intros Hx. induction s as [|c s IH]; intros cur a ob H Hin; cbn [split2_acc] in H.
  - injection H as <- <-. rewrite app_nil_r in Hin. now left.
  - destruct (Ascii.eqb c sep) eqn:E.
    + apply Ascii.eqb_eq in E. subst c. injection H as <- <-.
      apply in_app_or in Hin as [Hin|[Hin|Hin]]; [now left|congruence|].
      right. now exists s.
    + apply (IH (c :: cur) a ob H). cbn [rev]. rewrite <- app_assoc. exact Hin.
Qed.

Lemma parse_uid_star s : In c_star s -> parse_uid s = None.
Proof.
  intros Hin. unfold parse_uid. destruct (split2 c_colon s) as [a ob] eqn:E.
  unfold split2 in E.
  assert (Hne : c_star <> c_colon) by discriminate.
  destruct (split2_acc_in c_colon c_star Hne s [] a ob E Hin) as [Ha|(b & -> & Hb)].
  - rewrite (parse_int_star a Ha). now destruct ob.
  - rewrite (parse_int_star b Hb). now destruct (parse_int31_nonneg a).
Qed.

Lemma split_acc_in sep x : x <> sep -> forall s cur,
  In x (rev cur ++ s) -> exists p, In p (split_acc sep cur s) /\ In x p.
Proof.
  intros Hx. induction s as [|c s IH]; intros cur Hin; cbn [split_acc].
  - rewrite app_nil_r in Hin. exists (rev cur). split; [now left|exact Hin].
  - destruct (Ascii.eqb c sep) eqn:E.
    + apply Ascii.eqb_eq in E. subst c.
      apply in_app_or in Hin as [Hin|[Hin|Hin]]; [|congruence|].
      * exists (rev cur). split; [now left|exact Hin].
      * destruct (IH [] Hin) as (p & Hp & Hxp). exists p. split; [now right|exact Hxp].
    + apply (IH (c :: cur)). cbn [rev]. rewrite <- app_assoc. exact Hin.
Qed.

Lemma parse_dev_star s : In c_star s -> parse_dev s = None.
Proof.
  intros Hin. unfold parse_dev. destruct s as [|t r]; [reflexivity|].
  destruct (Ascii.eqb t (nb 99) || Ascii.eqb t (nb 98)) eqn:Et; [|reflexivity].
  assert (Hr : In c_star r).
  { destruct Hin as [->|Hin]; [discriminate Et|exact Hin]. }
  assert (Hne : c_star <> c_colon) by discriminate.
  destruct (split_acc_in c_colon c_star Hne r [] Hr) as (p & Hp & Hxp).
  fold (split c_colon r) in Hp.
  destruct (split c_colon r) as [|a [|b [|x y]]]; try reflexivity.
  destruct Hp as [<-|[<-|[]]].
  - now rewrite (parse_uint_star _ a Hxp).
  - rewrite (parse_uint_star _ b Hxp). now destruct (parse_uint 4294967295 a).
Qed.

Lemma skip_star s : In c_star s -> beq s (bs "skip") = false.
Proof.
  intros Hin. apply beq_false. intros ->. apply in_star_dec in Hin. vm_compute in Hin. discriminate Hin.
Qed.

(* ------------------------------------------------------------------ integer IDs *)
Lemma dec_of_digits s v : dec_of s = Some v -> forallb is_dec s = true /\ s <> [].
Proof.
  unfold dec_of. destruct s as [|c r]; [discriminate|].
  destruct (forallb is_dec (c :: r)); [split; [reflexivity|discriminate]|discriminate].
Qed.

Lemma parse_uint_none max s : (forall v, dec_of s = Some v -> max < v) -> parse_uint max s = None.
Proof.
  intros H. destruct (parse_uint max s) as [v|] eqn:E; [|reflexivity].
  apply parse_uint_spec in E as [E1 E2]. apply H in E1. lia.
Qed.

Lemma parse_uint_some max s v : dec_of s = Some v -> v <= max -> parse_uint max s = Some v.
Proof. intros H1 H2. apply parse_uint_spec. now split. Qed.

Lemma id_int a :
  match id_status a with
  | (MustAccept, v) => parse_int31_nonneg a = Some v
  | (Either, _) => parse_int31_nonneg a = None
  | (MustReject, _) => parse_int31_nonneg a = None
  | (Free, _) => True
  end.
Proof.
  unfold id_status. destruct (dec_of a) as [v|] eqn:Ed.
  - destruct (dec_of_digits a v Ed) as [Hd Hne].
    destruct a as [|c r]; [congruence|].
    assert (Hc : is_dec c = true) by (cbn [forallb] in Hd; now apply andb_true_iff in Hd as [Hd _]).
    destruct (is_dec_plain c Hc) as (_ & Hp & Hm).
    assert (Hi : parse_int31_nonneg (c :: r) = parse_uint 2147483647 (c :: r)).
    { unfold parse_int31_nonneg. now rewrite Hp, Hm. }
    rewrite Hi.
    destruct (v <=? 2147483647) eqn:E1.
    + apply parse_uint_some; [exact Ed|lia].
    + destruct (v <=? 4294967295) eqn:E2; apply parse_uint_none; intros v' Hv'; rewrite Ed in Hv'; injection Hv' as <-; lia.
  - destruct a as [|c r]; [reflexivity|].
    unfold is_sign. unfold parse_int31_nonneg.
    destruct (Ascii.eqb c c_plus) eqn:Ep; cbn [orb].
    + assert (Em : Ascii.eqb c c_minus = false).
      { apply Ascii.eqb_eq in Ep. subst c. reflexivity. }
      rewrite Em. cbn [andb].
      destruct (dec_of r) as [w|] eqn:Er; [exact I|].
      apply parse_uint_none. intros v' Hv'. congruence.
    + destruct (Ascii.eqb c c_minus) eqn:Em.
      * destruct (dec_of r) as [w|] eqn:Er.
        -- cbn [andb]. destruct (w =? 0) eqn:Ew; cbn [negb]; [exact I|].
           destruct (parse_uint 2147483648 r) as [v'|] eqn:Ev; [|reflexivity].
           apply parse_uint_spec in Ev as [Ev _]. rewrite Er in Ev. injection Ev as <-.
           destruct w; [discriminate|reflexivity].
        -- rewrite parse_uint_none; [reflexivity|]. intros v' Hv'. congruence.
      * apply parse_uint_none. intros v' Hv'. congruence.
Qed.

Lemma split2_nosep sep : forall s cur, existsb (fun c => Ascii.eqb c sep) s = false ->
  split2_acc sep cur s = (rev cur ++ s, None).
Proof.
  induction s as [|c s IH]; intros cur H; cbn [split2_acc].
  - now rewrite app_nil_r.
  - cbn [existsb] in H. apply orb_false_iff in H as [Hc Hs]. rewrite Hc.
    rewrite IH by exact Hs. cbn [rev]. now rewrite <- app_assoc.
Qed.

Lemma parse_uid_single s a : split2 c_colon s = (a, None) ->
  parse_uid s = match parse_int31_nonneg a with Some v => Some (v, None) | None => None end.
Proof. intros H. unfold parse_uid. now rewrite H. Qed.

Lemma parse_uid_pair s a b : split2 c_colon s = (a, Some b) ->
  parse_uid s = match parse_int31_nonneg a, parse_int31_nonneg b with
                | Some v1, Some v2 => Some (v1, Some v2) | _, _ => None end.
Proof. intros H. unfold parse_uid. now rewrite H. Qed.

(* ------------------------------------------------------------------ dev= *)
Lemma parse_dev_doc t r :
  parse_dev (t :: r) =
  if Ascii.eqb t (nb 98) || Ascii.eqb t (nb 99) then
    match split c_colon r with
    | [a; b] => match dec_of a, dec_of b with
                | Some mj, Some mn =>
                  if (mj <=? 4294967295) && (mn <=? 4294967295) then Some (bn t, mj, mn) else None
                | _, _ => None
                end
    | _ => None
    end
  else None.
Proof.
  unfold parse_dev. rewrite (orb_comm (Ascii.eqb t (nb 99))).
  destruct (Ascii.eqb t (nb 98) || Ascii.eqb t (nb 99)); [|reflexivity].
  destruct (split c_colon r) as [|a [|b [|x y]]]; try reflexivity.
  destruct (dec_of a) as [mj|] eqn:Ea.
  - destruct (mj <=? 4294967295) eqn:E1.
    + rewrite (parse_uint_some _ a mj Ea) by lia.
      destruct (dec_of b) as [mn|] eqn:Eb.
      * destruct (mn <=? 4294967295) eqn:E2.
        -- rewrite (parse_uint_some _ b mn Eb) by lia. reflexivity.
        -- rewrite (parse_uint_none _ b); [reflexivity|]. intros v Hv. rewrite Eb in Hv. injection Hv as <-. lia.
      * rewrite (parse_uint_none _ b); [reflexivity|]. intros v Hv. congruence.
    + rewrite (parse_uint_none _ a).
      * cbn [andb]. now destruct (dec_of b).
      * intros v Hv. rewrite Ea in Hv. injection Hv as <-. lia.
  - rewrite (parse_uint_none _ a); [reflexivity|]. intros v Hv. congruence.
Qed.

Lemma devtype_nz t : Ascii.eqb t (nb 98) || Ascii.eqb t (nb 99) = true -> bn t <> 0.
Proof.
  intros H. apply orb_true_iff in H as [H|H]; apply Ascii.eqb_eq in H; subst t; discriminate.
Qed.

Lemma parse_dev_nil : parse_dev [] = None.
Proof. reflexivity. Qed.

Local Opaque parse_mod chmod_ref perm_is_chmod simple_mode parse_uid parse_dev parse_source id_status.

(* ------------------------------------------------------------------ wildcard flag of the name *)
Lemma proc_option_wild e ty key val e' :
  proc_option e ty key val = Some e' -> e_wild e = true -> e_wild e' = true.
Proof.
  intros H Hw. unfold proc_option in H.
  destruct (beq key k_mod).
  { unfold proc_mod in H. destruct (forbidden ty _); [discriminate H|].
    destruct (e_hasperm e); [discriminate H|].
    destruct (parse_mod val) as [[a o]|]; [|discriminate H]. injection H as <-. exact Hw. }
  destruct (beq key k_gid).
  { unfold proc_giduid in H. destruct (forbidden ty _); [discriminate H|].
    destruct (parse_uid val) as [[v [v2|]]|]; [| |discriminate H]; injection H as <-; exact Hw. }
  destruct (beq key k_uid).
  { unfold proc_giduid in H. destruct (forbidden ty _); [discriminate H|].
    destruct (parse_uid val) as [[v [v2|]]|]; [| |discriminate H]; injection H as <-; exact Hw. }
  destruct (beq key k_src).
  { unfold proc_src in H. destruct (forbidden ty _); [discriminate H|].
    destruct (src_taken e); [discriminate H|]. rewrite Hw in H. discriminate H. }
  destruct (beq key k_dev).
  { unfold proc_dev in H. destruct (forbidden ty _); [discriminate H|].
    destruct (src_taken e); [discriminate H|].
    destruct (parse_dev val) as [[[t mj] mn]|]; [|discriminate H]. injection H as <-. exact Hw. }
  destruct (beq key k_targ).
  { unfold proc_targ in H. destruct (forbidden ty _); [discriminate H|].
    destruct (parse_source val) as [[|]|]; try discriminate H. injection H as <-. exact Hw. }
  destruct (beq key k_absent).
  { unfold proc_absent in H. destruct (forbidden ty _); [discriminate H|].
    destruct (beq val (bs "skip")); [|discriminate H]. injection H as <-. exact Hw. }
  discriminate H.
Qed.

(* ------------------------------------------------------------------ options: the simulation *)
Section Options.
Variable ty : bytes.
Variable tc : N.
Variable nm : bytes.
Variable nw : bool.
Hypothesis Hty : memb ty doc_types = true.

(* the option-related part of the entry is what the documented meaning records *)
Definition Mrel (x : dexp) (e : entry) : Prop :=
  e_ltype e = tc /\ e_name e = nm /\ e_wild e = nw /\
  e_source e = x_source x /\ e_target e = x_target x /\ e_skip e = x_skip x /\
  match x_pair x with
  | Some (a, b) => e_hasgid e = true /\ e_hasuid e = true /\ e_gid e = a /\ e_uid e = b
  | None =>
    match x_gid x with Some g => e_hasgid e = true /\ e_gid e = g | None => e_hasgid e = false /\ e_gid e = 0 end
    /\ match x_uid x with Some u => e_hasuid e = true /\ e_uid e = u | None => e_hasuid e = false /\ e_uid e = 0 end
  end /\
  match x_mode x with
  | Some s => e_hasperm e = true /\ perm_is_chmod s (e_and e) (e_or e) = true
  | None => e_hasperm e = false /\ e_and e = 0 /\ e_or e = 0
  end /\
  match x_dev x with
  | Some (t, mj, mn) => e_hasdev e = true /\ e_devtype e = t /\ e_major e = mj /\ e_minor e = mn /\ t <> 0
  | None => e_hasdev e = false /\ e_devtype e = 0 /\ e_major e = 0 /\ e_minor e = 0
  end.

(* what one documented option step demands of the model's step [r] *)
Definition Sspec (st' : status) (x' x : dexp) (e : entry) (r : option entry) : Prop :=
  (st' = MustReject -> (nw = true -> e_wild e = true) -> r = None) /\
  (st' = MustAccept -> Mrel x e -> exists e', r = Some e' /\ Mrel x' e') /\
  (st' = Either -> Mrel x e -> forall e', r = Some e' -> Mrel x' e').

Lemma S_free x' x e r : Sspec Free x' x e r.
Proof. unfold Sspec. split; [|split]; discriminate. Qed.
Lemma S_rej x' x e r : ((nw = true -> e_wild e = true) -> r = None) -> Sspec MustReject x' x e r.
Proof. intros H. unfold Sspec. split; [|split]; first [discriminate | intros _; exact H]. Qed.
Lemma S_acc x' x e r : (Mrel x e -> exists e', r = Some e' /\ Mrel x' e') -> Sspec MustAccept x' x e r.
Proof. intros H. unfold Sspec. split; [|split]; first [discriminate | intros _; exact H]. Qed.
Lemma S_eith x' x e r : (Mrel x e -> forall e', r = Some e' -> Mrel x' e') -> Sspec Either x' x e r.
Proof. intros H. unfold Sspec. split; [|split]; first [discriminate | intros _; exact H]. Qed.

Ltac proj_simpl :=
  cbn [e_ltype e_name e_source e_target e_gid e_uid e_and e_or e_major e_minor e_devtype
       e_wild e_hasgid e_hasuid e_hasdev e_hasperm e_skip
       x_gid x_uid x_pair x_mode x_dev x_source x_target x_skip
       set_perm set_gid set_uid set_source set_dev set_target set_skip] in *.

Ltac dest_ex x e :=
  destruct x as [xg xu xp xm xd xs xt xk];
  destruct e as [elt enm eso eta egi eui ean eor emj emn edt ewi ehg ehu ehd ehp esk];
  unfold Mrel in *; proj_simpl.

Ltac reduce_keys H :=
  cbn [memb existsb doc_keys beq k_mod k_gid k_uid k_src k_dev k_targ k_absent bs of_string
       Ascii.eqb Bool.eqb negb orb andb] in H.

Lemma step_mod x e val st' x' : doc_allowed ty k_mod = true ->
  doc_option ty nw x k_mod val = (st', x') -> Sspec st' x' x e (proc_mod e ty (fvalue val)).
Proof.
  intros Ha H. unfold doc_option in H. rewrite Ha in H. reduce_keys H.
  unfold proc_mod. rewrite (forb_mod ty Ha).
  destruct (x_mode x) as [s0|] eqn:Exm; [injection H as <- <-; apply S_free|].
  destruct (plain_of val) as [s|] eqn:Epv.
  2:{ injection H as <- <-. apply S_rej. intros _.
      rewrite (parse_mod_star _ (plain_none_star val Epv)). now destruct (e_hasperm e). }
  rewrite (plain_fvalue val s Epv).
  destruct (chmod_ref s 0) as [m|] eqn:Ec.
  2:{ injection H as <- <-. apply S_rej. intros _.
      rewrite (parse_mod_ref s Ec). now destruct (e_hasperm e). }
  assert (Hstep : Mrel x e -> forall e', (if e_hasperm e then None else
            match parse_mod s with Some (a, o) => Some (set_perm e a o) | None => None end) = Some e' ->
            Mrel x' e').
  { intros HM e' Hr. 
    assert (Hx' : x' = MkX (x_gid x) (x_uid x) (x_pair x) (Some s) (x_dev x) (x_source x) (x_target x) (x_skip x))
      by (now injection H as _ <-).
    subst x'.
    destruct (parse_mod s) as [[a o]|] eqn:Ep; [|destruct (e_hasperm e); discriminate Hr].
    pose proof (perm_is_chmod_ok s a o Ep) as Hperm.
    dest_ex x e. subst xm.
    destruct HM as (H1 & H2 & H3 & H4 & H5 & H6 & H7 & (H8 & H8a & H8b) & H9). subst ehp.
    injection Hr as <-. proj_simpl. repeat split; auto. }
  destruct (simple_mode s) eqn:Esm.
  - injection H as <- Hx'. apply S_acc. intros HM.
    assert (Hnp : e_hasperm e = false).
    { unfold Mrel in HM. rewrite Exm in HM. tauto. }
    pose proof (simple_mode_accepted s Esm) as Hacc.
    destruct (parse_mod s) as [[a o]|] eqn:Ep; [|congruence].
    exists (set_perm e a o). split; [now rewrite Hnp|].
    apply (Hstep HM). now rewrite Hnp.
  - injection H as <- Hx'. apply S_eith. exact Hstep.
Qed.

Ltac fin_M := cbv beta iota in *; intuition (subst; auto).

Lemma step_gid x e val st' x' : doc_allowed ty k_gid = true ->
  doc_option ty nw x k_gid val = (st', x') -> Sspec st' x' x e (proc_giduid e ty true (fvalue val)).
Proof.
  intros Ha H. unfold doc_option in H. rewrite Ha in H. reduce_keys H.
  unfold proc_giduid. rewrite (forb_gid ty Ha).
  destruct (x_gid x) as [g0|] eqn:Exg; [injection H as <- <-; apply S_free|].
  destruct (x_pair x) as [p0|] eqn:Exp; [injection H as <- <-; apply S_free|].
  destruct (plain_of val) as [s|] eqn:Epv.
  2:{ injection H as <- <-. apply S_rej. intros _. now rewrite (parse_uid_star _ (plain_none_star val Epv)). }
  rewrite (plain_fvalue val s Epv).
  destruct (existsb (fun c => Ascii.eqb c c_colon) s) eqn:Ecol; [injection H as <- <-; apply S_free|].
  assert (Hsp : split2 c_colon s = (s, None)) by (unfold split2; now rewrite split2_nosep).
  rewrite (parse_uid_single s s Hsp).
  pose proof (id_int s) as Hid. destruct (id_status s) as [st v]. injection H as <- <-.
  destruct st; cbv beta iota in Hid.
  - rewrite Hid. apply S_acc. intros HM. eexists. split; [reflexivity|].
    dest_ex x e. subst xg xp. fin_M.
  - rewrite Hid. apply S_rej. reflexivity.
  - rewrite Hid. apply S_eith. intros HM e' Hr. discriminate Hr.
  - apply S_free.
Qed.

Lemma step_uid x e val st' x' : doc_allowed ty k_uid = true ->
  doc_option ty nw x k_uid val = (st', x') -> Sspec st' x' x e (proc_giduid e ty false (fvalue val)).
Proof.
  intros Ha H. unfold doc_option in H. rewrite Ha in H. reduce_keys H.
  unfold proc_giduid. rewrite (forb_uid ty Ha).
  destruct (x_uid x) as [u0|] eqn:Exu; [injection H as <- <-; apply S_free|].
  destruct (x_pair x) as [p0|] eqn:Exp; [injection H as <- <-; apply S_free|].
  destruct (plain_of val) as [s|] eqn:Epv.
  2:{ injection H as <- <-. apply S_rej. intros _. now rewrite (parse_uid_star _ (plain_none_star val Epv)). }
  rewrite (plain_fvalue val s Epv).
  destruct (split2 c_colon s) as [a [b|]] eqn:Esp.
  - rewrite (parse_uid_pair s a b Esp).
    destruct (x_gid x) as [g0|] eqn:Exg; [injection H as <- <-; apply S_free|].
    pose proof (id_int a) as Hia. pose proof (id_int b) as Hib.
    destruct (id_status a) as [st1 v1]. destruct (id_status b) as [st2 v2]. injection H as <- <-.
    destruct st1, st2; cbv beta iota in Hia, Hib; cbn [st_join];
    first [ apply S_free
          | apply S_rej; intros _;
            first [ rewrite Hia; reflexivity
                  | rewrite Hib; destruct (parse_int31_nonneg a); reflexivity ]
          | apply S_eith; intros HM e' Hr; exfalso;
            first [ rewrite Hia in Hr; discriminate Hr
                  | rewrite Hib in Hr; destruct (parse_int31_nonneg a); discriminate Hr ]
          | idtac ].
    rewrite Hia, Hib. apply S_acc. intros HM. eexists. split; [reflexivity|].
    dest_ex x e. subst xg xu xp. fin_M.
  - rewrite (parse_uid_single s a Esp).
    pose proof (id_int a) as Hid. destruct (id_status a) as [st v]. injection H as <- <-.
    destruct st; cbv beta iota in Hid.
    + rewrite Hid. apply S_acc. intros HM. eexists. split; [reflexivity|].
      dest_ex x e. subst xu xp. destruct xg; fin_M.
    + rewrite Hid. apply S_rej. reflexivity.
    + rewrite Hid. apply S_eith. intros HM e' Hr. discriminate Hr.
    + apply S_free.
Qed.

Lemma src_free x e : Mrel x e -> x_source x = [] -> x_dev x = None -> src_taken e = false.
Proof.
  intros HM H1 H2. unfold src_taken. dest_ex x e. subst xs xd.
  destruct HM as (_ & _ & _ & -> & _ & _ & _ & _ & _ & -> & _). reflexivity.
Qed.

Lemma step_src x e val st' x' : doc_allowed ty k_src = true -> forallb StageDoc.tok_ok val = true ->
  doc_option ty nw x k_src val = (st', x') -> Sspec st' x' x e (proc_src e ty (fvalue val)).
Proof.
  intros Ha Hok H. unfold doc_option in H. rewrite Ha in H. reduce_keys H.
  unfold proc_src. rewrite (forb_src ty Ha).
  destruct (x_source x) as [|c0 s0] eqn:Exs; [|injection H as <- <-; apply S_free].
  destruct (x_dev x) as [d0|] eqn:Exd; [injection H as <- <-; apply S_free|].
  destruct (Bool.bool_dec nw true) as [Enw|Enw]; [|apply Bool.not_true_is_false in Enw]; rewrite Enw in H.
  - injection H as <- <-. apply S_rej. intros HA. rewrite (HA Enw). now destruct (src_taken e).
  - destruct val as [|t val']; [injection H as <- <-; apply S_free|].
    destruct (has_star (t :: val')) eqn:Ehs; [injection H as <- <-; apply S_free|].
    injection H as <- <-. apply S_acc. intros HM.
    rewrite (src_free x e HM Exs Exd).
    assert (Hw : e_wild e = false) by (unfold Mrel in HM; rewrite <- Enw; tauto).
    rewrite Hw. rewrite (parse_source_nostar (t :: val')) by (auto; discriminate).
    eexists. split; [reflexivity|].
    dest_ex x e. subst xs xd. fin_M.
Qed.

Lemma step_dev x e val st' x' : doc_allowed ty k_dev = true ->
  doc_option ty nw x k_dev val = (st', x') -> Sspec st' x' x e (proc_dev e ty (fvalue val)).
Proof.
  intros Ha H. unfold doc_option in H. rewrite Ha in H. reduce_keys H.
  unfold proc_dev. rewrite (forb_dev ty Ha).
  destruct (x_source x) as [|c0 s0] eqn:Exs; [|injection H as <- <-; apply S_free].
  destruct (x_dev x) as [d0|] eqn:Exd; [injection H as <- <-; apply S_free|].
  destruct (plain_of val) as [s|] eqn:Epv.
  2:{ injection H as <- <-. apply S_rej. intros _.
      rewrite (parse_dev_star _ (plain_none_star val Epv)). now destruct (src_taken e). }
  rewrite (plain_fvalue val s Epv).
  destruct s as [|t r].
  { injection H as <- <-. apply S_rej. intros _. rewrite parse_dev_nil. now destruct (src_taken e). }
  rewrite parse_dev_doc.
  destruct (Ascii.eqb t (nb 98) || Ascii.eqb t (nb 99)) eqn:Et.
  2:{ injection H as <- <-. apply S_rej. intros _. now destruct (src_taken e). }
  destruct (split c_colon r) as [|a [|b [|c d]]];
    try (injection H as <- <-; apply S_rej; intros _; now destruct (src_taken e)).
  destruct (dec_of a) as [mj|]; [|injection H as <- <-; apply S_rej; intros _; now destruct (src_taken e)].
  destruct (dec_of b) as [mn|]; [|injection H as <- <-; apply S_rej; intros _; now destruct (src_taken e)].
  destruct ((mj <=? 4294967295) && (mn <=? 4294967295)) eqn:Erange.
  2:{ injection H as <- <-. apply S_rej. intros _. now destruct (src_taken e). }
  assert (Hstep : Mrel x e -> exists e', (if src_taken e then None else Some (set_dev e (bn t) mj mn)) = Some e' /\
     Mrel (MkX (x_gid x) (x_uid x) (x_pair x) (x_mode x) (Some (bn t, mj, mn)) [] (x_target x) (x_skip x)) e').
  { intros HM. rewrite (src_free x e HM Exs Exd). eexists. split; [reflexivity|].
    pose proof (devtype_nz t Et) as Hnz.
    dest_ex x e. subst xs xd. fin_M. }
  destruct ((mj <=? 255) && (mn <=? 255)); injection H as <- <-.
  - apply S_acc. exact Hstep.
  - apply S_eith. intros HM e' Hr. destruct (Hstep HM) as (e'' & He'' & HM''). congruence.
Qed.

Lemma step_targ x e val st' x' : doc_allowed ty k_targ = true -> forallb StageDoc.tok_ok val = true ->
  doc_option ty nw x k_targ val = (st', x') -> Sspec st' x' x e (proc_targ e ty (fvalue val)).
Proof.
  intros Ha Hok H. unfold doc_option in H. rewrite Ha in H. reduce_keys H.
  unfold proc_targ. rewrite (forb_targ ty Ha).
  destruct (x_target x) as [|c0 s0] eqn:Ext; [|injection H as <- <-; apply S_free].
  destruct val as [|t val']; [injection H as <- <-; apply S_free|].
  destruct (has_star (t :: val')) eqn:Ehs; [injection H as <- <-; apply S_free|].
  injection H as <- <-. apply S_acc. intros HM.
  rewrite (parse_source_nostar (t :: val')) by (auto; discriminate).
  eexists. split; [reflexivity|].
  dest_ex x e. subst xt. fin_M.
Qed.

Lemma step_absent x e val st' x' : doc_allowed ty k_absent = true ->
  doc_option ty nw x k_absent val = (st', x') -> Sspec st' x' x e (proc_absent e ty (fvalue val)).
Proof.
  intros Ha H. unfold doc_option in H. rewrite Ha in H. unfold proc_absent.
  set (skip := bs "skip") in *. reduce_keys H.
  rewrite (forb_absent ty Ha).
  destruct (plain_of val) as [s|] eqn:Epv.
  2:{ injection H as <- <-. apply S_rej. intros _. unfold skip. now rewrite (skip_star _ (plain_none_star val Epv)). }
  rewrite (plain_fvalue val s Epv).
  destruct (beq s skip) eqn:Esk; injection H as <- <-.
  - apply S_acc. intros HM. eexists. split; [reflexivity|]. dest_ex x e. fin_M.
  - apply S_rej. reflexivity.
Qed.

Lemma opt_spec key val x e st' x' : forallb StageDoc.tok_ok val = true ->
  doc_option ty nw x key val = (st', x') -> Sspec st' x' x e (proc_option e ty key (fvalue val)).
Proof.
  intros Hok H.
  destruct (memb key doc_keys) eqn:Ek.
  2:{ unfold doc_option in H. rewrite Ek in H. cbn [negb] in H. injection H as <- <-.
      apply S_rej. intros _. destruct (proc_option e ty key (fvalue val)) eqn:E; [|reflexivity].
      apply proc_option_key in E. congruence. }
  destruct (doc_allowed ty key) eqn:Ea.
  2:{ unfold doc_option in H. rewrite Ek, Ea in H. cbn [negb] in H. injection H as <- <-.
      apply S_rej. intros _. now apply table_agrees. }
  apply memb_keys in Ek. destruct Ek as [E|[E|[E|[E|[E|[E|E]]]]]]; subst key.
  - rewrite po_mod. now apply step_mod.
  - rewrite po_gid. now apply step_gid.
  - rewrite po_uid. now apply step_uid.
  - rewrite po_src. now apply step_src.
  - rewrite po_dev. now apply step_dev.
  - rewrite po_targ. now apply step_targ.
  - rewrite po_absent. now apply step_absent.
Qed.

(* the fold invariant: documented accumulator (st, x) against the model's (e, bad) *)
Definition Inv (st : status) (x : dexp) (e : entry) (bad : bool) : Prop :=
  (st = MustAccept -> bad = false) /\
  (bad = false -> (nw = true -> e_wild e = true) /\
                  match st with MustReject => False | Free => True | _ => Mrel x e end).

Lemma M_wild x e : Mrel x e -> nw = true -> e_wild e = true.
Proof. intros HM E. unfold Mrel in HM. destruct HM as (_ & _ & Hw & _). now rewrite Hw. Qed.

Lemma inv_bad x e : Inv MustReject x e true.
Proof. split; [discriminate|discriminate]. Qed.

Lemma st_join_rej st : st_join st MustReject = MustReject.
Proof. now destruct st. Qed.

Lemma inv_step st x e bad st' x' r : Inv st x e bad -> Sspec st' x' x e r ->
  (forall e', r = Some e' -> e_wild e = true -> e_wild e' = true) ->
  Inv (st_join st st') x' (match r with Some e' => e' | None => e end)
      (match r with Some _ => bad | None => true end).
Proof.
  intros [HI1 HI2] (HS1 & HS2 & HS3) HW.
  destruct bad.
  { (* already rejected *)
    assert (Hst : st <> MustAccept) by (intros E; specialize (HI1 E); discriminate HI1).
    assert (Hb : (match r with Some _ => true | None => true end) = true) by now destruct r.
    rewrite Hb. split; [|discriminate].
    intros E. destruct st, st'; try discriminate E. congruence. }
  destruct (HI2 eq_refl) as [HA HB].
  destruct st'.
  - (* MustAccept *)
    destruct st; cbn [st_join]; try contradiction.
    + destruct (HS2 eq_refl HB) as (e' & -> & HM'). split; [reflexivity|]. intros _.
      split; [|exact HM']. exact (M_wild _ _ HM').
    + destruct r as [e'|]; [|split; discriminate].
      split; [discriminate|]. intros _. 
      assert (HM' : Mrel x' e').
      { (* an accepted step in state Either: use the MustAccept clause *)
        destruct (HS2 eq_refl HB) as (e'' & He'' & HM''). congruence. }
      split; [|exact HM']. exact (M_wild _ _ HM').
    + destruct r as [e'|]; [|split; discriminate].
      split; [discriminate|]. intros _. split; [|exact I]. intros E. apply (HW e' eq_refl). now apply HA.
  - (* MustReject *)
    rewrite st_join_rej. rewrite (HS1 eq_refl HA). apply inv_bad.
  - (* Either *)
    destruct st; cbn [st_join]; try contradiction.
    + destruct r as [e'|]; [|split; discriminate].
      split; [discriminate|]. intros _. pose proof (HS3 eq_refl HB e' eq_refl) as HM'.
      split; [|exact HM']. exact (M_wild _ _ HM').
    + destruct r as [e'|]; [|split; discriminate].
      split; [discriminate|]. intros _. pose proof (HS3 eq_refl HB e' eq_refl) as HM'.
      split; [|exact HM']. exact (M_wild _ _ HM').
    + destruct r as [e'|]; [|split; discriminate].
      split; [discriminate|]. intros _. split; [|exact I]. intros E. apply (HW e' eq_refl). now apply HA.
  - (* Free *)
    assert (Hj : st_join st Free = Free) by (destruct st; try reflexivity; contradiction).
    rewrite Hj. destruct r as [e'|]; [|split; discriminate].
    split; [discriminate|]. intros _. split; [|exact I]. intros E. apply (HW e' eq_refl). now apply HA.
Qed.

Lemma field_step f st x e bad : forallb StageDoc.tok_ok (f_toks f) = true -> Inv st x e bad ->
  forall st' x' e' bad',
  doc_opt_field ty nw (st, x) f = (st', x') ->
  opt_step ty (e, bad) (fvalue (f_toks f)) = (e', bad') ->
  Inv st' x' e' bad'.
Proof.
  intros Hok HI st' x' e' bad' Hd Hm.
  unfold doc_opt_field in Hd. unfold opt_step in Hm.
  destruct (split_eq (f_toks f) []) as [[key val]|] eqn:Es.
  - pose proof (split_eq_some _ _ _ _ Es) as Hsp. fold (split2 c_eq (fvalue (f_toks f))) in Hsp.
    rewrite Hsp in Hm.
    destruct key as [|c key].
    + injection Hd as <- <-. injection Hm as <- <-. apply inv_bad.
    + destruct (doc_option ty nw x (c :: key) val) as [st1 x1] eqn:Ed.
      injection Hd as <- <-.
      pose proof (split_eq_tok_ok _ _ _ _ Es Hok) as Hokv.
      pose proof (opt_spec (c :: key) val x e st1 x1 Hokv Ed) as HS.
      pose proof (inv_step st x e bad st1 x1 _ HI HS (proc_option_wild e ty (c :: key) (fvalue val))) as HI'.
      destruct (proc_option e ty (c :: key) (fvalue val)) as [e1|]; injection Hm as <- <-; exact HI'.
  - injection Hd as <- <-.
    destruct (split2 c_eq (fvalue (f_toks f))) as [k [v|]] eqn:E2.
    + pose proof (split_eq_none _ _ Es k v E2) as Hin.
      destruct k as [|c k]; [injection Hm as <- <-; apply inv_bad|].
      rewrite (proc_option_star e ty (c :: k) v Hin) in Hm. injection Hm as <- <-. apply inv_bad.
    + destruct k; injection Hm as <- <-; apply inv_bad.
Qed.

Lemma fold_inv : forall opts st x e bad,
  Forall (fun f => forallb StageDoc.tok_ok (f_toks f) = true) opts -> Inv st x e bad ->
  forall st' x' e' bad',
  fold_left (doc_opt_field ty nw) opts (st, x) = (st', x') ->
  fold_left (opt_step ty) (map (fun f => fvalue (f_toks f)) opts) (e, bad) = (e', bad') ->
  Inv st' x' e' bad'.
Proof.
  induction opts as [|f opts IH]; intros st x e bad HF HI st' x' e' bad' Hd Hm.
  - cbn in Hd, Hm. injection Hd as <- <-. injection Hm as <- <-. exact HI.
  - cbn [fold_left map] in Hd, Hm. inversion HF as [|? ? Hf HF']; subst.
    destruct (doc_opt_field ty nw (st, x) f) as [st1 x1] eqn:Ed.
    destruct (opt_step ty (e, bad) (fvalue (f_toks f))) as [e1 b1] eqn:Em.
    apply (IH st1 x1 e1 b1 HF' (field_step f st x e bad Hf HI st1 x1 e1 b1 Ed Em) _ _ _ _ Hd Hm).
Qed.

(* an accepted entry means what the manual says *)
Lemma means_of_M st adding x e : Mrel x e ->
  entry_means (MkD st adding tc nm nw x) adding e = true.
Proof.
  intros HM. unfold entry_means. cbn [d_x d_adding d_type d_name d_wild].
  destruct x as [xg xu xp xm xd xs xt xk];
  destruct e as [elt enm eso eta egi eui ean eor emj emn edt ewi ehg ehu ehd ehp esk];
  unfold Mrel in HM; proj_simpl.
  destruct HM as (-> & -> & -> & -> & -> & -> & Hids & Hmode & Hdev).
  rewrite Bool.eqb_reflx, N.eqb_refl, !beq_refl, !Bool.eqb_reflx. cbn [andb].
  assert (H1 : match xp with
     | Some (a, b) => ehg && ehu && ((egi =? a) && (eui =? b) || (egi =? b) && (eui =? a))
     | None => match xg with Some g => ehg && (egi =? g) | None => negb ehg && (egi =? 0) end
            && match xu with Some u => ehu && (eui =? u) | None => negb ehu && (eui =? 0) end
     end = true).
  { destruct xp as [[a b]|].
    - destruct Hids as (-> & -> & -> & ->). now rewrite !N.eqb_refl.
    - destruct Hids as [Hg Hu]. apply andb_true_iff. split.
      + destruct xg; destruct Hg as [-> ->]; now rewrite N.eqb_refl.
      + destruct xu; destruct Hu as [-> ->]; now rewrite N.eqb_refl. }
  rewrite H1. cbn [andb].
  assert (H2 : match xm with
     | Some s => ehp && perm_is_chmod s ean eor
     | None => negb ehp && (ean =? 0) && (eor =? 0) end = true).
  { destruct xm as [s|].
    - destruct Hmode as [-> ->]. reflexivity.
    - destruct Hmode as (-> & -> & ->). reflexivity. }
  rewrite H2. cbn [andb].
  destruct xd as [[[t mj] mn]|].
  - destruct Hdev as (-> & -> & -> & -> & _). now rewrite !N.eqb_refl.
  - destruct Hdev as (-> & -> & -> & ->). reflexivity.
Qed.
End Options.

(* ------------------------------------------------------------------ the line *)
Lemma lof_cons2 ty name opts : line_of_fields (ty :: name :: opts) =
  let '(e1, adding, bad1) :=
    match type_of ty with
    | Some (t, a) => (set_ltype entry0 t, a, false)
    | None => (entry0, true, true)
    end in
  let '(e2, bad2) := name_step e1 name in
  let '(e3, bad3) := fold_left (opt_step ty) opts (e2, bad1 || bad2) in
  LRes adding (negb bad3) e3.
Proof. reflexivity. Qed.

Lemma lof_bad_type ty rest : type_of ty = None ->
  exists a e, line_of_fields (ty :: rest) = LRes a false e.
Proof.
  intros Ht. unfold line_of_fields. change (nth 0 (ty :: rest) []) with ty. rewrite Ht.
  destruct (name_step entry0 (nth 1 (ty :: rest) [])) as [e2 b2]. cbn [orb].
  pose proof (fold_bad ty (skipn 2 (ty :: rest)) e2) as Hb.
  destruct (fold_left (opt_step ty) (skipn 2 (ty :: rest)) (e2, true)) as [e3 b3].
  cbn [snd] in Hb. subst b3. now exists true, e3.
Qed.

Lemma lof_no_name ty : exists a e, line_of_fields [ty] = LRes a false e.
Proof.
  unfold line_of_fields. cbn [nth skipn].
  destruct (match type_of ty with
            | Some (t, a) => (set_ltype entry0 t, a, false)
            | None => (entry0, true, true) end) as [[e1 a] b1].
  cbn [name_step length Nat.ltb Nat.leb fold_left]. rewrite orb_true_r. now exists a, e1.
Qed.

Lemma fold_ok ty : memb ty doc_types = true -> forall opts e bad e3,
  fold_left (opt_step ty) opts (e, bad) = (e3, false) ->
  bad = false /\
  Forall (fun o => exists k v, split2 c_eq o = (k, Some v) /\ doc_allowed ty k = true) opts.
Proof.
  intros Hty. induction opts as [|o opts IH]; intros e bad e3 H; cbn [fold_left] in H.
  - injection H as _ ->. split; [reflexivity|constructor].
  - destruct (opt_step ty (e, bad) o) as [e1 b1] eqn:E.
    destruct (IH e1 b1 e3 H) as [-> HF].
    unfold opt_step in E. destruct (split2 c_eq o) as [k [v|]] eqn:Es.
    + destruct k as [|c k]; [injection E as _ E; discriminate E|].
      destruct (proc_option e ty (c :: k) v) as [e'|] eqn:Ep; [|injection E as _ E; discriminate E].
      injection E as _ ->. split; [reflexivity|]. constructor; [|exact HF].
      exists (c :: k), v. split; [exact Es|]. eapply table_agrees_rev; eauto.
    + destruct k; injection E as _ E; discriminate E.
Qed.

(* every accepted line uses a documented type and only options the manual gives that type *)
Theorem options_by_type : forall ty name opts adding e,
  line_of_fields (ty :: name :: opts) = LRes adding true e ->
  memb ty doc_types = true /\
  Forall (fun o => exists k v, split2 c_eq o = (k, Some v) /\ doc_allowed ty k = true) opts.
Proof.
  intros ty name opts adding e H.
  destruct (type_of ty) as [[t a]|] eqn:Et.
  - apply type_of_some in Et as Hm. destruct Hm as (Hm & _ & _). split; [exact Hm|].
    rewrite lof_cons2, Et in H.
    destruct (name_step (set_ltype entry0 t) name) as [e2 bad2].
    destruct (fold_left (opt_step ty) opts (e2, false || bad2)) as [e3 bad3] eqn:Ef.
    injection H as _ Hb _. apply negb_true_iff in Hb. subst bad3.
    exact (proj2 (fold_ok ty Hm opts e2 _ e3 Ef)).
  - destruct (lof_bad_type ty (name :: opts) Et) as (a & e' & He). rewrite He in H. discriminate H.
Qed.

Lemma sfields_tok_ok : forall l first, sfields_ok first l = true ->
  Forall (fun f => forallb StageDoc.tok_ok (f_toks f) = true) l.
Proof.
  induction l as [|f l IH]; intros first H; constructor; cbn [sfields_ok] in H;
    apply andb_true_iff in H as [Hf Hl].
  - unfold sfield_ok in Hf. apply andb_true_iff in Hf as [Hf _]. now apply andb_true_iff in Hf as [_ Hf].
  - now apply (IH false).
Qed.

Lemma inv_init tc ts : forallb StageDoc.tok_ok ts = true -> bsl_then_star ts = false ->
  forall e2 bad2, name_step (set_ltype entry0 tc) (fvalue ts) = (e2, bad2) ->
  Inv tc (fvalue ts) (has_star ts) (doc_name ts) dexp0 e2 bad2.
Proof.
  intros Hok Hb e2 bad2 Hn. pose proof (name_spec ts (set_ltype entry0 tc) Hok Hb) as Hs.
  rewrite Hn in Hs. unfold Inv. destruct (doc_name ts).
  - injection Hs as -> ->. split; [reflexivity|]. intros _. split; [intros E; exact E|].
    unfold Mrel. cbn. repeat split; reflexivity.
  - cbn [snd] in Hs. subst bad2. split; discriminate.
  - contradiction.
  - cbn [snd] in Hs. subst bad2. split; discriminate.
Qed.

(* the property on one structured line: what the model of the tool does with the rendered line
   is what the manual says (known-finding class 1 excluded) *)
Theorem line_spec_holds : forall sl, sline_ok sl = true -> kf_line sl = 0 ->
  line_spec sl (parse_line (render_line sl)) = true.
Proof.
  intros sl Hok Hkf. unfold parse_line. rewrite (fields_roundtrip sl Hok).
  unfold sline_ok in Hok. apply andb_true_iff in Hok as [Hl _].
  pose proof (sfields_tok_ok _ _ Hl) as HF. clear Hl.
  unfold kf_line in Hkf.
  destruct (existsb (fun f => bsl_then_star (f_toks f)) (sl_fields sl)) eqn:Ekf; [discriminate Hkf|]. clear Hkf.
  unfold line_spec, doc_line.
  destruct (sl_fields sl) as [|ft rest]; [reflexivity|].
  cbn [map]. inversion HF as [|? ? Hft HF']; subst.
  destruct (plain_of (f_toks ft)) as [ty|] eqn:Ept.
  2:{ destruct (lof_bad_type (fvalue (f_toks ft)) (map (fun f => fvalue (f_toks f)) rest)
                  (type_star_rejected _ Ept)) as (a & e & ->). reflexivity. }
  rewrite (plain_fvalue _ _ Ept).
  destruct (memb ty doc_types) eqn:Em; cbn [negb].
  2:{ destruct (lof_bad_type ty (map (fun f => fvalue (f_toks f)) rest) (type_of_none ty Em)) as (a & e & ->).
      reflexivity. }
  destruct rest as [|fn opts].
  { cbn [map]. destruct (lof_no_name ty) as (a & e & ->). reflexivity. }
  cbn [map]. inversion HF' as [|? ? Hfn HFo]; subst.
  cbn [existsb] in Ekf. apply orb_false_iff in Ekf as [_ Ekf]. apply orb_false_iff in Ekf as [Hbts _].
  rewrite lof_cons2, (type_of_doc ty Em).
  set (tc := doc_type_code ty). set (nm := fvalue (f_toks fn)). set (nw := has_star (f_toks fn)).
  destruct (name_step (set_ltype entry0 tc) nm) as [e2 bad2] eqn:En.
  pose proof (inv_init tc (f_toks fn) Hfn Hbts e2 bad2 En) as HI0.
  fold nm nw in HI0. cbn [orb].
  destruct (fold_left (doc_opt_field ty nw) opts (doc_name (f_toks fn), dexp0)) as [st x] eqn:Ed.
  destruct (fold_left (opt_step ty) (map (fun f => fvalue (f_toks f)) opts) (e2, bad2)) as [e3 bad3] eqn:Ef.
  pose proof (fold_inv ty tc nm nw Em opts _ _ _ _ HFo HI0 _ _ _ _ Ed Ef) as [HI1 HI2].
  cbn [d_status].
  destruct st.
  - rewrite (HI1 eq_refl) in *. destruct (HI2 eq_refl) as [_ HM]. cbn [negb andb].
    now apply means_of_M.
  - destruct bad3; [reflexivity|]. destruct (HI2 eq_refl) as [_ []].
  - destruct bad3; [reflexivity|]. destruct (HI2 eq_refl) as [_ HM]. cbn [negb].
    now apply means_of_M.
  - reflexivity.
Qed.

Print Assumptions options_by_type.
Print Assumptions line_spec_holds.
