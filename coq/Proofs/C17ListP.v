From LC Require Import Lib.Bytes Lib.Lex Lib.Fields Lib.PathM Gen.Consts Model.StageLine Model.StageDoc
  Model.StageWild Model.StageWildDoc Proofs.StageFieldsP Proofs.C17LineP Proofs.StageWildP Proofs.C17MiscP.
From Coq Require Import ZifyBool ZifyNat ZifyN.
Open Scope N_scope.
Open Scope list_scope.

(* C17, list level: the model of ReadUserFileList / GenerateFileList (Model/StageWild.v) against the
   documented effect of an add-files script on the set of names (Model/StageWildDoc.v). *)

Definition no_kf (its : list sitem) : bool :=
  negb (existsb (fun it => match it with SLine sl => kf_line sl =? 1 | _ => false end) its).

(* two name lists with the same members *)
Definition eqv (a b : list bytes) : Prop := forall x, In x a <-> In x b.

(* ------------------------------------------------------------------ names as sets *)
Lemma nmem_in n l : nmem n l = true <-> In n l.
Proof.
  unfold nmem. rewrite existsb_exists. split.
  - intros (x & Hx & E). apply beq_true in E. now subst.
  - intros H. exists n. split; [exact H|apply beq_refl].
Qed.

Lemma nadd_in n l x : In x (nadd n l) <-> x = n \/ In x l.
Proof.
  unfold nadd. destruct (nmem n l) eqn:E.
  - apply nmem_in in E. intuition congruence.
  - cbn [In]. intuition congruence.
Qed.

Lemma ndel_in n l x : In x (ndel n l) <-> In x l /\ x <> n.
Proof. unfold ndel. rewrite filter_In, negb_true_iff, beq_false. tauto. Qed.

Lemma fold_nadd_in ms : forall l x,
  In x (fold_left (fun l n => nadd n l) ms l) <-> In x l \/ In x ms.
Proof.
  induction ms as [|m ms IH]; intros l x; cbn [fold_left In].
  - tauto.
  - rewrite IH, nadd_in. intuition congruence.
Qed.

Lemma fold_ndel_in ms : forall l x,
  In x (fold_left (fun l n => ndel n l) ms l) <-> In x l /\ ~ In x ms.
Proof.
  induction ms as [|m ms IH]; intros l x; cbn [fold_left In].
  - tauto.
  - rewrite IH, ndel_in. intuition congruence.
Qed.

Lemma fl_has_in l n : fl_has l n = true <-> In n (names l).
Proof.
  induction l as [|e r IH]; cbn [fl_has names map In].
  - split; [discriminate|tauto].
  - fold (names r). rewrite orb_true_iff, IH, beq_true. tauto.
Qed.

(* ------------------------------------------------------------------ the exported view *)
Lemma linsert_names y l x : In x (names (linsert y l)) <-> x = l_name y \/ In x (names l).
Proof.
  induction l as [|z r IH]; cbn [linsert names map In].
  - intuition congruence.
  - fold (names r). destruct (ltb (l_name z) (l_name y)); cbn [names map In].
    + fold (names (linsert y r)). rewrite IH. intuition congruence.
    + fold (names r). intuition congruence.
Qed.

Lemma lsort_names l x : In x (names (lsort l)) <-> In x (names l).
Proof.
  induction l as [|y r IH]; cbn [lsort fold_right names map In].
  - tauto.
  - fold (lsort r). fold (names r). rewrite linsert_names, IH. intuition congruence.
Qed.

Lemma same_names_eqv a b : eqv a b -> same_names a b = true.
Proof.
  intros H. unfold same_names. apply andb_true_iff. split; apply forallb_forall; intros x Hx;
    apply nmem_in; now apply H.
Qed.

(* ------------------------------------------------------------------ the out-of-domain flag only rises *)
Lemma read_line_ood t st raw st' : read_line t st raw = RLDone st' -> rl_ood st = true -> rl_ood st' = true.
Proof.
  unfold read_line. intros H Ho.
  destruct (is_comment (go_trim raw)); [injection H as <-; exact Ho|].
  destruct (parse_line (go_trim raw)) as [|adding ok e]; [discriminate H|].
  destruct ok; [|injection H as <-; exact Ho].
  destruct (if adding then add_files t (rl_list st) (unescape_asterisks e)
            else remove_files t (rl_list st) (unescape_asterisks e));
    injection H as <-; cbn [rl_ood]; auto.
Qed.

Lemma read_lines_ood t lines : forall st st', read_lines t st lines = RLDone st' ->
  rl_ood st = true -> rl_ood st' = true.
Proof.
  induction lines as [|l r IH]; intros st st' H Ho; cbn [read_lines] in H.
  - injection H as <-. exact Ho.
  - destruct (read_line t st l) as [|st1] eqn:E; [discriminate H|].
    eapply IH; [exact H|]. eapply read_line_ood; eauto.
Qed.

Lemma gen_list_ood t ns : forall st, rl_ood st = true -> rl_ood (gen_list t st ns) = true.
Proof.
  induction ns as [|n r IH]; intros st Ho; cbn [gen_list]; [exact Ho|].
  destruct (add_single t (rl_list st) _); [exact Ho|apply IH; reflexivity|apply IH; exact Ho].
Qed.

(* ------------------------------------------------------------------ a line and its trimmed form *)
Lemma core_ok sl : sline_ok sl = true -> sline_ok (sline_core sl) = true.
Proof.
  unfold sline_ok, sline_core. destruct (sl_fields sl) as [|f r]; [reflexivity|].
  intros H. apply andb_true_iff in H as [H _]. cbn [sfields_ok] in H.
  apply andb_true_iff in H as [Hf Hr].
  cbn [sl_fields sl_trail sfields_ok forallb]. rewrite Hr.
  unfold sfield_ok in *. cbn [f_sep f_toks f_style forallb orb andb].
  apply andb_true_iff in Hf as [Hf H4]. apply andb_true_iff in Hf as [_ H3].
  rewrite H3, H4. reflexivity.
Qed.

Lemma core_kf sl : kf_line (sline_core sl) = kf_line sl.
Proof. unfold kf_line, sline_core. destruct (sl_fields sl) as [|f r]; reflexivity. Qed.

Lemma core_doc sl : doc_line (sline_core sl) = doc_line sl.
Proof. unfold doc_line, sline_core. destruct (sl_fields sl) as [|f r]; reflexivity. Qed.

(* ------------------------------------------------------------------ what an accepted line looks like *)
Lemma fold_opt_accept ty nw opts : forall st x x',
  fold_left (doc_opt_field ty nw) opts (st, x) = (MustAccept, x') -> st = MustAccept.
Proof.
  induction opts as [|f opts IH]; intros st x x' H; cbn [fold_left] in H.
  - now injection H.
  - destruct (doc_opt_field ty nw (st, x) f) as [st1 x1] eqn:E.
    apply IH in H. subst st1. unfold doc_opt_field in E.
    destruct (split_eq (f_toks f) []) as [[key val]|]; [|discriminate E].
    destruct key as [|k key]; [discriminate E|].
    destruct (doc_option ty nw x (k :: key) val) as [st' x''].
    injection E as E1 _. destruct st, st'; cbn in E1; try discriminate E1; reflexivity.
Qed.

Lemma doc_option_omit nw x key val : doc_option t_omit nw x key val = (MustReject, x).
Proof.
  unfold doc_option. destruct (memb key doc_keys); cbn [negb]; [|reflexivity].
  assert (E : doc_allowed t_omit key = false) by reflexivity. rewrite E. reflexivity.
Qed.

Lemma fold_opt_omit nw opts : forall st x, snd (fold_left (doc_opt_field t_omit nw) opts (st, x)) = x.
Proof.
  induction opts as [|f opts IH]; intros st x; cbn [fold_left]; [reflexivity|].
  unfold doc_opt_field at 2.
  destruct (split_eq (f_toks f) []) as [[key val]|]; [|apply IH].
  destruct key as [|k key]; [apply IH|].
  rewrite doc_option_omit. apply IH.
Qed.

Lemma doc_line_shape sl : d_status (doc_line sl) = MustAccept ->
  exists ft fn opts, sl_fields sl = ft :: fn :: opts
    /\ d_name (doc_line sl) = fvalue (f_toks fn)
    /\ d_wild (doc_line sl) = has_star (f_toks fn)
    /\ doc_name (f_toks fn) = MustAccept
    /\ (d_adding (doc_line sl) = false -> x_source (d_x (doc_line sl)) = []).
Proof.
  unfold doc_line. destruct (sl_fields sl) as [|ft rest]; [discriminate|].
  destruct (plain_of (f_toks ft)) as [ty|]; [|discriminate].
  destruct (negb (memb ty doc_types)); [discriminate|].
  destruct rest as [|fn opts]; [discriminate|].
  destruct (fold_left (doc_opt_field ty (has_star (f_toks fn))) opts (doc_name (f_toks fn), dexp0))
    as [st x] eqn:E.
  cbn [d_status d_name d_wild d_adding d_x]. intros ->.
  exists ft, fn, opts. split; [reflexivity|]. split; [reflexivity|]. split; [reflexivity|].
  split; [eapply fold_opt_accept; exact E|].
  intros Ha. apply negb_false_iff in Ha. apply beq_true in Ha. subst ty.
  pose proof (fold_opt_omit (has_star (f_toks fn)) opts (doc_name (f_toks fn)) dexp0) as Hx.
  rewrite E in Hx. cbn [snd] in Hx. subst x. reflexivity.
Qed.

Lemma accept_entry sl : sline_ok sl = true -> kf_line sl = 0 -> d_status (doc_line sl) = MustAccept ->
  exists e, parse_line (render_line sl) = LRes (d_adding (doc_line sl)) true e
    /\ e_ltype e = d_type (doc_line sl) /\ e_name e = d_name (doc_line sl)
    /\ e_wild e = d_wild (doc_line sl)
    /\ e_source e = x_source (d_x (doc_line sl)) /\ e_target e = x_target (d_x (doc_line sl))
    /\ e_skip e = x_skip (d_x (doc_line sl))
    /\ e_hasdev e = match x_dev (d_x (doc_line sl)) with Some _ => true | None => false end.
Proof.
  intros Hok Hkf Hst. pose proof (line_spec_holds sl Hok Hkf) as H. unfold line_spec in H.
  destruct (parse_line (render_line sl)) as [|adding ok e]; [discriminate H|].
  rewrite Hst in H. apply andb_true_iff in H as [-> H]. unfold entry_means in H.
  set (d := doc_line sl) in *.
  apply andb_true_iff in H as [H Hdev]. apply andb_true_iff in H as [H _].
  apply andb_true_iff in H as [H _]. apply andb_true_iff in H as [H Hsk].
  apply andb_true_iff in H as [H Htg]. apply andb_true_iff in H as [H Hs].
  apply andb_true_iff in H as [H Hw]. apply andb_true_iff in H as [H Hn].
  apply andb_true_iff in H as [Ha Ht].
  apply Bool.eqb_prop in Ha, Hw, Hsk. apply beq_true in Hn, Hs, Htg. apply N.eqb_eq in Ht.
  exists e. subst adding. repeat (split; [assumption || reflexivity|]).
  destruct (x_dev (d_x d)) as [[[ty mj] mn]|]; destruct (e_hasdev e); cbn in Hdev;
    try discriminate Hdev; reflexivity.
Qed.

(* ------------------------------------------------------------------ unescapeAsterisks *)
Lemma unesc_cons c r :
  match r with c2 :: _ => Ascii.eqb c c_bsl && Ascii.eqb c2 c_star = false | [] => True end ->
  unesc_star (c :: r) = c :: unesc_star r.
Proof.
  destruct r as [|a r]; [reflexivity|]. intros H.
  change (unesc_star (c :: a :: r)) with
    (if Ascii.eqb c c_bsl && Ascii.eqb a c_star then c_star :: unesc_star r else c :: unesc_star (a :: r)).
  now rewrite H.
Qed.

Lemma unesc_esc r : unesc_star (c_bsl :: c_star :: r) = c_star :: unesc_star r.
Proof. reflexivity. Qed.

Lemma unesc_nil s : unesc_star s = [] -> s = [].
Proof.
  destruct s as [|c [|a r]]; [reflexivity|discriminate|].
  change (unesc_star (c :: a :: r)) with
    (if Ascii.eqb c c_bsl && Ascii.eqb a c_star then c_star :: unesc_star r else c :: unesc_star (a :: r)).
  destruct (Ascii.eqb c c_bsl && Ascii.eqb a c_star); discriminate.
Qed.

Lemma fvalue_app a b : fvalue (a ++ b) = fvalue a ++ fvalue b.
Proof. apply flat_map_app. Qed.
Lemma fmeant_cons t ts : fmeant (t :: ts) = tok_meant t ++ fmeant ts.
Proof. reflexivity. Qed.

(* the name a line without wildcard means *)
Lemma unesc_fvalue ts : forallb StageDoc.tok_ok ts = true -> has_star ts = false ->
  unesc_star (fvalue ts) = fmeant ts.
Proof.
  induction ts as [|t ts IH]; intros Hok Hs; [reflexivity|].
  cbn [forallb] in Hok. apply andb_true_iff in Hok as [Ht Hok].
  unfold has_star in Hs. cbn [existsb] in Hs. apply orb_false_iff in Hs as [Hs1 Hs].
  fold (has_star ts) in Hs. specialize (IH Hok Hs).
  rewrite fvalue_cons, fmeant_cons. destruct t as [c| |]; [| |discriminate Hs1].
  - cbn [tok_value tok_meant app]. rewrite unesc_cons; [now rewrite IH|].
    destruct ts as [|t2 ts']; [exact I|]. rewrite fvalue_cons.
    destruct t2 as [c2| |]; cbn [tok_value app].
    + cbn [forallb] in Hok. apply andb_true_iff in Hok as [Hc2 _]. unfold StageDoc.tok_ok in Hc2.
      apply andb_true_iff in Hc2 as [_ Hc2]. apply negb_true_iff in Hc2. rewrite Hc2. apply andb_false_r.
    + apply andb_false_r.
    + unfold has_star in Hs. cbn [existsb] in Hs. discriminate Hs.
  - cbn [tok_value tok_meant app]. rewrite unesc_esc. now rewrite IH.
Qed.

Lemma unescape_plain e : e_wild e = false ->
  unescape_asterisks e =
  set_source (set_name (set_target e (unesc_star (e_target e))) (unesc_star (e_name e)) false)
             (unesc_star (e_source e)) false.
Proof. intros H. unfold unescape_asterisks. cbn [e_wild set_target e_name e_source]. rewrite H. reflexivity. Qed.

Lemma unescape_wild e : e_wild e = true -> e_source e = [] ->
  unescape_asterisks e = set_target e (unesc_star (e_target e)).
Proof.
  intros H Hs. unfold unescape_asterisks. cbn [e_wild set_target e_name e_source]. rewrite H, Hs. reflexivity.
Qed.

(* ------------------------------------------------------------------ one name, no wildcard *)
Lemma single_spec t l e (d : dline) n :
  e_name e = n -> e_ltype e = d_type d ->
  (e_target e = [] <-> x_target (d_x d) = []) ->
  e_skip e = x_skip (d_x d) ->
  e_hasdev e = match x_dev (d_x d) with Some _ => true | None => false end ->
  match doc_single t d n with
  | DSAdd => exists ty tg, add_single t l e = AOk (fl_set l (MkL n ty tg))
  | DSSkip => add_single t l e = AOk l
  | DSErr => add_single t l e = AErr
  | DSUnk => True
  end.
Proof.
  intros Hn Hty Htg Hsk Hdev. unfold doc_single.
  destruct (x_source (d_x d)); [|exact I].
  unfold add_single. rewrite Hn, Hty, Hsk, Hdev.
  unfold V_FileType_none, V_FileType_dir, V_FileType_file, V_FileType_symlink, V_FileType_device.
  generalize (d_type d). intros ty.
  assert (Htg' : match e_target e, x_target (d_x d) with [], [] => True | _ :: _, _ :: _ => True | _, _ => False end).
  { destruct (e_target e), (x_target (d_x d)); auto.
    - destruct Htg as [Htg _]. specialize (Htg eq_refl). discriminate Htg.
    - destruct Htg as [_ Htg]. specialize (Htg eq_refl). discriminate Htg. }
  clear Htg Hdev Hsk Hty.
  destruct (lstat t n) as [| |te|]; try exact I.
  - (* absent *)
    destruct (x_skip (d_x d)); [reflexivity|].
    destruct (ty =? 0) eqn:E0; [apply N.eqb_eq in E0; subst ty; reflexivity|].
    destruct (ty =? 1) eqn:E1; [eexists; eexists; reflexivity|].
    destruct (ty =? 2) eqn:E2; [apply N.eqb_eq in E2; subst ty; reflexivity|].
    destruct (ty =? 3) eqn:E3.
    { destruct (e_target e), (x_target (d_x d)); try destruct Htg'; [reflexivity|eexists; eexists; reflexivity]. }
    destruct (ty =? 5) eqn:E5; [|reflexivity].
    destruct (x_dev (d_x d)); [eexists; eexists; reflexivity|reflexivity].
  - (* found *)
    destruct (ty =? 0) eqn:E0; [eexists; eexists; reflexivity|].
    destruct (ty =? 2) eqn:E2.
    { apply N.eqb_eq in E2; subst ty.
      rewrite (N.eqb_sym 2 (te_kind te)).
      destruct (te_kind te =? 2); [|exact I]. eexists; eexists; reflexivity. }
    destruct (ty =? 1) eqn:E1.
    { apply N.eqb_eq in E1; subst ty. destruct (te_kind te =? 1); [|exact I]. eexists; eexists; reflexivity. }
    destruct (ty =? 3) eqn:E3.
    { apply N.eqb_eq in E3; subst ty. rewrite (N.eqb_sym 3 (te_kind te)).
      destruct (e_target e), (x_target (d_x d)); try destruct Htg'; cbn [orb andb].
      - destruct (te_kind te =? 3); [|exact I]. eexists; eexists; reflexivity.
      - eexists; eexists; reflexivity. }
    destruct (ty =? 5) eqn:E5; [|exact I]. apply N.eqb_eq in E5; subst ty.
    destruct (x_dev (d_x d)); [|exact I]. eexists; eexists; reflexivity.
Qed.

(* ------------------------------------------------------------------ the name: directory part and base pattern *)
Lemma has_star_app a b : has_star (a ++ b) = has_star a || has_star b.
Proof. apply existsb_app. Qed.
Lemma has_star_rev a : has_star (rev a) = has_star a.
Proof.
  induction a as [|x a IH]; [reflexivity|]. cbn [rev]. rewrite has_star_app, IH.
  unfold has_star. cbn [existsb]. rewrite orb_false_r. apply orb_comm.
Qed.

Lemma sls_app ts : forall dir cur d b, split_last_slash ts dir cur = (d, b) ->
  d ++ b = rev dir ++ rev cur ++ ts.
Proof.
  induction ts as [|x ts IH]; intros dir cur d b H; cbn [split_last_slash] in H.
  - injection H as <- <-. now rewrite app_nil_r.
  - destruct x as [c| |]; [destruct (Ascii.eqb c c_slash)| |]; apply IH in H; rewrite H;
      cbn [rev app]; rewrite ?rev_app_distr, <- ?app_assoc; reflexivity.
Qed.

Lemma sls_path ts : forall dirT curT accB curB f d b,
  fvalue (rev dirT) = rev accB -> fvalue (rev curT) = rev curB ->
  split_last_slash ts dirT curT = (d, b) ->
  exists f', last_slash_split (fvalue ts) curB accB f = (f', rev (fvalue d), fvalue b).
Proof.
  induction ts as [|x ts IH]; intros dirT curT accB curB f d b Hd Hc H; cbn [split_last_slash] in H.
  - injection H as <- <-. exists f. cbn [fvalue flat_map last_slash_split].
    rewrite Hd, Hc, rev_involutive. reflexivity.
  - rewrite fvalue_cons. destruct x as [c| |]; cbn [tok_value app].
    + cbn [last_slash_split]. change sl with c_slash. destruct (Ascii.eqb c c_slash).
      * eapply IH; [| |exact H].
        -- cbn [rev]. rewrite rev_app_distr, !fvalue_app, Hd, Hc. cbn [fvalue flat_map tok_value app].
           rewrite rev_app_distr, <- app_assoc. reflexivity.
        -- reflexivity.
      * eapply IH; [exact Hd| |exact H].
        cbn [rev]. rewrite fvalue_app, Hc. reflexivity.
    + change (last_slash_split (c_bsl :: c_star :: fvalue ts) curB accB f)
        with (last_slash_split (fvalue ts) (c_star :: c_bsl :: curB) accB f).
      eapply IH; [exact Hd| |exact H].
      cbn [rev]. rewrite fvalue_app, Hc, <- app_assoc. reflexivity.
    + change (last_slash_split (c_star :: fvalue ts) curB accB f)
        with (last_slash_split (fvalue ts) (c_star :: curB) accB f).
      eapply IH; [exact Hd| |exact H].
      cbn [rev]. rewrite fvalue_app, Hc. reflexivity.
Qed.

Lemma pathsplit_fvalue ts d b : split_last_slash ts [] [] = (d, b) ->
  pathsplit (fvalue ts) = (fvalue d, fvalue b).
Proof.
  intros H. unfold pathsplit.
  destruct (sls_path ts [] [] [] [] false d b eq_refl eq_refl H) as (f' & ->).
  now rewrite rev_involutive.
Qed.

Lemma sls_nostar ts : forall dir cur, star_before_slash ts (has_star (cur ++ dir)) = false ->
  has_star dir = false -> has_star (fst (split_last_slash ts dir cur)) = false.
Proof.
  induction ts as [|x ts IH]; intros dir cur H Hd; cbn [split_last_slash star_before_slash] in *.
  - cbn [fst]. now rewrite has_star_rev.
  - destruct x as [c| |].
    + destruct (Ascii.eqb c c_slash).
      * apply orb_false_iff in H as [H1 H2]. apply IH.
        -- cbn [app]. unfold has_star at 1. cbn [existsb orb]. fold (has_star (cur ++ dir)). now rewrite H1 in *.
        -- unfold has_star. cbn [existsb orb]. exact H1.
      * apply IH; [|exact Hd]. exact H.
    + apply IH; [|exact Hd]. exact H.
    + apply IH; [|exact Hd]. exact H.
Qed.

(* ------------------------------------------------------------------ the pattern as filepath.Match reads it *)
Lemma gtokens_esc c2 r :
  gtokens (c_bsl :: c2 :: r) = match gtokens r with GPat p => GPat (GLit c2 :: p) | x => x end.
Proof. reflexivity. Qed.

Lemma gtokens_plain c r : Ascii.eqb c c_bsl = false -> Ascii.eqb c (nb 63) = false ->
  Ascii.eqb c (nb 91) = false ->
  gtokens (c :: r) = match gtokens r with
                     | GPat p => GPat ((if Ascii.eqb c c_star then GStar else GLit c) :: p)
                     | x => x
                     end.
Proof. intros H1 H2 H3. cbn [gtokens]. rewrite H1, H2, H3. reflexivity. Qed.

Lemma tok_plain c : StageDoc.tok_ok (FLit c) = true -> odd_tok (FLit c) = false ->
  Ascii.eqb c c_bsl = false /\ Ascii.eqb c (nb 63) = false /\ Ascii.eqb c (nb 91) = false
  /\ Ascii.eqb c c_star = false.
Proof.
  unfold StageDoc.tok_ok, odd_tok. intros H1 H2. apply andb_true_iff in H1 as [_ H1].
  apply negb_true_iff in H1. apply orb_false_iff in H2 as [H2 H4]. apply orb_false_iff in H2 as [H2 H3].
  auto.
Qed.

Lemma gtokens_dir dts : forallb StageDoc.tok_ok dts = true -> existsb odd_tok dts = false ->
  has_star dts = false ->
  exists p, gtokens (fvalue dts) = GPat p /\ glit p = Some (fmeant dts).
Proof.
  induction dts as [|x ts IH]; intros Hok Hodd Hs.
  - exists []. split; reflexivity.
  - cbn [forallb existsb] in Hok, Hodd. apply andb_true_iff in Hok as [Hx Hok].
    apply orb_false_iff in Hodd as [Hox Hodd]. unfold has_star in Hs. cbn [existsb] in Hs.
    apply orb_false_iff in Hs as [Hsx Hs]. fold (has_star ts) in Hs.
    destruct (IH Hok Hodd Hs) as (p & Hp & Hl). rewrite fvalue_cons, fmeant_cons.
    destruct x as [c| |]; [| |discriminate Hsx]; cbn [tok_value tok_meant app].
    + destruct (tok_plain c Hx Hox) as (H1 & H2 & H3 & H4).
      rewrite gtokens_plain by assumption. rewrite Hp, H4. exists (GLit c :: p).
      split; [reflexivity|]. cbn [glit]. now rewrite Hl.
    + rewrite gtokens_esc, Hp. exists (GLit c_star :: p). split; [reflexivity|]. cbn [glit]. now rewrite Hl.
Qed.

Lemma gtokens_base bts : forallb StageDoc.tok_ok bts = true -> existsb odd_tok bts = false ->
  gtokens (fvalue bts) = GPat (map tok_pat bts).
Proof.
  induction bts as [|x ts IH]; intros Hok Hodd; [reflexivity|].
  cbn [forallb existsb] in Hok, Hodd. apply andb_true_iff in Hok as [Hx Hok].
  apply orb_false_iff in Hodd as [Hox Hodd]. specialize (IH Hok Hodd).
  rewrite fvalue_cons. destruct x as [c| |]; cbn [tok_value app map tok_pat].
  - destruct (tok_plain c Hx Hox) as (H1 & H2 & H3 & H4).
    rewrite gtokens_plain by assumption. now rewrite IH, H4.
  - now rewrite gtokens_esc, IH.
  - rewrite gtokens_plain by reflexivity. now rewrite IH.
Qed.

(* the documented wildcard expansion is what the model of filepath.Glob returns, as a set *)
Lemma glob_doc t ts ms : forallb StageDoc.tok_ok ts = true -> star_before_slash ts false = false ->
  doc_glob t ts = DGOk ms -> exists ms', glob t (fvalue ts) = GOk ms' /\ eqv ms' ms.
Proof.
  intros Hok Hsbs. unfold doc_glob.
  destruct (existsb odd_tok ts) eqn:Eo; [discriminate|].
  destruct (has_dotdot (fvalue ts)) eqn:Ed; [discriminate|].
  destruct (beq (clean (fvalue ts)) (fvalue ts)) eqn:Ec; [|discriminate].
  cbn [orb negb].
  destruct (split_last_slash ts [] []) as [dts bts] eqn:Es. intros H.
  pose proof (sls_app ts [] [] dts bts Es) as Happ. cbn [rev app] in Happ. subst ts.
  pose proof (sls_nostar (dts ++ bts) [] [] Hsbs eq_refl) as Hns. rewrite Es in Hns. cbn [fst] in Hns.
  rewrite forallb_app in Hok. apply andb_true_iff in Hok as [Hokd Hokb].
  rewrite existsb_app in Eo. apply orb_false_iff in Eo as [Eod Eob].
  destruct (gtokens_dir dts Hokd Eod Hns) as (dp & Hdp & Hlit).
  unfold glob. rewrite Ed. apply beq_true in Ec. rewrite Ec.
  rewrite (pathsplit_fvalue _ _ _ Es). rewrite Hdp, (gtokens_base bts Hokb Eob), Hlit.
  destruct bts as [|b0 bts']; [discriminate H|].
  destruct (lstat t (clean (fmeant dts))) as [| |e|]; try discriminate H;
    try (injection H as <-; exists []; split; [reflexivity|intros x; tauto]).
  destruct (te_kind e =? 1).
  - injection H as <-. eexists. split; [reflexivity|]. intros x. apply sort_in.
  - destruct (te_kind e =? 3); [discriminate H|]. injection H as <-.
    exists []. split; [reflexivity|intros x; tauto].
Qed.

Lemma expand_eqv t a b : eqv a b -> eqv (expand t a) (expand t b).
Proof.
  intros H x. unfold expand. rewrite !in_flat_map. split; intros (m & Hm & Hx); exists m;
    (split; [now apply H|exact Hx]).
Qed.

Lemma expand_self t ms m : In m ms -> In m (expand t ms).
Proof. intros H. unfold expand. apply in_flat_map. exists m. split; [exact H|now left]. Qed.

Lemma doc_name_accept ts : doc_name ts = MustAccept -> star_before_slash ts false = false.
Proof.
  unfold doc_name. destruct ts as [|[c| |] r]; try discriminate.
  destruct (Ascii.eqb c c_slash) eqn:Ec; [|discriminate]. destruct r as [|x r]; [discriminate|].
  destruct (star_before_slash (FLit c :: x :: r) false); [discriminate|reflexivity].
Qed.

Local Opaque parse_line doc_line render_line go_trim lstat glob expand clean.

(* ------------------------------------------------------------------ one line of the script *)
Lemma step_spec t st dn sl st1 :
  tree_ok t = true -> sline_ok sl = true ->
  go_trim (render_line sl) = render_line (sline_core sl) ->
  is_comment (render_line (sline_core sl)) = false -> kf_line sl = 0 ->
  eqv (names (rl_list st)) dn ->
  read_line t st (render_line sl) = RLDone st1 ->
  rl_ood st1 = true \/ doc_step t dn sl = DUnk
  \/ (doc_step t dn sl = DErr /\ st1 = MkRL (rl_list st) true (rl_ood st))
  \/ (exists dn1 l1, doc_step t dn sl = DOk dn1 /\ st1 = MkRL l1 (rl_err st) (rl_ood st)
                     /\ eqv (names l1) dn1).
Proof.
  intros Ht Hok Htrim Hcom Hkf Heqv Hrl.
  unfold read_line in Hrl. rewrite Htrim, Hcom in Hrl.
  pose proof (core_ok sl Hok) as Hok'.
  assert (Hkf' : kf_line (sline_core sl) = 0) by now rewrite core_kf.
  unfold doc_step.
  destruct (d_status (doc_line sl)) eqn:Est.
  - (* the manual demands acceptance *)
    assert (Est' : d_status (doc_line (sline_core sl)) = MustAccept) by now rewrite core_doc.
    destruct (accept_entry _ Hok' Hkf' Est') as (e0 & Hp & Hty & Hnm & Hw & Hsrc & Htg & Hsk & Hdev).
    rewrite core_doc in Hp, Hty, Hnm, Hw, Hsrc, Htg, Hsk, Hdev.
    destruct (doc_line_shape sl Est) as (ft & fn & opts & Hf & Hdn & Hdw & Hdname & Homit).
    rewrite Hp in Hrl. rewrite Hf.
    assert (Hfn : forallb StageDoc.tok_ok (f_toks fn) = true).
    { unfold sline_ok in Hok. apply andb_true_iff in Hok as [Hl _]. apply sfields_tok_ok in Hl.
      rewrite Hf in Hl. inversion Hl as [|? ? _ Hl2]. inversion Hl2 as [|? ? Hfn _]. exact Hfn. }
    set (d := doc_line sl) in *. set (ntoks := f_toks fn) in *. set (l := rl_list st) in *.
    rewrite Hdw. destruct (has_star ntoks) eqn:Ehs.
    + (* wildcard *)
      rewrite Hdw in Hw.
      destruct (d_adding d) eqn:Ead.
      * destruct (doc_glob t ntoks) as [|ms] eqn:Eg; [right; left; reflexivity|].
        destruct (glob_doc t ntoks ms Hfn (doc_name_accept _ Hdname) Eg) as (ms' & Hg & Hms).
        destruct (x_source (d_x d)) eqn:Exs; [|right; left; reflexivity].
        destruct ms as [|m0 msr] eqn:Ems; [right; left; reflexivity|]. rewrite <- Ems in *.
        rewrite unescape_wild in Hrl by assumption.
        set (e := set_target e0 (unesc_star (e_target e0))) in Hrl.
        assert (Hge : glob t (e_name e) = GOk ms') by (cbn [e e_name set_target]; now rewrite Hnm, Hdn).
        pose proof (wildcard_add t l e ms' Ht Hw Hsrc Hge) as Hwa. cbn zeta in Hwa.
        assert (Hlt : e_ltype e = d_type d) by exact Hty.
        rewrite Hlt in Hwa. unfold V_FileType_dir in Hwa.
        assert (Hm0 : In m0 ms') by (apply Hms; rewrite Ems; now left).
        destruct Hwa as (l' & Hadd & Hl').
        { intros E. destruct (d_type d =? 1).
          - apply (expand_self t) in Hm0. rewrite E in Hm0. destruct Hm0.
          - rewrite E in Hm0. destruct Hm0. }
        rewrite Hadd in Hrl. injection Hrl as <-. right; right; right.
        eexists; exists l'. split; [reflexivity|]. split; [reflexivity|].
        intros x. rewrite Hl', fold_nadd_in. pose proof (Heqv x) as H1.
        destruct (d_type d =? 1).
        -- pose proof (expand_eqv t _ _ Hms x) as H2. tauto.
        -- pose proof (Hms x) as H2. tauto.
      * (* omit: the members of the list whose name matches *)
        destruct (existsb odd_tok ntoks) eqn:Eodd; [right; left; reflexivity|].
        specialize (Homit eq_refl). rewrite Homit in Hsrc.
        rewrite unescape_wild in Hrl by assumption.
        set (e := set_target e0 (unesc_star (e_target e0))) in Hrl.
        assert (Hge : gtokens (e_name e) = GPat (map tok_pat ntoks)).
        { cbn [e e_name set_target]. rewrite Hnm, Hdn. now apply gtokens_base. }
        destruct (wildcard_omit t l e _ Hw Hge) as (l' & Hrem & Hl').
        rewrite Hrem in Hrl. injection Hrl as <-. right; right; right.
        eexists; exists l'. split; [reflexivity|]. split; [reflexivity|].
        intros x. rewrite Hl', filter_In, negb_true_iff. pose proof (Heqv x) as H1. tauto.
    + (* a single name *)
      rewrite Hdw in Hw.
      rewrite unescape_plain in Hrl by assumption.
      assert (Hname : unesc_star (e_name e0) = fmeant ntoks).
      { rewrite Hnm, Hdn. now apply unesc_fvalue. }
      rewrite Hname in Hrl. set (n := fmeant ntoks) in *.
      destruct (d_adding d) eqn:Ead.
      * destruct (x_source (d_x d)) eqn:Exs.
        2:{ right; left. unfold doc_single. rewrite Exs. reflexivity. }
        rewrite Hsrc in Hrl. change (unesc_star []) with (@nil ascii) in Hrl.
        unfold add_files in Hrl. cbn [e_source set_source e_wild] in Hrl.
        match type of Hrl with context [add_single t l ?ee] => set (e := ee) in Hrl end.
        assert (Hss := single_spec t l e d n eq_refl Hty).
        assert (Htg' : e_target e = [] <-> x_target (d_x d) = []).
        { cbn [e e_target set_source set_name set_target]. rewrite Htg. split.
          - apply unesc_nil.
          - intros ->. reflexivity. }
        specialize (Hss Htg' Hsk Hdev).
        destruct (doc_single t d n) eqn:Eds.
        -- destruct Hss as (ty & tg & Hadd). rewrite Hadd in Hrl. injection Hrl as <-.
           right; right; right. eexists; eexists. split; [reflexivity|]. split; [reflexivity|].
           intros x. rewrite fl_set_names, nadd_in. cbn [l_name]. pose proof (Heqv x). tauto.
        -- rewrite Hss in Hrl. injection Hrl as <-. right; right; right.
           exists dn, l. split; [reflexivity|]. split; [reflexivity|exact Heqv].
        -- rewrite Hss in Hrl. injection Hrl as <-. right; right; left. split; reflexivity.
        -- right; left; reflexivity.
      * unfold remove_files in Hrl. cbn [e_wild set_source e_name set_name] in Hrl.
        destruct (fl_has l n) eqn:Eh.
        -- assert (Hm : nmem n dn = true) by (apply nmem_in, Heqv, fl_has_in; exact Eh).
           rewrite Hm. injection Hrl as <-. right; right; right.
           eexists; eexists. split; [reflexivity|]. split; [reflexivity|].
           intros x. rewrite fl_del_names, ndel_in. pose proof (Heqv x). tauto.
        -- assert (Hm : nmem n dn = false).
           { destruct (nmem n dn) eqn:Em; [|reflexivity]. apply nmem_in, Heqv, fl_has_in in Em. congruence. }
           rewrite Hm. right; left; reflexivity.
  - (* the manual demands an error *)
    pose proof (line_spec_holds _ Hok' Hkf') as Hls. unfold line_spec in Hls. rewrite core_doc, Est in Hls.
    destruct (parse_line (render_line (sline_core sl))) as [|adding ok e]; [discriminate Hls|].
    apply negb_true_iff in Hls. subst ok. injection Hrl as <-. right; right; left. split; reflexivity.
  - right; left; reflexivity.
  - (* unspecified at line level; an accepted wildcard src= entry has a documented effect on the list *)
    unfold doc_src_step.
    destruct (sl_fields sl) as [|f0 [|fn rest]]; try (right; left; reflexivity).
    destruct (doc_name (f_toks fn)); try (right; left; reflexivity).
    destruct (parse_line (render_line (sline_core sl))) as [|adding ok e0]; [right; left; reflexivity|].
    destruct adding; [|right; left; reflexivity]. destruct ok; [|right; left; reflexivity].
    cbv zeta. set (e := unescape_asterisks e0) in *.
    destruct (e_source e) as [|c0 s0] eqn:Es; [right; left; reflexivity|].
    destruct (e_wild e) eqn:Ew; [|right; left; reflexivity].
    unfold add_files in Hrl. rewrite Es, Ew in Hrl.
    unfold doc_src_wild.
    destruct (stageroot_tail (e_source e)) as [tail|] eqn:Et; [|right; left; reflexivity].
    destruct (existsb (fun c => Ascii.eqb c c_bsl) (fst (pathsplit (clean tail)))) eqn:Eb; [right; left; reflexivity|].
    destruct (glob t tail) as [| |ms] eqn:Eg; try (right; left; reflexivity).
    cbv zeta.
    pose proof (wildcard_src t (rl_list st) e tail ms Ht Et Eb Eg) as Hws. cbv zeta in Hws.
    destruct (if e_ltype e =? V_FileType_dir then expand t ms else ms) as [|m0 mr] eqn:Ems;
      [right; left; reflexivity|]. rewrite <- Ems in *.
    destruct Hws as (l' & Hadd & Hl'); [rewrite Ems; discriminate|].
    rewrite Hadd in Hrl. injection Hrl as <-.
    right; right; right. eexists; exists l'. split; [reflexivity|]. split; [reflexivity|].
    intros x. rewrite Hl', fold_nadd_in, in_map_iff. pose proof (Heqv x) as H1.
    split; (intros [H|(m & Ha & Hb)]; [left; tauto|right; exists m; split; auto]).
Qed.

(* ------------------------------------------------------------------ the script *)
Lemma kf_zero sl : (kf_line sl =? 1) = false -> kf_line sl = 0.
Proof. unfold kf_line. destruct (existsb _ (sl_fields sl)); [discriminate|reflexivity]. Qed.

Lemma items_spec t : tree_ok t = true -> forall its st dn st',
  forallb item_ok its = true -> no_kf its = true ->
  eqv (names (rl_list st)) dn ->
  read_lines t st (map item_render its) = RLDone st' -> rl_ood st' = false ->
  doc_items t dn (rl_err st) its = DUnk
  \/ (rl_err st' = true /\ doc_items t dn (rl_err st) its = DErr)
  \/ (rl_err st' = false /\ exists dn', doc_items t dn (rl_err st) its = DOk dn'
                                       /\ eqv (names (rl_list st')) dn').
Proof.
  intros Ht. induction its as [|it r IH]; intros st dn st' Hok Hkf Heqv Hrl Hood.
  - cbn [map read_lines] in Hrl. injection Hrl as <-. cbn [doc_items].
    destruct (rl_err st); [right; left; split; reflexivity|].
    right; right. split; [reflexivity|]. exists dn. split; [reflexivity|exact Heqv].
  - cbn [forallb] in Hok. apply andb_true_iff in Hok as [Hit Hok].
    unfold no_kf in Hkf. cbn [existsb] in Hkf. rewrite negb_orb in Hkf.
    apply andb_true_iff in Hkf as [Hkf1 Hkf]. fold (no_kf r) in Hkf. apply negb_true_iff in Hkf1.
    cbn [map read_lines] in Hrl.
    destruct (read_line t st (item_render it)) as [|st1] eqn:E1; [discriminate Hrl|].
    destruct it as [raw|sl]; cbn [item_render item_ok] in *.
    + unfold read_line in E1. rewrite Hit in E1. injection E1 as <-. cbn [doc_items].
      now apply IH.
    + apply andb_true_iff in Hit as [Hit Hnc]. apply andb_true_iff in Hit as [Hsok Htrim].
      apply beq_true in Htrim. apply negb_true_iff in Hnc. apply kf_zero in Hkf1.
      cbn [doc_items].
      destruct (step_spec t st dn sl st1 Ht Hsok Htrim Hnc Hkf1 Heqv E1)
        as [Ho|[Hu|[(Hd & Hs)|(dn1 & l1 & Hd & Hs & He)]]].
      * pose proof (read_lines_ood t _ _ _ Hrl Ho). congruence.
      * rewrite Hu. now left.
      * rewrite Hd. subst st1.
        apply (IH (MkRL (rl_list st) true (rl_ood st)) dn st' Hok Hkf Heqv Hrl Hood).
      * rewrite Hd. subst st1.
        apply (IH (MkRL l1 (rl_err st) (rl_ood st)) dn1 st' Hok Hkf He Hrl Hood).
Qed.

(* ------------------------------------------------------------------ the package files *)
Definition init_f (t : tree) (acc : dres) (n : bytes) : dres :=
  match acc with
  | DOk l => match lstat t n with
             | LFound _ => DOk (nadd n l)
             | LAbsent => DOk l
             | _ => DUnk
             end
  | x => x
  end.

Lemma doc_init_fold t init : doc_init t init = fold_left (init_f t) init (DOk []).
Proof. reflexivity. Qed.

Lemma init_unk t ns : fold_left (init_f t) ns DUnk = DUnk.
Proof. induction ns as [|n r IH]; [reflexivity|exact IH]. Qed.

Lemma gen_single t l n :
  let e := MkE V_FileType_none n [] [] 0 0 0 0 0 0 0 false false false false false true in
  match lstat t n with
  | LFound _ => exists ty tg, add_single t l e = AOk (fl_set l (MkL n ty tg))
  | LAbsent => add_single t l e = AOk l
  | LNotDir => add_single t l e = AErr
  | LOod => add_single t l e = AOod
  end.
Proof.
  intros e. unfold add_single. cbn [e e_name e_skip e_ltype e_target].
  destruct (lstat t n); try reflexivity. eexists; eexists; reflexivity.
Qed.

Lemma gen_spec t : forall ns st dn, rl_err st = false -> eqv (names (rl_list st)) dn ->
  rl_ood (gen_list t st ns) = false ->
  fold_left (init_f t) ns (DOk dn) = DUnk
  \/ (rl_err (gen_list t st ns) = false
      /\ exists dn', fold_left (init_f t) ns (DOk dn) = DOk dn'
                     /\ eqv (names (rl_list (gen_list t st ns))) dn').
Proof.
  induction ns as [|n r IH]; intros st dn Herr Heqv Hood.
  - right. split; [exact Herr|]. exists dn. split; [reflexivity|exact Heqv].
  - cbn [gen_list fold_left] in *. unfold init_f at 2. unfold init_f at 3.
    pose proof (gen_single t (rl_list st) n) as Hs. cbn zeta in Hs.
    destruct (lstat t n) as [| |te|].
    + rewrite Hs in *. apply IH; assumption.
    + left. apply init_unk.
    + destruct Hs as (ty & tg & Hs). rewrite Hs in *. apply IH; [assumption| |assumption].
      cbn [rl_list]. intros x. rewrite fl_set_names, nadd_in. cbn [l_name]. pose proof (Heqv x). tauto.
    + rewrite Hs in Hood. rewrite gen_list_ood in Hood by reflexivity. discriminate Hood.
Qed.

(* ------------------------------------------------------------------ the property *)
(* the property on one add-files script: on every well-formed build-root listing, for every
   package-file list and every script of structured lines and comments that stays inside the
   modelled domain, the model of the tool ends with exactly the documented set of names, or
   reports an error exactly when the manual demands one *)
Theorem list_spec_holds : forall t init its,
  tree_ok t = true ->
  forallb item_ok its = true ->
  no_kf its = true ->
  snd (run_list t [] init (map item_render its)) = false ->
  list_spec t init its (fst (run_list t [] init (map item_render its))) = true.
Proof.
  intros t init its Ht Hok Hkf Hood.
  pose proof (run_list_no_panic t [] init (map item_render its)) as Hnp.
  unfold run_list in *. set (st0 := gen_list t (MkRL [] false false) init) in *.
  unfold list_spec, doc_run. rewrite doc_init_fold.
  destruct (rl_err st0) eqn:Eerr.
  - cbn [fst snd] in *.
    destruct (gen_spec t init (MkRL [] false false) [] eq_refl (fun x => iff_refl _) Hood)
      as [Hu|(He & _)].
    + rewrite Hu. reflexivity.
    + fold st0 in He. congruence.
  - destruct (read_lines t st0 (map item_render its)) as [|st'] eqn:Er;
      [exfalso; apply Hnp; reflexivity|].
    cbn [fst snd] in *.
    assert (Hood0 : rl_ood st0 = false).
    { destruct (rl_ood st0) eqn:E; [|reflexivity].
      pose proof (read_lines_ood t _ _ _ Er E). congruence. }
    destruct (gen_spec t init (MkRL [] false false) [] eq_refl (fun x => iff_refl _) Hood0)
      as [Hu|(_ & dn0 & Hi & Heq0)].
    + rewrite Hu. destruct (rl_err st'); reflexivity.
    + rewrite Hi. fold st0 in Heq0.
      destruct (items_spec t Ht its st0 dn0 st' Hok Hkf Heq0 Er Hood)
        as [Hu|[(He & Hd)|(He & dn' & Hd & Heq')]]; rewrite Eerr in *.
      * rewrite Hu. destruct (rl_err st'); reflexivity.
      * rewrite He, Hd. reflexivity.
      * rewrite He, Hd. apply same_names_eqv. intros x. fold (names (lsort (rl_list st'))).
        rewrite lsort_names. apply Heq'.
Qed.

Print Assumptions list_spec_holds.
