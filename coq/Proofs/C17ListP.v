From LC Require Import Lib.Bytes Lib.Lex Lib.Fields Lib.PathM Gen.Consts Model.StageLine Model.StageDoc
  Model.StageWild Model.StageWildDoc Proofs.StageFieldsP Proofs.C17LineP Proofs.StageWildP Proofs.C17MiscP.
From Coq Require Import ZifyBool ZifyNat ZifyN.
Open Scope N_scope.
Open Scope list_scope.

(* C17, list level: the model of ReadUserFileList / GenerateFileList (Model/StageWild.v) against the
   documented effect of an add-files script on the set of names (Model/StageWildDoc.v). *)

Definition no_kf (its : list sitem) : bool :=
  negb (existsb (fun it => match it with SLine sl => kf_line sl =? 1 | _ => false end) its).

(* two name lists with the same members *)
Definition eqv (a b : list bytes) : Prop := forall x, In x a <-> In x b.

(* ------------------------------------------------------------------ names as sets *)
Lemma nmem_in n l : nmem n l = true <-> In n l.
Proof.
  unfold nmem. rewrite existsb_exists. split.
  - intros (x & Hx & E). apply beq_true in E. now subst.
  - intros H. exists n. split; [exact H|apply beq_refl].
Qed.

Lemma nadd_in n l x : In x (nadd n l) <-> x = n \/ In x l.
Proof.
  unfold nadd. destruct (nmem n l) eqn:E.
  - apply nmem_in in E. intuition congruence.
  - cbn [In]. intuition congruence.
Qed.

Lemma ndel_in n l x : In x (ndel n l) <-> In x l /\ x <> n.
Proof. unfold ndel. rewrite filter_In, negb_true_iff, beq_false. tauto. Qed.

Lemma fold_nadd_in ms : forall l x,
  In x (fold_left (fun l n => nadd n l) ms l) <-> In x l \/ In x ms.
Proof.
  induction ms as [|m ms IH]; intros l x; cbn [fold_left In].
  - tauto.
  - rewrite IH, nadd_in. intuition congruence.
Qed.

Lemma fold_ndel_in ms : forall l x,
  In x (fold_left (fun l n => ndel n l) ms l) <-> In x l /\ ~ In x ms.
Proof.
  induction ms as [|m ms IH]; intros l x; cbn [fold_left In].
  - tauto.
  - rewrite IH, ndel_in. intuition congruence.
Qed.

Lemma fl_has_in l n : fl_has l n = true <-> In n (names l).
Proof.
  induction l as [|e r IH]; cbn [fl_has names map In].
  - split; [discriminate|tauto].
  - fold (names r). rewrite orb_true_iff, IH, beq_true. tauto.
Qed.

(* ------------------------------------------------------------------ the exported view *)
Lemma linsert_names y l x : In x (names (linsert y l)) <-> x = l_name y \/ In x (names l).
Proof.
  induction l as [|z r IH]; cbn [linsert names map In].
  - intuition congruence.
  - fold (names r). destruct (ltb (l_name z) (l_name y)); cbn [names map In].
    + fold (names (linsert y r)). rewrite IH. intuition congruence.
    + fold (names r). intuition congruence.
Qed.

Lemma lsort_names l x : In x (names (lsort l)) <-> In x (names l).
Proof.
  induction l as [|y r IH]; cbn [lsort fold_right names map In].
  - tauto.
  - fold (lsort r). fold (names r). rewrite linsert_names, IH. intuition congruence.
Qed.

Lemma same_names_eqv a b : eqv a b -> same_names a b = true.
Proof.
  intros H. unfold same_names. apply andb_true_iff. split; apply forallb_forall; intros x Hx;
    apply nmem_in; now apply H.
Qed.

(* ------------------------------------------------------------------ the out-of-domain flag only rises *)
Lemma read_line_ood t st raw st' : read_line t st raw = RLDone st' -> rl_ood st = true -> rl_ood st' = true.
Proof.
  unfold read_line. intros H Ho.
  destruct (is_comment (go_trim raw)); [injection H as <-; exact Ho|].
  destruct (parse_line (go_trim raw)) as [|adding ok e]; [discriminate H|].
  destruct ok; [|injection H as <-; exact Ho].
  destruct (if adding then add_files t (rl_list st) (unescape_asterisks e)
            else remove_files t (rl_list st) (unescape_asterisks e));
    injection H as <-; cbn [rl_ood]; auto.
Qed.

Lemma read_lines_ood t lines : forall st st', read_lines t st lines = RLDone st' ->
  rl_ood st = true -> rl_ood st' = true.
Proof.
  induction lines as [|l r IH]; intros st st' H Ho; cbn [read_lines] in H.
  - injection H as <-. exact Ho.
  - destruct (read_line t st l) as [|st1] eqn:E; [discriminate H|].
    eapply IH; [exact H|]. eapply read_line_ood; eauto.
Qed.

Lemma gen_list_ood t ns : forall st, rl_ood st = true -> rl_ood (gen_list t st ns) = true.
Proof.
  induction ns as [|n r IH]; intros st Ho; cbn [gen_list]; [exact Ho|].
  destruct (add_single t (rl_list st) _); [exact Ho|apply IH; reflexivity|apply IH; exact Ho].
Qed.

(* ------------------------------------------------------------------ a line and its trimmed form *)
Lemma core_ok sl : sline_ok sl = true -> sline_ok (sline_core sl) = true.
Proof.
  unfold sline_ok, sline_core. destruct (sl_fields sl) as [|f r]; [reflexivity|].
  intros H. apply andb_true_iff in H as [H _]. cbn [sfields_ok] in H.
  apply andb_true_iff in H as [Hf Hr].
  cbn [sl_fields sl_trail sfields_ok forallb]. rewrite Hr.
  unfold sfield_ok in *. cbn [f_sep f_toks f_style forallb orb andb].
  apply andb_true_iff in Hf as [Hf H4]. apply andb_true_iff in Hf as [_ H3].
  rewrite H3, H4. reflexivity.
Qed.

Lemma core_kf sl : kf_line (sline_core sl) = kf_line sl.
Proof. unfold kf_line, sline_core. destruct (sl_fields sl) as [|f r]; reflexivity. Qed.

Lemma core_doc sl : doc_line (sline_core sl) = doc_line sl.
Proof. unfold doc_line, sline_core. destruct (sl_fields sl) as [|f r]; reflexivity. Qed.

(* ------------------------------------------------------------------ what an accepted line looks like *)
Lemma fold_opt_accept ty nw opts : forall st x x',
  fold_left (doc_opt_field ty nw) opts (st, x) = (MustAccept, x') -> st = MustAccept.
Proof.
  induction opts as [|f opts IH]; intros st x x' H; cbn [fold_left] in H.
  - now injection H.
  - destruct (doc_opt_field ty nw (st, x) f) as [st1 x1] eqn:E.
    apply IH in H. subst st1. unfold doc_opt_field in E.
    destruct (split_eq (f_toks f) []) as [[key val]|]; [|discriminate E].
    destruct key as [|k key]; [discriminate E|].
    destruct (doc_option ty nw x (k :: key) val) as [st' x''].
    injection E as E1 _. destruct st, st'; cbn in E1; try discriminate E1; reflexivity.
Qed.

Lemma doc_option_omit nw x key val : doc_option t_omit nw x key val = (MustReject, x).
Proof.
  unfold doc_option. destruct (memb key doc_keys); cbn [negb]; [|reflexivity].
  assert (E : doc_allowed t_omit key = false) by reflexivity. rewrite E. reflexivity.
Qed.

Lemma fold_opt_omit nw opts : forall st x, snd (fold_left (doc_opt_field t_omit nw) opts (st, x)) = x.
Proof.
  induction opts as [|f opts IH]; intros st x; cbn [fold_left]; [reflexivity|].
  unfold doc_opt_field at 2.
  destruct (split_eq (f_toks f) []) as [[key val]|]; [|apply IH].
  destruct key as [|k key]; [apply IH|].
  rewrite doc_option_omit. apply IH.
Qed.

Lemma doc_line_shape sl : d_status (doc_line sl) = MustAccept ->
  exists ft fn opts, sl_fields sl = ft :: fn :: opts
    /\ d_name (doc_line sl) = fvalue (f_toks fn)
    /\ d_wild (doc_line sl) = has_star (f_toks fn)
    /\ doc_name (f_toks fn) = MustAccept
    /\ (d_adding (doc_line sl) = false -> x_source (d_x (doc_line sl)) = []).
Proof.
  unfold doc_line. destruct (sl_fields sl) as [|ft rest]; [discriminate|].
  destruct (plain_of (f_toks ft)) as [ty|]; [|discriminate].
  destruct (negb (memb ty doc_types)); [discriminate|].
  destruct rest as [|fn opts]; [discriminate|].
  destruct (fold_left (doc_opt_field ty (has_star (f_toks fn))) opts (doc_name (f_toks fn), dexp0))
    as [st x] eqn:E.
  cbn [d_status d_name d_wild d_adding d_x]. intros ->.
  exists ft, fn, opts. split; [reflexivity|]. split; [reflexivity|]. split; [reflexivity|].
  split; [eapply fold_opt_accept; exact E|].
  intros Ha. apply negb_false_iff in Ha. apply beq_true in Ha. subst ty.
  pose proof (fold_opt_omit (has_star (f_toks fn)) opts (doc_name (f_toks fn)) dexp0) as Hx.
  rewrite E in Hx. cbn [snd] in Hx. subst x. reflexivity.
Qed.

Lemma accept_entry sl : sline_ok sl = true -> kf_line sl = 0 -> d_status (doc_line sl) = MustAccept ->
  exists e, parse_line (render_line sl) = LRes (d_adding (doc_line sl)) true e
    /\ e_ltype e = d_type (doc_line sl) /\ e_name e = d_name (doc_line sl)
    /\ e_wild e = d_wild (doc_line sl)
    /\ e_source e = x_source (d_x (doc_line sl)) /\ e_target e = x_target (d_x (doc_line sl))
    /\ e_skip e = x_skip (d_x (doc_line sl))
    /\ e_hasdev e = match x_dev (d_x (doc_line sl)) with Some _ => true | None => false end.
Proof.
  intros Hok Hkf Hst. pose proof (line_spec_holds sl Hok Hkf) as H. unfold line_spec in H.
  destruct (parse_line (render_line sl)) as [|adding ok e]; [discriminate H|].
  rewrite Hst in H. apply andb_true_iff in H as [-> H]. unfold entry_means in H.
  set (d := doc_line sl) in *.
  apply andb_true_iff in H as [H Hdev]. apply andb_true_iff in H as [H _].
  apply andb_true_iff in H as [H _]. apply andb_true_iff in H as [H Hsk].
  apply andb_true_iff in H as [H Htg]. apply andb_true_iff in H as [H Hs].
  apply andb_true_iff in H as [H Hw]. apply andb_true_iff in H as [H Hn].
  apply andb_true_iff in H as [Ha Ht].
  apply Bool.eqb_prop in Ha, Hw, Hsk. apply beq_true in Hn, Hs, Htg. apply N.eqb_eq in Ht.
  exists e. subst adding. repeat (split; [assumption || reflexivity|]).
  destruct (x_dev (d_x d)) as [[[ty mj] mn]|]; destruct (e_hasdev e); cbn in Hdev;
    try discriminate Hdev; reflexivity.
Qed.

(* ------------------------------------------------------------------ unescapeAsterisks *)
Lemma unesc_cons c r :
  match r with c2 :: _ => Ascii.eqb c c_bsl && Ascii.eqb c2 c_star = false | [] => True end ->
  unesc_star (c :: r) = c :: unesc_star r.
Proof.
  destruct r as [|a r]; [reflexivity|]. intros H.
  change (unesc_star (c :: a :: r)) with
    (if Ascii.eqb c c_bsl && Ascii.eqb a c_star then c_star :: unesc_star r else c :: unesc_star (a :: r)).
  now rewrite H.
Qed.

Lemma unesc_esc r : unesc_star (c_bsl :: c_star :: r) = c_star :: unesc_star r.
Proof. reflexivity. Qed.

Lemma unesc_nil s : unesc_star s = [] -> s = [].
Proof.
  destruct s as [|c [|a r]]; [reflexivity|discriminate|].
  change (unesc_star (c :: a :: r)) with
    (if Ascii.eqb c c_bsl && Ascii.eqb a c_star then c_star :: unesc_star r else c :: unesc_star (a :: r)).
  destruct (Ascii.eqb c c_bsl && Ascii.eqb a c_star); discriminate.
Qed.

Lemma fvalue_app a b : fvalue (a ++ b) = fvalue a ++ fvalue b.
Proof. apply flat_map_app. Qed.
Lemma fmeant_cons t ts : fmeant (t :: ts) = tok_meant t ++ fmeant ts.
Proof. reflexivity. Qed.

(* the name a line without wildcard means *)
Lemma unesc_fvalue ts : forallb StageDoc.tok_ok ts = true -> has_star ts = false ->
  unesc_star (fvalue ts) = fmeant ts.
Proof.
  induction ts as [|t ts IH]; intros Hok Hs; [reflexivity|].
  cbn [forallb] in Hok. apply andb_true_iff in Hok as [Ht Hok].
  unfold has_star in Hs. cbn [existsb] in Hs. apply orb_false_iff in Hs as [Hs1 Hs].
  fold (has_star ts) in Hs. specialize (IH Hok Hs).
  rewrite fvalue_cons, fmeant_cons. destruct t as [c| |]; [| |discriminate Hs1].
  - cbn [tok_value tok_meant app]. rewrite unesc_cons; [now rewrite IH|].
    destruct ts as [|t2 ts']; [exact I|]. rewrite fvalue_cons.
    destruct t2 as [c2| |]; cbn [tok_value app].
    + cbn [forallb] in Hok. apply andb_true_iff in Hok as [Hc2 _]. unfold StageDoc.tok_ok in Hc2.
      apply andb_true_iff in Hc2 as [_ Hc2]. apply negb_true_iff in Hc2. rewrite Hc2. apply andb_false_r.
    + apply andb_false_r.
    + unfold has_star in Hs. cbn [existsb] in Hs. discriminate Hs.
  - cbn [tok_value tok_meant app]. rewrite unesc_esc. now rewrite IH.
Qed.

Lemma unescape_plain e : e_wild e = false ->
  unescape_asterisks e =
  set_source (set_name (set_target e (unesc_star (e_target e))) (unesc_star (e_name e)) false)
             (unesc_star (e_source e)) false.
Proof. intros H. unfold unescape_asterisks. cbn [e_wild set_target e_name e_source]. rewrite H. reflexivity. Qed.

Lemma unescape_wild e : e_wild e = true -> e_source e = [] ->
  unescape_asterisks e = set_target e (unesc_star (e_target e)).
Proof.
  intros H Hs. unfold unescape_asterisks. cbn [e_wild set_target e_name e_source]. rewrite H, Hs. reflexivity.
Qed.

(* ------------------------------------------------------------------ one name, no wildcard *)
Lemma single_spec t l e (d : dline) n :
  e_name e = n -> e_ltype e = d_type d ->
  (e_target e = [] <-> x_target (d_x d) = []) ->
  e_skip e = x_skip (d_x d) ->
  e_hasdev e = match x_dev (d_x d) with Some _ => true | None => false end ->
  match doc_single t d n with
  | DSAdd => exists ty tg, add_single t l e = AOk (fl_set l (MkL n ty tg))
  | DSSkip => add_single t l e = AOk l
  | DSErr => add_single t l e = AErr
  | DSUnk => True
  end.
Proof.
  intros Hn Hty Htg Hsk Hdev. unfold doc_single.
  destruct (x_source (d_x d)); [|exact I].
  unfold add_single. rewrite Hn, Hty, Hsk, Hdev.
  unfold V_FileType_none, V_FileType_dir, V_FileType_file, V_FileType_symlink, V_FileType_device.
  generalize (d_type d). intros ty.
  assert (Htg' : match e_target e, x_target (d_x d) with [], [] => True | _ :: _, _ :: _ => True | _, _ => False end).
  { destruct (e_target e), (x_target (d_x d)); auto.
    - destruct Htg as [Htg _]. specialize (Htg eq_refl). discriminate Htg.
    - destruct Htg as [_ Htg]. specialize (Htg eq_refl). discriminate Htg. }
  clear Htg Hdev Hsk Hty.
  destruct (lstat t n) as [| |te|]; try exact I.
  - (* absent *)
    destruct (x_skip (d_x d)); [reflexivity|].
    destruct (ty =? 0) eqn:E0; [apply N.eqb_eq in E0; subst ty; reflexivity|].
    destruct (ty =? 1) eqn:E1; [eexists; eexists; reflexivity|].
    destruct (ty =? 2) eqn:E2; [apply N.eqb_eq in E2; subst ty; reflexivity|].
    destruct (ty =? 3) eqn:E3.
    { destruct (e_target e), (x_target (d_x d)); try destruct Htg'; [reflexivity|eexists; eexists; reflexivity]. }
    destruct (ty =? 5) eqn:E5; [|reflexivity].
    destruct (x_dev (d_x d)); [eexists; eexists; reflexivity|reflexivity].
  - (* found *)
    destruct (ty =? 0) eqn:E0; [eexists; eexists; reflexivity|].
    destruct (ty =? 2) eqn:E2.
    { apply N.eqb_eq in E2; subst ty. cbn [N.eqb Pos.eqb]. Show.
      rewrite (N.eqb_sym 2 (te_kind te)).
      destruct (te_kind te =? 2); [|exact I]. cbn [negb andb]. eexists; eexists; reflexivity. }
    destruct (ty =? 1) eqn:E1.
    { destruct (te_kind te =? 1); [|exact I]. cbn [negb andb]. eexists; eexists; reflexivity. }
    destruct (ty =? 3) eqn:E3.
    { apply N.eqb_eq in E3; subst ty. rewrite (N.eqb_sym 3 (te_kind te)).
      destruct (e_target e), (x_target (d_x d)); try destruct Htg'; cbn [orb andb].
      - destruct (te_kind te =? 3); [|exact I]. cbn [negb]. eexists; eexists; reflexivity.
      - eexists; eexists; reflexivity. }
    destruct (ty =? 5) eqn:E5; [|exact I].
    destruct (x_dev (d_x d)); [|exact I]. cbn [negb andb]. eexists; eexists; reflexivity.
Qed.
