(* C17: small facts that need no induction over the grammar: the list level never panics,
   the built-in scripts are accepted, the witness of known finding 1. *)
From LC Require Import Lib.Bytes Lib.Fields Lib.PathM Gen.Consts Model.StageLine Model.StageDoc
  Model.StageWild Proofs.StageFieldsP.
Open Scope N_scope.

Lemma read_line_no_panic t st raw : read_line t st raw <> RLPanic.
Proof.
  unfold read_line. destruct (is_comment (go_trim raw)); [discriminate|].
  pose proof (parse_line_total (go_trim raw)) as Hp.
  destruct (parse_line (go_trim raw)) as [|adding ok e]; [congruence|].
  destruct ok; [|discriminate].
  destruct (if adding then add_files t (rl_list st) (unescape_asterisks e)
            else remove_files t (rl_list st) (unescape_asterisks e)); discriminate.
Qed.

Lemma read_lines_no_panic t lines : forall st, read_lines t st lines <> RLPanic.
Proof.
  induction lines as [|l r IH]; intros st; cbn [read_lines]; [discriminate|].
  pose proof (read_line_no_panic t st l) as H.
  destruct (read_line t st l) as [|st']; [congruence|apply IH].
Qed.

Theorem run_list_no_panic : forall t pre init lines, fst (run_list t pre init lines) <> LsPanic.
Proof.
  intros t pre init lines. unfold run_list.
  destruct (rl_err (gen_list t (MkRL pre false false) init)); [cbn; discriminate|].
  pose proof (read_lines_no_panic t lines (gen_list t (MkRL pre false false) init)) as H.
  destruct (read_lines t (gen_list t (MkRL pre false false) init) lines) as [|st]; [congruence|].
  cbn [fst]. destruct (rl_err st); discriminate.
Qed.

Theorem run_proc_no_panic : forall t pre lines, fst (run_proc t pre lines) <> LsPanic.
Proof.
  intros t pre lines. unfold run_proc.
  pose proof (read_lines_no_panic t lines (MkRL pre false false)) as H.
  destruct (read_lines t (MkRL pre false false) lines) as [|st]; [congruence|].
  destruct (rl_err st); [cbn; discriminate|].
  destruct (add_missing_dirs t (rl_list st)); cbn; discriminate.
Qed.

(* the scripts compiled into stagemaker (regenerated from package defaults on every run) *)
Definition line_accepted (raw : bytes) : bool :=
  let t := go_trim raw in
  is_comment t || match parse_line t with LRes _ true _ => true | _ => false end.
Definition builtin_lines : list bytes :=
  split (nb 10) D_StageMagic ++ split (nb 10) D_StandardStageDirs ++ split (nb 10) D_DevDirSetup.

Theorem builtin_scripts_accepted : forallb line_accepted builtin_lines = true.
Proof. vm_compute. reflexivity. Qed.

(* known finding 1: the line  file /a\\*  (a literal backslash, then a wildcard) *)
Definition kf1_witness : sline :=
  MkSL [MkF [] QBare [FLit (nb 102); FLit (nb 105); FLit (nb 108); FLit (nb 101)];
        MkF [c_sp] QBare [FLit c_slash; FLit (nb 97); FLit c_bsl; FStar]] [].

Theorem refuted_1 : exists sl, sline_ok sl = true /\ kf_line sl = 1 /\
  line_spec sl (parse_line (render_line sl)) = false.
Proof. exists kf1_witness. vm_compute. repeat split; reflexivity. Qed.
