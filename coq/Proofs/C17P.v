(* C17: the per-case statement, assembled from the per-kind theorems. *)
From LC Require Import Lib.Bytes Lib.Lex Lib.Fields Lib.PathM Gen.Consts Model.StageLine Model.StageDoc
  Model.StageWild Model.StageWildDoc Model.Recipe Model.RecipeDoc Model.Compress
  Proofs.StageFieldsP Proofs.StageModeP Proofs.C17LineP Proofs.StageWildP Proofs.C17MiscP
  Proofs.C17RecipeP Proofs.CompressP Proofs.C17ListP Cases.C17.
Import C17.
Open Scope N_scope.

Lemma lines_eq {A} (f : A -> bytes) its lines :
  list_beq beq (map f its) lines = true -> lines = map f its.
Proof. intros H. apply (list_beq_true beq beq_true) in H. now symmetry. Qed.

Theorem C17_holds_proof : forall c, wf c = true -> kf c = 0 -> spec c (model c) = true.
Proof.
  intros [inp o] Hwf Hkf. unfold wf, kf, spec, model in *. cbn [c_in c_obs] in *.
  destruct inp as [sl line|s|t init items lines|t pre lines|env cmd items lines|sw out recipe].
  - (* one line *)
    destruct sl as [sl|].
    + destruct o; try discriminate. apply andb_true_iff in Hwf as [Hok Hr]. apply beq_true in Hr. subst line.
      rewrite (line_spec_holds sl Hok Hkf). cbn. apply orb_true_r.
    + pose proof (parse_line_total line) as Hp.
      destruct (parse_line line) as [|a k e]; [congruence|]. cbn. apply orb_true_r.
  - (* one mode string *)
    destruct (parse_mod s) as [[a om]|] eqn:E.
    + now apply perm_is_chmod_ok.
    + destruct (simple_mode s) eqn:Es; [|reflexivity].
      exfalso. now apply (simple_mode_accepted s Es).
  - (* a script on a build root *)
    destruct o; try discriminate.
    destruct items as [its|].
    + repeat match goal with H : _ && _ = true |- _ => apply andb_true_iff in H as [? ?] end.
      match goal with H : list_beq beq _ _ = true |- _ => apply lines_eq in H; subst lines end.
      assert (Hnk : no_kf its = true).
      { unfold no_kf. destruct (existsb _ its); [discriminate|reflexivity]. }
      match goal with H : negb (snd _) = true |- _ => apply negb_true_iff in H; rename H into Hood end.
      rewrite (list_spec_holds t init its) by assumption. cbn. apply orb_true_r.
    + pose proof (run_list_no_panic t [] init lines) as Hp.
      destruct (fst (run_list t [] init lines)); [congruence|reflexivity|reflexivity].
  - (* the binary on an add-files script *)
    pose proof (run_proc_no_panic t (pre_list pre) lines) as Hp.
    destruct (fst (run_proc t (pre_list pre) lines)); [congruence|reflexivity|reflexivity].
  - (* a recipe file *)
    destruct o; try discriminate.
    destruct items as [its|].
    + repeat match goal with H : _ && _ = true |- _ => apply andb_true_iff in H as [? ?] end.
      match goal with H : list_beq beq _ _ = true |- _ => apply lines_eq in H; subst lines end.
      pose proof (recipe_spec_holds env cmd its) as Hs.
      destruct (list_system env cmd (map ritem_render its)); cbn [recipe_obs recipe_res N.eqb];
        cbn; apply Hs; assumption.
    + destruct (list_system env cmd lines); reflexivity.
  - (* the compression method *)
    pose proof (gen_spec_holds sw out recipe) as Hs.
    destruct (gen_method sw out recipe) as [m|]; cbn; exact Hs.
Qed.
