(* C17 -- constants of Gen/Consts.v (rewritten from the source of /repo by tools/genconsts on
   every run) compared with literals.  Used by: the documented method choice Compress.doc_gen (C17.spec) reads the extension table; C17.wf and Model/StageLine.v / StageWild.v use the chmod masks and the vdb type codes.
   A changed constant makes this file fail to build; the check then reports
   "proof obligation no longer checks" for Properties/C17.v (C17_constants_pinned) instead of
   letting model, predicate and code move together unnoticed. *)
From LC Require Import Lib.Bytes Gen.Consts.
Local Open Scope string_scope.

Lemma c17_constants_pinned :
  (* frozen from the reviewed tree (the manual: "the filename extension determines the file-compression mode", no list) *)
  D_GzipExtensions = bs ".tar.gz .tgz" /\
  (* frozen from the reviewed tree *)
  D_BzipExtensions = bs ".tar.bz2 .tbz2" /\
  (* frozen from the reviewed tree -- NO leading dot and no .txz, unlike the two rows above: see NOTES-r5.md "XzExtensions" (out.txz is not recognised, outtar.xz is) *)
  D_XzExtensions = bs "tar.xz" /\
  (* frozen from the reviewed tree *)
  D_NoCompressExtension = bs ".tar" /\
  (* chmod(1): u = 04700, g = 02070, o = 01007, a = 07777 (keys are the bytes u g o a) *)
  S_groupMasks = [(117, 2496); (103, 1080); (111, 519); (97, 4095)]%N /\
  (* chmod(1): r = 0444, w = 0222, x = 0111, s = 06000, t = 01000 *)
  S_settingMasks = [(114, 292); (119, 146); (120, 73); (115, 3072); (116, 512)]%N /\
  (* 07777 *)
  V_PermBits = 4095%N /\
  (* frozen from the reviewed tree (portage/vdb/contents.go iota block) *)
  V_FileType_none = 0%N /\
  (* frozen from the reviewed tree *)
  V_FileType_dir = 1%N /\
  (* frozen from the reviewed tree *)
  V_FileType_file = 2%N /\
  (* frozen from the reviewed tree *)
  V_FileType_symlink = 3%N /\
  (* frozen from the reviewed tree *)
  V_FileType_hardlink = 4%N /\
  (* frozen from the reviewed tree *)
  V_FileType_device = 5%N.
Proof. repeat split; vm_compute; reflexivity. Qed.
