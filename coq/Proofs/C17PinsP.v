(* C17 -- constants of Gen/Consts.v (rewritten from the source of /repo by tools/genconsts on
   every run) compared with literals, one lemma per constant so that the failing line names it.
   Used by: the documented method choice Compress.doc_gen (C17.spec) reads the extension table; C17.wf and Model/StageLine.v / StageWild.v use the chmod masks and the vdb type codes.
   A changed constant makes this file fail to build; the check then reports
   "proof obligation no longer checks" for Properties/C17.v (C17_constants_pinned) instead of
   letting model, predicate and code move together unnoticed.  The literals are repeated, with
   their sources, in the statement of C17_constants_pinned. *)
From LC Require Import Lib.Bytes Gen.Consts.
Local Open Scope string_scope.

Lemma pin_D_GzipExtensions :
  D_GzipExtensions = bs ".tar.gz .tgz".
Proof. (vm_compute; reflexivity) || fail "D_GzipExtensions of the source tree differs from the reviewed literal (C17_constants_pinned)". Qed.

Lemma pin_D_BzipExtensions :
  D_BzipExtensions = bs ".tar.bz2 .tbz2".
Proof. (vm_compute; reflexivity) || fail "D_BzipExtensions of the source tree differs from the reviewed literal (C17_constants_pinned)". Qed.

Lemma pin_D_XzExtensions :
  D_XzExtensions = bs "tar.xz".
Proof. (vm_compute; reflexivity) || fail "D_XzExtensions of the source tree differs from the reviewed literal (C17_constants_pinned)". Qed.

Lemma pin_D_NoCompressExtension :
  D_NoCompressExtension = bs ".tar".
Proof. (vm_compute; reflexivity) || fail "D_NoCompressExtension of the source tree differs from the reviewed literal (C17_constants_pinned)". Qed.

Lemma pin_S_groupMasks :
  S_groupMasks = [(117, 2496); (103, 1080); (111, 519); (97, 4095)]%N.
Proof. (vm_compute; reflexivity) || fail "S_groupMasks of the source tree differs from the reviewed literal (C17_constants_pinned)". Qed.

Lemma pin_S_settingMasks :
  S_settingMasks = [(114, 292); (119, 146); (120, 73); (115, 3072); (116, 512)]%N.
Proof. (vm_compute; reflexivity) || fail "S_settingMasks of the source tree differs from the reviewed literal (C17_constants_pinned)". Qed.

Lemma pin_V_PermBits :
  V_PermBits = 4095%N.
Proof. (vm_compute; reflexivity) || fail "V_PermBits of the source tree differs from the reviewed literal (C17_constants_pinned)". Qed.

Lemma pin_V_FileType_none :
  V_FileType_none = 0%N.
Proof. (vm_compute; reflexivity) || fail "V_FileType_none of the source tree differs from the reviewed literal (C17_constants_pinned)". Qed.

Lemma pin_V_FileType_dir :
  V_FileType_dir = 1%N.
Proof. (vm_compute; reflexivity) || fail "V_FileType_dir of the source tree differs from the reviewed literal (C17_constants_pinned)". Qed.

Lemma pin_V_FileType_file :
  V_FileType_file = 2%N.
Proof. (vm_compute; reflexivity) || fail "V_FileType_file of the source tree differs from the reviewed literal (C17_constants_pinned)". Qed.

Lemma pin_V_FileType_symlink :
  V_FileType_symlink = 3%N.
Proof. (vm_compute; reflexivity) || fail "V_FileType_symlink of the source tree differs from the reviewed literal (C17_constants_pinned)". Qed.

Lemma pin_V_FileType_hardlink :
  V_FileType_hardlink = 4%N.
Proof. (vm_compute; reflexivity) || fail "V_FileType_hardlink of the source tree differs from the reviewed literal (C17_constants_pinned)". Qed.

Lemma pin_V_FileType_device :
  V_FileType_device = 5%N.
Proof. (vm_compute; reflexivity) || fail "V_FileType_device of the source tree differs from the reviewed literal (C17_constants_pinned)". Qed.

Definition c17_constants_pinned := conj pin_D_GzipExtensions (conj pin_D_BzipExtensions (conj pin_D_XzExtensions (conj pin_D_NoCompressExtension (conj pin_S_groupMasks (conj pin_S_settingMasks (conj pin_V_PermBits (conj pin_V_FileType_none (conj pin_V_FileType_dir (conj pin_V_FileType_file (conj pin_V_FileType_symlink (conj pin_V_FileType_hardlink pin_V_FileType_device))))))))))).
