From LC Require Import Lib.Bytes Lib.Fields Lib.PathM Model.StageLine Model.StageWild Model.Recipe Model.RecipeDoc.
From Coq Require Import ZifyBool ZifyNat ZifyN.
Open Scope N_scope.
Open Scope list_scope.
From Coq Require Import Permutation.

(* Proofs about the recipe reader (Model/Recipe.v) against the documented meaning of a
   recipe file (Model/RecipeDoc.v). *)

(* ------------------------------------------------------------------ membership, duplicates *)
Lemma memb_In x l : memb x l = true <-> In x l.
Proof.
  unfold memb. rewrite existsb_exists. split.
  - intros (y & Hy & E). apply beq_true in E. now subst.
  - intros H. exists x. split; [exact H|apply beq_refl].
Qed.

Lemma memb_false x l : memb x l = false <-> ~ In x l.
Proof.
  split.
  - intros H Hin. apply memb_In in Hin. congruence.
  - intros H. destruct (memb x l) eqn:E; [|reflexivity]. apply memb_In in E. contradiction.
Qed.

Lemma nodupb_NoDup l : nodupb l = true <-> NoDup l.
Proof.
  induction l as [|x r IH]; cbn [nodupb].
  - split; [constructor|reflexivity].
  - rewrite andb_true_iff, negb_true_iff, memb_false, IH. split.
    + intros [Hx Hr]. now constructor.
    + intros H. inversion H; subst. now split.
Qed.

(* ------------------------------------------------------------------ bytes without a lead byte of a Unicode space *)
Definition NU (s : bytes) : Prop := forall c, In c s -> uni_lead c = false.

Lemma no_uni_NU s : no_uni s = true <-> NU s.
Proof.
  unfold no_uni, NU. rewrite negb_true_iff. split.
  - intros H c Hc. destruct (uni_lead c) eqn:E; [|reflexivity].
    assert (X : existsb uni_lead s = true) by (apply existsb_exists; now exists c). congruence.
  - intros H. destruct (existsb uni_lead s) eqn:E; [|reflexivity].
    apply existsb_exists in E as (c & Hc & Ec). rewrite (H c Hc) in Ec. discriminate.
Qed.

Lemma NU_nil : NU [].
Proof. intros c []. Qed.
Lemma NU_app a b : NU (a ++ b) <-> NU a /\ NU b.
Proof.
  unfold NU. split.
  - intros H. split; intros c Hc; apply H, in_or_app; auto.
  - intros [Ha Hb] c Hc. apply in_app_or in Hc as [Hc|Hc]; auto.
Qed.
Lemma NU_rev a : NU a -> NU (rev a).
Proof. intros H c Hc. apply H. now apply in_rev. Qed.
Lemma NU_tail c s : NU (c :: s) -> NU s.
Proof. intros H x Hx. apply H. now right. Qed.

Lemma blank_cases c : is_blank c = true -> c = c_sp \/ c = c_tab.
Proof.
  unfold is_blank. intros H. apply orb_true_iff in H as [H|H]; apply Ascii.eqb_eq in H; auto.
Qed.
Lemma blank_sp c : is_blank c = true -> is_sp c = true.
Proof. intros H. apply blank_cases in H as [->| ->]; reflexivity. Qed.
Lemma blank_nouni c : is_blank c = true -> uni_lead c = false.
Proof. intros H. apply blank_cases in H as [->| ->]; reflexivity. Qed.
Lemma blanks_sp b : forallb is_blank b = true -> forallb is_sp b = true.
Proof.
  intros H. apply forallb_forall. intros c Hc. apply blank_sp. revert c Hc. now apply forallb_forall.
Qed.
Lemma blanks_NU b : forallb is_blank b = true -> NU b.
Proof. intros H c Hc. apply blank_nouni. revert c Hc. now apply forallb_forall. Qed.

(* every pattern of the Unicode spaces, and every reversed pattern, has a lead byte *)
Definition pats_ok (ps : list bytes) : bool := forallb (existsb uni_lead) ps.

Lemma strip_none ps : pats_ok ps = true -> forall s, NU s -> strip_one_prefix ps s = None.
Proof.
  induction ps as [|p r IH]; intros Hp s Hs; cbn [strip_one_prefix]; [reflexivity|].
  cbn [pats_ok forallb] in Hp. apply andb_true_iff in Hp as [Hp1 Hp2].
  destruct (prefixb p s) eqn:E.
  - exfalso. apply prefixb_spec in E as [t ->]. apply existsb_exists in Hp1 as (c & Hc & Ec).
    rewrite (Hs c) in Ec; [discriminate|]. apply in_or_app. now left.
  - now apply IH.
Qed.
Lemma pats_uni : pats_ok uni_spaces = true.
Proof. vm_compute. reflexivity. Qed.
Lemma pats_uni_rev : pats_ok (map (@rev ascii) uni_spaces) = true.
Proof. vm_compute. reflexivity. Qed.

(* without such bytes strings.TrimSpace only drops ASCII white space *)
Lemma trim_left_fuel_nouni : forall fuel s, NU s -> (length s <= fuel)%nat ->
  trim_left_fuel fuel s = drop_sp s.
Proof.
  induction fuel as [|f IH]; intros s Hs Hl.
  - destruct s as [|c r]; [reflexivity|cbn [length] in Hl; lia].
  - destruct s as [|c r]; [reflexivity|]. cbn [length] in Hl. cbn [trim_left_fuel drop_sp].
    destruct (is_sp c) eqn:Ec.
    + apply IH; [now apply NU_tail in Hs|lia].
    + now rewrite (strip_none _ pats_uni _ Hs).
Qed.
Lemma trim_left_rev_fuel_nouni : forall fuel s, NU s -> (length s <= fuel)%nat ->
  trim_left_rev_fuel fuel s = drop_sp s.
Proof.
  induction fuel as [|f IH]; intros s Hs Hl.
  - destruct s as [|c r]; [reflexivity|cbn [length] in Hl; lia].
  - destruct s as [|c r]; [reflexivity|]. cbn [length] in Hl. cbn [trim_left_rev_fuel drop_sp].
    destruct (is_sp c) eqn:Ec.
    + apply IH; [now apply NU_tail in Hs|lia].
    + now rewrite (strip_none _ pats_uni_rev _ Hs).
Qed.

Lemma drop_sp_NU s : NU s -> NU (drop_sp s).
Proof.
  induction s as [|c r IH]; intros H; cbn [drop_sp]; [exact H|].
  destruct (is_sp c); [apply IH; now apply NU_tail in H|exact H].
Qed.

Lemma go_trim_nouni s : NU s -> go_trim s = trim s.
Proof.
  intros Hs. unfold go_trim, trim, trim_left.
  rewrite (trim_left_fuel_nouni _ _ Hs (le_n _)).
  rewrite trim_left_rev_fuel_nouni; [reflexivity| |rewrite rev_length; apply le_n].
  apply NU_rev, drop_sp_NU, Hs.
Qed.

(* ------------------------------------------------------------------ trim on  blanks ++ core ++ blanks *)
Definition hd_ok (s : bytes) : bool := match s with [] => true | c :: _ => negb (is_sp c) end.

Lemma drop_sp_seps b : forallb is_sp b = true -> forall s, drop_sp (b ++ s) = drop_sp s.
Proof.
  induction b as [|c r IH]; intros H s; [reflexivity|].
  cbn [forallb] in H. apply andb_true_iff in H as [Hc Hr].
  cbn [app drop_sp]. rewrite Hc. now apply IH.
Qed.
Lemma drop_sp_hd s : hd_ok s = true -> drop_sp s = s.
Proof.
  destruct s as [|c r]; [reflexivity|]. cbn [hd_ok drop_sp]. intros H.
  apply negb_true_iff in H. now rewrite H.
Qed.
Lemma hd_ok_app a b : a <> [] -> hd_ok a = true -> hd_ok (a ++ b) = true.
Proof. destruct a as [|c r]; [congruence|]. intros _ H. exact H. Qed.

Lemma trim_core b1 core b2 : forallb is_sp b1 = true -> forallb is_sp b2 = true ->
  hd_ok core = true -> hd_ok (rev core) = true -> trim (b1 ++ core ++ b2) = core.
Proof.
  intros H1 H2 Hh Hl. unfold trim. rewrite (drop_sp_seps _ H1).
  destruct core as [|c r].
  - cbn [app]. rewrite <- (app_nil_r b2), (drop_sp_seps _ H2). reflexivity.
  - rewrite (drop_sp_hd ((c :: r) ++ b2)) by (apply hd_ok_app; [discriminate|exact Hh]).
    rewrite rev_app_distr. rewrite drop_sp_seps.
    + rewrite (drop_sp_hd _ Hl). apply rev_involutive.
    + apply forallb_forall. intros x Hx. apply in_rev in Hx. revert x Hx. now apply forallb_forall.
Qed.

(* ------------------------------------------------------------------ strings.TrimSpace around a core that may hold Unicode spaces INSIDE *)
(* every pattern of the Unicode spaces starts with a lead byte; no pattern holds an ASCII space *)
Definition heads_lead (ps : list bytes) : bool :=
  forallb (fun p => match p with c :: _ => uni_lead c | [] => false end) ps.
Definition no_sp_in (ps : list bytes) : bool := forallb (forallb (fun c => negb (is_sp c))) ps.
Lemma heads_uni : heads_lead uni_spaces = true.
Proof. vm_compute. reflexivity. Qed.
Lemma nosp_uni : no_sp_in uni_spaces = true.
Proof. vm_compute. reflexivity. Qed.
Lemma nosp_uni_rev : no_sp_in (map (@rev ascii) uni_spaces) = true.
Proof. vm_compute. reflexivity. Qed.

Lemma strip_none_hd ps : heads_lead ps = true -> forall c s, uni_lead c = false ->
  strip_one_prefix ps (c :: s) = None.
Proof.
  induction ps as [|p r IH]; intros Hp c s Hc; cbn [strip_one_prefix]; [reflexivity|].
  cbn [heads_lead forallb] in Hp. apply andb_true_iff in Hp as [Hp1 Hp2].
  destruct (prefixb p (c :: s)) eqn:E.
  - exfalso. destruct p as [|x p']; [discriminate|]. cbn [prefixb] in E.
    apply andb_true_iff in E as [E _]. apply Ascii.eqb_eq in E. subst x. congruence.
  - now apply IH.
Qed.

(* no pattern matches at the start of a: then none matches when white space (or nothing) follows a *)
Lemma strip_ext ps : no_sp_in ps = true -> forall a b,
  strip_one_prefix ps a = None -> (b = [] \/ hd_ok b = false) ->
  strip_one_prefix ps (a ++ b) = None.
Proof.
  induction ps as [|p r IH]; intros Hp a b Ha Hb; cbn [strip_one_prefix] in *; [reflexivity|].
  cbn [no_sp_in forallb] in Hp. apply andb_true_iff in Hp as [Hp1 Hp2].
  destruct (prefixb p a) eqn:Ea; [discriminate|].
  destruct (prefixb p (a ++ b)) eqn:E.
  - exfalso. apply prefixb_spec in E as [t E].
    apply app_eq_app in E as [l [[Hal Hl]|[Hpl Hl]]].
    + assert (X : prefixb p a = true) by (apply prefixb_spec; now exists l). congruence.
    + destruct l as [|x l'].
      * rewrite app_nil_r in Hpl. subst p.
        assert (X : prefixb a a = true) by (apply prefixb_spec; exists []; now rewrite app_nil_r). congruence.
      * destruct Hb as [Hb|Hb]; [subst b; discriminate|]. subst b p. cbn [app hd_ok] in Hb.
        apply negb_false_iff in Hb.
        rewrite forallb_app in Hp1. apply andb_true_iff in Hp1 as [_ Hp1]. cbn [forallb] in Hp1.
        apply andb_true_iff in Hp1 as [Hx _]. rewrite Hb in Hx. discriminate.
  - now apply IH.
Qed.

Lemma tlf_core : forall b fuel s, forallb is_sp b = true -> (length (b ++ s) <= fuel)%nat ->
  hd_ok s = true -> strip_one_prefix uni_spaces s = None ->
  trim_left_fuel fuel (b ++ s) = s.
Proof.
  induction b as [|x b IH]; intros fuel s Hb Hl Hh Hs.
  - cbn [app] in *. destruct s as [|c r]; [destruct fuel; reflexivity|].
    destruct fuel as [|f]; [cbn [length] in Hl; lia|]. cbn [trim_left_fuel].
    cbn [hd_ok] in Hh. apply negb_true_iff in Hh. now rewrite Hh, Hs.
  - cbn [forallb] in Hb. apply andb_true_iff in Hb as [Hx Hb].
    cbn [app length] in Hl. destruct fuel as [|f]; [lia|]. cbn [app trim_left_fuel]. rewrite Hx.
    apply IH; auto. lia.
Qed.
Lemma tlrf_core : forall b fuel s, forallb is_sp b = true -> (length (b ++ s) <= fuel)%nat ->
  hd_ok s = true -> strip_one_prefix (map (@rev ascii) uni_spaces) s = None ->
  trim_left_rev_fuel fuel (b ++ s) = s.
Proof.
  induction b as [|x b IH]; intros fuel s Hb Hl Hh Hs.
  - cbn [app] in *. destruct s as [|c r]; [destruct fuel; reflexivity|].
    destruct fuel as [|f]; [cbn [length] in Hl; lia|]. cbn [trim_left_rev_fuel].
    cbn [hd_ok] in Hh. apply negb_true_iff in Hh. now rewrite Hh, Hs.
  - cbn [forallb] in Hb. apply andb_true_iff in Hb as [Hx Hb].
    cbn [app length] in Hl. destruct fuel as [|f]; [lia|]. cbn [app trim_left_rev_fuel]. rewrite Hx.
    apply IH; auto. lia.
Qed.

(* TrimSpace takes the white space around a core off and nothing else, when the core neither
   starts nor ends with a white-space character; what is inside the core does not matter *)
Lemma go_trim_core b1 core b2 : forallb is_sp b1 = true -> forallb is_sp b2 = true ->
  core <> [] -> hd_ok core = true -> strip_one_prefix uni_spaces (core ++ b2) = None ->
  hd_ok (rev core) = true -> strip_one_prefix (map (@rev ascii) uni_spaces) (rev core) = None ->
  go_trim (b1 ++ core ++ b2) = core.
Proof.
  intros H1 H2 Hne Hh Hs Hl Hr. unfold go_trim, trim_left.
  rewrite (tlf_core b1 _ (core ++ b2)); [|exact H1|apply le_n|now apply hd_ok_app|exact Hs].
  rewrite rev_app_distr.
  rewrite tlrf_core; [apply rev_involutive| | |exact Hl|exact Hr].
  - apply forallb_forall. intros x Hx. apply in_rev in Hx. revert x Hx. now apply forallb_forall.
  - rewrite !app_length, !rev_length. lia.
Qed.

(* ------------------------------------------------------------------ take_key *)
Lemma take_key_split : forall key fuel rest acc,
  forallb (fun c => negb (is_sp c)) key = true -> NU key ->
  hd_ok rest = false \/ rest = [] ->
  (length (key ++ rest) <= fuel)%nat ->
  take_key fuel (key ++ rest) acc = (rev acc ++ key, rest).
Proof.
  induction key as [|k key IH]; intros fuel rest acc Hk Hn Hr Hl.
  - cbn [app]. rewrite app_nil_r. destruct fuel as [|f]; [reflexivity|]. cbn [take_key].
    destruct rest as [|c r]; [reflexivity|].
    destruct Hr as [Hr|Hr]; [|discriminate]. cbn [hd_ok] in Hr. apply negb_false_iff in Hr.
    now rewrite Hr.
  - cbn [app length] in Hl. destruct fuel as [|f]; [lia|].
    cbn [forallb] in Hk. apply andb_true_iff in Hk as [Hk1 Hk2]. apply negb_true_iff in Hk1.
    cbn [app take_key]. rewrite Hk1.
    rewrite (strip_none_hd _ heads_uni k (key ++ rest)) by (apply Hn; now left).
    rewrite IH; [|exact Hk2|now apply NU_tail in Hn|exact Hr|lia].
    cbn [rev]. now rewrite <- app_assoc.
Qed.

(* ------------------------------------------------------------------ structured lines *)
Lemma rline_ok_inv l : rline_ok l = true ->
  forallb is_blank (q_lead l) = true /\ forallb is_blank (q_sep l) = true /\
  forallb is_blank (q_trail l) = true /\ q_key l <> [] /\
  forallb (fun c => negb (is_sp c)) (q_key l) = true /\ NU (q_key l) /\
  is_comment (q_key l) = false /\
  (strip_one_prefix uni_spaces (q_val l) = None /\
   strip_one_prefix (map (@rev ascii) uni_spaces) (rev (q_val l)) = None) /\
  hd_ok (rev (q_val l)) = true /\
  (q_val l = [] \/ (q_val l <> [] /\ hd_ok (q_val l) = true /\ q_sep l <> [])).
Proof.
  unfold rline_ok. intros H.
  apply andb_true_iff in H as [H H11]. apply andb_true_iff in H as [H H10].
  apply andb_true_iff in H as [H H9]. apply andb_true_iff in H as [H H8].
  apply andb_true_iff in H as [H H7]. apply andb_true_iff in H as [H H6].
  apply andb_true_iff in H as [H H5]. apply andb_true_iff in H as [H H4].
  apply andb_true_iff in H as [H H3]. apply andb_true_iff in H as [H1 H2].
  apply no_uni_NU in H6. apply negb_true_iff in H7.
  unfold val_edges_ok in H8. apply andb_true_iff in H8 as [H8a H8b].
  repeat split; try assumption.
  - intros E. rewrite E in H4. discriminate.
  - destruct (strip_one_prefix uni_spaces (q_val l)); [discriminate|reflexivity].
  - destruct (strip_one_prefix (map (@rev ascii) uni_spaces) (rev (q_val l))); [discriminate|reflexivity].
  - destruct (q_val l) as [|c r]; [now left|right].
    apply andb_true_iff in H11 as [Ha Hb]. repeat split.
    + discriminate.
    + exact Ha.
    + intros E. rewrite E in Hb. discriminate.
Qed.

Lemma is_comment_key key rest : key <> [] -> is_comment key = false ->
  rest = [] \/ (exists c r, rest = c :: r /\ is_blank c = true) ->
  is_comment (key ++ rest) = false.
Proof.
  intros Hne Hc Hr. destruct key as [|k [|k2 key]]; [congruence| |exact Hc].
  destruct Hr as [->|(c & r & -> & Hb)]; [exact Hc|].
  cbn [app is_comment] in *. apply orb_false_iff in Hc as [Hc _]. rewrite Hc. cbn [orb].
  apply blank_cases in Hb as [->| ->]; destruct (Ascii.eqb k c_slash); reflexivity.
Qed.

(* what strings.TrimSpace leaves of a rendered line *)
Definition q_rest (l : rline) : bytes := match q_val l with [] => [] | _ => q_sep l ++ q_val l end.

Lemma go_trim_render l : rline_ok l = true -> go_trim (rline_render l) = q_key l ++ q_rest l.
Proof.
  intros Hok.
  apply rline_ok_inv in Hok as (H1 & H2 & H3 & H4 & H5 & H6 & H7 & (H8a & H8b) & H9 & H10).
  apply blanks_sp in H1, H2, H3.
  assert (Hkh : hd_ok (q_key l) = true).
  { destruct (q_key l) as [|c r]; [reflexivity|]. cbn [forallb] in H5.
    apply andb_true_iff in H5 as [H5 _]. exact H5. }
  assert (Hkl : hd_ok (rev (q_key l)) = true).
  { destruct (rev (q_key l)) as [|c r] eqn:E; [reflexivity|]. cbn [hd_ok].
    assert (Hin : In c (q_key l)) by (apply in_rev; rewrite E; now left).
    exact (proj1 (forallb_forall _ _) H5 c Hin). }
  (* the directive has no lead byte of a Unicode space: nothing is taken off its front *)
  assert (Hku : forall k s, q_key l = k -> strip_one_prefix uni_spaces (k ++ s) = None).
  { intros k s E. destruct k as [|c r]; [congruence|]. cbn [app].
    apply strip_none_hd; [exact heads_uni|]. apply H6. rewrite E. now left. }
  unfold rline_render, q_rest. destruct H10 as [Hv|(Hv & Hvh & Hs)].
  - rewrite Hv. cbn [app]. rewrite app_nil_r.
    apply go_trim_core;
      [exact H1|rewrite forallb_app; now rewrite H2, H3|exact H4|exact Hkh|now apply Hku|exact Hkl|].
    apply strip_none; [exact pats_uni_rev|now apply NU_rev].
  - destruct (q_val l) as [|v vs] eqn:Ev; [congruence|].
    replace (q_lead l ++ q_key l ++ q_sep l ++ (v :: vs) ++ q_trail l)
      with (q_lead l ++ (q_key l ++ q_sep l ++ v :: vs) ++ q_trail l)
      by (now rewrite <- !app_assoc).
    apply go_trim_core; [exact H1|exact H3| |apply hd_ok_app; assumption| | |].
    + intros E. apply app_eq_nil in E as [E _]. congruence.
    + rewrite <- app_assoc. now apply Hku.
    + rewrite !rev_app_distr. rewrite <- app_assoc. apply hd_ok_app; [|exact H9].
      intros E. apply (f_equal (@rev ascii)) in E. rewrite rev_involutive in E. discriminate.
    + (* the argument's end is no white space, and blanks stand before the argument: no
         reversed pattern matches across that border *)
      rewrite !rev_app_distr. rewrite <- app_assoc.
      apply strip_ext; [exact nosp_uni_rev|exact H8b|right].
      destruct (rev (q_sep l)) as [|c r] eqn:E.
      { apply (f_equal (@rev ascii)) in E. rewrite rev_involutive in E. cbn in E. congruence. }
      cbn [app hd_ok]. apply negb_false_iff.
      assert (Hin : In c (q_sep l)) by (apply in_rev; rewrite E; now left).
      exact (proj1 (forallb_forall _ _) H2 c Hin).
Qed.

(* a structured line is read back as its directive and argument -- whatever white space
   (runs of blanks, tabs, \v \f \r, multi-byte Unicode spaces) stands INSIDE the argument *)
Theorem recipe_line_roundtrip : forall l, rline_ok l = true ->
  is_comment (go_trim (rline_render l)) = false /\
  parse_recipe_line (rline_render l) = (q_key l, q_val l).
Proof.
  intros l Hok. pose proof (go_trim_render _ Hok) as Ht.
  pose proof Hok as Hinv.
  apply rline_ok_inv in Hinv as (H1 & H2 & H3 & H4 & H5 & H6 & H7 & (H8a & H8b) & H9 & H10).
  assert (Hrest : q_rest l = [] \/ exists c r, q_rest l = c :: r /\ is_blank c = true).
  { unfold q_rest. destruct H10 as [Hv|(Hv & Hvh & Hs)]; [rewrite Hv; now left|].
    destruct (q_val l) as [|v vs]; [congruence|]. right.
    destruct (q_sep l) as [|c r]; [congruence|]. exists c, (r ++ v :: vs). split; [reflexivity|].
    cbn [forallb] in H2. apply andb_true_iff in H2 as [H2 _]. exact H2. }
  split.
  - rewrite Ht. now apply is_comment_key.
  - unfold parse_recipe_line. rewrite Ht.
    rewrite (take_key_split (q_key l) _ (q_rest l) []); [| exact H5 | exact H6 | | apply le_n].
    + cbn [rev app]. f_equal. unfold q_rest.
      destruct H10 as [Hv|(Hv & Hvh & Hs)]; [rewrite Hv; reflexivity|].
      destruct (q_val l) as [|v vs] eqn:Ev; [congruence|].
      rewrite <- (app_nil_r (v :: vs)) at 1.
      apply go_trim_core;
        [apply blanks_sp; exact H2|reflexivity|discriminate|exact Hvh|rewrite app_nil_r; exact H8a|exact H9|exact H8b].
    + destruct Hrest as [E|(c & r & E & Hb)]; [now right|left].
      rewrite E. cbn [hd_ok]. now rewrite (blank_sp _ Hb).
Qed.

(* ------------------------------------------------------------------ one step of the loop on (directive, argument) *)
Definition pstep (root_sw profile_sw : bool) (st : rsettings) (key value : bytes) : rsettings :=
  let noval := match value with [] => true | _ => false end in
  let '(MkRS rt pf at_ afs adds cmp nb nv ed er) := st in
  if beq key (kw "root") then MkRS (if root_sw then rt else value) pf at_ afs adds cmp nb nv ed (er || noval)
  else if beq key (kw "profile") then MkRS rt (if profile_sw then pf else value) at_ afs adds cmp nb nv ed (er || noval)
  else if beq key (kw "atoms") then MkRS rt pf (value ++ c_sp :: at_) afs adds cmp nb nv ed (er || noval)
  else if beq key (kw "atomsfile") then MkRS rt pf at_ (afs ++ [value]) adds cmp nb nv ed (er || noval)
  else if beq key (kw "addfiles") then MkRS rt pf at_ afs (adds ++ [value]) cmp nb nv ed (er || noval)
  else if beq key (kw "compress") then MkRS rt pf at_ afs adds (match cmp with [] => value | _ => cmp end) nb nv ed (er || noval)
  else if beq key (kw "nobdeps") then MkRS rt pf at_ afs adds cmp true nv ed er
  else if beq key (kw "novdb") then MkRS rt pf at_ afs adds cmp nb true ed er
  else if beq key (kw "emptydev") then MkRS rt pf at_ afs adds cmp nb nv true er
  else MkRS rt pf at_ afs adds cmp nb nv ed true.

Lemma recipe_step_eq a b st raw :
  recipe_step a b st raw =
  if is_comment (go_trim raw) then st
  else let '(k, v) := parse_recipe_line raw in pstep a b st k v.
Proof. reflexivity. Qed.

(* is the pair (directive, argument) one the tool reports *)
Definition kv_bad (k v : bytes) : bool :=
  if memb k valued_keys then match v with [] => true | _ => false end else negb (memb k flag_keys).

Ltac key_chain :=
  repeat match goal with
  | |- context [beq ?k (kw ?s)] =>
    is_var k; let E := fresh "E" in
    destruct (beq k (kw s)) eqn:E; [apply beq_true in E; subst k; try reflexivity|]
  end.

Lemma pstep_err a b st k v : rs_err (pstep a b st k v) = rs_err st || kv_bad k v.
Proof.
  destruct st as [rt pf at_ afs adds cmp nb nv ed er].
  unfold pstep, kv_bad, memb, valued_keys, flag_keys. cbn [existsb rs_err].
  key_chain; try (cbn; now rewrite orb_false_r). cbn. now rewrite orb_true_r.
Qed.

Lemma pstep_root a b st k v :
  rs_root (pstep a b st k v) = if beq k (kw "root") && negb a then v else rs_root st.
Proof.
  destruct st as [rt pf at_ afs adds cmp nb nv ed er]. unfold pstep. cbn [rs_root].
  destruct a; key_chain; reflexivity.
Qed.
Lemma pstep_profile a b st k v :
  rs_profile (pstep a b st k v) = if beq k (kw "profile") && negb b then v else rs_profile st.
Proof.
  destruct st as [rt pf at_ afs adds cmp nb nv ed er]. unfold pstep. cbn [rs_profile].
  destruct b; key_chain; reflexivity.
Qed.
Lemma pstep_atoms a b st k v :
  rs_atoms (pstep a b st k v) = if beq k (kw "atoms") then v ++ c_sp :: rs_atoms st else rs_atoms st.
Proof.
  destruct st as [rt pf at_ afs adds cmp nb nv ed er]. unfold pstep. cbn [rs_atoms].
  key_chain; reflexivity.
Qed.
Lemma pstep_afs a b st k v :
  rs_atomfiles (pstep a b st k v) =
  if beq k (kw "atomsfile") then rs_atomfiles st ++ [v] else rs_atomfiles st.
Proof.
  destruct st as [rt pf at_ afs adds cmp nb nv ed er]. unfold pstep. cbn [rs_atomfiles].
  key_chain; reflexivity.
Qed.

(* ------------------------------------------------------------------ raw lines *)
(* a raw line that is not blank/comment and whose directive is unknown, or known but lacks its argument *)
Definition raw_bad (raw : bytes) : bool :=
  negb (is_comment (go_trim raw)) &&
  (let '(k, v) := parse_recipe_line raw in
   if memb k valued_keys then match v with [] => true | _ => false end else negb (memb k flag_keys)).

Lemma recipe_step_err a b st raw : rs_err (recipe_step a b st raw) = rs_err st || raw_bad raw.
Proof.
  rewrite recipe_step_eq. unfold raw_bad. destruct (is_comment (go_trim raw)).
  - cbn [negb andb]. now rewrite orb_false_r.
  - cbn [negb andb]. destruct (parse_recipe_line raw) as [k v]. apply pstep_err.
Qed.

Lemma loop_err a b lines : forall st,
  rs_err (fold_left (recipe_step a b) lines st) = rs_err st || existsb raw_bad lines.
Proof.
  induction lines as [|raw r IH]; intros st; cbn [fold_left existsb].
  - now rewrite orb_false_r.
  - rewrite IH, recipe_step_err. now rewrite orb_assoc.
Qed.

(* for ALL byte strings as lines: one bad line anywhere makes the run fail with a located recipe error *)
Theorem recipe_reports : forall env cmd lines,
  existsb raw_bad lines = true -> list_system env cmd lines = RRRecipeErr.
Proof.
  intros env cmd lines H. unfold list_system, recipe_loop.
  rewrite loop_err, H, orb_true_r. reflexivity.
Qed.

(* ------------------------------------------------------------------ the loop over structured items *)
Definition lstep (a b : bool) (st : rsettings) (l : rline) : rsettings := pstep a b st (q_key l) (q_val l).

Lemma loop_items a b its : forallb ritem_ok its = true -> forall st,
  fold_left (recipe_step a b) (map ritem_render its) st = fold_left (lstep a b) (lines_of its) st.
Proof.
  induction its as [|it r IH]; intros Hok st; [reflexivity|].
  cbn [forallb] in Hok. apply andb_true_iff in Hok as [Hit Hr].
  cbn [map fold_left]. rewrite (IH Hr). unfold lines_of. cbn [flat_map]. fold (lines_of r).
  destruct it as [raw|l]; cbn [ritem_render ritem_ok app] in *.
  - apply andb_true_iff in Hit as [Hc _]. rewrite recipe_step_eq, Hc. reflexivity.
  - destruct (recipe_line_roundtrip l Hit) as [Hc Hp].
    rewrite recipe_step_eq, Hc, Hp. reflexivity.
Qed.

Lemma rline_bad_kv l : rline_bad l = kv_bad (q_key l) (q_val l).
Proof. reflexivity. Qed.

Lemma lloop_err a b ls : forall st,
  rs_err (fold_left (lstep a b) ls st) = rs_err st || existsb rline_bad ls.
Proof.
  induction ls as [|l r IH]; intros st; cbn [fold_left existsb].
  - now rewrite orb_false_r.
  - rewrite IH. unfold lstep. rewrite pstep_err, rline_bad_kv. now rewrite orb_assoc.
Qed.

Lemma last_cons {A} (vs : list A) : forall v d, last (v :: vs) d = last vs v.
Proof.
  induction vs as [|w vs IH]; intros v d; [reflexivity|].
  change (last (v :: w :: vs) d) with (last (w :: vs) d). now rewrite !IH.
Qed.

Lemma vals_of_cons key l ls :
  vals_of key (l :: ls) = if beq (q_key l) key then q_val l :: vals_of key ls else vals_of key ls.
Proof. unfold vals_of. cbn [filter]. destruct (beq (q_key l) key); reflexivity. Qed.

Lemma lloop_root b ls : forall st,
  rs_root (fold_left (lstep false b) ls st) = last (vals_of (kw "root") ls) (rs_root st).
Proof.
  induction ls as [|l r IH]; intros st; cbn [fold_left]; [reflexivity|].
  rewrite IH, vals_of_cons. unfold lstep. rewrite pstep_root. cbn [negb]. rewrite andb_true_r.
  destruct (beq (q_key l) (kw "root")); [now rewrite last_cons|reflexivity].
Qed.
Lemma lloop_root_sw b ls : forall st, rs_root (fold_left (lstep true b) ls st) = rs_root st.
Proof.
  induction ls as [|l r IH]; intros st; cbn [fold_left]; [reflexivity|].
  rewrite IH. unfold lstep. rewrite pstep_root. cbn [negb]. now rewrite andb_false_r.
Qed.
Lemma lloop_profile a ls : forall st,
  rs_profile (fold_left (lstep a false) ls st) = last (vals_of (kw "profile") ls) (rs_profile st).
Proof.
  induction ls as [|l r IH]; intros st; cbn [fold_left]; [reflexivity|].
  rewrite IH, vals_of_cons. unfold lstep. rewrite pstep_profile. cbn [negb]. rewrite andb_true_r.
  destruct (beq (q_key l) (kw "profile")); [now rewrite last_cons|reflexivity].
Qed.
Lemma lloop_profile_sw a ls : forall st, rs_profile (fold_left (lstep a true) ls st) = rs_profile st.
Proof.
  induction ls as [|l r IH]; intros st; cbn [fold_left]; [reflexivity|].
  rewrite IH. unfold lstep. rewrite pstep_profile. cbn [negb]. now rewrite andb_false_r.
Qed.
Lemma lloop_afs a b ls : forall st,
  rs_atomfiles (fold_left (lstep a b) ls st) = rs_atomfiles st ++ vals_of (kw "atomsfile") ls.
Proof.
  induction ls as [|l r IH]; intros st; cbn [fold_left].
  - unfold vals_of. cbn. now rewrite app_nil_r.
  - rewrite IH, vals_of_cons. unfold lstep. rewrite pstep_afs.
    destruct (beq (q_key l) (kw "atomsfile")); [now rewrite <- app_assoc|reflexivity].
Qed.

(* ------------------------------------------------------------------ strings.Fields over  a ++ " " ++ b *)
Lemma fstep_out_gen s : forall cur out out0,
  fold_left fstep s (cur, out ++ out0) =
  (fst (fold_left fstep s (cur, out)), snd (fold_left fstep s (cur, out)) ++ out0).
Proof.
  induction s as [|c r IH]; intros cur out out0; [reflexivity|].
  cbn [fold_left fstep]. destruct (is_sp c).
  - destruct cur as [|x cur].
    + apply IH.
    + rewrite app_comm_cons. apply IH.
  - apply IH.
Qed.

Lemma fields_app_sp a b : fields (a ++ c_sp :: b) = fields a ++ fields b.
Proof.
  unfold fields. rewrite fold_left_app. cbn [fold_left].
  destruct (fold_left fstep a ([], [])) as [ca oa]. unfold fstep at 2.
  change (is_sp c_sp) with true. cbv iota.
  assert (G : forall o : list bytes,
    ffinish (fold_left fstep b ([], o)) = rev o ++ ffinish (fold_left fstep b ([], []))).
  { intros o. change o with ([] ++ o) at 1. rewrite fstep_out_gen.
    destruct (fold_left fstep b ([], [])) as [cb ob]. cbn [fst snd ffinish].
    destruct cb as [|x cb].
    - now rewrite rev_app_distr.
    - rewrite app_comm_cons. now rewrite rev_app_distr. }
  destruct ca as [|x ca]; cbn [ffinish]; rewrite G; reflexivity.
Qed.

Lemma lloop_atoms a b ls : forall st,
  fields (rs_atoms (fold_left (lstep a b) ls st)) =
  flat_map fields (rev (vals_of (kw "atoms") ls)) ++ fields (rs_atoms st).
Proof.
  induction ls as [|l r IH]; intros st; cbn [fold_left]; [reflexivity|].
  rewrite IH, vals_of_cons. unfold lstep. rewrite pstep_atoms.
  destruct (beq (q_key l) (kw "atoms")); [|reflexivity].
  rewrite fields_app_sp. cbn [rev]. rewrite flat_map_app. cbn [flat_map].
  now rewrite app_nil_r, <- app_assoc.
Qed.

(* ------------------------------------------------------------------ the atom sets *)
Lemma add_atoms_ok atoms : forall seen, NoDup (seen ++ atoms) -> add_atoms seen atoms = Some (seen ++ atoms).
Proof.
  induction atoms as [|x r IH]; intros seen H; cbn [add_atoms].
  - now rewrite app_nil_r.
  - assert (Hx : memb x seen = false).
    { apply memb_false. intros Hin. apply NoDup_remove_2 in H. apply H, in_or_app. now left. }
    rewrite Hx. rewrite IH; rewrite <- app_assoc; [reflexivity|exact H].
Qed.

Definition oatoms (o : option (list bytes)) : list bytes := match o with Some a => a | None => [] end.
Definition onone (o : option (list bytes)) : bool := match o with None => true | Some _ => false end.
Definition flook (env : renv) (f : bytes) := lookup_b (abs_path (en_cwd env) f) (en_afiles env).

Lemma NoDup_app_l {A} (a b : list A) : NoDup (a ++ b) -> NoDup a.
Proof.
  induction a as [|x a IH]; intros H; [constructor|].
  cbn [app] in H. inversion H as [|? ? Hx Hr]; subst. constructor; [|now apply IH].
  intros Hin. apply Hx, in_or_app. now left.
Qed.

Lemma add_afiles_ok env files : forall seen,
  existsb onone (map (flook env) files) = false ->
  NoDup (seen ++ flat_map oatoms (map (flook env) files)) ->
  add_afiles env seen files = Some (seen ++ flat_map oatoms (map (flook env) files)).
Proof.
  induction files as [|f r IH]; intros seen He Hn; cbn [add_afiles map flat_map existsb] in *.
  - now rewrite app_nil_r.
  - apply orb_false_iff in He as [He1 He2]. unfold flook at 1 in He1. unfold flook at 1 in Hn. unfold flook at 1.
    destruct (lookup_b (abs_path (en_cwd env) f) (en_afiles env)) as [atoms|]; [|discriminate].
    cbn [oatoms] in *. rewrite app_assoc in Hn.
    rewrite add_atoms_ok.
    + rewrite (IH _ He2 Hn). now rewrite <- app_assoc.
    + revert Hn. apply NoDup_app_l.
Qed.

Lemma add_afiles_missing env files : forall seen,
  existsb onone (map (flook env) files) = true -> add_afiles env seen files = None.
Proof.
  induction files as [|f r IH]; intros seen He; cbn [add_afiles map existsb] in *; [discriminate|].
  unfold flook at 1 in He.
  destruct (lookup_b (abs_path (en_cwd env) f) (en_afiles env)) as [atoms|]; [|reflexivity].
  cbn [onone orb] in He. destruct (add_atoms seen atoms); [now apply IH|reflexivity].
Qed.

Lemma same_set_perm a b : Permutation a b -> same_set a b = true.
Proof.
  intros P. unfold same_set. apply andb_true_iff. split; apply forallb_forall; intros x Hx; apply memb_In.
  - now apply (Permutation_in _ P).
  - now apply (Permutation_in _ (Permutation_sym P)).
Qed.

(* ------------------------------------------------------------------ both sides in one shape *)
Definition msel (x : bytes) : option bytes := match x with [] => None | _ => Some x end.

Definition sys_of (env : renv) (cmd : rcmd) (err : bool) (r p : option bytes)
                  (afs : list bytes) (atoms : list bytes) : rres :=
  if err then RRRecipeErr
  else
    let root := match r with Some v => abs_path (en_cwd env) v | None => en_cwd env end in
    if negb (memb root (en_roots env)) then RRFail
    else
      let pdir := match p with
                  | Some v => abs_path (en_cwd env) v
                  | None => pathjoin2 root (bs "/etc/portage/make.profile")
                  end in
      match lookup_b pdir (en_profiles env) with
      | None => RRFail
      | Some patoms =>
        match add_atoms [] patoms with
        | None => RRFail
        | Some s1 =>
          let files := afs ++ match rc_atomsfile cmd with [] => [] | f => [f] end in
          match add_afiles env s1 files with
          | None => RRFail
          | Some s2 =>
            match add_atoms s2 atoms with
            | None => RRFail
            | Some s3 => RROk s3
            end
          end
        end
      end.

Lemma list_system_eq env cmd lines :
  list_system env cmd lines =
  let st := recipe_loop cmd lines in
  sys_of env cmd (rs_err st) (msel (rs_root st)) (msel (rs_profile st)) (rs_atomfiles st)
         (fields (rs_atoms st)).
Proof.
  unfold list_system, sys_of. cbv zeta.
  destruct (rs_root (recipe_loop cmd lines)); destruct (rs_profile (recipe_loop cmd lines)); reflexivity.
Qed.

Definition pick (ls : list rline) (sw key : bytes) : option (option bytes) :=
  match sw with
  | _ :: _ => Some (Some sw)
  | [] => match vals_of key ls with [] => Some None | [v] => Some (Some v) | _ => None end
  end.

Definition doc_of (env : renv) (cmd : rcmd) (ls : list rline) : drres :=
  if existsb rline_bad ls then DRRecipeErr
  else if existsb rline_open ls then DRUnk
  else
    match pick ls (rc_root cmd) (kw "root"), pick ls (rc_profile cmd) (kw "profile") with
    | Some r, Some p =>
      let root := match r with Some v => abs_path (en_cwd env) v | None => en_cwd env end in
      if negb (memb root (en_roots env)) then DRFail
      else
        let pdir := match p with Some v => abs_path (en_cwd env) v
                                 | None => pathjoin2 root (bs "/etc/portage/make.profile") end in
        match lookup_b pdir (en_profiles env) with
        | None => DRFail
        | Some patoms =>
          let files := vals_of (kw "atomsfile") ls ++ match rc_atomsfile cmd with [] => [] | f => [f] end in
          let fatoms := map (flook env) files in
          if existsb onone fatoms then DRFail
          else
            let all := patoms ++ flat_map oatoms fatoms
                       ++ flat_map fields (vals_of (kw "atoms") ls) ++ fields (rc_atoms cmd) in
            if nodupb all then DROk all else DRUnk
        end
    | _, _ => DRUnk
    end.

Lemma doc_recipe_eq env cmd its : doc_recipe env cmd its = doc_of env cmd (lines_of its).
Proof. reflexivity. Qed.

(* ------------------------------------------------------------------ root and profile *)
Lemma existsb_false_in {A} (f : A -> bool) l x : existsb f l = false -> In x l -> f x = false.
Proof.
  intros H Hin. destruct (f x) eqn:E; [|reflexivity].
  assert (X : existsb f l = true) by (apply existsb_exists; now exists x). congruence.
Qed.

Lemma vals_nonempty ls key v : existsb rline_bad ls = false -> memb key valued_keys = true ->
  In v (vals_of key ls) -> v <> [].
Proof.
  intros Hbad Hkey Hin. unfold vals_of in Hin. apply in_map_iff in Hin as (l & Hv & Hl).
  apply filter_In in Hl as [Hl Hk]. apply beq_true in Hk.
  pose proof (existsb_false_in _ _ _ Hbad Hl) as Hb. unfold rline_bad in Hb.
  rewrite Hk, Hkey, Hv in Hb. intros ->. discriminate.
Qed.

Lemma pick_last ls sw key r : existsb rline_bad ls = false -> memb key valued_keys = true ->
  pick ls sw key = Some r ->
  msel (match sw with [] => last (vals_of key ls) sw | _ => sw end) = r.
Proof.
  intros Hbad Hkey Hp. unfold pick in Hp. destruct sw as [|c sw].
  - pose proof (vals_nonempty ls key) as Hne.
    destruct (vals_of key ls) as [|v [|v2 vs]].
    + injection Hp as <-. reflexivity.
    + injection Hp as <-. cbn [last].
      assert (Hv : v <> []) by (apply Hne; [exact Hbad|exact Hkey|now left]).
      destruct v; [congruence|reflexivity].
    + discriminate.
  - injection Hp as <-. reflexivity.
Qed.

Lemma model_root sw b ls st r : existsb rline_bad ls = false ->
  pick ls sw (kw "root") = Some r -> rs_root st = sw ->
  msel (rs_root (fold_left (lstep (match sw with [] => false | _ => true end) b) ls st)) = r.
Proof.
  intros Hbad Hp Hst. rewrite <- (pick_last ls sw (kw "root") r Hbad eq_refl Hp).
  destruct sw as [|c sw]; [rewrite lloop_root|rewrite lloop_root_sw]; now rewrite Hst.
Qed.
Lemma model_profile sw a ls st r : existsb rline_bad ls = false ->
  pick ls sw (kw "profile") = Some r -> rs_profile st = sw ->
  msel (rs_profile (fold_left (lstep a (match sw with [] => false | _ => true end)) ls st)) = r.
Proof.
  intros Hbad Hp Hst. rewrite <- (pick_last ls sw (kw "profile") r Hbad eq_refl Hp).
  destruct sw as [|c sw]; [rewrite lloop_profile|rewrite lloop_profile_sw]; now rewrite Hst.
Qed.

(* ------------------------------------------------------------------ the property *)
(* the property on one recipe run: the model of the tool does what the manual says *)
Theorem recipe_spec_holds : forall env cmd its, forallb ritem_ok its = true ->
  recipe_spec env cmd its (list_system env cmd (map ritem_render its)) = true.
Proof.
  intros env cmd its Hok. unfold recipe_spec. rewrite doc_recipe_eq, list_system_eq. cbv zeta.
  unfold recipe_loop. rewrite (loop_items _ _ _ Hok).
  set (ls := lines_of its). unfold doc_of.
  rewrite lloop_err. cbn [rs_err orb].
  destruct (existsb rline_bad ls) eqn:Ebad; [reflexivity|].
  destruct (existsb rline_open ls) eqn:Eopen; [reflexivity|].
  destruct (pick ls (rc_root cmd) (kw "root")) as [r|] eqn:Er; [|reflexivity].
  destruct (pick ls (rc_profile cmd) (kw "profile")) as [p|] eqn:Ep; [|reflexivity].
  rewrite (model_root _ _ _ _ _ Ebad Er) by reflexivity.
  rewrite (model_profile _ _ _ _ _ Ebad Ep) by reflexivity.
  rewrite lloop_afs, lloop_atoms. cbn [rs_atomfiles rs_atoms app].
  unfold sys_of. cbv zeta.
  set (root := match r with Some v => abs_path (en_cwd env) v | None => en_cwd env end).
  destruct (negb (memb root (en_roots env))); [reflexivity|].
  set (pdir := match p with Some v => abs_path (en_cwd env) v
                          | None => pathjoin2 root (bs "/etc/portage/make.profile") end).
  destruct (lookup_b pdir (en_profiles env)) as [patoms|]; [|reflexivity].
  set (files := vals_of (kw "atomsfile") ls ++ match rc_atomsfile cmd with [] => [] | f => [f] end).
  destruct (existsb onone (map (flook env) files)) eqn:Emiss.
  - destruct (add_atoms [] patoms) as [s1|]; [|reflexivity].
    now rewrite (add_afiles_missing _ _ _ Emiss).
  - set (F := flat_map oatoms (map (flook env) files)).
    set (X := flat_map fields (vals_of (kw "atoms") ls)).
    set (X' := flat_map fields (rev (vals_of (kw "atoms") ls))).
    set (Z := fields (rc_atoms cmd)).
    destruct (nodupb (patoms ++ F ++ X ++ Z)) eqn:End; [|reflexivity].
    apply nodupb_NoDup in End.
    assert (P : Permutation (patoms ++ F ++ X ++ Z) ((patoms ++ F) ++ X' ++ Z)).
    { rewrite <- app_assoc. do 2 apply Permutation_app_head. apply Permutation_app_tail.
      apply Permutation_flat_map, Permutation_rev. }
    pose proof (Permutation_NoDup P End) as End'.
    assert (N2 : NoDup (patoms ++ F)) by (revert End'; apply NoDup_app_l).
    assert (N1 : NoDup ([] ++ patoms)) by (cbn [app]; revert N2; apply NoDup_app_l).
    rewrite (add_atoms_ok _ _ N1). cbn [app].
    unfold F in N2. rewrite (add_afiles_ok _ _ _ Emiss N2). fold F.
    rewrite (add_atoms_ok _ _ End').
    now apply same_set_perm.
Qed.

Print Assumptions recipe_reports.
Print Assumptions recipe_line_roundtrip.
Print Assumptions recipe_spec_holds.
