(* C18: the model of config.Load agrees with the documented reference resolution. *)
From LC Require Import Lib.Bytes Lib.Fields Lib.PathM Gen.Consts Model.Config Proofs.PathP Proofs.ConfigP
  Cases.Verdict Cases.C18.
Import C18.
Close Scope string_scope.
Open Scope list_scope.

Definition tblc := CF_settingSetup.

(* ------------------------------------------------------------------ key tables *)
Definition tbl_assoc (tbl : list cf_entry) : list (bytes * N) := map (fun e => (e_ckey e, e_key e)) tbl.
Lemma key_lookup_assoc tbl u : key_lookup tbl u = assoc (tbl_assoc tbl) u.
Proof.
  unfold key_lookup. induction tbl as [|e r IH]; cbn; [reflexivity|].
  destruct (beq u (e_ckey e)); [reflexivity|exact IH].
Qed.

Lemma assoc_some_in L u v : assoc L u = Some v -> exists kv, In kv L /\ fst kv = u.
Proof.
  induction L as [|[k w] L IH]; cbn; [discriminate|].
  destruct (beq u k) eqn:E.
  - apply beq_true in E. subst. intros _. exists (k, w). split; [now left|reflexivity].
  - intros H. destruct (IH H) as (kv & Hin & Hk). exists kv. split; [now right|exact Hk].
Qed.

Definition agree_on (L1 L2 : list (bytes * N)) (bad : list bytes) : bool :=
  forallb (fun kv => existsb (beq (fst kv)) bad || opt_beq N.eqb (assoc L1 (fst kv)) (assoc L2 (fst kv))) (L1 ++ L2).
Lemma opt_beq_N a b : opt_beq N.eqb a b = true -> a = b.
Proof. destruct a, b; cbn; try discriminate; auto. intros H. apply N.eqb_eq in H. now subst. Qed.
Lemma agree_sound L1 L2 bad : agree_on L1 L2 bad = true ->
  forall u, ~ In u bad -> assoc L1 u = assoc L2 u.
Proof.
  intros H u Hu. unfold agree_on in H. rewrite forallb_forall in H.
  assert (K : forall kv, In kv (L1 ++ L2) -> fst kv = u -> assoc L1 u = assoc L2 u).
  { intros kv Hin <-. specialize (H kv Hin). apply orb_true_iff in H as [H|H].
    - apply existsb_beq_In in H. contradiction.
    - now apply opt_beq_N. }
  destruct (assoc L1 u) as [v1|] eqn:A1.
  - destruct (assoc_some_in _ _ _ A1) as (kv & Hin & Hk). apply (K kv); [apply in_or_app; now left|exact Hk].
  - destruct (assoc L2 u) as [v2|] eqn:A2; [|reflexivity].
    destruct (assoc_some_in _ _ _ A2) as (kv & Hin & Hk). apply (K kv); [apply in_or_app; now right|exact Hk].
Qed.

(* outside the three documented-only spellings the documented keys are the implemented keys *)
Lemma doc_table_agree u : ~ In u doc_only_keys -> assoc doc_keys u = key_lookup tblc u.
Proof.
  intros Hu. rewrite key_lookup_assoc. apply (agree_sound _ _ doc_only_keys); [vm_compute; reflexivity|exact Hu].
Qed.
Lemma doc_only_known u : In u doc_only_keys -> assoc doc_keys u <> None.
Proof. intros [<-|[<-|[<-|[]]]]; vm_compute; discriminate. Qed.
Lemma doc_unknown u : assoc doc_keys u = None -> key_lookup tblc u = None.
Proof.
  intros H. rewrite <- doc_table_agree; [exact H|]. intros Hin. now apply doc_only_known in Hin.
Qed.

(* ------------------------------------------------------------------ one line *)
Definition line_free (raw : bytes) : Prop :=
  (isempty (utrim raw) || is_comment (utrim raw)) = true
  \/ existsb (beq (key_text raw)) doc_only_keys = false.

Lemma line_equiv raw : line_free raw ->
  match spec_line raw with
  | SBlank => parse_line tblc raw = LSkip
  | SUnknown => parse_line tblc raw = LBad
  | SPair id v => parse_line tblc raw = if isempty v then LSkip else LSet id v
  end.
Proof.
  intros Hf. unfold spec_line, parse_line.
  destruct (isempty (utrim raw) || is_comment (utrim raw)) eqn:Eb; [reflexivity|].
  destruct Hf as [Hf|Hf]; [congruence|].
  unfold key_text in Hf. destruct (split2 (nb 61) (utrim raw)) as [k ov] eqn:Es. cbn [fst] in Hf.
  apply existsb_beq_notIn in Hf. unfold upper_key. rewrite <- (doc_table_agree _ Hf).
  destruct (assoc doc_keys (map up1 (utrim k))); reflexivity.
Qed.
Lemma line_unknown raw : spec_line raw = SUnknown -> parse_line tblc raw = LBad.
Proof.
  unfold spec_line, parse_line.
  destruct (isempty (utrim raw) || is_comment (utrim raw)); [discriminate|].
  destruct (split2 (nb 61) (utrim raw)) as [k ov].
  destruct (assoc doc_keys (map up1 (utrim k))) eqn:E; [discriminate|]. intros _.
  unfold upper_key. now rewrite (doc_unknown _ E).
Qed.

(* ------------------------------------------------------------------ the lines of a file *)
Fixpoint apply_pairs (ps : list (N * bytes)) (m : smap) : smap :=
  match ps with [] => m | (k, v) :: r => apply_pairs r (sset m k v) end.

Lemma lines_equiv ls : Forall line_free ls -> forall ps m,
  spec_lines ls = Some ps -> parse_lines tblc ls m = Some (apply_pairs ps m).
Proof.
  induction 1 as [|l r Hl _ IH]; intros ps m; cbn [spec_lines parse_lines].
  - intros H. now injection H as <-.
  - pose proof (line_equiv l Hl) as E. destruct (spec_line l) as [|k v|].
    + rewrite E. destruct (spec_lines r) as [ps'|]; [|discriminate]. intros H. injection H as <-. now apply IH.
    + rewrite E. destruct (spec_lines r) as [ps'|]; [|discriminate]. intros H. injection H as <-.
      destruct (isempty v); [now apply IH|]. cbn [apply_pairs]. now apply IH.
    + discriminate.
Qed.
Lemma lines_none ls : forall m, spec_lines ls = None -> parse_lines tblc ls m = None.
Proof.
  induction ls as [|l r IH]; intros m; cbn [spec_lines parse_lines]; [discriminate|].
  destruct (spec_line l) as [|k v|] eqn:El.
  - destruct (spec_lines r); [discriminate|]. intros _. destruct (parse_line tblc l); auto.
  - destruct (spec_lines r); [discriminate|]. intros _. destruct (parse_line tblc l); auto.
  - intros _. now rewrite (line_unknown _ El).
Qed.

Definition has_key (ps : list (N * bytes)) (k : N) : bool := existsb (fun p => (fst p =? k)%N) ps.
Lemma apply_pairs_absent ps : forall m k, has_key ps k = false -> apply_pairs ps m k = m k.
Proof.
  induction ps as [|[k0 v0] r IH]; intros m k; cbn [apply_pairs has_key existsb fst]; [reflexivity|].
  intros H. apply orb_false_iff in H as [H1 H2]. rewrite (IH _ _ H2). apply sset_other. apply N.eqb_neq in H1. congruence.
Qed.
Lemma file_value_absent ps k : has_key ps k = false -> file_value ps k = [].
Proof.
  induction ps as [|[k0 v0] r IH]; cbn [file_value has_key existsb fst]; [reflexivity|].
  intros H. apply orb_false_iff in H as [H1 H2]. rewrite H1. now apply IH.
Qed.
Lemma apply_pairs_nodup ps : nodup_keys ps = true -> forall m k,
  apply_pairs ps m k = if has_key ps k then file_value ps k else m k.
Proof.
  induction ps as [|[k0 v0] r IH]; intros Hnd m k; cbn [apply_pairs has_key existsb fst file_value nodup_keys] in *; [reflexivity|].
  apply andb_true_iff in Hnd as [H1 H2]. apply negb_true_iff in H1. fold (has_key r k0) in H1. fold (has_key r k).
  destruct (N.eqb_spec k0 k) as [->|Hne]; cbn [orb].
  - rewrite (apply_pairs_absent _ _ _ H1). apply sset_same.
  - rewrite (IH H2). destruct (has_key r k); [reflexivity|]. apply sset_other. congruence.
Qed.
Lemma apply_pairs_empty ps k : nodup_keys ps = true -> apply_pairs ps sempty k = file_value ps k.
Proof.
  intros H. rewrite (apply_pairs_nodup _ H). destruct (has_key ps k) eqn:E; [reflexivity|].
  now rewrite file_value_absent.
Qed.

Lemma existsb_false_all {A} (f : A -> bool) l : existsb f l = false -> Forall (fun x => f x = false) l.
Proof.
  induction l as [|x l IH]; cbn; [constructor|]. intros H. apply orb_false_iff in H as [H1 H2]. constructor; auto.
Qed.
Lemma doc_free_lines c : uses_doc_only_key c = false -> Forall line_free (split (nb 10) c).
Proof.
  intros H. apply existsb_false_all in H. eapply Forall_impl; [|exact H]. cbn beta. intros raw Hr.
  unfold line_free. apply andb_false_iff in Hr as [Hr|Hr]; [left; now apply negb_false_iff|now right].
Qed.

Lemma file_equiv c ps : uses_doc_only_key c = false -> nodup_keys ps = true -> spec_file c = Some ps ->
  exists fm, parse_file tblc c = Some fm /\ forall k, fm k = file_value ps k.
Proof.
  intros Hd Hn Hs. exists (apply_pairs ps sempty). split.
  - unfold parse_file, lines_of. apply lines_equiv; [now apply doc_free_lines|exact Hs].
  - intros k. now apply apply_pairs_empty.
Qed.
Lemma file_none c : spec_file c = None -> parse_file tblc c = None.
Proof. intros H. unfold parse_file, lines_of. now apply lines_none. Qed.

(* ------------------------------------------------------------------ first non-empty value *)
Lemma fne_cons x l : first_nonempty (x :: l) = if isempty x then first_nonempty l else x.
Proof. reflexivity. Qed.
Lemma fne_single x : first_nonempty [x] = x.
Proof. cbn. destruct x; reflexivity. Qed.
Lemma fne_app l1 l2 : first_nonempty (l1 ++ l2) = if isempty (first_nonempty l1) then first_nonempty l2 else first_nonempty l1.
Proof.
  induction l1 as [|x l1 IH]; cbn [app first_nonempty]; [reflexivity|].
  destruct (isempty x) eqn:E; [exact IH|]. now rewrite E.
Qed.
Lemma fne_merge m fm k l :
  first_nonempty (merge m fm k :: l) = first_nonempty (m k :: fm k :: l).
Proof. unfold merge. rewrite !fne_cons. destruct (isempty (m k)) eqn:E; [reflexivity|now rewrite E]. Qed.

(* ------------------------------------------------------------------ the two chain walks agree *)
Definition good (cf : bytes * list (N * bytes)) : Prop :=
  uses_doc_only_key (fst cf) = false /\ nodup_keys (snd cf) = true.

Definition Inv (e : env) (visS seen : list bytes) (s : bytes) : Prop :=
  (forall id, In id seen -> exists c fm, fs_get (files e) id = Some (NFile c) /\ parse_file tblc c = Some fm
                                         /\ In (fm CF_cfKey_configfile) (s :: visS))
  /\ (forall t, In t visS -> t <> [] /\ exists id c, resolve (files e) (cwd e) t = Some (id, NFile c) /\ In id seen).

Lemma chain_unfold tbl e f visS s m : isempty s = false ->
  chain tbl e (S f) visS s m =
  if existsb (beq s) visS then CErr ELoop else
  match read_config tbl (files e) (cwd e) s with
  | RErr x => CErr x
  | RMap fm => chain tbl e f (s :: visS) (fm CF_cfKey_configfile) (merge m fm)
  end.
Proof. intros H. cbn [chain]. now rewrite H. Qed.
Lemma chain_done tbl e f visS s m : isempty s = true -> chain tbl e f visS s m = CDone m.
Proof. intros H. destruct f; cbn [chain]; now rewrite H. Qed.

Lemma not_visited e visS seen s id n : Inv e visS seen s ->
  resolve (files e) (cwd e) s = Some (id, n) -> (existsb (beq id) seen = false \/ (forall c, n <> NFile c)) ->
  existsb (beq s) visS = false.
Proof.
  intros [_ I2] Hr Hc. apply existsb_beq_notIn. intros Hin.
  destruct (I2 _ Hin) as (_ & id' & c & Hr' & Hs). rewrite Hr in Hr'. injection Hr' as -> ->.
  destruct Hc as [Hc|Hc]; [apply existsb_beq_notIn in Hc; contradiction|now apply (Hc c)].
Qed.

Lemma chain_equiv e : forall f seen name lst fin,
  ref_chain e f seen name = (lst, fin) -> fin <> EndFuel -> Forall good lst ->
  forall f' visS m, (f < f')%nat -> Inv e visS seen name ->
  match fin with
  | EndOk => exists m', chain tblc e f' visS name m = CDone m'
               /\ forall k, m' k = first_nonempty (m k :: map (fun cf => file_value (snd cf) k) lst)
  | EndErr x => chain tblc e f' visS name m = CErr x
  | EndFuel => True
  end.
Proof.
  assert (Base : forall name m f' visS, isempty name = true ->
            exists m', chain tblc e f' visS name m = CDone m' /\ forall k, m' k = first_nonempty (m k :: map (fun cf : bytes * list (N * bytes) => file_value (snd cf) k) [])).
  { intros name m f' visS Hn. exists m. split; [now apply chain_done|]. intros k. cbn [map]. now rewrite fne_single. }
  induction f as [|f0 IH]; intros seen name lst fin Href Hfin Hgood f' visS m Hlt HInv.
  - cbn [ref_chain] in Href. destruct (isempty name) eqn:En; injection Href as <- <-; [now apply Base|congruence].
  - cbn [ref_chain] in Href. destruct (isempty name) eqn:En; [injection Href as <- <-; now apply Base|].
    destruct f' as [|f'']; [lia|]. assert (Hlt' : (f0 < f'')%nat) by lia.
    rewrite chain_unfold by exact En.
    destruct (resolve (files e) (cwd e) name) as [[id [c|]]|] eqn:Hres.
    + (* a regular file *)
      destruct (existsb (beq id) seen) eqn:Eseen.
      * (* the file was read before: the reference says loop *)
        injection Href as <- <-.
        destruct (existsb (beq name) visS) eqn:Ev; [reflexivity|].
        apply existsb_beq_In in Eseen. destruct HInv as [I1 I2].
        destruct (I1 _ Eseen) as (c' & fm & Hget & Hparse & Hnext).
        rewrite (resolve_get _ _ _ _ _ Hres) in Hget. injection Hget as <-.
        unfold read_config. rewrite Hres, Hparse.
        assert (Hne : isempty (fm CF_cfKey_configfile) = false).
        { apply isempty_false. destruct Hnext as [<-|Hin]; [now apply isempty_false|]. now destruct (I2 _ Hin). }
        destruct f'' as [|f3]; [lia|]. rewrite chain_unfold by exact Hne.
        assert (Hx : existsb (beq (fm CF_cfKey_configfile)) (name :: visS) = true).
        { apply existsb_beq_In. destruct Hnext as [<-|Hin]; [now left|now right]. }
        now rewrite Hx.
      * rewrite (not_visited _ _ _ _ _ _ HInv Hres) by now left.
        destruct (spec_file c) as [ps|] eqn:Espec.
        -- destruct (ref_chain e f0 (id :: seen) (file_value ps K_CONF)) as [rest fin'] eqn:Erec.
           injection Href as <- <-. inversion Hgood as [|? ? [Hd Hn] Hrest]; subst. cbn [fst snd] in Hd, Hn.
           destruct (file_equiv _ _ Hd Hn Espec) as (fm & Hparse & Hfm).
           unfold read_config. rewrite Hres, Hparse.
           assert (Hnext : fm CF_cfKey_configfile = file_value ps K_CONF) by apply Hfm.
           rewrite Hnext.
           assert (HInv' : Inv e (name :: visS) (id :: seen) (file_value ps K_CONF)).
           { destruct HInv as [I1 I2]. split.
             - intros id' [<-|Hin].
               + exists c, fm. split; [now apply (resolve_get _ _ _ _ _ Hres)|]. split; [exact Hparse|]. left. now rewrite Hnext.
               + destruct (I1 _ Hin) as (c' & fm' & G1 & G2 & G3). exists c', fm'. repeat split; auto. now right.
             - intros t [<-|Hin].
               + split; [now apply isempty_false|]. exists id, c. split; [exact Hres|now left].
               + destruct (I2 _ Hin) as (G1 & id' & c' & G2 & G3). split; [exact G1|]. exists id', c'. split; [exact G2|now right]. }
           specialize (IH _ _ _ _ Erec Hfin Hrest f'' (name :: visS) (merge m fm) Hlt' HInv').
           destruct fin'; [| exact IH | exact I].
           destruct IH as (m' & Hc & Hm'). exists m'. split; [exact Hc|]. intros k. rewrite Hm'. cbn [map snd].
           rewrite fne_merge. now rewrite Hfm.
        -- injection Href as <- <-. unfold read_config. now rewrite Hres, (file_none _ Espec).
    + (* a directory *)
      injection Href as <- <-.
      rewrite (not_visited _ _ _ _ _ _ HInv Hres) by (right; discriminate).
      unfold read_config. now rewrite Hres.
    + (* nothing there *)
      injection Href as <- <-.
      assert (Ev : existsb (beq name) visS = false).
      { apply existsb_beq_notIn. intros Hin. destruct HInv as [_ I2]. destruct (I2 _ Hin) as (_ & id' & c' & Hr' & _). congruence. }
      rewrite Ev. unfold read_config. now rewrite Hres.
Qed.

(* the reference walk never runs out of fuel *)
Lemma ref_chain_total e : forall f seen name,
  NoDup seen -> incl seen (map fst (files e)) -> (f + length seen > length (files e))%nat ->
  snd (ref_chain e f seen name) <> EndFuel.
Proof.
  induction f as [|f0 IH]; intros seen name Hnd Hincl Hf; cbn [ref_chain].
  - destruct (isempty name); [discriminate|]. exfalso.
    pose proof (NoDup_incl_length Hnd Hincl) as H. rewrite map_length in H. cbn in Hf. lia.
  - destruct (isempty name); [discriminate|].
    destruct (resolve (files e) (cwd e) name) as [[id [c|]]|] eqn:Hres; try discriminate.
    destruct (existsb (beq id) seen) eqn:Es; [discriminate|].
    destruct (spec_file c) as [ps|]; [|discriminate].
    specialize (IH (id :: seen) (file_value ps K_CONF)).
    destruct (ref_chain e f0 (id :: seen) (file_value ps K_CONF)) as [rest fin']. cbn [snd] in *. apply IH.
    + constructor; [now apply existsb_beq_notIn|exact Hnd].
    + intros x [<-|Hx]; [|now apply Hincl]. apply resolve_get, fs_get_In in Hres.
      apply in_map_iff. exists (id, NFile c). split; [reflexivity|exact Hres].
    + cbn [length]. lia.
Qed.
Lemma ref_chain_top_total e : snd (ref_chain e (ref_fuel e) [] (ref_start e)) <> EndFuel.
Proof.
  apply ref_chain_total; [constructor|intros x []|]. unfold ref_fuel. cbn. lia.
Qed.

(* ------------------------------------------------------------------ which file is read first *)
Definition scope_start (e : env) : bool :=
  negb (isempty (sw_conf e))
  || (is_clean_abs (argv0 e) && negb (is_file (files e) (cwd e) (bs "/etc/layercake.conf"%string))).

Lemma find_app {A} (f : A -> bool) l1 l2 :
  find f (l1 ++ l2) = match find f l1 with Some x => Some x | None => find f l2 end.
Proof. induction l1 as [|x l1 IH]; cbn; [reflexivity|]. destruct (f x); [reflexivity|exact IH]. Qed.

Lemma start_equiv e : scope_start e = true -> start_file e = ref_start e.
Proof.
  unfold scope_start, start_file, ref_start. destruct (isempty (sw_conf e)); cbn [negb orb]; [|reflexivity].
  intros H. apply andb_true_iff in H as [_ H]. apply negb_true_iff in H.
  unfold first_file, candidates, exe_conf. rewrite !find_app.
  destruct (find _ (if isempty (layerconf e) then [] else [layerconf e])); [reflexivity|].
  destruct (find _ (if isempty (home e) then [] else [home e ++ bs "/.layercake"%string])); [reflexivity|].
  destruct (isempty (pathdir (pathdir (argv0 e)))) eqn:Ep.
  - apply isempty_true in Ep. rewrite Ep. cbn [app find]. now rewrite H.
  - cbn [find]. destruct (is_file _ _ (pathdir (pathdir (argv0 e)) ++ _)); [reflexivity|]. now rewrite H.
Qed.

(* ------------------------------------------------------------------ patchPaths, entry by entry *)
Lemma path_entry_test e : (negb (e_type e =? CF_ss_dir)%N && negb (e_type e =? CF_ss_file)%N) = negb (is_path_entry e).
Proof. unfold is_path_entry. now rewrite negb_orb. Qed.

Lemma patch_entry_skip_type m e : is_path_entry e = false -> patch_entry m e = Some m.
Proof. intros H. unfold patch_entry. now rewrite path_entry_test, H. Qed.
Lemma patch_entry_skip_empty m e : m (e_key e) = [] -> patch_entry m e = Some m.
Proof. intros H. unfold patch_entry. rewrite H. cbn [isempty]. now rewrite orb_true_r. Qed.
Lemma patch_entry_abs m e : is_path_entry e = true -> m (e_key e) <> [] -> is_abs (m (e_key e)) = true ->
  patch_entry m e = Some (sset m (e_key e) (clean (m (e_key e)))).
Proof.
  intros Ht Hne Ha. unfold patch_entry. rewrite path_entry_test, Ht. apply isempty_false in Hne. rewrite Hne. cbn [negb orb].
  unfold is_abs in *. rewrite is_rooted_clean by now apply isempty_false. now rewrite Ha.
Qed.
Lemma patch_entry_rel m e : is_path_entry e = true -> m (e_key e) <> [] -> is_abs (m (e_key e)) = false ->
  m (e_rel e) <> [] -> is_abs (m (e_rel e)) = true ->
  patch_entry m e = Some (sset m (e_key e) (clean (m (e_rel e) ++ sl :: m (e_key e)))).
Proof.
  intros Ht Hne Ha Hr Hra. unfold patch_entry. rewrite path_entry_test, Ht.
  pose proof Hne as Hne'. apply isempty_false in Hne'. rewrite Hne'. cbn [negb orb].
  unfold is_abs in *. rewrite is_rooted_clean by exact Hne. rewrite Ha.
  pose proof Hr as Hr'. apply isempty_false in Hr'. rewrite Hr', Hra. cbn [negb orb].
  f_equal. f_equal. unfold pathjoin. cbn [filter].
  assert (E1 : beq (m (e_rel e)) [] = false) by (destruct (m (e_rel e)); [congruence|reflexivity]).
  assert (E2 : beq (clean (m (e_key e))) [] = false).
  { pose proof (clean_nonempty (m (e_key e))). destruct (clean (m (e_key e))); [congruence|reflexivity]. }
  rewrite E1, E2. cbn [negb pjoin join].
  destruct (clean (m (e_key e))) eqn:Ec; [now apply clean_nonempty in Ec|]. rewrite <- Ec.
  now apply clean_join_clean.
Qed.
Lemma patch_entry_fail m e : is_path_entry e = true -> m (e_key e) <> [] -> is_abs (m (e_key e)) = false ->
  m (e_rel e) = [] -> patch_entry m e = None.
Proof.
  intros Ht Hne Ha Hr. unfold patch_entry. rewrite path_entry_test, Ht. pose proof Hne as Hne'. apply isempty_false in Hne'. rewrite Hne'.
  cbn [negb orb]. unfold is_abs in *. rewrite is_rooted_clean by exact Hne. rewrite Ha, Hr. reflexivity.
Qed.

Definition dirv (M : smap) (k : N) : bytes :=
  if is_abs (M k) then clean (M k) else clean (clean (M 1%N) ++ sl :: M k).

(* a directory setting relative to setting 1, which is already clean and absolute *)
Lemma patch_entry_dir m M e : is_path_entry e = true -> e_rel e = 1%N -> m (e_key e) = M (e_key e) ->
  M (e_key e) <> [] -> m 1%N = clean (M 1%N) -> is_abs (M 1%N) = true ->
  patch_entry m e = Some (sset m (e_key e) (dirv M (e_key e))).
Proof.
  intros Ht Hrel Hk Hne H1 Ha. unfold dirv. destruct (is_abs (M (e_key e))) eqn:Ek.
  - rewrite patch_entry_abs; rewrite ?Hk; auto.
  - rewrite patch_entry_rel; rewrite ?Hk, ?Hrel, ?H1; auto.
    + apply clean_nonempty.
    + unfold is_abs in *. now apply clean_rooted.
Qed.

Ltac ev := unfold sset; cbn [N.eqb Pos.eqb].

Lemma patch_tail M m2 : (forall k, k <> 2%N -> m2 k = sset M 1%N (clean (M 1%N)) k) ->
  is_abs (M 1%N) = true -> M 3%N <> [] -> M 9%N <> [] -> M 12%N <> [] -> is_abs (M 12%N) = true ->
  patch_paths (tl (tl tblc)) m2
  = Some (sset (sset (sset m2 3%N (dirv M 3%N)) 9%N (dirv M 9%N)) 12%N (clean (M 12%N))).
Proof.
  intros Hm2 Ha H3 H9 H12 Ha12. unfold tblc, CF_settingSetup. cbn [tl].
  assert (G : forall k, k <> 2%N -> k <> 1%N -> m2 k = M k).
  { intros k K2 K1. rewrite Hm2 by exact K2. now apply sset_other. }
  assert (G1 : m2 1%N = clean (M 1%N)) by (rewrite Hm2 by discriminate; apply sset_same).
  (* LAYERS *)
  rewrite patch_paths_cons.
  erewrite (patch_entry_dir m2 M); [|reflexivity|reflexivity|cbn [e_key]; apply G; discriminate|exact H3|exact G1|exact Ha].
  cbn [e_key].
  (* BUILDROOT .. OVERFS_UPPERDIR *)
  do 5 (rewrite patch_paths_cons, patch_entry_skip_type by reflexivity).
  (* EXPORTS *)
  rewrite patch_paths_cons.
  erewrite (patch_entry_dir _ M); [|reflexivity|reflexivity| | exact H9 | |exact Ha].
  2:{ cbn [e_key]. ev. apply G; discriminate. }
  2:{ ev. exact G1. }
  cbn [e_key].
  do 2 (rewrite patch_paths_cons, patch_entry_skip_type by reflexivity).
  (* CHROOT_EXEC *)
  rewrite patch_paths_cons.
  assert (E12 : sset (sset m2 3%N (dirv M 3%N)) 9%N (dirv M 9%N) 12%N = M 12%N) by (ev; apply G; discriminate).
  rewrite patch_entry_abs; cbn [e_key]; rewrite ?E12; auto.
Qed.

Lemma patch_concrete M : M 0%N = [] -> M 1%N <> [] -> (M 2%N = [] \/ is_abs (M 2%N) = true) ->
  M 3%N <> [] -> M 9%N <> [] -> M 12%N <> [] -> is_abs (M 12%N) = true ->
  if is_abs (M 1%N) then
    exists m2, patch_paths tblc M = Some m2
      /\ m2 1%N = clean (M 1%N) /\ m2 3%N = dirv M 3%N /\ m2 9%N = dirv M 9%N /\ m2 12%N = clean (M 12%N)
      /\ (forall k, In k [4; 5; 6; 7; 8; 10; 11]%N -> m2 k = M k)
  else patch_paths tblc M = None.
Proof.
  intros H0 H1 H2 H3 H9 H12 Ha12.
  destruct (is_abs (M 1%N)) eqn:Ha.
  - assert (Final : forall m2, (forall k, k <> 2%N -> m2 k = sset M 1%N (clean (M 1%N)) k) ->
              exists mf, Some (sset (sset (sset m2 3%N (dirv M 3%N)) 9%N (dirv M 9%N)) 12%N (clean (M 12%N))) = Some mf
                   /\ mf 1%N = clean (M 1%N) /\ mf 3%N = dirv M 3%N /\ mf 9%N = dirv M 9%N /\ mf 12%N = clean (M 12%N)
                   /\ (forall k, In k [4; 5; 6; 7; 8; 10; 11]%N -> mf k = M k)).
    { intros m2 Hm2. eexists. split; [reflexivity|].
      repeat split; try (ev; reflexivity).
      - ev. rewrite Hm2 by discriminate. apply sset_same.
      - intros k Hk. cbn in Hk.
        repeat (destruct Hk as [<-|Hk]; [ev; rewrite Hm2 by discriminate; ev; reflexivity|]). destruct Hk. }
    unfold tblc at 1. unfold CF_settingSetup. rewrite patch_paths_cons.
    rewrite patch_entry_abs; [|reflexivity|exact H1|exact Ha]. cbn [e_key].
    rewrite patch_paths_cons.
    destruct H2 as [E2|A2].
    + rewrite patch_entry_skip_empty by (cbn [e_key]; ev; exact E2).
      change (patch_paths _ (sset M 1%N (clean (M 1%N)))) with (patch_paths (tl (tl tblc)) (sset M 1%N (clean (M 1%N)))).
      rewrite (patch_tail M); auto.
    + assert (N2 : M 2%N <> []) by (intros E; rewrite E in A2; discriminate).
      rewrite patch_entry_abs; [|reflexivity|cbn [e_key]; ev; exact N2|cbn [e_key]; ev; exact A2]. cbn [e_key].
      match goal with |- context [patch_paths _ ?mm] =>
        change (patch_paths _ mm) with (patch_paths (tl (tl tblc)) mm);
        assert (Hmm : forall k, k <> 2%N -> mm k = sset M 1%N (clean (M 1%N)) k) by (intros k Hk; now apply sset_other) end.
      rewrite (patch_tail M); auto.
  - unfold tblc, CF_settingSetup. rewrite patch_paths_cons, patch_entry_fail; auto.
Qed.

(* ------------------------------------------------------------------ defaults *)
Lemma defaults_agree k : defaults_of tblc k = doc_default k.
Proof.
  destruct k as [|p]; [reflexivity|].
  do 4 (try destruct p as [p|p|]); vm_compute; reflexivity.
Qed.

Lemma fne_last_nonempty l d : d <> [] -> first_nonempty (l ++ [d]) <> [].
Proof.
  intros Hd. rewrite fne_app, fne_single. destruct (isempty (first_nonempty l)) eqn:E; [exact Hd|now apply isempty_false].
Qed.
Lemma fne_all (P : bytes -> Prop) l : Forall (fun x => x = [] \/ P x) l -> first_nonempty l = [] \/ P (first_nonempty l).
Proof.
  induction 1 as [|x l Hx _ IH]; [now left|]. rewrite fne_cons. destruct (isempty x) eqn:E; [exact IH|].
  destruct Hx as [->|Hx]; [discriminate|now right].
Qed.

Lemma outcome_beq_refl o : outcome_beq o o = true.
Proof.
  destruct o as [v|x| |]; cbn; auto.
  - induction v as [|a v IH]; cbn; auto. now rewrite beq_refl.
  - now destruct x.
Qed.

(* ------------------------------------------------------------------ the main theorem *)
Theorem load_is_reference e r : kf_env e = 0%N -> reference e = RRes r -> load e = r.
Proof.
  unfold kf_env, reference.
  pose proof (ref_chain_top_total e) as Htot.
  destruct (ref_chain e (ref_fuel e) [] (ref_start e)) as [lst fin] eqn:Href. cbn [snd] in Htot.
  intros Hkf. destruct (existsb (fun f => uses_doc_only_key (fst f)) lst) eqn:Ekf; [discriminate|]. clear Hkf.
  destruct (ref_scope e lst) eqn:Escope; cbn [negb]; [|discriminate].
  unfold ref_scope in Escope. apply andb_true_iff in Escope as [Es1 Es2]. fold (scope_start e) in Es1.
  rewrite forallb_forall in Es2. apply existsb_false_all in Ekf. rewrite Forall_forall in Ekf.
  assert (Hgood : Forall good lst).
  { apply Forall_forall. intros f Hf. split; [now apply Ekf|]. specialize (Es2 f Hf). now apply andb_true_iff in Es2 as [Es2 _]. }
  assert (Hconf : forall f, In f lst -> file_value (snd f) K_CONF = [] \/ is_abs (file_value (snd f) K_CONF) = true).
  { intros f Hf. specialize (Es2 f Hf). apply andb_true_iff in Es2 as [_ Es2]. apply orb_true_iff in Es2 as [Es2|Es2]; [left; now apply isempty_true|now right]. }
  assert (HInv : Inv e [] [] (ref_start e)) by (split; intros ? []).
  pose proof (chain_equiv e _ _ _ _ _ Href Htot Hgood (load_fuel e) [] (sset sempty CF_cfKey_basepath (base0 e))
                ltac:(unfold load_fuel, ref_fuel; lia) HInv) as Hch.
  rewrite <- (start_equiv e Es1) in Hch.
  unfold load, load_with. fold (base0 e). fold tblc.
  destruct fin as [|x|]; [|rewrite Hch; intros H; now injection H as <-|congruence].
  destruct Hch as (m' & Hc & Hm'). rewrite Hc.
  set (fvs := fun k => map (fun cf : bytes * list (N * bytes) => file_value (snd cf) k) lst) in *.
  set (raw := raw_value e lst).
  set (M := merge m' (defaults_of tblc)).
  assert (HM : forall k, M k = raw k).
  { intros k. unfold M, merge, raw, raw_value. fold (fvs k). rewrite Hm', defaults_agree. rewrite !fne_app, fne_cons, fne_single.
    assert (Ha : first_nonempty (if (k =? K_BASE)%N then [sw_base e; layerroot e] else []) = sset sempty CF_cfKey_basepath (base0 e) k).
    { unfold sset, base0. change CF_cfKey_basepath with K_BASE. destruct (k =? K_BASE)%N; [|reflexivity].
      rewrite !fne_cons. destruct (isempty (sw_base e)); [|reflexivity]. destruct (layerroot e); reflexivity. }
    rewrite Ha. destruct (isempty (sset sempty CF_cfKey_basepath (base0 e) k)) eqn:E; [reflexivity|]. now rewrite E. }
  assert (H0 : M 0%N = []).
  { unfold M, merge. rewrite (chain_frame _ _ 0%N table_no_key0 _ _ _ _ _ Hc). reflexivity. }
  assert (Hne : forall k, doc_default k <> [] -> M k <> []).
  { intros k Hd. rewrite HM. unfold raw, raw_value. rewrite app_assoc. now apply fne_last_nonempty. }
  assert (H2 : M 2%N = [] \/ is_abs (M 2%N) = true).
  { rewrite HM. unfold raw, raw_value. apply (fne_all (fun x => is_abs x = true)). cbn [N.eqb Pos.eqb K_BASE app].
    apply Forall_app. split; [|constructor; [now left|constructor]].
    apply Forall_forall. intros x Hx. apply in_map_iff in Hx as (f & <- & Hf). now apply Hconf. }
  unfold resolve_paths.
  destruct (is_abs (raw K_BASE)) eqn:Eb; cbn [negb].
  2:{ intros H. injection H as <-.
      pose proof (patch_concrete M H0 (Hne 1%N ltac:(discriminate)) H2 (Hne 3%N ltac:(discriminate)) (Hne 9%N ltac:(discriminate)) (Hne 12%N ltac:(discriminate))) as P.
      destruct (is_abs (raw K_CHROOT)) eqn:Ec.
      - specialize (P ltac:(rewrite HM; exact Ec)). rewrite HM in P. change (raw 1%N) with (raw K_BASE) in P. rewrite Eb in P. now rewrite P.
      - (* chroot exec relative as well: the base path fails first *)
        unfold tblc, CF_settingSetup. rewrite patch_paths_cons, patch_entry_fail; auto.
        + apply Hne. discriminate.
        + cbn [e_key]. rewrite HM. exact Eb. }
  destruct (is_abs (raw K_CHROOT)) eqn:Ec; cbn [negb]; [|discriminate].
  intros H. injection H as <-.
  pose proof (patch_concrete M H0 (Hne 1%N ltac:(discriminate)) H2 (Hne 3%N ltac:(discriminate)) (Hne 9%N ltac:(discriminate))
                (Hne 12%N ltac:(discriminate)) ltac:(rewrite HM; exact Ec)) as P.
  rewrite HM in P. change (raw 1%N) with (raw K_BASE) in P. rewrite Eb in P.
  destruct P as (m2 & -> & P1 & P3 & P9 & P12 & Pv). f_equal.
  unfold out_keys, result_keys. cbn [map].
  change CF_cfKey_basepath with 1%N. change CF_cfKey_layerdirs with 3%N. change CF_cfKey_buildroot with 4%N.
  change CF_cfKey_binpkgdir with 5%N. change CF_cfKey_gendir with 6%N. change CF_cfKey_workdir with 7%N.
  change CF_cfKey_upperdir with 8%N. change CF_cfKey_exportroot with 9%N. change CF_cfKey_exportpkgdir with 10%N.
  change CF_cfKey_exportgendir with 11%N. change CF_cfKey_chrootexec with 12%N.
  unfold K_BASE, K_LAYERS, K_EXPORTS, K_CHROOT. cbn [N.eqb Pos.eqb orb].
  rewrite P1, P3, P9, P12. rewrite !Pv by (cbn; tauto). unfold dirv. rewrite !HM. reflexivity.
Qed.

Lemma binview_beq_refl b : binview_beq b b = true.
Proof. destruct b; cbn; auto. now rewrite !beq_refl. Qed.

Theorem C18_holds_proof : forall c, wf c = true -> kf c = 0%N -> spec c (model c) = true.
Proof.
  intros c _ Hkf. unfold spec, model. cbn [o_load o_bin]. apply andb_true_iff. split.
  - unfold paths_ok. destruct (load (c_env c)) as [vals| | |] eqn:E; auto.
    destruct (load_paths_clean_abs _ _ E) as (A & B & C). now rewrite A, B, C.
  - destruct (reference (c_env c)) as [|r] eqn:Er; [reflexivity|].
    rewrite (load_is_reference _ _ Hkf Er). rewrite outcome_beq_refl. cbn [andb].
    destruct (c_binrun c); [apply binview_beq_refl|reflexivity].
Qed.

(* ------------------------------------------------------------------ errors of the chain walk *)
Definition ref_walk (e : env) := ref_chain e (ref_fuel e) [] (ref_start e).
Definition in_scope (e : env) : bool := ref_scope e (fst (ref_walk e)).

Lemma load_chain_cases e : kf_env e = 0%N -> in_scope e = true ->
  match snd (ref_walk e) with
  | EndErr x => load e = OErr x
  | EndOk => load e = OErr ENoAbs \/ exists v, load e = OOk v
  | EndFuel => False
  end.
Proof.
  unfold kf_env, in_scope, ref_walk.
  pose proof (ref_chain_top_total e) as Htot.
  destruct (ref_chain e (ref_fuel e) [] (ref_start e)) as [lst fin] eqn:Href. cbn [snd fst] in *.
  intros Hkf. destruct (existsb (fun f => uses_doc_only_key (fst f)) lst) eqn:Ekf; [discriminate|]. clear Hkf.
  intros Escope. unfold ref_scope in Escope. apply andb_true_iff in Escope as [Es1 Es2]. fold (scope_start e) in Es1.
  rewrite forallb_forall in Es2. apply existsb_false_all in Ekf. rewrite Forall_forall in Ekf.
  assert (Hgood : Forall good lst).
  { apply Forall_forall. intros f Hf. split; [now apply Ekf|]. specialize (Es2 f Hf). now apply andb_true_iff in Es2 as [Es2 _]. }
  assert (HInv : Inv e [] [] (ref_start e)) by (split; intros ? []).
  pose proof (chain_equiv e _ _ _ _ _ Href Htot Hgood (load_fuel e) [] (sset sempty CF_cfKey_basepath (base0 e))
                ltac:(unfold load_fuel, ref_fuel; lia) HInv) as Hch.
  rewrite <- (start_equiv e Es1) in Hch.
  unfold load, load_with. fold (base0 e). fold tblc.
  destruct fin as [|x|]; [|now rewrite Hch|congruence].
  destruct Hch as (m' & -> & _). destruct (patch_paths _ _); [right; eauto|now left].
Qed.

(* a chain that revisits a file (under any spelling of its name) is reported as a loop, and
   a loop is reported only then; likewise for unknown keys and unreadable files *)
Theorem chain_error_iff e x : kf_env e = 0%N -> in_scope e = true -> x <> ENoAbs ->
  (snd (ref_walk e) = EndErr x <-> load e = OErr x).
Proof.
  intros Hkf Hs Hx. pose proof (load_chain_cases e Hkf Hs) as H.
  destruct (snd (ref_walk e)) as [|y|]; [| |contradiction].
  - split; [discriminate|]. intros E. destruct H as [H|(v & H)]; rewrite H in E; [injection E as <-; congruence|discriminate].
  - split; [intros E; injection E as ->; exact H|]. intros E. rewrite H in E. now injection E as ->.
Qed.

(* whatever its value, a key that is not in the table makes readConfigFile fail *)
Lemma parse_lines_bad tbl ls : forall m raw, In raw ls -> parse_line tbl raw = LBad -> parse_lines tbl ls m = None.
Proof.
  induction ls as [|l r IH]; intros m raw; [intros []|]. intros [->|Hin] Hb; cbn [parse_lines].
  - now rewrite Hb.
  - destruct (parse_line tbl l); [eapply IH; eauto|eapply IH; eauto|reflexivity].
Qed.
Theorem unknown_key_rejected content raw :
  In raw (lines_of content) -> isempty (utrim raw) || is_comment (utrim raw) = false ->
  key_lookup tblc (upper_key (utrim (fst (split2 (nb 61) (utrim raw))))) = None ->
  parse_file tblc content = None.
Proof.
  intros Hin Hb Hk. unfold parse_file. eapply parse_lines_bad; [exact Hin|].
  unfold parse_line. rewrite Hb. destruct (split2 (nb 61) (utrim raw)) as [k ov]. cbn [fst] in Hk. now rewrite Hk.
Qed.

(* ------------------------------------------------------------------ witnesses *)
Definition mk (e : env) : case := MkCase e true (MkObs (load e) (Some (bin_view (load e)))).

(* known finding 1: the documented spelling WORKDIR is rejected *)
Definition kf1_env : env :=
  MkEnv (bs "/a.conf"%string) [] [] [] [] (bs "/usr/bin/layercake"%string) (bs "/"%string)
    [(bs "/"%string, NDir); (bs "/a.conf"%string, NFile (bs "WORKDIR = overlayfs/workdir"%string))].
Theorem refuted_1 : exists c, wf c = true /\ kf c = 1%N /\ spec c (model c) = false.
Proof. exists (mk kf1_env). vm_compute. auto. Qed.

(* the hypotheses of the main theorems are satisfiable by a non-trivial input: two chained
   files reached through another spelling, LAYERROOT competing with BASEPATH, a relative LAYERS *)
Definition ex_env : env :=
  MkEnv (bs "/c/../c/a.conf"%string) [] (bs "/srv//cake/"%string) [] [] (bs "/usr/bin/layercake"%string) (bs "/c"%string)
    [(bs "/"%string, NDir); (bs "/c"%string, NDir);
     (bs "/c/a.conf"%string, NFile (bs "# first
 layers = my/../layers2
CONFIGFILE=/c/./b.conf
"%string));
     (bs "/c/b.conf"%string, NFile (bs "BASEPATH = /ignored
LAYERS = /also/ignored
exports = /x//y/
buildroot = bld"%string))].
Example ex_env_ok : wf (mk ex_env) = true /\ kf (mk ex_env) = 0%N /\ in_scope ex_env = true
  /\ reference ex_env = RRes (OOk [bs "/srv/cake"%string; bs "/srv/cake/layers2"%string; bs "bld"%string;
       bs "packages"%string; bs "generated"%string; bs "overlayfs/workdir"%string; bs "overlayfs/upperdir"%string;
       bs "/x/y"%string; bs "packages"%string; bs "generated"%string; bs "/usr/bin/chroot"%string]).
Proof. vm_compute. auto. Qed.
(* … and by a chain that comes back to its first file under another name *)
Definition ex_loop : env :=
  MkEnv (bs "/c/a.conf"%string) [] [] [] [] (bs "/usr/bin/layercake"%string) (bs "/c"%string)
    [(bs "/"%string, NDir); (bs "/c"%string, NDir);
     (bs "/c/a.conf"%string, NFile (bs "CONFIGFILE=/c/b.conf"%string));
     (bs "/c/b.conf"%string, NFile (bs "CONFIGFILE=/c/../c//a.conf"%string))].
Example ex_loop_ok : wf (mk ex_loop) = true /\ kf (mk ex_loop) = 0%N /\ in_scope ex_loop = true
  /\ snd (ref_walk ex_loop) = EndErr ELoop /\ load ex_loop = OErr ELoop.
Proof. vm_compute. auto. Qed.
(* the base-path override theorem applies to ex_env (LAYERROOT = /srv//cake/ beats BASEPATH of b.conf) *)
Example ex_env_override : (exists vals, load ex_env = OOk vals)
  /\ (if isempty (sw_base ex_env) then layerroot ex_env else sw_base ex_env) <> [].
Proof. split; [eexists; vm_compute; reflexivity|vm_compute; discriminate]. Qed.
(* an unknown key without any value, and stray text, satisfy the premises of unknown_key_rejected *)
Example ex_unknown : let content := bs "BASEPATH = /x
[section]
"%string in
  In (bs "[section]"%string) (lines_of content)
  /\ isempty (utrim (bs "[section]"%string)) || is_comment (utrim (bs "[section]"%string)) = false
  /\ key_lookup tblc (upper_key (utrim (fst (split2 (nb 61) (utrim (bs "[section]"%string)))))) = None.
Proof. vm_compute. auto. Qed.
Example ex_clean_join : let b := bs "/srv/cake"%string in let v := bs "my/../layers2"%string in
  b <> [] /\ is_rooted b = true /\ v <> [] /\ is_rooted v = false
  /\ clean (b ++ sl :: v) = bs "/srv/cake/layers2"%string.
Proof. vm_compute. repeat split; try discriminate; reflexivity. Qed.
(* a file that supplies every setting and names itself as CONFIGFILE: nothing later in the chain
   could change a value, and the chain is still followed and reported as a loop *)
Definition ex_complete_loop : env :=
  MkEnv (bs "/c/a.conf"%string) [] [] [] [] (bs "/usr/bin/layercake"%string) (bs "/c"%string)
    [(bs "/"%string, NDir); (bs "/c"%string, NDir);
     (bs "/c/a.conf"%string, NFile (bs "BASEPATH = /srv/cake
LAYERS = layers
BUILDROOT = build
BINPKGS = packages
GENERATED_FILES = generated
OVERFS_WORKDIR = overlayfs/workdir
OVERFS_UPPERDIR = overlayfs/upperdir
EXPORTS = export
EXPORT_BINPKGS = packages
EXPORT_GENERATED_FILES = generated
CHROOT_EXEC = /usr/bin/chroot
CONFIGFILE = /c/./a.conf
"%string))].
Example ex_complete_loop_ok : wf (mk ex_complete_loop) = true /\ kf (mk ex_complete_loop) = 0%N
  /\ in_scope ex_complete_loop = true /\ reference ex_complete_loop = RRes (OErr ELoop)
  /\ load ex_complete_loop = OErr ELoop.
Proof. vm_compute. auto. Qed.
