(* C18 -- constants of Gen/Consts.v (rewritten from the source of /repo by tools/genconsts on
   every run) compared with literals, one lemma per constant so that the failing line names it.
   Used by: Model/Config.v runs on this table (C18.spec has its own table written from the manual, Cases/C18.v doc_keys / doc_default, so a changed default or key is a concrete failing input already; this theorem reports the edit even where no generated file reaches it).
   A changed constant makes this file fail to build; the check then reports
   "proof obligation no longer checks" for Properties/C18.v (C18_constants_pinned) instead of
   letting model, predicate and code move together unnoticed.  The literals are repeated, with
   their sources, in the statement of C18_constants_pinned. *)
From LC Require Import Lib.Bytes Gen.Consts.
Local Open Scope string_scope.

Lemma pin_D_BasePath :
  D_BasePath = bs "/var/lib/layercake".
Proof. (vm_compute; reflexivity) || fail "D_BasePath of the source tree differs from the reviewed literal (C18_constants_pinned)". Qed.

Lemma pin_D_Layerdirs :
  D_Layerdirs = bs "layers".
Proof. (vm_compute; reflexivity) || fail "D_Layerdirs of the source tree differs from the reviewed literal (C18_constants_pinned)". Qed.

Lemma pin_D_Builddir :
  D_Builddir = bs "build".
Proof. (vm_compute; reflexivity) || fail "D_Builddir of the source tree differs from the reviewed literal (C18_constants_pinned)". Qed.

Lemma pin_D_Pkgdir :
  D_Pkgdir = bs "packages".
Proof. (vm_compute; reflexivity) || fail "D_Pkgdir of the source tree differs from the reviewed literal (C18_constants_pinned)". Qed.

Lemma pin_D_Generateddir :
  D_Generateddir = bs "generated".
Proof. (vm_compute; reflexivity) || fail "D_Generateddir of the source tree differs from the reviewed literal (C18_constants_pinned)". Qed.

Lemma pin_D_Workdir :
  D_Workdir = bs "overlayfs/workdir".
Proof. (vm_compute; reflexivity) || fail "D_Workdir of the source tree differs from the reviewed literal (C18_constants_pinned)". Qed.

Lemma pin_D_Upperdir :
  D_Upperdir = bs "overlayfs/upperdir".
Proof. (vm_compute; reflexivity) || fail "D_Upperdir of the source tree differs from the reviewed literal (C18_constants_pinned)". Qed.

Lemma pin_D_Exportdirs :
  D_Exportdirs = bs "export".
Proof. (vm_compute; reflexivity) || fail "D_Exportdirs of the source tree differs from the reviewed literal (C18_constants_pinned)". Qed.

Lemma pin_D_ChrootExec :
  D_ChrootExec = bs "/usr/bin/chroot".
Proof. (vm_compute; reflexivity) || fail "D_ChrootExec of the source tree differs from the reviewed literal (C18_constants_pinned)". Qed.

Lemma pin_CF_ss_value :
  CF_ss_value = 0%N.
Proof. (vm_compute; reflexivity) || fail "CF_ss_value of the source tree differs from the reviewed literal (C18_constants_pinned)". Qed.

Lemma pin_CF_ss_file :
  CF_ss_file = 1%N.
Proof. (vm_compute; reflexivity) || fail "CF_ss_file of the source tree differs from the reviewed literal (C18_constants_pinned)". Qed.

Lemma pin_CF_ss_dir :
  CF_ss_dir = 2%N.
Proof. (vm_compute; reflexivity) || fail "CF_ss_dir of the source tree differs from the reviewed literal (C18_constants_pinned)". Qed.

Lemma pin_CF_cfKey_none_CF_cfKey_basepath_CF_cfKey_configfile_CF_cfKey_layerdirs_CF_cfKey_buildroot_CF_cfKey_binpkgdir_CF_cfKey_gendir :
  (CF_cfKey_none, CF_cfKey_basepath, CF_cfKey_configfile, CF_cfKey_layerdirs, CF_cfKey_buildroot, CF_cfKey_binpkgdir, CF_cfKey_gendir) = (0, 1, 2, 3, 4, 5, 6)%N.
Proof. (vm_compute; reflexivity) || fail "(CF_cfKey_none, CF_cfKey_basepath, CF_cfKey_configfile, C... of the source tree differs from the reviewed literal (C18_constants_pinned)". Qed.

Lemma pin_CF_cfKey_workdir_CF_cfKey_upperdir_CF_cfKey_exportroot_CF_cfKey_exportpkgdir_CF_cfKey_exportgendir_CF_cfKey_chrootexec :
  (CF_cfKey_workdir, CF_cfKey_upperdir, CF_cfKey_exportroot, CF_cfKey_exportpkgdir, CF_cfKey_exportgendir, CF_cfKey_chrootexec) = (7, 8, 9, 10, 11, 12)%N.
Proof. (vm_compute; reflexivity) || fail "(CF_cfKey_workdir, CF_cfKey_upperdir, CF_cfKey_exportroot... of the source tree differs from the reviewed literal (C18_constants_pinned)". Qed.

Lemma pin_CF_settingSetup :
  CF_settingSetup = [
    (1, 2, 0, bs "/var/lib/layercake", bs "BASEPATH");
    (2, 1, 0, bs "", bs "CONFIGFILE");
    (3, 2, 1, bs "layers", bs "LAYERS");
    (4, 0, 0, bs "build", bs "BUILDROOT");
    (5, 0, 0, bs "packages", bs "BINPKGS");
    (6, 0, 0, bs "generated", bs "GENERATED_FILES");
    (7, 0, 0, bs "overlayfs/workdir", bs "OVERFS_WORKDIR");
    (8, 0, 0, bs "overlayfs/upperdir", bs "OVERFS_UPPERDIR");
    (9, 2, 1, bs "export", bs "EXPORTS");
    (10, 0, 0, bs "packages", bs "EXPORT_BINPKGS");
    (11, 0, 0, bs "generated", bs "EXPORT_GENERATED_FILES");
    (12, 1, 0, bs "/usr/bin/chroot", bs "CHROOT_EXEC")]%N.
Proof. (vm_compute; reflexivity) || fail "CF_settingSetup of the source tree differs from the reviewed literal (C18_constants_pinned)". Qed.

Definition c18_constants_pinned := conj pin_D_BasePath (conj pin_D_Layerdirs (conj pin_D_Builddir (conj pin_D_Pkgdir (conj pin_D_Generateddir (conj pin_D_Workdir (conj pin_D_Upperdir (conj pin_D_Exportdirs (conj pin_D_ChrootExec (conj pin_CF_ss_value (conj pin_CF_ss_file (conj pin_CF_ss_dir (conj pin_CF_cfKey_none_CF_cfKey_basepath_CF_cfKey_configfile_CF_cfKey_layerdirs_CF_cfKey_buildroot_CF_cfKey_binpkgdir_CF_cfKey_gendir (conj pin_CF_cfKey_workdir_CF_cfKey_upperdir_CF_cfKey_exportroot_CF_cfKey_exportpkgdir_CF_cfKey_exportgendir_CF_cfKey_chrootexec pin_CF_settingSetup))))))))))))).
