(* C18 -- constants of Gen/Consts.v (rewritten from the source of /repo by tools/genconsts on
   every run) compared with literals.  Used by: Model/Config.v runs on this table (C18.spec has its own table written from the manual, Cases/C18.v doc_keys / doc_default, so a changed default or key is a concrete failing input already; this theorem reports the edit even where no generated file reaches it).
   A changed constant makes this file fail to build; the check then reports
   "proof obligation no longer checks" for Properties/C18.v (C18_constants_pinned) instead of
   letting model, predicate and code move together unnoticed. *)
From LC Require Import Lib.Bytes Gen.Consts.
Local Open Scope string_scope.

Lemma c18_constants_pinned :
  (* doc/layercake_config.adoc "Default configuration" *)
  D_BasePath = bs "/var/lib/layercake" /\
  (* doc/layercake_config.adoc "Default configuration" *)
  D_Layerdirs = bs "layers" /\
  (* doc/layercake_config.adoc "Default configuration" *)
  D_Builddir = bs "build" /\
  (* doc/layercake_config.adoc "Default configuration" *)
  D_Pkgdir = bs "packages" /\
  (* doc/layercake_config.adoc "Default configuration" *)
  D_Generateddir = bs "generated" /\
  (* doc/layercake_config.adoc "Default configuration" (the manual page's LAYER DIRECTORY section says overlay/workdir: NOTES-r5.md) *)
  D_Workdir = bs "overlayfs/workdir" /\
  (* doc/layercake_config.adoc "Default configuration" *)
  D_Upperdir = bs "overlayfs/upperdir" /\
  (* doc/layercake_config.adoc "Default configuration" *)
  D_Exportdirs = bs "export" /\
  (* doc/layercake_config.adoc "Default configuration" *)
  D_ChrootExec = bs "/usr/bin/chroot" /\
  (* frozen from the reviewed tree *)
  CF_ss_value = 0%N /\
  (* frozen from the reviewed tree *)
  CF_ss_file = 1%N /\
  (* frozen from the reviewed tree *)
  CF_ss_dir = 2%N /\
  (* frozen from the reviewed tree (iota block) *)
  (CF_cfKey_none, CF_cfKey_basepath, CF_cfKey_configfile, CF_cfKey_layerdirs, CF_cfKey_buildroot, CF_cfKey_binpkgdir, CF_cfKey_gendir) = (0, 1, 2, 3, 4, 5, 6)%N /\
  (* frozen from the reviewed tree *)
  (CF_cfKey_workdir, CF_cfKey_upperdir, CF_cfKey_exportroot, CF_cfKey_exportpkgdir, CF_cfKey_exportgendir, CF_cfKey_chrootexec) = (7, 8, 9, 10, 11, 12)%N /\
  (* (key, kind: 0 value 1 file 2 directory, resolved against key, default, name in a configuration file): keys, kinds and defaults as in doc/layercake_config.adoc "Default configuration" and the manual page CONFIGURATION FILE; the spellings OVERFS_WORKDIR / OVERFS_UPPERDIR / CHROOT_EXEC differ from the manual's WORKDIR / UPPERDIR / CHROOTEXEC (known finding C18 id=1) *)
  CF_settingSetup = [
    (1, 2, 0, bs "/var/lib/layercake", bs "BASEPATH");
    (2, 1, 0, bs "", bs "CONFIGFILE");
    (3, 2, 1, bs "layers", bs "LAYERS");
    (4, 0, 0, bs "build", bs "BUILDROOT");
    (5, 0, 0, bs "packages", bs "BINPKGS");
    (6, 0, 0, bs "generated", bs "GENERATED_FILES");
    (7, 0, 0, bs "overlayfs/workdir", bs "OVERFS_WORKDIR");
    (8, 0, 0, bs "overlayfs/upperdir", bs "OVERFS_UPPERDIR");
    (9, 2, 1, bs "export", bs "EXPORTS");
    (10, 0, 0, bs "packages", bs "EXPORT_BINPKGS");
    (11, 0, 0, bs "generated", bs "EXPORT_GENERATED_FILES");
    (12, 1, 0, bs "/usr/bin/chroot", bs "CHROOT_EXEC")]%N.
Proof. repeat split; vm_compute; reflexivity. Qed.
