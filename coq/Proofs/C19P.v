(* Proofs of the C19 theorems: attribution, no prefix confusion, classification,
   survival of vanishing processes, and the per-case statement C19_holds. *)
From LC Require Import Lib.Bytes Lib.Lex Lib.Fields Lib.PathM Model.InUse Cases.Verdict Cases.C19 Proofs.InUseP.
Import C19.

(* ---------------------------------------------------------------- small facts *)
Lemma triple_beq_true (a b : triple) : triple_beq a b = true <-> a = b.
Proof.
  destruct a as [[p k] t], b as [[p' k'] t']. cbn. rewrite !andb_true_iff, !N.eqb_eq, beq_true.
  split; [intros [[-> ->] ->]; reflexivity|intros H; injection H as -> -> ->; auto].
Qed.
Lemma triple_beq_refl a : triple_beq a a = true.
Proof. now apply triple_beq_true. Qed.

Lemma subset_spec a b : subset a b = true <-> incl a b.
Proof.
  unfold subset, incl. rewrite forallb_forall. split; intros H x Hx.
  - apply H in Hx. apply existsb_exists in Hx as (y & Hy & E). apply triple_beq_true in E. now subst.
  - apply existsb_exists. exists x. split; [now apply H|apply triple_beq_refl].
Qed.

Lemma perm_beq_refl l : perm_beq l l = true.
Proof.
  unfold perm_beq. rewrite Nat.eqb_refl. cbn. apply forallb_forall. intros x _. apply Nat.eqb_refl.
Qed.

(* ---------------------------------------------------------------- the oracle made from a fault list *)
Lemma rid_beq_true a b : rid_beq a b = true -> a = b.
Proof. destruct a, b; cbn; try discriminate; auto; intros H; apply Nat.eqb_eq in H; now subst. Qed.

Lemma orc_of_some fs i r e : orc_of fs i r = Some e ->
  exists f, In f fs /\ f_proc f = i /\ f_rid f = r /\ f_err f = e.
Proof.
  induction fs as [|f fs IH]; cbn; [discriminate|].
  destruct (Nat.eqb (f_proc f) i && rid_beq (f_rid f) r) eqn:E.
  - intros H. injection H as <-. apply andb_true_iff in E as [E1 E2]. apply Nat.eqb_eq in E1.
    apply rid_beq_true in E2. exists f. auto.
  - intros H. destruct (IH H) as (f' & Hin & Hf). exists f'. auto.
Qed.

Lemma orc_of_unfaulted fs i : faulted fs i = false -> forall r, orc_of fs i r = None.
Proof.
  intros H r. destruct (orc_of fs i r) eqn:E; [|reflexivity].
  apply orc_of_some in E as (f & Hin & Hp & _). exfalso.
  assert (X : faulted fs i = true).
  { unfold faulted. apply existsb_exists. exists f. split; [assumption|]. now apply Nat.eqb_eq. }
  congruence.
Qed.

(* ---------------------------------------------------------------- the effective uses of one entry *)
Definition in_filter (ldir : bytes) (pid : N) (kt : N * bytes) : list triple :=
  match inside ldir (snd kt) with
  | Some tl => [(pid, fst kt, tl)]
  | None => []
  end.
(* what the scan reports for key K because of the entry p, on the specification side *)
Definition eff_uses (ldir : bytes) (o : rid -> option err) (p : proc) : list triple :=
  match proc_reads o p with
  | PReads _ items => flat_map (in_filter ldir (pid_of (p_name p))) (oks items)
  | _ => []
  end.

Lemma uses_unfold ldir p :
  uses ldir p = if is_process p then flat_map (in_filter ldir (pid_of (p_name p))) (links p) else [].
Proof. reflexivity. Qed.

Lemma contrib_eff d o p K : no_slash K = true ->
  map proj (contrib (d ++ [slc]) o p K) = eff_uses (d ++ slc :: K) o p.
Proof.
  intros HK. unfold contrib, eff_uses. destruct (proc_reads o p); try reflexivity.
  apply entries_inside. exact HK.
Qed.

Lemma eff_uses_sound ldir o p : incl (eff_uses ldir o p) (uses ldir p).
Proof.
  unfold eff_uses. destruct (proc_reads o p) as [| |prog items] eqn:E; try (intros x []).
  apply items_sound in E as (Hd & Hn & Hi). rewrite uses_unfold. unfold is_process. rewrite Hd, Hn. cbn.
  now apply flat_map_incl.
Qed.

Lemma eff_uses_complete ldir o p : (forall r, o r = None) -> eff_uses ldir o p = uses ldir p.
Proof.
  intros Ho. rewrite uses_unfold. unfold eff_uses, is_process.
  destruct (p_isdir p) eqn:Hd; [destruct (is_numeric (p_name p)) eqn:Hn|]; cbn [andb].
  - destruct (items_complete o p Ho Hd Hn) as (prog & items & -> & ->). reflexivity.
  - unfold proc_reads. rewrite Hd, Hn. reflexivity.
  - unfold proc_reads. rewrite Hd. reflexivity.
Qed.

(* ---------------------------------------------------------------- lo and hi *)
Lemma expected_hi_flat fs ldir ps : forall i, expected_from fs false ldir i ps = flat_map (uses ldir) ps.
Proof. induction ps as [|p ps IH]; intros i; cbn; [reflexivity|]. now rewrite IH. Qed.

Lemma expected_lo_in fs ldir ps x : forall i, In x (expected_from fs true ldir i ps) ->
  exists j p, nth_error ps j = Some p /\ faulted fs (i + j) = false /\ In x (uses ldir p).
Proof.
  induction ps as [|p ps IH]; intros i; cbn; [intros []|]. intros H. apply in_app_or in H as [H|H].
  - destruct (faulted fs i) eqn:E; [contradiction|]. exists 0%nat, p. rewrite Nat.add_0_r. auto.
  - destruct (IH _ H) as (j & q & Hn & Hf & Hx). exists (S j), q. rewrite Nat.add_succ_r. auto.
Qed.

Lemma readdir_lstat_keeps {A} (o : nat -> option err) (l : list A) : forall i ents,
  readdir_lstat o i l = Some ents -> forall j x, nth_error l j = Some x -> o (i + j)%nat = None -> In ((i + j)%nat, x) ents.
Proof.
  induction l as [|y l IH]; intros i ents H j x Hn Ho; [destruct j; discriminate|]. cbn in H.
  destruct j as [|j]; cbn in Hn.
  - injection Hn as ->. rewrite Nat.add_0_r in *. rewrite Ho in H.
    destruct (readdir_lstat o (S i) l); [|discriminate]. cbn in H. injection H as <-. now left.
  - rewrite Nat.add_succ_r in *. destruct (o i) as [[]|]; try discriminate.
    + now apply (IH (S i) ents H j x).
    + destruct (readdir_lstat o (S i) l) as [e2|] eqn:E2; [|discriminate]. cbn in H. injection H as <-.
      right. now apply (IH (S i) e2 E2 j x).
Qed.

Lemma readdir_lstat_fails {A} (o : nat -> option err) (l : list A) : forall i,
  readdir_lstat o i l = None -> exists j e, o j = Some e /\ e <> ENOENT.
Proof.
  induction l as [|y l IH]; intros i; cbn; [discriminate|].
  destruct (o i) as [e|] eqn:E.
  - destruct e; try (intros _; exists i; eexists; split; [exact E|discriminate]). apply IH.
  - destruct (readdir_lstat o (S i) l) eqn:E2; [discriminate|]. intros _. now apply (IH (S i)).
Qed.

(* ---------------------------------------------------------------- the whole scan *)
Lemma wf_layersdir_prefix d : wf_layersdir d = true -> fix_prefix d = d ++ [slc].
Proof.
  unfold wf_layersdir, last_not_slash. intros H. apply andb_true_iff in H as [H1 H2]. apply fix_prefix_dir.
  - destruct d as [|? [|? ?]]; try discriminate. cbn. lia.
  - destruct (rev d); [discriminate|]. now apply negb_true_iff in H2.
Qed.

Lemma keys_ok_nil : keys_ok [].
Proof. intros k []. Qed.

Lemma scan_loop_err d orc es : forall m, keys_ok m -> scan_loop (d ++ [slc]) orc es m = SErr ->
  exists i p, In (i, p) es /\ proc_reads (orc i) p = PFail.
Proof.
  induction es as [|[i p] es IH]; intros m Hk; cbn [scan_loop]; [discriminate|].
  unfold scan_proc. destruct (proc_reads (orc i) p) as [| |prog items] eqn:EP.
  - intros H. destruct (IH m Hk H) as (j & q & Hin & Hq). exists j, q. split; [now right|assumption].
  - intros _. exists i, p. split; [now left|assumption].
  - destruct (scan_links_get d (pid_of (p_name p)) prog items m Hk) as (m1 & H1 & Hk1 & _). rewrite H1.
    intros H. destruct (IH m1 Hk1 H) as (j & q & Hin & Hq). exists j, q. split; [now right|assumption].
Qed.

Lemma proc_fail_exe o p : proc_reads o p = PFail -> exists e, o RExe = Some e /\ e <> ENOENT /\ e <> EACCES /\ e <> ESRCH.
Proof.
  unfold proc_reads. destruct (negb (p_isdir p) || negb (is_numeric (p_name p))); [discriminate|].
  unfold read_link at 1. destruct (o RExe) as [e|].
  - destruct e; try discriminate; intros _; eexists; split; try reflexivity; repeat split; discriminate.
  - destruct (p_exe p); discriminate.
Qed.

(* the result of FindLayerUsers: an error only for a fault on /proc itself, a non-ENOENT
   lstat error, or a non-ENOENT/EACCES/ESRCH error of the first readlink of exe; otherwise, for
   every key, the concatenation of the contributions of the surviving entries in order *)
Theorem flu_cases d orc ps : wf_layersdir d = true ->
  (find_layer_users d orc ps = SErr
   /\ ((exists e, orc 0%nat RTopOpen = Some e) \/ (exists e, orc 0%nat RTopReaddir = Some e)
       \/ (exists j e, orc j RLstat = Some e /\ e <> ENOENT)
       \/ (exists j e, orc j RExe = Some e /\ e <> ENOENT /\ e <> EACCES /\ e <> ESRCH)))
  \/ exists m es, find_layer_users d orc ps = SOk m
       /\ readdir_lstat (fun i => orc i RLstat) 0 ps = Some es
       /\ keys_ok m
       /\ forall K, get m K = flat_map (fun ip => contrib (d ++ [slc]) (orc (fst ip)) (snd ip) K) es.
Proof.
  intros Hd. unfold find_layer_users. rewrite (wf_layersdir_prefix d Hd).
  destruct (orc 0%nat RTopOpen) as [e|] eqn:E1; [left; split; [reflexivity|left; eauto]|].
  destruct (orc 0%nat RTopReaddir) as [e|] eqn:E2; [left; split; [reflexivity|right; left; eauto]|].
  destruct (readdir_lstat _ 0 ps) as [es|] eqn:E3.
  - destruct (scan_loop_get d orc es [] keys_ok_nil) as [H|(m & H1 & H2 & H3)].
    + left. split; [exact H|]. right. right. right.
      destruct (scan_loop_err d orc es [] keys_ok_nil H) as (i & p & _ & Hp).
      apply proc_fail_exe in Hp as (e & He & Hne). exists i, e. auto.
    + right. exists m, es. repeat split; auto.
  - left. split; [reflexivity|]. right. right. left.
    apply readdir_lstat_fails in E3 as (j & e & He & Hne). exists j, e. auto.
Qed.

Theorem flu_never_panics d orc ps : wf_layersdir d = true -> find_layer_users d orc ps <> SPanic.
Proof. intros Hd. destruct (flu_cases d orc ps Hd) as [[-> _]|(m & es & -> & _)]; discriminate. Qed.

(* ---------------------------------------------------------------- (4) survival *)
Theorem scan_survives_vanish d orc ps : wf_layersdir d = true ->
  (forall i r e, orc i r = Some e -> vanish_ok r e = true) ->
  exists m, find_layer_users d orc ps = SOk m.
Proof.
  intros Hd Hv. destruct (flu_cases d orc ps Hd) as [[_ H]|(m & es & H & _)]; [exfalso|eauto].
  destruct H as [[e H]|[[e H]|[(j & e & H & Hne)|(j & e & H & Hne1 & Hne2 & Hne3)]]]; apply Hv in H; cbn in H;
  try discriminate; destruct e; try discriminate; congruence.
Qed.

(* ---------------------------------------------------------------- (1) attribution *)
(* what is reported for a one-component key, in terms of the entries that survive lstat *)
Lemma got_eff d orc m es K : wf_layersdir d = true -> no_slash K = true ->
  (forall K, get m K = flat_map (fun ip => contrib (d ++ [slc]) (orc (fst ip)) (snd ip) K) es) ->
  map proj (get m K) = flat_map (fun ip : nat * proc => eff_uses (d ++ slc :: K) (orc (fst ip)) (snd ip)) es.
Proof.
  intros Hd HK Hg. rewrite Hg, map_flat_map. apply flat_map_ext_in. intros [i p] _. now apply contrib_eff.
Qed.

(* soundness under any oracle: whatever is reported for K is a link of a process into layers/K *)
Theorem reported_only_if_inside d orc ps m K x : wf_layersdir d = true -> no_slash K = true ->
  find_layer_users d orc ps = SOk m -> In x (map proj (get m K)) ->
  exists p, In p ps /\ In x (uses (d ++ slc :: K) p).
Proof.
  intros Hd HK Hm Hx. destruct (flu_cases d orc ps Hd) as [[H _]|(m' & es & H & Hes & _ & Hg)]; [congruence|].
  rewrite Hm in H. injection H as <-. rewrite (got_eff d orc m es K Hd HK Hg) in Hx.
  apply in_flat_map in Hx as ([i p] & Hin & Hx). cbn [fst snd] in Hx.
  destruct (readdir_lstat_in _ _ _ _ Hes _ _ Hin) as [_ Hn]. apply nth_error_In in Hn.
  exists p. split; [assumption|]. now apply eff_uses_sound in Hx.
Qed.

(* exactness without faults: the list reported for K is, in order, the uses of layers/K *)
Theorem attribution_exact d ps K : wf_layersdir d = true -> no_slash K = true ->
  exists m, find_layer_users d no_faults ps = SOk m
    /\ map proj (get m K) = flat_map (uses (d ++ slc :: K)) ps.
Proof.
  intros Hd HK. destruct (scan_survives_vanish d no_faults ps Hd) as [m Hm]; [discriminate|].
  exists m. split; [assumption|].
  destruct (flu_cases d no_faults ps Hd) as [[H _]|(m' & es & H & Hes & _ & Hg)]; [congruence|].
  rewrite Hm in H. injection H as <-. rewrite (got_eff d no_faults m es K Hd HK Hg).
  rewrite readdir_lstat_none in Hes by reflexivity. injection Hes as <-.
  rewrite (flat_map_ext_in _ (fun ip : nat * proc => uses (d ++ slc :: K) (snd ip))).
  - apply flat_map_combine_seq.
  - intros [i p] _. cbn [fst snd]. now apply eff_uses_complete.
Qed.

Lemma in_uses ldir p pid k tl : In (pid, k, tl) (uses ldir p) <->
  is_process p = true /\ pid = pid_of (p_name p) /\ exists t, In (k, t) (links p) /\ inside ldir t = Some tl.
Proof.
  rewrite uses_unfold. destruct (is_process p); [|split; [intros []|intros [H _]; discriminate]].
  rewrite in_flat_map. split.
  - intros ([k' t] & Hin & Hx). unfold in_filter in Hx. cbn [fst snd] in Hx.
    destruct (inside ldir t) eqn:E; [|contradiction]. destruct Hx as [Hx|[]]. injection Hx as <- <- <-. eauto 6.
  - intros (_ & -> & t & Hin & HI). exists (k, t). split; [assumption|]. unfold in_filter. cbn [fst snd]. rewrite HI. now left.
Qed.

(* DESIGN's attribution_iff *)
Theorem attribution_iff d ps K pid k tl : wf_layersdir d = true -> no_slash K = true ->
  exists m, find_layer_users d no_faults ps = SOk m /\
   (In (pid, k, tl) (map proj (get m K))
    <-> exists p t, In p ps /\ is_process p = true /\ pid = pid_of (p_name p) /\ In (k, t) (links p)
          /\ ((t = d ++ slc :: K /\ tl = []) \/ t = (d ++ slc :: K) ++ slc :: tl)).
Proof.
  intros Hd HK. destruct (attribution_exact d ps K Hd HK) as (m & Hm & Hg). exists m. split; [assumption|].
  rewrite Hg, in_flat_map. split.
  - intros (p & Hp & Hx). apply in_uses in Hx as (Hpr & -> & t & Hin & HI). apply inside_spec in HI. eauto 10.
  - intros (p & t & Hp & Hpr & -> & Hin & HI). exists p. split; [assumption|]. apply in_uses.
    split; [assumption|]. split; [reflexivity|]. exists t. split; [assumption|]. now apply inside_spec.
Qed.

(* (2) a directory whose name merely extends K (K~removed, Kx, ...) is not inside K *)
Theorem no_prefix_confusion d K s t a : no_slash (K ++ s) = true -> s <> [] ->
  inside (d ++ slc :: K ++ s) t = Some a -> inside (d ++ slc :: K) t = None.
Proof.
  intros HKs Hs Ha. destruct (inside (d ++ slc :: K) t) as [b|] eqn:Hb; [exfalso|reflexivity].
  assert (HK : no_slash K = true).
  { apply no_slash_nosep. apply no_slash_nosep in HKs. intros Hin. apply HKs. apply in_or_app. now left. }
  destruct (inside_unique_layer d t (K ++ s) K a b HKs HK Ha Hb) as [E _].
  apply (f_equal (@length _)) in E. rewrite app_length in E. destruct s; [congruence|cbn in E; lia].
Qed.

(* and so such a link is never reported for K, whatever the oracle does *)
Theorem never_reported_for_prefix d orc ps m K : wf_layersdir d = true -> no_slash K = true ->
  find_layer_users d orc ps = SOk m ->
  (forall p k t, In p ps -> In (k, t) (links p) -> inside (d ++ slc :: K) t = None) ->
  get m K = [].
Proof.
  intros Hd HK Hm Hno. destruct (get m K) as [|u us] eqn:E; [reflexivity|exfalso].
  assert (Hx : In (proj u) (map proj (get m K))) by (rewrite E; now left).
  destruct (reported_only_if_inside d orc ps m K _ Hd HK Hm Hx) as (p & Hp & Hu).
  destruct (proj u) as [[pid k] tl]. apply in_uses in Hu as (_ & _ & t & Hin & HI).
  rewrite (Hno p k t Hp Hin) in HI. discriminate.
Qed.

(* ---------------------------------------------------------------- (3) classification *)
Lemma existsb_map {A B} (f : A -> B) (P : B -> bool) l : existsb P (map f l) = existsb (fun x => P (f x)) l.
Proof. induction l; cbn; congruence. Qed.

Theorem classification dirs us : forallb wf_dir dirs = true -> dirs <> [] ->
  exists f, classify dirs us = Some f
    /\ (fl_mb f = true <-> exists u d, In u us /\ In d dirs /\ inside d (u_file u) <> None)
    /\ (fl_chroot f = true <-> exists u, In u us /\ u_kind u = K_root)
    /\ (us <> [] -> fl_mb f || fl_nmb f = true)
    /\ (us = [] -> f = no_flags).
Proof.
  intros Hw Hne.
  assert (Hw' : forallb wf_dirb dirs = true).
  { apply forallb_forall. intros d0 Hd0. rewrite forallb_forall in Hw. apply Hw in Hd0.
    unfold wf_dir in Hd0. now apply andb_true_iff in Hd0 as [_ ?]. }
  rewrite (classify_spec dirs us Hw' Hne). eexists. split; [reflexivity|]. cbn [fl_mb fl_nmb fl_chroot].
  split; [|split; [|split]].
  - rewrite existsb_exists. split.
    + intros (u & Hu & H). apply existsb_exists in H as (d0 & Hd0 & H). exists u, d0. repeat split; auto.
      unfold in_dir in H. destruct (inside d0 (u_file u)); congruence.
    + intros (u & d0 & Hu & Hd0 & H). exists u. split; [assumption|]. apply existsb_exists. exists d0. split; [assumption|].
      unfold in_dir. destruct (inside d0 (u_file u)); congruence.
  - rewrite existsb_exists. split.
    + intros (u & Hu & H). apply N.eqb_eq in H. eauto.
    + intros (u & Hu & H). exists u. split; [assumption|]. now apply N.eqb_eq.
  - destruct us as [|u us]; [congruence|]. intros _. destruct dirs as [|d0 dirs]; [congruence|]. cbn [existsb].
    destruct (in_dir d0 u); cbn; [reflexivity|]. now rewrite orb_true_r.
  - intros ->. reflexivity.
Qed.

(* ---------------------------------------------------------------- rows of DescribeUsers *)
Lemma has_spec l q k : has l q k = true <-> exists t, In (q, k, t) l.
Proof.
  unfold has. rewrite existsb_exists. split.
  - intros ([[p k'] t] & Hin & H). cbn in H. apply andb_true_iff in H as [H1 H2].
    apply N.eqb_eq in H1, H2. subst. eauto.
  - intros (t & Hin). exists (q, k, t). split; [assumption|]. cbn. now rewrite !N.eqb_refl.
Qed.
Lemma has_incl a b q k : incl a b -> has a q k = true -> has b q k = true.
Proof. intros H Ha. apply has_spec in Ha as (t & Ht). apply has_spec. exists t. auto. Qed.
Lemma tails_spec l q k t : In t (tails l q k) <-> In (q, k, t) l.
Proof.
  unfold tails. rewrite in_map_iff. split.
  - intros ([[p k'] t'] & E & Hin). cbn in E. subst t'. apply filter_In in Hin as [Hin H]. cbn in H.
    apply andb_true_iff in H as [H1 H2]. apply N.eqb_eq in H1, H2. now subst.
  - intros Hin. exists (q, k, t). split; [reflexivity|]. apply filter_In. split; [assumption|]. cbn. now rewrite !N.eqb_refl.
Qed.
Lemma bsubset_spec a b : bsubset a b = true <-> incl a b.
Proof.
  unfold bsubset, incl. rewrite forallb_forall. split; intros H x Hx.
  - apply H in Hx. apply existsb_exists in Hx as (y & Hy & E). apply beq_true in E. now subst.
  - apply existsb_exists. exists x. split; [now apply H|apply beq_refl].
Qed.
Lemma nodupN_spec l : NoDup l -> nodupN l = true.
Proof.
  induction 1 as [|x l Hn _ IH]; cbn; [reflexivity|]. rewrite IH, andb_true_r. apply negb_true_iff.
  destruct (existsb (N.eqb x) l) eqn:E; [|reflexivity]. apply existsb_exists in E as (y & Hy & E).
  apply N.eqb_eq in E. subst. contradiction.
Qed.

Lemma grp_in us q u : In u (grp (usort us) q) <-> In u us /\ u_pid u = q.
Proof. unfold grp. rewrite filter_In, usort_in, N.eqb_eq. tauto. Qed.

Lemma grp_kind us q k :
  existsb (fun u => (u_kind u =? k)%N) (grp (usort us) q) = has (map proj us) q k.
Proof.
  apply Bool.eq_iff_eq_true. rewrite has_spec, existsb_exists. split.
  - intros (u & Hu & Hk). apply grp_in in Hu as [Hu Hp]. apply N.eqb_eq in Hk. exists (u_file u).
    apply in_map_iff. exists u. split; [|assumption]. unfold proj. now rewrite Hp, Hk.
  - intros (t & Hin). apply in_map_iff in Hin as (u & E & Hu). unfold proj in E. injection E as Hp Hk Ht.
    exists u. split; [apply grp_in; auto|]. now apply N.eqb_eq.
Qed.

(* ---------------------------------------------------------------- the per-case statement *)
Section Holds.
Variable c : case.
Hypothesis Hwf : wf c = true.

Let d := c_realdir c.
Let fs := c_faults c.
Let ps := c_procs c.

Lemma wf_parts :
  wf_layersdir d = true /\ (length (c_dirs c) =? 3)%nat = true /\ forallb wf_dir (c_dirs c) = true
  /\ forallb (fun L => nonempty L && no_slash L) (c_layers c) = true
  /\ match c_status c with Some i => (i <? length (c_layers c))%nat | None => true end = true.
Proof.
  unfold wf in Hwf. repeat (apply andb_true_iff in Hwf as [Hwf ?]).
  subst d. repeat split; auto.
Qed.

Lemma layer_no_slash L : In L (c_layers c) -> no_slash L = true.
Proof.
  destruct wf_parts as (_ & _ & _ & H & _). rewrite forallb_forall in H. intros Hin. apply H in Hin.
  now apply andb_true_iff in Hin as [_ ?].
Qed.

Lemma survive : only_vanish c = true -> exists m, model_scan c = SOk m.
Proof.
  intros Hv. destruct wf_parts as (Hd & _). apply scan_survives_vanish; [exact Hd|].
  intros i r e H. apply orc_of_some in H as (f & Hin & _ & <- & <-).
  unfold only_vanish in Hv. rewrite forallb_forall in Hv. now apply Hv.
Qed.

Section Ok.
Variable m : umap.
Hypothesis Hm : model_scan c = SOk m.

Lemma scan_facts : exists es, readdir_lstat (fun i => orc_of fs i RLstat) 0 ps = Some es /\ keys_ok m
  /\ forall K, no_slash K = true ->
       map proj (get m K) = flat_map (fun ip : nat * proc => eff_uses (layer_dir c K) (orc_of fs (fst ip)) (snd ip)) es.
Proof.
  destruct wf_parts as (Hd & _). unfold model_scan in Hm.
  destruct (flu_cases d (orc_of fs) ps Hd) as [[H _]|(m' & es & H & Hes & Hk & Hg)]; [subst d fs ps; congruence|].
  subst d fs ps. rewrite Hm in H. injection H as <-. exists es. split; [exact Hes|]. split; [exact Hk|].
  intros K HK. now apply got_eff.
Qed.

Lemma got_sub_hi K : no_slash K = true -> incl (map proj (get m K)) (hi c K).
Proof.
  intros HK. destruct scan_facts as (es & Hes & _ & Hg). rewrite (Hg K HK). unfold hi. rewrite expected_hi_flat.
  intros x Hx. apply in_flat_map in Hx as ([i p] & Hin & Hx). cbn [fst snd] in Hx.
  destruct (readdir_lstat_in _ _ _ _ Hes _ _ Hin) as [_ Hn]. apply nth_error_In in Hn.
  apply in_flat_map. exists p. split; [assumption|]. now apply eff_uses_sound in Hx.
Qed.

Lemma lo_sub_got K : no_slash K = true -> incl (lo c K) (map proj (get m K)).
Proof.
  intros HK. destruct scan_facts as (es & Hes & _ & Hg). rewrite (Hg K HK). unfold lo.
  intros x Hx. apply expected_lo_in in Hx as (j & p & Hn & Hf & Hx). cbn [Nat.add] in Hf.
  pose proof (orc_of_unfaulted _ _ Hf) as Ho.
  apply in_flat_map. exists (j, p). split.
  - apply (readdir_lstat_keeps _ _ 0%nat es Hes j p Hn). cbn. apply Ho.
  - cbn [fst snd]. rewrite eff_uses_complete by exact Ho. exact Hx.
Qed.

Lemma got_is_hi K : no_slash K = true -> c_faults c = [] -> map proj (get m K) = hi c K.
Proof.
  intros HK Hnf. destruct scan_facts as (es & Hes & _ & Hg). rewrite (Hg K HK). unfold hi. rewrite expected_hi_flat.
  unfold fs in *. rewrite Hnf in *. cbn [orc_of] in *.
  rewrite readdir_lstat_none in Hes by reflexivity. injection Hes as <-.
  rewrite (flat_map_ext_in _ (fun ip : nat * proc => uses (layer_dir c K) (snd ip))).
  - apply flat_map_combine_seq.
  - intros [i p] _. cbn [fst snd]. now apply eff_uses_complete.
Qed.

Lemma attr_key K : no_slash K = true -> spec_attr_key c m K = true.
Proof.
  intros HK. unfold spec_attr_key. apply andb_true_iff. split; [apply andb_true_iff; split|].
  - apply subset_spec. now apply lo_sub_got.
  - apply subset_spec. now apply got_sub_hi.
  - destruct (nonempty (c_faults c)) eqn:E; [reflexivity|].
    assert (Hnf : c_faults c = []) by (clear - E; destruct (c_faults c); [reflexivity|discriminate]).
    rewrite got_is_hi by assumption. apply perm_beq_refl.
Qed.

Lemma attr_all : spec_attr c m = true.
Proof.
  unfold spec_attr. apply forallb_forall. intros K HK. apply attr_key. apply in_app_or in HK as [HK|HK].
  - now apply layer_no_slash.
  - destruct scan_facts as (_ & _ & Hk & _). now apply Hk.
Qed.

(* flags *)
Lemma existsb_incl (P : triple -> bool) a b : incl a b -> existsb P a = true -> existsb P b = true.
Proof. intros H Ha. apply existsb_exists in Ha as (x & Hx & Px). apply existsb_exists. exists x. auto. Qed.

Lemma dirs_ok : forallb wf_dirb (c_dirs c) = true /\ c_dirs c <> [].
Proof.
  destruct wf_parts as (_ & Hl & Hw & _). split.
  - apply forallb_forall. intros d0 Hd0. rewrite forallb_forall in Hw. apply Hw in Hd0.
    unfold wf_dir in Hd0. now apply andb_true_iff in Hd0 as [_ ?].
  - intros E. rewrite E in Hl. discriminate.
Qed.

Definition flags_of (L : bytes) : flags :=
  let us := get m L in
  MkFlags (existsb (fun u => existsb (fun d => in_dir d u) (c_dirs c)) us)
          (existsb (fun u => existsb (fun d => negb (in_dir d u)) (c_dirs c)) us)
          (existsb (fun u => N.eqb (u_kind u) K_root) us).

Lemma classify_flags L : classify (c_dirs c) (get m L) = Some (flags_of L).
Proof. destruct dirs_ok as [H1 H2]. now apply classify_spec. Qed.

Lemma flags_ok L : no_slash L = true -> spec_flags c L (flags_of L) = true.
Proof.
  intros HL. pose proof (lo_sub_got L HL) as Hlo. pose proof (got_sub_hi L HL) as Hhi.
  set (got := map proj (get m L)) in *.
  set (mnt := fun x : triple => in_mount (c_dirs c) (snd x)).
  set (isroot := fun x : triple => N.eqb (snd (fst x)) K_root).
  assert (Emb : fl_mb (flags_of L) = existsb mnt got).
  { unfold flags_of, got. cbn [fl_mb]. rewrite existsb_map. reflexivity. }
  assert (Ech : fl_chroot (flags_of L) = existsb isroot got).
  { unfold flags_of, got. cbn [fl_chroot]. rewrite existsb_map. reflexivity. }
  assert (Ebusy : got <> [] -> fl_mb (flags_of L) || fl_nmb (flags_of L) = true).
  { unfold got, flags_of. cbn [fl_mb fl_nmb]. destruct (get m L) as [|u us]; [intros H; now elim H|]. intros _.
    destruct dirs_ok as [_ Hne]. destruct (c_dirs c) as [|d0 ds]; [congruence|]. cbn [existsb].
    destruct (in_dir d0 u); cbn; [reflexivity|]. now rewrite orb_true_r. }
  assert (Eidle : got = [] -> flags_of L = no_flags).
  { unfold got, flags_of. destruct (get m L); [reflexivity|discriminate]. }
  unfold spec_flags. fold mnt isroot.
  repeat (apply andb_true_iff; split); apply Bool.implb_true_iff.
  - intros H. rewrite Emb. eapply existsb_incl; eauto.
  - rewrite Emb. intros H. eapply existsb_incl; eauto.
  - intros H. rewrite Ech. eapply existsb_incl; [exact Hlo|].
    apply existsb_exists in H as (x & Hx & Px). apply existsb_exists. exists x. split; [assumption|].
    now apply andb_true_iff in Px as [? _].
  - rewrite Ech. intros H. eapply existsb_incl; eauto.
  - intros H. apply Ebusy. destruct (lo c L) as [|x l] eqn:E; [discriminate|].
    intros Eg. specialize (Hlo x (or_introl eq_refl)). rewrite Eg in Hlo. contradiction.
  - intros H. destruct got as [|x g] eqn:Eg.
    + rewrite (Eidle eq_refl) in H. discriminate.
    + specialize (Hhi x (or_introl eq_refl)). destruct (hi c L); [contradiction|reflexivity].
Qed.

Lemma flags_all Ls : (forall L, In L Ls -> no_slash L = true) ->
  exists fl, all_some (map (fun L => classify (c_dirs c) (get m L)) Ls) = Some fl /\ spec_flags_all c Ls fl = true.
Proof.
  induction Ls as [|L Ls IH]; intros H.
  - exists []. split; reflexivity.
  - destruct IH as (fl & H1 & H2); [intros; apply H; now right|].
    exists (flags_of L :: fl). cbn [map all_some]. rewrite classify_flags, H1. split; [reflexivity|].
    cbn [spec_flags_all]. rewrite flags_ok by (apply H; now left). exact H2.
Qed.

Lemma usage_ok L f : spec_flags c L f = true -> spec_usage c L (usage f) = true.
Proof.
  unfold spec_flags, spec_usage, usage.
  repeat match goal with
  | |- context [existsb ?P ?l] => let b := fresh "b" in set (b := existsb P l) in *; clearbody b
  | |- context [nonempty ?l] => let b := fresh "b" in set (b := nonempty l) in *; clearbody b
  end.
  destruct (fl_mb f), (fl_nmb f), (fl_chroot f);
  repeat match goal with b : bool |- _ => destruct b end; cbn; intros H; try discriminate; reflexivity.
Qed.
(* rows *)
Lemma rows_ok L : no_slash L = true -> spec_rows c L (describe (get m L)) = true.
Proof.
  intros HL. pose proof (lo_sub_got L HL) as Hlo. pose proof (got_sub_hi L HL) as Hhi.
  set (us := get m L) in *. set (got := map proj us) in *.
  unfold spec_rows. apply andb_true_iff. split; [apply andb_true_iff; split|].
  - apply forallb_forall. intros r Hr. destruct (describe_rows us r Hr) as (H1 & Hg & Hmode & Hcwd & Hfiles).
    set (q := r_pid r) in *. set (g := grp (usort us) q) in *.
    pose proof (grp_kind us q K_root) as Eroot. pose proof (grp_kind us q K_cwd) as Ecwd. fold g got in Eroot, Ecwd.
    rewrite Eroot, Ecwd in Hmode.
    assert (Mroot : has (lo c L) q K_root = true -> has got q K_root = true) by (apply has_incl; exact Hlo).
    assert (Mcwd : has (lo c L) q K_cwd = true -> has got q K_cwd = true) by (apply has_incl; exact Hlo).
    assert (Nroot : has got q K_root = true -> has (hi c L) q K_root = true) by (apply has_incl; exact Hhi).
    assert (Ncwd : has got q K_cwd = true -> has (hi c L) q K_cwd = true) by (apply has_incl; exact Hhi).
    assert (Hcwdin : has got q K_cwd = true -> existsb (beq (r_cwd r)) (tails (hi c L) q K_cwd) = true).
    { intros H. rewrite <- Ecwd in H. destruct (g_cwd_has g [] H) as (u & Hu & Hk & E).
      apply existsb_exists. exists (u_file u). split; [|rewrite Hcwd, E; apply beq_refl].
      apply tails_spec. apply Hhi. apply grp_in in Hu as [Hu Hp]. apply in_map_iff. exists u.
      split; [|assumption]. unfold proj. now rewrite Hp, Hk. }
    unfold spec_row. fold q.
    repeat (apply andb_true_iff; split).
    2-7: (rewrite Hmode; clear Hmode Hcwdin Eroot Ecwd;
          destruct (has (lo c L) q K_root), (has (lo c L) q K_cwd), (has got q K_root), (has got q K_cwd),
                   (has (hi c L) q K_root), (has (hi c L) q K_cwd); cbn; try reflexivity;
          try discriminate (Mroot eq_refl); try discriminate (Mcwd eq_refl);
          try discriminate (Nroot eq_refl); try discriminate (Ncwd eq_refl)).
    + destruct g as [|u g'] eqn:Eg; [congruence|]. assert (Hu : In u g) by (rewrite Eg; now left).
      apply grp_in in Hu as [Hu Hp]. apply existsb_exists. exists (proj u). split.
      * apply Hhi. now apply in_map.
      * unfold t_pid, proj. cbn. now apply N.eqb_eq.
    + apply Bool.implb_true_iff. intros H. apply orb_true_iff in H as [H|H]; [apply orb_true_iff in H as [H|H]|].
      * apply N.eqb_eq in H. rewrite H in Hmode. apply Hcwdin.
        destruct (has got q K_root); [discriminate|]. destruct (has got q K_cwd); [reflexivity|discriminate].
      * apply Hcwdin. now apply Mcwd.
      * destruct (g_cwd_in g []) as [E|(u & Hu & Hk & E)].
        -- rewrite Hcwd, E in H. discriminate.
        -- apply Hcwdin. rewrite <- Ecwd. apply existsb_exists. exists u. split; [assumption|]. now apply N.eqb_eq.
    + apply bsubset_spec. intros t Ht. apply tails_spec in Ht. apply Hlo in Ht.
      apply in_map_iff in Ht as (u & E & Hu). unfold proj in E. injection E as Hp Hk Hf.
      rewrite Hfiles. apply Lex.sort_in. unfold g_files. apply in_map_iff. exists u. split; [assumption|].
      apply filter_In. split; [apply grp_in; auto|]. now apply N.eqb_eq.
    + apply bsubset_spec. intros t Ht. rewrite Hfiles in Ht. apply -> Lex.sort_in in Ht. unfold g_files in Ht.
      apply in_map_iff in Ht as (u & Hf & Hu). apply filter_In in Hu as [Hu Hk]. apply N.eqb_eq in Hk.
      apply grp_in in Hu as [Hu Hp]. apply tails_spec. apply Hhi. apply in_map_iff. exists u.
      split; [|assumption]. unfold proj. now rewrite Hp, Hk, Hf.
  - apply forallb_forall. intros x Hx. apply Hlo in Hx. apply in_map_iff in Hx as (u & E & Hu).
    destruct (t_pid x <? 1)%N eqn:E1; [reflexivity|]. apply N.ltb_ge in E1. cbn [orb].
    assert (Hp : t_pid x = u_pid u) by (rewrite <- E; reflexivity). rewrite Hp in *.
    destruct (describe_complete us u Hu E1) as (r & Hr & Hq). apply existsb_exists. exists r. split; [assumption|]. now apply N.eqb_eq.
  - apply nodupN_spec. apply describe_nodup.
Qed.

Lemma rows_all Ls : (forall L, In L Ls -> no_slash L = true) ->
  spec_rows_all c Ls (map (fun L => describe (get m L)) Ls) = true.
Proof.
  induction Ls as [|L Ls IH]; intros H; [reflexivity|]. cbn [map spec_rows_all].
  rewrite rows_ok by (apply H; now left). apply IH. intros; apply H; now right.
Qed.
End Ok.

Theorem holds : kf c = 0%N -> spec c (model c) = true.
Proof.
  intros _. unfold spec, model. destruct wf_parts as (Hd & _ & _ & _ & Hst).
  destruct (model_scan c) as [| |m] eqn:Hm.
  - exfalso. unfold model_scan in Hm. now apply flu_never_panics in Hm.
  - assert (Hv : only_vanish c = false).
    { destruct (only_vanish c) eqn:E; [|reflexivity]. destruct (survive E) as [m' Hm']. congruence. }
    destruct (c_status c); cbn; now rewrite Hv.
  - destruct (c_status c) as [i|].
    + set (L := nth i (c_layers c) []).
      assert (HL : no_slash L = true).
      { apply layer_no_slash. apply nth_In. now apply Nat.ltb_lt. }
      rewrite (classify_flags m L). rewrite (usage_ok L) by now apply flags_ok.
      now apply rows_ok.
    + destruct (flags_all m Hm (c_layers c) layer_no_slash) as (fl & H1 & H2). rewrite H1.
      rewrite (attr_all m Hm), H2. cbn [andb]. apply (rows_all m Hm). exact layer_no_slash.
Qed.
End Holds.

Theorem C19_holds_proof : forall c, wf c = true -> kf c = 0%N -> spec c (model c) = true.
Proof. intros c Hwf Hkf. now apply holds. Qed.

Theorem scan_fails_only_if d orc ps : wf_layersdir d = true ->
  find_layer_users d orc ps <> SPanic /\
  (find_layer_users d orc ps = SErr ->
    (exists e, orc 0%nat RTopOpen = Some e) \/ (exists e, orc 0%nat RTopReaddir = Some e)
    \/ (exists j e, orc j RLstat = Some e /\ e <> ENOENT)
    \/ (exists j e, orc j RExe = Some e /\ e <> ENOENT /\ e <> EACCES /\ e <> ESRCH)).
Proof.
  intros Hd. split; [now apply flu_never_panics|].
  destruct (flu_cases d orc ps Hd) as [[_ H]|(m & es & -> & _)]; [auto|discriminate].
Qed.

(* ---------------------------------------------------------------- the hypotheses are satisfiable *)
(* layers a, ab and a directory a~removed; process 7 works in ab/build/usr, is chrooted into
   ab/build and holds a file of a~removed open; process 8 vanishes after its first read *)
Definition ex_dir : bytes := bs "/var/lib/layercake/layers".
Definition ex_procs : list proc :=
  [MkProc (bs "7") true (Some (bs "/usr/bin/bash")) (Some (bs "/var/lib/layercake/layers/ab/build/usr"))
          (Some (bs "/var/lib/layercake/layers/ab/build"))
          (Some [MkFd (bs "0") (Some (bs "/dev/null"));
                 MkFd (bs "3") (Some (bs "/var/lib/layercake/layers/a~removed/build/f"))]);
   MkProc (bs "8") true (Some (bs "/bin/sleep")) (Some (bs "/var/lib/layercake/layers/a/packages")) (Some (bs "/")) (Some []);
   MkProc (bs "self") true None None None None].
Definition ex_faults : list fault := [MkFault 1 RCwd ENOENT; MkFault 1 RFdReaddir ENOENT].
Definition ex_case : case :=
  MkCase (bs "/var/lib/layercake/layers") ex_dir [bs "build"; bs "overlayfs/workdir"; bs "overlayfs/upperdir"] [bs "a"; bs "ab"]
         ex_procs ex_faults None (OProc SErr None []).

Example ex_wf : wf ex_case = true /\ kf ex_case = 0%N /\ only_vanish ex_case = true.
Proof. vm_compute. auto. Qed.
Example ex_wf_layersdir : wf_layersdir ex_dir = true /\ no_slash (bs "ab") = true.
Proof. vm_compute. auto. Qed.
(* the model on it: ab is an active chroot that cannot be unmounted, a is idle (its only user
   vanished), nothing is reported for a~removed under the name a *)
Example ex_model :
  model ex_case = OProc (SOk [(bs "ab", [MkUser 7 1 (bs "bash") (bs "build/usr"); MkUser 7 0 (bs "bash") (bs "build")]);
                              (bs "a~removed", [MkUser 7 3 (bs "bash") (bs "build/f")])])
                        (Some [MkFlags false false false; MkFlags true true true])
                        [[]; [MkRow (bs "bash") 7 1 (bs "build/usr") []]].
Proof. vm_compute. reflexivity. Qed.
Example ex_vanish_oracle : forall i r e, orc_of ex_faults i r = Some e -> vanish_ok r e = true.
Proof.
  intros i r e H. apply orc_of_some in H as (f & [<-|[<-|[]]] & _ & <- & <-); reflexivity.
Qed.
Example ex_classification_hyp :
  forallb wf_dir [bs "build"; bs "overlayfs/workdir"; bs "overlayfs/upperdir"] = true.
Proof. vm_compute. reflexivity. Qed.
Example ex_prefix_hyp : no_slash (bs "a" ++ bs "~removed") = true /\ bs "~removed" <> []
  /\ inside (ex_dir ++ slc :: bs "a" ++ bs "~removed") (bs "/var/lib/layercake/layers/a~removed/build/f") = Some (bs "build/f").
Proof. vm_compute. repeat split; discriminate. Qed.

(* ---------------------------------------------------------------- frame: unrelated processes *)
(* an entry of /proc is related to the layers directory d if one of its links starts with d/ *)
Definition related (d : bytes) (p : proc) : bool :=
  existsb (fun kt : N * bytes => prefixb (d ++ [slc]) (snd kt)) (links p).

Lemma inside_prefix d K t tl : inside (d ++ slc :: K) t = Some tl -> prefixb (d ++ [slc]) t = true.
Proof.
  intros H. apply prefixb_spec. apply inside_spec in H as [[-> _]| ->].
  - exists K. apply app_slc0.
  - exists (K ++ slc :: tl). apply app_slc.
Qed.

Lemma uses_unrelated d K p : related d p = false -> uses (d ++ slc :: K) p = [].
Proof.
  intros H. rewrite uses_unfold. destruct (is_process p); [|reflexivity].
  unfold related in H. induction (links p) as [|kt l IH]; [reflexivity|]. cbn [existsb] in H.
  apply orb_false_iff in H as [H1 H2]. cbn [flat_map]. rewrite (IH H2), app_nil_r.
  unfold in_filter. destruct (inside (d ++ slc :: K) (snd kt)) eqn:E; [|reflexivity].
  apply inside_prefix in E. congruence.
Qed.

(* processes without a link into the layers directory -- all the other processes of the host --
   do not change what is reported for any layer *)
Theorem unrelated_irrelevant d ps K : wf_layersdir d = true -> no_slash K = true ->
  exists m m', find_layer_users d no_faults ps = SOk m
    /\ find_layer_users d no_faults (filter (related d) ps) = SOk m'
    /\ map proj (get m K) = map proj (get m' K).
Proof.
  intros Hd HK. destruct (attribution_exact d ps K Hd HK) as (m & Hm & Hg).
  destruct (attribution_exact d (filter (related d) ps) K Hd HK) as (m' & Hm' & Hg').
  exists m, m'. split; [assumption|]. split; [assumption|]. rewrite Hg, Hg'. clear.
  induction ps as [|p ps IH]; [reflexivity|]. cbn [flat_map filter].
  destruct (related d p) eqn:E; cbn [flat_map]; [now rewrite IH|]. rewrite (uses_unrelated d K p E). exact IH.
Qed.
