(* C20: "... so one later umount fully unmounts the layer" on the abstract machine.
   [later_umount_all] / [later_umount_layer] (Model/Conc.v) perform the later, undisturbed
   umount the way IUmountLayer / IUmountOne do: the mount lines of the freshly read table in
   descending Lex order, one kumount_abs per line, the first failure ends the command.
   Proved for all tables without a covered line ([ncov]: no line has a LATER line mounted on one
   of its ancestor directories, Model/Conc.v: hidden_abs): every umount succeeds and the listed
   lines are all removed.  With a covered line the deepest-first order fails at it
   ([covered_not_cleared]): that is known finding 1 of C03. *)
From LC Require Import Lib.Bytes Lib.Lex Lib.Fields Lib.PathM Model.FsTree Model.Conc Cases.C20 Proofs.ConcP Proofs.C20P.
From Coq Require Import Sorting.Sorted Sorting.Permutation.
Local Open Scope nat_scope.

(* ------------------------------------------------------------------ below = Lex-greater *)
Lemma under_char d q : under d q = true <->
  (d = root /\ exists t, t <> [] /\ q = sl :: t) \/ (d <> root /\ exists r, q = d ++ sl :: r).
Proof.
  unfold under. destruct (beq d root) eqn:E.
  - apply beq_true in E. subst d. split.
    + intros H. left. split; [reflexivity|]. apply andb_true_iff in H as [Ha Hr].
      destruct q as [|c t]; [discriminate|]. cbn in Ha. apply Ascii.eqb_eq in Ha. subst c.
      exists t. split; [|reflexivity]. intros ->. now rewrite beq_refl in Hr.
    + intros [[_ (t & Ht & ->)]|[Hn _]]; [|congruence]. apply andb_true_iff. split.
      * reflexivity.
      * apply negb_true_iff. apply beq_false. unfold root. intros C. injection C as C. contradiction.
  - apply beq_false in E. rewrite prefixb_spec. split.
    + intros [r ->]. right. split; [exact E|]. exists r. now rewrite <- app_assoc.
    + intros [[Hd _]|[_ (r & ->)]]; [contradiction|]. exists r. now rewrite <- app_assoc.
Qed.

Lemma under_lt d q : under d q = true -> Lex.ltb d q = true.
Proof.
  intros H. apply under_char in H as [[-> (t & Ht & ->)]|[_ (r & ->)]].
  - change (Lex.ltb [sl] ([sl] ++ t) = true). now apply Lex.prefix_lt.
  - apply Lex.prefix_lt. discriminate.
Qed.

Lemma under_irrefl d : under d d = false.
Proof.
  destruct (under d d) eqn:E; [|reflexivity]. apply under_lt in E. now rewrite Lex.ltb_irrefl in E.
Qed.

Lemma under_trans a b c : under a b = true -> under b c = true -> under a c = true.
Proof.
  intros Hab Hbc. apply under_char. apply under_char in Hab. apply under_char in Hbc.
  destruct Hab as [[-> (t & Ht & ->)]|[Ha (r & ->)]].
  - left. split; [reflexivity|]. destruct Hbc as [[Hb _]|[_ (r & ->)]].
    + exfalso. unfold root in Hb. injection Hb as Hb. contradiction.
    + exists (t ++ sl :: r). split; [|reflexivity]. destruct t; discriminate.
  - right. split; [exact Ha|]. destruct Hbc as [[Hb (t & Ht & ->)]|[_ (r' & ->)]].
    + destruct a as [|x a'].
      * exists t. reflexivity.
      * exfalso. unfold root in Hb. cbn in Hb. injection Hb as _ Hb. destruct a'; discriminate.
    + exists (r ++ sl :: r'). now rewrite <- app_assoc.
Qed.

Lemma at_or_below_down bld p q : at_or_below bld p = true -> under p q = true -> at_or_below bld q = true.
Proof.
  unfold at_or_below. intros H Hq. apply orb_true_iff in H as [H|H]; apply orb_true_iff; right.
  - apply beq_true in H. now subst.
  - eapply under_trans; eauto.
Qed.

(* ------------------------------------------------------------------ Lex.sort permutes; its reverse descends *)
Lemma insert_perm x l : Permutation (Lex.insert x l) (x :: l).
Proof.
  induction l as [|y r IH]; cbn; [reflexivity|]. destruct (Lex.ltb y x); [|reflexivity].
  rewrite IH. apply perm_swap.
Qed.
Lemma sort_perm l : Permutation (Lex.sort l) l.
Proof. induction l as [|x l IH]; cbn; [reflexivity|]. rewrite insert_perm. now constructor. Qed.

Definition desc (a b : bytes) : Prop := Lex.ltb a b = false.      (* a before b: b is not greater *)

Lemma sorted_snoc {A} (R : A -> A -> Prop) l a :
  StronglySorted R l -> Forall (fun x => R x a) l -> StronglySorted R (l ++ [a]).
Proof.
  induction 1 as [|y r HS IH HF]; cbn; intros Ha; [repeat constructor|].
  inversion Ha as [|? ? Hy Hr]; subst. constructor; [now apply IH|].
  apply Forall_app. split; [exact HF|]. now constructor.
Qed.
Lemma sorted_rev {A} (R : A -> A -> Prop) l :
  StronglySorted R l -> StronglySorted (fun a b => R b a) (rev l).
Proof.
  induction 1 as [|y r HS IH HF]; cbn; [constructor|]. apply sorted_snoc; [exact IH|].
  apply Forall_forall. intros z Hz. apply in_rev in Hz. rewrite Forall_forall in HF. now apply HF.
Qed.
Lemma rev_sort_desc l : StronglySorted desc (rev (Lex.sort l)).
Proof. apply (sorted_rev _ _ (Lex.sort_sorted l)). Qed.

(* ------------------------------------------------------------------ remove_last removes one occurrence *)
Lemma remove_last_perm p t : mem_path p t = true -> Permutation t (p :: remove_last p t).
Proof.
  induction t as [|x r IH]; cbn [mem_path existsb remove_last]; [discriminate|]. intros H.
  destruct (beq x p) eqn:E; cbn [andb].
  - apply beq_true in E. subst x. fold (mem_path p r). destruct (mem_path p r) eqn:M; cbn [negb].
    + rewrite (IH eq_refl) at 1. apply perm_swap.
    + reflexivity.
  - rewrite beq_sym, E in H. cbn in H. fold (mem_path p r) in H. rewrite (IH H) at 1. apply perm_swap.
Qed.

Lemma remove_last_filter g p t : g p = false -> filter g (remove_last p t) = filter g t.
Proof.
  intros Hg. induction t as [|x r IH]; cbn [remove_last filter]; [reflexivity|].
  destruct (beq x p && negb (mem_path p r)) eqn:E.
  - apply andb_true_iff in E as [E _]. apply beq_true in E. subst x. now rewrite Hg.
  - cbn [filter]. now rewrite IH.
Qed.

(* ------------------------------------------------------------------ covered lines *)
Lemma hidden_abs_snoc k x p :
  hidden_abs (k ++ [x]) p = if beq x p then false else if under x p then true else hidden_abs k p.
Proof. unfold hidden_abs. rewrite fold_left_app. reflexivity. Qed.

Lemma ncov_snoc k x : ncov (k ++ [x]) = ncov k && forallb (fun y => negb (under x y)) k.
Proof.
  induction k as [|y r IH]; cbn [app ncov forallb]; [reflexivity|].
  rewrite IH, forallb_app. cbn [forallb]. rewrite andb_true_r.
  destruct (forallb (fun q => negb (under q y)) r), (negb (under x y)), (ncov r), (forallb _ r); reflexivity.
Qed.

Lemma ncov_not_hidden k p : ncov k = true -> mem_path p k = true -> hidden_abs k p = false.
Proof.
  induction k as [|x k IH] using rev_ind; intros Hn Hm; [discriminate|].
  rewrite ncov_snoc in Hn. apply andb_true_iff in Hn as [Hn Hx]. rewrite hidden_abs_snoc.
  destruct (beq x p) eqn:E; [reflexivity|].
  assert (Hm' : mem_path p k = true).
  { apply mem_path_In in Hm. apply in_app_or in Hm as [Hm|[Hm|[]]]; [now apply mem_path_In|].
    subst x. now rewrite beq_refl in E. }
  rewrite forallb_forall in Hx. apply mem_path_In in Hm'. specialize (Hx p Hm').
  apply negb_true_iff in Hx. rewrite Hx. apply IH; [exact Hn|now apply mem_path_In].
Qed.

Lemma ncov_remove_last p k : ncov k = true -> ncov (remove_last p k) = true.
Proof.
  induction k as [|x r IH]; cbn [remove_last ncov]; [reflexivity|]. intros H.
  apply andb_true_iff in H as [H1 H2]. destruct (beq x p && negb (mem_path p r)); [exact H2|].
  cbn [ncov]. rewrite (IH H2), andb_true_r. rewrite forallb_forall in *. intros q Hq.
  apply H1. now apply (remove_last_incl p r).
Qed.

(* ------------------------------------------------------------------ the umount sequence *)
(* the lines of l are in the table, l descends, nothing else in the table lies below a line of l,
   no line is covered: every umount succeeds, exactly the lines of l go, everything else stays
   where it is *)
Lemma umount_seq_spec l : forall k rest,
  Permutation k (l ++ rest) -> StronglySorted desc l ->
  (forall p q, In p l -> In q rest -> under p q = false) -> ncov k = true ->
  Permutation (umount_seq k l) rest /\
  forall g, (forall p, In p l -> g p = false) -> filter g (umount_seq k l) = filter g k.
Proof.
  induction l as [|p r IH]; intros k rest HP HS HU HC; cbn [umount_seq].
  - split; [exact HP|reflexivity].
  - inversion HS as [|? ? HSr HF]; subst.
    assert (Hmem : mem_path p k = true).
    { apply mem_path_In. eapply Permutation_in; [symmetry; exact HP|]. now left. }
    assert (Hno : existsb (fun q => under p q) k = false).
    { destruct (existsb (fun q => under p q) k) eqn:E; [|reflexivity]. exfalso.
      apply existsb_exists in E as (q & Hq & Hpq).
      apply (Permutation_in _ HP) in Hq. cbn in Hq. destruct Hq as [<-|Hq].
      - now rewrite under_irrefl in Hpq.
      - apply in_app_or in Hq as [Hq|Hq].
        + rewrite Forall_forall in HF. specialize (HF q Hq). unfold desc in HF.
          apply under_lt in Hpq. congruence.
        + rewrite (HU p q) in Hpq; [discriminate|now left|exact Hq]. }
    unfold kumount_abs. rewrite Hmem, Hno, (ncov_not_hidden k p HC Hmem). cbn [andb negb orb].
    assert (HP' : Permutation (remove_last p k) (r ++ rest)).
    { apply Permutation_cons_inv with (a := p). rewrite <- (remove_last_perm p k Hmem). exact HP. }
    destruct (IH (remove_last p k) rest HP' HSr) as [H1 H2].
    { intros p' q Hp' Hq. apply HU; [now right|exact Hq]. }
    { now apply ncov_remove_last. }
    split; [exact H1|]. intros g Hg. rewrite H2; [|intros p' Hp'; apply Hg; now right].
    apply remove_last_filter. apply Hg. now left.
Qed.

(* ------------------------------------------------------------------ umount of every line *)
Theorem later_umount_all_empties_any : forall k, ncov k = true -> later_umount_all k = [].
Proof.
  intros k HC. unfold later_umount_all.
  destruct (umount_seq_spec (rev (Lex.sort k)) k []) as [H _].
  - rewrite app_nil_r. rewrite <- (Permutation_rev (Lex.sort k)). symmetry. apply sort_perm.
  - apply rev_sort_desc.
  - intros p q _ [].
  - exact HC.
  - apply Permutation_nil. now symmetry.
Qed.

Theorem later_umount_all_empties : forall k, has_dup k = false -> ncov k = true -> later_umount_all k = [].
Proof. intros k _. apply later_umount_all_empties_any. Qed.

(* a covered line is not cleared: import, then a mount on an ancestor directory of its mountpoint;
   the deepest-first order calls umount(2) on the hidden mountpoint first and stops there *)
Example covered_not_cleared :
  let k := [bs "/b/layers/l1/build/var/db/repos"; bs "/b/layers/l1/build/var/db"] in
  has_dup k = false /\ ncov k = false /\ later_umount_all k = k.
Proof. vm_compute. auto. Qed.

(* ------------------------------------------------------------------ umount of one layer *)
Lemma filter_split {A} (f : A -> bool) l : Permutation l (filter f l ++ filter (fun x => negb (f x)) l).
Proof.
  induction l as [|x l IH]; cbn; [reflexivity|]. destruct (f x); cbn.
  - now constructor.
  - rewrite IH at 1. apply Permutation_middle.
Qed.

Lemma filter_nil_iff {A} (f : A -> bool) l : filter f l = [] <-> forall x, In x l -> f x = false.
Proof.
  induction l as [|x l IH]; cbn; [tauto|]. destruct (f x) eqn:E; split.
  - discriminate.
  - intros H. specialize (H x (or_introl eq_refl)). congruence.
  - intros H y [<-|Hy]; [exact E|]. now apply IH.
  - intros H. apply IH. intros y Hy. apply H. now right.
Qed.

Lemma later_umount_layer_spec bld k : ncov k = true ->
  Permutation (later_umount_layer bld k) (filter (fun q => negb (at_or_below bld q)) k) /\
  filter (fun q => negb (at_or_below bld q)) (later_umount_layer bld k) = filter (fun q => negb (at_or_below bld q)) k.
Proof.
  intros HC. unfold later_umount_layer.
  assert (Hin : forall p, In p (rev (Lex.sort (filter (at_or_below bld) k))) -> at_or_below bld p = true).
  { intros p Hp. apply in_rev in Hp. apply (proj1 (Lex.sort_in _ _)) in Hp. now apply filter_In in Hp. }
  destruct (umount_seq_spec (rev (Lex.sort (filter (at_or_below bld) k))) k
              (filter (fun q => negb (at_or_below bld q)) k)) as [H1 H2].
  - rewrite <- (Permutation_rev (Lex.sort _)). rewrite sort_perm. apply filter_split.
  - apply rev_sort_desc.
  - intros p q Hp Hq. apply Hin in Hp. apply filter_In in Hq as [_ Hq]. apply negb_true_iff in Hq.
    destruct (under p q) eqn:E; [|reflexivity]. rewrite (at_or_below_down _ _ _ Hp E) in Hq. discriminate.
  - exact HC.
  - split; [exact H1|]. apply H2. intros p Hp. now rewrite (Hin p Hp).
Qed.

Theorem later_umount_layer_clears_any : forall bld k, ncov k = true ->
  filter (at_or_below bld) (later_umount_layer bld k) = [] /\
  filter (fun q => negb (at_or_below bld q)) (later_umount_layer bld k) = filter (fun q => negb (at_or_below bld q)) k.
Proof.
  intros bld k HC. destruct (later_umount_layer_spec bld k HC) as [H1 H2]. split; [|exact H2].
  apply filter_nil_iff. intros x Hx. apply (Permutation_in _ H1) in Hx. apply filter_In in Hx as [_ Hx].
  now apply negb_true_iff in Hx.
Qed.

Theorem later_umount_layer_clears : forall bld k, has_dup k = false -> ncov k = true ->
  filter (at_or_below bld) (later_umount_layer bld k) = [] /\
  filter (fun q => negb (at_or_below bld q)) (later_umount_layer bld k) = filter (fun q => negb (at_or_below bld q)) k.
Proof. intros bld k _. apply later_umount_layer_clears_any. Qed.

(* ------------------------------------------------------------------ the clause of the case predicate *)
Theorem later_ok_model : forall k, ncov k = true -> C20.later_ok k (later_umount_all k) = true.
Proof. intros k HC. unfold C20.later_ok. rewrite later_umount_all_empties_any by exact HC. apply orb_true_r. Qed.
(* ... and without the hypothesis the clause is false of the machine *)
Example later_ok_covered_refuted :
  C20.later_ok [bs "/b/layers/l1/build/var/db/repos"; bs "/b/layers/l1/build/var/db"]
               (later_umount_all [bs "/b/layers/l1/build/var/db/repos"; bs "/b/layers/l1/build/var/db"]) = false.
Proof. vm_compute. reflexivity. Qed.

Theorem covered_not_cleared_ex : exists k, has_dup k = false /\ ncov k = false /\ later_umount_all k = k
  /\ C20.later_ok k (later_umount_all k) = false.
Proof.
  exists [bs "/b/layers/l1/build/var/db/repos"; bs "/b/layers/l1/build/var/db"]. vm_compute. auto.
Qed.

(* ------------------------------------------------------------------ stacked mountpoints *)
(* The converse "a stacked mountpoint survives the later umount" is FALSE of the command as it
   is written: GetMountAndSubmounts lists both mount lines of a stacked mountpoint, so both are
   removed ([later_umount_all_empties_any] has no hypothesis).  E.g. the final table of the
   known-finding run witness1 (l1's import mountpoint carries two mounts): *)
Example stacked_witness1_cleared :
  has_dup (C20.o_final (C20.model witness1)) = true /\
  later_umount_all (C20.o_final (C20.model witness1)) = [].
Proof. vm_compute. auto. Qed.

Theorem stacked_also_cleared : exists k, has_dup k = true /\ later_umount_all k = [].
Proof. exists (C20.o_final (C20.model witness1)). exact stacked_witness1_cleared. Qed.

(* What the absence of stacking does buy: ONE umount(2) per distinct mountpoint suffices exactly
   when no mountpoint is stacked.  [dedup] keeps one line per mountpoint. *)
Fixpoint dedup (k : ktab) : ktab :=
  match k with [] => [] | x :: r => if mem_path x r then dedup r else x :: dedup r end.
Definition umount_once_each (k : ktab) : ktab := umount_seq k (rev (Lex.sort (dedup k))).

Lemma dedup_length k : length (dedup k) <= length k.
Proof. induction k as [|x r IH]; cbn [dedup length]; [lia|]. destruct (mem_path x r); cbn [length]; lia. Qed.
Lemma dedup_length_dup k : has_dup k = true -> length (dedup k) < length k.
Proof.
  induction k as [|x r IH]; cbn [has_dup dedup length]; [discriminate|]. intros H.
  destruct (mem_path x r); cbn [orb length] in *.
  - pose proof (dedup_length r). lia.
  - specialize (IH H). lia.
Qed.
Lemma dedup_nodup k : has_dup k = false -> dedup k = k.
Proof.
  induction k as [|x r IH]; cbn [has_dup dedup]; [reflexivity|]. intros H.
  apply orb_false_iff in H as [H1 H2]. rewrite H1. now rewrite (IH H2).
Qed.
Lemma umount_seq_length l : forall k, length k <= length (umount_seq k l) + length l.
Proof.
  induction l as [|p r IH]; intros k; cbn [umount_seq length]; [lia|].
  destruct (kumount_abs k p) as [k'|] eqn:E; [|lia].
  apply kumount_abs_length in E. specialize (IH k'). lia.
Qed.

Theorem once_each_leaves_stacked : forall k, has_dup k = true -> umount_once_each k <> [].
Proof.
  intros k H E. pose proof (umount_seq_length (rev (Lex.sort (dedup k))) k) as L.
  unfold umount_once_each in E. rewrite E, rev_length, (Permutation_length (sort_perm _)) in L.
  pose proof (dedup_length_dup k H). cbn [length] in L. lia.
Qed.
Theorem once_each_empties : forall k, ncov k = true -> has_dup k = false -> umount_once_each k = [].
Proof. intros k HC H. unfold umount_once_each. rewrite (dedup_nodup k H). now apply later_umount_all_empties_any. Qed.
Theorem once_each_iff : forall k, ncov k = true -> (umount_once_each k = [] <-> has_dup k = false).
Proof.
  intros k HC. split; [|now apply once_each_empties]. intros E. destruct (has_dup k) eqn:H; [|reflexivity].
  now apply once_each_leaves_stacked in H.
Qed.

(* ------------------------------------------------------------------ examples *)
(* two layers mounted (l2 on l1), l1's import stacked, one host mount in between: the umount of
   l2 removes l2's three lines and leaves the rest in place; the umount of everything clears *)
Definition ex_tab : ktab :=
  [ bs "/b/layers/l1/build"; bs "/b/layers/l1/build/proc"; bs "/b/layers/l2/build";
    bs "/mnt/other"; bs "/b/layers/l2/build/proc"; bs "/b/layers/l1/build/proc";
    bs "/b/layers/l2/build/proc/sys" ].
Example ex_layer :
  later_umount_layer (bs "/b/layers/l2/build") ex_tab =
  [ bs "/b/layers/l1/build"; bs "/b/layers/l1/build/proc"; bs "/mnt/other"; bs "/b/layers/l1/build/proc" ].
Proof. vm_compute. reflexivity. Qed.
Example ex_all : has_dup ex_tab = true /\ later_umount_all ex_tab = [] /\
  umount_once_each ex_tab = [bs "/b/layers/l1/build"; bs "/b/layers/l1/build/proc"].
Proof. vm_compute. auto. Qed.
(* the hypothesis of the requested forms is satisfiable by a non-trivial table *)
Example ex_nodup : has_dup (dedup ex_tab) = false /\ length (dedup ex_tab) = 6 /\
  later_umount_all (dedup ex_tab) = [] /\ umount_once_each (dedup ex_tab) = [].
Proof. vm_compute. auto. Qed.
(* the order matters: shallowest first, the first umount(2) fails (EBUSY) and nothing goes *)
Example ex_ascending_fails : umount_seq ex_tab (Lex.sort ex_tab) = ex_tab.
Proof. vm_compute. reflexivity. Qed.
