(* C20: the case-level statements (witnesses of the two known findings, C20_holds). *)
From LC Require Import Lib.Bytes Lib.Lex Lib.Fields Lib.PathM Gen.Consts
  Model.MountInfo Model.FsTree Model.Kernel Model.Layers Model.Conc Cases.Verdict Cases.LC Cases.C20
  Proofs.ConcP.
Import LC LCS.

(* ------------------------------------------------------------------ projections of the model *)
Definition code_a (c : C20.case) : list instr := C20.code_of (C20.c_cfg c) (C20.c_fs c) (C20.c_cmd_a c).
Definition code_b (c : C20.case) : list instr := C20.code_of (C20.c_cfg c) (C20.c_fs c) (C20.c_cmd_b c).
Definition run_of (c : C20.case) : ktab * proc * proc * trace :=
  run_sched (C20.c_sched c) (C20.c_k0 c) (code_a c) (code_b c).

Lemma model_final c : C20.o_final (C20.model c) = run_final (run_of c).
Proof. unfold C20.model, run_of, code_a, code_b. now destruct (run_sched _ _ _ _) as [[[k pa] pb] tr]. Qed.
Lemma model_trace c : C20.o_trace (C20.model c) = run_trace (run_of c).
Proof. unfold C20.model, run_of, code_a, code_b. now destruct (run_sched _ _ _ _) as [[[k pa] pb] tr]. Qed.

(* ------------------------------------------------------------------ the codes of commands *)
Lemma mshape_flat_map {A} (f : A -> list instr) l :
  (forall x, mshape (f x) = true) -> mshape (flat_map f l) = true.
Proof. intros H. induction l as [|x l IH]; cbn; [reflexivity|]. now rewrite mshape_app, H, IH. Qed.

Lemma layer_code_shape c ch x : mshape (C20.layer_code c ch x) = true.
Proof.
  unfold C20.layer_code. rewrite mshape_app. apply andb_true_iff. split; [|reflexivity].
  apply mshape_flat_map. reflexivity.
Qed.

Lemma code_of_shape c f cmd : C20.is_umount cmd = false -> mshape (C20.code_of c f cmd) = true.
Proof.
  destruct cmd; cbn [C20.is_umount C20.code_of]; try reflexivity; try discriminate. intros _.
  destruct (chain c f a); [reflexivity|].
  change (mshape (flat_map (C20.layer_code c (l :: l0)) (l :: l0)) = true).
  apply mshape_flat_map. intros x. apply layer_code_shape.
Qed.

Lemma code_of_probe_first c f cmd : exists r, C20.code_of c f cmd = IProbe :: r.
Proof.
  destruct cmd; cbn [C20.code_of]; try (now eexists).
  - destruct (chain c f a); now eexists.
  - destruct all; [now eexists|]. destruct (layer_named c f a); now eexists.
Qed.
Lemma code_of_exposed c f cmd : exposed (C20.code_of c f cmd) = [].
Proof. destruct (code_of_probe_first c f cmd) as [r ->]. reflexivity. Qed.

Lemma nodup_b_NoDup l : C20.nodup_b l = true -> NoDup l.
Proof.
  induction l as [|x l IH]; cbn [C20.nodup_b]; [constructor|].
  intros H. apply andb_true_iff in H as [H1 H2]. constructor; [|now apply IH].
  apply mem_path_false. now destruct (mem_path x l).
Qed.
Lemma mount_targets_of_targets c : C20.mount_targets_of c = targets c.
Proof. reflexivity. Qed.

(* ------------------------------------------------------------------ C20_holds *)
Theorem C20_holds_proof : forall c, C20.wf c = true -> C20.kf c = 0%N ->
  C20.spec c (C20.o_final (C20.model c)) = true.
Proof.
  intros c Hwf Hkf. unfold C20.kf in Hkf. rewrite model_trace in Hkf. rewrite model_final.
  unfold C20.spec. fold (code_a c) (code_b c).
  destruct (tr_stacked (run_trace (run_of c))) eqn:ST; [discriminate|].
  destruct (serial_picks (tr_picks (run_trace (run_of c)))) eqn:SP.
  - (* serial picks *)
    pose proof (serial_picks_serial _ _ _ _ SP) as H. fold (run_of c) in H.
    unfold serial_of_picks in H. apply orb_true_iff.
    destruct (tr_picks (run_trace (run_of c))) as [|[|] ?]; auto.
  - (* not serial: neither is an umount *)
    rewrite andb_true_r in Hkf.
    destruct (C20.is_umount (C20.c_cmd_a c) || C20.is_umount (C20.c_cmd_b c)) eqn:U; [discriminate|].
    apply orb_false_iff in U as [Ua Ub].
    unfold C20.wf in Hwf. apply andb_true_iff in Hwf as [Hwf Nb]. apply andb_true_iff in Hwf as [Hwf Na].
    apply andb_true_iff in Hwf as [_ Nk].
    fold (code_a c) in Na. fold (code_b c) in Nb. rewrite mount_targets_of_targets in Na, Nb.
    destruct (mount_mount_no_stack_serial_gen (C20.c_sched c) (C20.c_k0 c) (code_a c) (code_b c)) as [H _];
      try apply code_of_exposed; try (now apply code_of_shape); try (now apply nodup_b_NoDup).
    + exact ST.
    + fold (run_of c) in H. now rewrite H.
Qed.

(* ------------------------------------------------------------------ witnesses *)
(* a world with two layers: l1 (no base, imports /proc) and l2 (base l1, imports /proc) *)
Definition w_cfg : cfgT :=
  MkCfg (bs "/b") (bs "/b/layers") (bs "build") (bs "packages") (bs "generated")
        (bs "overlayfs/workdir") (bs "overlayfs/upperdir") (bs "/b/export") (bs "packages") (bs "generated").
Definition w_nl : bytes := [nb 10].
Definition w_fs : fsT :=
  [ (bs "/b/layers", Dir);
    (bs "/b/layers/l1", Dir);
    (bs "/b/layers/l1/layerconfig", File (bs "import proc /proc /proc" ++ w_nl));
    (bs "/b/layers/l2", Dir);
    (bs "/b/layers/l2/layerconfig", File (bs "base l1" ++ w_nl ++ w_nl ++ bs "import proc /proc /proc" ++ w_nl)) ].

(* the observed part of a case filled in with what the machine does (the check compares it
   with the implementation; here it only makes the record complete) *)
Definition w_case (a b : command) (k0 : ktab) (s : list bool) : C20.case :=
  let m := C20.model (C20.MkCase w_cfg w_fs k0 a b s [] [] [] true true []) in
  C20.MkCase w_cfg w_fs k0 a b s (C20.o_final m) (C20.o_calls_a m) (C20.o_calls_b m) (C20.o_ok_a m) (C20.o_ok_b m) [].

(* finding 1: both invocations mount l2 and both read the table before either mounts *)
Definition witness1 : C20.case := w_case (CMount (bs "l2")) (CMount (bs "l2")) [] [true; false].
(* finding 2: the second invocation unmounts l2 between two mounts of the first *)
Definition witness2 : C20.case :=
  w_case (CMount (bs "l2")) (CUmount (bs "l2") false) [] [true; true; true; true; true; false; false].
(* no finding, not serial: the second invocation reads the table after the first one's mount *)
Definition witness0 : C20.case :=
  w_case (CMount (bs "l1")) (CMount (bs "l2")) [] [true; true; false; true; false].

Lemma refuted_1 : C20.wf witness1 = true /\ C20.kf witness1 = 1%N /\
  C20.spec witness1 (C20.o_final (C20.model witness1)) = false.
Proof. vm_compute. auto. Qed.
Lemma refuted_2 : C20.wf witness2 = true /\ C20.kf witness2 = 2%N /\
  C20.spec witness2 (C20.o_final (C20.model witness2)) = false.
Proof. vm_compute. auto. Qed.

(* the stacked table of witness 1: l1's import mountpoint carries two mounts *)
Example witness1_final : has_dup (C20.o_final (C20.model witness1)) = true /\
  length (C20.o_final (C20.model witness1)) = 4%nat.
Proof. vm_compute. auto. Qed.
(* the partial table of witness 2: l2's import is mounted, its overlay is not *)
Example witness2_final : C20.o_final (C20.model witness2) =
  [bs "/b/layers/l1/build/proc"; bs "/b/layers/l2/build/proc"].
Proof. vm_compute. reflexivity. Qed.

(* the hypotheses of C20_holds are satisfiable by a run that is not serial *)
Example holds_hyps_sat : C20.wf witness0 = true /\ C20.kf witness0 = 0%N /\
  serial_picks (tr_picks (C20.o_trace (C20.model witness0))) = false /\
  length (C20.o_calls_a (C20.model witness0)) = 4%nat /\ length (C20.o_calls_b (C20.model witness0)) = 7%nat.
Proof. vm_compute. auto 6. Qed.

(* the hypotheses of the mount/mount theorem on the codes of witness0 *)
Example mount_mount_hyps_sat :
  pm_code (code_a witness0) = true /\ pm_code (code_b witness0) = true /\
  (exists ra, code_a witness0 = IProbe :: ra) /\ (exists rb, code_b witness0 = IProbe :: rb) /\
  C20.nodup_b (targets (code_a witness0)) = true /\ C20.nodup_b (targets (code_b witness0)) = true /\
  length (targets (code_b witness0)) = 3%nat /\
  tr_stacked (run_trace (run_of witness0)) = false.
Proof. vm_compute. repeat split; eexists; reflexivity. Qed.

(* the run of witness 1 records one stacking event: the second invocation mounts l1's import,
   having read an empty table, after the first invocation made its three mounts *)
Example witness1_events :
  map (fun e => (se_first e, se_target e, se_seen e, map fst (se_since e)))
      (run_events (C20.c_sched witness1) (C20.c_k0 witness1) (code_a witness1) (code_b witness1))
  = [(false, bs "/b/layers/l1/build/proc", Some [], [true; true; true])].
Proof. vm_compute. reflexivity. Qed.

(* the hypothesis of the serial-picks theorem: a mount and an umount of l2, one after the other
   (empty schedule = the first invocation runs to completion first); both make calls *)
Definition witness_serial : C20.case := w_case (CMount (bs "l2")) (CUmount (bs "l2") false) [] [].
Example serial_hyps_sat :
  serial_picks (tr_picks (run_trace (run_of witness_serial))) = true /\
  length (C20.o_calls_a (C20.model witness_serial)) = 9%nat /\
  length (C20.o_calls_b (C20.model witness_serial)) = 4%nat /\
  C20.kf witness_serial = 0%N.
Proof. vm_compute. auto. Qed.

(* the hypotheses of stack_only_if_stale_other on the run that does stack (witness 1) *)
Example stale_other_hyps_sat :
  C20.nodup_b (targets (code_a witness1)) = true /\ C20.nodup_b (targets (code_b witness1)) = true /\
  length (targets (code_a witness1)) = 3%nat.
Proof. vm_compute. auto. Qed.

(* why stack_only_if_stale_other needs codes without repeated targets: a code that names a
   target twice without reading the table in between stacks on its own mount *)
Example stale_other_needs_nodup :
  map (fun e => (se_first e, se_seen e, se_since e))
      (run_events [] [] [IProbe; IMountIf (bs "/m") false; IMountIf (bs "/m") false] [])
  = [(true, Some [], [(true, bs "/m")])].
Proof. vm_compute. reflexivity. Qed.
