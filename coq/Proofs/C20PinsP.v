(* C20 -- constants of Gen/Consts.v (rewritten from the source of /repo by tools/genconsts on
   every run) compared with literals.  Used by: the predicate C20.spec / wf / kf read layers from disk through Model/Layers.v (layerconfig_path).
   A changed constant makes this file fail to build; the check then reports
   "proof obligation no longer checks" for Properties/C20.v (C20_constants_pinned) instead of
   letting model, predicate and code move together unnoticed. *)
From LC Require Import Lib.Bytes Gen.Consts.
Local Open Scope string_scope.

Lemma c20_constants_pinned :
  (* doc/layercake_directories.adoc, manual page LAYER DIRECTORY: "layerconfig" *)
  D_LayerconfigFile = bs "layerconfig".
Proof. repeat split; vm_compute; reflexivity. Qed.
