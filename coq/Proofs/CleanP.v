(* Idempotence of the component-level path.Clean, and token-shape preservation:
   Clean of a white-space-free non-empty token is again such a token; every result of
   strings.Fields is such a token. *)
From LC Require Import Lib.Bytes Lib.Fields Lib.PathM Proofs.PathP.

(* ---- idempotence *)
Lemma psplit_sl X : psplit (sl :: X) = [] :: psplit X.
Proof. unfold psplit, split. cbn [split_acc rev]. rewrite Ascii.eqb_refl. reflexivity. Qed.

Lemma stepc_nil r st : stepc r st [] = st.
Proof. reflexivity. Qed.

Lemma is_rooted_sl X : is_rooted (sl :: X) = true.
Proof. cbn [is_rooted]. apply Ascii.eqb_refl. Qed.

Lemma fold_psplit_pjoin r cs : nf r cs -> fold_left (stepc r) (psplit (pjoin cs)) [] = rev cs.
Proof.
  intros Hnf. destruct cs as [|c cs'].
  - reflexivity.
  - unfold psplit, pjoin. rewrite split_join; [|discriminate|exact (nf_noslash _ _ Hnf)].
    now apply fold_nf.
Qed.

Lemma clean_body cs y u : nf false cs -> pjoin cs = y :: u -> y <> sl -> clean (pjoin cs) = pjoin cs.
Proof.
  intros Hnf E Hy.
  assert (Hne : pjoin cs <> []) by (rewrite E; discriminate).
  assert (Hr : is_rooted (pjoin cs) = false) by (rewrite E; now apply is_rooted_sl_false).
  rewrite (clean_unfold _ Hne). unfold cstack. rewrite Hr.
  rewrite (fold_psplit_pjoin _ _ Hnf), rev_involutive. unfold assemble. rewrite E. reflexivity.
Qed.

Lemma clean_slsl cs : nf true cs -> clean (sl :: sl :: pjoin cs) = sl :: pjoin cs.
Proof.
  intros Hnf. rewrite clean_unfold by discriminate. unfold cstack. rewrite !is_rooted_sl, !psplit_sl.
  cbn [fold_left]. rewrite !stepc_nil, (fold_psplit_pjoin _ _ Hnf), rev_involutive. reflexivity.
Qed.

Lemma clean_assemble r cs : nf r cs -> clean (assemble r cs) = assemble r cs.
Proof.
  intros Hnf. destruct r.
  - unfold assemble. rewrite clean_unfold by discriminate. unfold cstack. rewrite !is_rooted_sl, psplit_sl.
    cbn [fold_left]. rewrite stepc_nil, (fold_psplit_pjoin _ _ Hnf), rev_involutive. reflexivity.
  - destruct cs as [|c cs'].
    + vm_compute. reflexivity.
    + destruct (nf_head _ _ _ Hnf) as (x & c' & -> & Hx).
      destruct (pjoin_head (x :: c') cs') as (t & Et).
      assert (Eb : pjoin ((x :: c') :: cs') = x :: (c' ++ t)) by exact Et.
      unfold assemble. rewrite Eb. rewrite <- Eb. exact (clean_body _ _ _ Hnf Eb Hx).
Qed.

Lemma clean_idem p : clean (clean p) = clean p.
Proof.
  destruct p as [|a p'].
  - vm_compute. reflexivity.
  - rewrite (clean_unfold (a :: p')) by discriminate. apply clean_assemble. apply cstack_nf.
Qed.

Lemma clean_reroot_idem m : clean (sl :: clean (sl :: m)) = clean (sl :: m).
Proof.
  pose proof (cstack_nf (sl :: m)) as Hnf. rewrite is_rooted_sl in Hnf.
  rewrite (clean_unfold (sl :: m)) by discriminate. rewrite is_rooted_sl. unfold assemble.
  now apply clean_slsl.
Qed.

(* ---- no white space *)
Definition nsp (c : ascii) : Prop := is_sp c = false.

Lemma nsp_forallb t : forallb (fun c => negb (is_sp c)) t = true <-> Forall nsp t.
Proof.
  rewrite forallb_forall, Forall_forall. unfold nsp. split; intros H x Hx; specialize (H x Hx).
  - now apply negb_true_iff in H.
  - now apply negb_true_iff.
Qed.

Lemma nsp_sl : nsp sl.
Proof. vm_compute. reflexivity. Qed.
Lemma nsp_dotc : nsp (nb 46).
Proof. vm_compute. reflexivity. Qed.
Lemma nsp_dot : Forall nsp dot.
Proof. constructor; [exact nsp_dotc|constructor]. Qed.

Lemma split_acc_nsp s : forall cur, Forall nsp cur -> Forall nsp s -> Forall (Forall nsp) (split_acc sl cur s).
Proof.
  induction s as [|c r IH]; intros cur Hc Hs; cbn [split_acc].
  - constructor; [now apply Forall_rev|constructor].
  - inversion Hs as [|? ? Hc1 Hr]; subst. destruct (Ascii.eqb c sl).
    + constructor; [now apply Forall_rev|]. apply IH; [constructor|exact Hr].
    + apply IH; [constructor; assumption|exact Hr].
Qed.

Lemma stepc_nsp r st c : Forall (Forall nsp) st -> Forall nsp c -> Forall (Forall nsp) (stepc r st c).
Proof.
  intros Hst Hc. unfold stepc. destruct (beq c [] || beq c dot); [exact Hst|].
  destruct (beq c dotdot) eqn:E.
  - apply beq_true in E. subst c. destruct st as [|top rest].
    + destruct r; [constructor|constructor; [exact Hc|constructor]].
    + destruct (beq top dotdot); [constructor; assumption|now inversion Hst].
  - constructor; assumption.
Qed.

Lemma fold_nsp r cs : Forall (Forall nsp) cs -> forall st, Forall (Forall nsp) st ->
  Forall (Forall nsp) (fold_left (stepc r) cs st).
Proof.
  induction 1 as [|c cs Hc _ IH]; intros st Hst; cbn [fold_left]; [exact Hst|].
  apply IH. now apply stepc_nsp.
Qed.

Lemma pjoin_nsp cs : Forall (Forall nsp) cs -> Forall nsp (pjoin cs).
Proof.
  unfold pjoin. induction cs as [|c r IH]; intros H; [constructor|].
  inversion H as [|? ? Hc Hr]; subst. destruct r as [|c2 r'].
  - exact Hc.
  - change (join sl (c :: c2 :: r')) with (c ++ sl :: join sl (c2 :: r')).
    apply Forall_app; split; [exact Hc|]. constructor; [exact nsp_sl|]. apply IH. exact Hr.
Qed.

Lemma clean_nsp p : Forall nsp p -> Forall nsp (clean p).
Proof.
  intros Hp. destruct p as [|a p'].
  - exact nsp_dot.
  - rewrite clean_unfold by discriminate.
    assert (Hcs : Forall (Forall nsp) (cstack (a :: p'))).
    { unfold cstack. apply Forall_rev. apply fold_nsp; [|constructor].
      unfold psplit, split. apply split_acc_nsp; [constructor|exact Hp]. }
    unfold assemble. destruct (is_rooted (a :: p')).
    + constructor; [exact nsp_sl|now apply pjoin_nsp].
    + destruct (pjoin (cstack (a :: p'))) eqn:E; [exact nsp_dot|]. rewrite <- E. now apply pjoin_nsp.
Qed.

Lemma clean_tok t : tok_ok t -> tok_ok (clean t).
Proof.
  intros [_ Ht]. split; [apply clean_nonempty|]. apply nsp_forallb. apply clean_nsp. now apply nsp_forallb.
Qed.

Lemma clean_reroot_tok m : tok_ok m -> tok_ok (clean (sl :: m)).
Proof.
  intros [_ Ht]. split; [apply clean_nonempty|]. apply nsp_forallb. apply clean_nsp.
  constructor; [exact nsp_sl|now apply nsp_forallb].
Qed.

(* ---- strings.Fields *)
Lemma tok_ok_rev cur : cur <> [] -> Forall nsp cur -> tok_ok (rev cur).
Proof.
  intros Hne H. split.
  - intros E. apply (f_equal (@rev _)) in E. rewrite rev_involutive in E. cbn [rev] in E. congruence.
  - apply nsp_forallb. now apply Forall_rev.
Qed.

Definition finv (s : fst_) : Prop := Forall nsp (fst s) /\ Forall tok_ok (snd s).

Lemma fstep_inv s c : finv s -> finv (fstep s c).
Proof.
  destruct s as [cur out]. intros [Hc Ho]. cbn [fst snd] in Hc, Ho. unfold fstep.
  destruct (is_sp c) eqn:E.
  - destruct cur as [|x cur']; split; cbn [fst snd]; [constructor|exact Ho|constructor|].
    constructor; [|exact Ho]. apply tok_ok_rev; [discriminate|exact Hc].
  - split; cbn [fst snd]; [constructor; assumption|exact Ho].
Qed.

Lemma ffold_inv s : forall st, finv st -> finv (fold_left fstep s st).
Proof. induction s as [|c r IH]; intros st H; cbn [fold_left]; [exact H|]. apply IH. now apply fstep_inv. Qed.

Lemma fields_tok s : Forall tok_ok (fields s).
Proof.
  unfold fields.
  assert (H : finv (fold_left fstep s ([], []))) by (apply ffold_inv; split; constructor).
  destruct (fold_left fstep s ([], [])) as [cur out]. destruct H as [Hc Ho]. cbn [fst snd] in Hc, Ho.
  unfold ffinish. destruct cur as [|x cur'].
  - now apply Forall_rev.
  - apply Forall_rev. constructor; [|exact Ho]. apply tok_ok_rev; [discriminate|exact Hc].
Qed.

Print Assumptions clean_idem.
Print Assumptions clean_reroot_idem.
Print Assumptions clean_tok.
Print Assumptions clean_reroot_tok.
Print Assumptions fields_tok.
