(* The decidable closure [C05.grow]/[C05.closure] computes exactly the inductive reachability
   [ReachIn]: soundness, and completeness by a pigeonhole argument on the fuel. *)
From LC Require Import Lib.Bytes Lib.Lex Lib.Fields Model.Resolve Cases.C05
  Proofs.ResolveBasics Proofs.ResolveInv Proofs.ResolveP.
Import C05.

Section Closure.
Variable vdb : list pkg.
Variable bdeps : bool.
Variable rq : list atomr.
Notation Reach := (ReachIn vdb bdeps rq).

Lemma nodupN_in l x : In x (nodupN l) <-> In x l.
Proof.
  induction l as [|y r IH]; cbn; [tauto|]. destruct (memN y r) eqn:E.
  - rewrite IH. split; auto. intros [<-|H]; auto. now apply memN_in.
  - cbn. rewrite IH. tauto.
Qed.
Lemma nodupN_nodup l : NoDup (nodupN l).
Proof.
  induction l as [|y r IH]; cbn; [constructor|]. destruct (memN y r) eqn:E; auto.
  constructor; auto. rewrite nodupN_in. now apply memN_false.
Qed.

Lemma succs_in i q : In q (succs vdb bdeps i) <->
  exists p a, pkg_at vdb i = Some p /\ In a (active_of bdeps p) /\ a_blk a = false /\ In q (amatch vdb a).
Proof.
  unfold succs. destruct (pkg_at vdb i) as [p|].
  - rewrite in_flat_map. split.
    + intros (a & Ha & Hq). apply filter_In in Ha as [H1 H2]. apply negb_true_iff in H2. exists p, a. auto.
    + intros (p' & a & E & H1 & H2 & H3). injection E as <-. exists a. split; auto.
      apply filter_In. split; auto. now apply negb_true_iff.
  - split; [intros []|intros (p & a & E & _); discriminate].
Qed.

Lemma grow_incl fuel inS : forall R, incl R (grow vdb bdeps fuel inS R).
Proof.
  induction fuel as [|f IH]; intros R; cbn; [apply incl_refl|].
  destruct (nodupN _) as [|x new]; [apply incl_refl|].
  eapply incl_tran; [|apply IH]. apply incl_appl, incl_refl.
Qed.

Lemma grow_sound fuel inS : forall R,
  (forall x, In x R -> Reach inS x) -> forall x, In x (grow vdb bdeps fuel inS R) -> Reach inS x.
Proof.
  induction fuel as [|f IH]; intros R HR x; cbn; auto.
  destruct (nodupN _) as [|y new] eqn:E; auto.
  apply IH. intros z Hz. apply in_app_iff in Hz as [Hz|Hz]; auto.
  rewrite <- E in Hz. rewrite nodupN_in in Hz. apply filter_In in Hz as [H1 H2].
  apply andb_true_iff in H2 as [H2 _]. apply in_flat_map in H1 as (r & Hr & Hq).
  apply succs_in in Hq as (p & a & Hp & Ha & Hb & Hm). eapply RI_step; eauto.
Qed.

Lemma grow_closed fuel inS : forall R,
  NoDup R -> (forall x, In x R -> valid_id vdb x) -> (length vdb <= fuel + length R)%nat ->
  forall r q, In r (grow vdb bdeps fuel inS R) -> In q (succs vdb bdeps r) -> inS q = true ->
              In q (grow vdb bdeps fuel inS R).
Proof.
  induction fuel as [|f IH]; intros R ND HV HL r q Hr Hq HS.
  - cbn in *. assert (incl (ids vdb) R).
    { apply NoDup_length_incl; auto.
      - unfold ids. rewrite map_length, seq_length. lia.
      - intros x Hx. apply ids_in. auto. }
    apply H. apply ids_in. apply succs_in in Hq as (p & a & _ & _ & _ & Hm). eapply amatch_valid; eauto.
  - cbn in *. destruct (nodupN _) as [|y new] eqn:E.
    + destruct (in_dec N.eq_dec q R) as [|Hn]; auto. exfalso.
      assert (In q (nodupN (filter (fun q0 => inS q0 && negb (memN q0 R)) (flat_map (succs vdb bdeps) R)))).
      { apply nodupN_in, filter_In. split.
        - apply in_flat_map. eauto.
        - rewrite HS. cbn. apply negb_true_iff. now apply memN_false. }
      rewrite E in H. contradiction.
    + assert (Hnew : forall z, In z (y :: new) -> In z (flat_map (succs vdb bdeps) R) /\ ~ In z R).
      { intros z Hz. rewrite <- E in Hz. rewrite nodupN_in in Hz. apply filter_In in Hz as [H1 H2].
        apply andb_true_iff in H2 as [_ H2]. apply negb_true_iff in H2. split; auto. now apply memN_false. }
      eapply IH; eauto.
      * apply nodup_app; auto.
        -- rewrite <- E. apply nodupN_nodup.
        -- intros z Hz1 Hz2. apply Hnew in Hz2 as [_ Hz2]. contradiction.
      * intros x Hx. apply in_app_iff in Hx as [Hx|Hx]; auto. apply Hnew in Hx as [Hx _].
        apply in_flat_map in Hx as (r0 & _ & Hx). apply succs_in in Hx as (p & a & _ & _ & _ & Hm).
        eapply amatch_valid; eauto.
      * rewrite app_length. cbn. lia.
Qed.

Lemma closure_sound inS i : In i (closure vdb bdeps inS rq) -> Reach inS i.
Proof.
  unfold closure. apply grow_sound. intros x Hx. rewrite nodupN_in in Hx. apply filter_In in Hx as [H1 H2].
  unfold root_matches in H1. apply in_flat_map in H1 as (a & Ha & Hm). apply filter_In in Ha as [Ha Hb].
  apply negb_true_iff in Hb. eapply RI_root; eauto.
Qed.

Lemma closure_complete inS i : Reach inS i -> In i (closure vdb bdeps inS rq).
Proof.
  assert (HV : forall x, In x (nodupN (filter inS (root_matches vdb rq))) -> valid_id vdb x).
  { intros x Hx. rewrite nodupN_in in Hx. apply filter_In in Hx as [H1 _]. unfold root_matches in H1.
    apply in_flat_map in H1 as (a & _ & Hm). eapply amatch_valid; eauto. }
  induction 1 as [a i Ha Hb Hm HS|j p a i Hj IH Hp Ha Hb Hm HS].
  - unfold closure. apply grow_incl. apply nodupN_in, filter_In. split; auto.
    unfold root_matches. apply in_flat_map. exists a. split; auto. apply filter_In. split; auto. now apply negb_true_iff.
  - unfold closure in *. eapply grow_closed; eauto.
    + apply nodupN_nodup.
    + lia.
    + apply succs_in. exists p, a. auto.
Qed.

Lemma closure_spec inS i : In i (closure vdb bdeps inS rq) <-> Reach inS i.
Proof. split; [apply closure_sound|apply closure_complete]. Qed.

(* the full closure is closed under roots and successors *)
Lemma maxclosure_root a : In a rq -> a_blk a = false -> incl (amatch vdb a) (maxclosure vdb bdeps rq).
Proof. intros Ha Hb i Hi. apply closure_complete. eapply RI_root; eauto. Qed.
Lemma maxclosure_step j p a : In j (maxclosure vdb bdeps rq) -> pkg_at vdb j = Some p ->
  In a (active_of bdeps p) -> a_blk a = false -> incl (amatch vdb a) (maxclosure vdb bdeps rq).
Proof.
  intros Hj Hp Ha Hb i Hi. apply closure_complete. apply closure_sound in Hj. eapply RI_step; eauto.
Qed.
End Closure.
