(* C17: the compression method stagemaker -generate picks is the documented one. *)
From LC Require Import Lib.Bytes Lib.Fields Gen.Consts Model.StageLine Model.Compress.
Open Scope N_scope.

Lemma map_lower_len s : length (map lower s) = length s.
Proof. apply map_length. Qed.

Lemma doc_name_decode s m : doc_name_method s = DGMethod m -> decode_input s = Some m.
Proof.
  unfold doc_name_method, decode_input.
  assert (Hv : forall w, beq (map lower s) w = true -> (2 <= length w)%nat ->
               (match s with _ :: _ :: _ => map lower s | _ => s end) = w).
  { intros w Hw Hl. apply beq_true in Hw.
    destruct s as [|a [|b r]]; [subst w; cbn in Hl; lia|subst w; cbn in Hl; lia|exact Hw]. }
  destruct (beq (map lower s) (bs "gzip")) eqn:E1.
  { intros H. injection H as <-. rewrite (Hv _ E1) by (cbn; lia). reflexivity. }
  destruct (beq (map lower s) (bs "bzip2")) eqn:E2.
  { intros H. injection H as <-. rewrite (Hv _ E2) by (cbn; lia). reflexivity. }
  destruct (beq (map lower s) (bs "xz")) eqn:E3.
  { intros H. injection H as <-. rewrite (Hv _ E3) by (cbn; lia). reflexivity. }
  destruct (beq (map lower s) (bs "none")) eqn:E4.
  { intros H. injection H as <-. rewrite (Hv _ E4) by (cbn; lia). reflexivity. }
  discriminate.
Qed.

Lemma name_spec s : match doc_name_method s, decode_input s with
                    | DGOpen, _ => True
                    | DGFail, _ => False
                    | DGMethod m, r => r = Some m
                    end.
Proof.
  destruct (doc_name_method s) as [| |m] eqn:E; [|exact I|now apply doc_name_decode].
  unfold doc_name_method in E.
  repeat match type of E with (if ?b then _ else _) = _ => destruct b; try discriminate end.
Qed.

Theorem gen_spec_holds : forall sw out recipe, gen_spec sw out recipe (gen_method sw out recipe) = true.
Proof.
  intros sw out recipe. unfold gen_spec, doc_gen, gen_method.
  destruct sw as [|c sw'].
  - destruct out as [|o out'].
    + destruct recipe as [|v [|v2 r]]; cbn [hd].
      * cbn. reflexivity.
      * pose proof (name_spec v) as H. destruct (doc_name_method v) as [| |m]; [contradiction|reflexivity|].
        destruct v as [|x v']; [cbn in H; discriminate|]. rewrite H. apply N.eqb_refl.
      * reflexivity.
    + destruct (decode_ext (o :: out')) as [m|] eqn:Ee; [apply N.eqb_refl|].
      destruct recipe as [|v [|v2 r]]; cbn [hd].
      * reflexivity.
      * pose proof (name_spec v) as H. destruct (doc_name_method v) as [| |m]; [contradiction|reflexivity|].
        destruct v as [|x v']; [cbn in H; discriminate|]. rewrite H. apply N.eqb_refl.
      * reflexivity.
  - pose proof (name_spec (c :: sw')) as H.
    destruct (doc_name_method (c :: sw')) as [| |m]; [contradiction|reflexivity|].
    rewrite H. apply N.eqb_refl.
Qed.
Print Assumptions gen_spec_holds.
