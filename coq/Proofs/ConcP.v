(* C20: lemmas about the interleaving machine of Model/Conc.v.
   Part 1: a non-accumulating presentation [ileave] of [interleave], the step cost that shows
           the fuel of [run_sched] sufficient, runs of one process alone ([solo]) and the
           theorem on serial picks.
   Part 2: what one step does ([step_kind]); an instrumented run carrying per process the table
           as it last read it and the mounts made since, recording every mount that lands on
           a mounted mountpoint ([stack_only_if_stale], [stack_only_if_stale_other]).
   Part 3: codes that only probe and mount (and may give up): no stacking implies the outcome
           of both serial orders.
   The case-level statements (witnesses, C20_holds) are in Proofs/C20P.v. *)
From LC Require Import Lib.Bytes Lib.Lex Lib.Fields Lib.PathM Model.FsTree Model.Conc.
From Coq Require Import Sorting.Sorted ZifyBool ZifyNat.

(* ------------------------------------------------------------------ small facts *)
Lemma mem_path_In p t : mem_path p t = true <-> In p t.
Proof.
  unfold mem_path. rewrite existsb_exists. split.
  - intros [x [Hx E]]. apply beq_true in E. now subst.
  - intros H. exists p. split; [exact H|apply beq_refl].
Qed.
Lemma mem_path_false p t : mem_path p t = false <-> ~ In p t.
Proof.
  rewrite <- mem_path_In. destruct (mem_path p t); split; intros H.
  - discriminate.
  - exfalso. apply H. reflexivity.
  - intros C. discriminate.
  - reflexivity.
Qed.
Lemma mem_path_app p a b : mem_path p (a ++ b) = mem_path p a || mem_path p b.
Proof. unfold mem_path. apply existsb_app. Qed.

Lemma list_beq_refl_b (l : list bytes) : list_beq beq l l = true.
Proof. induction l as [|x l IH]; cbn; auto. now rewrite beq_refl, IH. Qed.
Lemma ktab_eq_refl k : ktab_eq k k = true.
Proof. unfold ktab_eq. apply list_beq_refl_b. Qed.
Lemma ktab_eq_of_eq a b : a = b -> ktab_eq a b = true.
Proof. intros ->. apply ktab_eq_refl. Qed.

Lemma remove_last_length p t : mem_path p t = true -> S (length (remove_last p t)) = length t.
Proof.
  induction t as [|x r IH]; cbn [remove_last mem_path existsb length]; [discriminate|].
  intros H. fold (mem_path p r) in *.
  destruct (beq x p && negb (mem_path p r)) eqn:E; [reflexivity|].
  cbn [length]. f_equal. apply IH.
  destruct (mem_path p r) eqn:M; [reflexivity|].
  rewrite orb_false_r in H. rewrite beq_sym in H. rewrite H in E. discriminate.
Qed.
Lemma kumount_abs_length k t k' : kumount_abs k t = Some k' -> S (length k') = length k.
Proof.
  unfold kumount_abs. destruct (mem_path t k) eqn:M; cbn [andb]; [|discriminate].
  destruct (negb _); [|discriminate]. intros E. injection E as <-. now apply remove_last_length.
Qed.

(* ------------------------------------------------------------------ one step, projections *)
Definition nk (k : ktab) (p : proc) : ktab := fst (fst (step1 k p)).
Definition np (k : ktab) (p : proc) : proc := snd (fst (step1 k p)).

(* who moves; the rest of the schedule *)
Definition pick (s : list bool) (a b : proc) : bool :=
  match s with
  | x :: _ => if x then negb (finished a) else finished b
  | [] => negb (finished a)
  end.
Definition stl (s : list bool) : list bool := match s with _ :: r => r | [] => [] end.

Lemma pick_true s a b : finished a && finished b = false -> pick s a b = true -> finished a = false.
Proof. unfold pick. destruct s as [|[|] ?], (finished a), (finished b); cbn; congruence. Qed.
Lemma pick_false s a b : finished a && finished b = false -> pick s a b = false -> finished b = false.
Proof. unfold pick. destruct s as [|[|] ?], (finished a), (finished b); cbn; congruence. Qed.
Lemma pick_b_finished s a b : finished a = false -> finished b = true -> pick s a b = true.
Proof. unfold pick. intros -> ->. now destruct s as [|[|] ?]. Qed.
Lemma pick_a_finished s a b : finished a = true -> finished b = false -> pick s a b = false.
Proof. unfold pick. intros -> ->. now destruct s as [|[|] ?]. Qed.

(* ------------------------------------------------------------------ interleave without accumulator *)
Record ires := MkIR { ir_k : ktab; ir_a : proc; ir_b : proc; ir_picks : list bool; ir_st : bool }.

Fixpoint ileave (fuel : nat) (s : list bool) (k : ktab) (a b : proc) : ires :=
  match fuel with
  | O => MkIR k a b [] false
  | S fuel' =>
    if finished a && finished b then MkIR k a b [] false else
    if pick s a b then
      let r := ileave fuel' (stl s) (nk k a) (np k a) b in
      MkIR (ir_k r) (ir_a r) (ir_b r) (true :: ir_picks r) (landed_on_mounted k a (np k a) || ir_st r)
    else
      let r := ileave fuel' (stl s) (nk k b) a (np k b) in
      MkIR (ir_k r) (ir_a r) (ir_b r) (false :: ir_picks r) (landed_on_mounted k b (np k b) || ir_st r)
  end.

Lemma interleave_ileave fuel : forall s k a b tr,
  interleave fuel s k a b tr =
  let r := ileave fuel s k a b in
  (ir_k r, ir_a r, ir_b r, MkTr (tr_picks tr ++ ir_picks r) (tr_stacked tr || ir_st r)).
Proof.
  induction fuel as [|f IH]; intros s k a b tr; cbn [interleave ileave].
  - cbn. rewrite app_nil_r, orb_false_r. now destruct tr.
  - destruct (finished a && finished b) eqn:F.
    + cbn. rewrite app_nil_r, orb_false_r. now destruct tr.
    + fold (pick s a b). fold (stl s). destruct (pick s a b) eqn:P.
      * unfold nk, np. destruct (step1 k a) as [[k' a'] i]. cbn [fst snd].
        rewrite IH. cbn [ir_k ir_a ir_b ir_picks ir_st tr_picks tr_stacked].
        now rewrite <- app_assoc, orb_assoc.
      * unfold nk, np. destruct (step1 k b) as [[k' b'] i]. cbn [fst snd].
        rewrite IH. cbn [ir_k ir_a ir_b ir_picks ir_st tr_picks tr_stacked].
        now rewrite <- app_assoc, orb_assoc.
Qed.

(* the result of [run_sched] in terms of [ileave] *)
Definition rs_fuel (k : ktab) (ca cb : list instr) : nat := run_fuel ca cb + 8 * length k.
Definition rs (s : list bool) (k : ktab) (ca cb : list instr) : ires :=
  ileave (rs_fuel k ca cb) s k (start ca) (start cb).
Lemma run_sched_rs s k ca cb :
  run_sched s k ca cb =
  (ir_k (rs s k ca cb), ir_a (rs s k ca cb), ir_b (rs s k ca cb), MkTr (ir_picks (rs s k ca cb)) (ir_st (rs s k ca cb))).
Proof. unfold run_sched. rewrite interleave_ileave. reflexivity. Qed.

(* ------------------------------------------------------------------ cost of the remaining work *)
Definition icost (i : instr) : nat :=
  match i with
  | IProbe => 1 | IMountIf _ _ => 3 | IUmountLayer _ => 2 | IUmountOne _ => 0 | IFail => 1
  end.
Fixpoint ccost (c : list instr) : nat := match c with [] => 0 | i :: r => icost i + ccost r end.
Definition pcost (p : proc) : nat := if finished p then 0 else S (ccost (pc_code p)).

Lemma ccost_app a b : ccost (a ++ b) = ccost a + ccost b.
Proof. induction a as [|i a IH]; cbn; [reflexivity|]. rewrite IH. lia. Qed.
Lemma ccost_umounts l : ccost (map IUmountOne l) = 0.
Proof. induction l; cbn; auto. Qed.
Lemma ccost_le c : ccost c <= 3 * length c.
Proof. induction c as [|i c IH]; cbn [ccost length]; [lia|]. destruct i; cbn [icost]; lia. Qed.
Lemma pcost_mk_le code cache calls : pcost (MkProc code cache false calls) <= S (ccost code).
Proof. unfold pcost, finished. cbn. destruct code; lia. Qed.
Lemma pcost_mk_failed code cache calls : pcost (MkProc code cache true calls) = 0.
Proof. reflexivity. Qed.
Lemma pcost_finished p : finished p = true -> pcost p = 0.
Proof. unfold pcost. now intros ->. Qed.
Lemma pcost_zero p : pcost p = 0 -> finished p = true.
Proof. unfold pcost. destruct (finished p); [reflexivity|discriminate]. Qed.
Lemma pcost_unfinished p : finished p = false -> pcost p = S (ccost (pc_code p)).
Proof. unfold pcost. now intros ->. Qed.

(* every step pays for itself; a step of an unfinished process with fuel left pays one more *)
Lemma step_proc_cost fuel : forall k p,
  length (fst (fst (step_proc fuel k p))) + pcost (snd (fst (step_proc fuel k p)))
  + (if finished p then 0 else match fuel with O => 0 | S _ => 1 end)
  <= length k + pcost p.
Proof.
  induction fuel as [|f IH]; intros k p.
  - cbn [step_proc fst snd]. destruct (finished p); lia.
  - cbn [step_proc]. destruct p as [code cache failed calls]. cbn [pc_failed pc_code pc_cache pc_calls].
    destruct failed; [cbn; lia|].
    destruct code as [|i r]; [cbn; lia|].
    replace (finished (MkProc (i :: r) cache false calls)) with false by reflexivity.
    rewrite (pcost_unfinished (MkProc (i :: r) cache false calls)) by reflexivity.
    cbn [pc_code ccost].
    destruct i as [|t rp|bld|t|]; cbn [icost].
    + cbn [fst snd]. pose proof (pcost_mk_le r k (calls ++ [KProbe])). lia.
    + destruct (mem_path t cache).
      * specialize (IH k (MkProc r cache false calls)).
        pose proof (pcost_mk_le r cache calls). lia.
      * cbn [fst snd]. rewrite app_length. cbn [length].
        pose proof (pcost_mk_le (if rp then IProbe :: r else r) cache (calls ++ [KMount t])) as H.
        destruct rp; cbn [ccost icost] in H; lia.
    + destruct (rev (Lex.sort (filter (at_or_below bld) cache))) as [|x l] eqn:E.
      * cbn [fst snd]. rewrite pcost_mk_failed. lia.
      * specialize (IH k (MkProc (map IUmountOne (x :: l) ++ IProbe :: r) cache false calls)).
        pose proof (pcost_mk_le (map IUmountOne (x :: l) ++ IProbe :: r) cache calls) as H.
        rewrite ccost_app, ccost_umounts in H. cbn [ccost icost] in H. lia.
    + destruct (kumount_abs k t) as [k'|] eqn:E.
      * cbn [fst snd]. apply kumount_abs_length in E.
        pose proof (pcost_mk_le r cache (calls ++ [KUmount t true])). lia.
      * cbn [fst snd]. rewrite pcost_mk_failed. lia.
    + cbn [fst snd]. rewrite pcost_mk_failed. lia.
Qed.

Lemma step1_cost k p : finished p = false -> S (length (nk k p) + pcost (np k p)) <= length k + pcost p.
Proof.
  intros F. unfold nk, np, step1. pose proof (step_proc_cost (code_fuel p) k p) as H.
  rewrite F in H. unfold code_fuel in H at 3. lia.
Qed.

Definition cost2 (k : ktab) (a b : proc) : nat := length k + pcost a + pcost b.

Lemma cost2_zero_finished k a b n : cost2 k a b <= n -> finished a && finished b = false -> exists m, n = S m.
Proof.
  unfold cost2. intros H F. destruct n as [|m]; [|now exists m]. exfalso.
  assert (pcost a = 0) by lia. assert (pcost b = 0) by lia.
  rewrite (pcost_zero a), (pcost_zero b) in F by assumption. discriminate.
Qed.

(* enough fuel: the result does not depend on it and both processes are finished *)
Lemma ileave_fuel f1 : forall f2 s k a b, cost2 k a b <= f1 -> cost2 k a b <= f2 ->
  ileave f1 s k a b = ileave f2 s k a b.
Proof.
  induction f1 as [|f1 IH]; intros f2 s k a b H1 H2.
  - destruct (finished a && finished b) eqn:F.
    + destruct f2; cbn [ileave]; now rewrite ?F.
    + destruct (cost2_zero_finished _ _ _ _ H1 F) as [m E]. discriminate.
  - destruct (finished a && finished b) eqn:F.
    + destruct f2; cbn [ileave]; now rewrite ?F.
    + destruct (cost2_zero_finished _ _ _ _ H2 F) as [m ->]. cbn [ileave]. rewrite F.
      destruct (pick s a b) eqn:P.
      * pose proof (step1_cost k a (pick_true _ _ _ F P)). unfold cost2 in *.
        rewrite (IH m); [reflexivity|lia|lia].
      * pose proof (step1_cost k b (pick_false _ _ _ F P)). unfold cost2 in *.
        rewrite (IH m); [reflexivity|lia|lia].
Qed.

Lemma ileave_finished f : forall s k a b, cost2 k a b <= f ->
  finished (ir_a (ileave f s k a b)) && finished (ir_b (ileave f s k a b)) = true.
Proof.
  induction f as [|f IH]; intros s k a b H.
  - destruct (finished a && finished b) eqn:F; [exact F|].
    destruct (cost2_zero_finished _ _ _ _ H F) as [m E]. discriminate.
  - cbn [ileave]. destruct (finished a && finished b) eqn:F; [exact F|].
    destruct (pick s a b) eqn:P; cbn [ir_a ir_b]; apply IH.
    + pose proof (step1_cost k a (pick_true _ _ _ F P)). unfold cost2 in *. lia.
    + pose proof (step1_cost k b (pick_false _ _ _ F P)). unfold cost2 in *. lia.
Qed.

Lemma start_cost c : pcost (start c) <= S (3 * length c).
Proof. unfold start. pose proof (pcost_mk_le c [] []). pose proof (ccost_le c). lia. Qed.

Lemma rs_fuel_enough k ca cb : cost2 k (start ca) (start cb) <= rs_fuel k ca cb.
Proof.
  unfold cost2, rs_fuel, run_fuel. pose proof (start_cost ca). pose proof (start_cost cb). lia.
Qed.

(* [run_sched] always runs both invocations to completion *)
Lemma rs_finished s k ca cb :
  finished (ir_a (rs s k ca cb)) && finished (ir_b (rs s k ca cb)) = true.
Proof. apply ileave_finished, rs_fuel_enough. Qed.

(* ------------------------------------------------------------------ one process alone *)
Fixpoint solo (fuel : nat) (k : ktab) (p : proc) : ktab * proc :=
  match fuel with
  | O => (k, p)
  | S fuel' => if finished p then (k, p) else solo fuel' (nk k p) (np k p)
  end.

Lemma solo_finished_id f k p : finished p = true -> solo f k p = (k, p).
Proof. intros F. destruct f; cbn [solo]; now rewrite ?F. Qed.

Lemma solo_cost f : forall k p, length (fst (solo f k p)) + pcost (snd (solo f k p)) <= length k + pcost p.
Proof.
  induction f as [|f IH]; intros k p; cbn [solo]; [cbn; lia|].
  destruct (finished p) eqn:F; [cbn; lia|].
  specialize (IH (nk k p) (np k p)). pose proof (step1_cost k p F). lia.
Qed.

Lemma solo_fuel f1 : forall f2 k p, length k + pcost p <= f1 -> length k + pcost p <= f2 ->
  solo f1 k p = solo f2 k p.
Proof.
  induction f1 as [|f1 IH]; intros f2 k p H1 H2.
  - assert (F : finished p = true) by (apply pcost_zero; lia). now rewrite !solo_finished_id.
  - destruct (finished p) eqn:F; [now rewrite !solo_finished_id|].
    destruct f2 as [|f2]; [rewrite pcost_unfinished in H2 by assumption; lia|].
    cbn [solo]. rewrite F. pose proof (step1_cost k p F). apply IH; lia.
Qed.

Lemma solo_finished f : forall k p, length k + pcost p <= f -> finished (snd (solo f k p)) = true.
Proof.
  induction f as [|f IH]; intros k p H.
  - cbn. apply pcost_zero. lia.
  - cbn [solo]. destruct (finished p) eqn:F; [exact F|].
    apply IH. pose proof (step1_cost k p F). lia.
Qed.

(* picks all of one process: the other one did not move *)
Lemma ileave_all_true f : forall s k a b, all_eq true (ir_picks (ileave f s k a b)) = true ->
  ir_b (ileave f s k a b) = b /\ (ir_k (ileave f s k a b), ir_a (ileave f s k a b)) = solo f k a.
Proof.
  induction f as [|f IH]; intros s k a b H; [now cbn|].
  cbn [ileave solo] in *. destruct (finished a && finished b) eqn:F.
  - cbn. split; [reflexivity|]. destruct (finished a); [reflexivity|discriminate].
  - destruct (pick s a b) eqn:P; cbn [ir_picks all_eq ir_b ir_k ir_a] in *; [|discriminate].
    rewrite (pick_true _ _ _ F P). apply IH. exact H.
Qed.
Lemma ileave_all_false f : forall s k a b, all_eq false (ir_picks (ileave f s k a b)) = true ->
  ir_a (ileave f s k a b) = a /\ (ir_k (ileave f s k a b), ir_b (ileave f s k a b)) = solo f k b.
Proof.
  induction f as [|f IH]; intros s k a b H; [now cbn|].
  cbn [ileave solo] in *. destruct (finished a && finished b) eqn:F.
  - cbn. split; [reflexivity|]. destruct (finished b); [reflexivity|]. now rewrite andb_false_r in F.
  - destruct (pick s a b) eqn:P; cbn [ir_picks all_eq ir_b ir_k ir_a] in *; [discriminate|].
    rewrite (pick_false _ _ _ F P). apply IH. exact H.
Qed.

(* the other process is finished: a run of one process alone *)
Lemma ileave_b_done f : forall s k a b, finished b = true ->
  ir_k (ileave f s k a b) = fst (solo f k a) /\ all_eq true (ir_picks (ileave f s k a b)) = true.
Proof.
  induction f as [|f IH]; intros s k a b Fb; [now cbn|].
  cbn [ileave solo]. rewrite Fb, andb_true_r. destruct (finished a) eqn:Fa; [now cbn|].
  rewrite (pick_b_finished s a b Fa Fb). cbn [ir_k ir_picks all_eq Bool.eqb]. now apply IH.
Qed.

Lemma serial_picks_cons x l : serial_picks (x :: l) = true ->
  all_eq (negb x) l = true \/ (exists l', l = x :: l') /\ serial_picks l = true.
Proof.
  cbn [serial_picks]. destruct l as [|y r]; [now left|].
  destruct (Bool.eqb x y) eqn:E.
  - apply Bool.eqb_prop in E. subst y. intros H. right. split; [now exists r|exact H].
  - intros H. left. destruct x, y; cbn in E; try discriminate; exact H.
Qed.

(* a first, then b *)
Definition solo2 (f : nat) (k : ktab) (a b : proc) : ktab := fst (solo f (fst (solo f k a)) b).

Lemma solo2_step f k a b : finished a = false -> cost2 k a b <= S f ->
  solo2 (S f) k a b = solo2 f (nk k a) (np k a) b.
Proof.
  intros F H. unfold solo2.
  assert (E : solo (S f) k a = solo f (nk k a) (np k a)) by (cbn [solo]; now rewrite F).
  rewrite E. clear E.
  pose proof (step1_cost k a F) as H1. pose proof (solo_cost f (nk k a) (np k a)) as H2.
  unfold cost2 in H. f_equal. apply solo_fuel; lia.
Qed.
Lemma solo2_done f k a b : finished a = true -> solo2 f k a b = fst (solo f k b).
Proof. intros F. unfold solo2. now rewrite (solo_finished_id f k a F). Qed.

Lemma ileave_serial f : forall s k a b, cost2 k a b <= f ->
  serial_picks (ir_picks (ileave f s k a b)) = true ->
  ir_k (ileave f s k a b) =
  match ir_picks (ileave f s k a b) with false :: _ => solo2 f k b a | _ => solo2 f k a b end.
Proof.
  induction f as [|f IH]; intros s k a b HC HS.
  - reflexivity.
  - pose proof (ileave_finished (S f) s k a b HC) as HF.
    cbn [ileave] in *. destruct (finished a && finished b) eqn:F.
    + cbn [ir_k ir_picks]. apply andb_true_iff in F as [Fa Fb].
      now rewrite solo2_done, solo_finished_id.
    + destruct (pick s a b) eqn:P; cbn [ir_k ir_a ir_b ir_picks] in *.
      * pose proof (pick_true _ _ _ F P) as Fa. pose proof (step1_cost k a Fa) as H1.
        assert (HC' : cost2 (nk k a) (np k a) b <= f) by (unfold cost2 in *; lia).
        rewrite solo2_step by assumption.
        apply serial_picks_cons in HS as [HA|[[l' HL] HS]].
        -- cbn [negb] in HA. apply ileave_all_false in HA as [E1 E2].
           rewrite E1 in HF. apply andb_true_iff in HF as [Fa' _].
           rewrite solo2_done by assumption. now rewrite <- E2.
        -- rewrite (IH _ _ _ _ HC' HS). now rewrite HL.
      * pose proof (pick_false _ _ _ F P) as Fb. pose proof (step1_cost k b Fb) as H1.
        assert (HC' : cost2 (nk k b) a (np k b) <= f) by (unfold cost2 in *; lia).
        assert (HC2 : cost2 k b a <= S f) by (unfold cost2 in *; lia).
        assert (HC3 : cost2 (nk k b) (np k b) a <= f) by (unfold cost2 in *; lia).
        rewrite solo2_step by assumption.
        apply serial_picks_cons in HS as [HA|[[l' HL] HS]].
        -- cbn [negb] in HA. apply ileave_all_true in HA as [E1 E2].
           rewrite E1 in HF. apply andb_true_iff in HF as [_ Fb'].
           rewrite solo2_done by assumption. now rewrite <- E2.
        -- rewrite (IH _ _ _ _ HC' HS). now rewrite HL.
Qed.

(* [serial_ab] is a-alone followed by b-alone *)
Lemma start_nil_finished : finished (start []) = true.
Proof. reflexivity. Qed.

Lemma rs_alone_k k c : ir_k (rs [] k c []) = fst (solo (rs_fuel k c []) k (start c)).
Proof. unfold rs. now apply ileave_b_done. Qed.

Lemma serial_ab_rs k ca cb : serial_ab k ca cb = ir_k (rs [] (ir_k (rs [] k ca [])) cb []).
Proof. unfold serial_ab. rewrite run_sched_rs. rewrite run_sched_rs. reflexivity. Qed.

Lemma alone_fuel_enough k c : length k + pcost (start c) <= rs_fuel k c [].
Proof. pose proof (rs_fuel_enough k c []) as H. unfold cost2 in H. lia. Qed.

Lemma serial_ab_solo2 f k ca cb : cost2 k (start ca) (start cb) <= f ->
  serial_ab k ca cb = solo2 f k (start ca) (start cb).
Proof.
  intros H. rewrite serial_ab_rs, !rs_alone_k. unfold solo2, cost2 in *.
  pose proof (alone_fuel_enough k ca) as H1.
  rewrite (solo_fuel (rs_fuel k ca []) f k (start ca)) by lia.
  pose proof (solo_cost f k (start ca)) as H2.
  apply f_equal. apply solo_fuel; [apply alone_fuel_enough|lia].
Qed.

(* (c): serial picks give the serial outcome of the corresponding order *)
Definition serial_of_picks (l : list bool) (k : ktab) (ca cb : list instr) : ktab :=
  match l with false :: _ => serial_ab k cb ca | _ => serial_ab k ca cb end.

Lemma serial_picks_serial_eq s k ca cb :
  serial_picks (ir_picks (rs s k ca cb)) = true ->
  ir_k (rs s k ca cb) = serial_of_picks (ir_picks (rs s k ca cb)) k ca cb.
Proof.
  intros HS. unfold rs in *. pose proof (rs_fuel_enough k ca cb) as HC.
  rewrite (ileave_serial _ _ _ _ _ HC HS). unfold serial_of_picks.
  assert (HC2 : cost2 k (start cb) (start ca) <= rs_fuel k ca cb) by (unfold cost2 in *; lia).
  destruct (ir_picks _) as [|[|] ?]; symmetry; now apply serial_ab_solo2.
Qed.

Definition run_final (r : ktab * proc * proc * trace) : ktab := fst (fst (fst r)).
Definition run_trace (r : ktab * proc * proc * trace) : trace := snd r.
Lemma run_final_rs s k ca cb : run_final (run_sched s k ca cb) = ir_k (rs s k ca cb).
Proof. now rewrite run_sched_rs. Qed.
Lemma run_trace_rs s k ca cb :
  run_trace (run_sched s k ca cb) = MkTr (ir_picks (rs s k ca cb)) (ir_st (rs s k ca cb)).
Proof. now rewrite run_sched_rs. Qed.

Theorem serial_picks_serial : forall s k ca cb,
  serial_picks (tr_picks (run_trace (run_sched s k ca cb))) = true ->
  ktab_eq (run_final (run_sched s k ca cb))
          (serial_of_picks (tr_picks (run_trace (run_sched s k ca cb))) k ca cb) = true.
Proof.
  intros s k ca cb. rewrite run_final_rs, run_trace_rs. cbn [tr_picks]. intros H.
  apply ktab_eq_of_eq. now apply serial_picks_serial_eq.
Qed.

(* ================================================================== Part 2: stale reads *)
(* what one step does, for every instruction *)
Inductive step_kind (k : ktab) (p : proc) (k' : ktab) (p' : proc) : Prop :=
| SkNone : pc_calls p' = pc_calls p -> k' = k -> pc_cache p' = pc_cache p -> step_kind k p k' p'
| SkProbe : pc_calls p' = pc_calls p ++ [KProbe] -> k' = k -> pc_cache p' = k -> step_kind k p k' p'
| SkMount t : pc_calls p' = pc_calls p ++ [KMount t] -> k' = k ++ [t] -> pc_cache p' = pc_cache p ->
              mem_path t (pc_cache p) = false -> step_kind k p k' p'
| SkUmount t ok : pc_calls p' = pc_calls p ++ [KUmount t ok] -> pc_cache p' = pc_cache p ->
              (if ok then kumount_abs k t = Some k' else k' = k) -> step_kind k p k' p'.

Lemma step_proc_kind fuel : forall k p,
  step_kind k p (fst (fst (step_proc fuel k p))) (snd (fst (step_proc fuel k p))).
Proof.
  induction fuel as [|f IH]; intros k p.
  - cbn. now apply SkNone.
  - cbn [step_proc]. destruct p as [code cache failed calls]. cbn [pc_failed pc_code pc_cache pc_calls].
    destruct failed; [now apply SkNone|].
    destruct code as [|i r]; [now apply SkNone|].
    destruct i as [|t rp|bld|t|].
    + now apply SkProbe.
    + destruct (mem_path t cache) eqn:M.
      * specialize (IH k (MkProc r cache false calls)).
        destruct IH as [H1 H2 H3|H1 H2 H3|t' H1 H2 H3 H4|t' ok H1 H2 H3]; cbn [pc_calls pc_cache] in *.
        -- now apply SkNone.
        -- now apply SkProbe.
        -- now apply (SkMount _ _ _ _ t').
        -- now apply (SkUmount _ _ _ _ t' ok).
      * now apply (SkMount _ _ _ _ t).
    + destruct (rev (Lex.sort (filter (at_or_below bld) cache))) as [|x l] eqn:E.
      * now apply SkNone.
      * specialize (IH k (MkProc (map IUmountOne (x :: l) ++ IProbe :: r) cache false calls)).
        destruct IH as [H1 H2 H3|H1 H2 H3|t' H1 H2 H3 H4|t' ok H1 H2 H3]; cbn [pc_calls pc_cache] in *.
        -- now apply SkNone.
        -- now apply SkProbe.
        -- now apply (SkMount _ _ _ _ t').
        -- now apply (SkUmount _ _ _ _ t' ok).
    + destruct (kumount_abs k t) as [k'|] eqn:E.
      * now apply (SkUmount _ _ _ _ t true).
      * now apply (SkUmount _ _ _ _ t false).
    + now apply SkNone.
Qed.
Lemma step1_kind k p : step_kind k p (nk k p) (np k p).
Proof. apply step_proc_kind. Qed.

Definition new_calls (before after_ : proc) : list call :=
  skipn (length (pc_calls before)) (pc_calls after_).
Lemma skipn_app_exact {A} (l m : list A) : skipn (length l) (l ++ m) = m.
Proof. induction l; cbn; auto. Qed.
Lemma skipn_exact {A} (l : list A) : skipn (length l) l = [].
Proof. induction l; cbn; auto. Qed.

Lemma landed_new_calls k p p' :
  landed_on_mounted k p p' = match new_calls p p' with KMount t :: _ => mem_path t k | _ => false end.
Proof. reflexivity. Qed.

(* the mount targets of a code *)
Definition targets (c : list instr) : list bytes :=
  flat_map (fun i => match i with IMountIf t _ => [t] | _ => [] end) c.
Lemma targets_app a b : targets (a ++ b) = targets a ++ targets b.
Proof. unfold targets. apply flat_map_app. Qed.
Lemma targets_umounts l : targets (map IUmountOne l) = [].
Proof. induction l; cbn; auto. Qed.

Lemma targets_cons i r :
  targets (i :: r) = match i with IMountIf t _ => t :: targets r | _ => targets r end.
Proof. now destruct i. Qed.

(* a step consumes a prefix of the targets; a mount consumes its own target *)
Lemma step_proc_targets fuel : forall k p,
  exists pre, targets (pc_code p) = pre ++ targets (pc_code (snd (fst (step_proc fuel k p)))) /\
    forall t, pc_calls (snd (fst (step_proc fuel k p))) = pc_calls p ++ [KMount t] -> In t pre.
Proof.
  assert (NC : forall (calls : list call) c, calls = calls ++ [c] -> False).
  { intros calls c E. apply (f_equal (@length _)) in E. rewrite app_length in E. cbn in E. lia. }
  assert (NP : forall (calls : list call) c d, calls ++ [c] = calls ++ [d] -> c = d).
  { intros calls c d E. apply app_inv_head in E. now injection E. }
  assert (ID : forall p : proc, exists pre, targets (pc_code p) = pre ++ targets (pc_code p) /\
                forall t, pc_calls p = pc_calls p ++ [KMount t] -> In t pre).
  { intros p. exists []. split; [reflexivity|]. intros t E. now apply NC in E. }
  assert (STOP : forall code cache calls,
            exists pre, targets code = pre ++ targets (pc_code (MkProc [] cache true calls)) /\
              forall t, pc_calls (MkProc [] cache true calls) = calls ++ [KMount t] -> In t pre).
  { intros code cache calls. exists (targets code). cbn [pc_code pc_calls]. split.
    - change (targets []) with (@nil bytes). now rewrite app_nil_r.
    - intros t E. now apply NC in E. }
  induction fuel as [|f IH]; intros k p.
  - cbn [step_proc fst snd]. apply ID.
  - cbn [step_proc]. destruct p as [code cache failed calls]. cbn [pc_failed pc_code pc_cache pc_calls].
    destruct failed; [apply (ID (MkProc code cache true calls))|].
    destruct code as [|i r]; [apply (ID (MkProc [] cache false calls))|].
    destruct i as [|t rp|bld|t|]; rewrite targets_cons.
    + exists []. cbn [fst snd pc_code pc_calls app]. split; [reflexivity|]. intros t E. apply NP in E. discriminate.
    + destruct (mem_path t cache) eqn:M.
      * destruct (IH k (MkProc r cache false calls)) as [pre [H1 H2]]. cbn [pc_code pc_calls] in *.
        exists (t :: pre). split; [cbn [app]; now rewrite <- H1|]. intros t' E. right. now apply H2.
      * exists [t]. cbn [fst snd pc_code pc_calls app]. split; [destruct rp; now rewrite ?targets_cons|].
        intros t' E. apply NP in E. injection E as <-. now left.
    + destruct (rev (Lex.sort (filter (at_or_below bld) cache))) as [|x l] eqn:E.
      * cbn [fst snd]. apply STOP.
      * destruct (IH k (MkProc (map IUmountOne (x :: l) ++ IProbe :: r) cache false calls)) as [pre [H1 H2]].
        cbn [pc_code pc_calls] in *. exists pre. split; [|exact H2].
        rewrite <- H1, targets_app, targets_umounts, targets_cons. reflexivity.
    + destruct (kumount_abs k t) as [k'|] eqn:E.
      * exists []. cbn [fst snd pc_code pc_calls app]. split; [reflexivity|]. intros t' E'. apply NP in E'. discriminate.
      * cbn [fst snd]. destruct (STOP r cache (calls ++ [KUmount t false])) as [pre [H1 H2]].
        exists pre. split; [exact H1|]. cbn [pc_calls] in *. intros t' E'. apply NP in E'. discriminate.
    + cbn [fst snd]. apply STOP.
Qed.
Lemma step1_targets k p :
  exists pre, targets (pc_code p) = pre ++ targets (pc_code (np k p)) /\
    forall t, pc_calls (np k p) = pc_calls p ++ [KMount t] -> In t pre.
Proof. apply step_proc_targets. Qed.

Lemma remove_last_incl p t : incl (remove_last p t) t.
Proof.
  induction t as [|x r IH]; cbn [remove_last]; [apply incl_refl|].
  destruct (beq x p && negb (mem_path p r)).
  - now apply incl_tl, incl_refl.
  - intros y [<-|Hy]; [now left|right; now apply IH].
Qed.
Lemma kumount_abs_incl k t k' : kumount_abs k t = Some k' -> incl k' k.
Proof.
  unfold kumount_abs. destruct (_ && _); [|discriminate]. intros E. injection E as <-. apply remove_last_incl.
Qed.

(* the instrumented run.  Per process a ghost: the table as the process last read it (None: it
   has not read it yet) and the mount(2) calls (who, target) made by either process since then.
   Every mount that lands on a mounted mountpoint is recorded with who issued it, the target,
   the table at the time of the call, and the caller's ghost. *)
Record ghost := MkG { g_seen : option ktab; g_since : list (bool * bytes) }.
Record stack_event := MkSE {
  se_first : bool; se_target : bytes; se_table : ktab;
  se_seen : option ktab; se_since : list (bool * bytes) }.

Definition upd_self (who : bool) (k : ktab) (before after_ : proc) (g : ghost) : ghost :=
  match new_calls before after_ with
  | KProbe :: _ => MkG (Some k) []
  | KMount t :: _ => MkG (g_seen g) (g_since g ++ [(who, t)])
  | _ => g
  end.
Definition upd_other (who : bool) (before after_ : proc) (g : ghost) : ghost :=
  match new_calls before after_ with
  | KMount t :: _ => MkG (g_seen g) (g_since g ++ [(who, t)])
  | _ => g
  end.
Definition stack_events (who : bool) (k : ktab) (before after_ : proc) (g : ghost) : list stack_event :=
  match new_calls before after_ with
  | KMount t :: _ => if mem_path t k then [MkSE who t k (g_seen g) (g_since g)] else []
  | _ => []
  end.

Fixpoint ileave_g (fuel : nat) (s : list bool) (k : ktab) (a b : proc) (ga gb : ghost) : list stack_event :=
  match fuel with
  | O => []
  | S fuel' =>
    if finished a && finished b then [] else
    if pick s a b then
      stack_events true k a (np k a) ga ++
      ileave_g fuel' (stl s) (nk k a) (np k a) b (upd_self true k a (np k a) ga) (upd_other true a (np k a) gb)
    else
      stack_events false k b (np k b) gb ++
      ileave_g fuel' (stl s) (nk k b) a (np k b) (upd_other false b (np k b) ga) (upd_self false k b (np k b) gb)
  end.

(* the instrumentation is faithful: the run flags stacking exactly when an event is recorded *)
Lemma stack_events_landed who k p p' g :
  landed_on_mounted k p p' = negb (match stack_events who k p p' g with [] => true | _ => false end).
Proof.
  rewrite landed_new_calls. unfold stack_events. destruct (new_calls p p') as [|[|t|t ok] ?]; try reflexivity.
  now destruct (mem_path t k).
Qed.
Lemma ileave_g_st f : forall s k a b ga gb,
  ir_st (ileave f s k a b) = negb (match ileave_g f s k a b ga gb with [] => true | _ => false end).
Proof.
  induction f as [|f IH]; intros s k a b ga gb; [reflexivity|].
  cbn [ileave ileave_g]. destruct (finished a && finished b); [reflexivity|].
  destruct (pick s a b); cbn [ir_st].
  - rewrite (IH _ _ _ _ (upd_self true k a (np k a) ga) (upd_other true a (np k a) gb)),
            (stack_events_landed true k a (np k a) ga).
    destruct (stack_events true k a (np k a) ga); reflexivity.
  - rewrite (IH _ _ _ _ (upd_other false b (np k b) ga) (upd_self false k b (np k b) gb)),
            (stack_events_landed false k b (np k b) gb).
    destruct (stack_events false k b (np k b) gb); reflexivity.
Qed.

(* the invariant tying a ghost to its process: the table last read is the cache; every
   mountpoint now in the table was in the table last read or has been mounted since *)
Definition ghost_ok (k : ktab) (g : ghost) (p : proc) : Prop :=
  (forall kr, g_seen g = Some kr -> pc_cache p = kr) /\
  (forall kr, g_seen g = Some kr -> forall x, In x k -> In x kr \/ exists w, In (w, x) (g_since g)).

Lemma ghost_ok_self who k p g : ghost_ok k g p ->
  ghost_ok (nk k p) (upd_self who k p (np k p) g) (np k p).
Proof.
  intros [H1 H2]. unfold upd_self, new_calls.
  destruct (step1_kind k p) as [E1 E2 E3|E1 E2 E3|t E1 E2 E3 E4|t ok E1 E2 E3]; rewrite E1;
    rewrite ?skipn_exact, ?skipn_app_exact; split; cbn [g_seen g_since].
  - intros kr E. rewrite E3. now apply H1.
  - intros kr E x Hx. rewrite E2 in Hx. now apply (H2 kr E).
  - intros kr E. injection E as <-. exact E3.
  - intros kr E x Hx. injection E as <-. rewrite E2 in Hx. now left.
  - intros kr E. rewrite E3. now apply H1.
  - intros kr E x Hx. rewrite E2 in Hx. apply in_app_or in Hx as [Hx|[<-|[]]].
    + destruct (H2 kr E x Hx) as [H|[w H]]; [now left|]. right. exists w. apply in_or_app. now left.
    + right. exists who. apply in_or_app. right. now left.
  - intros kr E. rewrite E2. now apply H1.
  - intros kr E x Hx. apply (H2 kr E). destruct ok; [|now rewrite E3 in Hx].
    now apply (kumount_abs_incl _ _ _ E3).
Qed.
Lemma ghost_ok_other who k p g q : ghost_ok k g q ->
  ghost_ok (nk k p) (upd_other who p (np k p) g) q.
Proof.
  intros [H1 H2]. unfold upd_other, new_calls.
  destruct (step1_kind k p) as [E1 E2 E3|E1 E2 E3|t E1 E2 E3 E4|t ok E1 E2 E3]; rewrite E1;
    rewrite ?skipn_exact, ?skipn_app_exact; split; cbn [g_seen g_since]; try exact H1.
  - intros kr E x Hx. rewrite E2 in Hx. now apply (H2 kr E).
  - intros kr E x Hx. rewrite E2 in Hx. now apply (H2 kr E).
  - intros kr E x Hx. rewrite E2 in Hx. apply in_app_or in Hx as [Hx|[<-|[]]].
    + destruct (H2 kr E x Hx) as [H|[w H]]; [now left|]. right. exists w. apply in_or_app. now left.
    + right. exists who. apply in_or_app. right. now left.
  - intros kr E x Hx. apply (H2 kr E). destruct ok; [|now rewrite E3 in Hx].
    now apply (kumount_abs_incl _ _ _ E3).
Qed.

(* a mount that lands on a mounted mountpoint: the mountpoint is in the table now, was not in
   the table the caller last read, and a mount(2) of it has been made since that read *)
Definition stale_event (e : stack_event) : Prop :=
  mem_path (se_target e) (se_table e) = true /\
  forall kr, se_seen e = Some kr ->
    mem_path (se_target e) kr = false /\ exists w, In (w, se_target e) (se_since e).

Lemma stack_events_stale who k p g : ghost_ok k g p ->
  forall e, In e (stack_events who k p (np k p) g) -> stale_event e.
Proof.
  intros [H1 H2] e. unfold stack_events, new_calls.
  destruct (step1_kind k p) as [E1 E2 E3|E1 E2 E3|t E1 E2 E3 E4|t ok E1 E2 E3]; rewrite E1;
    rewrite ?skipn_exact, ?skipn_app_exact; try contradiction.
  destruct (mem_path t k) eqn:M; [|contradiction].
  intros [<-|[]]. split; [exact M|]. cbn [se_target se_seen se_since]. intros kr E.
  rewrite <- (H1 kr E). split; [exact E4|].
  destruct (H2 kr E t) as [H|H]; [now apply mem_path_In| |exact H].
  exfalso. rewrite <- (H1 kr E) in H. apply mem_path_In in H. congruence.
Qed.

Lemma ileave_g_stale f : forall s k a b ga gb, ghost_ok k ga a -> ghost_ok k gb b ->
  forall e, In e (ileave_g f s k a b ga gb) -> stale_event e.
Proof.
  induction f as [|f IH]; intros s k a b ga gb Ha Hb e; [contradiction|].
  cbn [ileave_g]. destruct (finished a && finished b); [contradiction|].
  destruct (pick s a b); intros Hin; apply in_app_or in Hin as [Hin|Hin].
  - exact (stack_events_stale true k a ga Ha e Hin).
  - eapply IH; [| |exact Hin]; [now apply ghost_ok_self|now apply ghost_ok_other].
  - exact (stack_events_stale false k b gb Hb e Hin).
  - eapply IH; [| |exact Hin]; [now apply ghost_ok_other|now apply ghost_ok_self].
Qed.

(* the events of a whole run *)
Definition g0 : ghost := MkG None [].
Definition run_events (s : list bool) (k : ktab) (ca cb : list instr) : list stack_event :=
  ileave_g (rs_fuel k ca cb) s k (start ca) (start cb) g0 g0.

Lemma run_events_stacked s k ca cb :
  tr_stacked (run_trace (run_sched s k ca cb)) = negb (match run_events s k ca cb with [] => true | _ => false end).
Proof. rewrite run_trace_rs. cbn [tr_stacked]. apply ileave_g_st. Qed.

Lemma g0_ok k p : ghost_ok k g0 p.
Proof. split; intros kr E; discriminate. Qed.

Theorem stack_only_if_stale : forall s k ca cb e, In e (run_events s k ca cb) -> stale_event e.
Proof. intros s k ca cb. apply ileave_g_stale; apply g0_ok. Qed.

(* codes without repeated mount targets: the mount made since the read is not the caller's *)
Definition own_ok (who : bool) (g : ghost) (p : proc) : Prop :=
  NoDup (targets (pc_code p)) /\ forall x, In (who, x) (g_since g) -> ~ In x (targets (pc_code p)).

Lemma nodup_app_in {A} (pre l : list A) x : NoDup (pre ++ l) -> In x pre -> ~ In x l.
Proof.
  induction pre as [|y pre IH]; cbn; [contradiction|]. intros ND [->|Hx].
  - inversion ND as [|? ? Hn _]; subst. intros H. apply Hn. apply in_or_app. now right.
  - inversion ND; subst. now apply IH.
Qed.
Lemma nodup_app_r {A} (a b : list A) : NoDup (a ++ b) -> NoDup b.
Proof. induction a as [|x a IH]; cbn; auto. intros H. inversion H; auto. Qed.

Lemma own_ok_self who k p g : own_ok who g p -> own_ok who (upd_self who k p (np k p) g) (np k p).
Proof.
  intros [ND H]. destruct (step1_targets k p) as [pre [HT HM]]. rewrite HT in ND.
  split; [now apply nodup_app_r in ND|].
  assert (HS : forall x, In (who, x) (g_since g) -> ~ In x (targets (pc_code (np k p)))).
  { intros x Hx Hin. apply (H x Hx). rewrite HT. apply in_or_app. now right. }
  unfold upd_self, new_calls.
  destruct (step1_kind k p) as [E1 E2 E3|E1 E2 E3|t E1 E2 E3 E4|t ok E1 E2 E3]; rewrite E1;
    rewrite ?skipn_exact, ?skipn_app_exact; cbn [g_since]; auto.
  intros x Hx. apply in_app_or in Hx as [Hx|[Hx|[]]]; [now apply HS|].
    injection Hx as <-. apply (nodup_app_in _ _ _ ND). now apply HM.
Qed.
Lemma own_ok_other who k p g q : own_ok who g q -> own_ok who (upd_other (negb who) p (np k p) g) q.
Proof.
  intros [ND H]. split; [exact ND|]. unfold upd_other.
  destruct (new_calls p (np k p)) as [|[|t|t ok] ?]; auto. cbn [g_since].
  intros x Hx. apply in_app_or in Hx as [Hx|[Hx|[]]]; [now apply H|].
  injection Hx as Hw _. now destruct who.
Qed.

Lemma stack_events_other who k p g : own_ok who g p ->
  forall e, In e (stack_events who k p (np k p) g) -> ~ In (se_first e, se_target e) (se_since e).
Proof.
  intros [ND H] e. destruct (step1_targets k p) as [pre [HT HM]].
  unfold stack_events, new_calls.
  destruct (step1_kind k p) as [E1 E2 E3|E1 E2 E3|t E1 E2 E3 E4|t ok E1 E2 E3]; rewrite E1;
    rewrite ?skipn_exact, ?skipn_app_exact; try contradiction.
  destruct (mem_path t k); [|contradiction]. intros [<-|[]]. cbn [se_first se_target se_since].
  intros Hin. apply (H t Hin). rewrite HT. apply in_or_app. left. now apply HM.
Qed.

Lemma ileave_g_other f : forall s k a b ga gb, own_ok true ga a -> own_ok false gb b ->
  forall e, In e (ileave_g f s k a b ga gb) -> ~ In (se_first e, se_target e) (se_since e).
Proof.
  induction f as [|f IH]; intros s k a b ga gb Ha Hb e; [contradiction|].
  cbn [ileave_g]. destruct (finished a && finished b); [contradiction|].
  destruct (pick s a b); intros Hin; apply in_app_or in Hin as [Hin|Hin].
  - exact (stack_events_other true k a ga Ha e Hin).
  - eapply IH; [| |exact Hin]; [now apply own_ok_self|]. now apply (own_ok_other false).
  - exact (stack_events_other false k b gb Hb e Hin).
  - eapply IH; [| |exact Hin]; [|now apply own_ok_self]. now apply (own_ok_other true).
Qed.

Theorem stack_only_if_stale_other : forall s k ca cb e,
  NoDup (targets ca) -> NoDup (targets cb) -> In e (run_events s k ca cb) ->
  forall kr, se_seen e = Some kr ->
    mem_path (se_target e) (se_table e) = true /\ mem_path (se_target e) kr = false /\
    In (negb (se_first e), se_target e) (se_since e).
Proof.
  intros s k ca cb e Na Nb Hin kr E.
  destruct (stack_only_if_stale _ _ _ _ _ Hin) as [H1 H2]. destruct (H2 kr E) as [H3 [w H4]].
  assert (H5 : ~ In (se_first e, se_target e) (se_since e)).
  { revert Hin. apply ileave_g_other; split; auto; intros x []. }
  split; [exact H1|]. split; [exact H3|].
  destruct w, (se_first e); cbn [negb]; auto; contradiction.
Qed.

(* a process whose code starts with a probe has read the table before it mounts anything *)
Definition has_read (g : ghost) (p : proc) (c0 : list instr) : Prop :=
  g_seen g = None -> pc_failed p = false /\ pc_code p = IProbe :: c0.

Lemma has_read_self who k p g c0 : has_read g p c0 -> has_read (upd_self who k p (np k p) g) (np k p) c0.
Proof.
  intros H. destruct (g_seen g) as [kr|] eqn:G.
  - intros E. exfalso. unfold upd_self in E. destruct (new_calls p (np k p)) as [|[|?|? ?] ?]; cbn in E; congruence.
  - destruct (H G) as [F C]. unfold has_read, upd_self, new_calls, np, step1, code_fuel.
    destruct p as [code cache failed calls]. cbn [pc_failed pc_code pc_calls pc_cache] in *. subst.
    cbn [step_proc length Nat.add pc_failed pc_code pc_calls pc_cache fst snd].
    rewrite skipn_app_exact. discriminate.
Qed.
Lemma has_read_other who k p g q c0 : has_read g q c0 -> has_read (upd_other who p (np k p) g) q c0.
Proof.
  intros H E. apply H. unfold upd_other in E. now destruct (new_calls p (np k p)) as [|[|?|? ?] ?].
Qed.
Lemma stack_events_has_read who k p g c0 : has_read g p c0 ->
  forall e, In e (stack_events who k p (np k p) g) -> se_seen e <> None.
Proof.
  intros H e. destruct (g_seen g) as [kr|] eqn:G.
  - unfold stack_events. destruct (new_calls p (np k p)) as [|[|t|? ?] ?]; try contradiction.
    destruct (mem_path t k); [|contradiction]. intros [<-|[]]. cbn. congruence.
  - destruct (H G) as [F C]. unfold stack_events, new_calls, np, step1, code_fuel.
    destruct p as [code cache failed calls]. cbn [pc_failed pc_code pc_calls pc_cache] in *. subst.
    cbn [step_proc length Nat.add pc_failed pc_code pc_calls pc_cache fst snd].
    rewrite skipn_app_exact. contradiction.
Qed.
Lemma ileave_g_has_read f ca0 cb0 : forall s k a b ga gb, has_read ga a ca0 -> has_read gb b cb0 ->
  forall e, In e (ileave_g f s k a b ga gb) -> se_seen e <> None.
Proof.
  induction f as [|f IH]; intros s k a b ga gb Ha Hb e; [contradiction|].
  cbn [ileave_g]. destruct (finished a && finished b); [contradiction|].
  destruct (pick s a b); intros Hin; apply in_app_or in Hin as [Hin|Hin].
  - exact (stack_events_has_read true k a ga ca0 Ha e Hin).
  - eapply IH; [| |exact Hin]; [now apply has_read_self|now apply has_read_other].
  - exact (stack_events_has_read false k b gb cb0 Hb e Hin).
  - eapply IH; [| |exact Hin]; [now apply has_read_other|now apply has_read_self].
Qed.

Theorem stack_only_if_stale_read : forall s k ca cb e,
  In e (run_events s k (IProbe :: ca) (IProbe :: cb)) -> exists kr, se_seen e = Some kr.
Proof.
  intros s k ca cb e Hin.
  assert (H3 : se_seen e <> None).
  { revert Hin. apply (ileave_g_has_read _ ca cb); intros _; split; reflexivity. }
  destruct (se_seen e) as [kr|]; [|congruence]. now exists kr.
Qed.

(* ================================================================== Part 3: probe / mount codes *)
Definition mo_instr (i : instr) : bool :=
  match i with IProbe | IMountIf _ _ | IFail => true | _ => false end.
Definition mshape (c : list instr) : bool := forallb mo_instr c.
(* the targets the code gets to: those before the first IFail *)
Fixpoint rtargets (c : list instr) : list bytes :=
  match c with
  | [] => []
  | IFail :: _ => []
  | IMountIf t _ :: r => t :: rtargets r
  | _ :: r => rtargets r
  end.
(* the targets decided on the present cache: those before the next IProbe *)
Fixpoint exposed (c : list instr) : list bytes :=
  match c with IMountIf t _ :: r => t :: exposed r | _ => [] end.
Definition skippable (cache : ktab) (i : instr) : bool :=
  match i with IMountIf t _ => mem_path t cache | _ => false end.
Definition rtp (p : proc) : list bytes := if pc_failed p then [] else rtargets (pc_code p).

Lemma rtargets_skip cache sk rest : forallb (skippable cache) sk = true ->
  rtargets (sk ++ rest) = targets sk ++ rtargets rest.
Proof.
  induction sk as [|i sk IH]; cbn [forallb app]; [reflexivity|].
  intros H. apply andb_true_iff in H as [H1 H2]. destruct i; try discriminate.
  cbn. f_equal. now apply IH.
Qed.
Lemma exposed_skip cache sk rest : forallb (skippable cache) sk = true ->
  exposed (sk ++ rest) = targets sk ++ exposed rest.
Proof.
  induction sk as [|i sk IH]; cbn [forallb app]; [reflexivity|].
  intros H. apply andb_true_iff in H as [H1 H2]. destruct i; try discriminate.
  cbn. f_equal. now apply IH.
Qed.
Lemma skip_in_cache cache sk : forallb (skippable cache) sk = true ->
  forall t, In t (targets sk) -> In t cache.
Proof.
  induction sk as [|i sk IH]; cbn [forallb]; [contradiction|].
  intros H. apply andb_true_iff in H as [H1 H2]. destruct i; try discriminate.
  cbn. intros t [<-|Ht]; [now apply mem_path_In|now apply IH].
Qed.
Lemma mshape_app a b : mshape (a ++ b) = mshape a && mshape b.
Proof. unfold mshape. apply forallb_app. Qed.
Lemma rtargets_incl_targets c : incl (rtargets c) (targets c).
Proof.
  induction c as [|i c IH]; [intros x []|]. destruct i; cbn; try exact IH.
  - intros x [<-|H]; [now left|right; now apply IH].
  - intros x [].
Qed.
Lemma exposed_incl_targets c : incl (exposed c) (targets c).
Proof.
  induction c as [|i c IH]; [intros x []|]. destruct i; cbn; try apply incl_nil_l.
  intros x [<-|H]; [now left|right; now apply IH].
Qed.

(* one step of a process whose code only probes and mounts *)
Inductive mo_step (k : ktab) (p : proc) (k' : ktab) (p' : proc) : Prop :=
| MoIdle sk rest : pc_code p = sk ++ rest -> forallb (skippable (pc_cache p)) sk = true ->
    k' = k -> p' = MkProc rest (pc_cache p) false (pc_calls p) -> mo_step k p k' p'
| MoProbe sk r : pc_code p = sk ++ IProbe :: r -> forallb (skippable (pc_cache p)) sk = true ->
    k' = k -> p' = MkProc r k false (pc_calls p ++ [KProbe]) -> mo_step k p k' p'
| MoMount sk t rp r : pc_code p = sk ++ IMountIf t rp :: r -> forallb (skippable (pc_cache p)) sk = true ->
    mem_path t (pc_cache p) = false ->
    k' = k ++ [t] -> p' = MkProc (if rp then IProbe :: r else r) (pc_cache p) false (pc_calls p ++ [KMount t]) ->
    mo_step k p k' p'
| MoFail sk r : pc_code p = sk ++ IFail :: r -> forallb (skippable (pc_cache p)) sk = true ->
    k' = k -> p' = MkProc [] (pc_cache p) true (pc_calls p) -> mo_step k p k' p'.

Lemma step_proc_mo fuel : forall k p, pc_failed p = false -> mshape (pc_code p) = true ->
  mo_step k p (fst (fst (step_proc fuel k p))) (snd (fst (step_proc fuel k p))).
Proof.
  induction fuel as [|f IH]; intros k p HF HS.
  - destruct p as [code cache failed calls]. cbn in HF. subst failed. cbn [step_proc fst snd].
    now apply (MoIdle _ _ _ _ [] code).
  - destruct p as [code cache failed calls]. cbn [pc_failed pc_code] in HF, HS. subst failed.
    cbn [step_proc pc_failed pc_code pc_cache pc_calls].
    destruct code as [|i r]; [now apply (MoIdle _ _ _ _ [] [])|].
    cbn [mshape forallb] in HS. apply andb_true_iff in HS as [Hi HS].
    destruct i as [|t rp|bld|t|]; try discriminate.
    + now apply (MoProbe _ _ _ _ [] r).
    + destruct (mem_path t cache) eqn:M.
      * specialize (IH k (MkProc r cache false calls) eq_refl HS).
        set (res := step_proc f k (MkProc r cache false calls)) in *. clearbody res.
        cbn [pc_code pc_cache pc_calls] in *.
        destruct IH as [sk rest Hc Hs Hk Hp|sk r' Hc Hs Hk Hp|sk t' rp' r' Hc Hs Hm Hk Hp|sk r' Hc Hs Hk Hp];
          cbn [pc_code pc_cache pc_calls] in *.
        -- apply (MoIdle _ _ _ _ (IMountIf t rp :: sk) rest); cbn [pc_code pc_cache pc_calls forallb skippable app]; auto.
           ++ now rewrite Hc. ++ now rewrite M.
        -- apply (MoProbe _ _ _ _ (IMountIf t rp :: sk) r'); cbn [pc_code pc_cache pc_calls forallb skippable app]; auto.
           ++ now rewrite Hc. ++ now rewrite M.
        -- apply (MoMount _ _ _ _ (IMountIf t rp :: sk) t' rp' r'); cbn [pc_code pc_cache pc_calls forallb skippable app]; auto.
           ++ now rewrite Hc. ++ now rewrite M.
        -- apply (MoFail _ _ _ _ (IMountIf t rp :: sk) r'); cbn [pc_code pc_cache pc_calls forallb skippable app]; auto.
           ++ now rewrite Hc. ++ now rewrite M.
      * now apply (MoMount _ _ _ _ [] t rp r).
    + now apply (MoFail _ _ _ _ [] r).
Qed.

Lemma finished_false p : finished p = false -> pc_failed p = false.
Proof. unfold finished. destruct (pc_failed p); [discriminate|reflexivity]. Qed.
Lemma finished_rtp p : finished p = true -> rtp p = [].
Proof.
  unfold finished, rtp. destruct (pc_failed p); [reflexivity|]. cbn [orb].
  destruct (pc_code p); [reflexivity|discriminate].
Qed.
Lemma unfinished_rtp p : finished p = false -> rtp p = rtargets (pc_code p).
Proof. intros F. unfold rtp. now rewrite (finished_false p F). Qed.

Lemma step1_mo k p : finished p = false -> mshape (pc_code p) = true -> mo_step k p (nk k p) (np k p).
Proof. intros F HS. apply step_proc_mo; [now apply finished_false|exact HS]. Qed.

(* consequences for one step *)
Lemma mo_step_shape k p k' p' : mshape (pc_code p) = true -> mo_step k p k' p' -> mshape (pc_code p') = true.
Proof.
  intros HS [sk rest Hc Hs Hk Hp|sk r Hc Hs Hk Hp|sk t rp r Hc Hs Hm Hk Hp|sk r Hc Hs Hk Hp];
    subst p'; cbn [pc_code]; rewrite Hc, mshape_app in HS; apply andb_true_iff in HS as [_ HS]; auto.
  destruct rp; cbn in *; auto.
Qed.
Lemma mo_step_grow k p k' p' : mo_step k p k' p' -> incl k k'.
Proof.
  intros [sk rest Hc Hs Hk Hp|sk r Hc Hs Hk Hp|sk t rp r Hc Hs Hm Hk Hp|sk r Hc Hs Hk Hp]; subst k';
    try apply incl_refl. now apply incl_appl, incl_refl.
Qed.
Lemma mo_step_added k p k' p' : mo_step k p k' p' ->
  forall x, In x k' -> In x k \/ In x (rtargets (pc_code p)).
Proof.
  intros [sk rest Hc Hs Hk Hp|sk r Hc Hs Hk Hp|sk t rp r Hc Hs Hm Hk Hp|sk r Hc Hs Hk Hp] x Hx; subst k'; auto.
  apply in_app_or in Hx as [Hx|[<-|[]]]; [now left|right].
  rewrite Hc, (rtargets_skip _ _ _ Hs). apply in_or_app. right. now left.
Qed.
Lemma mo_step_rtp k p k' p' : mo_step k p k' p' -> incl (rtp p') (rtargets (pc_code p)).
Proof.
  intros [sk rest Hc Hs Hk Hp|sk r Hc Hs Hk Hp|sk t rp r Hc Hs Hm Hk Hp|sk r Hc Hs Hk Hp]; subst p';
    unfold rtp; cbn [pc_failed pc_code]; rewrite Hc, (rtargets_skip _ _ _ Hs); try (intros x []).
  - now apply incl_appr, incl_refl.
  - apply incl_appr. cbn [rtargets]. apply incl_refl.
  - apply incl_appr. cbn [rtargets]. destruct rp; cbn [rtargets]; now apply incl_tl, incl_refl.
Qed.
Lemma mo_step_cache k p k' p' : incl (pc_cache p) k -> mo_step k p k' p' -> incl (pc_cache p') k'.
Proof.
  intros HI [sk rest Hc Hs Hk Hp|sk r Hc Hs Hk Hp|sk t rp r Hc Hs Hm Hk Hp|sk r Hc Hs Hk Hp];
    subst p' k'; cbn [pc_cache]; auto using incl_refl. now apply incl_appl.
Qed.
Lemma mo_step_reached k p k' p' : incl (pc_cache p) k -> mo_step k p k' p' ->
  forall t, In t (rtargets (pc_code p)) -> In t k' \/ In t (rtp p').
Proof.
  intros HI [sk rest Hc Hs Hk Hp|sk r Hc Hs Hk Hp|sk t rp r Hc Hs Hm Hk Hp|sk r Hc Hs Hk Hp] x;
    subst p' k'; unfold rtp; cbn [pc_failed pc_code]; rewrite Hc, (rtargets_skip _ _ _ Hs);
    intros Hx; apply in_app_or in Hx as [Hx|Hx];
    try (left; try apply in_or_app; try left; apply HI; eapply skip_in_cache; eassumption).
  - now right.
  - now right.
  - cbn [rtargets] in Hx. destruct Hx as [<-|Hx].
    + left. apply in_or_app. right. now left.
    + right. destruct rp; exact Hx.
  - cbn [rtargets] in Hx. contradiction.
Qed.

Lemma nodup_snoc (l : list bytes) x : NoDup l -> ~ In x l -> NoDup (l ++ [x]).
Proof.
  induction 1 as [|y l Hy ND IH]; cbn; intros Hx; [repeat constructor; auto|].
  constructor.
  - intros H. apply in_app_or in H as [H|[<-|[]]]; [contradiction|]. apply Hx. now left.
  - apply IH. intros H. apply Hx. now right.
Qed.

Lemma mo_step_landed k p k' p' : mo_step k p k' p' ->
  landed_on_mounted k p p' = false -> NoDup k -> NoDup k'.
Proof.
  intros [sk rest Hc Hs Hk Hp|sk r Hc Hs Hk Hp|sk t rp r Hc Hs Hm Hk Hp|sk r Hc Hs Hk Hp] HL ND; subst k'; auto.
  subst p'. unfold landed_on_mounted in HL. cbn [pc_calls] in HL. rewrite skipn_app_exact in HL.
  apply nodup_snoc; [exact ND|]. now apply mem_path_false.
Qed.

(* the invariant of a process running alone *)
Definition solo_inv (k : ktab) (p : proc) : Prop :=
  NoDup k /\ NoDup (targets (pc_code p)) /\
  forall t, In t (exposed (pc_code p)) -> In t k -> In t (pc_cache p).

Lemma mo_step_solo k p k' p' : mo_step k p k' p' -> solo_inv k p ->
  solo_inv k' p' /\ landed_on_mounted k p p' = false.
Proof.
  intros [sk rest Hc Hs Hk Hp|sk r Hc Hs Hk Hp|sk t rp r Hc Hs Hm Hk Hp|sk r Hc Hs Hk Hp] (ND & NT & HE);
    subst k' p'; rewrite Hc in NT, HE; rewrite targets_app in NT; rewrite (exposed_skip _ _ _ Hs) in HE;
    unfold solo_inv, landed_on_mounted; cbn [pc_code pc_cache pc_calls];
    rewrite ?skipn_app_exact, ?skipn_exact.
  - split; [|reflexivity]. split; [exact ND|]. split; [now apply nodup_app_r in NT|].
    intros t Ht. apply HE. apply in_or_app. now right.
  - split; [|reflexivity]. split; [exact ND|]. split; [now apply nodup_app_r in NT|].
    cbn. auto.
  - apply nodup_app_r in NT. cbn in NT. inversion NT as [|? ? Hnt NT']; subst.
    assert (Hk : ~ In t k).
    { intros Hk. apply mem_path_false in Hm. apply Hm. apply HE; [|exact Hk].
      apply in_or_app. right. now left. }
    split; [|now apply mem_path_false].
    split; [now apply nodup_snoc|]. split; [now destruct rp|].
    destruct rp; [intros ? []|]. intros t' Ht' Hin.
    apply in_app_or in Hin as [Hin|[<-|[]]].
    + apply HE; [|exact Hin]. apply in_or_app. right. now right.
    + exfalso. apply Hnt. now apply exposed_incl_targets.
  - split; [|reflexivity]. split; [exact ND|]. split; [constructor|]. intros t [].
Qed.

(* ------------------------------------------------------------------ whole runs *)
Definition mo_inv (k : ktab) (p : proc) : Prop := mshape (pc_code p) = true /\ incl (pc_cache p) k.

Lemma mo_inv_step k p : finished p = false -> mo_inv k p -> mo_inv (nk k p) (np k p).
Proof.
  intros F [HS HI]. pose proof (step1_mo k p F HS) as H. split.
  - eapply mo_step_shape; eauto.
  - eapply mo_step_cache; eauto.
Qed.
Lemma mo_inv_other k p q : finished p = false -> mo_inv k p -> mo_inv k q -> mo_inv (nk k p) q.
Proof.
  intros F [HS HI] [HS' HI']. pose proof (step1_mo k p F HS) as H. split; [exact HS'|].
  eapply incl_tran; [exact HI'|]. eapply mo_step_grow; eauto.
Qed.

Lemma ileave_grow f : forall s k a b, mo_inv k a -> mo_inv k b -> incl k (ir_k (ileave f s k a b)).
Proof.
  induction f as [|f IH]; intros s k a b Ha Hb; [apply incl_refl|].
  cbn [ileave]. destruct (finished a && finished b) eqn:F; [apply incl_refl|].
  destruct (pick s a b) eqn:P; cbn [ir_k].
  - pose proof (pick_true _ _ _ F P) as Fa.
    eapply incl_tran; [|apply IH; [now apply mo_inv_step|now apply mo_inv_other]].
    eapply mo_step_grow. apply step1_mo; [exact Fa|apply Ha].
  - pose proof (pick_false _ _ _ F P) as Fb.
    eapply incl_tran; [|apply IH; [now apply mo_inv_other|now apply mo_inv_step]].
    eapply mo_step_grow. apply step1_mo; [exact Fb|apply Hb].
Qed.

Lemma ileave_added f : forall s k a b, mo_inv k a -> mo_inv k b ->
  forall x, In x (ir_k (ileave f s k a b)) -> In x k \/ In x (rtp a) \/ In x (rtp b).
Proof.
  induction f as [|f IH]; intros s k a b Ha Hb x; [now left|].
  cbn [ileave]. destruct (finished a && finished b) eqn:F; [now left|].
  destruct (pick s a b) eqn:P; cbn [ir_k]; intros Hx.
  - pose proof (pick_true _ _ _ F P) as Fa. pose proof (step1_mo k a Fa (proj1 Ha)) as HM.
    apply IH in Hx; [|now apply mo_inv_step|now apply mo_inv_other].
    rewrite (unfinished_rtp a Fa). destruct Hx as [Hx|[Hx|Hx]]; auto.
    + apply (mo_step_added _ _ _ _ HM) in Hx as [Hx|Hx]; auto.
    + right. left. eapply mo_step_rtp; eauto.
  - pose proof (pick_false _ _ _ F P) as Fb. pose proof (step1_mo k b Fb (proj1 Hb)) as HM.
    apply IH in Hx; [|now apply mo_inv_other|now apply mo_inv_step].
    rewrite (unfinished_rtp b Fb). destruct Hx as [Hx|[Hx|Hx]]; auto.
    + apply (mo_step_added _ _ _ _ HM) in Hx as [Hx|Hx]; auto.
    + right. right. eapply mo_step_rtp; eauto.
Qed.

Lemma ileave_reached f : forall s k a b, mo_inv k a -> mo_inv k b -> cost2 k a b <= f ->
  forall t, In t (rtp a) \/ In t (rtp b) -> In t (ir_k (ileave f s k a b)).
Proof.
  induction f as [|f IH]; intros s k a b Ha Hb HC t Ht.
  - exfalso. destruct (finished a && finished b) eqn:F.
    + apply andb_true_iff in F as [Fa Fb]. rewrite (finished_rtp a Fa), (finished_rtp b Fb) in Ht. tauto.
    + destruct (cost2_zero_finished _ _ _ _ HC F) as [m E]. discriminate.
  - cbn [ileave]. destruct (finished a && finished b) eqn:F.
    + exfalso. apply andb_true_iff in F as [Fa Fb]. rewrite (finished_rtp a Fa), (finished_rtp b Fb) in Ht. tauto.
    + destruct (pick s a b) eqn:P; cbn [ir_k].
      * pose proof (pick_true _ _ _ F P) as Fa. pose proof (step1_mo k a Fa (proj1 Ha)) as HM.
        pose proof (step1_cost k a Fa) as H1.
        assert (HC' : cost2 (nk k a) (np k a) b <= f) by (unfold cost2 in *; lia).
        pose proof (mo_inv_step k a Fa Ha) as Ha'. pose proof (mo_inv_other k a b Fa Ha Hb) as Hb'.
        rewrite (unfinished_rtp a Fa) in Ht. destruct Ht as [Ht|Ht].
        -- apply (mo_step_reached _ _ _ _ (proj2 Ha) HM) in Ht as [Ht|Ht].
           ++ now apply (ileave_grow f _ _ _ _ Ha' Hb').
           ++ apply IH; auto.
        -- apply IH; auto.
      * pose proof (pick_false _ _ _ F P) as Fb. pose proof (step1_mo k b Fb (proj1 Hb)) as HM.
        pose proof (step1_cost k b Fb) as H1.
        assert (HC' : cost2 (nk k b) a (np k b) <= f) by (unfold cost2 in *; lia).
        pose proof (mo_inv_step k b Fb Hb) as Hb'. pose proof (mo_inv_other k b a Fb Hb Ha) as Ha'.
        rewrite (unfinished_rtp b Fb) in Ht. destruct Ht as [Ht|Ht].
        -- apply IH; auto.
        -- apply (mo_step_reached _ _ _ _ (proj2 Hb) HM) in Ht as [Ht|Ht].
           ++ now apply (ileave_grow f _ _ _ _ Ha' Hb').
           ++ apply IH; auto.
Qed.

Lemma ileave_nodup f : forall s k a b, mo_inv k a -> mo_inv k b ->
  ir_st (ileave f s k a b) = false -> NoDup k -> NoDup (ir_k (ileave f s k a b)).
Proof.
  induction f as [|f IH]; intros s k a b Ha Hb HS ND; [exact ND|].
  cbn [ileave] in *. destruct (finished a && finished b) eqn:F; [exact ND|].
  destruct (pick s a b) eqn:P; cbn [ir_k ir_st] in *; apply orb_false_iff in HS as [HL HS].
  - pose proof (pick_true _ _ _ F P) as Fa. pose proof (step1_mo k a Fa (proj1 Ha)) as HM.
    apply IH; [now apply mo_inv_step|now apply mo_inv_other|exact HS|].
    eapply mo_step_landed; eauto.
  - pose proof (pick_false _ _ _ F P) as Fb. pose proof (step1_mo k b Fb (proj1 Hb)) as HM.
    apply IH; [now apply mo_inv_other|now apply mo_inv_step|exact HS|].
    eapply mo_step_landed; eauto.
Qed.

(* a process alone never stacks *)
Lemma ileave_alone_nostack f : forall s k a b, finished b = true -> mshape (pc_code a) = true ->
  solo_inv k a -> ir_st (ileave f s k a b) = false.
Proof.
  induction f as [|f IH]; intros s k a b Fb HS HI; [reflexivity|].
  cbn [ileave]. rewrite Fb, andb_true_r. destruct (finished a) eqn:Fa; [reflexivity|].
  rewrite (pick_b_finished s a b Fa Fb). cbn [ir_st].
  pose proof (step1_mo k a Fa HS) as HM.
  destruct (mo_step_solo _ _ _ _ HM HI) as [HI' HL]. rewrite HL. cbn [orb].
  apply IH; auto. eapply mo_step_shape; eauto.
Qed.

(* ------------------------------------------------------------------ sorting *)
Definition leb_rel (a b : bytes) : Prop := ltb b a = false.

Lemma sorted_nodup_ext (l1 : list bytes) : forall l2,
  StronglySorted leb_rel l1 -> StronglySorted leb_rel l2 -> NoDup l1 -> NoDup l2 ->
  (forall x, In x l1 <-> In x l2) -> l1 = l2.
Proof.
  induction l1 as [|x l1 IH]; intros [|y l2] S1 S2 N1 N2 HE.
  - reflexivity.
  - exfalso. apply (proj2 (HE y)). now left.
  - exfalso. apply (proj1 (HE x)). now left.
  - inversion S1 as [|? ? S1' F1]; subst. inversion S2 as [|? ? S2' F2]; subst.
    inversion N1 as [|? ? Nx N1']; subst. inversion N2 as [|? ? Ny N2']; subst.
    rewrite Forall_forall in F1, F2.
    assert (E : x = y).
    { destruct (proj1 (HE x) (or_introl eq_refl)) as [E|Hx]; [now symmetry|].
      destruct (proj2 (HE y) (or_introl eq_refl)) as [E|Hy]; [exact E|].
      apply ltb_total; [exact (F2 x Hx)|exact (F1 y Hy)]. }
    subst y. f_equal. apply IH; auto.
    intros z. split; intros Hz.
    + destruct (proj1 (HE z) (or_intror Hz)) as [E|H]; [subst z; contradiction|exact H].
    + destruct (proj2 (HE z) (or_intror Hz)) as [E|H]; [subst z; contradiction|exact H].
Qed.

Lemma sort_ext l1 l2 : NoDup l1 -> NoDup l2 -> (forall x, In x l1 <-> In x l2) -> Lex.sort l1 = Lex.sort l2.
Proof.
  intros N1 N2 HE. apply sorted_nodup_ext; try apply sort_sorted; try now apply sort_nodup.
  intros x. rewrite !sort_in. apply HE.
Qed.
Lemma ktab_eq_ext l1 l2 : NoDup l1 -> NoDup l2 -> (forall x, In x l1 <-> In x l2) -> ktab_eq l1 l2 = true.
Proof. intros N1 N2 HE. unfold ktab_eq, canon. rewrite (sort_ext l1 l2); auto. apply list_beq_refl_b. Qed.

(* ------------------------------------------------------------------ (d) *)
Lemma start_mo_inv k c : mshape c = true -> mo_inv k (start c).
Proof. intros H. split; [exact H|]. intros x []. Qed.
Lemma rtp_start c : rtp (start c) = rtargets c.
Proof. reflexivity. Qed.

Lemma rs_elements s k ca cb : mshape ca = true -> mshape cb = true ->
  forall x, In x (ir_k (rs s k ca cb)) <-> In x k \/ In x (rtargets ca) \/ In x (rtargets cb).
Proof.
  intros Ha Hb x. unfold rs. split.
  - intros H. apply ileave_added in H; auto using start_mo_inv.
  - intros [H|H].
    + revert H. apply ileave_grow; auto using start_mo_inv.
    + apply ileave_reached; auto using start_mo_inv, rs_fuel_enough.
Qed.
Lemma rs_nodup s k ca cb : mshape ca = true -> mshape cb = true -> NoDup k ->
  ir_st (rs s k ca cb) = false -> NoDup (ir_k (rs s k ca cb)).
Proof. intros Ha Hb ND HS. unfold rs in *. apply ileave_nodup; auto using start_mo_inv. Qed.

Lemma rs_alone_nostack k c : mshape c = true -> exposed c = [] -> NoDup k -> NoDup (targets c) ->
  ir_st (rs [] k c []) = false.
Proof.
  intros HS HE ND NT. unfold rs. apply ileave_alone_nostack; auto.
  split; [exact ND|]. split; [exact NT|]. cbn [start pc_code]. rewrite HE. intros t [].
Qed.

Lemma serial_ab_mo k ca cb : mshape ca = true -> mshape cb = true ->
  exposed ca = [] -> exposed cb = [] -> NoDup k -> NoDup (targets ca) -> NoDup (targets cb) ->
  NoDup (serial_ab k ca cb) /\
  forall x, In x (serial_ab k ca cb) <-> In x k \/ In x (rtargets ca) \/ In x (rtargets cb).
Proof.
  intros Ha Hb Ea Eb ND Na Nb. rewrite serial_ab_rs.
  assert (Hn : mshape [] = true) by reflexivity.
  pose proof (rs_alone_nostack k ca Ha Ea ND Na) as S1.
  pose proof (rs_nodup [] k ca [] Ha Hn ND S1) as N1.
  pose proof (rs_alone_nostack _ cb Hb Eb N1 Nb) as S2.
  split; [now apply rs_nodup|].
  intros x. rewrite (rs_elements [] _ cb [] Hb Hn), (rs_elements [] k ca [] Ha Hn). cbn [rtargets In]. tauto.
Qed.

Theorem mount_mount_no_stack_serial_gen : forall s k ca cb,
  mshape ca = true -> mshape cb = true -> exposed ca = [] -> exposed cb = [] ->
  NoDup k -> NoDup (targets ca) -> NoDup (targets cb) ->
  tr_stacked (run_trace (run_sched s k ca cb)) = false ->
  ktab_eq (run_final (run_sched s k ca cb)) (serial_ab k ca cb) = true /\
  ktab_eq (run_final (run_sched s k ca cb)) (serial_ab k cb ca) = true.
Proof.
  intros s k ca cb Ha Hb Ea Eb ND Na Nb. rewrite run_final_rs, run_trace_rs. cbn [tr_stacked]. intros HS.
  pose proof (rs_nodup s k ca cb Ha Hb ND HS) as NF.
  destruct (serial_ab_mo k ca cb Ha Hb Ea Eb ND Na Nb) as [N1 E1].
  destruct (serial_ab_mo k cb ca Hb Ha Eb Ea ND Nb Na) as [N2 E2].
  split; apply ktab_eq_ext; auto; intros x; rewrite (rs_elements s k ca cb Ha Hb), ?E1, ?E2; tauto.
Qed.

(* the form asked for: codes of IProbe / IMountIf only, both starting with IProbe *)
Definition pm_instr (i : instr) : bool := match i with IProbe | IMountIf _ _ => true | _ => false end.
Definition pm_code (c : list instr) : bool := forallb pm_instr c.
Lemma pm_code_mshape c : pm_code c = true -> mshape c = true.
Proof.
  unfold pm_code, mshape. rewrite !forallb_forall. intros H i Hi. specialize (H i Hi). now destruct i.
Qed.

Theorem mount_mount_no_stack_serial : forall s k ca cb,
  pm_code (IProbe :: ca) = true -> pm_code (IProbe :: cb) = true ->
  NoDup k -> NoDup (targets (IProbe :: ca)) -> NoDup (targets (IProbe :: cb)) ->
  tr_stacked (run_trace (run_sched s k (IProbe :: ca) (IProbe :: cb))) = false ->
  ktab_eq (run_final (run_sched s k (IProbe :: ca) (IProbe :: cb))) (serial_ab k (IProbe :: ca) (IProbe :: cb)) = true /\
  ktab_eq (run_final (run_sched s k (IProbe :: ca) (IProbe :: cb))) (serial_ab k (IProbe :: cb) (IProbe :: ca)) = true.
Proof.
  intros s k ca cb Ha Hb. apply mount_mount_no_stack_serial_gen; auto using pm_code_mshape.
Qed.

(* [run_sched] runs both processes to completion *)
Theorem run_completes : forall s k ca cb,
  finished (snd (fst (fst (run_sched s k ca cb)))) && finished (snd (fst (run_sched s k ca cb))) = true.
Proof. intros s k ca cb. rewrite run_sched_rs. cbn [fst snd]. apply rs_finished. Qed.
