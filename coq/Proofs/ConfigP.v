(* Lemmas about Model/Config.v: termination of the CONFIGFILE loop, first-value-wins merging,
   patchPaths (what it changes and what comes out), precedence of -basepath and LAYERROOT. *)
From LC Require Import Lib.Bytes Lib.Fields Lib.PathM Gen.Consts Model.Config Proofs.PathP.
Close Scope string_scope.
Open Scope list_scope.

(* ------------------------------------------------------------------ small things *)
Lemma existsb_beq_In x l : existsb (beq x) l = true <-> In x l.
Proof.
  rewrite existsb_exists. split.
  - intros (y & Hy & E). apply beq_true in E. now subst.
  - intros H. exists x. split; [exact H|apply beq_refl].
Qed.
Lemma existsb_beq_notIn x l : existsb (beq x) l = false <-> ~ In x l.
Proof.
  split.
  - intros H Hin. apply existsb_beq_In in Hin. congruence.
  - intros H. destruct (existsb (beq x) l) eqn:E; auto. apply existsb_beq_In in E. contradiction.
Qed.
Lemma isempty_true b : isempty b = true <-> b = [].
Proof. destruct b; cbn; split; congruence. Qed.
Lemma isempty_false b : isempty b = false <-> b <> [].
Proof. destruct b; cbn; split; congruence. Qed.

(* ------------------------------------------------------------------ file system *)
Lemma fs_get_In fs p n : fs_get fs p = Some n -> In (p, n) fs.
Proof.
  induction fs as [|[q m] fs IH]; cbn; [discriminate|].
  destruct (beq p q) eqn:E.
  - apply beq_true in E. subst. intros H. injection H as ->. now left.
  - intros H. right. now apply IH.
Qed.
Lemma walk_get fs cs : forall rcur id n, walk fs rcur cs = Some (id, n) -> fs_get fs id = Some n.
Proof.
  induction cs as [|c r IH]; intros rcur id n; cbn [walk].
  - destruct (fs_get fs (path_of rcur)) eqn:E; [|discriminate]. intros H. injection H as <- <-. exact E.
  - destruct (is_dir (fs_get fs (path_of rcur))); [|discriminate].
    destruct (beq c [] || beq c dot); [apply IH|]. destruct (beq c dotdot); apply IH.
Qed.
Lemma resolve_get fs cwd p id n : resolve fs cwd p = Some (id, n) -> fs_get fs id = Some n.
Proof. unfold resolve. destruct p; [discriminate|]. destruct (is_rooted _); apply walk_get. Qed.

(* ------------------------------------------------------------------ merge: the first value wins *)
Lemma merge_keeps t s k : t k <> [] -> merge t s k = t k.
Proof. intros H. unfold merge. apply isempty_false in H. now rewrite H. Qed.
Lemma merge_fills t s k : t k = [] -> merge t s k = s k.
Proof. intros H. unfold merge. now rewrite H. Qed.

Lemma chain_keeps tbl e k : forall fuel visS s m m',
  chain tbl e fuel visS s m = CDone m' -> m k <> [] -> m' k = m k.
Proof.
  induction fuel as [|f IH]; intros visS s m m'; cbn [chain].
  - destruct (isempty s); [|discriminate]. intros H _. now injection H as <-.
  - destruct (isempty s); [intros H _; now injection H as <-|].
    destruct (existsb (beq s) visS); [discriminate|].
    destruct (read_config tbl (files e) (cwd e) s) as [fm|x]; [|discriminate].
    intros H Hk. rewrite (IH _ _ _ _ H); [now apply merge_keeps|]. now rewrite merge_keeps.
Qed.

(* ------------------------------------------------------------------ only keys of the table are ever set *)
Lemma key_lookup_in tbl u id : key_lookup tbl u = Some id -> exists e, In e tbl /\ e_key e = id.
Proof.
  unfold key_lookup. destruct (find _ tbl) as [e|] eqn:E; [|discriminate]. intros H. injection H as <-.
  apply find_some in E as [Hin _]. now exists e.
Qed.
Lemma parse_line_set tbl raw k v : parse_line tbl raw = LSet k v -> (exists e, In e tbl /\ e_key e = k) /\ v <> [].
Proof.
  unfold parse_line. destruct (isempty (utrim raw) || is_comment (utrim raw)); [discriminate|].
  destruct (split2 (nb 61) (utrim raw)) as [kk ov].
  destruct (key_lookup tbl (upper_key (utrim kk))) as [id|] eqn:E; [|discriminate].
  destruct (isempty _) eqn:Ev; [discriminate|]. intros H. injection H as <- <-.
  split; [eapply key_lookup_in; eassumption|now apply isempty_false].
Qed.
Lemma sset_other' m k v k' : k' <> k -> sset m k v k' = m k'.
Proof. intros H. unfold sset. apply N.eqb_neq in H. now rewrite H. Qed.
Lemma parse_lines_frame tbl k : (forall e, In e tbl -> e_key e <> k) ->
  forall ls m m', parse_lines tbl ls m = Some m' -> m' k = m k.
Proof.
  intros Hk. induction ls as [|l r IH]; intros m m'; cbn [parse_lines].
  - intros H. now injection H as <-.
  - destruct (parse_line tbl l) as [|k0 v|] eqn:E; [apply IH| |discriminate].
    intros H. rewrite (IH _ _ H). apply sset_other'. intros <-.
    apply parse_line_set in E as [(e & Hin & He) _]. now apply (Hk e).
Qed.
Lemma parse_file_frame tbl k c fm : (forall e, In e tbl -> e_key e <> k) -> parse_file tbl c = Some fm -> fm k = [].
Proof. intros Hk H. unfold parse_file in H. now rewrite (parse_lines_frame tbl k Hk _ _ _ H). Qed.
Lemma read_config_frame tbl fs cwd s fm k : (forall e, In e tbl -> e_key e <> k) ->
  read_config tbl fs cwd s = RMap fm -> fm k = [].
Proof.
  intros Hk. unfold read_config. destruct (resolve fs cwd s) as [[id [c|]]|]; try discriminate.
  destruct (parse_file tbl c) as [m|] eqn:E; [|discriminate]. intros H. injection H as <-.
  eapply parse_file_frame; eassumption.
Qed.
Lemma chain_frame tbl e k : (forall en, In en tbl -> e_key en <> k) -> forall fuel visS s m m',
  chain tbl e fuel visS s m = CDone m' -> m' k = m k.
Proof.
  intros Hk. induction fuel as [|f IH]; intros visS s m m'; cbn [chain].
  - destruct (isempty s); [|discriminate]. intros H. now injection H as <-.
  - destruct (isempty s); [intros H; now injection H as <-|].
    destruct (existsb (beq s) visS); [discriminate|].
    destruct (read_config tbl (files e) (cwd e) s) as [fm|x] eqn:Er; [|discriminate].
    intros H. rewrite (IH _ _ _ _ H). unfold merge.
    rewrite (read_config_frame _ _ _ _ _ k Hk Er). now destruct (isempty (m k)) eqn:E; [apply isempty_true in E|].
Qed.
Lemma table_no_key0 : forall en, In en CF_settingSetup -> e_key en <> 0%N.
Proof.
  intros en Hin. unfold CF_settingSetup in Hin. cbn in Hin.
  repeat (destruct Hin as [<-|Hin]; [cbn; discriminate|]). destruct Hin.
Qed.

(* ------------------------------------------------------------------ the loop terminates *)
Definition next_vals (tbl : list cf_entry) (fs : fsmap) : list bytes :=
  flat_map (fun pn => match snd pn with
                      | NFile c => match parse_file tbl c with Some fm => [fm CF_cfKey_configfile] | None => [] end
                      | NDir => []
                      end) fs.
Lemma next_vals_length tbl fs : (length (next_vals tbl fs) <= length fs)%nat.
Proof.
  induction fs as [|[p n] fs IH]; [cbn; lia|]. unfold next_vals in *. cbn [flat_map snd]. rewrite app_length.
  destruct n as [c|]; [destruct (parse_file tbl c)|]; cbn [length]; lia.
Qed.
Lemma next_in_vals tbl fs p c fm : In (p, NFile c) fs -> parse_file tbl c = Some fm ->
  In (fm CF_cfKey_configfile) (next_vals tbl fs).
Proof.
  intros Hin Hp. unfold next_vals. apply in_flat_map. exists (p, NFile c). split; [exact Hin|].
  cbn. rewrite Hp. now left.
Qed.
Lemma read_config_map tbl fs cwd s fm : read_config tbl fs cwd s = RMap fm ->
  exists id c, resolve fs cwd s = Some (id, NFile c) /\ parse_file tbl c = Some fm.
Proof.
  unfold read_config. destruct (resolve fs cwd s) as [[id [c|]]|]; try discriminate.
  destruct (parse_file tbl c) as [m|] eqn:E; [|discriminate]. intros H. injection H as ->. now exists id, c.
Qed.

Lemma chain_terminates tbl e start : forall fuel visS s m,
  NoDup visS -> incl (s :: visS) (start :: next_vals tbl (files e)) ->
  (fuel + length visS >= 2 + length (files e))%nat ->
  chain tbl e fuel visS s m <> CDiverge.
Proof.
  induction fuel as [|f IH]; intros visS s m Hnd Hincl Hfuel; cbn [chain].
  - destruct (isempty s); [discriminate|]. exfalso.
    assert (H1 : incl visS (start :: next_vals tbl (files e))) by (intros x Hx; apply Hincl; now right).
    pose proof (NoDup_incl_length Hnd H1) as H2. cbn [length] in H2.
    pose proof (next_vals_length tbl (files e)). cbn in Hfuel. lia.
  - destruct (isempty s); [discriminate|].
    destruct (existsb (beq s) visS) eqn:Ev; [discriminate|].
    destruct (read_config tbl (files e) (cwd e) s) as [fm|x] eqn:Er; [|discriminate].
    apply existsb_beq_notIn in Ev.
    apply IH.
    + now constructor.
    + intros x [<-|Hx]; [|now apply Hincl].
      right. apply read_config_map in Er as (id & c & Hres & Hp).
      apply resolve_get, fs_get_In in Hres. eapply next_in_vals; eassumption.
    + cbn [length]. lia.
Qed.

Theorem load_terminates e : load e <> OTimeout.
Proof.
  unfold load, load_with.
  destruct (chain _ e (load_fuel e) [] (start_file e) _) eqn:E.
  - destruct (patch_paths _ _); discriminate.
  - discriminate.
  - exfalso. revert E. apply (chain_terminates _ e (start_file e)).
    + constructor.
    + intros x [<-|[]]. now left.
    + unfold load_fuel. cbn. lia.
Qed.
Theorem load_no_panic e : load e <> OPanic.
Proof.
  unfold load, load_with. destruct (chain _ e _ _ _ _); [destruct (patch_paths _ _)| |]; discriminate.
Qed.

Theorem load_total e : load e <> OTimeout /\ load e <> OPanic.
Proof. split; [apply load_terminates|apply load_no_panic]. Qed.

(* ------------------------------------------------------------------ patchPaths *)
Lemma sset_same m k v : sset m k v k = v.
Proof. unfold sset. now rewrite N.eqb_refl. Qed.
Lemma sset_other m k v k' : k' <> k -> sset m k v k' = m k'.
Proof. intros H. unfold sset. apply N.eqb_neq in H. now rewrite H. Qed.

Definition is_path_entry (e : cf_entry) : bool := (e_type e =? CF_ss_dir)%N || (e_type e =? CF_ss_file)%N.

Lemma pathjoin_rooted relTo v : relTo <> [] -> is_abs relTo = true ->
  is_clean_abs (pathjoin [relTo; v]) = true.
Proof.
  intros Hne Habs. unfold pathjoin. cbn [filter].
  apply isempty_false in Hne. assert (E : beq relTo [] = false) by (destruct relTo; [discriminate|reflexivity]).
  rewrite E. cbn [negb]. destruct (negb (beq v [])).
  - apply clean_abs_of_rooted. cbn [pjoin join]. destruct relTo; [discriminate|exact Habs].
  - apply clean_abs_of_rooted. exact Habs.
Qed.

(* one entry: nothing changes, or the entry's key gets a clean absolute path *)
Lemma patch_entry_cases m e m' : patch_entry m e = Some m' ->
  (m' = m /\ (is_path_entry e = false \/ m (e_key e) = []))
  \/ (exists x, m' = sset m (e_key e) x /\ is_clean_abs x = true /\ is_path_entry e = true /\ m (e_key e) <> []).
Proof.
  unfold patch_entry, is_path_entry.
  destruct ((e_type e =? CF_ss_dir)%N) eqn:E1; destruct ((e_type e =? CF_ss_file)%N) eqn:E2; cbn [negb andb orb];
  try (destruct (isempty (m (e_key e))) eqn:E3;
       [intros H; injection H as <-; left; split; [reflexivity|right; now apply isempty_true]|]);
  try (intros H; injection H as <-; left; split; [reflexivity|now left]).
  all: apply isempty_false in E3.
  all: destruct (is_abs (clean (m (e_key e)))) eqn:E4;
    [intros H; injection H as <-; right; eexists; split; [reflexivity|]; split; [now apply clean_abs_of_clean|auto]|].
  all: destruct (isempty (m (e_rel e)) || negb (is_abs (m (e_rel e)))) eqn:E5; [discriminate|].
  all: apply orb_false_iff in E5 as [E5 E6]; apply isempty_false in E5; apply negb_false_iff in E6.
  all: intros H; injection H as <-; right; eexists; split; [reflexivity|]; split; [now apply pathjoin_rooted|auto].
Qed.

Lemma patch_paths_cons e r m :
  patch_paths (e :: r) m = match patch_entry m e with Some m' => patch_paths r m' | None => None end.
Proof. reflexivity. Qed.
Lemma patch_paths_frame es : forall m m' k, patch_paths es m = Some m' ->
  (forall e, In e es -> e_key e <> k) -> m' k = m k.
Proof.
  induction es as [|e r IH]; intros m m' k; cbn [patch_paths].
  - intros H _. now injection H as <-.
  - destruct (patch_entry m e) as [m1|] eqn:E1; [|discriminate]. intros H Hk.
    rewrite (IH _ _ _ H) by (intros; apply Hk; now right).
    apply patch_entry_cases in E1 as [[-> _]|(x & -> & _)]; [reflexivity|].
    apply sset_other. intros ->. apply (Hk e); [now left|reflexivity].
Qed.
Lemma patch_paths_same_or_clean es : forall m m' k, patch_paths es m = Some m' ->
  m' k = m k \/ is_clean_abs (m' k) = true.
Proof.
  induction es as [|e r IH]; intros m m' k; cbn [patch_paths].
  - intros H. injection H as <-. now left.
  - destruct (patch_entry m e) as [m1|] eqn:E1; [|discriminate]. intros H.
    destruct (IH _ _ k H) as [E|E]; [|now right]. rewrite E.
    apply patch_entry_cases in E1 as [[-> _]|(x & -> & Hx & _)]; [now left|].
    destruct (N.eq_dec k (e_key e)) as [->|Hne]; [right; now rewrite sset_same|left; now apply sset_other].
Qed.
(* every directory / file setting that has a value comes out clean and absolute *)
Lemma patch_paths_clean es : forall m m' e, patch_paths es m = Some m' ->
  In e es -> is_path_entry e = true -> m (e_key e) <> [] -> is_clean_abs (m' (e_key e)) = true.
Proof.
  induction es as [|e0 r IH]; intros m m' e; cbn [patch_paths]; [intros _ []|].
  destruct (patch_entry m e0) as [m1|] eqn:E1; [|discriminate]. intros H Hin Hty Hne.
  pose proof (patch_entry_cases _ _ _ E1) as C.
  destruct Hin as [<-|Hin].
  - destruct C as [[_ [C|C]]|(x & -> & Hx & _)]; [congruence|contradiction|].
    destruct (patch_paths_same_or_clean _ _ _ (e_key e0) H) as [E|E]; [|exact E].
    now rewrite E, sset_same.
  - apply (IH _ _ _ H Hin Hty).
    destruct C as [[-> _]|(x & -> & Hx & _)]; [exact Hne|].
    destruct (N.eq_dec (e_key e) (e_key e0)) as [->|Hk].
    + rewrite sset_same. intros ->. discriminate.
    + now rewrite sset_other.
Qed.

(* ------------------------------------------------------------------ the concrete table *)
Lemma defaults_nonempty_1 : defaults_of CF_settingSetup CF_cfKey_basepath <> [].
Proof. vm_compute. discriminate. Qed.
Lemma defaults_nonempty_3 : defaults_of CF_settingSetup CF_cfKey_layerdirs <> [].
Proof. vm_compute. discriminate. Qed.
Lemma defaults_nonempty_9 : defaults_of CF_settingSetup CF_cfKey_exportroot <> [].
Proof. vm_compute. discriminate. Qed.

Lemma merge_nonempty t s k : s k <> [] -> merge t s k <> [].
Proof. intros H. unfold merge. destruct (isempty (t k)) eqn:E; [exact H|now apply isempty_false]. Qed.

Definition entry_of (k : N) : option cf_entry := find (fun e => (e_key e =? k)%N) CF_settingSetup.

Theorem load_paths_clean_abs e vals : load e = OOk vals ->
  is_clean_abs (nth 0 vals []) = true /\ is_clean_abs (nth 1 vals []) = true /\ is_clean_abs (nth 7 vals []) = true.
Proof.
  unfold load, load_with. destruct (chain _ e _ _ _ _) as [m| |]; try discriminate.
  destruct (patch_paths CF_settingSetup (merge m (defaults_of CF_settingSetup))) as [m2|] eqn:E; [|discriminate].
  intros H. injection H as <-. cbn [map out_keys nth].
  assert (G : forall k en, entry_of k = Some en -> is_path_entry en = true ->
              defaults_of CF_settingSetup k <> [] -> is_clean_abs (m2 k) = true).
  { intros k en Hen Hty Hd. unfold entry_of in Hen. pose proof (find_some _ _ Hen) as [Hin Hk].
    apply N.eqb_eq in Hk. subst k. eapply patch_paths_clean; eauto. now apply merge_nonempty. }
  repeat split.
  - eapply G; [reflexivity|reflexivity|apply defaults_nonempty_1].
  - eapply G; [reflexivity|reflexivity|apply defaults_nonempty_3].
  - eapply G; [reflexivity|reflexivity|apply defaults_nonempty_9].
Qed.

(* ------------------------------------------------------------------ -basepath, then LAYERROOT, before any file *)
Definition base0 (e : env) : bytes := if isempty (sw_base e) then layerroot e else sw_base e.

Theorem load_base_override e vals : load e = OOk vals -> base0 e <> [] -> nth 0 vals [] = clean (base0 e).
Proof.
  unfold load, load_with. fold (base0 e).
  destruct (chain _ e _ _ _ _) as [m| |] eqn:Ec; try discriminate.
  destruct (patch_paths CF_settingSetup (merge m (defaults_of CF_settingSetup))) as [m2|] eqn:E; [|discriminate].
  intros H Hb. injection H as <-. cbn [map out_keys nth].
  assert (Hm : m CF_cfKey_basepath = base0 e).
  { rewrite (chain_keeps _ _ CF_cfKey_basepath _ _ _ _ _ Ec); rewrite sset_same; auto. }
  set (M := merge m (defaults_of CF_settingSetup)) in *.
  assert (HM : M CF_cfKey_basepath = base0 e).
  { unfold M. rewrite merge_keeps; rewrite Hm; auto. }
  unfold CF_settingSetup in E. rewrite patch_paths_cons in E.
  match type of E with match patch_entry M ?e1 with _ => _ end = _ => destruct (patch_entry M e1) as [m1|] eqn:E1; [|discriminate] end.
  rewrite (patch_paths_frame _ _ _ CF_cfKey_basepath E).
  2:{ intros en Hin. cbn in Hin. repeat (destruct Hin as [<-|Hin]; [cbn; discriminate|]). destruct Hin. }
  unfold patch_entry in E1. cbn [e_key e_type e_rel] in E1.
  change ((CF_ss_dir =? CF_ss_dir)%N) with true in E1. cbn [negb andb orb] in E1.
  change 1%N with CF_cfKey_basepath in E1. rewrite HM in E1.
  apply isempty_false in Hb. rewrite Hb in E1.
  destruct (is_abs (clean (base0 e))).
  - injection E1 as <-. apply sset_same.
  -     exfalso. clear -E1 Ec. revert E1.
    assert (H0 : m 0%N = []).
    { rewrite (chain_frame _ _ 0%N table_no_key0 _ _ _ _ _ Ec). reflexivity. }
    unfold M, merge. rewrite H0. cbn. discriminate.
Qed.
