(* Lemmas about Model/DepParse.v: the tokenizer against white-space tokenisation, totality of
   the recursive descent (fuel is never exhausted), fuel monotonicity, and the theorem that an
   accepted dependency string reads back token for token as the input. *)
From LC Require Import Lib.Bytes Lib.Fields Gen.Consts Model.AtomParse Model.DepParse Model.PMSGrammar
  Proofs.AtomParseP.
From Coq Require Import ZifyBool ZifyNat ZifyN.
Open Scope list_scope.
Open Scope N_scope.

(* ---- splitting at white space, for an arbitrary notion of white space ---- *)
Fixpoint toks_acc (ws : ascii -> bool) (cur : bytes) (s : bytes) : list bytes :=
  match s with
  | [] => match cur with [] => [] | _ => [rev cur] end
  | c :: r =>
    if ws c then match cur with [] => toks_acc ws [] r | _ => rev cur :: toks_acc ws [] r end
    else toks_acc ws (c :: cur) r
  end.
(* the tokens the implementation's scanner sees: white space is every byte <= ' ' *)
Definition wtoks (s : bytes) : list bytes := toks_acc is_ws [] s.

Lemma fields_toks_gen s : forall cur out, ffinish (fold_left fstep s (cur, out)) = rev out ++ toks_acc is_sp cur s.
Proof.
  induction s as [|c r IH]; intros cur out; cbn.
  - destruct cur as [|x cur]; cbn; [now rewrite app_nil_r|reflexivity].
  - destruct (is_sp c).
    + destruct cur; rewrite IH; [reflexivity|]. cbn. now rewrite <- app_assoc.
    + apply IH.
Qed.
Lemma fields_toks s : fields s = toks_acc is_sp [] s.
Proof. unfold fields. now rewrite fields_toks_gen. Qed.

Lemma ws_sp_agree c : ctrl_byte c = false -> is_ws c = is_sp c.
Proof.
  revert c. assert (H : forall c, implb (negb (ctrl_byte c)) (Bool.eqb (is_ws c) (is_sp c)) = true) by bytes_check.
  intros c E. specialize (H c). rewrite E in H. cbn in H. now apply eqb_prop in H.
Qed.
Lemma toks_agree s : existsb ctrl_byte s = false -> forall cur, toks_acc is_sp cur s = toks_acc is_ws cur s.
Proof.
  induction s as [|c r IH]; intros H cur; cbn; [reflexivity|]. cbn in H. apply orb_false_iff in H as [Hc Hr].
  rewrite (ws_sp_agree c Hc). destruct (is_sp c); [destruct cur|]; now rewrite ?IH.
Qed.
Lemma ptokens_wtoks s : existsb ctrl_byte s = false -> ptokens s = wtoks s.
Proof. intros H. unfold ptokens, wtoks. rewrite fields_toks. now apply toks_agree. Qed.

(* [bnd r]: a token can end here *)
Definition bnd (r : bytes) : Prop := r = [] \/ is_ws (peek r) = true.
Lemma bnd_not_ws r : bnd r -> r = [] \/ not_ws (peek r) = false.
Proof. intros [H|H]; [now left|right]. unfold not_ws. now rewrite H. Qed.

Lemma toks_acc_run a : forallb not_ws a = true -> forall cur r, toks_acc is_ws cur (a ++ r) = toks_acc is_ws (rev a ++ cur) r.
Proof.
  induction a as [|c a IH]; intros Ha cur r; cbn; [reflexivity|]. cbn in Ha. apply andb_true_iff in Ha as [Hc Ha].
  unfold not_ws in Hc. apply negb_true_iff in Hc. rewrite Hc. rewrite IH by assumption. now rewrite <- app_assoc.
Qed.
Lemma toks_acc_flush cur r : cur <> [] -> bnd r -> toks_acc is_ws cur r = rev cur :: toks_acc is_ws [] r.
Proof.
  intros Hc [->|Hr]; cbn.
  - destruct cur; [congruence|reflexivity].
  - destruct r as [|c r]; cbn in *. + destruct cur; [congruence|reflexivity].
    + rewrite Hr. destruct cur; [congruence|reflexivity].
Qed.
Lemma wtoks_token a r : a <> [] -> forallb not_ws a = true -> bnd r -> wtoks (a ++ r) = a :: wtoks r.
Proof.
  intros Ha Hw Hr. unfold wtoks. rewrite toks_acc_run by assumption. rewrite app_nil_r.
  rewrite toks_acc_flush; auto. - now rewrite rev_involutive. - intros E. apply (f_equal (@rev _)) in E. rewrite rev_involutive in E. cbn in E. congruence.
Qed.
Lemma wtoks_drop s : wtoks (drop_ws s) = wtoks s.
Proof.
  induction s as [|c r IH]; [reflexivity|]. unfold wtoks in *. cbn [drop_ws]. destruct (is_ws c) eqn:E.
  - cbn [toks_acc]. rewrite E. exact IH.
  - reflexivity.
Qed.
Lemma drop_ws_length s : (length (drop_ws s) <= length s)%nat.
Proof. induction s as [|c r IH]; cbn; [lia|]. destruct (is_ws c); cbn; lia. Qed.
Lemma drop_ws_head s c r : drop_ws s = c :: r -> not_ws c = true.
Proof. induction s as [|x s IH]; cbn; [discriminate|]. destruct (is_ws x) eqn:E; [exact IH|]. intros H. injection H as -> _. unfold not_ws. now rewrite E. Qed.

(* ---- the tokenizer ---- *)
(* the token class depends on the token alone; only the positions are those of the input *)
Definition retarget (t : token) (rest s1 : bytes) : token :=
  match t with
  | TEof => TEof | TErr => TErr
  | TOpen _ => TOpen rest | TClose _ => TClose rest
  | TGroup k _ => TGroup k rest
  | TUse k f _ => TUse k f rest
  | TAtom _ => TAtom s1
  end.

Lemma drop_ws_token tok : tok <> [] -> forallb not_ws tok = true -> forall r, drop_ws (tok ++ r) = tok ++ r.
Proof.
  destruct tok as [|c t]; [congruence|]. intros _ H r. cbn in *. apply andb_true_iff in H as [H _].
  unfold not_ws in H. apply negb_true_iff in H. now rewrite H.
Qed.

Lemma peek1_app (tok r : bytes) : (2 <= length tok)%nat -> peek1 (tok ++ r) = peek1 tok.
Proof. destruct tok as [|a [|b t]]; cbn; try lia. reflexivity. Qed.

(* the body of get_token once white space is skipped and the token is cut out *)
Definition classify (c0 p1 : ascii) (tok rest s1 : bytes) : token :=
  let toklen := length tok in
  let take := if is 40 c0 || is 41 c0 then 1%nat
              else if is 124 c0 || is 94 c0 || is 63 c0 then 2%nat else 0%nat in
  if negb (Nat.eqb take 0) then
    if negb (Nat.eqb toklen take) || (Nat.ltb 1 take && negb (Ascii.eqb p1 c0)) then TErr
    else if is 40 c0 then TOpen rest
    else if is 41 c0 then TClose rest
    else if is 124 c0 then TGroup 2 rest
    else if is 94 c0 then TGroup 3 rest
    else TGroup 4 rest
  else
    let neg := is 33 c0 in
    let tok' := if neg then tl tok else tok in
    if Nat.ltb 1 (length tok') && is 63 (last_byte tok) then
      let flag := removelast tok' in
      if forallb is_useflag_char flag then TUse (if neg then 6 else 5) flag rest else TErr
    else TAtom s1.

Lemma get_token_classify c0 t rest : forallb not_ws (c0 :: t) = true -> bnd rest ->
  get_token ((c0 :: t) ++ rest) = classify c0 (peek1 ((c0 :: t) ++ rest)) (c0 :: t) rest ((c0 :: t) ++ rest).
Proof.
  intros Hw Hb. assert (Hc0 : is_ws c0 = false).
  { cbn in Hw. apply andb_true_iff in Hw as [H _]. unfold not_ws in H. now apply negb_true_iff in H. }
  unfold get_token. change ((c0 :: t) ++ rest) with (c0 :: (t ++ rest)). cbn [drop_ws]. rewrite Hc0.
  change (c0 :: t ++ rest) with ((c0 :: t) ++ rest).
  rewrite (span_exact not_ws (c0 :: t) Hw rest (bnd_not_ws _ Hb)). reflexivity.
Qed.

Lemma get_token_retarget tok rest : tok <> [] -> forallb not_ws tok = true -> bnd rest ->
  get_token (tok ++ rest) = retarget (get_token tok) rest (tok ++ rest).
Proof.
  intros Hne Hw Hb. destruct tok as [|c0 t]; [congruence|].
  rewrite (get_token_classify c0 t rest Hw Hb).
  pose proof (get_token_classify c0 t [] Hw (or_introl eq_refl)) as E. rewrite app_nil_r in E. rewrite E. clear E.
  unfold classify. set (tok := c0 :: t) in *.
  destruct (negb (Nat.eqb _ 0)) eqn:Etake.
  - destruct (negb (Nat.eqb (length tok) _)) eqn:El; cbn [orb]; [reflexivity|].
    apply negb_false_iff, Nat.eqb_eq in El.
    destruct (Nat.ltb 1 _) eqn:E1t; cbn [andb].
    + assert (2 <= length tok)%nat by (apply Nat.ltb_lt in E1t; lia). rewrite peek1_app by assumption.
      destruct (negb (Ascii.eqb (peek1 tok) c0)); [reflexivity|].
      repeat (match goal with |- context [if ?b then _ else _] => destruct b end); reflexivity.
    + repeat (match goal with |- context [if ?b then _ else _] => destruct b end); reflexivity.
  - destruct (_ && _); [|reflexivity]. destruct (forallb is_useflag_char _); reflexivity.
Qed.

Lemma last_byte_split (tok : bytes) : tok <> [] -> tok = removelast tok ++ [last_byte tok].
Proof.
  intros Hne. unfold last_byte. destruct (rev tok) as [|x l] eqn:E.
  - apply (f_equal (@rev _)) in E. rewrite rev_involutive in E. cbn in E. congruence.
  - apply (f_equal (@rev _)) in E. rewrite rev_involutive in E. cbn in E. subst tok.
    rewrite removelast_last. reflexivity.
Qed.
Lemma last_byte_cons c (t : bytes) : t <> [] -> last_byte (c :: t) = last_byte t.
Proof.
  intros Hne. unfold last_byte. cbn. destruct (rev t) as [|x l] eqn:E; [|reflexivity].
  apply (f_equal (@rev _)) in E. rewrite rev_involutive in E. cbn in E. congruence.
Qed.

(* what the classes of get_token mean for a token standing alone *)
Lemma get_token_tok tok : tok <> [] -> forallb not_ws tok = true ->
  match get_token tok with
  | TEof => False
  | TErr => True
  | TOpen r => r = [] /\ tok = bs "("
  | TClose r => r = [] /\ tok = bs ")"
  | TGroup k r => r = [] /\ group_tok k [] = [tok] /\ (k = 2 \/ k = 3 \/ k = 4)
  | TUse k f r => r = [] /\ group_tok k f = [tok] /\ (k = 5 \/ k = 6) /\ forallb is_useflag_char f = true
  | TAtom s1 => s1 = tok /\ is 40 (peek tok) = false /\ is 41 (peek tok) = false
  end.
Proof.
  intros Hne Hw. destruct tok as [|c0 t]; [congruence|].
  pose proof (get_token_classify c0 t [] Hw (or_introl eq_refl)) as E. rewrite app_nil_r in E. rewrite E. clear E.
  unfold classify. cbn [peek1 peek].
  destruct (is 40 c0) eqn:E40; cbn [orb].
  { cbn [Nat.eqb negb Nat.ltb Nat.leb andb orb]. destruct t as [|c1 t]; cbn [length Nat.eqb negb]; [|exact I].
    apply is_eq in E40. subst. split; reflexivity. }
  destruct (is 41 c0) eqn:E41; cbn [orb].
  { cbn [Nat.eqb negb Nat.ltb Nat.leb andb orb]. destruct t as [|c1 t]; cbn [length Nat.eqb negb]; [|exact I].
    apply is_eq in E41. subst. split; reflexivity. }
  assert (Hg : forall k, c0 = nb k ->
     match (if negb (Nat.eqb (length (c0 :: t)) 2) || (Nat.ltb 1 2 && negb (Ascii.eqb (peek1 (c0 :: t)) c0)) then TErr
            else TGroup 0 []) with TErr => True | _ => c0 :: t = [nb k; nb k] end).
  { intros k ->. destruct t as [|c1 [|c2 t]]; cbn [length Nat.eqb negb orb andb Nat.ltb Nat.leb peek1]; try exact I.
    destruct (Ascii.eqb c1 (nb k)) eqn:Ec; cbn [negb]; [|exact I]. apply Ascii.eqb_eq in Ec. now subst. }
  destruct (is 124 c0) eqn:E124; cbn [orb].
  { cbn [Nat.eqb negb]. specialize (Hg 124 (is_eq _ _ E124)).
    destruct (_ || _); [exact I|]. rewrite Hg. repeat split; auto. }
  destruct (is 94 c0) eqn:E94; cbn [orb].
  { cbn [Nat.eqb negb]. specialize (Hg 94 (is_eq _ _ E94)).
    destruct (_ || _); [exact I|]. rewrite Hg. repeat split; auto. }
  destruct (is 63 c0) eqn:E63; cbn [orb].
  { cbn [Nat.eqb negb]. specialize (Hg 63 (is_eq _ _ E63)).
    destruct (_ || _); [exact I|]. rewrite Hg. repeat split; auto. }
  cbn [Nat.eqb negb]. clear Hg.
  destruct (is 33 c0) eqn:E33.
  - cbn [tl]. destruct (Nat.ltb 1 (length t)) eqn:El; cbn [andb]; [|repeat split; reflexivity].
    assert (Ht : t <> []) by (destruct t; [cbn in El; discriminate|discriminate]).
    destruct (is 63 (last_byte (c0 :: t))) eqn:Eq; [|repeat split; reflexivity].
    destruct (forallb is_useflag_char (removelast t)) eqn:Ef; [|exact I].
    rewrite last_byte_cons in Eq by assumption. apply is_eq in Eq. apply is_eq in E33. subst c0.
    repeat split; auto. unfold group_tok. cbn [N.eqb Pos.eqb]. rewrite <- Eq. now rewrite <- last_byte_split.
  - destruct (Nat.ltb 1 (length (c0 :: t))) eqn:El; cbn [andb]; [|repeat split; reflexivity].
    destruct (is 63 (last_byte (c0 :: t))) eqn:Eq; [|repeat split; reflexivity].
    destruct (forallb is_useflag_char (removelast (c0 :: t))) eqn:Ef; [|exact I].
    apply is_eq in Eq. repeat split; auto. unfold group_tok. cbn [N.eqb Pos.eqb]. rewrite <- Eq. now rewrite <- last_byte_split.
Qed.

Lemma drop_ws_idem s : drop_ws (drop_ws s) = drop_ws s.
Proof. induction s as [|c r IH]; cbn; [reflexivity|]. destruct (is_ws c) eqn:E; [exact IH|]. cbn. now rewrite E. Qed.
Lemma get_token_drop s : get_token (drop_ws s) = get_token s.
Proof. unfold get_token. now rewrite drop_ws_idem. Qed.

Lemma get_token_split s :
  (drop_ws s = [] /\ get_token s = TEof /\ wtoks s = []) \/
  exists tok rest, drop_ws s = tok ++ rest /\ tok <> [] /\ forallb not_ws tok = true /\ bnd rest /\
    wtoks s = tok :: wtoks rest /\ get_token s = retarget (get_token tok) rest (tok ++ rest).
Proof.
  destruct (drop_ws s) as [|c r] eqn:Ed.
  - left. repeat split. + unfold get_token. now rewrite Ed. + rewrite <- wtoks_drop, Ed. reflexivity.
  - right. pose proof (drop_ws_head _ _ _ Ed) as Hc.
    destruct (span not_ws (c :: r)) as [tok rest] eqn:Es.
    pose proof (span_app _ _ _ _ Es) as Happ. pose proof (span_all _ _ _ _ Es) as Hall.
    assert (Hne : tok <> []). { cbn in Es. rewrite Hc in Es. destruct (span not_ws r). injection Es as <- _. discriminate. }
    assert (Hb : bnd rest).
    { destruct (span_stop _ _ _ _ Es) as [H|H]; [now left|right]. unfold not_ws in H. now apply negb_false_iff in H. }
    exists tok, rest. repeat split; auto.
    + rewrite <- wtoks_drop, Ed, Happ. now apply wtoks_token.
    + rewrite <- get_token_drop, Ed, Happ. now apply get_token_retarget.
Qed.

Lemma get_token_len s :
  match get_token s with
  | TOpen r | TClose r | TGroup _ r | TUse _ _ r => (length r < length s)%nat
  | TAtom s1 => (length s1 <= length s)%nat
  | _ => True
  end.
Proof.
  destruct (get_token_split s) as [(_ & -> & _)|(tok & rest & Ed & Hne & Hw & Hb & _ & ->)]; [exact I|].
  pose proof (drop_ws_length s) as Hl. rewrite Ed, app_length in Hl.
  assert (0 < length tok)%nat by (destruct tok; [congruence|cbn; lia]).
  destruct (get_token tok); cbn [retarget]; try exact I; try lia. rewrite app_length. lia.
Qed.

(* ---- every successful step consumes input ---- *)
Lemma decode_progress f :
  (forall d s x r, decode_dep f d s = ROk (x, r) ->
     (length r <= length s)%nat /\ (x <> None -> (length r < length s)%nat)) /\
  (forall d s l r, decode_seq f d s = ROk (l, r) -> (length r <= length s)%nat).
Proof.
  induction f as [|f [IHd IHs]]; [split; intros; discriminate|]. split.
  - intros d s x r. cbn [decode_dep]. pose proof (get_token_len s) as Hl.
    destruct (get_token s) as [| |rest|rest|ty rest|ty flag rest|s1].
    + destruct d; [|discriminate]. intros E. injection E as <- <-. cbn. split; [lia|congruence].
    + discriminate.
    + destruct (decode_seq f (S d) rest) as [[l r']| | |] eqn:E; try discriminate.
      intros E2. injection E2 as <- <-. apply IHs in E. split; [lia|intros; lia].
    + destruct d; [discriminate|]. intros E. injection E as <- <-. split; [lia|congruence].
    + destruct (decode_dep f d rest) as [[[[a|t fl l]|] r']| | |] eqn:E; try discriminate.
      destruct (t =? 1); [|discriminate]. intros E2. injection E2 as <- <-. apply IHd in E as [E _]. split; [lia|intros; lia].
    + destruct (decode_dep f d rest) as [[[[a|t fl l]|] r']| | |] eqn:E; try discriminate.
      * intros E2. injection E2 as <- <-. apply IHd in E as [E _]. split; [lia|intros; lia].
      * destruct (t =? 1); [|discriminate]. intros E2. injection E2 as <- <-. apply IHd in E as [E _]. split; [lia|intros; lia].
    + destruct (raw_parse_at s1 true true) as [[p| | |] r'] eqn:E; try discriminate.
      destruct (not_ws (peek r')); [discriminate|]. intros E2. injection E2 as <- <-.
      apply raw_parse_ok in E as (Hs & Hne & _). assert (length r' < length s1)%nat.
      { rewrite Hs. rewrite app_length. destruct (p_atom p); [congruence|cbn; lia]. }
      split; [lia|intros; lia].
  - intros d s l r. cbn [decode_seq].
    destruct (decode_dep f d s) as [[[x|] r']| | |] eqn:E; try discriminate.
    + destruct (decode_seq f d r') as [[l' r'']| | |] eqn:E2; try discriminate.
      intros E3. injection E3 as <- <-. apply IHd in E as [E _]. apply IHs in E2. lia.
    + intros E3. injection E3 as <- <-. apply IHd in E as [E _]. exact E.
Qed.

(* ---- the fuel 2|s|+1 (one item) / 2|s|+2 (a sequence) is never exhausted, and nothing panics ---- *)
Definition fine {A} (r : dres A) : Prop := r <> RPanic /\ r <> RDiverge.
Lemma decode_total_fuel f :
  (forall d s, (2 * length s + 1 <= f)%nat -> fine (decode_dep f d s)) /\
  (forall d s, (2 * length s + 2 <= f)%nat -> fine (decode_seq f d s)).
Proof.
  induction f as [|f [IHd IHs]]; [split; intros; lia|]. split.
  - intros d s Hf. cbn [decode_dep]. pose proof (get_token_len s) as Hl.
    destruct (get_token s) as [| |rest|rest|ty rest|ty flag rest|s1].
    + destruct d; split; discriminate.
    + split; discriminate.
    + destruct (IHs (S d) rest ltac:(lia)) as [H1 H2]. destruct (decode_seq f (S d) rest) as [[l r']| | |]; split; congruence.
    + destruct d; split; discriminate.
    + destruct (IHd d rest ltac:(lia)) as [H1 H2].
      destruct (decode_dep f d rest) as [[[[a|t fl l]|] r']| | |]; try (split; congruence). destruct (t =? 1); split; discriminate.
    + destruct (IHd d rest ltac:(lia)) as [H1 H2].
      destruct (decode_dep f d rest) as [[[[a|t fl l]|] r']| | |]; try (split; congruence). destruct (t =? 1); split; discriminate.
    + destruct (atom_total s1 true true) as [H1 H2].
      destruct (raw_parse_at s1 true true) as [[p| | |] r']; cbn [fst] in *; try (split; congruence).
      destruct (not_ws (peek r')); split; discriminate.
  - intros d s Hf. cbn [decode_seq]. destruct (IHd d s ltac:(lia)) as [H1 H2].
    destruct (decode_dep f d s) as [[[x|] r']| | |] eqn:E; try (split; congruence).
    apply (proj1 (decode_progress f)) in E as [_ E]. specialize (E ltac:(discriminate)).
    destruct (IHs d r' ltac:(lia)) as [H3 H4]. destruct (decode_seq f d r') as [[l' r'']| | |]; split; congruence.
Qed.

(* no dependency string makes the decoder crash or loop *)
Theorem decode_total s : decode s <> RPanic /\ decode s <> RDiverge.
Proof.
  unfold decode. destruct (proj2 (decode_total_fuel (decode_fuel s)) O s) as [H1 H2]; [unfold decode_fuel; lia|].
  destruct (decode_seq _ O s) as [[l r]| | |]; split; congruence.
Qed.

(* ---- more fuel never changes an answer ---- *)
Definition dep_step (dd : nat -> bytes -> dres (option dep * bytes)) (ds : nat -> bytes -> dres (list dep * bytes))
                    (depth : nat) (s : bytes) : dres (option dep * bytes) :=
  match get_token s with
  | TEof => match depth with O => ROk (None, []) | S _ => RErr end
  | TClose rest => match depth with O => RErr | S _ => ROk (None, rest) end
  | TErr => RErr
  | TOpen rest =>
    match ds (S depth) rest with
    | ROk (l, r) => ROk (Some (DGroup 1 [] l), r)
    | RErr => RErr | RPanic => RPanic | RDiverge => RDiverge
    end
  | TUse ty flag rest =>
    match dd depth rest with
    | ROk (None, _) => RErr
    | ROk (Some (DAtom a), r) => ROk (Some (DGroup ty flag [DAtom a]), r)
    | ROk (Some (DGroup t _ l), r) => if t =? 1 then ROk (Some (DGroup ty flag l), r) else RErr
    | RErr => RErr | RPanic => RPanic | RDiverge => RDiverge
    end
  | TGroup ty rest =>
    match dd depth rest with
    | ROk (None, _) => RErr
    | ROk (Some (DAtom _), _) => RErr
    | ROk (Some (DGroup t fl l), r) => if t =? 1 then ROk (Some (DGroup ty fl l), r) else RErr
    | RErr => RErr | RPanic => RPanic | RDiverge => RDiverge
    end
  | TAtom s1 =>
    match raw_parse_at s1 true true with
    | (AOk p, r) => if not_ws (peek r) then RErr else ROk (Some (DAtom (make_da p)), r)
    | (AErr, _) => RErr
    | (APanic, _) => RPanic
    | (ADiverge, _) => RDiverge
    end
  end.
Definition seq_step (dd : nat -> bytes -> dres (option dep * bytes)) (ds : nat -> bytes -> dres (list dep * bytes))
                    (depth : nat) (s : bytes) : dres (list dep * bytes) :=
  match dd depth s with
  | ROk (None, r) => ROk ([], r)
  | ROk (Some d, r) =>
    match ds depth r with
    | ROk (l, r') => ROk (d :: l, r')
    | e => e
    end
  | RErr => RErr | RPanic => RPanic | RDiverge => RDiverge
  end.
Lemma decode_dep_S f d s : decode_dep (S f) d s = dep_step (decode_dep f) (decode_seq f) d s.
Proof. reflexivity. Qed.
Lemma decode_seq_S f d s : decode_seq (S f) d s = seq_step (decode_dep f) (decode_seq f) d s.
Proof. reflexivity. Qed.

Lemma decode_mono_step f :
  (forall d s, decode_dep f d s <> RDiverge -> decode_dep (S f) d s = decode_dep f d s) /\
  (forall d s, decode_seq f d s <> RDiverge -> decode_seq (S f) d s = decode_seq f d s).
Proof.
  induction f as [|f [IHd IHs]]; [split; intros d s H; cbn in H; congruence|]. split.
  - intros d s H. rewrite (decode_dep_S (S f)), (decode_dep_S f). rewrite (decode_dep_S f) in H.
    unfold dep_step in *.
    destruct (get_token s) as [| |rest|rest|ty rest|ty flag rest|s1]; try reflexivity.
    + rewrite IHs; [reflexivity|]. destruct (decode_seq f (S d) rest); congruence.
    + rewrite IHd; [reflexivity|]. destruct (decode_dep f d rest); congruence.
    + rewrite IHd; [reflexivity|]. destruct (decode_dep f d rest); congruence.
  - intros d s H. rewrite (decode_seq_S (S f)), (decode_seq_S f). rewrite (decode_seq_S f) in H.
    unfold seq_step in *.
    assert (Hd : decode_dep f d s <> RDiverge) by (destruct (decode_dep f d s); congruence).
    rewrite (IHd d s Hd). destruct (decode_dep f d s) as [[[x|] r']| | |]; try reflexivity.
    rewrite IHs; [reflexivity|]. destruct (decode_seq f d r') as [[l' r'']| | |]; congruence.
Qed.
Lemma decode_seq_mono k : forall f d s, decode_seq f d s <> RDiverge -> decode_seq (k + f) d s = decode_seq f d s.
Proof.
  induction k as [|k IH]; intros f d s H; [reflexivity|]. cbn [Nat.add].
  rewrite (proj2 (decode_mono_step (k + f))); rewrite IH; auto.
Qed.
Lemma decode_dep_mono k : forall f d s, decode_dep f d s <> RDiverge -> decode_dep (k + f) d s = decode_dep f d s.
Proof.
  induction k as [|k IH]; intros f d s H; [reflexivity|]. cbn [Nat.add].
  rewrite (proj1 (decode_mono_step (k + f))); rewrite IH; auto.
Qed.

(* an answer found with some fuel is the answer of DecodeDependencies *)
Lemma decode_of_fuel f s l r : decode_seq f O s = ROk (l, r) -> decode s = ROk l.
Proof.
  intros E. unfold decode.
  destruct (proj2 (decode_total_fuel (decode_fuel s)) O s) as [_ H2]; [unfold decode_fuel; lia|].
  pose proof (decode_seq_mono f (decode_fuel s) O s H2) as M1.
  pose proof (decode_seq_mono (decode_fuel s) f O s ltac:(rewrite E; discriminate)) as M2.
  rewrite Nat.add_comm in M2. rewrite M2 in M1. rewrite <- M1, E. reflexivity.
Qed.

(* ---- an accepted dependency string reads back token for token as the input ---- *)
Lemma bare_use_tl t ts : bare_use (t :: ts) = false -> bare_use ts = false.
Proof. destruct ts as [|u r]; [reflexivity|]. cbn [bare_use]. intros H. now apply orb_false_iff in H as [_ H]. Qed.
Lemma bare_use_app a : forall b, bare_use (a ++ b) = false -> bare_use b = false.
Proof. induction a as [|t a IH]; intros b H; [exact H|]. apply IH. eapply bare_use_tl. exact H. Qed.

Lemma is_ws_nul : is_ws (nb 0) = true.
Proof. reflexivity. Qed.
Lemma not_ws_bnd r : not_ws (peek r) = false -> bnd r.
Proof. intros H. right. unfold not_ws in H. now apply negb_false_iff in H. Qed.

(* an atom item never starts with a parenthesis *)
Lemma decode_atom_head f d s a r : decode_dep f d s = ROk (Some (DAtom a), r) ->
  is 40 (peek (l_atom a)) = false /\ wtoks s = l_atom a :: wtoks r /\ bnd r.
Proof.
  destruct f as [|f]; [discriminate|]. rewrite decode_dep_S. unfold dep_step.
  destruct (get_token_split s) as [(_ & -> & _)|(tok & rest & Ed & Hne & Hw & Hb & Ht & ->)].
  { destruct d; discriminate. }
  pose proof (get_token_tok tok Hne Hw) as Hc.
  destruct (get_token tok) as [| |r0|r0|ty r0|ty flag r0|s1]; cbn [retarget]; try discriminate; [destruct Hc| | | | |].
  - destruct (decode_seq f (S d) rest) as [[l r']| | |]; discriminate.
  - destruct d; discriminate.
  - destruct (decode_dep f d rest) as [[[[a'|t fl l]|] r']| | |]; try discriminate. destruct (t =? 1); discriminate.
  - destruct (decode_dep f d rest) as [[[[a'|t fl l]|] r']| | |]; try discriminate. destruct (t =? 1); discriminate.
  - destruct Hc as (_ & H40 & _).
    destruct (raw_parse_at (tok ++ rest) true true) as [[p| | |] r'] eqn:E; try discriminate.
    destruct (not_ws (peek r')) eqn:En; [discriminate|]. intros E2. injection E2 as <- <-.
    apply raw_parse_ok in E as (Hs & Hpne & Hpw & _). cbn [make_da l_atom].
    split; [|split; [|now apply not_ws_bnd]].
    + assert (peek (p_atom p) = peek tok); [|congruence].
      rewrite <- (peek_app_ne (p_atom p) r') by assumption. rewrite <- Hs. now apply peek_app_ne.
    + rewrite <- wtoks_drop, Ed, Hs. apply wtoks_token; auto. now apply not_ws_bnd.
Qed.

Lemma group_tok_234 k f : k = 2 \/ k = 3 \/ k = 4 -> group_tok k f = group_tok k [].
Proof. intros H. destruct H as [H|[H|H]]; subst k; reflexivity. Qed.

Lemma decode_faithful f :
  (forall d s x r, bare_use (wtoks s) = false -> decode_dep f d s = ROk (x, r) ->
     match x with
     | Some dd => wtoks s = dep_toks dd ++ wtoks r /\ bnd r
     | None => match d with
               | O => wtoks s = [] /\ r = []
               | S _ => wtoks s = bs ")" :: wtoks r /\ bnd r
               end
     end) /\
  (forall d s l r, bare_use (wtoks s) = false -> decode_seq f d s = ROk (l, r) ->
     match d with
     | O => wtoks s = flat_map dep_toks l /\ r = []
     | S _ => wtoks s = flat_map dep_toks l ++ bs ")" :: wtoks r /\ bnd r
     end).
Proof.
  induction f as [|f [IHd IHs]]; [split; intros; discriminate|]. split.
  - intros d s x r Hbu. rewrite decode_dep_S. unfold dep_step.
    destruct (get_token_split s) as [(_ & -> & Hw0)|(tok & rest & Ed & Hne & Hw & Hb & Ht & ->)].
    { destruct d; [|discriminate]. intros E. injection E as <- <-. now split. }
    pose proof (get_token_tok tok Hne Hw) as Hc. rewrite Ht in Hbu. pose proof (bare_use_tl _ _ Hbu) as Hbr.
    destruct (get_token tok) as [| |r0|r0|ty r0|ty flag r0|s1] eqn:Etok; cbn [retarget]; try discriminate; [destruct Hc| | | | |].
    + (* ( *) destruct Hc as [_ ->].
      destruct (decode_seq f (S d) rest) as [[l r']| | |] eqn:E; try discriminate.
      intros E2. injection E2 as <- <-. apply (IHs _ _ _ _ Hbr) in E as [E Hb']. split; [|exact Hb'].
      rewrite Ht, E. cbn [dep_toks group_tok N.eqb Pos.eqb]. cbn [app]. f_equal. rewrite <- !app_assoc. reflexivity.
    + (* ) *) destruct Hc as [_ ->]. destruct d; [discriminate|]. intros E. injection E as <- <-. now rewrite Ht.
    + (* || ^^ ?? *) destruct Hc as (_ & Hg & Hk).
      destruct (decode_dep f d rest) as [[[[a'|t fl l]|] r']| | |] eqn:E; try discriminate.
      destruct (t =? 1) eqn:Et1; [|discriminate]. apply N.eqb_eq in Et1. subst t.
      intros E2. injection E2 as <- <-. apply (IHd _ _ _ _ Hbr) in E as [E Hb']. split; [|exact Hb'].
      rewrite Ht, E. cbn [dep_toks]. rewrite (group_tok_234 ty fl Hk), Hg. cbn [group_tok N.eqb Pos.eqb app].
      rewrite <- !app_assoc. reflexivity.
    + (* flag? *) destruct Hc as (_ & Hg & Hk & _).
      destruct (decode_dep f d rest) as [[[[a'|t fl l]|] r']| | |] eqn:E; try discriminate.
      * (* directly followed by an atom: excluded by the hypothesis *)
        exfalso. apply decode_atom_head in E as (H40 & Hwr & _). rewrite Hwr in Hbu. cbn [bare_use] in Hbu.
        apply orb_false_iff in Hbu as [Hbu _]. unfold is_use_tok in Hbu. rewrite Etok in Hbu. cbn [andb] in Hbu.
        apply negb_false_iff, beq_true in Hbu. rewrite Hbu in H40. cbn in H40. discriminate.
      * destruct (t =? 1) eqn:Et1; [|discriminate]. apply N.eqb_eq in Et1. subst t.
        intros E2. injection E2 as <- <-. apply (IHd _ _ _ _ Hbr) in E as [E Hb']. split; [|exact Hb'].
        rewrite Ht, E. cbn [dep_toks]. rewrite Hg. cbn [group_tok N.eqb Pos.eqb app].
        rewrite <- !app_assoc. reflexivity.
    + (* atom *)
      destruct (raw_parse_at (tok ++ rest) true true) as [[p| | |] r'] eqn:E; try discriminate.
      destruct (not_ws (peek r')) eqn:En; [discriminate|]. intros E2. injection E2 as <- <-.
      apply raw_parse_ok in E as (Hs & Hpne & Hpw & _). cbn [dep_toks make_da l_atom app].
      split; [|now apply not_ws_bnd]. rewrite <- wtoks_drop, Ed, Hs. apply wtoks_token; auto. now apply not_ws_bnd.
  - intros d s l r Hbu. rewrite decode_seq_S. unfold seq_step.
    destruct (decode_dep f d s) as [[[x|] r1]| | |] eqn:E; try discriminate.
    + apply (IHd _ _ _ _ Hbu) in E as [E Hb1]. rewrite E in Hbu. pose proof (bare_use_app _ _ Hbu) as Hbr.
      destruct (decode_seq f d r1) as [[l' r']| | |] eqn:E2; try discriminate.
      intros E3. injection E3 as <- <-. apply (IHs _ _ _ _ Hbr) in E2. cbn [flat_map].
      destruct d; destruct E2 as [E2 H2]; (split; [|exact H2]); rewrite E, E2; rewrite <- ?app_assoc; reflexivity.
    + intros E3. injection E3 as <- <-. apply (IHd _ _ _ _ Hbu) in E. destruct d; exact E.
Qed.

(* the theorem on whole inputs, in the terms of the property: tokens are separated by white
   space (ptokens); inputs of the two known-deviation classes are excepted *)
Theorem decode_no_misparse s l : existsb ctrl_byte s = false -> bare_use (ptokens s) = false ->
  decode s = ROk l -> ptokens s = flat_map dep_toks l.
Proof.
  intros Hc Hb. rewrite (ptokens_wtoks s Hc) in *. unfold decode.
  destruct (decode_seq (decode_fuel s) 0 s) as [[l' r]| | |] eqn:E; try discriminate.
  intros E2. injection E2 as <-. apply (proj2 (decode_faithful _) _ _ _ _ Hb) in E as [E _]. exact E.
Qed.

(* ---- induction over dependency trees (nested lists) ---- *)
Section DepInd.
Variable P : dep -> Prop.
Hypothesis Ha : forall a, P (DAtom a).
Hypothesis Hg : forall k f ds, Forall P ds -> P (DGroup k f ds).
Fixpoint dep_ind2 (d : dep) : P d :=
  match d with
  | DAtom a => Ha a
  | DGroup k f ds =>
    Hg k f ds ((fix go (l : list dep) : Forall P l :=
                  match l with [] => Forall_nil _ | x :: r => Forall_cons _ (dep_ind2 x) (go r) end) ds)
  end.
End DepInd.

(* trees the decoder builds: group types 1..6 *)
Fixpoint wt (d : dep) : bool :=
  match d with
  | DAtom _ => true
  | DGroup k _ ds => (1 <=? k) && (k <=? 6) && forallb wt ds
  end.

(* ---- String() prints the PMS text of the tree ---- *)
Definition sp_join (ts : list bytes) : bytes := unwords [nb 32] ts.
Lemma unwords_cons sep (x : bytes) r : r <> [] -> unwords sep (x :: r) = x ++ sep ++ unwords sep r.
Proof. destruct r; [congruence|reflexivity]. Qed.
Lemma unwords_app sep (a b : list bytes) : a <> [] -> b <> [] -> unwords sep (a ++ b) = unwords sep a ++ sep ++ unwords sep b.
Proof.
  intros Ha Hb. induction a as [|x a IH]; [congruence|]. destruct a as [|y a].
  - cbn [app]. now rewrite unwords_cons.
  - change ((x :: y :: a) ++ b) with (x :: ((y :: a) ++ b)). rewrite unwords_cons by discriminate.
    rewrite IH by discriminate. rewrite (unwords_cons sep x (y :: a)) by discriminate. now rewrite <- !app_assoc.
Qed.
Lemma dep_toks_ne d : dep_toks d <> [].
Proof. destruct d; cbn; [discriminate|]. destruct (group_tok _ _); discriminate. Qed.

Definition str_go := fix go (l : list dep) : bytes :=
  match l with [] => [] | x :: r => nb 32 :: dep_string x ++ go r end.

Lemma dep_string_toks : forall d, wt d = true -> dep_string d = sp_join (dep_toks d).
Proof.
  apply (dep_ind2 (fun d => wt d = true -> dep_string d = sp_join (dep_toks d))).
  - reflexivity.
  - intros k f ds IH Hwt. cbn [wt] in Hwt. apply andb_true_iff in Hwt as [Hk Hds]. apply andb_true_iff in Hk as [Hk1 Hk6].
    cbn [dep_string dep_toks]. fold str_go.
    set (X := flat_map dep_toks ds ++ [bs ")"]).
    assert (HX : X <> []) by (unfold X; destruct (flat_map dep_toks ds); discriminate).
    assert (Hgo : [nb 32] ++ sp_join X = str_go ds ++ [nb 32; nb 41]).
    { unfold X. clear Hk1 Hk6 X HX. induction ds as [|x r IHr]; [reflexivity|].
      cbn [forallb] in Hds. apply andb_true_iff in Hds as [Hx Hr]. inversion IH as [|? ? Px Pr]; subst.
      cbn [flat_map str_go]. rewrite <- app_assoc. unfold sp_join. rewrite unwords_app;
        [|apply dep_toks_ne|destruct (flat_map dep_toks r); discriminate].
      fold (sp_join (dep_toks x)). rewrite <- (Px Hx). fold (sp_join (flat_map dep_toks r ++ [bs ")"])).
      rewrite (IHr Pr Hr). cbn [app]. now rewrite <- app_assoc. }
    assert (Hcases : k = 1 \/ k = 2 \/ k = 3 \/ k = 4 \/ k = 5 \/ k = 6) by lia.
    unfold sp_join in *.
    destruct Hcases as [ -> | [ -> | [ -> | [ -> | [ -> | -> ] ] ] ] ]; cbn [group_intro group_tok N.eqb Pos.eqb app]; fold X.
    + rewrite unwords_cons by assumption. rewrite Hgo. reflexivity.
    + rewrite unwords_cons by discriminate. rewrite unwords_cons by assumption. rewrite Hgo. reflexivity.
    + rewrite unwords_cons by discriminate. rewrite unwords_cons by assumption. rewrite Hgo. reflexivity.
    + rewrite unwords_cons by discriminate. rewrite unwords_cons by assumption. rewrite Hgo. reflexivity.
    + rewrite unwords_cons by discriminate. rewrite unwords_cons by assumption. rewrite Hgo.
      rewrite <- !app_assoc. reflexivity.
    + rewrite unwords_cons by discriminate. rewrite unwords_cons by assumption. rewrite Hgo.
      cbn [app]. rewrite <- !app_assoc. reflexivity.
Qed.

Lemma decode_wt f :
  (forall d s x r, decode_dep f d s = ROk (Some x, r) -> wt x = true) /\
  (forall d s l r, decode_seq f d s = ROk (l, r) -> forallb wt l = true).
Proof.
  induction f as [|f [IHd IHs]]; [split; intros; discriminate|]. split.
  - intros d s x r. rewrite decode_dep_S. unfold dep_step.
    destruct (get_token_split s) as [(_ & -> & Hw0)|(tok & rest & Ed & Hne & Hw & Hb & Ht & ->)].
    { destruct d; discriminate. }
    pose proof (get_token_tok tok Hne Hw) as Hc.
    destruct (get_token tok) as [| |r0|r0|ty r0|ty flag r0|s1] eqn:Etok; cbn [retarget]; try discriminate; [destruct Hc| | | | |].
    + destruct (decode_seq f (S d) rest) as [[l r']| | |] eqn:E; try discriminate.
      intros E2. injection E2 as <- <-. cbn [wt]. apply IHs in E. now rewrite E.
    + destruct d; discriminate.
    + destruct Hc as (_ & _ & Hk).
      destruct (decode_dep f d rest) as [[[[a'|t fl l]|] r']| | |] eqn:E; try discriminate.
      destruct (t =? 1) eqn:Et1; [|discriminate]. apply N.eqb_eq in Et1. subst t.
      intros E2. injection E2 as <- <-. apply IHd in E. cbn [wt] in *. apply andb_true_iff in E as [_ E]. rewrite E.
      destruct Hk as [ -> | [ -> | -> ] ]; reflexivity.
    + destruct Hc as (_ & _ & Hk & _).
      destruct (decode_dep f d rest) as [[[[a'|t fl l]|] r']| | |] eqn:E; try discriminate.
      * intros E2. injection E2 as <- <-. cbn [wt forallb]. destruct Hk as [ -> | -> ]; reflexivity.
      * destruct (t =? 1) eqn:Et1; [|discriminate]. intros E2. injection E2 as <- <-. apply IHd in E. cbn [wt] in *.
        apply andb_true_iff in E as [_ E]. rewrite E. destruct Hk as [ -> | -> ]; reflexivity.
    + destruct (raw_parse_at (tok ++ rest) true true) as [[p| | |] r'] eqn:E; try discriminate.
      destruct (not_ws (peek r')); [discriminate|]. intros E2. injection E2 as <- <-. reflexivity.
  - intros d s l r. rewrite decode_seq_S. unfold seq_step.
    destruct (decode_dep f d s) as [[[x|] r1]| | |] eqn:E; try discriminate.
    + destruct (decode_seq f d r1) as [[l' r']| | |] eqn:E2; try discriminate.
      intros E3. injection E3 as <- <-. cbn [forallb]. apply IHd in E. apply IHs in E2. now rewrite E, E2.
    + intros E3. injection E3 as <- <-. reflexivity.
Qed.

Lemma decode_ok_wt s l : decode s = ROk l -> forallb wt l = true.
Proof.
  unfold decode. destruct (decode_seq (decode_fuel s) 0 s) as [[l' r]| | |] eqn:E; try discriminate.
  intros E2. injection E2 as <-. eapply (proj2 (decode_wt _)); eauto.
Qed.

(* ---- unbalanced parentheses are rejected ---- *)
Fixpoint balanced (n : nat) (ts : list bytes) : bool :=
  match ts with
  | [] => Nat.eqb n 0
  | t :: r =>
    if beq t (bs "(") then balanced (S n) r
    else if beq t (bs ")") then match n with O => false | S m => balanced m r end
    else balanced n r
  end.

Lemma decode_balanced f :
  (forall d s x r, decode_dep f d s = ROk (x, r) ->
     match x with
     | Some _ => forall n, balanced n (wtoks s) = balanced n (wtoks r)
     | None => match d with O => wtoks s = [] /\ r = [] | S _ => wtoks s = bs ")" :: wtoks r end
     end) /\
  (forall d s l r, decode_seq f d s = ROk (l, r) ->
     match d with
     | O => r = [] /\ forall n, balanced n (wtoks s) = Nat.eqb n 0
     | S _ => forall n, balanced (S n) (wtoks s) = balanced n (wtoks r)
     end).
Proof.
  induction f as [|f [IHd IHs]]; [split; intros; discriminate|]. split.
  - intros d s x r. rewrite decode_dep_S. unfold dep_step.
    destruct (get_token_split s) as [(_ & -> & Hw0)|(tok & rest & Ed & Hne & Hw & Hb & Ht & ->)].
    { destruct d; [|discriminate]. intros E. injection E as <- <-. now split. }
    pose proof (get_token_tok tok Hne Hw) as Hc.
    assert (Hnp : forall k fl r0, get_token tok = TGroup k r0 \/ get_token tok = TUse k fl r0 ->
                  forall n w, balanced n (tok :: w) = balanced n w).
    { intros k fl r0 Hg n w. cbn [balanced].
      destruct (beq tok (bs "(")) eqn:E1. { apply beq_true in E1. subst tok. cbn in Hg. destruct Hg; discriminate. }
      destruct (beq tok (bs ")")) eqn:E2. { apply beq_true in E2. subst tok. cbn in Hg. destruct Hg; discriminate. }
      reflexivity. }
    destruct (get_token tok) as [| |r0|r0|ty r0|ty flag r0|s1] eqn:Etok; cbn [retarget]; try discriminate; [destruct Hc| | | | |].
    + destruct Hc as [_ ->].
      destruct (decode_seq f (S d) rest) as [[l r']| | |] eqn:E; try discriminate.
      intros E2. injection E2 as <- <-. apply IHs in E. intros n. rewrite Ht. cbn [balanced beq]. cbn. apply E.
    + destruct Hc as [_ ->]. destruct d; [discriminate|]. intros E. injection E as <- <-. exact Ht.
    + destruct (decode_dep f d rest) as [[[[a'|t fl l]|] r']| | |] eqn:E; try discriminate.
      destruct (t =? 1); [|discriminate]. intros E2. injection E2 as <- <-. apply IHd in E. intros n.
      rewrite Ht, (Hnp ty [] r0) by auto. apply E.
    + destruct (decode_dep f d rest) as [[[[a'|t fl l]|] r']| | |] eqn:E; try discriminate.
      * intros E2. injection E2 as <- <-. apply IHd in E. intros n. rewrite Ht, (Hnp ty flag r0) by auto. apply E.
      * destruct (t =? 1); [|discriminate]. intros E2. injection E2 as <- <-. apply IHd in E. intros n.
        rewrite Ht, (Hnp ty flag r0) by auto. apply E.
    + destruct Hc as (_ & H40 & H41).
      destruct (raw_parse_at (tok ++ rest) true true) as [[p| | |] r'] eqn:E; try discriminate.
      destruct (not_ws (peek r')) eqn:En; [discriminate|]. intros E2. injection E2 as <- <-.
      apply raw_parse_ok in E as (Hs & Hpne & Hpw & _). intros n.
      assert (Hws : wtoks s = p_atom p :: wtoks r').
      { rewrite <- wtoks_drop, Ed, Hs. apply wtoks_token; auto. now apply not_ws_bnd. }
      assert (Hpk : peek (p_atom p) = peek tok).
      { rewrite <- (peek_app_ne (p_atom p) r') by assumption. rewrite <- Hs. now apply peek_app_ne. }
      rewrite Hws. cbn [balanced].
      destruct (beq (p_atom p) (bs "(")) eqn:E1. { apply beq_true in E1. rewrite E1 in Hpk. rewrite <- Hpk in H40. discriminate. }
      destruct (beq (p_atom p) (bs ")")) eqn:E2. { apply beq_true in E2. rewrite E2 in Hpk. rewrite <- Hpk in H41. discriminate. }
      reflexivity.
  - intros d s l r. rewrite decode_seq_S. unfold seq_step.
    destruct (decode_dep f d s) as [[[x|] r1]| | |] eqn:E; try discriminate.
    + apply IHd in E. destruct (decode_seq f d r1) as [[l' r']| | |] eqn:E2; try discriminate.
      intros E3. injection E3 as <- <-. apply IHs in E2. destruct d.
      * destruct E2 as [-> E2]. split; [reflexivity|]. intros n. rewrite E. apply E2.
      * intros n. rewrite E. apply E2.
    + intros E3. injection E3 as <- <-. apply IHd in E. destruct d.
      * destruct E as [E ->]. split; [reflexivity|]. intros n. now rewrite E.
      * intros n. rewrite E. cbn [balanced beq]. reflexivity.
Qed.

(* a stray ")" or a missing ")" -- any imbalance of the parenthesis tokens -- is an error, never
   a truncated tree *)
Theorem decode_reject_unbalanced s : balanced 0 (wtoks s) = false -> decode s = RErr.
Proof.
  intros Hb. destruct (decode_total s) as [H1 H2]. destruct (decode s) as [l| | |] eqn:E; try congruence.
  exfalso. unfold decode in E. destruct (decode_seq (decode_fuel s) 0 s) as [[l' r]| | |] eqn:E2; try discriminate.
  apply (proj2 (decode_balanced _)) in E2 as [_ E2]. rewrite E2 in Hb. discriminate.
Qed.
