(* dep_roundtrip: every string whose white-space separated tokens are the tokens of well-formed
   dependency trees (any depth, any white space) decodes to exactly those trees. *)
From LC Require Import Lib.Bytes Lib.Fields Gen.Consts Model.AtomParse Model.DepParse Model.PMSGrammar
  Proofs.AtomParseP Proofs.VersionP Proofs.AtomRoundtripP Proofs.DepParseP.
From Coq Require Import ZifyBool ZifyNat ZifyN.
Open Scope list_scope.
Open Scope N_scope.

Section DastInd.
Variable P : dast -> Prop.
Hypothesis Ha : forall a, P (TA a).
Hypothesis Hg : forall k f l, Forall P l -> P (TG k f l).
Fixpoint dast_ind2 (t : dast) : P t :=
  match t with
  | TA a => Ha a
  | TG k f l =>
    Hg k f l ((fix go (l : list dast) : Forall P l :=
                 match l with [] => Forall_nil _ | x :: r => Forall_cons _ (dast_ind2 x) (go r) end) l)
  end.
End DastInd.

(* ---- how the tokenizer classifies printed tokens ---- *)
Definition noq (c : ascii) : bool := negb (is 63 c).
Lemma last_byte_noq (s : bytes) : s <> [] -> forallb noq s = true -> is 63 (last_byte s) = false.
Proof.
  intros Hne H. rewrite (last_byte_split s Hne) in H. rewrite forallb_app in H. apply andb_true_iff in H as [_ H].
  cbn in H. rewrite andb_true_r in H. now apply negb_true_iff in H.
Qed.
Lemma last_byte_snoc (s : bytes) c : last_byte (s ++ [c]) = c.
Proof. unfold last_byte. rewrite rev_app_distr. reflexivity. Qed.

Lemma namever_noq : forall c, is_namever c = true -> noq c = true.
Proof. apply impl_bytes. bytes_check. Qed.
Lemma slot_mid_noq : forall c, is_slot_mid c = true -> noq c = true.
Proof. apply impl_bytes. bytes_check. Qed.
Lemma slot_start_noq : forall c, is_slot_start c = true -> noq c = true.
Proof. apply impl_bytes. bytes_check. Qed.

Lemma print_slot_noq sl : wf_slot sl = true -> forallb noq (print_slot sl) = true.
Proof.
  intros Hwf. destruct sl as [| | |s sub eq]; try reflexivity.
  cbn [wf_slot] in Hwf. apply andb_true_iff in Hwf as [Hs Hsub].
  apply slotname_shape in Hs as (c & w & -> & Hc & Hw & _). cbn [print_slot forallb].
  replace (noq (nb 58)) with true by reflexivity. cbn [andb]. rewrite forallb_app. apply andb_true_iff. split.
  - cbn [forallb]. rewrite (slot_start_noq _ Hc). cbn [andb]. eapply forallb_impl; [|exact Hw]. exact slot_mid_noq.
  - rewrite forallb_app. apply andb_true_iff. split; [|destruct eq; reflexivity].
    destruct sub as [b|]; [|reflexivity]. apply slotname_shape in Hsub as (c2 & w2 & -> & Hc2 & Hw2 & _).
    cbn [forallb]. replace (noq (nb 47)) with true by reflexivity. rewrite (slot_start_noq _ Hc2). cbn [andb].
    eapply forallb_impl; [|exact Hw2]. exact slot_mid_noq.
Qed.
Lemma print_repo_noq rp : match rp with Some x => wf_repo x = true | None => True end -> forallb noq (print_repo rp) = true.
Proof.
  destruct rp as [x|]; [|reflexivity]. intros Hwf. unfold wf_repo in Hwf. apply andb_true_iff in Hwf as [Hch _].
  cbn [print_repo forallb]. replace (noq (nb 58)) with true by reflexivity. cbn [andb].
  eapply forallb_impl; [|exact Hch]. apply impl_bytes. bytes_check.
Qed.
Lemma print_block_op_noq b o : b <= 2 -> o <= 6 -> forallb noq (print_block b ++ print_op o) = true.
Proof.
  intros Hb Ho. assert (Hc : b = 0 \/ b = 1 \/ b = 2) by lia.
  assert (Hd : o = 0 \/ o = 1 \/ o = 2 \/ o = 3 \/ o = 4 \/ o = 5 \/ o = 6) by lia.
  destruct Hc as [ -> | [ -> | -> ] ]; destruct Hd as [ -> | [ -> | [ -> | [ -> | [ -> | [ -> | -> ] ] ] ] ] ]; reflexivity.
Qed.

Lemma p_atom_denote a : p_atom (denote a) = print_atom a.
Proof. unfold denote. destruct (a_ver a); destruct (a_slot a); reflexivity. Qed.

Lemma n012 b : b <= 2 -> b = 0 \/ b = 1 \/ b = 2.
Proof. lia. Qed.
Lemma n0123456 o : o <= 6 -> o = 0 \/ o = 1 \/ o = 2 \/ o = 3 \/ o = 4 \/ o = 5 \/ o = 6.
Proof. lia. Qed.
Lemma len_snoc_gt1 (c : ascii) (w : bytes) (x : ascii) : Nat.ltb 1 (length ((c :: w) ++ [x])) = true.
Proof. apply Nat.ltb_lt. rewrite app_length. cbn [length]. lia. Qed.

Lemma print_atom_head a : wf_atom true true a = true ->
  exists c0 t, print_atom a = c0 :: t /\
    (is 40 c0 || is 41 c0) = false /\ (is 124 c0 || is 94 c0 || is 63 c0) = false /\ not_ws c0 = true.
Proof.
  intros Hwf. pose proof (atom_roundtrip true true a [] Hwf ltac:(discriminate) (or_introl eq_refl)) as E.
  rewrite app_nil_r in E. apply raw_parse_ok in E as (_ & Hne & Hw & Hbl & _). rewrite p_atom_denote in *.
  unfold wf_atom in Hwf. repeat (apply andb_true_iff in Hwf as [Hwf ?]). apply N.leb_le in Hwf.
  destruct (print_atom a) as [|c0 t] eqn:Ep; [congruence|]. exists c0, t. split; [reflexivity|].
  assert (Hhead : (is 33 c0 || is 60 c0 || is 61 c0 || is 62 c0 || is 126 c0 || name_head c0) = true).
  { unfold print_atom in Ep.
    destruct (n012 _ Hwf) as [ Hb | [ Hb | Hb ] ]; rewrite Hb in Ep; cbn [print_block N.eqb Pos.eqb app] in Ep;
      try (injection Ep as <- _; reflexivity).
    assert (Ho : a_op a <= 6) by (apply N.leb_le; assumption).
    destruct (n0123456 _ Ho) as [ Ho' | [ Ho' | [ Ho' | [ Ho' | [ Ho' | [ Ho' | Ho' ] ] ] ] ] ]; rewrite Ho' in Ep; cbn [print_op N.eqb Pos.eqb app] in Ep;
      try (injection Ep as <- _; reflexivity).
    assert (W : wfcn a) by (constructor; [destruct (a_cat a); auto|assumption]).
    destruct W as [Wc Wn]. unfold print_catname, print_cat in Ep.
    destruct (a_cat a) as [ct|].
    - apply cat_shape in Wc as (a0 & w0 & -> & Ha0 & _). cbn [app] in Ep. injection Ep as <- _. rewrite Ha0. now rewrite !orb_true_r.
    - apply name_shape in Wn as (n0 & nw & En & Hn0 & _). rewrite En in Ep. cbn [app] in Ep. injection Ep as <- _. rewrite Hn0. now rewrite !orb_true_r. }
  cbn [forallb] in Hw. apply andb_true_iff in Hw as [Hw0 _].
  assert (Himp : forall c, (is 33 c || is 60 c || is 61 c || is 62 c || is 126 c || name_head c) = true ->
                 (is 40 c || is 41 c) = false /\ (is 124 c || is 94 c || is 63 c) = false).
  { intros cc Hcc. split; revert cc Hcc; apply impl_bytes_neg; bytes_check. }
  destruct (Himp c0 Hhead) as [A B]. repeat split; assumption.
Qed.

Lemma print_atom_last a : wf_atom true true a = true -> is 63 (last_byte (print_atom a)) = false.
Proof.
  intros Hwf. pose proof Hwf as Hwf0. unfold wf_atom in Hwf.
  apply andb_true_iff in Hwf as [Hwf Hnouse]. apply andb_true_iff in Hwf as [Hwf Huse].
  apply andb_true_iff in Hwf as [Hwf Hrepo]. apply andb_true_iff in Hwf as [Hwf Hslot].
  apply andb_true_iff in Hwf as [Hwf Hver]. apply andb_true_iff in Hwf as [Hwf Hname].
  apply andb_true_iff in Hwf as [Hwf Hcat]. apply andb_true_iff in Hwf as [Hb Ho]. apply N.leb_le in Hb, Ho.
  assert (W : wfcn a) by (constructor; [destruct (a_cat a); auto|exact Hname]).
  assert (Wv : match a_ver a with Some v => wfv v | None => True end).
  { destruct (a_ver a) as [v|]; [|exact I]. apply andb_true_iff in Hver as [Hver _]. apply andb_true_iff in Hver as [Hver _].
    now apply wf_version_wfv. }
  unfold print_atom. destruct (a_use a) as [|u us] eqn:Eu.
  - cbn [print_use]. rewrite app_nil_r. apply last_byte_noq.
    + destruct (print_atom_head a Hwf0) as (c0 & t & Ep & _). unfold print_atom in Ep. rewrite Eu in Ep. cbn [print_use] in Ep.
      rewrite app_nil_r in Ep. rewrite Ep. discriminate.
    + rewrite app_assoc. rewrite forallb_app. rewrite print_block_op_noq by assumption. cbn [andb].
      rewrite app_assoc. rewrite forallb_app. rewrite (forallb_impl _ _ _ namever_noq (namever_chars a W Wv)). cbn [andb].
      rewrite forallb_app. rewrite print_slot_noq by assumption. cbn [andb]. apply print_repo_noq. destruct (a_repo a); auto.
  - change (print_use (u :: us)) with ((nb 91 :: join (nb 44) (map print_use1 (u :: us))) ++ [nb 93]).
    rewrite !app_assoc. rewrite last_byte_snoc. reflexivity.
Qed.

Lemma get_token_atom a : wf_atom true true a = true -> get_token (print_atom a) = TAtom (print_atom a).
Proof.
  intros Hwf. destruct (print_atom_head a Hwf) as (c0 & t & Ep & H1 & H2 & H3).
  pose proof (print_atom_last a Hwf) as Hl. rewrite Ep in *.
  assert (Hw : forallb not_ws (c0 :: t) = true).
  { pose proof (atom_roundtrip true true a [] Hwf ltac:(discriminate) (or_introl eq_refl)) as E.
    rewrite app_nil_r in E. apply raw_parse_ok in E as (_ & _ & Hw & _). rewrite p_atom_denote in Hw. now rewrite Ep in Hw. }
  pose proof (get_token_classify c0 t [] Hw (or_introl eq_refl)) as E. rewrite app_nil_r in E. rewrite E.
  unfold classify. rewrite H1, H2. cbn [Nat.eqb negb]. rewrite Hl. rewrite andb_false_r. reflexivity.
Qed.

Lemma get_token_use (neg : bool) f : wf_flag f = true ->
  get_token ((if neg then [nb 33] else []) ++ f ++ [nb 63]) = TUse (if neg then 6 else 5) f [].
Proof.
  intros Hf. apply flag_shape in Hf as (c & w & -> & Hc & Hfw).
  assert (Hfn : forall c, is_useflag_char c = true -> not_ws c = true /\ is 33 c = false /\ (is 40 c || is 41 c) = false /\ (is 124 c || is 94 c || is 63 c) = false).
  { intros c0 H0. repeat split; revert c0 H0; [apply impl_bytes|apply impl_bytes_neg|apply impl_bytes_neg|apply impl_bytes_neg]; bytes_check. }
  assert (Hw : forallb not_ws ((c :: w) ++ [nb 63]) = true).
  { rewrite forallb_app. apply andb_true_iff. split; [|reflexivity]. eapply forallb_impl; [|exact Hfw]. intros x Hx. now apply Hfn. }
  cbn [forallb] in Hfw. apply andb_true_iff in Hfw as [Hfc Hfw'].
  destruct (Hfn c Hfc) as (_ & C33 & C4 & C5).
  assert (Hrl : removelast ((c :: w) ++ [nb 63]) = c :: w) by apply removelast_last.
  pose proof (len_snoc_gt1 c w (nb 63)) as Hlen.
  destruct neg; cbn [app].
  - pose proof (get_token_classify (nb 33) (c :: w ++ [nb 63]) [] ltac:(cbn [forallb]; exact Hw) (or_introl eq_refl)) as E.
    rewrite app_nil_r in E. rewrite E. unfold classify. cbn [tl].
    replace (is 40 (nb 33) || is 41 (nb 33)) with false by reflexivity.
    replace (is 124 (nb 33) || is 94 (nb 33) || is 63 (nb 33)) with false by reflexivity. cbn [Nat.eqb negb].
    replace (is 33 (nb 33)) with true by reflexivity. change (c :: w ++ [nb 63]) with ((c :: w) ++ [nb 63]).
    rewrite Hlen. rewrite last_byte_cons by (destruct w; discriminate). rewrite last_byte_snoc.
    replace (is 63 (nb 63)) with true by reflexivity. cbn [andb]. rewrite Hrl. cbn [forallb]. rewrite Hfc, Hfw'. reflexivity.
  - pose proof (get_token_classify c (w ++ [nb 63]) [] Hw (or_introl eq_refl)) as E.
    rewrite app_nil_r in E. change (c :: w ++ [nb 63]) with ((c :: w) ++ [nb 63]) in *. rewrite E. unfold classify.
    rewrite C4, C5. cbn [Nat.eqb negb]. rewrite C33. rewrite Hlen. rewrite last_byte_snoc.
    replace (is 63 (nb 63)) with true by reflexivity. cbn [andb]. rewrite Hrl. cbn [forallb]. rewrite Hfc, Hfw'. reflexivity.
Qed.

(* ---- fuel ---- *)
Lemma mono_dep f f' d s x : decode_dep f d s = ROk x -> (f <= f')%nat -> decode_dep f' d s = ROk x.
Proof.
  intros E Hl. replace f' with ((f' - f) + f)%nat by lia. rewrite decode_dep_mono; [exact E|]. rewrite E. discriminate.
Qed.
Lemma mono_seq f f' d s x : decode_seq f d s = ROk x -> (f <= f')%nat -> decode_seq f' d s = ROk x.
Proof.
  intros E Hl. replace f' with ((f' - f) + f)%nat by lia. rewrite decode_seq_mono; [exact E|]. rewrite E. discriminate.
Qed.

(* ---- the induction ---- *)
Definition item_ok (t : dast) : Prop := forall d s rest, wtoks s = print_toks t ++ rest ->
  exists f r, decode_dep f d s = ROk (Some (denote_dast t), r) /\ wtoks r = rest /\ bnd r.

Lemma first_token s t rest : wtoks s = t :: rest ->
  exists r1, drop_ws s = t ++ r1 /\ t <> [] /\ forallb not_ws t = true /\ bnd r1 /\ wtoks r1 = rest /\
             get_token s = retarget (get_token t) r1 (t ++ r1).
Proof.
  intros H. destruct (get_token_split s) as [(_ & _ & Hw0)|(tok & r1 & Ed & Hne & Hw & Hb & Ht & Hg)].
  - rewrite Hw0 in H. discriminate.
  - rewrite Ht in H. injection H as -> <-. exists r1. repeat split; auto.
Qed.

Lemma seq_ok l : Forall item_ok l -> forall d s rest, wtoks s = flat_map print_toks l ++ bs ")" :: rest ->
  exists f r, decode_seq f (S d) s = ROk (map denote_dast l, r) /\ wtoks r = rest /\ bnd r.
Proof.
  induction l as [|x l IH]; intros HF d s rest Hs.
  - cbn [flat_map app] in Hs. apply first_token in Hs as (r1 & _ & _ & _ & Hb & Hw & Hg).
    exists 2%nat, r1. repeat split; auto. rewrite decode_seq_S. unfold seq_step. rewrite decode_dep_S. unfold dep_step.
    rewrite Hg. reflexivity.
  - inversion HF as [|? ? Hx HF']; subst. cbn [flat_map] in Hs. rewrite <- app_assoc in Hs.
    destruct (Hx (S d) s _ Hs) as (f1 & r1 & E1 & Hw1 & Hb1).
    destruct (IH HF' d r1 rest Hw1) as (f2 & r & E2 & Hw2 & Hb2).
    exists (S (Nat.max f1 f2)), r. repeat split; auto. rewrite decode_seq_S. unfold seq_step.
    rewrite (mono_dep _ (Nat.max f1 f2) _ _ _ E1) by lia. rewrite (mono_seq _ (Nat.max f1 f2) _ _ _ E2) by lia. reflexivity.
Qed.

Lemma seq_top l : Forall item_ok l -> forall s, wtoks s = flat_map print_toks l ->
  exists f r, decode_seq f O s = ROk (map denote_dast l, r).
Proof.
  induction l as [|x l IH]; intros HF s Hs.
  - cbn [flat_map] in Hs. exists 2%nat, []. rewrite decode_seq_S. unfold seq_step. rewrite decode_dep_S. unfold dep_step.
    destruct (get_token_split s) as [(_ & -> & _)|(tok & r1 & _ & _ & _ & _ & Ht & _)]; [reflexivity|].
    rewrite Ht in Hs. discriminate.
  - inversion HF as [|? ? Hx HF']; subst. cbn [flat_map] in Hs.
    destruct (Hx O s _ Hs) as (f1 & r1 & E1 & Hw1 & Hb1).
    destruct (IH HF' r1 Hw1) as (f2 & r & E2).
    exists (S (Nat.max f1 f2)), r. rewrite decode_seq_S. unfold seq_step.
    rewrite (mono_dep _ (Nat.max f1 f2) _ _ _ E1) by lia. rewrite (mono_seq _ (Nat.max f1 f2) _ _ _ E2) by lia. reflexivity.
Qed.

Lemma open_ok l : Forall item_ok l -> forall d s rest, wtoks s = bs "(" :: flat_map print_toks l ++ bs ")" :: rest ->
  exists f r, decode_dep f d s = ROk (Some (DGroup 1 [] (map denote_dast l)), r) /\ wtoks r = rest /\ bnd r.
Proof.
  intros HF d s rest Hs. apply first_token in Hs as (r1 & _ & _ & _ & Hb & Hw & Hg).
  destruct (seq_ok l HF d r1 rest Hw) as (f & r & E & Hwr & Hbr).
  exists (S f), r. repeat split; auto. rewrite decode_dep_S. unfold dep_step. rewrite Hg.
  change (get_token (bs "(")) with (TOpen []). cbn [retarget]. rewrite E. reflexivity.
Qed.

Lemma forall_item l : Forall (fun t => wf_dast t = true -> item_ok t) l -> forallb wf_dast l = true -> Forall item_ok l.
Proof.
  induction l as [|x l IH]; intros HF Hw; [constructor|]. inversion HF; subst. cbn in Hw. apply andb_true_iff in Hw as [Hx Hl].
  constructor; auto.
Qed.

Lemma item_all : forall t, wf_dast t = true -> item_ok t.
Proof.
  apply (dast_ind2 (fun t => wf_dast t = true -> item_ok t)).
  - (* atom *) intros a Hwf d s rest Hs. cbn [wf_dast] in Hwf. cbn [print_toks app] in Hs.
    apply first_token in Hs as (r1 & _ & _ & _ & Hb & Hw & Hg).
    exists 1%nat, r1. repeat split; auto. rewrite decode_dep_S. unfold dep_step. rewrite Hg.
    rewrite get_token_atom by assumption. cbn [retarget].
    rewrite (atom_roundtrip true true a r1 Hwf ltac:(discriminate) Hb).
    assert (E : not_ws (peek r1) = false). { destruct Hb as [ -> | H ]; [reflexivity|]. unfold not_ws. now rewrite H. }
    rewrite E. reflexivity.
  - (* group *) intros k f l IH Hwf d s rest Hs. cbn [wf_dast] in Hwf.
    apply andb_true_iff in Hwf as [Hwf Hl]. apply andb_true_iff in Hwf as [Hk Hf]. apply andb_true_iff in Hk as [Hk1 Hk6].
    pose proof (forall_item l IH Hl) as HF. cbn [print_toks denote_dast] in *.
    assert (Hc : k = 1 \/ k = 2 \/ k = 3 \/ k = 4 \/ k = 5 \/ k = 6) by lia.
    destruct Hc as [ -> | [ -> | [ -> | [ -> | [ -> | -> ] ] ] ] ]; cbn [group_tok N.eqb Pos.eqb orb app] in *;
      rewrite <- ?app_assoc in Hs; cbn [app] in Hs.
    + destruct f; [|discriminate]. now apply open_ok.
    + destruct f; [|discriminate]. apply first_token in Hs as (r1 & _ & _ & _ & Hb & Hw & Hg).
      destruct (open_ok l HF d r1 rest Hw) as (f0 & r & E & Hwr & Hbr). exists (S f0), r. repeat split; auto.
      rewrite decode_dep_S. unfold dep_step. rewrite Hg. change (get_token (bs "||")) with (TGroup 2 []). cbn [retarget]. rewrite E. reflexivity.
    + destruct f; [|discriminate]. apply first_token in Hs as (r1 & _ & _ & _ & Hb & Hw & Hg).
      destruct (open_ok l HF d r1 rest Hw) as (f0 & r & E & Hwr & Hbr). exists (S f0), r. repeat split; auto.
      rewrite decode_dep_S. unfold dep_step. rewrite Hg. change (get_token (bs "^^")) with (TGroup 3 []). cbn [retarget]. rewrite E. reflexivity.
    + destruct f; [|discriminate]. apply first_token in Hs as (r1 & _ & _ & _ & Hb & Hw & Hg).
      destruct (open_ok l HF d r1 rest Hw) as (f0 & r & E & Hwr & Hbr). exists (S f0), r. repeat split; auto.
      rewrite decode_dep_S. unfold dep_step. rewrite Hg. change (get_token (bs "??")) with (TGroup 4 []). cbn [retarget]. rewrite E. reflexivity.
    + apply first_token in Hs as (r1 & _ & _ & _ & Hb & Hw & Hg).
      destruct (open_ok l HF d r1 rest Hw) as (f0 & r & E & Hwr & Hbr). exists (S f0), r. repeat split; auto.
      rewrite decode_dep_S. unfold dep_step. rewrite Hg.
      pose proof (get_token_use false f Hf) as Eu. cbn [app] in Eu. rewrite Eu. cbn [retarget]. rewrite E. reflexivity.
    + apply first_token in Hs as (r1 & _ & _ & _ & Hb & Hw & Hg).
      destruct (open_ok l HF d r1 rest Hw) as (f0 & r & E & Hwr & Hbr). exists (S f0), r. repeat split; auto.
      rewrite decode_dep_S. unfold dep_step. rewrite Hg.
      pose proof (get_token_use true f Hf) as Eu. cbn [app] in Eu. rewrite Eu. cbn [retarget]. rewrite E. reflexivity.
Qed.

(* ---- tokens of well-formed trees contain no white space or control bytes ---- *)
Lemma print_atom_not_ws a : wf_atom true true a = true -> forallb not_ws (print_atom a) = true.
Proof.
  intros Hwf. pose proof (atom_roundtrip true true a [] Hwf ltac:(discriminate) (or_introl eq_refl)) as E.
  rewrite app_nil_r in E. apply raw_parse_ok in E as (_ & _ & Hw & _). now rewrite p_atom_denote in Hw.
Qed.
Lemma flag_not_ws f : wf_flag f = true -> forallb not_ws f = true.
Proof.
  intros Hf. apply flag_shape in Hf as (c & w & -> & _ & Hfw). eapply forallb_impl; [|exact Hfw]. apply impl_bytes. bytes_check.
Qed.
Lemma print_toks_not_ws : forall t, wf_dast t = true -> Forall (fun tok => forallb not_ws tok = true) (print_toks t).
Proof.
  apply (dast_ind2 (fun t => wf_dast t = true -> Forall (fun tok => forallb not_ws tok = true) (print_toks t))).
  - intros a Hwf. cbn [wf_dast print_toks] in *. constructor; [now apply print_atom_not_ws|constructor].
  - intros k f l IH Hwf. cbn [wf_dast] in Hwf.
    apply andb_true_iff in Hwf as [Hwf Hl]. apply andb_true_iff in Hwf as [Hk Hf]. apply andb_true_iff in Hk as [Hk1 Hk6].
    cbn [print_toks]. apply Forall_app. split; [|apply Forall_app; split; [repeat constructor|apply Forall_app; split; [|repeat constructor]]].
    + assert (Hc : k = 1 \/ k = 2 \/ k = 3 \/ k = 4 \/ k = 5 \/ k = 6) by lia.
      destruct Hc as [ -> | [ -> | [ -> | [ -> | [ -> | -> ] ] ] ] ]; cbn [group_tok N.eqb Pos.eqb orb] in *; repeat constructor.
      * rewrite forallb_app. now rewrite flag_not_ws.
      * cbn [forallb]. rewrite forallb_app. now rewrite flag_not_ws.
    + clear Hk1 Hk6 Hf. induction l as [|x l IHl]; [constructor|]. inversion IH; subst. cbn in Hl. apply andb_true_iff in Hl as [Hx Hl].
      cbn [flat_map]. apply Forall_app. split; auto.
Qed.

Lemma toks_acc_cur ws r : forall cur, cur <> [] ->
  exists t rest, toks_acc ws cur r = t :: rest /\ forall c : ascii, In c cur -> In c t.
Proof.
  induction r as [|y r IH]; intros cur Hne.
  - destruct cur as [|x cur]; [congruence|]. exists (rev (x :: cur)), []. split; [reflexivity|]. intros c Hc. now apply in_rev in Hc.
  - cbn [toks_acc]. destruct (ws y).
    + destruct cur as [|x cur]; [congruence|]. exists (rev (x :: cur)), (toks_acc ws [] r). split; [reflexivity|].
      intros c Hc. now apply in_rev in Hc.
    + destruct (IH (y :: cur) ltac:(discriminate)) as (t & rest & E & Hin). exists t, rest. split; [exact E|].
      intros c Hc. apply Hin. now right.
Qed.
Lemma toks_cover ws s : forall cur (c : ascii), In c s -> ws c = false -> exists t, In t (toks_acc ws cur s) /\ In c t.
Proof.
  induction s as [|x r IH]; intros cur c Hin Hc; [destruct Hin|]. cbn [toks_acc]. destruct Hin as [->|Hin].
  - rewrite Hc. destruct (toks_acc_cur ws r (c :: cur) ltac:(discriminate)) as (t & rest & E & Hi).
    exists t. rewrite E. split; [now left|apply Hi; now left].
  - destruct (ws x).
    + destruct cur as [|y cur]; [now apply IH|]. destruct (IH [] c Hin Hc) as (t & Ht & Hct). exists t. split; [now right|exact Hct].
    + now apply IH.
Qed.

Lemma no_ctrl_of_tokens s : Forall (fun tok => forallb not_ws tok = true) (ptokens s) -> existsb ctrl_byte s = false.
Proof.
  intros HF. destruct (existsb ctrl_byte s) eqn:E; [|reflexivity]. exfalso.
  apply existsb_exists in E as (c & Hin & Hc). unfold ctrl_byte in Hc. apply andb_true_iff in Hc as [Hws Hsp].
  apply negb_true_iff in Hsp. unfold ptokens in HF. rewrite fields_toks in HF.
  destruct (toks_cover is_sp s [] c Hin Hsp) as (t & Ht & Hct).
  rewrite Forall_forall in HF. specialize (HF t Ht). rewrite forallb_forall in HF. specialize (HF c Hct).
  unfold not_ws in HF. rewrite Hws in HF. discriminate.
Qed.

(* ---- dep_roundtrip ---- *)
Theorem dep_roundtrip ts s : forallb wf_dast ts = true -> ptokens s = flat_map print_toks ts ->
  decode s = ROk (map denote_dast ts).
Proof.
  intros Hwf Hs.
  assert (HF : Forall item_ok ts).
  { apply forall_item; [|exact Hwf]. apply Forall_forall. intros t _. apply item_all. }
  assert (Hnc : existsb ctrl_byte s = false).
  { apply no_ctrl_of_tokens. rewrite Hs. clear Hs HF. induction ts as [|t ts IH]; [constructor|].
    cbn in Hwf. apply andb_true_iff in Hwf as [Ht Hts]. cbn [flat_map]. apply Forall_app. split; [now apply print_toks_not_ws|now apply IH]. }
  rewrite (ptokens_wtoks s Hnc) in Hs. destruct (seq_top ts HF s Hs) as (f & r & E).
  eapply decode_of_fuel. exact E.
Qed.
