(* Proofs about the command dispatch of cmd/layercake (Model/Dispatch.v): on structured command
   lines the dispatched command is built from the words and the command's own switches only, the
   options are the disjunction of the global switches wherever they stand, and moving a global
   switch from in front of the command word to any position behind it changes nothing. *)
From Coq Require Import List Bool Arith Lia.
From LC Require Import Lib.Bytes Model.Args Model.Layers Model.Dispatch Proofs.ArgsP.
Import ListNotations.
Open Scope N_scope.

Definition o0 : opts := MkO false false false false.

(* assignments to the four global booleans all carry "true" (a switch written as -name) *)
Definition asg_true (a : assign) : bool :=
  negb (existsb (beq (fst a)) common_bools) || beq (snd a) (bs "true").

Definition flags_of (asg : list assign) (o : opts) : opts :=
  MkO (o_v o || has_true asg (bs "v")) (o_p o || has_true asg (bs "p"))
      (o_debug o || has_true asg (bs "debug")) (o_force o || has_true asg (bs "force")).

Lemma apply_assign_true o a : asg_true a = true ->
  apply_assign o a = flags_of [a] o.
Proof.
  destruct a as [n v]. unfold asg_true, apply_assign, flags_of, has_true. cbn [fst snd existsb common_bools].
  intros H.
  destruct (beq n (bs "v")) eqn:Ev.
  { apply beq_true in Ev. subst n. cbn [orb negb] in H. rewrite H.
    destruct o; cbn; f_equal; now rewrite ?orb_true_r, ?orb_false_r. }
  destruct (beq n (bs "p")) eqn:Ep.
  { apply beq_true in Ep. subst n. cbn [orb negb] in H. rewrite H.
    destruct o; cbn; f_equal; now rewrite ?orb_true_r, ?orb_false_r. }
  destruct (beq n (bs "debug")) eqn:Ed.
  { apply beq_true in Ed. subst n. cbn [orb negb] in H. rewrite H.
    destruct o; cbn; f_equal; now rewrite ?orb_true_r, ?orb_false_r. }
  destruct (beq n (bs "force")) eqn:Ef.
  { apply beq_true in Ef. subst n. cbn [orb negb] in H. rewrite H.
    destruct o; cbn; f_equal; now rewrite ?orb_true_r, ?orb_false_r. }
  destruct o; cbn. now rewrite !orb_false_r.
Qed.

Lemma has_true_app a b n : has_true (a ++ b) n = has_true a n || has_true b n.
Proof. unfold has_true. now rewrite existsb_app. Qed.

Lemma flags_of_app a b o : flags_of (a ++ b) o = flags_of b (flags_of a o).
Proof. unfold flags_of. cbn. rewrite !has_true_app, !orb_assoc. reflexivity. Qed.

Lemma fold_flags asg : forall o, forallb asg_true asg = true ->
  fold_left apply_assign asg o = flags_of asg o.
Proof.
  induction asg as [|a asg IH]; intros o H.
  - destruct o; unfold flags_of, has_true; cbn. now rewrite !orb_false_r.
  - cbn [forallb] in H. apply andb_true_iff in H as [Ha H].
    cbn [fold_left]. rewrite IH by exact H. rewrite (apply_assign_true _ _ Ha).
    change (a :: asg) with ([a] ++ asg). now rewrite flags_of_app.
Qed.

(* the disjunction does not care about the order *)
Lemma flags_of_swap a x b o : flags_of (a ++ x ++ b) o = flags_of (x ++ a ++ b) o.
Proof.
  unfold flags_of. rewrite !has_true_app. f_equal.
  - destruct (has_true a (bs "v")), (has_true x (bs "v")); now rewrite ?orb_true_r, ?orb_false_r.
  - destruct (has_true a (bs "p")), (has_true x (bs "p")); now rewrite ?orb_true_r, ?orb_false_r.
  - destruct (has_true a (bs "debug")), (has_true x (bs "debug")); now rewrite ?orb_true_r, ?orb_false_r.
  - destruct (has_true a (bs "force")), (has_true x (bs "force")); now rewrite ?orb_true_r, ?orb_false_r.
Qed.

(* structured tokens only ever assign "true" to a global boolean *)
Lemma pre_ok_asg_true t : pre_ok t = true -> forallb asg_true (tok_asg t) = true.
Proof.
  destruct t as [n|n v|w]; cbn [pre_ok tok_asg forallb]; intros H; [| |reflexivity].
  - unfold asg_true. cbn [fst snd]. rewrite beq_refl. now rewrite orb_true_r.
  - unfold asg_true. cbn [fst snd]. rewrite andb_true_r.
    cbn [existsb] in H. rewrite orb_false_r in H.
    apply orb_true_iff in H as [H|H]; apply beq_true in H; subst n; reflexivity.
Qed.

Lemma local_ok_asg_true locals t : locals_disjoint locals = true -> local_ok locals t = true ->
  forallb asg_true (tok_asg t) = true.
Proof.
  intros Hd. destruct t as [n|n v|w]; cbn [local_ok tok_asg forallb]; intros H; [| |reflexivity].
  - unfold asg_true. cbn [fst snd]. rewrite beq_refl. now rewrite orb_true_r.
  - unfold asg_true. cbn [fst snd]. rewrite andb_true_r.
    destruct (existsb (beq n) common_bools) eqn:E; [|reflexivity].
    exfalso. apply common_bools_lookup in E.
    destruct (fs_lookup locals n) as [[|]|] eqn:L; try discriminate.
    rewrite (locals_disjoint_lookup locals Hd n _ L) in E. discriminate.
Qed.

Lemma forallb_flat_map {A B} (f : B -> bool) (g : A -> list B) l :
  (forall x, In x l -> forallb f (g x) = true) -> forallb f (flat_map g l) = true.
Proof.
  induction l as [|x l IH]; intros H; [reflexivity|].
  cbn [flat_map]. rewrite forallb_app. rewrite H by now left. cbn [andb].
  apply IH. intros y Hy. apply H. now right.
Qed.

Lemma pre_asg_true pre : forallb pre_ok pre = true -> forallb asg_true (toks_asg pre) = true.
Proof.
  intros H. apply forallb_flat_map. intros t Ht. apply pre_ok_asg_true.
  rewrite forallb_forall in H. now apply H.
Qed.

Lemma post_asg_true locals post : locals_disjoint locals = true ->
  forallb (local_ok locals) post = true -> forallb asg_true (toks_asg post) = true.
Proof.
  intros Hd H. apply forallb_flat_map. intros t Ht. apply (local_ok_asg_true locals); [exact Hd|].
  rewrite forallb_forall in H. now apply H.
Qed.

(* ---- what a structured command line dispatches to ---- *)
Theorem dispatch_structured pre cmd post locals lo hi o c :
  forallb pre_ok pre = true ->
  command_info cmd = Some (locals, lo, hi) ->
  forallb (local_ok locals) post = true ->
  dispatch (render_toks pre ++ [cmd] ++ render_toks post) = Some (o, c) ->
  command_of cmd (toks_words post) (toks_asg post) = Some c
  /\ o = flags_of (toks_asg (pre ++ post)) o0.
Proof.
  intros Hpre Hc Hpost Hd. unfold dispatch in Hd.
  destruct (parse_main _) as [|o' c' a l] eqn:E; [discriminate|].
  destruct (structured_run pre cmd post locals lo hi o' c' a l Hpre Hc Hpost E) as (-> & -> & -> & ->).
  destruct (command_of cmd _ _) as [c''|] eqn:Ec; [|discriminate].
  injection Hd as <- <-. split; [reflexivity|].
  destruct (command_info_good _ _ _ _ Hc) as (_ & _ & Hdis & _).
  apply fold_flags. rewrite toks_asg_app, forallb_app.
  rewrite (pre_asg_true _ Hpre), (post_asg_true _ _ Hdis Hpost). reflexivity.
Qed.

(* the command reached does not depend on the global switches among the command's tokens *)
Lemma filter_rev_skip (l1 l2 : list assign) sw v n : beq sw n = false ->
  filter (fun a => beq (fst a) n) (rev (l1 ++ (sw, v) :: l2))
  = filter (fun a => beq (fst a) n) (rev (l1 ++ l2)).
Proof.
  intros H. rewrite !rev_app_distr. cbn [rev]. rewrite !filter_app. cbn [filter fst]. rewrite H.
  now rewrite app_nil_r.
Qed.

Lemma local_bool_skip l1 l2 sw v n : beq sw n = false ->
  local_bool (l1 ++ (sw, v) :: l2) n = local_bool (l1 ++ l2) n.
Proof. intros H. unfold local_bool. now rewrite (filter_rev_skip _ _ _ _ _ H). Qed.
Lemma local_str_skip l1 l2 sw v n : beq sw n = false ->
  local_str (l1 ++ (sw, v) :: l2) n = local_str (l1 ++ l2) n.
Proof. intros H. unfold local_str. now rewrite (filter_rev_skip _ _ _ _ _ H). Qed.

Lemma common_not_local sw : In sw common_bools ->
  beq sw (bs "configfile") = false /\ beq sw (bs "files") = false /\ beq sw (bs "all") = false.
Proof.
  intros H. cbn [In common_bools] in H.
  destruct H as [<-|[<-|[<-|[<-|[]]]]]; repeat split; reflexivity.
Qed.

Theorem command_of_ignores_global cmd args l1 l2 sw v : In sw common_bools ->
  command_of cmd args (l1 ++ (sw, v) :: l2) = command_of cmd args (l1 ++ l2).
Proof.
  intros H. destruct (common_not_local sw H) as (Hc & Hf & Ha).
  unfold command_of.
  rewrite (local_str_skip _ _ _ _ _ Hc), (local_bool_skip _ _ _ _ _ Hf), (local_bool_skip _ _ _ _ _ Ha).
  reflexivity.
Qed.

(* ---- "global options may be specified anywhere in the command line" ----
   a global switch written in front of the command word and the same switch written at any
   position among the command's words and switches dispatch to the same command under the same
   options *)
Theorem dispatch_switch_anywhere pre cmd post1 post2 locals lo hi sw o1 c1 o2 c2 :
  forallb pre_ok pre = true ->
  command_info cmd = Some (locals, lo, hi) ->
  forallb (local_ok locals) (post1 ++ post2) = true ->
  In sw common_bools ->
  dispatch (render_toks (pre ++ [TBool sw]) ++ [cmd] ++ render_toks (post1 ++ post2)) = Some (o1, c1) ->
  dispatch (render_toks pre ++ [cmd] ++ render_toks (post1 ++ TBool sw :: post2)) = Some (o2, c2) ->
  c1 = c2 /\ o1 = o2.
Proof.
  intros Hpre Hc Hpost Hsw H1 H2.
  assert (Hsw' : existsb (beq sw) common_bools = true).
  { apply existsb_exists. exists sw. split; [exact Hsw|apply beq_refl]. }
  assert (Hpre1 : forallb pre_ok (pre ++ [TBool sw]) = true).
  { rewrite forallb_app, Hpre. cbn [forallb pre_ok]. now rewrite Hsw'. }
  assert (Hpost2 : forallb (local_ok locals) (post1 ++ TBool sw :: post2) = true).
  { rewrite forallb_app in *. apply andb_true_iff in Hpost as [Ha Hb]. rewrite Ha.
    cbn [forallb local_ok]. rewrite Hsw'. cbn [orb andb]. exact Hb. }
  destruct (dispatch_structured _ _ _ _ _ _ _ _ Hpre1 Hc Hpost H1) as [E1 ->].
  destruct (dispatch_structured _ _ _ _ _ _ _ _ Hpre Hc Hpost2 H2) as [E2 ->].
  split.
  - rewrite !toks_words_app in *. cbn [toks_words flat_map tok_words app] in E2.
    rewrite !toks_asg_app in *. cbn [toks_asg flat_map tok_asg app] in E2.
    fold (toks_asg post2) in E2. fold (toks_words post2) in E2.
    rewrite (command_of_ignores_global _ _ _ _ _ _ Hsw) in E2.
    enough (Some c1 = Some c2) by congruence. rewrite <- E1, <- E2. reflexivity.
  - unfold flags_of.
    assert (Hh : forall n, has_true (toks_asg ((pre ++ [TBool sw]) ++ post1 ++ post2)) n
                           = has_true (toks_asg (pre ++ post1 ++ TBool sw :: post2)) n).
    { intros n. change (TBool sw :: post2) with ([TBool sw] ++ post2).
      rewrite !toks_asg_app, !has_true_app.
      destruct (has_true (toks_asg pre) n), (has_true (toks_asg [TBool sw]) n),
               (has_true (toks_asg post1) n), (has_true (toks_asg post2) n); reflexivity. }
    now rewrite !Hh.
Qed.

(* a switch that is not on the command line is off, one that is there is on *)
Theorem dispatch_options pre cmd post locals lo hi o c :
  forallb pre_ok pre = true ->
  command_info cmd = Some (locals, lo, hi) ->
  forallb (local_ok locals) post = true ->
  dispatch (render_toks pre ++ [cmd] ++ render_toks post) = Some (o, c) ->
  o_p o = has_true (toks_asg (pre ++ post)) (bs "p")
  /\ o_force o = has_true (toks_asg (pre ++ post)) (bs "force")
  /\ o_v o = has_true (toks_asg (pre ++ post)) (bs "v").
Proof.
  intros Hpre Hc Hpost H.
  destruct (dispatch_structured _ _ _ _ _ _ _ _ Hpre Hc Hpost H) as [_ ->].
  unfold flags_of, o0. cbn. repeat split.
Qed.

(* `remove <layer>` without -files dispatches to the gentle removal whatever global switches
   are given (in particular -force): satisfiability example of the hypotheses included *)
Theorem dispatch_remove_gentle pre post locals lo hi o n fl :
  forallb pre_ok pre = true ->
  command_info (bs "remove") = Some (locals, lo, hi) ->
  forallb (local_ok locals) post = true ->
  dispatch (render_toks pre ++ [bs "remove"] ++ render_toks post) = Some (o, CRemove n fl) ->
  fl = local_bool (toks_asg post) (bs "files").
Proof.
  intros Hpre Hc Hpost H.
  destruct (dispatch_structured _ _ _ _ _ _ _ _ Hpre Hc Hpost H) as [E _].
  unfold command_of in E. cbn in E. now injection E.
Qed.

Example dispatch_example :
  dispatch [bs "-basepath"; bs "/b"; bs "-force"; bs "remove"; bs "old"; bs "-v"]
  = Some (MkO true false false true, CRemove (bs "old") false)
  /\ dispatch [bs "-basepath"; bs "/b"; bs "umount"; bs "-p"; bs "-all"]
     = Some (MkO false true false false, CUmount [] true)
  /\ dispatch [bs "-basepath"; bs "/b"; bs "add"; bs "-configfile"; bs "/c"; bs "new"; bs "old"]
     = Some (o0, CAdd (bs "new") (bs "old") (bs "/c"))
  /\ dispatch [bs "-basepath"; bs "/b"; bs "mount"] = None
  /\ dispatch [bs "-basepath"; bs "/b"; bs "status"; bs "x"] = None.
Proof. vm_compute. repeat split. Qed.
