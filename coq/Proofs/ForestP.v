(* normalizeOrder sorts by the "/"-joined ancestor chain: an ancestor's key is a proper
   prefix of each descendant's key, so ancestors come first and the reversed order visits
   descendants first (C03 -all). *)
From Coq Require Import Sorting.Sorted Sorting.Permutation.
From LC Require Import Lib.Bytes Lib.Lex Lib.Fields Lib.PathM Gen.Consts
  Model.MountInfo Model.FsTree Model.Kernel Model.Layers
  Proofs.KernelP Proofs.ProbeP Cases.LC Cases.C03.
Import LC LCS.

(* ------------------------------------------------------------------ sort keys *)
Lemma sort_key_shape m : forall f l s k, sort_key f m l s = Some k ->
  exists pre, k = pre ++ sl :: s /\ forall s2, sort_key f m l s2 = Some (pre ++ sl :: s2).
Proof.
  induction f as [|f IH]; intros l s k; cbn [sort_key]; [discriminate|].
  destruct (l_base l) as [|a r] eqn:Eb.
  - intros H. injection H as <-. exists []. split; [reflexivity|]. intros s2. reflexivity.
  - destruct (lm_get m (a :: r)) as [p|]; [|discriminate]. intros H.
    destruct (IH p _ k H) as (pre & -> & Hs2). exists (pre ++ sl :: a :: r). split.
    + rewrite <- app_assoc. reflexivity.
    + intros s2. rewrite Hs2. rewrite <- app_assoc. reflexivity.
Qed.

Lemma sort_key_mono m : forall f l s k, sort_key f m l s = Some k ->
  forall g, (f <= g)%nat -> sort_key g m l s = Some k.
Proof.
  induction f as [|f IH]; intros l s k; cbn [sort_key]; [discriminate|].
  intros H g Hg. destruct g as [|g]; [lia|]. cbn [sort_key].
  destruct (l_base l) as [|a r]; [exact H|].
  destruct (lm_get m (a :: r)) as [p|]; [|discriminate]. apply (IH p _ k H). lia.
Qed.

Lemma sort_key_unique m f g l s k1 k2 : sort_key f m l s = Some k1 -> sort_key g m l s = Some k2 -> k1 = k2.
Proof.
  intros H1 H2. pose proof (sort_key_mono m f l s k1 H1 (max f g) (Nat.le_max_l _ _)) as A.
  pose proof (sort_key_mono m g l s k2 H2 (max f g) (Nat.le_max_r _ _)) as B. congruence.
Qed.

(* the key of a proper descendant extends the key of the ancestor by "/..." *)
Lemma descends_key m a : forall g d, descends g m a d = true -> a <> d ->
  forall ly f k, lm_get m d = Some ly -> sort_key f m ly (l_name ly) = Some k ->
  exists lx kx rest f2, lm_get m a = Some lx /\ sort_key f2 m lx (l_name lx) = Some kx /\ k = kx ++ sl :: rest.
Proof.
  induction g as [|g IH]; intros d Hd Hne ly f k Hly Hk; cbn [descends] in Hd.
  - rewrite orb_false_r in Hd. apply beq_true in Hd. contradiction.
  - apply orb_true_iff in Hd as [Hd|Hd]; [apply beq_true in Hd; contradiction|].
    rewrite Hly in Hd. destruct (l_base ly) as [|b1 br] eqn:Eb; [discriminate|].
    destruct f as [|f]; [discriminate|]. cbn [sort_key] in Hk. rewrite Eb in Hk.
    destruct (lm_get m (b1 :: br)) as [p|] eqn:Ep; [|discriminate].
    destruct (lm_get_name _ _ _ Ep) as [Hpn _].
    destruct (sort_key_shape m f p _ k Hk) as (pre & -> & Hs2).
    assert (Hkp : sort_key f m p (l_name p) = Some (pre ++ sl :: l_name p)) by apply Hs2.
    destruct (list_eq_dec ascii_dec a (b1 :: br)) as [E|E].
    + exists p, (pre ++ sl :: l_name p), (l_name ly), f. rewrite E. split; [exact Ep|]. split; [exact Hkp|].
      rewrite Hpn. rewrite <- app_assoc. reflexivity.
    + destruct (IH (b1 :: br) Hd E p f _ Ep Hkp) as (lx & kx & rest & f2 & A & B & C).
      exists lx, kx, (rest ++ sl :: l_name ly), f2. split; [exact A|]. split; [exact B|].
      rewrite <- Hpn.
      transitivity ((pre ++ sl :: l_name p) ++ sl :: l_name ly); [rewrite <- app_assoc; reflexivity|].
      rewrite C, <- app_assoc. reflexivity.
Qed.

(* ------------------------------------------------------------------ the sorted order *)
Lemma keyed_insert_in x l z : In z (keyed_insert x l) <-> z = x \/ In z l.
Proof. induction l as [|y r IH]; cbn; [intuition congruence|]. destruct (ltb (fst y) (fst x)); cbn; rewrite ?IH; intuition congruence. Qed.

Definition kle (p q : bytes * bytes) : Prop := ltb (fst q) (fst p) = false.

Lemma keyed_insert_sorted x l : StronglySorted kle l -> StronglySorted kle (keyed_insert x l).
Proof.
  induction 1 as [|y r HS IH HF]; cbn; [repeat constructor|].
  destruct (ltb (fst y) (fst x)) eqn:E.
  - constructor; auto. apply Forall_forall. intros z Hz. apply keyed_insert_in in Hz as [->|Hz].
    + unfold kle. destruct (ltb (fst x) (fst y)) eqn:E2; auto.
      pose proof (ltb_trans _ _ _ E E2) as C. now rewrite ltb_irrefl in C.
    + rewrite Forall_forall in HF. auto.
  - constructor; [constructor; auto|]. constructor; [exact E|].
    rewrite Forall_forall in HF |- *. intros z Hz. specialize (HF z Hz). unfold kle in *.
    destruct (ltb (fst z) (fst x)) eqn:E2; auto.
    destruct (ltb (fst x) (fst y)) eqn:E3.
    + pose proof (ltb_trans _ _ _ E2 E3) as C. congruence.
    + assert (fst x = fst y) by (apply ltb_total; auto). congruence.
Qed.
Lemma keyed_sort_sorted l : StronglySorted kle (fold_right keyed_insert [] l).
Proof. induction l; cbn; [constructor|]. now apply keyed_insert_sorted. Qed.

Lemma strongly_sorted_map {A B} (R : A -> A -> Prop) (R' : B -> B -> Prop) (g : A -> B) l :
  StronglySorted R l -> (forall a b0, In a l -> In b0 l -> R a b0 -> R' (g a) (g b0)) ->
  StronglySorted R' (map g l).
Proof.
  induction 1 as [|x l HS IH HF]; intros H; cbn; [constructor|]. constructor.
  - apply IH. intros a b0 Ha Hb. apply H; now right.
  - rewrite Forall_forall in *. intros y Hy. apply in_map_iff in Hy as (z & <- & Hz).
    apply H; [now left|now right|now apply HF].
Qed.

Lemma strongly_sorted_rev {A} (R : A -> A -> Prop) l :
  StronglySorted (fun a b0 => R b0 a) l -> StronglySorted R (rev l).
Proof.
  induction 1 as [|x l HS IH HF]; cbn; [constructor|].
  assert (G : forall m0, StronglySorted R m0 -> Forall (fun y => R y x) m0 -> StronglySorted R (m0 ++ [x])).
  { clear. induction m0 as [|a m0 IHm]; cbn; intros D F; [repeat constructor|].
    inversion F; inversion D; subst. constructor; [apply IHm; auto|apply Forall_app; split; auto]. }
  apply G; [exact IH|]. rewrite Forall_forall in *. intros y Hy. apply HF. now apply in_rev.
Qed.

(* earlier in the list excludes being a proper ancestor of a later one *)
Definition not_anc (m : lmap) (x y : bytes) : Prop :=
  ~ (x <> y /\ descends (S (length m)) m x y = true).

Lemma kvs_of m : forallb (fun x => match x with Some _ => true | None => false end) (map (key_of m) m) = true ->
  forall kv, In kv (flat_map (fun x => match x with Some kv => [kv] | None => [] end) (map (key_of m) m)) ->
  exists l, In l m /\ snd kv = l_name l /\ sort_key (S (length m)) m l (l_name l) = Some (fst kv).
Proof.
  intros _ kv H. apply in_flat_map in H as (o & Ho & Hkv). apply in_map_iff in Ho as (l & <- & Hl).
  unfold key_of in Hkv. destruct (sort_key (S (length m)) m l (l_name l)) as [k|] eqn:E; [|destruct Hkv].
  destruct Hkv as [<-|[]]. exists l. auto.
Qed.

Theorem order_descendants_first m o : NoDup (map l_name m) -> normalize_order m = Some o ->
  StronglySorted (not_anc m) (rev o).
Proof.
  intros ND. rewrite normalize_order_unfold. destruct (forallb _ _) eqn:E; [|discriminate]. intros H. injection H as <-.
  apply strongly_sorted_rev.
  eapply strongly_sorted_map; [apply keyed_sort_sorted|].
  intros q p Hq Hp Hle [Hne Hd].
  apply (Permutation_in _ (keyed_sort_perm _)) in Hq, Hp.
  destruct (kvs_of m E q Hq) as (ly & Hly & Hqn & Hqk). destruct (kvs_of m E p Hp) as (lx & Hlx & Hpn & Hpk).
  rewrite Hqn, Hpn in *.
  destruct (descends_key m (l_name lx) _ _ Hd Hne ly _ _ (lm_get_in m ly ND Hly) Hqk)
    as (lx' & kx & rest & f2 & A & B & C).
  rewrite (lm_get_in m lx ND Hlx) in A. injection A as <-.
  pose proof (sort_key_unique _ _ _ _ _ _ _ B Hpk) as Ek. subst kx.
  unfold kle in Hle. rewrite C in Hle. rewrite prefix_lt in Hle; discriminate.
Qed.

(* ------------------------------------------------------------------ descendants_first *)
Lemma descendants_first_intro m l : NoDup l -> StronglySorted (not_anc m) l -> C03.descendants_first m l = true.
Proof.
  induction l as [|x r IH]; intros ND HS; cbn [C03.descendants_first]; [reflexivity|].
  inversion ND as [|? ? Hn ND']; subst. inversion HS as [|? ? HS' HF]; subst.
  rewrite IH by assumption. rewrite andb_true_r. apply andb_true_iff. split.
  - apply negb_true_iff. now apply memb_false.
  - apply forallb_forall. intros y Hy. rewrite Forall_forall in HF. specialize (HF y Hy).
    apply negb_true_iff. destruct (beq x y) eqn:E; [reflexivity|]. cbn [negb andb].
    destruct (descends (S (length m)) m x y) eqn:Ed; [|reflexivity]. exfalso. apply HF.
    split; [now apply beq_false|exact Ed].
Qed.

Inductive sublist {A} : list A -> list A -> Prop :=
| sl_nil : sublist [] []
| sl_skip x l1 l2 : sublist l1 l2 -> sublist l1 (x :: l2)
| sl_keep x l1 l2 : sublist l1 l2 -> sublist (x :: l1) (x :: l2).

Lemma sublist_in {A} (l1 l2 : list A) : sublist l1 l2 -> forall x, In x l1 -> In x l2.
Proof. induction 1; intros z Hz; [exact Hz|right; auto|destruct Hz as [<-|Hz]; [now left|right; auto]]. Qed.
Lemma sublist_nodup {A} (l1 l2 : list A) : sublist l1 l2 -> NoDup l2 -> NoDup l1.
Proof.
  induction 1 as [|x l1 l2 HS IH|x l1 l2 HS IH]; intros ND; [constructor| |]; inversion ND; subst; auto.
  constructor; auto. intros Hin. eapply sublist_in in Hin; eauto.
Qed.
Lemma sublist_sorted {A} (R : A -> A -> Prop) (l1 l2 : list A) : sublist l1 l2 -> StronglySorted R l2 -> StronglySorted R l1.
Proof.
  induction 1 as [|x l1 l2 HS IH|x l1 l2 HS IH]; intros H; [constructor| |]; inversion H; subst; auto.
  constructor; auto. rewrite Forall_forall in *. intros y Hy. eapply sublist_in in Hy; eauto.
Qed.
Lemma sublist_refl {A} (l : list A) : sublist l l.
Proof. induction l; [constructor|now apply sl_keep]. Qed.
