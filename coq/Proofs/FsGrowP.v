(* File-tree facts used by C08: os.MkdirAll only ever extends the tree, keeps every directory a
   directory, and leaves every prefix of its argument a directory. *)
From LC Require Import Lib.Bytes Lib.Lex Lib.Fields Lib.PathM Model.Config Model.FsTree
  Proofs.PathP Proofs.StageWildP.

(* ------------------------------------------------------------------ extension of a tree *)
Definition grows (fs fs' : fsT) : Prop :=
  forall p n, fs_get fs p = Some n -> fs_get fs' p = Some n.

Lemma grows_refl fs : grows fs fs.
Proof. intros p n H. exact H. Qed.
Lemma grows_trans a b c : grows a b -> grows b c -> grows a c.
Proof. intros H1 H2 p n H. apply H2, H1, H. Qed.

Lemma fs_get_app_some fs x p n : fs_get fs p = Some n -> fs_get (fs ++ x) p = Some n.
Proof.
  induction fs as [|[q m] r IH]; cbn [fs_get app]; [discriminate|].
  destruct (beq q p); [auto|exact IH].
Qed.
Lemma fs_get_app_none fs x p : fs_get fs p = None -> fs_get (fs ++ x) p = fs_get x p.
Proof.
  induction fs as [|[q m] r IH]; cbn [fs_get app]; [reflexivity|].
  destruct (beq q p); [discriminate|exact IH].
Qed.

Lemma grows_app fs x : grows fs (fs ++ x).
Proof. intros p n H. now apply fs_get_app_some. Qed.

Lemma stat_fuel_grows fs fs' : grows fs fs' -> forall k p x,
  stat_fuel k fs p = Some x -> stat_fuel k fs' p = Some x.
Proof.
  intros G. induction k as [|k IH]; intros p x; cbn [stat_fuel].
  - destruct (fs_get fs p) as [n|] eqn:E; [|discriminate].
    rewrite (G _ _ E). destruct n; auto.
  - destruct (fs_get fs p) as [n|] eqn:E; [|discriminate].
    rewrite (G _ _ E). destruct n; auto.
Qed.

Lemma is_dir_grows fs fs' p : grows fs fs' -> is_dir fs p = true -> is_dir fs' p = true.
Proof.
  intros G. unfold is_dir, stat. destruct (stat_fuel 8 fs p) as [[| |]|] eqn:E; try discriminate.
  intros _. now rewrite (stat_fuel_grows _ _ G _ _ _ E).
Qed.
Lemma is_file_grows fs fs' p : grows fs fs' -> is_file fs p = true -> is_file fs' p = true.
Proof.
  intros G. unfold is_file, stat. destruct (stat_fuel 8 fs p) as [[| |]|] eqn:E; try discriminate.
  intros _. now rewrite (stat_fuel_grows _ _ G _ _ _ E).
Qed.
Lemma exists_grows fs fs' p : grows fs fs' -> exists_ fs p = true -> exists_ fs' p = true.
Proof.
  intros G. unfold exists_, lstat. destruct (fs_get fs p) as [n|] eqn:E; [|discriminate].
  intros _. now rewrite (G _ _ E).
Qed.

(* ------------------------------------------------------------------ MkdirAll *)
Lemma mkdir_prefixes_grows ps : forall fs fs', mkdir_prefixes fs ps = FOk fs' -> grows fs fs'.
Proof.
  induction ps as [|q r IH]; intros fs fs'; cbn [mkdir_prefixes].
  - intros H. injection H as <-. apply grows_refl.
  - destruct (stat fs q) as [[| |]|]; try discriminate.
    + apply IH.
    + destruct (lstat fs q); [discriminate|]. intros H.
      eapply grows_trans; [apply grows_app|apply IH, H].
Qed.

Lemma is_dir_appended fs q : lstat fs q = None -> is_dir (fs ++ [(q, Dir)]) q = true.
Proof.
  unfold lstat. intros H. unfold is_dir, stat. cbn [stat_fuel].
  rewrite fs_get_app_none by assumption. cbn [fs_get]. now rewrite beq_refl.
Qed.

Lemma mkdir_prefixes_dirs ps : forall fs fs', mkdir_prefixes fs ps = FOk fs' ->
  forall q, In q ps -> is_dir fs' q = true.
Proof.
  induction ps as [|q0 r IH]; intros fs fs' H q Hin; [destruct Hin|].
  cbn [mkdir_prefixes] in H. destruct (stat fs q0) as [[| |]|] eqn:Es; try discriminate.
  - destruct Hin as [<-|Hin]; [|now apply (IH _ _ H)].
    apply (is_dir_grows fs); [now apply (mkdir_prefixes_grows r)|].
    unfold is_dir. now rewrite Es.
  - destruct (lstat fs q0) eqn:El; [discriminate|].
    destruct Hin as [<-|Hin]; [|now apply (IH _ _ H)].
    apply (is_dir_grows (fs ++ [(q0, Dir)])); [now apply (mkdir_prefixes_grows r)|].
    now apply is_dir_appended.
Qed.

Lemma mkdir_all_inv fs p fs' : mkdir_all fs p = FOk fs' ->
  (is_dir fs p = true /\ fs' = fs) \/ (is_dir fs p = false /\ mkdir_prefixes fs (prefixes p) = FOk fs').
Proof.
  unfold mkdir_all. destruct (is_dir fs p); [intros H; injection H as <-; now left|].
  destruct (names_fit p); [|discriminate]. intros H. now right.
Qed.

Lemma mkdir_all_grows fs p fs' : mkdir_all fs p = FOk fs' -> grows fs fs'.
Proof.
  intros H. apply mkdir_all_inv in H as [[_ ->]|[_ H]]; [apply grows_refl|].
  now apply (mkdir_prefixes_grows (prefixes p)).
Qed.

(* ------------------------------------------------------------------ the prefixes of a clean path *)
Lemma clean_rooted_shape p : is_rooted p = true ->
  clean p = [sl] \/ exists cs, cs <> [] /\ Forall plain cs /\ clean p = pth cs.
Proof.
  intros Hr. destruct p as [|a p']; [discriminate|]. rewrite clean_unfold by discriminate.
  pose proof (cstack_nf (a :: p')) as Hnf. rewrite Hr in *. cbn [assemble].
  destruct (cstack (a :: p')) as [|c cs] eqn:E; [left; reflexivity|].
  right. exists (c :: cs). split; [discriminate|]. split; [now apply nf_rooted_plain|].
  unfold pjoin. apply join_pth. discriminate.
Qed.

Lemma prefixes_acc_last cs : forall cur, cs <> [] -> In (cur ++ pth cs) (prefixes_acc cur cs).
Proof.
  induction cs as [|c r IH]; intros cur Hne; [congruence|]. cbn [prefixes_acc].
  destruct r as [|c2 r'].
  - left. rewrite pth_cons. cbn [pth flat_map]. now rewrite app_nil_r.
  - right. rewrite pth_cons.
    replace (cur ++ sl :: c ++ pth (c2 :: r')) with ((cur ++ sl :: c) ++ pth (c2 :: r')).
    + apply IH. discriminate.
    + rewrite <- app_assoc. reflexivity.
Qed.

Lemma prefixes_pth cs : cs <> [] -> Forall plain cs -> prefixes (pth cs) = prefixes_acc [] cs.
Proof.
  intros Hne HP. unfold prefixes. rewrite psplit_pth by auto using plain_noslash.
  cbn [filter beq negb]. now rewrite filter_plain.
Qed.

Lemma in_prefixes_self cs : cs <> [] -> Forall plain cs -> In (pth cs) (prefixes (pth cs)).
Proof.
  intros Hne HP. rewrite prefixes_pth by assumption. apply (prefixes_acc_last cs []). exact Hne.
Qed.

(* MkdirAll of a clean absolute path leaves that path a directory (the root has to be one) *)
Lemma mkdir_all_is_dir fs p fs' : is_rooted p = true ->
  is_dir fs [sl] = true -> mkdir_all fs (clean p) = FOk fs' -> is_dir fs' (clean p) = true.
Proof.
  intros Hr Hroot H. apply mkdir_all_inv in H as [[Hd ->]|[_ H]]; [exact Hd|].
  destruct (clean_rooted_shape p Hr) as [E|(cs & Hne & HP & E)]; rewrite E in *.
  - apply (is_dir_grows fs); [now apply (mkdir_prefixes_grows (prefixes [sl]))|exact Hroot].
  - apply (mkdir_prefixes_dirs _ _ _ H). now apply in_prefixes_self.
Qed.
