(* Facts about the file-tree operations of Model/FsTree.v: where the entries of the result
   come from.  [FJ Phi g]: every regular file (path q, content y) of g satisfies Phi q y. *)
From LC Require Import Lib.Bytes Lib.Lex Lib.Fields Lib.PathM Gen.Consts
  Model.MountInfo Model.FsTree Model.Kernel Model.Layers Proofs.PathP Proofs.PathBaseP Proofs.FsxMonadP.
Close Scope string_scope.
Open Scope list_scope.

(* ------------------------------------------------------------------ association list *)
Lemma fs_get_in g p n : fs_get g p = Some n -> In (p, n) g.
Proof.
  induction g as [|[q m] r IH]; cbn; [discriminate|].
  destruct (beq q p) eqn:E.
  - apply beq_true in E. subst. intros H. injection H as ->. now left.
  - intros H. right. now apply IH.
Qed.
Lemma fs_get_none g p : fs_get g p = None -> forall n, ~ In (p, n) g.
Proof.
  induction g as [|[q m] r IH]; cbn; [intros _ n []|].
  destruct (beq q p) eqn:E; [discriminate|]. intros H n [H1|H1].
  - injection H1 as -> _. rewrite beq_refl in E. discriminate.
  - now apply (IH H n).
Qed.
Lemma in_fs_get g p n : In (p, n) g -> exists m, fs_get g p = Some m.
Proof.
  intros H. destruct (fs_get g p) as [m|] eqn:E; [now exists m|]. exfalso. now apply (fs_get_none g p E n).
Qed.
Lemma fs_get_app_none g0 p rest : fs_get g0 p = None -> fs_get (g0 ++ rest) p = fs_get rest p.
Proof.
  induction g0 as [|[q m] r IH]; cbn; [reflexivity|]. destruct (beq q p); [discriminate|exact IH].
Qed.
Lemma fs_get_app_some g0 p rest n : fs_get g0 p = Some n -> fs_get (g0 ++ rest) p = Some n.
Proof.
  induction g0 as [|[q m] r IH]; cbn; [discriminate|]. destruct (beq q p); [auto|exact IH].
Qed.
Lemma fs_set_app_none g0 p m n rest : fs_get g0 p = None ->
  fs_set (g0 ++ (p, m) :: rest) p n = g0 ++ (p, n) :: rest.
Proof.
  induction g0 as [|[q k] r IH]; cbn.
  - intros _. now rewrite beq_refl.
  - destruct (beq q p); [discriminate|]. intros H. now rewrite IH.
Qed.
Lemma fs_set_in g p n q m : In (q, m) (fs_set g p n) -> In (q, m) g \/ (q = p /\ m = n).
Proof.
  induction g as [|[q0 k] r IH]; cbn.
  - intros [H|[]]. injection H as <- <-. now right.
  - destruct (beq q0 p) eqn:E.
    + apply beq_true in E. subst q0. intros [H|H]; [injection H as <- <-; now right|left; now right].
    + intros [H|H]; [left; now left|]. destruct (IH H) as [H1|H1]; [left; now right|now right].
Qed.

(* ------------------------------------------------------------------ prefixes *)
Lemma skipn_app_exact {A} (a x : list A) : skipn (length a) (a ++ x) = x.
Proof. induction a; cbn; auto. Qed.
Lemma skipn_self {A} (a : list A) : skipn (length a) a = [].
Proof. induction a; cbn; auto. Qed.

Lemma under_shape a q : under a q = true ->
  exists a' r, q = a' ++ sl :: r /\ rel_suffix a q = sl :: r /\ (a' = a \/ (a = root /\ a' = [])).
Proof.
  unfold under, rel_suffix. destruct (beq a root) eqn:Er.
  - apply beq_true in Er. intros H. apply andb_true_iff in H as [H1 H2]. apply negb_true_iff in H2.
    rewrite H2. destruct q as [|ch q']; [discriminate|]. cbn in H1. apply Ascii.eqb_eq in H1. subst ch.
    exists [], q'. auto.
  - intros H. apply prefixb_spec in H as [r ->]. rewrite <- app_assoc. cbn [app].
    exists a, r. rewrite skipn_app_exact. auto.
Qed.
Lemma rel_suffix_self a : rel_suffix a a = [].
Proof. unfold rel_suffix. destruct (beq a root) eqn:E; [reflexivity|apply skipn_self]. Qed.
Lemma at_or_under_cases a q : at_or_under a q = true ->
  (q = a /\ rel_suffix a q = []) \/ (exists a' r, q = a' ++ sl :: r /\ rel_suffix a q = sl :: r /\ (a' = a \/ (a = root /\ a' = []))).
Proof.
  unfold at_or_under. destruct (beq q a) eqn:E.
  - apply beq_true in E. subst. intros _. left. split; [reflexivity|apply rel_suffix_self].
  - cbn [orb]. intros H. right. now apply under_shape.
Qed.

Lemma at_or_under_refl a : at_or_under a a = true.
Proof. unfold at_or_under. now rewrite beq_refl. Qed.

Lemma move_entry_cases a b q n :
  (at_or_under a q = false /\ move_entry a b (q, n) = (q, n))
  \/ (q = a /\ move_entry a b (q, n) = (b, n))
  \/ exists a' r, q = a' ++ sl :: r /\ move_entry a b (q, n) = (b ++ sl :: r, n) /\ (a' = a \/ (a = root /\ a' = [])).
Proof.
  unfold move_entry. cbn [fst snd]. destruct (at_or_under a q) eqn:E; [|now left].
  right. destruct (at_or_under_cases a q E) as [[-> Hr]|(a' & r & -> & Hr & Ha)].
  - left. split; [reflexivity|]. now rewrite Hr, app_nil_r.
  - right. exists a', r. rewrite Hr. auto.
Qed.

Lemma rename_shape g a b g' : rename g a b = FOk g' ->
  (g' = g /\ a = b) \/ exists g'', incl g'' g /\ g' = map (move_entry a b) g''.
Proof.
  unfold rename. destruct (lstat g a) as [na|]; [|discriminate].
  destruct (negb (is_dir g (pathdir b)) || negb (names_fit b)); [discriminate|].
  destruct (at_or_under a b).
  - destruct (beq a b) eqn:Eab; [|discriminate]. apply beq_true in Eab. intros H. injection H as <-. now left.
  - intros H. right.
    assert (F : forall P, incl (filter P g) g) by (intros P x Hx; now apply filter_In in Hx as [? _]).
    destruct (lstat g b) as [[|x|t]|].
    + destruct na; try discriminate. destruct (has_children g b); [discriminate|].
      injection H as <-. eexists. split; [apply F|reflexivity].
    + destruct na; try discriminate; injection H as <-; eexists; (split; [apply F|reflexivity]).
    + destruct na; try discriminate; injection H as <-; eexists; (split; [apply F|reflexivity]).
    + injection H as <-. exists g. split; [apply incl_refl|reflexivity].
Qed.

(* where an entry of the renamed tree comes from *)
Lemma rename_in g a b g' : rename g a b = FOk g' -> forall q' n, In (q', n) g' ->
  exists q, In (q, n) g /\
    (q' = q \/ (q = a /\ q' = b) \/ exists a' r, q = a' ++ sl :: r /\ q' = b ++ sl :: r).
Proof.
  intros H q' n Hin. destruct (rename_shape _ _ _ _ H) as [[-> _]|(g'' & Hinc & ->)].
  - exists q'. auto.
  - apply in_map_iff in Hin as ([q m] & Hm & Hq). apply Hinc in Hq.
    destruct (move_entry_cases a b q m) as [[_ E]|[(-> & E)|(a' & r & -> & E & _)]]; rewrite E in Hm; injection Hm as <- <-.
    + exists q. auto.
    + exists a. auto.
    + exists (a' ++ sl :: r). split; [exact Hq|]. right. right. now exists a', r.
Qed.

Lemma mkdir_prefixes_in ps : forall g g', mkdir_prefixes g ps = FOk g' ->
  forall e, In e g' -> In e g \/ snd e = Dir.
Proof.
  induction ps as [|q r IH]; intros g g' H e He; cbn [mkdir_prefixes] in H.
  - injection H as <-. now left.
  - destruct (stat g q) as [[|x|t]|]; try discriminate.
    + eapply IH; eauto.
    + destruct (lstat g q); [discriminate|]. destruct (IH _ _ H e He) as [H1|H1]; [|now right].
      apply in_app_or in H1 as [H1|[<-|[]]]; [now left|now right].
Qed.

(* ------------------------------------------------------------------ file invariants *)
Section FJ.
Variable Phi : bytes -> bytes -> Prop.
Definition FJ (g : fsT) : Prop := forall q y, In (q, File y) g -> Phi q y.

Lemma FJ_incl g g' : incl g' g -> FJ g -> FJ g'.
Proof. intros Hi H q y Hq. apply H. now apply Hi. Qed.
Lemma FJ_filter P g : FJ g -> FJ (filter P g).
Proof. apply FJ_incl. intros x Hx. now apply filter_In in Hx as [? _]. Qed.
Lemma FJ_app g h : FJ g -> FJ h -> FJ (g ++ h).
Proof. intros H1 H2 q y Hq. apply in_app_or in Hq as [?|?]; auto. Qed.
Lemma FJ_app_l g h : FJ (g ++ h) -> FJ g.
Proof. intros H q y Hq. apply H. apply in_or_app. now left. Qed.

Lemma FJ_mkdir_all g p g' : mkdir_all g p = FOk g' -> FJ g -> FJ g'.
Proof.
  unfold mkdir_all. destruct (is_dir g p); [intros H; now injection H as <-|].
  destruct (names_fit p); [|discriminate].
  intros H HJ q y Hq. destruct (mkdir_prefixes_in _ _ _ H _ Hq) as [H1|H1]; [now apply HJ|discriminate].
Qed.
Lemma FJ_remove_all g p g' : remove_all g p = FOk g' -> FJ g -> FJ g'.
Proof. unfold remove_all. destruct (beq p root); [discriminate|]. intros H. injection H as <-. apply FJ_filter. Qed.
Lemma FJ_symlink g l t g' : symlink g l t = FOk g' -> FJ g -> FJ g'.
Proof.
  unfold symlink. destruct (lstat g l); [discriminate|]. destruct (is_dir g (pathdir l) && names_fit l); [|discriminate].
  intros H HJ. injection H as <-. apply FJ_app; [exact HJ|]. intros q y [H|[]]. discriminate.
Qed.
Lemma FJ_fs_set g p y : FJ g -> Phi p y -> FJ (fs_set g p (File y)).
Proof.
  intros HJ Hp q z Hq. apply fs_set_in in Hq as [Hq|[-> Hq]]; [now apply HJ|]. injection Hq as ->. exact Hp.
Qed.
Lemma FJ_write_text g p c g' : write_text g p c = FOk g' -> (forall y, Phi p y) -> FJ g -> FJ g'.
Proof.
  unfold write_text. intros H Hp HJ. destruct (lstat g p) as [[|old|t]|]; try discriminate.
  - injection H as <-. now apply FJ_fs_set.
  - destruct (is_dir g (pathdir p) && names_fit p); [|discriminate]. injection H as <-.
    apply FJ_app; [exact HJ|]. intros q y [Hq|[]]. injection Hq as <- <-. apply Hp.
Qed.
Lemma FJ_open_trunc g p g' : open_trunc g p = FOk g' -> Phi p [] -> FJ g -> FJ g'.
Proof.
  unfold open_trunc. intros H Hp HJ. destruct (lstat g p) as [[|old|t]|]; try discriminate.
  - injection H as <-. now apply FJ_fs_set.
  - destruct (is_dir g (pathdir p) && names_fit p); [|discriminate]. injection H as <-.
    apply FJ_app; [exact HJ|]. intros q y [Hq|[]]. injection Hq as <- <-. apply Hp.
Qed.
Lemma FJ_append g p c : (forall y, Phi p y) -> FJ g -> FJ (append_file g p c).
Proof.
  unfold append_file. intros Hp HJ. destruct (lstat g p) as [[|old|t]|]; auto. now apply FJ_fs_set.
Qed.

(* a rename keeps the invariant if it is stable under moving below a directory and holds for
   the new name of the renamed file itself *)
Definition move_stable : Prop := forall a' b r y, Phi (a' ++ sl :: r) y -> Phi (b ++ sl :: r) y.
Lemma FJ_rename g a b g' : rename g a b = FOk g' -> move_stable ->
  (forall y, In (a, File y) g -> Phi b y) -> FJ g -> FJ g'.
Proof.
  intros H Hst Hab HJ q' y Hq'. destruct (rename_in _ _ _ _ H _ _ Hq') as (q & Hq & [->|[(-> & ->)|(a' & r & -> & ->)]]).
  - now apply HJ.
  - now apply Hab.
  - eapply Hst. apply HJ. exact Hq.
Qed.

(* the primitives that never create or move a regular file *)
Definition plain_op (o : op) : bool :=
  match o with OOpen _ | ORename _ _ => false | _ => true end.
Lemma FJ_apply_op o (E : fsT -> Prop) : plain_op o = true -> (forall g, FJ g -> E g) ->
  hoare FJ (apply_op o) (fun _ => FJ) E.
Proof.
  intros Ho HE. unfold apply_op.
  eapply h_bind; [apply h_get_fs|]. intros f. eapply h_bind; [apply h_get_ks|]. intros k.
  destruct o; try discriminate Ho.
  - apply h_on_fres; [intros g [Hg _]; auto|]. intros g f' [Hg ->] Hr. eapply FJ_mkdir_all; eauto.
  - apply h_ret. now intros g [Hg _].
  - apply h_ret. now intros g [Hg _].
  - apply h_on_fres; [intros g [Hg _]; auto|]. intros g f' [Hg ->] Hr. eapply FJ_remove_all; eauto.
  - apply h_on_fres; [intros g [Hg _]; auto|]. intros g f' [Hg ->] Hr. eapply FJ_symlink; eauto.
  - destruct (kmount f k src tgt fstype flags data).
    + apply h_put_ks_gen. now intros g [Hg _].
    + apply h_fail. intros g [Hg _]. auto.
  - destruct (kumount k tgt flags).
    + apply h_put_ks_gen. now intros g [Hg _].
    + apply h_fail. intros g [Hg _]. auto.
Qed.
Lemma FJ_do_op e o (E : fsT -> Prop) : plain_op o = true -> (forall g, FJ g -> E g) ->
  hoare FJ (do_op e o) (fun _ => FJ) E.
Proof. intros Ho HE. unfold do_op. apply h_mutate; auto. now apply FJ_apply_op. Qed.

Lemma FJ_fs_write_text e p c (E : fsT -> Prop) : (forall y, Phi p y) -> (forall g, FJ g -> E g) ->
  hoare FJ (fs_write_text e p c) (fun _ => FJ) E.
Proof.
  intros Hp HE. unfold fs_write_text. apply h_mutate; auto.
  eapply h_bind; [apply h_get_fs|]. intros f.
  apply h_on_fres; [intros g [Hg _]; auto|]. intros g f' [Hg ->] Hr. eapply FJ_write_text; eauto.
Qed.
End FJ.

(* removal and rename as primitives that are really executed *)
Lemma h_fs_remove e p (P : fsT -> Prop) (Q : unit -> fsT -> Prop) (E : fsT -> Prop) :
  e_pretend e = false -> (forall g, P g -> E g) ->
  (forall g g', P g -> remove_all g p = FOk g' -> Q tt g') -> hoare P (fs_remove e p) Q E.
Proof.
  intros Hp HE HQ. unfold fs_remove, do_op. apply h_mutate_real; auto. unfold apply_op.
  eapply h_bind; [apply h_get_fs|]. intros f. eapply h_bind; [apply h_get_ks|]. intros k.
  apply h_on_fres; [now intros g [Hg _]; auto|]. intros g f' [Hg ->] Hr. eapply HQ; eauto.
Qed.
Lemma h_fs_rename e a b (P : fsT -> Prop) (Q : unit -> fsT -> Prop) (E : fsT -> Prop) :
  e_pretend e = false -> (forall g, P g -> E g) ->
  (forall g g', P g -> rename g a b = FOk g' -> Q tt g') -> hoare P (fs_rename e a b) Q E.
Proof.
  intros Hp HE HQ. unfold fs_rename, do_op. apply h_mutate_real; auto. unfold apply_op.
  eapply h_bind; [apply h_get_fs|]. intros f. eapply h_bind; [apply h_get_ks|]. intros k.
  apply h_on_fres; [now intros g [Hg _]; auto|]. intros g f' [Hg ->] Hr. eapply HQ; eauto.
Qed.
