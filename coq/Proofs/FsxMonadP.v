(* A small program logic for the state monad of Model/Layers.v, on predicates over the file
   tree:  hoare P m Q E  says that from every state whose file tree satisfies P, program m
   either returns a with a tree satisfying Q a, or stops (fails, crashes, diverges, panics)
   with a tree satisfying E. *)
From LC Require Import Lib.Bytes Lib.Lex Lib.Fields Lib.PathM Gen.Consts
  Model.MountInfo Model.FsTree Model.Kernel Model.Layers.
Close Scope string_scope.
Open Scope list_scope.

Definition fs_of (s : mst) : fsT := w_fs (s_w s).

Definition hoare {A} (P : fsT -> Prop) (m : M A) (Q : A -> fsT -> Prop) (E : fsT -> Prop) : Prop :=
  forall s, P (fs_of s) ->
    match m s with
    | (Ret a, s') => Q a (fs_of s')
    | (_, s') => E (fs_of s')
    end.

Lemma h_conseq {A} (P P' : fsT -> Prop) (m : M A) (Q Q' : A -> fsT -> Prop) (E E' : fsT -> Prop) :
  hoare P m Q E -> (forall g, P' g -> P g) -> (forall a g, Q a g -> Q' a g) -> (forall g, E g -> E' g) ->
  hoare P' m Q' E'.
Proof.
  intros H HP HQ HE s Hs. specialize (H s (HP _ Hs)). destruct (m s) as [[a| | | |] s']; auto.
Qed.
Lemma h_pre {A} (P P' : fsT -> Prop) (m : M A) (Q : A -> fsT -> Prop) (E : fsT -> Prop) :
  hoare P m Q E -> (forall g, P' g -> P g) -> hoare P' m Q E.
Proof. intros H HP. eapply h_conseq; eauto. Qed.
Lemma h_post {A} (P : fsT -> Prop) (m : M A) (Q Q' : A -> fsT -> Prop) (E : fsT -> Prop) :
  hoare P m Q E -> (forall a g, Q a g -> Q' a g) -> hoare P m Q' E.
Proof. intros H HQ. eapply h_conseq; eauto. Qed.

Lemma h_ret {A} (P : fsT -> Prop) (a : A) (Q : A -> fsT -> Prop) (E : fsT -> Prop) :
  (forall g, P g -> Q a g) -> hoare P (ret a) Q E.
Proof. intros H s Hs. cbn. auto. Qed.
Lemma h_fail {A} (P : fsT -> Prop) (Q : A -> fsT -> Prop) (E : fsT -> Prop) :
  (forall g, P g -> E g) -> hoare P (@fail A) Q E.
Proof. intros H s Hs. cbn. auto. Qed.
Lemma h_diverge {A} (P : fsT -> Prop) (Q : A -> fsT -> Prop) (E : fsT -> Prop) :
  (forall g, P g -> E g) -> hoare P (@diverge A) Q E.
Proof. intros H s Hs. cbn. auto. Qed.
Lemma h_panic {A} (P : fsT -> Prop) (Q : A -> fsT -> Prop) (E : fsT -> Prop) :
  (forall g, P g -> E g) -> hoare P (@panic A) Q E.
Proof. intros H s Hs. cbn. auto. Qed.

Lemma h_bind {A B} (P : fsT -> Prop) (m : M A) (Q : A -> fsT -> Prop) (f : A -> M B) (R : B -> fsT -> Prop) (E : fsT -> Prop) :
  hoare P m Q E -> (forall a, hoare (Q a) (f a) R E) -> hoare P (bind m f) R E.
Proof.
  intros Hm Hf s Hs. unfold bind. specialize (Hm s Hs). destruct (m s) as [[a| | | |] s']; auto.
  apply (Hf a s' Hm).
Qed.

Lemma h_guard (P : fsT -> Prop) (b : bool) (E : fsT -> Prop) :
  (forall g, P g -> E g) -> hoare P (guard b) (fun _ g => P g /\ b = true) E.
Proof. intros H s Hs. unfold guard. destruct b; cbn; auto. Qed.
Lemma h_get_fs (P : fsT -> Prop) (E : fsT -> Prop) : hoare P get_fs (fun f g => P g /\ f = g) E.
Proof. intros s Hs. cbn. auto. Qed.
Lemma h_get_ks (P : fsT -> Prop) (E : fsT -> Prop) : hoare P get_ks (fun _ g => P g) E.
Proof. intros s Hs. cbn. auto. Qed.
Lemma h_put_fs (P : fsT -> Prop) f' (Q : unit -> fsT -> Prop) (E : fsT -> Prop) :
  (forall g, P g -> Q tt f') -> hoare P (put_fs f') Q E.
Proof. intros H s Hs. cbn. eauto. Qed.
Lemma h_put_ks (P : fsT -> Prop) k (E : fsT -> Prop) : hoare P (put_ks k) (fun _ g => P g) E.
Proof. intros s Hs. cbn. auto. Qed.

Lemma h_put_ks_gen (P : fsT -> Prop) k (Q : unit -> fsT -> Prop) (E : fsT -> Prop) :
  (forall g, P g -> Q tt g) -> hoare P (put_ks k) Q E.
Proof. intros H s Hs. cbn. auto. Qed.

Lemma h_get_fs_eq {B} f0 (k : fsT -> M B) (Q : B -> fsT -> Prop) (E : fsT -> Prop) :
  hoare (fun g => g = f0) (k f0) Q E -> hoare (fun g => g = f0) (bind get_fs k) Q E.
Proof.
  intros H s Hs. unfold bind, get_fs. change (w_fs (s_w s)) with (fs_of s). rewrite Hs. apply (H s Hs).
Qed.

(* a mutating primitive: skipped (pretend), refused (fault plan) or applied *)
Lemma h_mutate (P : fsT -> Prop) e o act (Q : unit -> fsT -> Prop) (E : fsT -> Prop) :
  (forall g, P g -> E g) -> (forall g, P g -> Q tt g) -> hoare P act Q E ->
  hoare P (mutate e o act) Q E.
Proof.
  intros HE HQ Hact s Hs. unfold mutate. destruct (e_pretend e); [cbn; auto|].
  set (s1 := MkSt (s_w s) (S (s_n s)) (o :: s_log s)).
  assert (H1 : P (fs_of s1)) by exact Hs.
  destruct (e_fault e) as [|k|k].
  - apply (Hact s1 H1).
  - destruct (Nat.eqb (s_n s) k); [cbn; auto|apply (Hact s1 H1)].
  - destruct (Nat.eqb (s_n s) k); [cbn; auto|apply (Hact s1 H1)].
Qed.
(* the same when the primitive is known not to be skipped *)
Lemma h_mutate_real (P : fsT -> Prop) e o act (Q : unit -> fsT -> Prop) (E : fsT -> Prop) :
  e_pretend e = false -> (forall g, P g -> E g) -> hoare P act Q E ->
  hoare P (mutate e o act) Q E.
Proof.
  intros Hp HE Hact s Hs. unfold mutate. rewrite Hp.
  set (s1 := MkSt (s_w s) (S (s_n s)) (o :: s_log s)).
  assert (H1 : P (fs_of s1)) by exact Hs.
  destruct (e_fault e) as [|k|k].
  - apply (Hact s1 H1).
  - destruct (Nat.eqb (s_n s) k); [cbn; auto|apply (Hact s1 H1)].
  - destruct (Nat.eqb (s_n s) k); [cbn; auto|apply (Hact s1 H1)].
Qed.

(* file-tree transformers as used by apply_op *)
Lemma h_on_fres (P : fsT -> Prop) (r : fres) (Q : unit -> fsT -> Prop) (E : fsT -> Prop) :
  (forall g, P g -> E g) -> (forall g f', P g -> r = FOk f' -> Q tt f') ->
  hoare P (match r with FOk f' => put_fs f' | FErr => fail end) Q E.
Proof.
  intros HE HQ. destruct r as [f'|]; [|now apply h_fail].
  apply h_put_fs. intros g Hg. eapply HQ; eauto.
Qed.

(* a pure fact carried in the precondition *)
Lemma h_pure {A} (I : fsT -> Prop) (R : Prop) (m : M A) (Q : A -> fsT -> Prop) (E : fsT -> Prop) :
  (R -> hoare I m Q E) -> hoare (fun g => I g /\ R) m Q E.
Proof. intros H s [Hs Hr]. apply (H Hr s Hs). Qed.
Lemma h_pure_l {A} (I : fsT -> Prop) (R : Prop) (m : M A) (Q : A -> fsT -> Prop) (E : fsT -> Prop) :
  (R -> hoare I m Q E) -> hoare (fun g => R /\ I g) m Q E.
Proof. intros H s [Hr Hs]. apply (H Hr s Hs). Qed.

Lemma h_ex {A X} (P : X -> fsT -> Prop) (m : M A) (Q : A -> fsT -> Prop) (E : fsT -> Prop) :
  (forall x, hoare (P x) m Q E) -> hoare (fun g => exists x, P x g) m Q E.
Proof. intros H s [x Hs]. apply (H x s Hs). Qed.

Lemma h_mapM {A} (I : fsT -> Prop) (E : fsT -> Prop) (f : A -> M unit) (l : list A) :
  (forall x, In x l -> hoare I (f x) (fun _ => I) E) -> hoare I (mapM_ f l) (fun _ => I) E.
Proof.
  induction l as [|x r IH]; intros H; cbn [mapM_].
  - apply h_ret. auto.
  - eapply h_bind; [apply H; now left|]. intros u. apply IH. intros y Hy. apply H. now right.
Qed.

Lemma h_foldM {A} (I : fsT -> Prop) (R : ldefs -> Prop) (E : fsT -> Prop)
  (f : ldefs -> A -> M ldefs) (l : list A) :
  (forall ld x, In x l -> R ld -> hoare I (f ld x) (fun ld' g => I g /\ R ld') E) ->
  forall ld, R ld -> hoare I (foldM f l ld) (fun ld' g => I g /\ R ld') E.
Proof.
  induction l as [|x r IH]; intros H ld Hld; cbn [foldM].
  - apply h_ret. auto.
  - eapply h_bind; [apply H; [now left|exact Hld]|]. intros ld'.
    apply h_pure. intros Hr. apply IH; [|exact Hr]. intros ld0 y Hy. apply H. now right.
Qed.

(* running a program from a state: the triple instantiated *)
Lemma hoare_run {A} (P : fsT -> Prop) (m : M A) (Q : A -> fsT -> Prop) (E : fsT -> Prop) s :
  hoare P m Q E -> P (fs_of s) ->
  match m s with (Ret a, s') => Q a (fs_of s') | (_, s') => E (fs_of s') end.
Proof. intros H Hs. apply (H s Hs). Qed.

(* ------------------------------------------------------------------ invariant preservation *)
Definition pres {A} (I E : fsT -> Prop) (m : M A) : Prop := hoare I m (fun _ => I) E.

Section Pres.
Variables I E : fsT -> Prop.
Hypothesis HE : forall g, I g -> E g.

Lemma p_ret {A} (a : A) : pres I E (ret a).
Proof. apply h_ret. auto. Qed.
Lemma p_fail {A} : pres I E (@fail A).
Proof. apply h_fail. auto. Qed.
Lemma p_diverge {A} : pres I E (@diverge A).
Proof. apply h_diverge. auto. Qed.
Lemma p_panic {A} : pres I E (@panic A).
Proof. apply h_panic. auto. Qed.
Lemma p_bind {A B} (m : M A) (f : A -> M B) : pres I E m -> (forall a, pres I E (f a)) -> pres I E (bind m f).
Proof. intros Hm Hf. eapply h_bind; [exact Hm|]. exact Hf. Qed.
Lemma p_guard b : pres I E (guard b).
Proof. unfold guard. destruct b; [apply p_ret|apply p_fail]. Qed.
Lemma p_get_fs : pres I E get_fs.
Proof. intros s Hs. cbn. exact Hs. Qed.
Lemma p_get_ks : pres I E get_ks.
Proof. intros s Hs. cbn. exact Hs. Qed.
Lemma p_put_ks k : pres I E (put_ks k).
Proof. intros s Hs. cbn. exact Hs. Qed.
Lemma p_mapM {A} (f : A -> M unit) (l : list A) : (forall x, In x l -> pres I E (f x)) -> pres I E (mapM_ f l).
Proof. apply h_mapM. Qed.
Lemma p_foldM {A} (f : ldefs -> A -> M ldefs) (l : list A) :
  (forall ld x, In x l -> pres I E (f ld x)) -> forall ld, pres I E (foldM f l ld).
Proof.
  induction l as [|x r IH]; intros H ld; cbn [foldM]; [apply p_ret|].
  apply p_bind; [apply H; now left|]. intros ld'. apply IH. intros ld0 y Hy. apply H. now right.
Qed.
Lemma h_guard_then {A} (P : fsT -> Prop) b (m : M A) (Q : A -> fsT -> Prop) :
  (forall g, P g -> E g) -> (b = true -> hoare P m Q E) -> hoare P (bind (guard b) (fun _ => m)) Q E.
Proof.
  intros HPE H s Hs. unfold bind, guard. destruct b; cbn.
  - apply (H eq_refl s Hs).
  - auto.
Qed.
Lemma p_guard_then {A} b (m : M A) : (b = true -> pres I E m) -> pres I E (bind (guard b) (fun _ => m)).
Proof. apply h_guard_then. exact HE. Qed.
(* a result-carrying triple is in particular invariant preservation *)
Lemma p_of_hoare {A} (m : M A) (Q : A -> fsT -> Prop) :
  hoare I m Q E -> (forall a g, Q a g -> I g) -> pres I E m.
Proof. intros H HQ. eapply h_post; [exact H|]. exact HQ. Qed.
End Pres.

Ltac pres_step I E HE :=
  first
  [ apply (p_ret I E) | apply (p_fail I E HE) | apply (p_diverge I E HE) | apply (p_panic I E HE)
  | apply (p_guard I E HE) | apply (p_get_fs I E) | apply (p_get_ks I E) | apply (p_put_ks I E)
  | match goal with
    | |- pres _ _ (if ?b then _ else _) => destruct b
    | |- pres _ _ (match ?x with _ => _ end) => destruct x
    | |- pres _ _ (let _ := _ in _) => cbv zeta
    end
  | apply (p_bind I E); [|intros ?] ].
