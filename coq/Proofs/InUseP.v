(* Lemmas about Model/InUse.v: path-boundary tests, isLinkToLayer, the user map,
   the scan as a fold, the classification loop. *)
From LC Require Import Lib.Bytes Lib.Lex Lib.Fields Lib.PathM Model.InUse Cases.C19.
Import C19.

(* ---------------------------------------------------------------- lists *)
Lemma map_flat_map {A B C} (f : A -> list B) (g : B -> C) l :
  map g (flat_map f l) = flat_map (fun x => map g (f x)) l.
Proof. induction l; cbn; [reflexivity|]. now rewrite map_app, IHl. Qed.

Lemma flat_map_ext_in {A B} (f g : A -> list B) l : (forall x, In x l -> f x = g x) -> flat_map f l = flat_map g l.
Proof. induction l; cbn; intros H; [reflexivity|]. rewrite H by now left. f_equal. apply IHl. intros; apply H; now right. Qed.

Lemma flat_map_incl {A B} (f : A -> list B) l l' : incl l l' -> incl (flat_map f l) (flat_map f l').
Proof. intros H x Hx. apply in_flat_map in Hx as (y & Hy & Hx). apply in_flat_map. exists y. auto. Qed.

Lemma flat_map_combine_seq {A B} (f : A -> list B) (l : list A) : forall i,
  flat_map (fun ip : nat * A => f (snd ip)) (combine (seq i (length l)) l) = flat_map f l.
Proof. induction l; intros i; cbn; [reflexivity|]. now rewrite IHl. Qed.

(* ---------------------------------------------------------------- strings *)
Lemma strip_prefix_app p r : strip_prefix p (p ++ r) = Some r.
Proof. induction p as [|x p IH]; cbn; [reflexivity|]. now rewrite Ascii.eqb_refl. Qed.

Lemma strip_prefix_spec p : forall s r, strip_prefix p s = Some r <-> s = p ++ r.
Proof.
  induction p as [|x p IH]; intros s r; cbn.
  - split; [intros H; now injection H as ->|intros ->; reflexivity].
  - destruct s as [|y s]; [split; discriminate|].
    destruct (Ascii.eqb x y) eqn:E.
    + apply Ascii.eqb_eq in E. subst y. rewrite IH. split; [intros ->; reflexivity|intros H; now injection H].
    + split; [discriminate|]. intros H. injection H as -> _. now rewrite Ascii.eqb_refl in E.
Qed.

Lemma strip_prefix_none p s : strip_prefix p s = None <-> forall r, s <> p ++ r.
Proof.
  split.
  - intros H r E. apply strip_prefix_spec in E. congruence.
  - intros H. destruct (strip_prefix p s) as [r|] eqn:E; [|reflexivity].
    apply strip_prefix_spec in E. now apply H in E.
Qed.

Lemma skipn_app_len {A} (p r : list A) : skipn (length p) (p ++ r) = r.
Proof. induction p; cbn; auto. Qed.

Lemma rev_snoc {A} (l : list A) (x : A) : rev (l ++ [x]) = x :: rev l.
Proof. now rewrite rev_app_distr. Qed.

(* SameDirectoryOrDescendant with a prefix that ends in a slash: plain prefix test *)
Lemma sdod_slash d t : sdod t (d ++ [slc]) = Some (match strip_prefix (d ++ [slc]) t with Some _ => true | None => false end).
Proof.
  unfold sdod. rewrite rev_snoc. destruct (strip_prefix _ t); [|reflexivity].
  now rewrite Ascii.eqb_refl.
Qed.

Lemma inside_spec d t tl : inside d t = Some tl <-> (t = d /\ tl = []) \/ t = d ++ slc :: tl.
Proof.
  unfold inside. destruct (strip_prefix d t) as [[|ch rest]|] eqn:E.
  - apply strip_prefix_spec in E. rewrite app_nil_r in E. subst t. split.
    + intros H. injection H as <-. now left.
    + intros [[_ ->]|H]; [reflexivity|]. exfalso.
      apply (f_equal (@length _)) in H. rewrite app_length in H. cbn in H. lia.
  - apply strip_prefix_spec in E. subst t. destruct (Ascii.eqb ch slc) eqn:Ec.
    + apply Ascii.eqb_eq in Ec. subst ch. split.
      * intros H. injection H as <-. now right.
      * intros [[H _]|H].
        -- exfalso. apply (f_equal (@length _)) in H. rewrite app_length in H. cbn in H. lia.
        -- apply app_inv_head in H. now injection H as ->.
    + split; [discriminate|]. intros [[H _]|H].
      * exfalso. apply (f_equal (@length _)) in H. rewrite app_length in H. cbn in H. lia.
      * apply app_inv_head in H. injection H as -> _. now rewrite Ascii.eqb_refl in Ec.
  - split; [discriminate|]. intros [[-> _]| ->].
    + assert (H : strip_prefix d (d ++ []) = Some []) by apply strip_prefix_app.
      rewrite app_nil_r in H. congruence.
    + rewrite strip_prefix_app in E. discriminate.
Qed.

(* SameDirectoryOrDescendant with a non-empty prefix that does not end in a slash *)
Lemma sdod_dir d c t : c <> slc ->
  sdod t (d ++ [c]) = Some (match inside (d ++ [c]) t with Some _ => true | None => false end).
Proof.
  intros Hc. unfold sdod, inside. rewrite rev_snoc. f_equal.
  assert (E : Ascii.eqb c slc = false).
  { destruct (Ascii.eqb c slc) eqn:E; auto. apply Ascii.eqb_eq in E. contradiction. }
  rewrite E. cbn [orb]. destruct (strip_prefix (d ++ [c]) t) as [[|ch rest]|]; auto.
  destruct (Ascii.eqb ch slc); reflexivity.
Qed.

Lemma no_slash_nosep s : no_slash s = true <-> nosep slc s.
Proof. apply nosepb_spec. Qed.

Lemma split2_nosep sep a : nosep sep a -> forall cur, split2_acc sep cur a = (rev cur ++ a, None).
Proof.
  induction a as [|c a IH]; intros Hn cur; cbn.
  - now rewrite app_nil_r.
  - assert (c <> sep) by (intro; subst; apply Hn; now left).
    destruct (Ascii.eqb c sep) eqn:E; [apply Ascii.eqb_eq in E; congruence|].
    rewrite IH by (intro; apply Hn; now right). cbn. now rewrite <- app_assoc.
Qed.

(* every string is slash-free, or a slash-free head, a slash and a rest *)
Lemma split2_cases sep s :
  (nosep sep s /\ split2 sep s = (s, None))
  \/ exists a r, s = a ++ sep :: r /\ nosep sep a /\ split2 sep s = (a, Some r).
Proof.
  unfold split2.
  assert (G : forall s cur, (nosep sep s /\ split2_acc sep cur s = (rev cur ++ s, None))
     \/ exists a r, s = a ++ sep :: r /\ nosep sep a /\ split2_acc sep cur s = (rev cur ++ a, Some r)).
  { clear s. induction s as [|c s IH]; intros cur.
    - left. split; [intros []|]. cbn. now rewrite app_nil_r.
    - cbn. destruct (Ascii.eqb c sep) eqn:E.
      + apply Ascii.eqb_eq in E. subst c. right. exists [], s. cbn. rewrite app_nil_r. repeat split. intros [].
      + assert (c <> sep) by (intro; subst; now rewrite Ascii.eqb_refl in E).
        destruct (IH (c :: cur)) as [[Hn Hs]|(a & r & -> & Hn & Hs)].
        * left. split; [intros [->|Hin]; [congruence|contradiction]|]. rewrite Hs. cbn. now rewrite <- app_assoc.
        * right. exists (c :: a), r. split; [reflexivity|]. split; [intros [->|Hin]; [congruence|contradiction]|].
          rewrite Hs. cbn. now rewrite <- app_assoc. }
  destruct (G s []) as [H|H]; [left|right]; exact H.
Qed.

Lemma app_slc0 (d K : bytes) : d ++ slc :: K = (d ++ [slc]) ++ K.
Proof. now rewrite <- app_assoc. Qed.
Lemma app_slc (d K x : bytes) : (d ++ slc :: K) ++ x = (d ++ [slc]) ++ K ++ x.
Proof. now rewrite <- !app_assoc. Qed.

(* isLinkToLayer against a layers prefix d/ : the link is attributed to the layer K with the
   relative path tl exactly when K is one path component and the target is d/K (tl empty)
   or d/K/tl *)
Theorem link_to_layer_spec d t K tl :
  link_to_layer (d ++ [slc]) t = Some (Some (K, tl))
  <-> no_slash K = true /\ inside (d ++ slc :: K) t = Some tl.
Proof.
  unfold link_to_layer. rewrite sdod_slash.
  destruct (strip_prefix (d ++ [slc]) t) as [rest|] eqn:E.
  - apply strip_prefix_spec in E. subst t. rewrite skipn_app_len.
    assert (Ed : forall x, d ++ slc :: x = (d ++ [slc]) ++ x) by (intros; now rewrite <- app_assoc).
    destruct (split2_cases slc rest) as [[Hn Hs]|(a & r & -> & Hn & Hs)]; rewrite Hs.
    + split.
      * intros H. injection H as <- <-. split; [now apply no_slash_nosep|].
        apply inside_spec. left. split; [symmetry; apply Ed|reflexivity].
      * intros [HK HI]. apply inside_spec in HI as [[HI ->]|HI].
        -- rewrite (Ed K) in HI. apply app_inv_head in HI. now subst.
        -- exfalso. rewrite (app_slc d K (slc :: tl)) in HI. apply app_inv_head in HI. subst rest.
           apply Hn. apply in_or_app. right. now left.
    + split.
      * intros H. injection H as <- <-. split; [now apply no_slash_nosep|].
        apply inside_spec. right. symmetry. apply app_slc.
      * intros [HK HI]. apply no_slash_nosep in HK. apply inside_spec in HI as [[HI ->]|HI].
        -- exfalso. rewrite (Ed K) in HI. apply app_inv_head in HI. subst K.
           apply HK. apply in_or_app. right. now left.
        -- rewrite (app_slc d K (slc :: tl)) in HI. apply app_inv_head in HI.
           (* a ++ / :: r = K ++ / :: tl with a, K slash-free *)
           assert (G : forall (a K : bytes) r tl, nosep slc a -> nosep slc K ->
                       a ++ slc :: r = K ++ slc :: tl -> a = K /\ r = tl).
           { clear. induction a as [|x a IH]; intros [|y K] r tl Ha HK H; cbn in H.
             - injection H as ->. auto.
             - injection H as <- _. exfalso. apply HK. now left.
             - injection H as -> _. exfalso. apply Ha. now left.
             - injection H as -> H. destruct (IH K r tl) as [-> ->]; auto.
               + intros Hin. apply Ha. now right.
               + intros Hin. apply HK. now right. }
           destruct (G a K r tl Hn HK HI) as [-> ->]. reflexivity.
  - split; [discriminate|]. intros [_ HI]. exfalso.
    apply inside_spec in HI as [[HI _]|HI]; subst t.
    + assert (X : strip_prefix (d ++ [slc]) ((d ++ [slc]) ++ K) = Some K) by apply strip_prefix_app.
      rewrite <- (app_slc0 d K) in X. congruence.
    + assert (X : strip_prefix (d ++ [slc]) ((d ++ [slc]) ++ K ++ slc :: tl) = Some (K ++ slc :: tl)) by apply strip_prefix_app.
      rewrite <- (app_slc d K (slc :: tl)) in X. congruence.
Qed.

Lemma link_to_layer_total d t : link_to_layer (d ++ [slc]) t <> None.
Proof.
  unfold link_to_layer. rewrite sdod_slash. destruct (strip_prefix _ t); [|discriminate].
  destruct (split2 _ _) as [n [tl|]]; discriminate.
Qed.

(* a link lies inside at most one layer directory *)
Theorem inside_unique_layer d t K K' a b :
  no_slash K = true -> no_slash K' = true ->
  inside (d ++ slc :: K) t = Some a -> inside (d ++ slc :: K') t = Some b -> K = K' /\ a = b.
Proof.
  intros HK HK' Ha Hb.
  assert (X : link_to_layer (d ++ [slc]) t = Some (Some (K, a))) by (apply link_to_layer_spec; auto).
  assert (Y : link_to_layer (d ++ [slc]) t = Some (Some (K', b))) by (apply link_to_layer_spec; auto).
  rewrite X in Y. now injection Y as -> ->.
Qed.

(* the prefix FindLayerUsers works with *)
Lemma fix_prefix_dir d : (2 <= length d)%nat ->
  match rev d with c :: _ => Ascii.eqb c slc = false | [] => False end ->
  fix_prefix d = d ++ [slc].
Proof.
  unfold fix_prefix. intros Hl Hr. destruct (rev d) as [|c [|c2 r]] eqn:E; [contradiction| |].
  - apply (f_equal (@length _)) in E. rewrite rev_length in E. cbn in E. lia.
  - now rewrite Hr.
Qed.

(* ---------------------------------------------------------------- the user map *)
Lemma get_no_key m k : has_key m k = false -> get m k = [].
Proof.
  induction m as [|[k' us] r IH]; cbn; [reflexivity|]. intros H. apply orb_false_iff in H as [H1 H2].
  rewrite H1. auto.
Qed.

Lemma get_upd_same m k u : has_key m k = true -> get (upd m k u) k = get m k ++ [u].
Proof.
  induction m as [|[k' us] r IH]; cbn; [discriminate|]. intros H.
  destruct (beq k' k) eqn:E; cbn; rewrite E; [reflexivity|]. cbn in H. auto.
Qed.
Lemma get_upd_other m k u k2 : k <> k2 -> get (upd m k u) k2 = get m k2.
Proof.
  intros Hne. induction m as [|[k' us] r IH]; cbn; [reflexivity|].
  destruct (beq k' k) eqn:E; cbn.
  - apply beq_true in E. subst k'. assert (beq k k2 = false) as -> by now apply beq_false. reflexivity.
  - destruct (beq k' k2); auto.
Qed.
Lemma get_ins_same m k u : has_key m k = false -> get (ins m k u) k = [u].
Proof.
  induction m as [|[k' us] r IH]; cbn; intros H.
  - now rewrite beq_refl.
  - apply orb_false_iff in H as [H1 H2]. destruct (ltb k k'); cbn.
    + now rewrite beq_refl.
    + rewrite H1. auto.
Qed.
Lemma get_ins_other m k u k2 : k <> k2 -> get (ins m k u) k2 = get m k2.
Proof.
  intros Hne. induction m as [|[k' us] r IH]; cbn.
  - assert (beq k k2 = false) as -> by now apply beq_false. reflexivity.
  - destruct (ltb k k'); cbn.
    + assert (beq k k2 = false) as -> by now apply beq_false. reflexivity.
    + destruct (beq k' k2); auto.
Qed.

Lemma get_add_same m k u : get (add_user m k u) k = get m k ++ [u].
Proof.
  unfold add_user. destruct (has_key m k) eqn:E.
  - now apply get_upd_same.
  - rewrite get_ins_same, get_no_key by assumption. reflexivity.
Qed.
Lemma get_add_other m k u k2 : k <> k2 -> get (add_user m k u) k2 = get m k2.
Proof. intros H. unfold add_user. destruct (has_key m k); [now apply get_upd_other|now apply get_ins_other]. Qed.

Lemma keys_upd m k u : map fst (upd m k u) = map fst m.
Proof. induction m as [|[k' us] r IH]; cbn; [reflexivity|]. destruct (beq k' k); cbn; congruence. Qed.
Lemma keys_ins m k u k2 : In k2 (map fst (ins m k u)) <-> k2 = k \/ In k2 (map fst m).
Proof.
  induction m as [|[k' us] r IH]; cbn; [intuition|].
  destruct (ltb k k'); cbn; [intuition|]. rewrite IH. intuition.
Qed.
Lemma keys_add m k u k2 : In k2 (map fst (add_user m k u)) -> k2 = k \/ In k2 (map fst m).
Proof.
  unfold add_user. destruct (has_key m k).
  - rewrite keys_upd. auto.
  - apply keys_ins.
Qed.

(* ---------------------------------------------------------------- attributing the reads of one process *)
(* what one read contributes to the key K *)
Definition entry_for (prefix : bytes) (pid : N) (prog : bytes) (K : bytes) (it : N * (bytes + err)) : list user :=
  match snd it with
  | inl t =>
    match link_to_layer prefix t with
    | Some (Some (n, tl)) => if beq n K then [MkUser pid (fst it) prog tl] else []
    | _ => []
    end
  | inr _ => []
  end.
Definition entries prefix pid prog K items := flat_map (entry_for prefix pid prog K) items.

Definition keys_ok (m : umap) : Prop := forall k, In k (map fst m) -> no_slash k = true.

Lemma scan_links_get d pid prog items : forall m, keys_ok m ->
  exists m', scan_links (d ++ [slc]) pid prog items m = Some m'
    /\ keys_ok m'
    /\ forall K, get m' K = get m K ++ entries (d ++ [slc]) pid prog K items.
Proof.
  unfold scan_links. induction items as [|it items IH]; intros m Hk.
  - exists m. cbn. split; [reflexivity|]. split; [assumption|]. intros K. now rewrite app_nil_r.
  - cbn [fold_left]. unfold attribute at 2. destruct it as [k [t|e]]; cbn [snd fst].
    + destruct (link_to_layer (d ++ [slc]) t) as [[[n tl]|]|] eqn:EL.
      * assert (Hn : no_slash n = true) by (apply link_to_layer_spec in EL; tauto).
        destruct (IH (add_user m n (MkUser pid k prog tl))) as (m' & Hm' & Hk' & Hg).
        { intros k2 Hin. apply keys_add in Hin as [->|Hin]; auto. }
        exists m'. split; [exact Hm'|]. split; [exact Hk'|]. intros K. rewrite Hg.
        unfold entries. cbn [flat_map]. unfold entry_for at 2. cbn [snd fst]. rewrite EL.
        destruct (beq n K) eqn:EK.
        -- apply beq_true in EK. subst K. rewrite get_add_same. now rewrite <- app_assoc.
        -- apply beq_false in EK. rewrite get_add_other by assumption. reflexivity.
      * destruct (IH m Hk) as (m' & Hm' & Hk' & Hg). exists m'. split; [exact Hm'|]. split; [exact Hk'|].
        intros K. rewrite Hg. unfold entries. cbn [flat_map]. unfold entry_for at 2. cbn [snd]. now rewrite EL.
      * exfalso. eapply link_to_layer_total; eauto.
    + destruct (IH m Hk) as (m' & Hm' & Hk' & Hg). exists m'. split; [exact Hm'|]. split; [exact Hk'|].
      intros K. rewrite Hg. reflexivity.
Qed.

(* the successful reads among the reads of a process *)
Definition oks (items : list (N * (bytes + err))) : list (N * bytes) :=
  flat_map (fun it => match snd it with inl t => [(fst it, t)] | inr _ => [] end) items.

(* entries, seen from the specification side: for a one-component key K they are exactly the
   successfully read links lying inside d/K, with their relative paths *)
Lemma entries_inside d pid prog K items : no_slash K = true ->
  map (fun u => (u_pid u, u_kind u, u_file u)) (entries (d ++ [slc]) pid prog K items)
  = flat_map (fun kt => match inside (d ++ slc :: K) (snd kt) with
                        | Some tl => [(pid, fst kt, tl)]
                        | None => []
                        end) (oks items).
Proof.
  intros HK. unfold entries, oks. induction items as [|[k [t|e]] items IH]; cbn [flat_map]; [reflexivity| |exact IH].
  rewrite map_app, IH. cbn [app flat_map snd fst]. f_equal.
  unfold entry_for. cbn [snd fst].
  destruct (inside (d ++ slc :: K) t) as [tl|] eqn:EI.
  - assert (X : link_to_layer (d ++ [slc]) t = Some (Some (K, tl))) by (apply link_to_layer_spec; auto).
    rewrite X, beq_refl. reflexivity.
  - destruct (link_to_layer (d ++ [slc]) t) as [[[n tl]|]|] eqn:EL; try reflexivity.
    destruct (beq n K) eqn:EK; [|reflexivity]. apply beq_true in EK. subst n.
    apply link_to_layer_spec in EL as [_ EL]. congruence.
Qed.

(* ---------------------------------------------------------------- reads vs. the truth *)
Lemma read_link_ok f truth missing t : read_link f truth missing = inl t -> truth = Some t.
Proof. unfold read_link, readlink_buf. destruct f; [discriminate|]. destruct truth; [|discriminate]. congruence. Qed.

Lemma readdir_lstat_in {A} (o : nat -> option err) (l : list A) : forall i ents,
  readdir_lstat o i l = Some ents -> forall j x, In (j, x) ents -> (i <= j)%nat /\ nth_error l (j - i) = Some x.
Proof.
  induction l as [|y l IH]; intros i ents H j x Hin; cbn in H.
  - injection H as <-. contradiction.
  - destruct (o i) as [[]|] eqn:E; try discriminate.
    + destruct (IH _ _ H j x Hin) as [Hle Hn]. split; [lia|]. replace (j - i)%nat with (S (j - S i)) by lia. exact Hn.
    + destruct (readdir_lstat o (S i) l) as [e2|] eqn:E2; [|discriminate]. cbn in H. injection H as <-.
      destruct Hin as [Hin|Hin].
      * injection Hin as <- <-. split; [lia|]. now rewrite Nat.sub_diag.
      * destruct (IH _ _ E2 j x Hin) as [Hle Hn]. split; [lia|]. replace (j - i)%nat with (S (j - S i)) by lia. exact Hn.
Qed.

Lemma readdir_lstat_none {A} (o : nat -> option err) (l : list A) : forall i,
  (forall j, o j = None) -> readdir_lstat o i l = Some (combine (seq i (length l)) l).
Proof.
  induction l as [|y l IH]; intros i Ho; cbn; [reflexivity|]. rewrite Ho, IH by assumption. reflexivity.
Qed.

Lemma oks_app a b : oks (a ++ b) = oks a ++ oks b.
Proof. unfold oks. apply flat_map_app. Qed.

Lemma fd_items_sound o p : incl (oks (fd_items o p))
  (match p_fds p with Some fds => flat_map (fun f => opt_link K_open (fd_tgt f)) fds | None => [] end).
Proof.
  unfold fd_items. destruct (o RFdStat); [intros x []|]. destruct (p_fds p) as [fds|]; [|intros x []].
  destruct (o RFdOpen); [intros x []|]. destruct (o RFdReaddir); [intros x []|].
  destruct (readdir_lstat _ 0 fds) as [ents|] eqn:E; [|intros x []].
  intros [k t] Hin. unfold oks in Hin. apply in_flat_map in Hin as (it & Hit & Hx).
  apply in_map_iff in Hit as ([j f] & <- & Hjf). cbn [snd fst] in Hx.
  destruct (read_link _ _ _) as [t'|] eqn:ER; [|contradiction]. destruct Hx as [Hx|[]]. injection Hx as <- <-.
  apply read_link_ok in ER. destruct (readdir_lstat_in _ _ _ _ E _ _ Hjf) as [_ Hn].
  apply nth_error_In in Hn. apply in_flat_map. exists f. split; [assumption|]. rewrite ER. now left.
Qed.

Lemma one_link f truth k x : In x (oks [(k, read_link f truth ENOENT)]) -> In x (opt_link k truth).
Proof.
  unfold oks. cbn [flat_map snd fst]. destruct (read_link f truth ENOENT) as [t|] eqn:R; [|intros []].
  apply read_link_ok in R. subst truth. rewrite app_nil_r. auto.
Qed.

Lemma items_sound o p prog items : proc_reads o p = PReads prog items ->
  p_isdir p = true /\ is_numeric (p_name p) = true /\ incl (oks items) (links p).
Proof.
  unfold proc_reads. destruct (negb (p_isdir p) || negb (is_numeric (p_name p))) eqn:E; [discriminate|].
  apply orb_false_iff in E as [E1 E2]. apply negb_false_iff in E1, E2. intros H.
  assert (HI : items = [(K_cwd, read_link (o RCwd) (p_cwd p) ENOENT);
                (K_root, read_link (o RRoot) (p_root p) ENOENT);
                (K_exec, read_link (o RExe2) (p_exe p) ENOENT)] ++ fd_items o p).
  { destruct (read_link (o RExe) (p_exe p) ENOENT) as [t|[]]; try discriminate; now injection H. }
  split; [assumption|]. split; [assumption|]. subst items. clear H.
  rewrite oks_app. unfold links. intros x Hin. apply in_app_or in Hin as [Hin|Hin].
  - change [(K_cwd, read_link (o RCwd) (p_cwd p) ENOENT); (K_root, read_link (o RRoot) (p_root p) ENOENT);
             (K_exec, read_link (o RExe2) (p_exe p) ENOENT)]
      with ([(K_cwd, read_link (o RCwd) (p_cwd p) ENOENT)] ++ [(K_root, read_link (o RRoot) (p_root p) ENOENT)]
            ++ [(K_exec, read_link (o RExe2) (p_exe p) ENOENT)]) in Hin.
    rewrite !oks_app in Hin.
    apply in_app_or in Hin as [Hin|Hin]; [|apply in_app_or in Hin as [Hin|Hin]];
      apply one_link in Hin.
    + apply in_or_app. now left.
    + apply in_or_app. right. apply in_or_app. now left.
    + apply in_or_app. right. apply in_or_app. right. apply in_or_app. now left.
  - apply fd_items_sound in Hin. apply in_or_app. right. apply in_or_app. right. apply in_or_app. now right.
Qed.

Lemma fd_items_complete o p : (forall r, o r = None) ->
  oks (fd_items o p) = match p_fds p with Some fds => flat_map (fun f => opt_link K_open (fd_tgt f)) fds | None => [] end.
Proof.
  intros Ho. unfold fd_items. rewrite !Ho. destruct (p_fds p) as [fds|]; [|reflexivity].
  rewrite readdir_lstat_none by (intros; apply Ho).
  generalize 0%nat. induction fds as [|f fds IH]; intros i; [reflexivity|].
  cbn [length seq combine map]. unfold oks in *. cbn [flat_map snd fst]. rewrite IH. f_equal.
  rewrite Ho. unfold read_link, readlink_buf, opt_link. destruct (fd_tgt f); reflexivity.
Qed.

Lemma items_complete o p : (forall r, o r = None) -> p_isdir p = true -> is_numeric (p_name p) = true ->
  exists prog items, proc_reads o p = PReads prog items /\ oks items = links p.
Proof.
  intros Ho Hd Hn. unfold proc_reads. rewrite Hd, Hn. cbn [negb orb]. rewrite !Ho.
  set (items := _ ++ fd_items o p).
  assert (HO : oks items = links p).
  { subst items. rewrite oks_app, fd_items_complete by assumption. unfold links, oks, read_link, readlink_buf, opt_link.
    cbn [flat_map snd fst]. destruct (p_cwd p), (p_root p), (p_exe p); reflexivity. }
  unfold read_link at 1. destruct (p_exe p); eauto.
Qed.

(* ---------------------------------------------------------------- the loop over /proc *)
(* what the entry (i, p) contributes to key K *)
Definition contrib (prefix : bytes) (o : rid -> option err) (p : proc) (K : bytes) : list user :=
  match proc_reads o p with
  | PReads prog items => entries prefix (pid_of (p_name p)) prog K items
  | _ => []
  end.

Lemma scan_loop_get d orc es : forall m, keys_ok m ->
  scan_loop (d ++ [slc]) orc es m = SErr
  \/ exists m', scan_loop (d ++ [slc]) orc es m = SOk m' /\ keys_ok m'
       /\ forall K, get m' K = get m K ++ flat_map (fun ip => contrib (d ++ [slc]) (orc (fst ip)) (snd ip) K) es.
Proof.
  induction es as [|[i p] es IH]; intros m Hk; cbn [scan_loop].
  - right. exists m. split; [reflexivity|]. split; [assumption|]. intros K. cbn. now rewrite app_nil_r.
  - unfold scan_proc. cbn [flat_map fst snd]. unfold contrib at 1.
    destruct (proc_reads (orc i) p) as [| |prog items] eqn:EP.
    + destruct (IH m Hk) as [H|(m' & H1 & H2 & H3)]; [now left|right]. exists m'. auto.
    + now left.
    + destruct (scan_links_get d (pid_of (p_name p)) prog items m Hk) as (m1 & H1 & Hk1 & Hg1). rewrite H1.
      destruct (IH m1 Hk1) as [H|(m' & H2 & Hk2 & Hg2)]; [now left|right]. exists m'. split; [exact H2|]. split; [exact Hk2|].
      intros K. rewrite Hg2, Hg1. now rewrite <- app_assoc.
Qed.

Lemma scan_loop_not_panic d orc es m : keys_ok m -> scan_loop (d ++ [slc]) orc es m <> SPanic.
Proof. intros Hk. destruct (scan_loop_get d orc es m Hk) as [->|(m' & -> & _)]; discriminate. Qed.

(* ---------------------------------------------------------------- classification *)
Definition in_dir (d : bytes) (u : user) : bool := match inside d (u_file u) with Some _ => true | None => false end.
Definition wf_dirb := last_not_slash.

Lemma wf_dirb_snoc d : wf_dirb d = true -> exists q c, d = q ++ [c] /\ c <> slc.
Proof.
  unfold wf_dirb, last_not_slash. destruct (rev d) as [|c r] eqn:E; [discriminate|]. intros H.
  exists (rev r), c. split.
  - rewrite <- (rev_involutive d), E. reflexivity.
  - intros ->. now rewrite Ascii.eqb_refl in H.
Qed.

Lemma class_inner u dirs : forallb wf_dirb dirs = true -> forall f,
  fold_left (class_step u) dirs (Some f)
  = Some (MkFlags (fl_mb f || existsb (fun d => in_dir d u) dirs)
                  (fl_nmb f || existsb (fun d => negb (in_dir d u)) dirs)
                  (fl_chroot f || (N.eqb (u_kind u) K_root && match dirs with [] => false | _ => true end))).
Proof.
  induction dirs as [|d dirs IH]; intros Hw f; cbn [fold_left existsb].
  - destruct f. cbn. now rewrite andb_false_r, !orb_false_r.
  - cbn in Hw. apply andb_true_iff in Hw as [Hd Hw]. destruct (wf_dirb_snoc d Hd) as (q & c & -> & Hc).
    unfold class_step at 2. rewrite sdod_dir by assumption. unfold in_dir at 1 3.
    destruct (inside (q ++ [c]) (u_file u)) eqn:EI; rewrite IH by assumption; cbn [fl_mb fl_nmb fl_chroot negb];
    destruct (N.eqb (u_kind u) K_root), dirs; cbn [fl_mb fl_nmb fl_chroot andb orb existsb];
    rewrite ?orb_true_r, ?orb_false_r, ?orb_true_l; try reflexivity;
    f_equal; f_equal; rewrite ?orb_assoc; try reflexivity.
Qed.

Theorem classify_spec dirs us : forallb wf_dirb dirs = true -> dirs <> [] ->
  classify dirs us
  = Some (MkFlags (existsb (fun u => existsb (fun d => in_dir d u) dirs) us)
                  (existsb (fun u => existsb (fun d => negb (in_dir d u)) dirs) us)
                  (existsb (fun u => N.eqb (u_kind u) K_root) us)).
Proof.
  intros Hw Hne. unfold classify.
  assert (G : forall f, fold_left (fun st u => fold_left (class_step u) dirs st) us (Some f)
     = Some (MkFlags (fl_mb f || existsb (fun u => existsb (fun d => in_dir d u) dirs) us)
                     (fl_nmb f || existsb (fun u => existsb (fun d => negb (in_dir d u)) dirs) us)
                     (fl_chroot f || existsb (fun u => N.eqb (u_kind u) K_root) us))).
  { induction us as [|u us IH]; intros f; cbn [fold_left existsb].
    - destruct f. cbn. now rewrite !orb_false_r.
    - rewrite class_inner by assumption. rewrite IH. cbn [fl_mb fl_nmb fl_chroot].
      destruct dirs; [congruence|]. rewrite andb_true_r, !orb_assoc. reflexivity. }
  rewrite G. reflexivity.
Qed.

(* ---------------------------------------------------------------- DescribeUsers *)
From Coq Require Import Sorting.Sorted.

Lemma uinsert_in x l z : In z (uinsert x l) <-> z = x \/ In z l.
Proof.
  induction l as [|y r IH]; cbn; [intuition congruence|].
  destruct (user_le x y); cbn; [intuition congruence|]. rewrite IH. intuition congruence.
Qed.
Lemma usort_in l z : In z (usort l) <-> In z l.
Proof. induction l as [|y r IH]; cbn; [tauto|]. rewrite uinsert_in, IH. intuition congruence. Qed.

Definition pid_le (a b : user) : Prop := (u_pid a <= u_pid b)%N.
Lemma user_le_true x y : user_le x y = true -> pid_le x y.
Proof.
  unfold user_le, pid_le. intros H. apply orb_true_iff in H as [H|H].
  - apply N.ltb_lt in H. lia.
  - apply andb_true_iff in H as [H _]. apply N.eqb_eq in H. lia.
Qed.
Lemma user_le_false x y : user_le x y = false -> pid_le y x.
Proof.
  unfold user_le, pid_le. intros H. apply orb_false_iff in H as [H _]. apply N.ltb_ge in H. exact H.
Qed.
Lemma uinsert_sorted x l : StronglySorted pid_le l -> StronglySorted pid_le (uinsert x l).
Proof.
  induction 1 as [|y r HS IH HF]; cbn; [repeat constructor|].
  destruct (user_le x y) eqn:E.
  - apply user_le_true in E. constructor; [constructor; assumption|]. constructor; [assumption|].
    rewrite Forall_forall in HF |- *. intros z Hz. specialize (HF z Hz). unfold pid_le in *. lia.
  - apply user_le_false in E. constructor; [assumption|]. apply Forall_forall. intros z Hz.
    apply uinsert_in in Hz as [->|Hz]; [assumption|]. rewrite Forall_forall in HF. auto.
Qed.
Lemma usort_sorted l : StronglySorted pid_le (usort l).
Proof. induction l; cbn; [constructor|]. now apply uinsert_sorted. Qed.

(* the update of the per-process record by one entry of the same process *)
Definition pd_upd (pd : pdata) (u : user) : pdata :=
  if (u_kind u =? K_root)%N then MkPD (pd_pid pd) true (pd_inlayer pd) (pd_cmd pd) (pd_cwd pd) (pd_files pd)
  else if (u_kind u =? K_cwd)%N then MkPD (pd_pid pd) (pd_chroot pd) true (pd_cmd pd) (u_file u) (pd_files pd)
  else if (u_kind u =? K_open)%N then MkPD (pd_pid pd) (pd_chroot pd) (pd_inlayer pd) (pd_cmd pd) (pd_cwd pd) (pd_files pd ++ [u_file u])
  else pd.
Definition pd_fresh (u : user) : pdata := MkPD (u_pid u) false false (u_prog u) [] [].

(* the loop of DescribeUsers as a structural recursion *)
Fixpoint rows_from (pd : pdata) (s : list user) : list drow :=
  match s with
  | [] => pd_flush pd
  | u :: r =>
    if (u_pid u =? pd_pid pd)%N then rows_from (pd_upd pd u) r
    else pd_flush pd ++ rows_from (pd_upd (pd_fresh u) u) r
  end.

Lemma fold_rows_from s : forall acc pd,
  (let '(acc', pd') := fold_left pd_step s (acc, pd) in acc' ++ pd_flush pd') = acc ++ rows_from pd s.
Proof.
  induction s as [|u r IH]; intros acc pd; cbn [fold_left rows_from]; [reflexivity|].
  unfold pd_step at 2. destruct (u_pid u =? pd_pid pd)%N eqn:E; cbn [negb].
  - fold (pd_upd pd u). apply IH.
  - change (MkPD (u_pid u) false false (u_prog u) [] []) with (pd_fresh u).
    fold (pd_upd (pd_fresh u) u). rewrite IH. now rewrite <- app_assoc.
Qed.
Lemma describe_rows_from us : describe us = rows_from pd0 (usort us).
Proof. unfold describe. pose proof (fold_rows_from (usort us) [] pd0) as H. cbn [app] in H. exact H. Qed.

(* summary of a group of entries *)
Definition grp (s : list user) (q : N) : list user := filter (fun u => (u_pid u =? q)%N) s.
Definition summ (pd : pdata) (g : list user) : pdata := fold_left pd_upd g pd.
Lemma pd_upd_pid pd u : pd_pid (pd_upd pd u) = pd_pid pd.
Proof. unfold pd_upd. destruct (u_kind u =? K_root)%N, (u_kind u =? K_cwd)%N, (u_kind u =? K_open)%N; reflexivity. Qed.
Lemma summ_pid pd g : pd_pid (summ pd g) = pd_pid pd.
Proof. revert pd. induction g as [|u g IH]; intros pd; cbn; [reflexivity|]. unfold summ in IH. now rewrite IH, pd_upd_pid. Qed.

(* distinct process ids of s in order of first appearance after p *)
Fixpoint runs (s : list user) (p : N) : list N :=
  match s with
  | [] => []
  | u :: r => if (u_pid u =? p)%N then runs r p else u_pid u :: runs r (u_pid u)
  end.
Fixpoint first_of (s : list user) (q : N) : option user :=
  match s with [] => None | u :: r => if (u_pid u =? q)%N then Some u else first_of r q end.
Definition rows_for (s : list user) (q : N) : list drow :=
  match first_of s q with
  | Some u => pd_flush (summ (pd_fresh u) (grp s q))
  | None => []
  end.

Lemma runs_gt s : forall p, StronglySorted pid_le s -> (forall u, In u s -> (p <= u_pid u)%N) ->
  forall q, In q (runs s p) -> (p < q)%N /\ exists u, In u s /\ u_pid u = q.
Proof.
  induction s as [|u r IH]; intros p HS Hp q Hq; cbn in Hq; [contradiction|].
  inversion HS as [|? ? HS' HF]; subst. rewrite Forall_forall in HF.
  assert (Hu : (p <= u_pid u)%N) by (apply Hp; now left).
  destruct (u_pid u =? p)%N eqn:E.
  - destruct (IH p HS' (fun z Hz => Hp z (or_intror Hz)) q Hq) as [H1 (z & Hz & Ez)].
    split; [assumption|]. exists z. split; [now right|assumption].
  - apply N.eqb_neq in E. destruct Hq as [<-|Hq].
    + split; [lia|]. exists u. split; [now left|reflexivity].
    + destruct (IH (u_pid u) HS' (fun z Hz => HF z Hz) q Hq) as [H1 (z & Hz & Ez)].
      split; [lia|]. exists z. split; [now right|assumption].
Qed.

Lemma rows_for_cons_other u r q : u_pid u <> q -> rows_for (u :: r) q = rows_for r q.
Proof.
  intros H. unfold rows_for, grp. cbn [first_of filter].
  assert (E : (u_pid u =? q)%N = false) by now apply N.eqb_neq. now rewrite E.
Qed.

Lemma grp_none s q : (forall u, In u s -> u_pid u <> q) -> grp s q = [].
Proof.
  induction s as [|u r IH]; intros H; cbn; [reflexivity|].
  assert (E : (u_pid u =? q)%N = false) by (apply N.eqb_neq; apply H; now left).
  rewrite E. apply IH. intros; apply H; now right.
Qed.

(* the loop on a list sorted by process id: the open record completed by its group, then one
   flush per further process id *)
Lemma rows_from_sorted s : forall pd, StronglySorted pid_le s -> (forall u, In u s -> (pd_pid pd <= u_pid u)%N) ->
  rows_from pd s = pd_flush (summ pd (grp s (pd_pid pd))) ++ flat_map (rows_for s) (runs s (pd_pid pd)).
Proof.
  induction s as [|u r IH]; intros pd HS Hp; cbn [rows_from runs flat_map grp filter summ fold_left]; [now rewrite app_nil_r|].
  inversion HS as [|? ? HS' HF]; subst. rewrite Forall_forall in HF.
  destruct (u_pid u =? pd_pid pd)%N eqn:E.
  - apply N.eqb_eq in E. cbn [fold_left]. rewrite IH; [|assumption|].
    + rewrite pd_upd_pid. fold (grp r (pd_pid pd)). f_equal.
      apply flat_map_ext_in. intros q Hq. symmetry. apply rows_for_cons_other.
      destruct (runs_gt r (pd_pid pd) HS' (fun z Hz => Hp z (or_intror Hz)) q Hq) as [Hlt _]. lia.
    + intros z Hz. rewrite pd_upd_pid. apply Hp. now right.
  - apply N.eqb_neq in E. assert (Hu : (pd_pid pd <= u_pid u)%N) by (apply Hp; now left).
    fold (grp r (pd_pid pd)). rewrite grp_none.
    2:{ intros z Hz. specialize (HF z Hz). unfold pid_le in HF. lia. }
    cbn [fold_left]. f_equal. rewrite IH; [|assumption|].
    + rewrite pd_upd_pid. cbn [pd_fresh pd_pid]. cbn [flat_map]. f_equal.
      * unfold rows_for. cbn [first_of]. rewrite N.eqb_refl. unfold grp. cbn [filter]. rewrite N.eqb_refl. reflexivity.
      * apply flat_map_ext_in. intros q Hq. symmetry. apply rows_for_cons_other.
        destruct (runs_gt r (u_pid u) HS' (fun z Hz => HF z Hz) q Hq) as [Hlt _]. lia.
    + intros z Hz. rewrite pd_upd_pid. cbn [pd_fresh pd_pid]. apply HF. exact Hz.
Qed.

Lemma describe_char us : let s := usort us in describe us = flat_map (rows_for s) (runs s 0).
Proof.
  intros s. rewrite describe_rows_from. fold s.
  rewrite (rows_from_sorted s pd0 (usort_sorted us)); [|intros; cbn; lia].
  cbn [pd0 pd_pid]. unfold pd_flush at 1. rewrite summ_pid. reflexivity.
Qed.

(* the fields of a summary *)
Definition g_cwd (g : list user) (init : bytes) : bytes :=
  fold_left (fun acc u => if (u_kind u =? K_cwd)%N then u_file u else acc) g init.
Definition g_files (g : list user) : list bytes := map u_file (filter (fun u => (u_kind u =? K_open)%N) g).
Lemma summ_fields g : forall pd,
  summ pd g = MkPD (pd_pid pd) (pd_chroot pd || existsb (fun u => (u_kind u =? K_root)%N) g)
                   (pd_inlayer pd || existsb (fun u => (u_kind u =? K_cwd)%N) g) (pd_cmd pd)
                   (g_cwd g (pd_cwd pd)) (pd_files pd ++ g_files g).
Proof.
  unfold summ, g_cwd, g_files. induction g as [|u g IH]; intros pd; cbn [fold_left existsb filter map].
  - destruct pd. cbn. now rewrite !orb_false_r, app_nil_r.
  - rewrite IH. unfold pd_upd.
    destruct (N.eq_dec (u_kind u) K_root) as [E|E].
    + rewrite E. cbn. f_equal. now rewrite orb_true_r.
    + assert (E0 : (u_kind u =? K_root)%N = false) by now apply N.eqb_neq. rewrite E0.
      destruct (N.eq_dec (u_kind u) K_cwd) as [E1|E1].
      * rewrite E1. cbn. f_equal. now rewrite orb_true_r.
      * assert (E2 : (u_kind u =? K_cwd)%N = false) by now apply N.eqb_neq. rewrite E2.
        destruct (u_kind u =? K_open)%N; cbn; [now rewrite <- app_assoc|reflexivity].
Qed.

Lemma g_cwd_in g : forall init, g_cwd g init = init \/ exists u, In u g /\ u_kind u = K_cwd /\ g_cwd g init = u_file u.
Proof.
  unfold g_cwd. induction g as [|u g IH]; intros init; cbn [fold_left]; [now left|].
  destruct (u_kind u =? K_cwd)%N eqn:E.
  - apply N.eqb_eq in E. destruct (IH (u_file u)) as [H|(z & Hz & Hk & H)].
    + right. exists u. split; [now left|]. auto.
    + right. exists z. split; [now right|]. auto.
  - destruct (IH init) as [H|(z & Hz & Hk & H)]; [now left|]. right. exists z. split; [now right|]. auto.
Qed.
Lemma g_cwd_has g init : existsb (fun u => (u_kind u =? K_cwd)%N) g = true ->
  exists u, In u g /\ u_kind u = K_cwd /\ g_cwd g init = u_file u.
Proof.
  revert init. unfold g_cwd. induction g as [|u g IH]; intros init; cbn [existsb fold_left]; [discriminate|].
  destruct (u_kind u =? K_cwd)%N eqn:E; cbn [orb].
  - intros _. apply N.eqb_eq in E. destruct (g_cwd_in g (u_file u)) as [H|(z & Hz & Hk & H)].
    + exists u. split; [now left|]. auto.
    + exists z. split; [now right|]. auto.
  - intros H. destruct (IH init H) as (z & Hz & Hk & H'). exists z. split; [now right|]. auto.
Qed.

Lemma first_of_some s q u : first_of s q = Some u -> In u s /\ u_pid u = q.
Proof.
  induction s as [|z r IH]; cbn; [discriminate|]. destruct (u_pid z =? q)%N eqn:E.
  - intros H. injection H as <-. apply N.eqb_eq in E. split; [now left|assumption].
  - intros H. destruct (IH H). split; [now right|assumption].
Qed.
Lemma first_of_none s q : first_of s q = None -> forall u, In u s -> u_pid u <> q.
Proof.
  induction s as [|z r IH]; cbn; [intros _ u []|]. destruct (u_pid z =? q)%N eqn:E; [discriminate|].
  apply N.eqb_neq in E. intros H u [<-|Hu]; auto.
Qed.

(* what DescribeUsers prints, in terms of the entries it was given *)
Theorem describe_rows us r : In r (describe us) ->
  let g := grp (usort us) (r_pid r) in
  (1 <= r_pid r)%N /\ g <> []
  /\ r_mode r = (if existsb (fun u => (u_kind u =? K_root)%N) g then 1
                 else if existsb (fun u => (u_kind u =? K_cwd)%N) g then 2 else 3)%N
  /\ r_cwd r = g_cwd g []
  /\ r_files r = Lex.sort (g_files g).
Proof.
  rewrite describe_char. intros H. apply in_flat_map in H as (q & Hq & Hr).
  unfold rows_for in Hr. destruct (first_of (usort us) q) as [u|] eqn:EF; [|contradiction].
  apply first_of_some in EF as [Hu Epid]. rewrite summ_fields in Hr. unfold pd_flush in Hr. cbn [pd_pid pd_fresh] in Hr.
  rewrite Epid in Hr. destruct (q <? 1)%N eqn:E1; [contradiction|]. apply N.ltb_ge in E1.
  destruct Hr as [<-|[]]. cbn [r_pid r_mode r_cwd r_files pd_chroot pd_inlayer pd_cwd pd_files pd_fresh orb app].
  split; [assumption|]. split; [|auto].
  intros E. assert (X : In u (grp (usort us) q)) by (apply filter_In; split; [assumption|now apply N.eqb_eq]).
  rewrite E in X. contradiction.
Qed.

Lemma runs_nodup s : forall p, StronglySorted pid_le s -> (forall u, In u s -> (p <= u_pid u)%N) -> NoDup (runs s p).
Proof.
  induction s as [|u r IH]; intros p HS Hp; cbn; [constructor|].
  inversion HS as [|? ? HS' HF]; subst. rewrite Forall_forall in HF.
  destruct (u_pid u =? p)%N.
  - apply IH; [assumption|]. intros; apply Hp; now right.
  - constructor.
    + intros Hin. destruct (runs_gt r (u_pid u) HS' (fun z Hz => HF z Hz) _ Hin) as [Hlt _]. lia.
    + apply IH; [assumption|]. intros z Hz. apply HF. exact Hz.
Qed.
Lemma runs_complete s : forall p u, In u s -> u_pid u <> p -> (forall z, In z s -> (p <= u_pid z)%N) ->
  StronglySorted pid_le s -> In (u_pid u) (runs s p).
Proof.
  induction s as [|z r IH]; intros p u Hu Hne Hp HS; [contradiction|]. cbn.
  inversion HS as [|? ? HS' HF]; subst. rewrite Forall_forall in HF.
  destruct (u_pid z =? p)%N eqn:E.
  - apply N.eqb_eq in E. destruct Hu as [->|Hu]; [congruence|]. apply IH; auto; intros; apply Hp; now right.
  - destruct Hu as [->|Hu]; [now left|]. destruct (N.eq_dec (u_pid u) (u_pid z)) as [Eq|Nq]; [left; auto|].
    right. apply IH; auto; intros w Hw; now apply HF.
Qed.

Lemma rows_for_pid s q r : In r (rows_for s q) -> r_pid r = q.
Proof.
  unfold rows_for. destruct (first_of s q) as [u|] eqn:E; [|contradiction]. apply first_of_some in E as [_ E].
  unfold pd_flush. rewrite summ_pid. cbn [pd_fresh pd_pid]. destruct (u_pid u <? 1)%N; [contradiction|].
  intros [<-|[]]. exact E.
Qed.
Lemma rows_for_length s q : (length (rows_for s q) <= 1)%nat.
Proof.
  unfold rows_for. destruct (first_of s q); [|cbn; lia]. unfold pd_flush. destruct (_ <? 1)%N; cbn; lia.
Qed.

Theorem describe_nodup us : NoDup (map r_pid (describe us)).
Proof.
  rewrite describe_char. set (s := usort us).
  assert (ND : NoDup (runs s 0)) by (apply runs_nodup; [apply usort_sorted|intros; lia]).
  induction (runs s 0) as [|q qs IH]; cbn [flat_map map]; [constructor|].
  inversion ND as [|? ? Hnin ND']; subst. rewrite map_app.
  pose proof (rows_for_length s q) as HL. destruct (rows_for s q) as [|r [|r2 rs]] eqn:E; cbn [map app]; [now apply IH| |cbn in HL; lia].
  constructor; [|now apply IH].
  intros Hin. apply in_map_iff in Hin as (r' & Hp & Hr'). apply in_flat_map in Hr' as (q' & Hq' & Hr').
  apply rows_for_pid in Hr'. assert (Hr : r_pid r = q) by (apply (rows_for_pid s q); rewrite E; now left).
  apply Hnin. congruence.
Qed.

Theorem describe_complete us u : In u us -> (1 <= u_pid u)%N -> exists r, In r (describe us) /\ r_pid r = u_pid u.
Proof.
  intros Hu H1. rewrite describe_char. set (s := usort us).
  assert (Hs : In u s) by now apply usort_in.
  assert (Hq : In (u_pid u) (runs s 0)).
  { apply runs_complete; [assumption|lia|intros; lia|apply usort_sorted]. }
  destruct (first_of s (u_pid u)) as [z|] eqn:EF.
  - pose proof EF as EF'. apply first_of_some in EF' as [Hz Ez].
    assert (HR : rows_for s (u_pid u) <> []).
    { unfold rows_for. rewrite EF. unfold pd_flush. rewrite summ_pid. cbn [pd_fresh pd_pid]. rewrite Ez.
      assert (X : (u_pid u <? 1)%N = false) by (apply N.ltb_ge; lia). rewrite X. discriminate. }
    destruct (rows_for s (u_pid u)) as [|r rs] eqn:ER; [congruence|]. exists r. split.
    + apply in_flat_map. exists (u_pid u). split; [assumption|]. rewrite ER. now left.
    + apply (rows_for_pid s (u_pid u)). rewrite ER. now left.
  - exfalso. apply (first_of_none _ _ EF u Hs). reflexivity.
Qed.
