(* The kernel well-formedness used by C03 (unique mount ids, parent ids that point backwards to a
   covering mount) is preserved by umount(2), and by every mount(2) that appends one line with a
   fresh id (everything except the submount copies of a recursive bind). *)
From Coq Require Import Sorting.Permutation.
From LC Require Import Lib.Bytes Lib.Lex Lib.Fields Lib.PathM Model.MountInfo Model.FsTree Model.Kernel
  Proofs.KernelP.

Definition kinv (tab : list kline) : Prop := NoDup (kids tab) /\ pwf tab = true.

(* ------------------------------------------------------------------ umount(2) *)
Theorem kumount_preserves ks t fl ks' : kumount ks t fl = KOk ks' ->
  kinv (ks_tab ks) -> kinv (ks_tab ks') /\ (wf_table (ks_tab ks) = true -> wf_table (ks_tab ks') = true).
Proof.
  intros H [ND Hp]. destruct (kumount_ok _ _ _ _ ND H) as (l1 & k & l2 & E & _ & E' & _).
  rewrite E in *. rewrite E'. split; [split|].
  - eapply nodup_kids_del; eauto.
  - eapply pwf_del; eauto.
  - unfold wf_table. rewrite !forallb_app. cbn [forallb]. rewrite !andb_true_iff. tauto.
Qed.

(* ------------------------------------------------------------------ appending a line *)
Lemma covering_app tab k p :
  covering (tab ++ [k]) p =
  if at_or_under (k_mp k) p then
    match covering tab p with
    | Some b0 => if (length (k_mp b0) <=? length (k_mp k))%nat then Some k else Some b0
    | None => Some k
    end
  else covering tab p.
Proof.
  unfold covering. rewrite fold_left_app. cbn [fold_left]. destruct (at_or_under (k_mp k) p); [|reflexivity].
  destruct (fold_left _ tab None) as [b0|]; [|reflexivity]. destruct (_ <=? _)%nat; reflexivity.
Qed.

Lemma covering_spec tab p cv : covering tab p = Some cv -> In cv tab /\ at_or_under (k_mp cv) p = true.
Proof.
  revert cv. induction tab as [|k tab IH] using rev_ind; intros cv; [discriminate|].
  rewrite covering_app. destruct (at_or_under (k_mp k) p) eqn:E.
  - destruct (covering tab p) as [b0|] eqn:Ec.
    + destruct (length (k_mp b0) <=? length (k_mp k))%nat.
      * intros H. injection H as <-. split; [apply in_or_app; right; now left|exact E].
      * intros H. injection H as <-. destruct (IH b0 eq_refl). split; [apply in_or_app; now left|assumption].
    + intros H. injection H as <-. split; [apply in_or_app; right; now left|exact E].
  - intros H. destruct (IH cv H). split; [apply in_or_app; now left|assumption].
Qed.

Lemma pwf_snoc tab L : pwf (tab ++ [L]) = true <->
  pwf tab = true
  /\ (forall k, In k tab -> beq (k_parent k) (k_id L) = false)
  /\ (forall k, In k tab -> beq (k_parent L) (k_id k) = true -> at_or_under (k_mp k) (k_mp L) = true).
Proof.
  induction tab as [|x tab IH]; cbn [app pwf forallb].
  - split; [intros _; split; [reflexivity|split; intros k []]|reflexivity].
  - rewrite !andb_true_iff, !forallb_app, IH. cbn [forallb]. rewrite !andb_true_iff, !forallb_forall. split.
    + intros [[[H1 [H2 _]] [H3 [H4 _]]] (H5 & H6 & H7)]. split; [auto|]. split.
      * intros k [<-|Hk]; [now apply negb_true_iff in H2|auto].
      * intros k [<-|Hk] E; [|auto]. rewrite E in H4. exact H4.
    + intros [[[H1 H3] H5] [H6 H7]]. repeat split; auto.
      * apply negb_true_iff. apply H6. now left.
      * destruct (beq (k_parent L) (k_id x)) eqn:E; [|reflexivity]. cbn [negb orb]. apply H7; [now left|exact E].
      * intros k Hk. apply H6. now right.
      * intros k Hk. apply H7. now right.
Qed.

(* a new line with a fresh id, attached below the mount that covers its mountpoint *)
Theorem append_preserves tab L :
  kinv tab ->
  ~ In (k_id L) (kids tab) -> ~ In (k_id L) (map k_parent tab) ->
  k_parent L = parent_id tab (k_mp L) ->
  (covering tab (k_mp L) = None -> ~ In (bs "1") (kids tab)) ->
  kinv (tab ++ [L]).
Proof.
  intros [ND Hp] Hid Hpar Hparent Hone. split.
  - unfold kids in *. rewrite map_app. cbn [map]. apply NoDup_rev in ND. rewrite <- (rev_involutive (map k_id tab ++ [k_id L])).
    apply NoDup_rev. rewrite rev_app_distr. cbn [rev app]. constructor; [|exact ND].
    intros Hin. apply Hid. now apply in_rev.
  - apply pwf_snoc. split; [exact Hp|]. split.
    + intros k Hk. apply beq_false. intros E. apply Hpar. rewrite <- E. now apply in_map.
    + intros k Hk E. apply beq_true in E. rewrite Hparent in E. unfold parent_id in E.
      destruct (covering tab (k_mp L)) as [cv|] eqn:Ec.
      * destruct (covering_spec _ _ _ Ec) as [Hcv Hu].
        assert (k = cv).
        { clear -ND Hk Hcv E. unfold kids in ND. induction tab as [|y tab IH]; [destruct Hk|].
          cbn in ND. inversion ND as [|? ? Hn ND']; subst.
          destruct Hk as [->|Hk], Hcv as [->|Hcv]; auto.
          - exfalso. apply Hn. rewrite <- E. now apply in_map.
          - exfalso. apply Hn. rewrite E. now apply in_map. }
        subst k. exact Hu.
      * exfalso. apply (Hone eq_refl). rewrite E. now apply in_map.
Qed.

(* ------------------------------------------------------------------ mount(2) *)
Theorem kmount_preserves fs ks src tgt fstype flags data ks' :
  kmount fs ks src tgt fstype flags data = KOk ks' ->
  kinv (ks_tab ks) ->
  ~ In (dec (ks_nextid ks)) (kids (ks_tab ks)) -> ~ In (dec (ks_nextid ks)) (map k_parent (ks_tab ks)) ->
  (covering (ks_tab ks) tgt = None -> ~ In (bs "1") (kids (ks_tab ks))) ->
  (* a recursive bind copies nothing *)
  (has_flag flags MS_REC = true -> filter (fun m => under src (k_mp m)) (ks_tab ks) = []) ->
  kinv (ks_tab ks').
Proof.
  intros H Hinv Hid Hpar Hone Hrec. unfold kmount in H. cbv zeta in H.
  destruct (has_flag flags MS_REMOUNT).
  { destruct (top_at (ks_tab ks) tgt); [|discriminate]. injection H as <-. exact Hinv. }
  destruct (has_flag flags MS_SLAVE).
  { destruct (top_at (ks_tab ks) tgt); [|discriminate]. injection H as <-. exact Hinv. }
  destruct (negb (exists_ fs tgt)); [discriminate|].
  destruct (has_flag flags MS_BIND).
  { destruct (negb (exists_ fs src)); [discriminate|].
    destruct (covering (ks_tab ks) src) as [cv|]; [|discriminate].
    destruct (has_flag flags MS_REC).
    - rewrite (Hrec eq_refl) in H. cbn [rbind_copies] in H. injection H as <-. cbn [ks_tab].
      apply append_preserves; auto.
    - injection H as <-. cbn [ks_tab]. apply append_preserves; auto. }
  destruct (beq fstype overlay).
  { destruct (_ && _); [|discriminate]. injection H as <-. cbn [ks_tab]. apply append_preserves; auto. }
  destruct fstype; [discriminate|]. injection H as <-. cbn [ks_tab]. apply append_preserves; auto.
Qed.
