(* The kernel well-formedness used by C03 (unique mount ids, parent ids that point backwards to a
   covering mount) is preserved by umount(2), and by every mount(2) that appends one line with a
   fresh id (everything except the submount copies of a recursive bind). *)
From Coq Require Import Sorting.Permutation.
From LC Require Import Lib.Bytes Lib.Lex Lib.Fields Lib.PathM Model.MountInfo Model.FsTree Model.Kernel
  Proofs.KernelP.

Definition kinv (tab : list kline) : Prop := NoDup (kids tab) /\ pwf tab = true.

(* ------------------------------------------------------------------ umount(2) *)
Theorem kumount_preserves ks t fl ks' : kumount ks t fl = KOk ks' ->
  kinv (ks_tab ks) -> kinv (ks_tab ks') /\ (wf_table (ks_tab ks) = true -> wf_table (ks_tab ks') = true).
Proof.
  intros H [ND Hp]. destruct (kumount_ok _ _ _ _ ND H) as (l1 & k & l2 & E & _ & E' & _).
  rewrite E in *. rewrite E'. split; [split|].
  - eapply nodup_kids_del; eauto.
  - eapply pwf_del; eauto.
  - unfold wf_table. rewrite !forallb_app. cbn [forallb]. rewrite !andb_true_iff. tauto.
Qed.

(* ------------------------------------------------------------------ appending a line *)
Lemma covering_app tab k p :
  covering (tab ++ [k]) p =
  if at_or_under (k_mp k) p then
    match covering tab p with
    | Some b0 => if (length (k_mp b0) <=? length (k_mp k))%nat then Some k else Some b0
    | None => Some k
    end
  else covering tab p.
Proof.
  unfold covering. rewrite fold_left_app. cbn [fold_left]. destruct (at_or_under (k_mp k) p); [|reflexivity].
  destruct (fold_left _ tab None) as [b0|]; [|reflexivity]. destruct (_ <=? _)%nat; reflexivity.
Qed.

Lemma covering_spec tab p cv : covering tab p = Some cv -> In cv tab /\ at_or_under (k_mp cv) p = true.
Proof.
  revert cv. induction tab as [|k tab IH] using rev_ind; intros cv; [discriminate|].
  rewrite covering_app. destruct (at_or_under (k_mp k) p) eqn:E.
  - destruct (covering tab p) as [b0|] eqn:Ec.
    + destruct (length (k_mp b0) <=? length (k_mp k))%nat.
      * intros H. injection H as <-. split; [apply in_or_app; right; now left|exact E].
      * intros H. injection H as <-. destruct (IH b0 eq_refl). split; [apply in_or_app; now left|assumption].
    + intros H. injection H as <-. split; [apply in_or_app; right; now left|exact E].
  - intros H. destruct (IH cv H). split; [apply in_or_app; now left|assumption].
Qed.

Lemma pwf_snoc tab L : pwf (tab ++ [L]) = true <->
  pwf tab = true
  /\ (forall k, In k tab -> beq (k_parent k) (k_id L) = false)
  /\ (forall k, In k tab -> beq (k_parent L) (k_id k) = true -> at_or_under (k_mp k) (k_mp L) = true).
Proof.
  induction tab as [|x tab IH]; cbn [app pwf forallb].
  - split; [intros _; split; [reflexivity|split; intros k []]|reflexivity].
  - rewrite !andb_true_iff, !forallb_app, IH. cbn [forallb]. rewrite !andb_true_iff, !forallb_forall. split.
    + intros [[[H1 [H2 _]] [H3 [H4 _]]] (H5 & H6 & H7)]. split; [auto|]. split.
      * intros k [<-|Hk]; [now apply negb_true_iff in H2|auto].
      * intros k [<-|Hk] E; [|auto]. rewrite E in H4. exact H4.
    + intros [[[H1 H3] H5] [H6 H7]]. repeat split; auto.
      * apply negb_true_iff. apply H6. now left.
      * destruct (beq (k_parent L) (k_id x)) eqn:E; [|reflexivity]. cbn [negb orb]. apply H7; [now left|exact E].
      * intros k Hk. apply H6. now right.
      * intros k Hk. apply H7. now right.
Qed.

(* a new line with a fresh id, attached below the mount that covers its mountpoint *)
Theorem append_preserves tab L :
  kinv tab ->
  ~ In (k_id L) (kids tab) -> ~ In (k_id L) (map k_parent tab) ->
  k_parent L = parent_id tab (k_mp L) ->
  (covering tab (k_mp L) = None -> ~ In (bs "1") (kids tab)) ->
  kinv (tab ++ [L]).
Proof.
  intros [ND Hp] Hid Hpar Hparent Hone. split.
  - unfold kids in *. rewrite map_app. cbn [map]. apply NoDup_rev in ND. rewrite <- (rev_involutive (map k_id tab ++ [k_id L])).
    apply NoDup_rev. rewrite rev_app_distr. cbn [rev app]. constructor; [|exact ND].
    intros Hin. apply Hid. now apply in_rev.
  - apply pwf_snoc. split; [exact Hp|]. split.
    + intros k Hk. apply beq_false. intros E. apply Hpar. rewrite <- E. now apply in_map.
    + intros k Hk E. apply beq_true in E. rewrite Hparent in E. unfold parent_id in E.
      destruct (covering tab (k_mp L)) as [cv|] eqn:Ec.
      * destruct (covering_spec _ _ _ Ec) as [Hcv Hu].
        assert (k = cv).
        { clear -ND Hk Hcv E. unfold kids in ND. induction tab as [|y tab IH]; [destruct Hk|].
          cbn in ND. inversion ND as [|? ? Hn ND']; subst.
          destruct Hk as [->|Hk], Hcv as [->|Hcv]; auto.
          - exfalso. apply Hn. rewrite <- E. now apply in_map.
          - exfalso. apply Hn. rewrite E. now apply in_map. }
        subst k. exact Hu.
      * exfalso. apply (Hone eq_refl). rewrite E. now apply in_map.
Qed.

(* ------------------------------------------------------------------ mount(2) *)
Theorem kmount_preserves fs ks src tgt fstype flags data ks' :
  kmount fs ks src tgt fstype flags data = KOk ks' ->
  kinv (ks_tab ks) ->
  ~ In (dec (ks_nextid ks)) (kids (ks_tab ks)) -> ~ In (dec (ks_nextid ks)) (map k_parent (ks_tab ks)) ->
  (covering (ks_tab ks) tgt = None -> ~ In (bs "1") (kids (ks_tab ks))) ->
  (* a recursive bind copies nothing *)
  (has_flag flags MS_REC = true -> filter (fun m => under src (k_mp m)) (ks_tab ks) = []) ->
  kinv (ks_tab ks').
Proof.
  intros H Hinv Hid Hpar Hone Hrec. unfold kmount in H. cbv zeta in H.
  destruct (has_flag flags MS_REMOUNT).
  { destruct (top_at (ks_tab ks) tgt); [|discriminate]. injection H as <-. exact Hinv. }
  destruct (has_flag flags MS_SLAVE).
  { destruct (top_at (ks_tab ks) tgt); [|discriminate]. injection H as <-. exact Hinv. }
  destruct (negb (exists_ fs tgt)); [discriminate|].
  destruct (has_flag flags MS_BIND).
  { destruct (negb (exists_ fs src)); [discriminate|].
    destruct (covering (ks_tab ks) src) as [cv|]; [|discriminate].
    destruct (has_flag flags MS_REC).
    - rewrite (Hrec eq_refl) in H. cbn [rbind_copies] in H. injection H as <-. cbn [ks_tab].
      apply append_preserves; auto.
    - injection H as <-. cbn [ks_tab]. apply append_preserves; auto. }
  destruct (beq fstype overlay).
  { destruct (_ && _); [|discriminate]. injection H as <-. cbn [ks_tab]. apply append_preserves; auto. }
  destruct fstype; [discriminate|]. injection H as <-. cbn [ks_tab]. apply append_preserves; auto.
Qed.

(* ------------------------------------------------------------------ mount ids are decimal numbers *)
From Coq Require Import ZifyBool ZifyNat ZifyN.
Open Scope N_scope.

Definition dstep (a : N) (ch : ascii) : N := a * 10 + (bn ch - 48).
Definition valf (a : N) (s : bytes) : N := fold_left dstep s a.
Definition val (s : bytes) : N := valf 0 s.

Lemma dstep_digit a d : d < 10 -> dstep a (nb (48 + d)) = a * 10 + d.
Proof. intros H. unfold dstep. rewrite bn_nb by lia. lia. Qed.

Lemma valf_dec : forall f n acc a, n < 10 ^ N.of_nat f -> a = 0 ->
  valf a (dec_fuel f n acc) = valf n acc.
Proof.
  induction f as [|f IH]; intros n acc a Hn ->.
  - cbn in Hn. assert (n = 0) by lia. subst. reflexivity.
  - cbn [dec_fuel]. assert (Hd : n mod 10 < 10) by (apply N.mod_lt; lia).
    destruct (n / 10 =? 0) eqn:E.
    + apply N.eqb_eq in E. unfold valf. cbn [fold_left]. rewrite dstep_digit by exact Hd.
      assert (n = n mod 10). { rewrite (N.div_mod n 10) at 1 by lia. rewrite E. lia. }
      rewrite <- H. reflexivity.
    + assert (Hq : n / 10 < 10 ^ N.of_nat f).
      { rewrite Nat2N.inj_succ, N.pow_succ_r' in Hn. apply N.div_lt_upper_bound; lia. }
      rewrite IH; [|exact Hq|reflexivity].
      unfold valf. cbn [fold_left]. rewrite dstep_digit by exact Hd. f_equal.
      rewrite (N.div_mod n 10) at 3 by lia. lia.
Qed.

Definition idmax : N := 10 ^ 24.

Lemma val_dec n : n < idmax -> val (dec n) = n.
Proof. intros H. unfold val, dec. rewrite valf_dec; [reflexivity|exact H|reflexivity]. Qed.

Lemma dec_inj i j : i < idmax -> j < idmax -> dec i = dec j -> i = j.
Proof. intros Hi Hj E. rewrite <- (val_dec i Hi), <- (val_dec j Hj). now rewrite E. Qed.

Definition isdigit (ch : ascii) : bool := (48 <=? bn ch) && (bn ch <=? 57).
Lemma dec_fuel_digits f : forall n acc, forallb isdigit acc = true -> forallb isdigit (dec_fuel f n acc) = true.
Proof.
  induction f as [|f IH]; intros n acc H; cbn [dec_fuel]; [exact H|].
  assert (Hd : n mod 10 < 10) by (apply N.mod_lt; lia).
  assert (H1 : forallb isdigit (nb (48 + n mod 10) :: acc) = true).
  { cbn [forallb]. rewrite H, andb_true_r. unfold isdigit. rewrite bn_nb by lia. lia. }
  destruct (n / 10 =? 0); [exact H1|now apply IH].
Qed.
Lemma digits_nospace s : forallb isdigit s = true -> nospace s = true.
Proof.
  intros H. unfold nospace. apply nosepb_spec. intros Hin. rewrite forallb_forall in H. specialize (H _ Hin).
  unfold isdigit, sp in H. rewrite bn_nb in H by lia. lia.
Qed.
Lemma dec_nospace n : nospace (dec n) = true.
Proof. apply digits_nospace. apply dec_fuel_digits. reflexivity. Qed.

(* the numbering invariant: every id and parent id is the decimal of a number below the next id
   (ids from 2 on, parents from 0 on), and the next id still has at most 24 digits *)
Definition numbered_line (next : N) (k : kline) : bool :=
  beq (k_id k) (dec (val (k_id k))) && (2 <=? val (k_id k)) && (val (k_id k) <? next)
  && beq (k_parent k) (dec (val (k_parent k))) && (val (k_parent k) <? next).
Definition numbered (ks : kstate) : bool :=
  (2 <=? ks_nextid ks) && (ks_nextid ks <=? idmax) && forallb (numbered_line (ks_nextid ks)) (ks_tab ks).

Lemma numbered_line_spec next k : numbered_line next k = true ->
  exists i p, k_id k = dec i /\ 2 <= i < next /\ k_parent k = dec p /\ p < next.
Proof.
  unfold numbered_line. intros H.
  apply andb_true_iff in H as [H H5]. apply andb_true_iff in H as [H H4]. apply andb_true_iff in H as [H H3].
  apply andb_true_iff in H as [H1 H2]. apply beq_true in H1, H4.
  exists (val (k_id k)), (val (k_parent k)). repeat split; try assumption; lia.
Qed.

Lemma numbered_line_intro next k i p : next <= idmax -> k_id k = dec i -> 2 <= i < next -> k_parent k = dec p -> p < next ->
  numbered_line next k = true.
Proof.
  intros Hn Hi Hir Hp Hpr. unfold numbered_line. rewrite Hi, Hp, !val_dec by (unfold idmax in *; lia).
  rewrite !beq_refl. lia.
Qed.

Lemma numbered_line_mono next next' k : next <= next' -> numbered_line next k = true -> numbered_line next' k = true.
Proof. unfold numbered_line. intros Hle H. rewrite !andb_true_iff in *. lia. Qed.

(* a number from [next] on is a fresh id and a fresh parent id *)
Lemma numbered_fresh next tab j : forallb (numbered_line next) tab = true -> next <= j -> j < idmax ->
  ~ In (dec j) (kids tab) /\ ~ In (dec j) (map k_parent tab).
Proof.
  intros H Hj Hm. rewrite forallb_forall in H. split; intros Hin; apply in_map_iff in Hin as (k & E & Hk);
    destruct (numbered_line_spec _ _ (H k Hk)) as (i & p & Ei & Hi & Ep & Hp).
  - rewrite Ei in E. apply dec_inj in E; unfold idmax in *; lia.
  - rewrite Ep in E. apply dec_inj in E; unfold idmax in *; lia.
Qed.

Lemma numbered_no_one next tab : forallb (numbered_line next) tab = true -> next <= idmax -> ~ In (bs "1") (kids tab).
Proof.
  intros H Hn Hin. rewrite forallb_forall in H. apply in_map_iff in Hin as (k & E & Hk).
  destruct (numbered_line_spec _ _ (H k Hk)) as (i & p & Ei & Hi & _).
  change (bs "1") with (dec 1) in E. rewrite Ei in E. apply dec_inj in E; unfold idmax in *; lia.
Qed.

(* parent_id is the id of a line of the table, or "1" *)
Lemma parent_id_numbered next tab p : forallb (numbered_line next) tab = true -> 2 <= next ->
  exists q, parent_id tab p = dec q /\ q < next.
Proof.
  intros H Hn. unfold parent_id. destruct (covering tab p) as [cv|] eqn:E.
  - destruct (covering_spec _ _ _ E) as [Hin _]. rewrite forallb_forall in H.
    destruct (numbered_line_spec _ _ (H cv Hin)) as (i & _ & Ei & Hi & _). exists i. split; [exact Ei|lia].
  - exists 1. split; [reflexivity|lia].
Qed.

(* one appended line, numbered [id] with next <= id *)
Lemma append_numbered tab L next id : kinv tab -> forallb (numbered_line next) tab = true ->
  2 <= next -> next <= id -> id < idmax ->
  k_id L = dec id -> k_parent L = parent_id tab (k_mp L) ->
  kinv (tab ++ [L]) /\ forallb (numbered_line (id + 1)) (tab ++ [L]) = true.
Proof.
  intros Hk Hn H2 Hid Hmax Ei Ep. destruct (numbered_fresh next tab id Hn Hid Hmax) as [F1 F2]. split.
  - apply append_preserves; auto; try (now rewrite Ei).
    intros _. eapply numbered_no_one; eauto. unfold idmax in *. lia.
  - rewrite forallb_app. cbn [forallb]. rewrite andb_true_r. apply andb_true_iff. split.
    + apply forallb_forall. intros k Hkin. rewrite forallb_forall in Hn.
      eapply numbered_line_mono; [|apply Hn; exact Hkin]. lia.
    + destruct (parent_id_numbered next tab (k_mp L) Hn H2) as (q & Eq & Hq).
      eapply (numbered_line_intro (id + 1) L id q); [unfold idmax in *; lia|exact Ei|lia|now rewrite Ep|lia].
Qed.

(* the submount copies of a recursive bind *)
Lemma rbind_copies_inv subs src tgt : forall id tab next tab' id',
  rbind_copies id tab subs src tgt = (tab', id') ->
  kinv tab -> forallb (numbered_line next) tab = true -> 2 <= next -> next <= id ->
  id + N.of_nat (length subs) <= idmax ->
  kinv tab' /\ forallb (numbered_line id') tab' = true /\ id' = id + N.of_nat (length subs).
Proof.
  induction subs as [|m r IH]; intros id tab next tab' id' H Hk Hn H2 Hid Hmax; cbn [rbind_copies] in H.
  - injection H as <- <-. split; [exact Hk|]. split; [|cbn; lia].
    rewrite forallb_forall in *. intros k Hkin. eapply numbered_line_mono; [|apply Hn; exact Hkin]. exact Hid.
  - cbn [length] in Hmax. rewrite Nat2N.inj_succ in Hmax.
    match type of H with rbind_copies _ (tab ++ [?L]) _ _ _ = _ => set (line := L) in * end.
    destruct (append_numbered tab line next id Hk Hn H2 Hid ltac:(unfold idmax in *; lia) eq_refl eq_refl) as [Hk1 Hn1].
    destruct (IH (id + 1) (tab ++ [line]) (id + 1) tab' id' H Hk1 Hn1 ltac:(lia) ltac:(lia) ltac:(lia)) as (A & B & C).
    split; [exact A|]. split; [exact B|]. cbn [length]. rewrite Nat2N.inj_succ. lia.
Qed.

Lemma rbind_copies_count subs src tgt : forall id tab tab' id',
  rbind_copies id tab subs src tgt = (tab', id') -> id' = id + N.of_nat (length subs).
Proof.
  induction subs as [|m r IH]; intros id tab tab' id' H; cbn [rbind_copies] in H.
  - injection H as _ <-. cbn. lia.
  - apply IH in H. cbn [length]. rewrite Nat2N.inj_succ. lia.
Qed.

Definition kinv2 (ks : kstate) : Prop := kinv (ks_tab ks) /\ numbered ks = true.

(* every successful mount(2), recursive binds included, keeps unique ids, well-formed parent
   ids and the numbering -- as long as the ids still fit 24 digits *)
Theorem kmount_preserves_all fs ks src tgt fstype flags data ks' :
  kmount fs ks src tgt fstype flags data = KOk ks' ->
  kinv2 ks -> ks_nextid ks' <= idmax ->
  kinv2 ks'.
Proof.
  intros H [Hk Hnum] Hmax'. unfold numbered in Hnum.
  apply andb_true_iff in Hnum as [Hnum Hn]. apply andb_true_iff in Hnum as [H2 Hm].
  apply N.leb_le in H2, Hm.
  unfold kmount in H. cbv zeta in H.
  assert (Hsame : kinv2 ks).
  { split; [exact Hk|]. unfold numbered. rewrite Hn. lia. }
  destruct (has_flag flags MS_REMOUNT).
  { destruct (top_at (ks_tab ks) tgt); [|discriminate]. injection H as <-. exact Hsame. }
  destruct (has_flag flags MS_SLAVE).
  { destruct (top_at (ks_tab ks) tgt); [|discriminate]. injection H as <-. exact Hsame. }
  destruct (negb (exists_ fs tgt)); [discriminate|].
  assert (Hone : forall L (tabn : list kline), k_id L = dec (ks_nextid ks) -> k_parent L = parent_id (ks_tab ks) (k_mp L) ->
            ks_nextid ks < idmax ->
            kinv (ks_tab ks ++ [L]) /\ forallb (numbered_line (ks_nextid ks + 1)) (ks_tab ks ++ [L]) = true).
  { intros L _ E1 E2 Hlt. apply (append_numbered (ks_tab ks) L (ks_nextid ks) (ks_nextid ks)); auto; lia. }
  assert (Hfin : forall L dev, k_id L = dec (ks_nextid ks) -> k_parent L = parent_id (ks_tab ks) (k_mp L) ->
            ks_nextid ks + 1 <= idmax ->
            kinv2 (MkKS (ks_tab ks ++ [L]) (ks_nextid ks + 1) dev)).
  { intros L dev E1 E2 Hle. destruct (Hone L [] E1 E2 ltac:(lia)) as [A B]. split; [exact A|].
    unfold numbered. cbn [ks_nextid ks_tab]. rewrite B. lia. }
  destruct (has_flag flags MS_BIND).
  { destruct (negb (exists_ fs src)); [discriminate|].
    destruct (covering (ks_tab ks) src) as [cv|]; [|discriminate].
    destruct (has_flag flags MS_REC).
    - destruct (rbind_copies _ _ _ src tgt) as [tab2 id2] eqn:Er. injection H as <-. cbn [ks_nextid] in Hmax'.
      match type of Er with rbind_copies _ (_ ++ [?L]) _ _ _ = _ => set (line := L) in * end.
      pose proof (rbind_copies_count _ _ _ _ _ _ _ Er) as Hcnt.
      destruct (Hone line [] eq_refl eq_refl ltac:(lia)) as [A B].
      destruct (rbind_copies_inv _ src tgt _ _ (ks_nextid ks + 1) _ _ Er A B ltac:(lia) ltac:(lia) ltac:(lia)) as (C & D & E).
      split; [exact C|]. unfold numbered. cbn [ks_nextid ks_tab]. rewrite D. lia.
    - injection H as <-. cbn [ks_nextid] in Hmax'. apply Hfin; [reflexivity|reflexivity|exact Hmax']. }
  destruct (beq fstype overlay).
  { destruct (_ && _); [|discriminate]. injection H as <-. cbn [ks_nextid] in Hmax'.
    apply Hfin; [reflexivity|reflexivity|exact Hmax']. }
  destruct fstype; [discriminate|]. injection H as <-. cbn [ks_nextid] in Hmax'.
  apply Hfin; [reflexivity|reflexivity|exact Hmax'].
Qed.

(* ------------------------------------------------------------------ appended lines are printable *)
Lemma wf_table_snoc tab L : wf_table tab = true -> wf_kline L = true -> wf_table (tab ++ [L]) = true.
Proof. intros H1 H2. unfold wf_table. rewrite forallb_app. cbn [forallb]. unfold wf_table in H1. now rewrite H1, H2. Qed.

Lemma wf_table_in tab k : wf_table tab = true -> In k tab -> wf_kline k = true.
Proof. unfold wf_table. rewrite forallb_forall. auto. Qed.

Lemma wf_kline_parts k : wf_kline k = true ->
  nospace (k_id k) = true /\ nospace (k_dev k) = true /\ nospace (k_opts k) = true /\ nospace (k_fstype k) = true
  /\ forallb (fun kv => plainopt (fst kv)) (k_sopts k) = true
  /\ negb (beq (k_fstype k) overlay && match k_sopts k with [] => true | _ => false end) = true.
Proof.
  unfold wf_kline. intros H.
  apply andb_true_iff in H as [H H8]. apply andb_true_iff in H as [H H7]. apply andb_true_iff in H as [H H6].
  apply andb_true_iff in H as [H H5]. apply andb_true_iff in H as [H H4]. apply andb_true_iff in H as [H H3].
  apply andb_true_iff in H as [H1 H2]. auto 10.
Qed.

Lemma parent_id_nospace tab p : wf_table tab = true -> nospace (parent_id tab p) = true.
Proof.
  intros H. unfold parent_id. destruct (covering tab p) as [cv|] eqn:E; [|reflexivity].
  destruct (covering_spec _ _ _ E) as [Hin _]. now destruct (wf_kline_parts _ (wf_table_in _ _ H Hin)).
Qed.

Lemma nospace_app a b0 : nospace a = true -> nospace b0 = true -> nospace (a ++ b0) = true.
Proof.
  unfold nospace. intros Ha Hb. apply nosepb_spec. apply nosepb_spec in Ha, Hb. intros Hin.
  apply in_app_or in Hin as [Hin|Hin]; auto.
Qed.

(* a line that copies device, options, type and super options of a well-formed line *)
Lemma wf_kline_copy tab id mp src0 opts m : wf_table tab = true -> wf_kline m = true -> nospace opts = true ->
  wf_kline (MkK (dec id) (parent_id tab mp) (k_dev m) src0 mp opts [] (k_fstype m) (k_source m) (k_sopts m)) = true.
Proof.
  intros Ht Hm Ho. destruct (wf_kline_parts _ Hm) as (_ & A & _ & B & C & D).
  unfold wf_kline. cbn [k_id k_parent k_dev k_opts k_optional k_fstype k_sopts forallb].
  rewrite dec_nospace, (parent_id_nospace tab mp Ht), A, Ho, B, C, D. reflexivity.
Qed.

Lemma rbind_copies_wf subs src tgt : forall id tab tab' id',
  rbind_copies id tab subs src tgt = (tab', id') ->
  wf_table tab = true -> Forall (fun m => wf_kline m = true) subs -> wf_table tab' = true.
Proof.
  induction subs as [|m r IH]; intros id tab tab' id' H Ht Hs; cbn [rbind_copies] in H.
  - now injection H as <- _.
  - inversion Hs as [|? ? Hm Hr]; subst. eapply IH; [exact H| |exact Hr].
    apply wf_table_snoc; [exact Ht|]. apply wf_kline_copy; auto.
    now destruct (wf_kline_parts _ Hm) as (_ & _ & A & _).
Qed.

Theorem kmount_wf_table fs ks src tgt fstype flags data ks' :
  kmount fs ks src tgt fstype flags data = KOk ks' ->
  wf_table (ks_tab ks) = true -> nospace fstype = true -> wf_table (ks_tab ks') = true.
Proof.
  intros H Ht Hf. unfold kmount in H. cbv zeta in H.
  destruct (has_flag flags MS_REMOUNT).
  { destruct (top_at (ks_tab ks) tgt); [|discriminate]. now injection H as <-. }
  destruct (has_flag flags MS_SLAVE).
  { destruct (top_at (ks_tab ks) tgt); [|discriminate]. now injection H as <-. }
  destruct (negb (exists_ fs tgt)); [discriminate|].
  destruct (has_flag flags MS_BIND).
  { destruct (negb (exists_ fs src)); [discriminate|].
    destruct (covering (ks_tab ks) src) as [cv|] eqn:Ec; [|discriminate].
    destruct (covering_spec _ _ _ Ec) as [Hcv _]. pose proof (wf_table_in _ _ Ht Hcv) as Hwcv.
    assert (H1 : wf_table (ks_tab ks ++ [bind_line (ks_nextid ks) (ks_tab ks) cv src tgt]) = true).
    { apply wf_table_snoc; [exact Ht|]. unfold bind_line. now apply wf_kline_copy. }
    destruct (has_flag flags MS_REC).
    - destruct (rbind_copies _ _ _ src tgt) as [tab2 id2] eqn:Er. injection H as <-. cbn [ks_tab].
      eapply rbind_copies_wf; [exact Er|exact H1|]. apply Forall_forall. intros m Hm.
      apply filter_In in Hm as [Hm _]. now apply (wf_table_in _ _ Ht).
    - now injection H as <-. }
  destruct (beq fstype overlay) eqn:Eo.
  { destruct (_ && _); [|discriminate]. injection H as <-. cbn [ks_tab]. apply wf_table_snoc; [exact Ht|].
    unfold wf_kline. cbn [k_id k_parent k_dev k_opts k_optional k_fstype k_sopts forallb].
    rewrite dec_nospace, (parent_id_nospace _ tgt Ht).
    match goal with |- context [nospace (?a :: ?b0 :: dec ?n)] =>
      assert (E : nospace (a :: b0 :: dec n) = true) by exact (nospace_app (bs "0:") _ eq_refl (dec_nospace _)); rewrite E end.
    reflexivity. }
  destruct fstype as [|ch r] eqn:Ef; [discriminate|]. injection H as <-. cbn [ks_tab]. apply wf_table_snoc; [exact Ht|].
  unfold wf_kline. cbn [k_id k_parent k_dev k_opts k_optional k_fstype k_sopts forallb].
  rewrite dec_nospace, (parent_id_nospace _ tgt Ht).
  match goal with |- context [nospace (?a :: ?b0 :: dec ?n)] =>
    assert (E : nospace (a :: b0 :: dec n) = true) by exact (nospace_app (bs "0:") _ eq_refl (dec_nospace _)); rewrite E end.
  rewrite Hf, Eo. reflexivity.
Qed.
