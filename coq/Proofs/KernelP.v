(* Lemmas about Model/Kernel.v used by C03 / C04: paths at or below a directory, the topmost
   mount at a mountpoint, umount(2) on a table with unique ids, deleting lines, sequences of
   umount calls in descending order, and the parent-id well-formedness that excludes EBUSY. *)
From Coq Require Import Sorting.Sorted Sorting.Permutation.
From LC Require Import Lib.Bytes Lib.Lex Lib.Fields Lib.PathM Model.MountInfo Model.FsTree Model.Kernel.
Notation sort := Lex.sort.

(* ------------------------------------------------------------------ generic lists *)
Lemma filter_all {A} (f : A -> bool) l : (forall x, In x l -> f x = true) -> filter f l = l.
Proof.
  induction l as [|x l IH]; cbn; intros H; [reflexivity|].
  rewrite (H x (or_introl eq_refl)). f_equal. apply IH. intros y Hy. apply H. now right.
Qed.
Lemma filter_none {A} (f : A -> bool) l : (forall x, In x l -> f x = false) -> filter f l = [].
Proof.
  induction l as [|x l IH]; cbn; intros H; [reflexivity|].
  rewrite (H x (or_introl eq_refl)). apply IH. intros y Hy. apply H. now right.
Qed.
Lemma existsb_false_forall {A} (f : A -> bool) l : existsb f l = false <-> (forall x, In x l -> f x = false).
Proof.
  induction l as [|x l IH]; cbn; [intuition|]. rewrite orb_false_iff, IH. split.
  - intros [H1 H2] y [<-|Hy]; auto.
  - intros H. split; [apply H; now left|intros y Hy; apply H; now right].
Qed.
Lemma memb_In x l : memb x l = true <-> In x l.
Proof.
  unfold memb. rewrite existsb_exists. split.
  - intros (y & Hy & E). apply beq_true in E. now subst.
  - intros H. exists x. split; [exact H|apply beq_refl].
Qed.
Lemma memb_false x l : memb x l = false <-> ~ In x l.
Proof. rewrite <- memb_In. destruct (memb x l); intuition congruence. Qed.

(* ------------------------------------------------------------------ paths *)
Definition good_root (d : bytes) : bool := negb (beq d []) && negb (beq d root).

Lemma good_root_spec d : good_root d = true -> d <> [] /\ beq d root = false.
Proof.
  unfold good_root. rewrite andb_true_iff, !negb_true_iff. intros [H1 H2]. split; [|exact H2].
  now apply beq_false.
Qed.

Lemma at_or_under_below d q : beq d root = false -> at_or_under d q = at_or_below d q.
Proof. intros H. unfold at_or_under, at_or_below, under. rewrite H. reflexivity. Qed.

Lemma under_nonroot d q : beq d root = false -> under d q = prefixb (d ++ [sl]) q.
Proof. intros H. unfold under. now rewrite H. Qed.

Lemma below_spec d q : prefixb (d ++ [sl]) q = true <-> exists r, q = d ++ sl :: r.
Proof.
  rewrite prefixb_spec. split; intros [r ->]; exists r; rewrite <- app_assoc; reflexivity.
Qed.

Lemma below_lt t q : prefixb (t ++ [sl]) q = true -> ltb t q = true.
Proof. intros H. apply below_spec in H as [r ->]. apply prefix_lt. discriminate. Qed.

Lemma below_trans a b0 c : prefixb (a ++ [sl]) b0 = true -> prefixb (b0 ++ [sl]) c = true ->
  prefixb (a ++ [sl]) c = true.
Proof.
  intros H1 H2. apply below_spec in H1 as [r1 ->]. apply below_spec in H2 as [r2 ->].
  apply below_spec. exists (r1 ++ sl :: r2). rewrite <- app_assoc. reflexivity.
Qed.

Lemma at_or_below_trans d t q : at_or_below d t = true -> prefixb (t ++ [sl]) q = true ->
  at_or_below d q = true.
Proof.
  unfold at_or_below. intros H1 H2. apply orb_true_iff in H1 as [H1|H1]; apply orb_true_iff; right.
  - apply beq_true in H1. now subst.
  - eapply below_trans; eauto.
Qed.

Lemma at_or_below_refl d : at_or_below d d = true.
Proof. unfold at_or_below. now rewrite beq_refl. Qed.

Lemma target_not_root d t : good_root d = true -> at_or_below d t = true -> beq t root = false.
Proof.
  intros Hd H. apply good_root_spec in Hd as [Hne Hr]. unfold at_or_below in H.
  apply orb_true_iff in H as [H|H].
  - apply beq_true in H. now subst.
  - apply below_spec in H as [r ->]. apply beq_false. intros E. destruct d as [|x d]; [congruence|].
    cbn in E. unfold root in E. injection E as _ E. destruct d; discriminate.
Qed.

(* ------------------------------------------------------------------ sorting *)
Definition desc := StronglySorted (fun a b0 : bytes => ltb a b0 = false).

Lemma desc_snoc m y : Forall (fun b0 => ltb b0 y = false) m -> desc m -> desc (m ++ [y]).
Proof.
  induction m as [|a m IHm]; cbn; intros F D; [repeat constructor|].
  inversion F; inversion D; subst. constructor; [apply IHm; auto|apply Forall_app; split; auto].
Qed.
Lemma rev_desc l : StronglySorted (fun a b0 => ltb b0 a = false) l -> desc (rev l).
Proof.
  induction 1 as [|y r HS IH HF]; cbn; [constructor|].
  apply desc_snoc; auto. rewrite Forall_forall in HF |- *. intros b0 Hb. apply HF. now apply in_rev.
Qed.
Lemma insert_perm x l : Permutation (insert x l) (x :: l).
Proof.
  induction l as [|y r IH]; cbn; [reflexivity|]. destruct (ltb y x); [|reflexivity].
  rewrite IH. apply perm_swap.
Qed.
Lemma sort_perm l : Permutation (sort l) l.
Proof. induction l as [|x l IH]; cbn; [constructor|]. rewrite insert_perm. now constructor. Qed.
Lemma rev_sort_desc l : desc (rev (sort l)).
Proof. apply rev_desc, sort_sorted. Qed.
Lemma rev_sort_perm l : Permutation (rev (sort l)) l.
Proof. rewrite <- Permutation_rev. apply sort_perm. Qed.

(* ------------------------------------------------------------------ top_at *)
Lemma top_at_app tab k t :
  top_at (tab ++ [k]) t = if beq (k_mp k) t then Some k else top_at tab t.
Proof. unfold top_at. rewrite fold_left_app. reflexivity. Qed.

Lemma top_at_spec tab t k : top_at tab t = Some k ->
  exists l1 l2, tab = l1 ++ k :: l2 /\ k_mp k = t /\ (forall m, In m l2 -> beq (k_mp m) t = false).
Proof.
  induction tab as [|x tab IH] using rev_ind; [discriminate|].
  rewrite top_at_app. destruct (beq (k_mp x) t) eqn:E.
  - intros H. injection H as <-. exists tab, []. split; [reflexivity|]. split; [now apply beq_true|].
    intros m [].
  - intros H. destruct (IH H) as (l1 & l2 & -> & Hk & Hl). exists l1, (l2 ++ [x]).
    split; [now rewrite <- app_assoc|]. split; [exact Hk|].
    intros m Hm. apply in_app_or in Hm as [Hm|[<-|[]]]; auto.
Qed.

Lemma top_at_some tab t : In t (map k_mp tab) -> exists k, top_at tab t = Some k.
Proof.
  induction tab as [|x tab IH] using rev_ind; [intros []|].
  rewrite map_app, in_app_iff, top_at_app. cbn. intros H.
  destruct (beq (k_mp x) t) eqn:E; [eauto|].
  destruct H as [H|[H|[]]]; [auto|]. subst. now rewrite beq_refl in E.
Qed.

Lemma top_at_none tab t : top_at tab t = None -> ~ In t (map k_mp tab).
Proof. intros H Hin. apply top_at_some in Hin as [k Hk]. congruence. Qed.

(* ------------------------------------------------------------------ unique ids *)
Definition kids (tab : list kline) : list bytes := map k_id tab.

Lemma remove_id_unique l1 k l2 : NoDup (kids (l1 ++ k :: l2)) -> remove_id (l1 ++ k :: l2) (k_id k) = l1 ++ l2.
Proof.
  unfold kids, remove_id. intros ND. rewrite map_app in ND. cbn [map] in ND.
  pose proof (NoDup_remove_2 _ _ _ ND) as Hn. rewrite filter_app. cbn [filter]. rewrite beq_refl. cbn [negb].
  rewrite !filter_all; [reflexivity| |].
  - intros x Hx. apply negb_true_iff, beq_false. intros E. apply Hn. apply in_or_app. right.
    rewrite <- E. now apply in_map.
  - intros x Hx. apply negb_true_iff, beq_false. intros E. apply Hn. apply in_or_app. left.
    rewrite <- E. now apply in_map.
Qed.

Lemma nodup_kids_del l1 k l2 : NoDup (kids (l1 ++ k :: l2)) -> NoDup (kids (l1 ++ l2)).
Proof. unfold kids. rewrite !map_app. cbn [map]. apply NoDup_remove_1. Qed.

(* ------------------------------------------------------------------ deleting lines *)
Inductive dels (P : kline -> bool) : list kline -> list kline -> Prop :=
| dels_refl tab : dels P tab tab
| dels_step l1 k l2 tab' : P k = true -> dels P (l1 ++ l2) tab' -> dels P (l1 ++ k :: l2) tab'.

Lemma dels_trans P a b0 c : dels P a b0 -> dels P b0 c -> dels P a c.
Proof. induction 1; intros H2; auto. econstructor; eauto. Qed.
Lemma dels_mono (P Q : kline -> bool) a b0 : (forall k, P k = true -> Q k = true) -> dels P a b0 -> dels Q a b0.
Proof. intros H. induction 1; [constructor|]. econstructor; eauto. Qed.
Lemma dels_filter P Q a b0 : (forall k, P k = true -> Q k = false) -> dels P a b0 -> filter Q a = filter Q b0.
Proof.
  intros H. induction 1 as [|l1 k l2 tab' Hk _ IH]; [reflexivity|].
  rewrite <- IH, !filter_app. cbn [filter]. now rewrite (H k Hk).
Qed.
Lemma dels_in P a b0 : dels P a b0 -> forall m, In m b0 -> In m a.
Proof.
  induction 1 as [|l1 k l2 tab' Hk _ IH]; auto. intros m Hm. specialize (IH m Hm).
  apply in_app_or in IH. apply in_or_app. destruct IH; [now left|right; now right].
Qed.
Lemma dels_forallb P g a b0 : dels P a b0 -> forallb g a = true -> forallb g b0 = true.
Proof.
  intros HD H. rewrite forallb_forall in *. intros m Hm. apply H. eapply dels_in; eauto.
Qed.
Lemma dels_nodup P a b0 : dels P a b0 -> NoDup (kids a) -> NoDup (kids b0).
Proof. induction 1; auto. intros ND. apply IHdels. eapply nodup_kids_del; eauto. Qed.
(* the lines that remain and are not deletable are exactly those before *)
Lemma dels_keep P a b0 : dels P a b0 -> forall m, In m a -> P m = false -> In m b0.
Proof.
  induction 1 as [|l1 k l2 tab' Hk _ IH]; auto. intros m Hm Hp. apply IH; [|exact Hp].
  apply in_app_or in Hm. apply in_or_app. destruct Hm as [Hm|[->|Hm]]; [now left|congruence|now right].
Qed.

(* ------------------------------------------------------------------ umount(2) *)
Definition no_children (tab : list kline) (k : kline) : bool :=
  negb (existsb (fun m => beq (k_parent m) (k_id k) && negb (beq (k_id m) (k_id k))) tab).

(* ------------------------------------------------------------------ hidden mounts *)
Lemma hidden_at_app tab k t :
  hidden_at (tab ++ [k]) t =
  if beq (k_mp k) t then false else if under (k_mp k) t then true else hidden_at tab t.
Proof. unfold hidden_at. rewrite fold_left_app. reflexivity. Qed.

(* after the topmost line at t only the later lines matter *)
Lemma hidden_at_split l1 k l2 t : k_mp k = t -> (forall m, In m l2 -> beq (k_mp m) t = false) ->
  hidden_at (l1 ++ k :: l2) t = existsb (fun m => under (k_mp m) t) l2.
Proof.
  intros Hk. induction l2 as [|x l2 IH] using rev_ind; intros Hl2.
  - change (l1 ++ [k]) with (l1 ++ [k]). rewrite hidden_at_app, Hk, beq_refl. reflexivity.
  - change (l1 ++ k :: l2 ++ [x]) with (l1 ++ (k :: l2) ++ [x]). rewrite app_assoc, hidden_at_app.
    rewrite (Hl2 x) by (apply in_or_app; right; now left).
    rewrite existsb_app. cbn [existsb]. rewrite orb_false_r.
    rewrite IH by (intros m Hm; apply Hl2; apply in_or_app; now left).
    destruct (under (k_mp x) t); [now rewrite orb_true_r|now rewrite orb_false_r].
Qed.

(* [nocov P tab] (Model/Kernel.v) is closed under deleting lines *)
Lemma nocov_del P l1 k l2 : nocov P (l1 ++ k :: l2) = true -> nocov P (l1 ++ l2) = true.
Proof.
  induction l1 as [|x l1 IH]; cbn [app nocov].
  - rewrite andb_true_iff. tauto.
  - rewrite !andb_true_iff, !orb_true_iff, !forallb_app. cbn [forallb]. rewrite !andb_true_iff.
    intros [[H|[H1 [_ H2]]] H3]; auto.
Qed.
Lemma dels_nocov P Q a b0 : dels Q a b0 -> nocov P a = true -> nocov P b0 = true.
Proof. induction 1; auto. intros H1. apply IHdels. eapply nocov_del; eauto. Qed.
Lemma nocov_mono (P Q : kline -> bool) tab : (forall k, P k = true -> Q k = true) ->
  nocov Q tab = true -> nocov P tab = true.
Proof.
  intros H. induction tab as [|k r IH]; cbn [nocov]; [reflexivity|].
  rewrite !andb_true_iff, !orb_true_iff, !negb_true_iff. intros [[Hq|Hf] Hr]; (split; [|now apply IH]).
  - left. destruct (P k) eqn:E; [|reflexivity]. rewrite (H k E) in Hq. discriminate.
  - now right.
Qed.
Lemma nocov_app_inv P l1 k l2 : nocov P (l1 ++ k :: l2) = true -> P k = true ->
  forall m, In m l2 -> under (k_mp m) (k_mp k) = false.
Proof.
  induction l1 as [|x l1 IH]; cbn [app nocov]; rewrite !andb_true_iff.
  - intros [H _] Hk m Hm. rewrite Hk in H. cbn in H. rewrite forallb_forall in H.
    now apply negb_true_iff, H.
  - intros [_ H]. now apply IH.
Qed.

(* a selected mountpoint of such a table is not hidden *)
Lemma nocov_not_hidden P tab t k : nocov P tab = true -> top_at tab t = Some k -> P k = true ->
  hidden_at tab t = false.
Proof.
  intros Hn Htop Hk. destruct (top_at_spec _ _ _ Htop) as (l1 & l2 & -> & Hmp & Hl2).
  rewrite (hidden_at_split l1 k l2 t Hmp Hl2). apply existsb_false_forall. intros m Hm.
  rewrite <- Hmp. eapply nocov_app_inv; eauto.
Qed.

Lemma kumount_spec ks t fl :
  kumount ks t fl =
  match top_at (ks_tab ks) t with
  | None => KErr
  | Some k => if negb (hidden_at (ks_tab ks) t) && no_children (ks_tab ks) k
              then KOk (MkKS (remove_id (ks_tab ks) (k_id k)) (ks_nextid ks) (ks_nextdev ks)) else KErr
  end.
Proof.
  unfold kumount, no_children. destruct (top_at (ks_tab ks) t); [|reflexivity].
  destruct (hidden_at _ _); [reflexivity|]. now destruct (existsb _ _).
Qed.

Lemma kumount_ok ks t fl ks' : NoDup (kids (ks_tab ks)) -> kumount ks t fl = KOk ks' ->
  exists l1 k l2, ks_tab ks = l1 ++ k :: l2 /\ k_mp k = t /\ ks_tab ks' = l1 ++ l2
    /\ ks_nextid ks' = ks_nextid ks /\ ks_nextdev ks' = ks_nextdev ks.
Proof.
  intros ND. rewrite kumount_spec. destruct (top_at (ks_tab ks) t) as [k|] eqn:E; [|discriminate].
  destruct (negb _ && no_children _ k); [|discriminate]. intros H. injection H as <-.
  destruct (top_at_spec _ _ _ E) as (l1 & l2 & Ht & Hk & _). exists l1, k, l2. cbn.
  rewrite Ht in ND |- *. rewrite remove_id_unique by assumption. auto.
Qed.

(* parent ids: a line's parent is never a later line, and a later line whose parent is k lies
   at or under k's mountpoint *)
Fixpoint pwf (tab : list kline) : bool :=
  match tab with
  | [] => true
  | k :: r =>
    forallb (fun m => negb (beq (k_parent k) (k_id m))) r
    && forallb (fun m => negb (beq (k_parent m) (k_id k)) || at_or_under (k_mp k) (k_mp m)) r
    && pwf r
  end.

Lemma pwf_del l1 k l2 : pwf (l1 ++ k :: l2) = true -> pwf (l1 ++ l2) = true.
Proof.
  induction l1 as [|x l1 IH]; cbn [app pwf].
  - rewrite !andb_true_iff. tauto.
  - rewrite !andb_true_iff, !forallb_app. cbn [forallb]. rewrite !andb_true_iff.
    intros [[[H1 [_ H2]] [H3 [_ H4]]] H5]. auto.
Qed.
Lemma dels_pwf P a b0 : dels P a b0 -> pwf a = true -> pwf b0 = true.
Proof. induction 1; auto. intros H1. apply IHdels. eapply pwf_del; eauto. Qed.

Lemma pwf_app_inv l1 k l2 : pwf (l1 ++ k :: l2) = true ->
  (forall m, In m l1 -> beq (k_parent m) (k_id k) = false)
  /\ (forall m, In m l2 -> beq (k_parent m) (k_id k) = true -> at_or_under (k_mp k) (k_mp m) = true).
Proof.
  induction l1 as [|x l1 IH]; cbn [app pwf]; rewrite !andb_true_iff.
  - intros [[_ H2] _]. split; [intros m []|]. intros m Hm E. rewrite forallb_forall in H2.
    specialize (H2 m Hm). rewrite E in H2. exact H2.
  - intros [[H1 _] H3]. destruct (IH H3) as [A B]. split; [|exact B].
    intros m [<-|Hm]; [|auto]. rewrite forallb_forall in H1.
    assert (Hk : In k (l1 ++ k :: l2)) by (apply in_or_app; right; now left).
    specialize (H1 k Hk). now apply negb_true_iff in H1.
Qed.

(* with well-formed parents, the topmost mount at t has no child unless something is mounted
   strictly under t *)
Lemma no_children_top tab t k : pwf tab = true -> NoDup (kids tab) -> beq t root = false ->
  top_at tab t = Some k -> (forall m, In m tab -> under t (k_mp m) = false) ->
  no_children tab k = true.
Proof.
  intros Hp ND Ht Htop Hun. destruct (top_at_spec _ _ _ Htop) as (l1 & l2 & -> & Hk & Hl2).
  destruct (pwf_app_inv _ _ _ Hp) as [A B].
  unfold no_children. apply negb_true_iff, existsb_false_forall. intros m Hm.
  apply in_app_or in Hm as [Hm|[<-|Hm]].
  - now rewrite A.
  - rewrite beq_refl. cbn. apply andb_false_r.
  - destruct (beq (k_parent m) (k_id k)) eqn:E; [|reflexivity]. exfalso.
    specialize (B m Hm E). rewrite Hk in B. unfold at_or_under in B. apply orb_true_iff in B as [B|B].
    + rewrite (Hl2 m Hm) in B. discriminate.
    + rewrite Hun in B; [discriminate|]. apply in_or_app. right. now right.
Qed.

(* ------------------------------------------------------------------ sequences of umount calls *)
Fixpoint ku_seq (ks : kstate) (ts : list bytes) : bool * kstate * list bytes :=
  match ts with
  | [] => (true, ks, [])
  | t :: r =>
    match kumount ks t 0 with
    | KErr => (false, ks, [t])
    | KOk ks' => let '(ok, k2, iss) := ku_seq ks' r in (ok, k2, t :: iss)
    end
  end.

Fixpoint ku_replay (ks : kstate) (iss : list bytes) : kstate :=
  match iss with
  | [] => ks
  | t :: r => match kumount ks t 0 with KOk ks' => ku_replay ks' r | KErr => ku_replay ks r end
  end.

Fixpoint legal_seq (P : list kline -> bytes -> bool) (ks : kstate) (iss : list bytes) : bool :=
  match iss with
  | [] => true
  | t :: r => P (ks_tab ks) t
              && match kumount ks t 0 with KOk ks' => legal_seq P ks' r | KErr => legal_seq P ks r end
  end.

Lemma ku_replay_app ks a b0 : ku_replay ks (a ++ b0) = ku_replay (ku_replay ks a) b0.
Proof. revert ks. induction a as [|t a IH]; intros ks; cbn; [reflexivity|]. destruct (kumount ks t 0); apply IH. Qed.
Lemma legal_seq_app P ks a b0 : legal_seq P ks (a ++ b0) = legal_seq P ks a && legal_seq P (ku_replay ks a) b0.
Proof.
  revert ks. induction a as [|t a IH]; intros ks; cbn; [reflexivity|].
  destruct (kumount ks t 0); rewrite IH; now rewrite andb_assoc.
Qed.
Lemma ku_seq_replay ks ts : let '(ok, ks', iss) := ku_seq ks ts in ku_replay ks iss = ks'.
Proof.
  revert ks. induction ts as [|t r IH]; intros ks; cbn; [reflexivity|].
  destruct (kumount ks t 0) as [ks1|] eqn:E.
  - specialize (IH ks1). destruct (ku_seq ks1 r) as [[ok k2] iss]. cbn. now rewrite E.
  - cbn. now rewrite E.
Qed.

(* the call on t is legal: t is a mountpoint, lies in the permitted region, nothing is below it *)
Definition um_legal (region : bytes -> bool) (tab : list kline) (t : bytes) : bool :=
  (match top_at tab t with Some _ => true | None => false end)
  && region t
  && negb (existsb (fun k => under t (k_mp k)) tab).

(* the core: a descending list that is, as a multiset, the mountpoints at or below d can be
   unmounted in order; every call is legal; only lines at or below d disappear; if every call
   succeeds nothing at or below d is left; with well-formed parent ids and no covered line at or
   below d every call succeeds *)
Lemma ku_seq_core d (region : bytes -> bool) : good_root d = true ->
  (forall t, at_or_below d t = true -> region t = true) ->
  forall ts ks, desc ts ->
  Permutation ts (filter (at_or_below d) (map k_mp (ks_tab ks))) ->
  NoDup (kids (ks_tab ks)) ->
  exists ok ks' iss, ku_seq ks ts = (ok, ks', iss)
    /\ legal_seq (um_legal region) ks iss = true
    /\ dels (fun k => at_or_below d (k_mp k)) (ks_tab ks) (ks_tab ks')
    /\ ks_nextid ks' = ks_nextid ks /\ ks_nextdev ks' = ks_nextdev ks
    /\ (ok = true -> iss = ts /\ forall m, In m (ks_tab ks') -> at_or_below d (k_mp m) = false)
    /\ (ok = false -> iss <> [])
    /\ (pwf (ks_tab ks) = true -> nocov (fun k => at_or_below d (k_mp k)) (ks_tab ks) = true -> ok = true).
Proof.
  intros Hd Hreg. induction ts as [|t r IH]; intros ks Hdesc Hperm ND.
  - exists true, ks, []. cbn. repeat split; auto; try constructor; try discriminate.
    intros m Hm. destruct (at_or_below d (k_mp m)) eqn:E; [|reflexivity]. exfalso.
    apply Permutation_nil in Hperm.
    assert (Hin : In (k_mp m) (filter (at_or_below d) (map k_mp (ks_tab ks)))).
    { apply filter_In. split; [now apply in_map|exact E]. }
    rewrite Hperm in Hin. exact Hin.
  - assert (Ht : In t (filter (at_or_below d) (map k_mp (ks_tab ks)))).
    { eapply Permutation_in; [exact Hperm|now left]. }
    apply filter_In in Ht as [Htin Htd].
    pose proof (target_not_root d t Hd Htd) as Htr.
    destruct (top_at_some _ _ Htin) as [k Hk].
    assert (Hun : forall m, In m (ks_tab ks) -> under t (k_mp m) = false).
    { intros m Hm. rewrite under_nonroot by assumption.
      destruct (prefixb (t ++ [sl]) (k_mp m)) eqn:E; [|reflexivity]. exfalso.
      assert (Hin : In (k_mp m) (t :: r)).
      { eapply Permutation_in; [symmetry; exact Hperm|]. apply filter_In. split; [now apply in_map|].
        eapply at_or_below_trans; eauto. }
      pose proof (below_lt _ _ E) as L. destruct Hin as [Heq|Hin]; [rewrite <- Heq, ltb_irrefl in L; discriminate|].
      assert (HF : Forall (fun b0 => ltb t b0 = false) r) by (inversion Hdesc; assumption).
      rewrite Forall_forall in HF. rewrite (HF _ Hin) in L. discriminate. }
    assert (Hlegal : um_legal region (ks_tab ks) t = true).
    { unfold um_legal. rewrite Hk, (Hreg t Htd). cbn. apply negb_true_iff, existsb_false_forall. exact Hun. }
    cbn [ku_seq].
    destruct (kumount ks t 0) as [ks1|] eqn:E.
    + destruct (kumount_ok _ _ _ _ ND E) as (l1 & k1 & l2 & Htab & Hmp & Htab1 & Hid1 & Hdev1).
      assert (Hperm1 : Permutation r (filter (at_or_below d) (map k_mp (ks_tab ks1)))).
      { rewrite Htab1. rewrite Htab in Hperm. rewrite map_app, filter_app in Hperm |- *.
        cbn [map filter] in Hperm. rewrite Hmp, Htd in Hperm.
        eapply Permutation_cons_app_inv. exact Hperm. }
      assert (ND1 : NoDup (kids (ks_tab ks1))).
      { rewrite Htab1. rewrite Htab in ND. eapply nodup_kids_del; eauto. }
      assert (Hdesc1 : desc r) by (inversion Hdesc; assumption).
      destruct (IH ks1 Hdesc1 Hperm1 ND1) as (ok & ks' & iss & R & L & D & I1 & I2 & Hok & Hno & Hpw).
      exists ok, ks', (t :: iss). rewrite R. split; [reflexivity|].
      split. { cbn [legal_seq]. rewrite Hlegal, E. exact L. }
      split. { rewrite Htab. apply dels_step; [now rewrite Hmp|]. now rewrite <- Htab1. }
      split; [congruence|]. split; [congruence|]. split.
      { intros Eok. destruct (Hok Eok) as [-> Hrem]. split; [reflexivity|exact Hrem]. }
      split; [discriminate|].
      intros Hp Hnc. apply Hpw; rewrite Htab1; [rewrite Htab in Hp; eapply pwf_del; eauto|].
      rewrite Htab in Hnc. eapply nocov_del; eauto.
    + exists false, ks, [t]. split; [reflexivity|].
      split. { cbn [legal_seq]. rewrite Hlegal, E. reflexivity. }
      split; [constructor|].
      split; [reflexivity|]. split; [reflexivity|]. split; [discriminate|]. split; [discriminate|].
      intros Hp Hnc. exfalso. rewrite kumount_spec, Hk in E.
      rewrite (no_children_top _ _ _ Hp ND Htr Hk Hun) in E.
      rewrite (nocov_not_hidden _ _ _ _ Hnc Hk) in E; [discriminate|].
      destruct (top_at_spec _ _ _ Hk) as (? & ? & _ & -> & _). exact Htd.
Qed.

Lemma ku_seq_wf ts : forall ks ok ks' iss, ku_seq ks ts = (ok, ks', iss) ->
  wf_table (ks_tab ks) = true -> wf_table (ks_tab ks') = true.
Proof.
  induction ts as [|t r IH]; intros ks ok ks' iss; cbn [ku_seq].
  - intros H. injection H as _ <- _. auto.
  - rewrite kumount_spec. destruct (top_at (ks_tab ks) t) as [k|].
    2:{ intros H. injection H as _ <- _. auto. }
    destruct (negb _ && no_children (ks_tab ks) k).
    2:{ intros H. injection H as _ <- _. auto. }
    destruct (ku_seq _ r) as [[ok1 k2] iss1] eqn:E. intros H. injection H as _ <- _. intros Hwf.
    eapply IH; [exact E|]. cbn [ks_tab]. unfold wf_table, remove_id in *.
    rewrite forallb_forall in *. intros x Hx. apply filter_In in Hx as [Hx _]. auto.
Qed.

Lemma ku_seq_nonempty ts ks ok ks' iss : ts <> [] -> ku_seq ks ts = (ok, ks', iss) -> iss <> [].
Proof.
  destruct ts as [|t r]; [congruence|]. intros _. cbn [ku_seq].
  destruct (kumount ks t 0); [destruct (ku_seq _ r) as [[? ?] ?]|]; intros H; injection H as _ _ <-; discriminate.
Qed.

Lemma ku_seq_sub ts : forall ks ok ks' iss, ku_seq ks ts = (ok, ks', iss) -> forall t, In t iss -> In t ts.
Proof.
  induction ts as [|t r IH]; intros ks ok ks' iss; cbn [ku_seq].
  - intros H. injection H as _ _ <-. intros t [].
  - destruct (kumount ks t 0) as [k1|].
    + destruct (ku_seq k1 r) as [[ok1 k2] iss1] eqn:E. intros H. injection H as _ _ <-.
      intros z [<-|Hz]; [now left|right]. eapply IH; eauto.
    + intros H. injection H as _ _ <-. intros z [<-|[]]. now left.
Qed.

Lemma dels_filter_mp P (Q : bytes -> bool) a b0 : (forall k, P k = true -> Q (k_mp k) = false) ->
  dels P a b0 -> filter Q (map k_mp a) = filter Q (map k_mp b0).
Proof.
  intros H. induction 1 as [|l1 k l2 tab' Hk _ IH]; [reflexivity|].
  rewrite <- IH, !map_app, !filter_app. cbn [map filter]. now rewrite (H k Hk).
Qed.

Lemma ku_seq_replay_eq ks ts ok ks' iss : ku_seq ks ts = (ok, ks', iss) -> ku_replay ks iss = ks'.
Proof. intros H. pose proof (ku_seq_replay ks ts) as R. now rewrite H in R. Qed.

Lemma ku_seq_incl ts : forall ks ok ks' iss, ku_seq ks ts = (ok, ks', iss) -> incl (ks_tab ks') (ks_tab ks).
Proof.
  induction ts as [|t r IH]; intros ks ok ks' iss; cbn [ku_seq].
  - intros H. injection H as _ <- _. apply incl_refl.
  - rewrite kumount_spec. destruct (top_at (ks_tab ks) t) as [k|].
    2:{ intros H. injection H as _ <- _. apply incl_refl. }
    destruct (negb _ && no_children (ks_tab ks) k).
    2:{ intros H. injection H as _ <- _. apply incl_refl. }
    destruct (ku_seq _ r) as [[ok1 k2] iss1] eqn:E. intros H. injection H as _ <- _.
    eapply incl_tran; [eapply IH; exact E|]. cbn [ks_tab]. unfold remove_id. intros x Hx.
    now apply filter_In in Hx.
Qed.
