(* The command monad of Model/Layers.v under a plain environment (no pretend, no fault):
   mutating primitives, sequences of umount calls, reflexivity of the comparison functions. *)
From Coq Require Import Sorting.Permutation.
From LC Require Import Lib.Bytes Lib.Lex Lib.Fields Lib.PathM Gen.Consts
  Model.MountInfo Model.FsTree Model.Kernel Model.Layers Proofs.KernelP.

Definition plain (e : env) : Prop := e_pretend e = false /\ e_fault e = NoFault.

Lemma mutate_plain e o act s : plain e ->
  mutate e o act s = act (MkSt (s_w s) (S (s_n s)) (o :: s_log s)).
Proof. intros [H1 H2]. unfold mutate. rewrite H1, H2. reflexivity. Qed.

Definition umflag (e : env) : N := if e_force e then MNT_FORCE else 0%N.

Lemma fs_unmount_plain e t s : plain e ->
  fs_unmount e t s =
  match kumount (w_ks (s_w s)) t 0 with
  | KOk k' => (Ret tt, MkSt (MkW (w_fs (s_w s)) k') (S (s_n s)) (OUmount t (umflag e) :: s_log s))
  | KErr => (Fail, MkSt (s_w s) (S (s_n s)) (OUmount t (umflag e) :: s_log s))
  end.
Proof.
  intros Hp. unfold fs_unmount, do_op. rewrite mutate_plain by assumption.
  unfold apply_op, bind, get_fs, get_ks, put_ks, fail. cbn [s_w s_n s_log w_fs w_ks].
  change (kumount (w_ks (s_w s)) t (if e_force e then MNT_FORCE else 0%N)) with (kumount (w_ks (s_w s)) t 0).
  destruct (kumount (w_ks (s_w s)) t 0); reflexivity.
Qed.

Definition umlog (e : env) (iss : list bytes) : list op := map (fun t => OUmount t (umflag e)) iss.

(* a sequence of unmount calls is the kernel-level [ku_seq], logged call by call *)
Lemma unmount_seq e ts : plain e -> forall s,
  mapM_ (fs_unmount e) ts s =
  let '(ok, ks', iss) := ku_seq (w_ks (s_w s)) ts in
  (if ok then Ret tt else Fail,
   MkSt (MkW (w_fs (s_w s)) ks') (length iss + s_n s) (rev (umlog e iss) ++ s_log s)).
Proof.
  intros Hp. induction ts as [|t r IH]; intros s.
  - cbn. destruct s as [[f k] n lg]. reflexivity.
  - cbn [mapM_ ku_seq]. unfold bind at 1. rewrite fs_unmount_plain by assumption.
    destruct (kumount (w_ks (s_w s)) t 0) as [k'|] eqn:E.
    + rewrite IH. cbn [s_w w_ks w_fs s_n s_log].
      destruct (ku_seq k' r) as [[ok k2] iss]. cbn [length umlog map rev].
      rewrite <- app_assoc. cbn [app]. unfold umlog.
      replace (length iss + S (s_n s))%nat with (S (length iss) + s_n s)%nat by lia. reflexivity.
    + cbn. destruct s as [[f k] n lg]. reflexivity.
Qed.

(* ------------------------------------------------------------------ comparison functions *)
Lemma list_beq_refl {A} (eq : A -> A -> bool) : (forall x, eq x x = true) -> forall l, list_beq eq l l = true.
Proof. intros H. induction l; cbn; auto. now rewrite H, IHl. Qed.
Lemma node_beq_refl n : node_beq n n = true.
Proof. destruct n; cbn; auto using beq_refl. Qed.
Lemma entry_beq_refl x : entry_beq x x = true.
Proof. unfold entry_beq. now rewrite beq_refl, node_beq_refl. Qed.
Lemma fs_beq_refl f : fs_beq f f = true.
Proof. unfold fs_beq. apply list_beq_refl, entry_beq_refl. Qed.
Lemma opt_beq_refl {A} (eq : A -> A -> bool) : (forall x, eq x x = true) -> forall o, opt_beq eq o o = true.
Proof. intros H [x|]; cbn; auto. Qed.
Lemma kline_beq_refl k : kline_beq k k = true.
Proof.
  unfold kline_beq. rewrite !beq_refl. cbn. rewrite (list_beq_refl beq beq_refl). cbn.
  apply list_beq_refl. intros [a o]. cbn. rewrite beq_refl. cbn. apply opt_beq_refl, beq_refl.
Qed.
Lemma ktab_beq_refl t : ktab_beq t t = true.
Proof. apply list_beq_refl, kline_beq_refl. Qed.
