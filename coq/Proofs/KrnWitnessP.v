(* Closed worlds for docs/proofs-C03-C04.md:
   (1) a non-trivial world satisfying every hypothesis set used by the C03 / C04 theorems;
   (2) for every hypothesis that is more than well-formedness, a world on which the property
       predicate evaluated on the MODEL's own step is false without it. *)
From LC Require Import Lib.Bytes Lib.Lex Lib.Fields Lib.PathM Gen.Consts
  Model.MountInfo Model.FsTree Model.Kernel Model.Layers
  Proofs.KernelP Proofs.ProbeP Proofs.UmountAllP Proofs.C03P Proofs.C04P Proofs.C03AllP
  Cases.LC Cases.C03 Cases.C04.
Import LC LCS.
Open Scope string_scope.
Open Scope list_scope.

Definition mkcfg (buildroot : string) : cfgT :=
  MkCfg (bs "/b") (bs "/b/layers") (bs buildroot) (bs "packages") (bs "generated")
        (bs "overlayfs/workdir") (bs "overlayfs/upperdir") (bs "/b/export") (bs "packages") (bs "generated").
Definition cfg0 : cfgT := mkcfg "build".

Definition base_fs : fsT :=
  [ (bs "/b", Dir); (bs "/b/layers", Dir); (bs "/b/export", Dir);
    (bs "/b/default_layerconfig.skel", File (bs "")) ].
Definition layer_fs (n : string) (conf : bytes) : fsT :=
  [ (bs "/b/layers/" ++ bs n, Dir); (bs "/b/layers/" ++ bs n ++ bs "/layerconfig", File conf);
    (bs "/b/layers/" ++ bs n ++ bs "/build", Dir) ].
Definition derived_fs (n : string) : fsT :=
  [ (bs "/b/layers/" ++ bs n ++ bs "/overlayfs", Dir);
    (bs "/b/layers/" ++ bs n ++ bs "/overlayfs/workdir", Dir);
    (bs "/b/layers/" ++ bs n ++ bs "/overlayfs/upperdir", Dir) ].

Definition line (id par mp fstype src : string) (sopts : list (bytes * option bytes)) : kline :=
  MkK (bs id) (bs par) (bs "0:1") (bs "/") (bs mp) (bs "rw") [] (bs fstype) (bs src) sopts.
Definition rw : list (bytes * option bytes) := [(bs "rw", None)].
Definition ovl (lower upper work : string) : list (bytes * option bytes) :=
  [(bs "rw", None); (bs "lowerdir", Some (bs lower)); (bs "upperdir", Some (bs upper)); (bs "workdir", Some (bs work))].
Definition rootline : kline := line "20" "1" "/" "ext4" "/dev/sda" rw.
Definition e0 : env := MkEnv false NoFault false false [].
Definition c03 (cfg : cfgT) (w : wobs) (cmd : command) (um : users_map) : bool :=
  C03.step_spec cfg w (view_of_model cfg w e0 cmd um).
Definition c04 (cfg : cfgT) (w : wobs) (cmd : command) (um : users_map) : bool :=
  C04.step_spec cfg w (view_of_model cfg w e0 cmd um).

(* ------------------------------------------------------------------ (1) the hypotheses are satisfiable *)
(* base layer a with /proc mounted inside; derived layer b: overlay on a, devtmpfs on build/dev
   and a tmpfs stacked on the same mountpoint; a process with its cwd in a's packages directory *)
Definition good_world : wobs :=
  MkWO (base_fs ++ layer_fs "a" [] ++ layer_fs "b" (bs "base a" ++ [nl]) ++ derived_fs "b")
       (MkKS [ rootline;
               line "33" "20" "/b/layers/a/build/proc" "proc" "proc" rw;
               line "30" "20" "/b/layers/b/build" "overlay" "overlay"
                    (ovl "/b/layers/a/build" "/b/layers/b/overlayfs/upperdir" "/b/layers/b/overlayfs/workdir");
               line "31" "30" "/b/layers/b/build/dev" "devtmpfs" "dev" rw;
               line "32" "31" "/b/layers/b/build/dev" "tmpfs" "shm" rw ] 40 5).
Definition good_users : users_map := [(bs "a", [MkU false (bs "packages/x")])].

Example plain_env_sat : plain_env e0 = true.
Proof. vm_compute. reflexivity. Qed.
Example C03_all_hyp_sat : C03_all_hyp cfg0 good_world = true.
Proof. vm_compute. reflexivity. Qed.
Example C03_all_safe_hyp_sat : C03_all_safe_hyp cfg0 good_world = true.
Proof. vm_compute. reflexivity. Qed.
Example C03_hyp_sat :
  forallb (fun na => C03_hyp cfg0 good_world (fst na) (snd na))
          [([], false); (bs "b", false); (bs "a", false); ([], true); (bs "b", true)] = true.
Proof. vm_compute. reflexivity. Qed.
Example C04_hyp_sat :
  forallb (C04_hyp cfg0 good_world)
          [CRemove (bs "a") false; CRemove (bs "b") true; CRename (bs "a") (bs "z"); CRebase (bs "b") [];
           CUmount (bs "b") false; CUmount (bs "a") false; CUmount [] true; CProbe] = true.
Proof. vm_compute. reflexivity. Qed.
(* the world is not trivial: umount -all issues four calls (the stacked mountpoint twice),
   succeeds and leaves only the host's root mount; remove / rename / rebase are refused *)
Example good_world_umount_all :
  let v := view_of_model cfg0 good_world e0 (CUmount [] true) good_users in
  (rclass_beq (v_res v) ROk && (length (v_log v) =? 4)%nat
   && ktab_beq (ks_tab (wo_ks (v_after v))) [rootline]) = true.
Proof. vm_compute. reflexivity. Qed.
Example good_world_refusals :
  forallb (fun cmd => rclass_beq (v_res (view_of_model cfg0 good_world e0 cmd good_users)) RFail)
          [CRemove (bs "a") false; CRename (bs "a") (bs "z"); CRebase (bs "b") []] = true.
Proof. vm_compute. reflexivity. Qed.

(* ------------------------------------------------------------------ (2) refutations *)
(* R1 (round 1; REPAIRED in round 2: ProbeAllLayerstate now collects users and mounts for
   error-state layers too).  A layer whose layerconfig does not parse was never probed: umount
   -all reported success and left its mounts; umount of that layer said "not mounted".  Now both
   predicates hold on this world and the layer is unmounted. *)
Definition w_err : wobs :=
  MkWO (base_fs ++ layer_fs "e" (bs "bogus" ++ [nl]))
       (MkKS [rootline; line "21" "20" "/b/layers/e/build/proc" "proc" "proc" rw] 40 5).
Example error_layer_all_now_holds : c03 cfg0 w_err (CUmount [] true) [] && c04 cfg0 w_err (CUmount [] true) [] = true.
Proof. vm_compute. reflexivity. Qed.
Example error_layer_all_unmounts :
  let v := view_of_model cfg0 w_err e0 (CUmount [] true) [] in
  rclass_beq (v_res v) ROk && ktab_beq (ks_tab (wo_ks (v_after v))) [rootline] = true.
Proof. vm_compute. reflexivity. Qed.
Example error_layer_umount_now_holds :
  let v := view_of_model cfg0 w_err e0 (CUmount (bs "e") false) [] in
  c03 cfg0 w_err (CUmount (bs "e") false) [] && c04 cfg0 w_err (CUmount (bs "e") false) []
  && rclass_beq (v_res v) ROk && ktab_beq (ks_tab (wo_ks (v_after v))) [rootline] = true.
Proof. vm_compute. reflexivity. Qed.

(* R2: an overlay over b mounted (by hand) on the build root of the unrelated layer a, which is
   visited after b: b is skipped as overlain, then a's unmount removes that overlay; the run
   fails although b is no longer busy at the end *)
Definition w_ovl : wobs :=
  MkWO (base_fs ++ layer_fs "a" [] ++ layer_fs "b" [])
       (MkKS [rootline; line "21" "20" "/b/layers/b/build/proc" "proc" "proc" rw;
              line "22" "20" "/b/layers/a/build" "overlay" "overlay" (ovl "/b/layers/b/build" "/u" "/w")] 40 5).
Example C03_refuted_misplaced_overlay : c03 cfg0 w_ovl (CUmount [] true) [] = false.
Proof. vm_compute. reflexivity. Qed.

(* R3 (round 1; the predicates now carry the precondition base_set_up && check_inheritance).
   The skeleton file of the base directory is missing: every command fails at once, also umount
   of a mounted idle layer -- and changes nothing, which is what the predicates now ask. *)
Definition w_nobase : wobs :=
  MkWO ([ (bs "/b", Dir); (bs "/b/layers", Dir); (bs "/b/export", Dir) ] ++ layer_fs "a" [])
       (MkKS [rootline; line "21" "20" "/b/layers/a/build/proc" "proc" "proc" rw] 40 5).
Example base_not_set_up_now_holds :
  let v := view_of_model cfg0 w_nobase e0 (CUmount [] true) [] in
  c03 cfg0 w_nobase (CUmount [] true) [] && c04 cfg0 w_nobase (CUmount (bs "a") false) []
  && rclass_beq (v_res v) RFail && unchanged w_nobase v = true.
Proof. vm_compute. reflexivity. Qed.

(* R4 (round 1; REPAIRED in round 2).  rename / rebase of a layer whose direct child is in error
   state and has a process in its build root: the child was not classified and the command went
   ahead; now the child is busy and both commands are refused. *)
Definition w_errchild : wobs :=
  MkWO (base_fs ++ layer_fs "a" [] ++ layer_fs "k" (bs "base a" ++ [nl] ++ bs "bogus" ++ [nl]))
       (MkKS [rootline] 40 5).
Definition um_errchild : users_map := [(bs "k", [MkU false (bs "build/x")])].
Example error_child_now_protected :
  forallb (fun cmd => c04 cfg0 w_errchild cmd um_errchild
                      && rclass_beq (v_res (view_of_model cfg0 w_errchild e0 cmd um_errchild)) RFail)
          [CRename (bs "a") (bs "z"); CRebase (bs "a") []] = true.
Proof. vm_compute. reflexivity. Qed.

(* R5: the build root configured as "build/": SameDirectoryOrDescendant treats a user file
   "build/x" as inside it, the property's path test does not *)
Definition w_one : wobs :=
  MkWO (base_fs ++ layer_fs "a" [])
       (MkKS [rootline; line "21" "20" "/b/layers/a/build/proc" "proc" "proc" rw] 40 5).
Definition um_one : users_map := [(bs "a", [MkU false (bs "build/x")])].
Example C04_refuted_trailing_slash : c04 (mkcfg "build/") w_one (CUmount (bs "a") false) um_one = false.
Proof. vm_compute. reflexivity. Qed.
Example C03_refuted_trailing_slash : c03 (mkcfg "build/") w_one (CUmount [] true) um_one = false.
Proof. vm_compute. reflexivity. Qed.

(* R6: degenerate build roots.  "../../.." makes the build root "/": GetMountAndSubmounts("/")
   finds only "/" itself *)
Definition w_rootbld : wobs :=
  MkWO (base_fs ++ [ (bs "/b/layers/a", Dir); (bs "/b/layers/a/layerconfig", File []); (bs "/", Dir)])
       (MkKS [line "21" "1" "/mnt" "ext4" "/dev/sdb" rw; line "22" "1" "/" "ext4" "/dev/sda" rw] 40 5).
Example C03_refuted_build_root_slash : c03 (mkcfg "../../..") w_rootbld (CUmount (bs "a") false) [] = false.
Proof. vm_compute. reflexivity. Qed.
(* "../shared" gives every layer the same build root *)
Definition w_shared : wobs :=
  MkWO (base_fs ++ [ (bs "/b/layers/a", Dir); (bs "/b/layers/a/layerconfig", File []);
                     (bs "/b/layers/b", Dir); (bs "/b/layers/b/layerconfig", File []);
                     (bs "/b/layers/shared", Dir)])
       (MkKS [rootline; line "21" "20" "/b/layers/shared/proc" "proc" "proc" rw] 40 5).
Example C04_refuted_shared_build_root :
  c04 (mkcfg "../shared") w_shared (CUmount [] true) [(bs "a", [MkU false (bs "../shared/x")])] = false.
Proof. vm_compute. reflexivity. Qed.
Example C03_refuted_shared_build_root : c03 (mkcfg "../shared") w_shared (CUmount [] true) [] = false.
Proof. vm_compute. reflexivity. Qed.

(* R7: kernel tables that are not well formed.  Two lines with one mount id: umount(2) of one
   removes both, also the one outside the build root *)
Definition w_dupid : wobs :=
  MkWO (base_fs ++ layer_fs "a" [])
       (MkKS [rootline; line "21" "20" "/mnt" "ext4" "/dev/sdb" rw;
              line "21" "20" "/b/layers/a/build/proc" "proc" "proc" rw] 40 5).
Example C03_refuted_duplicate_ids : c03 cfg0 w_dupid (CUmount (bs "a") false) [] = false.
Proof. vm_compute. reflexivity. Qed.
(* a mount outside the layer names a layer mount as its parent: EBUSY, umount -all fails with
   the idle layer still mounted *)
Definition w_badparent : wobs :=
  MkWO (base_fs ++ layer_fs "a" [])
       (MkKS [rootline; line "21" "20" "/b/layers/a/build/proc" "proc" "proc" rw;
              line "22" "21" "/mnt" "ext4" "/dev/sdb" rw] 40 5).
Example C03_refuted_bad_parent_ids : c03 cfg0 w_badparent (CUmount [] true) [] = false.
Proof. vm_compute. reflexivity. Qed.
(* ... while safety still holds there *)
Example C03_bad_parent_ids_still_safe :
  all_safe cfg0 w_badparent (view_of_model cfg0 w_badparent e0 (CUmount [] true) []) = true.
Proof. vm_compute. reflexivity. Qed.
(* R8 (known finding 1, round 5): a mount below a build root that a LATER mount on one of its
   ancestor directories covers -- import at build/var/db/repos, then a tmpfs on build/var/db.
   The table is well formed in every other respect (unique ids, parent ids), only [nocov] fails.
   layercake unmounts in descending path order: umount(2) of the covered mountpoint comes first
   and fails (Kernel.v: hidden_at), the command stops, nothing has changed.  umount -all: the
   predicate is false (the idle layer a is still mounted); umount a: the predicate holds (a
   failed single umount promises nothing).  In the other order -- cover first -- both calls
   succeed: the failure is one of ordering. *)
Definition w_cov : wobs :=
  MkWO (base_fs ++ layer_fs "a" [])
       (MkKS [rootline; line "21" "20" "/b/layers/a/build/var/db/repos" "ext4" "/dev/sdb" rw;
              line "22" "20" "/b/layers/a/build/var/db" "tmpfs" "tmpfs" rw] 40 5).
Definition step_of_model (cfg : cfgT) (w : wobs) (e : env) (cmd : command) (um : users_map) : step :=
  let r := run e cfg um cmd (world_of w) in
  let st := snd r in
  MkStep e cmd um (rclass_of (fst r)) (rev (s_log st)) (MkDelta (map fst (wo_fs w)) (w_fs (s_w st)))
         (ks_tab (w_ks (s_w st))) (ks_nextid (w_ks (s_w st))) (ks_nextdev (w_ks (s_w st)))
         (match fst r with Ret (Some ld) => Some (map lobs_of (ld_map ld)) | _ => None end) [].
Definition c_cov : LC.case := MkCase cfg0 (wo_fs w_cov) (wo_ks w_cov) [step_of_model cfg0 w_cov e0 (CUmount [] true) []].
Definition c_cov_single : LC.case :=
  MkCase cfg0 (wo_fs w_cov) (wo_ks w_cov) [step_of_model cfg0 w_cov e0 (CUmount (bs "a") false) []].
Example C03_refuted_1_witness :
  let v := view_of_model cfg0 w_cov e0 (CUmount [] true) [] in
  C03.wf c_cov = true /\ LC.corr c_cov = true /\ C03.kf c_cov = 1%N /\ C03.spec c_cov = false
  /\ c03 cfg0 w_cov (CUmount [] true) [] = false
  /\ v_res v = RFail
  /\ umount_targets (syscalls (v_log v)) = [bs "/b/layers/a/build/var/db/repos"]
  /\ ktab_beq (ks_tab (wo_ks (v_after v))) (ks_tab (wo_ks w_cov)) = true
  /\ all_safe cfg0 w_cov v = true
  /\ C03_all_safe_hyp cfg0 w_cov = true /\ pwf (ks_tab (wo_ks w_cov)) = true
  /\ uok cfg0 (layers_on_disk cfg0 (wo_fs w_cov)) (ks_tab (wo_ks w_cov)) = false
  /\ (let '(ok, ks', _) := ku_seq (wo_ks w_cov) [bs "/b/layers/a/build/var/db"; bs "/b/layers/a/build/var/db/repos"]
      in ok && ktab_beq (ks_tab ks') [rootline]) = true.
Proof. vm_compute. repeat split; reflexivity. Qed.
Example covered_single_umount_fails_and_holds :
  let v := view_of_model cfg0 w_cov e0 (CUmount (bs "a") false) [] in
  C03.wf c_cov_single = true /\ LC.corr c_cov_single = true /\ C03.kf c_cov_single = 0%N
  /\ C03.spec c_cov_single = true /\ v_res v = RFail
  /\ ktab_beq (ks_tab (wo_ks (v_after v))) (ks_tab (wo_ks w_cov)) = true.
Proof. vm_compute. repeat split; reflexivity. Qed.
(* a success that leaves the covered mount behind -- what code that ignores the failing call
   reports -- is rejected by the predicate (kf = 0: no known finding covers it) *)
Definition bad_single_step : step :=
  MkStep e0 (CUmount (bs "a") false) [] ROk
         [OUmount (bs "/b/layers/a/build/var/db/repos") 0; OUmount (bs "/b/layers/a/build/var/db") 0]
         (MkDelta [] [])
         [rootline; line "21" "20" "/b/layers/a/build/var/db/repos" "ext4" "/dev/sdb" rw] 40 5 None [].
Definition c_cov_bad : LC.case := MkCase cfg0 (wo_fs w_cov) (wo_ks w_cov) [bad_single_step].
Example covered_left_behind_rejected :
  C03.wf c_cov_bad = true /\ C03.kf c_cov_bad = 0%N /\ C03.spec c_cov_bad = false.
Proof. vm_compute. repeat split; reflexivity. Qed.

(* with the build root "/" every host mount counts as the layer's for the property, none for
   GetMountAndSubmounts: remove goes ahead *)
Definition w_rootbld2 : wobs :=
  MkWO (base_fs ++ [ (bs "/b/layers/a", Dir); (bs "/b/layers/a/layerconfig", File []); (bs "/", Dir)])
       (MkKS [line "21" "1" "/mnt" "ext4" "/dev/sdb" rw] 40 5).
Example C04_refuted_build_root_slash : c04 (mkcfg "../../..") w_rootbld2 (CRemove (bs "a") true) [] = false.
Proof. vm_compute. reflexivity. Qed.

(* the configuration-level condition that yields proper, pairwise unrelated build roots *)
From LC Require Import Proofs.BuildPathP.
Example cfg_sane_sat : cfg_sane cfg0 = true.
Proof. vm_compute. reflexivity. Qed.
Example cfg_sane_excludes :
  map cfg_sane [mkcfg "build/"; mkcfg "../../.."; mkcfg "../shared"; mkcfg "overlayfs/x"] = [false; false; false; true].
Proof. vm_compute. reflexivity. Qed.

(* the numbering part of the kernel invariant (Proofs/KernelInvP.v) on the good world *)
From LC Require Import Proofs.KernelInvP.
Example numbered_sat : numbered (wo_ks good_world) = true.
Proof. vm_compute. reflexivity. Qed.
