(* inAnyLayerDirectory (repeated path.Dir, 64 steps in the model) is the prefix test
   [at_or_under] on clean absolute paths of at most 64 components. *)
From LC Require Import Lib.Bytes Lib.Lex Lib.Fields Lib.PathM Gen.Consts
  Model.MountInfo Model.FsTree Model.Kernel Model.Layers Proofs.PathP Proofs.StageWildP Proofs.FsGrowP.

(* ------------------------------------------------------------------ "/c1/.../cn" is injective *)
Lemma noslash_split a : forall b x y, noslash a -> noslash b ->
  a ++ sl :: x = b ++ sl :: y -> a = b /\ x = y.
Proof.
  induction a as [|c a IH]; intros b x y Ha Hb E.
  - destruct b as [|d b]; cbn [app] in E.
    + injection E as ->. auto.
    + injection E as <- _. exfalso. apply Hb. now left.
  - destruct b as [|d b]; cbn [app] in E.
    + injection E as -> _. exfalso. apply Ha. now left.
    + injection E as -> E. destruct (IH b x y) as [-> ->]; auto.
      * intros H. apply Ha. now right.
      * intros H. apply Hb. now right.
Qed.

Lemma noslash_end a b x : noslash a -> noslash b -> a ++ sl :: x = b -> False.
Proof. intros Ha Hb E. apply Hb. rewrite <- E. apply in_or_app. right. now left. Qed.

Lemma pth_head cs : cs <> [] -> exists r, pth cs = sl :: r.
Proof. destruct cs as [|c r]; [congruence|]. intros _. rewrite pth_cons. eauto. Qed.

(* a path that extends pth ls by "/..." has ls as a proper prefix of its components *)
Lemma pth_prefix ls : forall cs r, Forall noslash ls -> Forall noslash cs ->
  pth cs = pth ls ++ sl :: r -> exists t, cs = ls ++ t /\ t <> [].
Proof.
  induction ls as [|l ls IH]; intros cs r Hls Hcs E.
  - exists cs. split; [reflexivity|]. intros ->. discriminate.
  - destruct cs as [|c cs]; [discriminate|]. rewrite !pth_cons in E. cbn [app] in E. injection E as E.
    inversion Hls as [|? ? Hl Hls']; subst. inversion Hcs as [|? ? Hc Hcs']; subst.
    rewrite <- app_assoc in E.
    assert (Ht : exists y, pth ls ++ sl :: r = sl :: y).
    { destruct ls as [|l2 ls2]; [exists r; reflexivity|]. rewrite pth_cons. cbn [app]. eexists. reflexivity. }
    destruct Ht as (y & Ey). rewrite Ey in E.
    destruct cs as [|c2 cs2].
    + cbn [pth flat_map] in E. rewrite app_nil_r in E. exfalso. symmetry in E. exact (noslash_end l c y Hl Hc E).
    + rewrite pth_cons in E. destruct (noslash_split c l _ _ Hc Hl E) as [-> E2].
      assert (E3 : pth (c2 :: cs2) = pth ls ++ sl :: r) by (rewrite pth_cons, Ey; now f_equal).
      destruct (IH _ _ Hls' Hcs' E3) as (t & -> & Ht). exists t. split; [reflexivity|exact Ht].
Qed.

Lemma pth_inj ls : forall cs, Forall noslash ls -> Forall noslash cs -> pth cs = pth ls -> cs = ls.
Proof.
  induction ls as [|l ls IH]; intros cs Hls Hcs E.
  - destruct cs; [reflexivity|discriminate].
  - destruct cs as [|c cs]; [discriminate|]. rewrite !pth_cons in E. injection E as E.
    inversion Hls as [|? ? Hl Hls']; subst. inversion Hcs as [|? ? Hc Hcs']; subst.
    destruct cs as [|c2 cs2], ls as [|l2 ls2].
    + cbn [pth flat_map] in E. rewrite !app_nil_r in E. now subst.
    + rewrite pth_cons in E. cbn [pth flat_map] in E. rewrite app_nil_r in E. exfalso.
      symmetry in E. exact (noslash_end l c _ Hl Hc E).
    + rewrite pth_cons in E. cbn [pth flat_map] in E. rewrite app_nil_r in E. exfalso.
      exact (noslash_end c l _ Hc Hl E).
    + rewrite !pth_cons in E. destruct (noslash_split c l _ _ Hc Hl E) as [-> E2]. f_equal.
      apply IH; auto. rewrite !pth_cons. now f_equal.
Qed.

Definition pre (ls cs : list bytes) : Prop := exists t, cs = ls ++ t.

Lemma pre_snoc ls cs b : pre ls (cs ++ [b]) <-> ls = cs ++ [b] \/ pre ls cs.
Proof.
  split.
  - intros (t & E). destruct t as [|x t] using rev_ind.
    + left. now rewrite app_nil_r in E.
    + right. rewrite app_assoc in E. apply app_inj_tail in E as [E _]. now exists t.
  - intros [->|(t & ->)]; [exists []; now rewrite app_nil_r|]. exists (t ++ [b]). now rewrite app_assoc.
Qed.

(* ------------------------------------------------------------------ the prefix test *)
Lemma pth_length_ge ls t : (length (pth ls) <= length (pth (ls ++ t)))%nat.
Proof. rewrite pth_app, app_length. lia. Qed.

Lemma at_or_under_pth ls cs : ls <> [] -> Forall plain ls -> Forall plain cs ->
  at_or_under (pth ls) (pth cs) = true <-> pre ls cs.
Proof.
  intros Hne Hls Hcs. unfold at_or_under, under.
  assert (Hnr : beq (pth ls) root = false) by (apply beq_false; now apply pth_not_root).
  rewrite Hnr. rewrite orb_true_iff. split.
  - intros [H|H].
    + apply beq_true in H. apply pth_inj in H; auto using plain_noslash. subst. exists []. now rewrite app_nil_r.
    + apply prefixb_spec in H as (r & E). rewrite <- app_assoc in E. cbn [app] in E.
      destruct (pth_prefix ls cs r) as (t & -> & _); auto using plain_noslash. now exists t.
  - intros (t & ->). destruct t as [|x t]; [left; rewrite app_nil_r; apply beq_refl|].
    right. apply prefixb_spec. rewrite pth_app, pth_cons. exists (x ++ pth t). rewrite <- app_assoc. reflexivity.
Qed.

(* ------------------------------------------------------------------ inAnyLayerDirectory *)
Lemma in_any_eq fuel R p :
  in_any_layer_dir fuel R p =
  if (length p <? length R)%nat then false
  else if beq p R then true
  else match fuel with O => false | S f' => in_any_layer_dir f' R (pathdir p) end.
Proof. destruct fuel; reflexivity. Qed.

Lemma pth_len2 ls : ls <> [] -> Forall plain ls -> (2 <= length (pth ls))%nat.
Proof.
  intros Hne HP. destruct ls as [|c r]; [congruence|]. inversion HP as [|? ? (Hc & _) _]; subst.
  destruct c as [|x c]; [congruence|]. rewrite pth_cons. cbn [length app]. lia.
Qed.

Lemma in_any_pth ls : ls <> [] -> Forall plain ls -> forall cs, Forall plain cs ->
  forall fuel, (length cs <= fuel)%nat ->
  in_any_layer_dir fuel (pth ls) (pth cs) = true <-> pre ls cs.
Proof.
  intros Hne Hls. induction cs as [|b cs' IH] using rev_ind; intros Hcs fuel Hf; rewrite in_any_eq.
  - pose proof (pth_len2 ls Hne Hls) as L2.
    assert (E : (length (pth []) <? length (pth ls))%nat = true) by (apply Nat.ltb_lt; cbn; lia).
    rewrite E. split; [discriminate|]. intros (t & E2). destruct ls; [congruence|discriminate].
  - apply Forall_app in Hcs as [Hcs' Hb]. inversion Hb as [|? ? Hb1 _]; subst.
    rewrite pre_snoc.
    destruct (length (pth (cs' ++ [b])) <? length (pth ls))%nat eqn:El.
    + apply Nat.ltb_lt in El. split; [discriminate|]. intros [->|(t & ->)]; [lia|].
      pose proof (pth_length_ge ls t). rewrite (pth_app (ls ++ t)), app_length in El. lia.
    + destruct (beq (pth (cs' ++ [b])) (pth ls)) eqn:Eb.
      * apply beq_true in Eb. apply pth_inj in Eb; auto using plain_noslash.
        2:{ apply plain_noslash, Forall_app. split; auto. }
        split; [intros _; left; now symmetry|reflexivity].
      * assert (Hneq : ls <> cs' ++ [b]) by (intros ->; rewrite beq_refl in Eb; discriminate).
        rewrite app_length in Hf. cbn [length] in Hf. destruct fuel as [|f']; [lia|].
        destruct cs' as [|c0 cr].
        -- cbn [app]. rewrite pathdir_pth_one by assumption. rewrite in_any_eq.
           pose proof (pth_len2 ls Hne Hls) as L2.
           assert (E : (length [sl] <? length (pth ls))%nat = true) by (apply Nat.ltb_lt; cbn; lia).
           rewrite E. split; [discriminate|]. intros [H|(t & H)]; [exfalso; apply Hneq; exact H|].
           destruct ls; [congruence|discriminate].
        -- rewrite pathdir_pth_snoc by (auto; discriminate).
           rewrite (IH Hcs' f') by lia. split; [auto|]. intros [H|H]; [exfalso; apply Hneq; exact H|exact H].
Qed.

(* the 64 steps are enough for a path of at most 64 components *)
Lemma dir_test_pth ls cs : ls <> [] -> Forall plain ls -> Forall plain cs -> (length cs <= 64)%nat ->
  in_any_layer_dir 64 (pth ls) (pth cs) = at_or_under (pth ls) (pth cs).
Proof.
  intros Hne Hls Hcs Hlen. apply Bool.eq_iff_eq_true.
  rewrite (in_any_pth ls Hne Hls cs Hcs 64 Hlen), (at_or_under_pth ls cs Hne Hls Hcs). reflexivity.
Qed.

(* below the root directory everything absolute is "in a layer directory" *)
Lemma in_any_root cs : cs <> [] -> Forall plain cs -> forall fuel, (length cs <= fuel)%nat ->
  in_any_layer_dir fuel [sl] (pth cs) = true.
Proof.
  induction cs as [|b cs' IH] using rev_ind; intros Hne Hcs fuel Hf; [congruence|].
  apply Forall_app in Hcs as [Hcs' Hb]. inversion Hb as [|? ? Hb1 _]; subst.
  rewrite in_any_eq.
  assert (HP : Forall plain (cs' ++ [b])) by (apply Forall_app; split; auto).
  assert (Hne2 : cs' ++ [b] <> []) by (destruct cs'; discriminate).
  pose proof (pth_len2 _ Hne2 HP) as L2.
  assert (E1 : (length (pth (cs' ++ [b])) <? length [sl])%nat = false) by (apply Nat.ltb_ge; cbn [length]; lia).
  rewrite E1.
  assert (E2 : beq (pth (cs' ++ [b])) [sl] = false) by (apply beq_false; now apply pth_not_root).
  rewrite E2. rewrite app_length in Hf. cbn [length] in Hf. destruct fuel as [|f']; [lia|].
  destruct cs' as [|c0 cr].
  - cbn [app]. rewrite pathdir_pth_one by assumption. rewrite in_any_eq. cbn [length]. now rewrite Nat.ltb_irrefl, beq_refl.
  - rewrite pathdir_pth_snoc by (auto; discriminate). apply IH; [discriminate|assumption|lia].
Qed.

Definition slashes (p : bytes) : nat := length (filter (fun ch => Ascii.eqb ch sl) p).

Lemma slashes_app a b : slashes (a ++ b) = (slashes a + slashes b)%nat.
Proof. unfold slashes. now rewrite filter_app, app_length. Qed.
Lemma slashes_noslash c : noslash c -> slashes c = 0%nat.
Proof.
  unfold slashes. induction c as [|x c IH]; intros H; [reflexivity|]. cbn [filter].
  destruct (Ascii.eqb x sl) eqn:E; [apply Ascii.eqb_eq in E; subst; exfalso; apply H; now left|].
  apply IH. intros Hin. apply H. now right.
Qed.
Lemma slashes_pth cs : Forall noslash cs -> slashes (pth cs) = length cs.
Proof.
  induction 1 as [|c cs Hc _ IH]; [reflexivity|]. rewrite pth_cons.
  change (sl :: c ++ pth cs) with ([sl] ++ c ++ pth cs). rewrite !slashes_app, IH, (slashes_noslash c Hc).
  reflexivity.
Qed.

(* the test on the two shapes a cleaned rooted path can have *)
Lemma dir_test_clean L Y : beq (clean L) L = true -> is_abs L = true -> is_rooted Y = true ->
  (slashes (clean Y) <= 64)%nat ->
  in_any_layer_dir 64 L (clean Y) = at_or_under L (clean Y).
Proof.
  intros HL1 HL2 HY Hd. apply beq_true in HL1.
  destruct (clean_rooted_shape Y HY) as [E|(cs & Hne & HP & E)]; rewrite E in *.
  - (* the source is "/" *)
    destruct (beq L [sl]) eqn:EL.
    + apply beq_true in EL. subst L. reflexivity.
    + apply beq_false in EL. destruct (clean_abs_shape L HL1 HL2 EL) as (ls & Hlne & HlP & ->).
      rewrite in_any_eq. pose proof (pth_len2 ls Hlne HlP) as L2.
      assert (E1 : (length [sl] <? length (pth ls))%nat = true) by (apply Nat.ltb_lt; cbn [length]; lia).
      rewrite E1. symmetry. unfold at_or_under, under.
      assert (E2 : beq [sl] (pth ls) = false) by (apply beq_false; intros H; symmetry in H; revert H; now apply pth_not_root).
      assert (E3 : beq (pth ls) root = false) by (apply beq_false; now apply pth_not_root).
      rewrite E2, E3. cbn [orb]. destruct ls as [|l ls']; [congruence|]. rewrite pth_cons.
      inversion HlP as [|? ? (Hl & _) _]; subst. destruct l as [|x l]; [congruence|]. cbn. reflexivity.
  - rewrite slashes_pth in Hd by now apply plain_noslash.
    destruct (beq L [sl]) eqn:EL.
    + apply beq_true in EL. subst L. rewrite (in_any_root cs Hne HP 64 Hd). symmetry.
      unfold at_or_under, under. change (beq [sl] root) with true. cbv iota.
      assert (E2 : beq (pth cs) [sl] = false) by (apply beq_false; now apply pth_not_root).
      unfold root. rewrite E2. cbn [orb negb]. rewrite andb_true_r.
      destruct (pth_head cs Hne) as (r & ->). cbn. reflexivity.
    + apply beq_false in EL. destruct (clean_abs_shape L HL1 HL2 EL) as (ls & Hlne & HlP & ->).
      now apply dir_test_pth.
Qed.
