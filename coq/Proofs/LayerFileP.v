(* C11 (a): reading back a layerconfig written by WriteLayerfile gives the configuration
   that was written (same base, imports, exports, same order, no error). *)
From LC Require Import Lib.Bytes Lib.Lex Lib.Fields Lib.PathM Gen.Consts
  Model.MountInfo Model.FsTree Model.Kernel Model.Layers Proofs.PathP.
Close Scope string_scope.
Open Scope list_scope.

(* ------------------------------------------------------------------ hypotheses (decidable) *)
(* a token: non-empty, no ASCII white space; an import's mountpoint is re-rooted by the reader *)
Definition nm_ok_import (m : nmount) : bool :=
  tok_okb (nm_fstype m) && tok_okb (nm_source m) && tok_okb (nm_mount m)
  && beq (clean (sl :: nm_mount m)) (nm_mount m) && beq (clean (nm_source m)) (nm_source m).
Definition nm_ok_export (m : nmount) : bool :=
  tok_okb (nm_fstype m) && tok_okb (nm_source m) && tok_okb (nm_mount m)
  && beq (clean (nm_mount m)) (nm_mount m) && beq (clean (nm_source m)) (nm_source m).
Definition base_ok (b : bytes) : bool := match b with [] => true | _ => tok_okb b end.
Definition lf_wf (base : bytes) (mounts exports : list nmount) : bool :=
  base_ok base && forallb nm_ok_import mounts && forallb nm_ok_export exports.

(* ------------------------------------------------------------------ trim *)
Lemma drop_sp_head c r : is_sp c = false -> drop_sp (c :: r) = c :: r.
Proof. intros H. cbn. now rewrite H. Qed.

Lemma tok_rev_head t : tok_ok t -> exists c r, rev t = c :: r /\ is_sp c = false.
Proof.
  intros [Hne Hall]. destruct (rev t) as [|c r] eqn:E.
  - apply (f_equal (@rev _)) in E. rewrite rev_involutive in E. cbn in E. congruence.
  - exists c, r. split; [reflexivity|].
    assert (Hin : In c t) by (apply in_rev; rewrite E; now left).
    rewrite forallb_forall in Hall. specialize (Hall c Hin). now apply negb_true_iff in Hall.
Qed.

Lemma trim_id c pre t : is_sp c = false -> tok_ok t -> trim (c :: pre ++ t) = c :: pre ++ t.
Proof.
  intros Hc Ht. unfold trim. rewrite drop_sp_head by exact Hc.
  destruct (tok_rev_head t Ht) as (z & r & E & Hz).
  change (c :: pre ++ t) with ((c :: pre) ++ t) at 1. rewrite rev_app_distr, E.
  rewrite <- app_comm_cons. rewrite drop_sp_head by exact Hz.
  rewrite app_comm_cons, <- E, <- rev_app_distr, rev_involutive. reflexivity.
Qed.

(* ------------------------------------------------------------------ lines *)
Definition kw_import : bytes := bs "import".
Definition kw_export : bytes := bs "export".
Definition kw_base : bytes := bs "base".

Definition nm_body (kw : bytes) (m : nmount) : bytes :=
  kw ++ spc :: nm_fstype m ++ spc :: nm_source m ++ spc :: nm_mount m.
Definition base_body (b : bytes) : bytes := kw_base ++ spc :: b.

Lemma lf_line_body kw m : lf_line kw m = nm_body kw m ++ [nl].
Proof.
  unfold lf_line, nm_body. rewrite <- app_assoc. f_equal. cbn [app]. f_equal.
  rewrite <- app_assoc. f_equal. cbn [app]. f_equal. rewrite <- app_assoc. reflexivity.
Qed.

Definition kw_good (kw : bytes) : Prop :=
  tok_ok kw /\ exists c r, kw = c :: r /\ is_sp c = false /\ bn c <> 35%N /\ bn c <> 47%N.
Lemma kw_import_good : kw_good kw_import.
Proof. split; [split; [discriminate|reflexivity]|]. eexists _, _. split; [reflexivity|]. repeat split; vm_compute; discriminate. Qed.
Lemma kw_export_good : kw_good kw_export.
Proof. split; [split; [discriminate|reflexivity]|]. eexists _, _. split; [reflexivity|]. repeat split; vm_compute; discriminate. Qed.
Lemma kw_base_good : kw_good kw_base.
Proof. split; [split; [discriminate|reflexivity]|]. eexists _, _. split; [reflexivity|]. repeat split; vm_compute; discriminate. Qed.

Lemma is_comment_head c r : bn c <> 35%N -> bn c <> 47%N -> is_comment (c :: r) = false.
Proof.
  intros H1 H2. cbn [is_comment]. apply N.eqb_neq in H1, H2. rewrite H1, H2. cbn. destruct r; reflexivity.
Qed.

Lemma sp_spc : forallb is_sp [spc] = true.
Proof. reflexivity. Qed.

Lemma unwords_last ts t : exists pre, unwords [spc] (ts ++ [t]) = pre ++ t.
Proof.
  induction ts as [|t1 ts (pre & E)].
  - exists []. reflexivity.
  - assert (U : unwords [spc] ((t1 :: ts) ++ [t]) = t1 ++ [spc] ++ unwords [spc] (ts ++ [t])).
    { cbn [app]. destruct (ts ++ [t]) eqn:E0; [destruct ts; discriminate|reflexivity]. }
    rewrite U, E. exists (t1 ++ [spc] ++ pre). now rewrite <- !app_assoc.
Qed.
Lemma unwords_shape ts t c r : exists pre, unwords [spc] ((c :: r) :: ts ++ [t]) = c :: pre ++ t.
Proof.
  destruct (unwords_last ((c :: r) :: ts) t) as (pre & E). cbn [app] in E. rewrite E.
  destruct pre as [|c' pre'].
  - cbn [app] in *. assert (L : (length (unwords [spc] ((c :: r) :: ts ++ [t])) > length t)%nat).
    { destruct (ts ++ [t]) eqn:E0; [destruct ts; discriminate|].
      change (unwords [spc] ((c :: r) :: l :: l0)) with ((c :: r) ++ [spc] ++ unwords [spc] (l :: l0)).
      rewrite <- E0. destruct (unwords_last ts t) as (p2 & E2). rewrite E2, !app_length. cbn. lia. }
    rewrite E in L. lia.
  - exists pre'. cbn [app] in *.
    destruct (ts ++ [t]) eqn:E0; [destruct ts; discriminate|].
    change (unwords [spc] ((c :: r) :: l :: l0)) with (c :: r ++ [spc] ++ unwords [spc] (l :: l0)) in E.
    injection E as <- _. reflexivity.
Qed.

(* what the reader sees of a line  kw t1 .. tn  *)
Lemma line_fields kw ts t : kw_good kw -> Forall tok_ok (ts ++ [t]) ->
  let line := unwords [spc] (kw :: ts ++ [t]) in
  trim line = line /\ is_comment line = false /\ fields line = kw :: ts ++ [t].
Proof.
  intros [Hkw (c & r & -> & Hc & H35 & H47)] Hts line.
  assert (Hall : Forall tok_ok ((c :: r) :: ts ++ [t])) by (constructor; assumption).
  assert (Ht : tok_ok t).
  { rewrite Forall_forall in Hts. apply Hts. apply in_or_app. right. now left. }
  destruct (unwords_shape ts t c r) as (pre & E). fold line in E.
 split; [|split].
  - rewrite E. now apply trim_id.
  - rewrite E. now apply is_comment_head.
  - unfold line. apply fields_unwords; [discriminate|reflexivity|exact Hall].
Qed.

Lemma nm_body_unwords kw m :
  nm_body kw m = unwords [spc] (kw :: [nm_fstype m; nm_source m] ++ [nm_mount m]).
Proof. reflexivity. Qed.
Lemma base_body_unwords b : base_body b = unwords [spc] (kw_base :: [] ++ [b]).
Proof. reflexivity. Qed.

Lemma andb5 a b c d e : a && b && c && d && e = true -> a = true /\ b = true /\ c = true /\ d = true /\ e = true.
Proof. intros H. repeat (apply andb_true_iff in H as [H ?]). auto. Qed.

Lemma lf_step_import st m : nm_ok_import m = true ->
  lf_step st (nm_body kw_import m) = MkLF (lf_base st) (lf_mounts st ++ [m]) (lf_exports st) (lf_errors st).
Proof.
  intros H. apply andb5 in H as (T1 & T2 & T3 & C1 & C2).
  apply tok_okb_spec in T1, T2, T3. apply beq_true in C1, C2.
  rewrite nm_body_unwords.
  destruct (line_fields kw_import [nm_fstype m; nm_source m] (nm_mount m) kw_import_good) as (E1 & E2 & E3).
  { cbn [app]. auto using Forall_cons, Forall_nil. }
  unfold lf_step. rewrite E1, E2, E3. cbn [app].
  change (beq kw_import (bs "base")) with false. change (beq kw_import (bs "import")) with true.
  cbn iota. rewrite C1, C2. destruct m; reflexivity.
Qed.

Lemma lf_step_export st m : nm_ok_export m = true ->
  lf_step st (nm_body kw_export m) = MkLF (lf_base st) (lf_mounts st) (lf_exports st ++ [m]) (lf_errors st).
Proof.
  intros H. apply andb5 in H as (T1 & T2 & T3 & C1 & C2).
  apply tok_okb_spec in T1, T2, T3. apply beq_true in C1, C2.
  rewrite nm_body_unwords.
  destruct (line_fields kw_export [nm_fstype m; nm_source m] (nm_mount m) kw_export_good) as (E1 & E2 & E3).
  { cbn [app]. auto using Forall_cons, Forall_nil. }
  unfold lf_step. rewrite E1, E2, E3. cbn [app].
  change (beq kw_export (bs "base")) with false. change (beq kw_export (bs "import")) with false.
  change (beq kw_export (bs "export")) with true.
  cbn iota. rewrite C1, C2. destruct m; reflexivity.
Qed.

Lemma lf_step_base ms es n b : tok_ok b ->
  lf_step (MkLF [] ms es n) (base_body b) = MkLF b ms es n.
Proof.
  intros T. rewrite base_body_unwords.
  destruct (line_fields kw_base [] b kw_base_good) as (E1 & E2 & E3).
  { cbn [app]. auto using Forall_cons, Forall_nil. }
  unfold lf_step. rewrite E1, E2, E3. cbn [app].
  change (beq kw_base (bs "base")) with true. reflexivity.
Qed.

Lemma lf_step_blank st : lf_step st [] = st.
Proof. reflexivity. Qed.

Lemma fold_imports ms : forallb nm_ok_import ms = true -> forall b M E n,
  fold_left lf_step (map (nm_body kw_import) ms) (MkLF b M E n) = MkLF b (M ++ ms) E n.
Proof.
  induction ms as [|m ms IH]; intros H b M E n; cbn [map fold_left].
  - now rewrite app_nil_r.
  - cbn [forallb] in H. apply andb_true_iff in H as [Hm Hms].
    rewrite lf_step_import by exact Hm. cbn [lf_base lf_mounts lf_exports lf_errors].
    rewrite IH by exact Hms. now rewrite <- app_assoc.
Qed.
Lemma fold_exports es : forallb nm_ok_export es = true -> forall b M E n,
  fold_left lf_step (map (nm_body kw_export) es) (MkLF b M E n) = MkLF b M (E ++ es) n.
Proof.
  induction es as [|m es IH]; intros H b M E n; cbn [map fold_left].
  - now rewrite app_nil_r.
  - cbn [forallb] in H. apply andb_true_iff in H as [Hm Hms].
    rewrite lf_step_export by exact Hm. cbn [lf_base lf_mounts lf_exports lf_errors].
    rewrite IH by exact Hms. now rewrite <- app_assoc.
Qed.

(* ------------------------------------------------------------------ scanning *)
Definition terminated (lines : list bytes) : bytes := concat (map (fun l => l ++ [nl]) lines).

Lemma split_terminated lines : Forall (nosep nl) lines -> split nl (terminated lines) = lines ++ [[]].
Proof.
  induction 1 as [|l ls Hl _ IH]; [reflexivity|].
  unfold terminated in *. cbn [map concat]. rewrite <- app_assoc. cbn [app].
  rewrite split_app_sep, IH. unfold split at 1. rewrite split_acc_end by exact Hl.
  now rewrite app_nil_r, rev_involutive.
Qed.

Definition no_cr_end (l : bytes) : Prop := match rev l with c :: _ => c <> cr | [] => True end.
Lemma strip_cr_id l : no_cr_end l -> strip_cr l = l.
Proof.
  unfold no_cr_end, strip_cr. destruct (rev l) as [|c r]; [reflexivity|]. intros H.
  destruct (Ascii.eqb c cr) eqn:E; [apply Ascii.eqb_eq in E; contradiction|reflexivity].
Qed.

Lemma scan_terminated lines : Forall (nosep nl) lines -> Forall no_cr_end lines ->
  scan_lines (terminated lines) = lines.
Proof.
  intros H1 H2. unfold scan_lines. destruct (terminated lines) as [|c r] eqn:E.
  - destruct lines as [|l ls]; [reflexivity|]. unfold terminated in E. cbn in E. destruct l; discriminate.
  - rewrite <- E. rewrite split_terminated by exact H1. rewrite rev_app_distr. cbn [rev app].
    rewrite rev_involutive. clear E H1. induction H2 as [|l ls Hl _ IH]; [reflexivity|].
    cbn [map]. now rewrite strip_cr_id, IH.
Qed.

(* a line ending in a token is free of newlines if its pieces are, and does not end in CR *)
Lemma tok_nosep_nl t : tok_ok t -> nosep nl t.
Proof.
  intros [_ H] Hin. rewrite forallb_forall in H. specialize (H nl Hin). discriminate.
Qed.
Lemma nosep_app sep a b : nosep sep a -> nosep sep b -> nosep sep (a ++ b).
Proof. unfold nosep. intros Ha Hb Hin. apply in_app_or in Hin as [?|?]; auto. Qed.
Lemma nosep_cons sep c a : c <> sep -> nosep sep a -> nosep sep (c :: a).
Proof. unfold nosep. intros Hc Ha [?|?]; [congruence|auto]. Qed.
Lemma spc_nl : spc <> nl.
Proof. intros H. apply (f_equal bn) in H. vm_compute in H. discriminate. Qed.

Lemma unwords_nosep_nl ts : Forall tok_ok ts -> nosep nl (unwords [spc] ts).
Proof.
  induction 1 as [|t ts Ht _ IH]; [intros []|].
  destruct ts as [|t2 ts']; [now apply tok_nosep_nl|].
  change (unwords [spc] (t :: t2 :: ts')) with (t ++ spc :: unwords [spc] (t2 :: ts')).
  apply nosep_app; [now apply tok_nosep_nl|]. apply nosep_cons; [apply spc_nl|exact IH].
Qed.
Lemma unwords_no_cr ts : Forall tok_ok ts -> no_cr_end (unwords [spc] ts).
Proof.
  induction 1 as [|t ts Ht _ IH]; [exact I|].
  destruct ts as [|t2 ts'].
  - cbn [unwords]. unfold no_cr_end. destruct (tok_rev_head t Ht) as (c & r & -> & Hc).
    intros ->. discriminate.
  - change (unwords [spc] (t :: t2 :: ts')) with (t ++ spc :: unwords [spc] (t2 :: ts')).
    unfold no_cr_end in *. change (t ++ spc :: ?x) with (t ++ [spc] ++ x). rewrite !rev_app_distr.
    destruct (rev (unwords [spc] (t2 :: ts'))) as [|c r] eqn:E; [|exact IH].
    cbn. intros H. apply (f_equal bn) in H. vm_compute in H. discriminate.
Qed.

Lemma nm_ok_import_toks m : nm_ok_import m = true ->
  Forall tok_ok [kw_import; nm_fstype m; nm_source m; nm_mount m].
Proof.
  intros H. apply andb5 in H as (T1 & T2 & T3 & _ & _). apply tok_okb_spec in T1, T2, T3.
  pose proof (proj1 kw_import_good). auto using Forall_cons, Forall_nil.
Qed.
Lemma nm_ok_export_toks m : nm_ok_export m = true ->
  Forall tok_ok [kw_export; nm_fstype m; nm_source m; nm_mount m].
Proof.
  intros H. apply andb5 in H as (T1 & T2 & T3 & _ & _). apply tok_okb_spec in T1, T2, T3.
  pose proof (proj1 kw_export_good). auto using Forall_cons, Forall_nil.
Qed.

(* ------------------------------------------------------------------ the file as lines *)
Definition lf_lines (base : bytes) (mounts exports : list nmount) : list bytes :=
  (match base with [] => [] | _ => [base_body base; []] end)
  ++ map (nm_body kw_import) mounts
  ++ (match exports with [] => [] | _ => [[]] end)
  ++ map (nm_body kw_export) exports.

Lemma terminated_app a b : terminated (a ++ b) = terminated a ++ terminated b.
Proof. unfold terminated. now rewrite map_app, concat_app. Qed.
Lemma terminated_bodies kw ms : terminated (map (nm_body kw) ms) = concat (map (lf_line kw) ms).
Proof.
  unfold terminated. rewrite map_map. f_equal. apply map_ext. intros m. symmetry. apply lf_line_body.
Qed.

Lemma chunks_lines base mounts exports :
  concat (layerfile_chunks base mounts exports) = terminated (lf_lines base mounts exports).
Proof.
  unfold layerfile_chunks, lf_lines. rewrite !concat_app, !terminated_app, !terminated_bodies.
  f_equal; [|f_equal; f_equal].
  - destruct base as [|c r]; [reflexivity|]. unfold terminated, base_body, kw_base. cbn [map concat].
    rewrite app_nil_r. change (bs "base " ++ ?x) with (bs "base" ++ spc :: x).
    cbn [app]. rewrite <- !app_assoc. cbn [app]. reflexivity.
  - destruct exports; reflexivity.
Qed.

Lemma blank_ok : nosep nl [] /\ no_cr_end [].
Proof. split; [intros []|exact I]. Qed.

Lemma lf_lines_scan base mounts exports : lf_wf base mounts exports = true ->
  Forall (nosep nl) (lf_lines base mounts exports) /\ Forall no_cr_end (lf_lines base mounts exports).
Proof.
  intros H. unfold lf_wf in H. apply andb_true_iff in H as [H He]. apply andb_true_iff in H as [Hb Hm].
  assert (G : Forall (fun l => nosep nl l /\ no_cr_end l) (lf_lines base mounts exports)).
  { unfold lf_lines. apply Forall_app; split; [|apply Forall_app; split; [|apply Forall_app; split]].
    - destruct base as [|c r]; [constructor|]. cbn [base_ok] in Hb. apply tok_okb_spec in Hb.
      constructor; [|constructor; [exact blank_ok|constructor]].
      rewrite base_body_unwords. assert (F : Forall tok_ok (kw_base :: [] ++ [c :: r])).
      { pose proof (proj1 kw_base_good). cbn [app]. auto using Forall_cons, Forall_nil. }
      split; [now apply unwords_nosep_nl|now apply unwords_no_cr].
    - apply Forall_forall. intros l Hl. apply in_map_iff in Hl as (m & <- & Hin).
      rewrite forallb_forall in Hm. pose proof (nm_ok_import_toks m (Hm m Hin)) as F.
      rewrite nm_body_unwords. split; [now apply unwords_nosep_nl|now apply unwords_no_cr].
    - destruct exports; [constructor|]. constructor; [exact blank_ok|constructor].
    - apply Forall_forall. intros l Hl. apply in_map_iff in Hl as (m & <- & Hin).
      rewrite forallb_forall in He. pose proof (nm_ok_export_toks m (He m Hin)) as F.
      rewrite nm_body_unwords. split; [now apply unwords_nosep_nl|now apply unwords_no_cr]. }
  split; eapply Forall_impl; try exact G; intros a [? ?]; assumption.
Qed.

Theorem layerfile_roundtrip base mounts exports : lf_wf base mounts exports = true ->
  read_layerfile (concat (layerfile_chunks base mounts exports)) = MkLF base mounts exports 0.
Proof.
  intros H. destruct (lf_lines_scan _ _ _ H) as [S1 S2].
  unfold read_layerfile. rewrite chunks_lines, scan_terminated by assumption.
  unfold lf_wf in H. apply andb_true_iff in H as [H He]. apply andb_true_iff in H as [Hb Hm].
  unfold lf_lines. rewrite !fold_left_app.
  assert (B : fold_left lf_step (match base with [] => [] | _ => [base_body base; []] end) (MkLF [] [] [] 0)
              = MkLF base [] [] 0).
  { destruct base as [|c r]; [reflexivity|]. cbn [base_ok] in Hb. apply tok_okb_spec in Hb.
    cbn [fold_left]. rewrite lf_step_base by exact Hb. apply lf_step_blank. }
  rewrite B, fold_imports by exact Hm. cbn [app].
  assert (K : fold_left lf_step (match exports with [] => [] | _ => [[]] end) (MkLF base mounts [] 0)
              = MkLF base mounts [] 0) by (destruct exports; reflexivity).
  rewrite K, fold_exports by exact He. reflexivity.
Qed.

(* the hypotheses are satisfiable by a non-trivial configuration *)
Example lf_wf_example :
  lf_wf (bs "stage3") [MkNM (bs "/dev") (bs "/dev") (bs "rbind"); MkNM (bs "/var/db/repos") (bs "$$base/repos") (bs "bind")]
        [MkNM (bs "$$package_export") (bs "/var/cache/binpkgs") (bs "symlink")] = true.
Proof. vm_compute. reflexivity. Qed.
