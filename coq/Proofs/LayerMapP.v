(* Layer maps: the static part of a layer (name, base, imports, exports, path) is never changed
   by probing; lookups, updates and the ancestor walk respect that. *)
From LC Require Import Lib.Bytes Lib.Lex Lib.Fields Lib.PathM Gen.Consts
  Model.MountInfo Model.FsTree Model.Kernel Model.Layers.
Open Scope N_scope.

(* same static description *)
Definition lsim (a b : layer) : Prop :=
  l_name a = l_name b /\ l_base a = l_base b /\ l_mounts a = l_mounts b
  /\ l_exports a = l_exports b /\ l_path a = l_path b.

Lemma lsim_refl a : lsim a a.
Proof. repeat split. Qed.
Lemma lsim_sym a b : lsim a b -> lsim b a.
Proof. intros (H1 & H2 & H3 & H4 & H5). repeat split; congruence. Qed.
Lemma lsim_trans a b c : lsim a b -> lsim b c -> lsim a c.
Proof. intros (H1 & H2 & H3 & H4 & H5) (G1 & G2 & G3 & G4 & G5). repeat split; congruence. Qed.

Lemma lsim_set_state l s : lsim l (set_state l s).
Proof. repeat split. Qed.
Lemma lsim_set_kmounts l m : lsim l (set_kmounts l m).
Proof. repeat split. Qed.
Lemma lsim_set_busy l a b c : lsim l (set_busy l a b c).
Proof. repeat split. Qed.
Lemma lsim_set_overlain l o : lsim l (set_overlain l o).
Proof. repeat split. Qed.

Lemma lsim_build c a b : lsim a b -> build_path c a = build_path c b.
Proof. intros (_ & _ & _ & _ & H). unfold build_path. now rewrite H. Qed.
Lemma lsim_work c a b : lsim a b -> work_path c a = work_path c b.
Proof. intros (_ & _ & _ & _ & H). unfold work_path. now rewrite H. Qed.
Lemma lsim_upper c a b : lsim a b -> upper_path c a = upper_path c b.
Proof. intros (_ & _ & _ & _ & H). unfold upper_path. now rewrite H. Qed.

Definition msim (m m' : lmap) : Prop := Forall2 lsim m m'.

Lemma msim_refl m : msim m m.
Proof. induction m; constructor; auto using lsim_refl. Qed.
Lemma msim_trans a b c : msim a b -> msim b c -> msim a c.
Proof.
  intros H. revert c. induction H as [|x y a b Hxy _ IH]; intros c Hc; inversion Hc; subst; constructor.
  - eapply lsim_trans; eauto.
  - now apply IH.
Qed.
Lemma msim_length a b : msim a b -> length a = length b.
Proof. induction 1; cbn; congruence. Qed.

Lemma msim_map_overlain (g : layer -> bool) m : msim m (map (fun l => set_overlain l (g l)) m).
Proof. induction m; cbn [map]; constructor; auto using lsim_set_overlain. Qed.

Lemma msim_get m m' n : msim m m' ->
  match lm_get m n, lm_get m' n with
  | Some a, Some b => lsim a b
  | None, None => True
  | _, _ => False
  end.
Proof.
  induction 1 as [|x y a b Hxy _ IH]; cbn [lm_get]; [exact I|].
  destruct Hxy as (H1 & Hrest). rewrite <- H1. destruct (beq (l_name x) n); [|exact IH].
  split; auto.
Qed.

Lemma msim_get_some m m' n a : msim m m' -> lm_get m n = Some a ->
  exists b, lm_get m' n = Some b /\ lsim a b.
Proof.
  intros H E. pose proof (msim_get m m' n H) as G. rewrite E in G.
  destruct (lm_get m' n) as [b|]; [|contradiction]. eauto.
Qed.
Lemma msim_get_none m m' n : msim m m' -> lm_get m n = None -> lm_get m' n = None.
Proof.
  intros H E. pose proof (msim_get m m' n H) as G. rewrite E in G.
  destruct (lm_get m' n) as [b|]; [contradiction|reflexivity].
Qed.

Lemma lm_get_name m n l : lm_get m n = Some l -> l_name l = n.
Proof.
  induction m as [|x r IH]; cbn [lm_get]; [discriminate|].
  destruct (beq (l_name x) n) eqn:E; [|exact IH]. intros H. injection H as <-. now apply beq_true.
Qed.
Lemma lm_get_in m n l : lm_get m n = Some l -> In l m.
Proof.
  induction m as [|x r IH]; cbn [lm_get]; [discriminate|].
  destruct (beq (l_name x) n); [intros H; injection H as <-; now left|right; auto].
Qed.

Lemma msim_set m n l l' : lm_get m n = Some l -> lsim l l' -> msim m (lm_set m l').
Proof.
  intros Hg Hs. pose proof (lm_get_name _ _ _ Hg) as Hn.
  assert (Hn' : l_name l' = n) by (destruct Hs as (H & _); congruence).
  revert Hg. induction m as [|x r IH]; cbn [lm_get lm_set]; [discriminate|].
  rewrite Hn'. destruct (beq (l_name x) n) eqn:E.
  - intros H. injection H as ->. constructor; [exact Hs|apply msim_refl].
  - intros H. constructor; [apply lsim_refl|apply IH, H].
Qed.

Lemma lm_set_in m l x : In x (lm_set m l) -> x = l \/ In x m.
Proof.
  induction m as [|y r IH]; cbn [lm_set].
  - intros [<-|[]]. now left.
  - destruct (beq (l_name y) (l_name l)).
    + intros [<-|H]; [now left|right; now right].
    + intros [<-|H]; [right; now left|]. destruct (IH H); [now left|right; now right].
Qed.

Lemma lm_get_set_same m l : lm_get (lm_set m l) (l_name l) = Some l.
Proof.
  induction m as [|y r IH]; cbn [lm_set lm_get].
  - now rewrite beq_refl.
  - destruct (beq (l_name y) (l_name l)) eqn:E; cbn [lm_get]; [now rewrite beq_refl|]. now rewrite E.
Qed.
Lemma lm_get_set_other m l n : l_name l <> n -> lm_get (lm_set m l) n = lm_get m n.
Proof.
  intros Hn. apply beq_false in Hn.
  induction m as [|y r IH]; cbn [lm_set lm_get].
  - now rewrite Hn.
  - destruct (beq (l_name y) (l_name l)) eqn:E; cbn [lm_get].
    + apply beq_true in E. rewrite E, Hn. reflexivity.
    + destruct (beq (l_name y) n); [reflexivity|exact IH].
Qed.

(* the ancestor walk over two maps with the same static content *)
Lemma msim_ancestors m m' : msim m m' -> forall fuel n acc acc', Forall2 lsim acc acc' ->
  match ancestors_and_self fuel m n acc, ancestors_and_self fuel m' n acc' with
  | Some a, Some b => Forall2 lsim a b
  | None, None => True
  | _, _ => False
  end.
Proof.
  intros H. induction fuel as [|fuel IH]; intros n acc acc' Ha; cbn [ancestors_and_self].
  - destruct n; [exact Ha|exact I].
  - destruct n as [|ch n']; [exact Ha|].
    pose proof (msim_get m m' (ch :: n') H) as G.
    destruct (lm_get m (ch :: n')) as [a|], (lm_get m' (ch :: n')) as [b|]; try contradiction; [|exact I].
    destruct G as (G1 & G2 & G3). rewrite <- G2. apply IH. constructor; [|exact Ha]. repeat split; tauto.
Qed.

(* every layer of the walk's result beyond the accumulator is found in the map under its name *)
Lemma ancestors_found m : forall fuel n acc r, ancestors_and_self fuel m n acc = Some r ->
  forall x, In x r -> In x acc \/ lm_get m (l_name x) = Some x.
Proof.
  induction fuel as [|fuel IH]; intros n acc r; cbn [ancestors_and_self].
  - destruct n; [|discriminate]. intros H. injection H as <-. auto.
  - destruct n as [|ch n']; [intros H; injection H as <-; auto|].
    destruct (lm_get m (ch :: n')) as [l|] eqn:E; [|discriminate].
    intros H x Hx. destruct (IH _ _ _ H x Hx) as [[<-|Hin]|Hg]; auto.
    right. now rewrite (lm_get_name _ _ _ E).
Qed.

(* ------------------------------------------------------------------ same static part and same state *)
Definition lsim_st (a b : layer) : Prop := lsim a b /\ l_state a = l_state b.
Definition msim_st (m m' : lmap) : Prop := Forall2 lsim_st m m'.

Lemma lsim_st_refl a : lsim_st a a.
Proof. split; [apply lsim_refl|reflexivity]. Qed.
Lemma lsim_st_trans a b c : lsim_st a b -> lsim_st b c -> lsim_st a c.
Proof. intros [H1 H2] [G1 G2]. split; [eapply lsim_trans; eauto|congruence]. Qed.
Lemma msim_st_refl m : msim_st m m.
Proof. induction m; constructor; auto using lsim_st_refl. Qed.
Lemma msim_st_trans a b c : msim_st a b -> msim_st b c -> msim_st a c.
Proof.
  intros H. revert c. induction H as [|x y a b Hxy _ IH]; intros c Hc; inversion Hc; subst; constructor.
  - eapply lsim_st_trans; eauto.
  - now apply IH.
Qed.
Lemma msim_st_msim m m' : msim_st m m' -> msim m m'.
Proof. induction 1 as [|x y a b [H _] _ IH]; constructor; auto. Qed.
Lemma msim_st_map_overlain (g : layer -> bool) m : msim_st m (map (fun l => set_overlain l (g l)) m).
Proof. induction m; cbn [map]; constructor; auto. split; [apply lsim_set_overlain|reflexivity]. Qed.

Lemma msim_st_get_some m m' n a : msim_st m m' -> lm_get m n = Some a ->
  exists b, lm_get m' n = Some b /\ lsim_st a b.
Proof.
  induction 1 as [|x y r r' Hxy _ IH]; cbn [lm_get]; [discriminate|].
  destruct Hxy as [(H1 & Hrest) Hst]. rewrite <- H1. destruct (beq (l_name x) n); [|exact IH].
  intros H. injection H as <-. exists y. split; [reflexivity|]. split; [split; assumption|exact Hst].
Qed.
