(* Distinct layer names from a file tree whose keys are distinct clean absolute paths. *)
From LC Require Import Lib.Bytes Lib.Lex Lib.Fields Lib.PathM Gen.Consts
  Model.MountInfo Model.FsTree Model.Kernel Model.Layers Cases.Verdict Cases.LC
  Proofs.PathP Proofs.StageWildP Proofs.FsGrowP Proofs.LayerDirP Proofs.LayerNamesP
  Proofs.C08DocP Proofs.C08P Proofs.C08ProbeP.
Import LC LCS.

Definition fs_paths_ok (f : fsT) : bool :=
  nodup_paths (map fst f) && forallb (fun e => is_abs (fst e) && beq (clean (fst e)) (fst e)) f.

(* ------------------------------------------------------------------ path.Base of "/c1/.../cn/b" *)
Lemma strip_keeps r : (match r with [] => True | c :: _ => c <> sl end) -> strip_trailing_slashes_rev r = r.
Proof.
  destruct r as [|c r]; [reflexivity|]. intros H. cbn [strip_trailing_slashes_rev].
  destruct (Ascii.eqb c sl) eqn:E; [apply Ascii.eqb_eq in E; contradiction|reflexivity].
Qed.

Lemma pathbase_snoc X b : plain b -> pathbase (X ++ sl :: b) = b.
Proof.
  intros (Hne & _ & _ & Hns). unfold pathbase.
  destruct (X ++ sl :: b) as [|c0 p0] eqn:Ep; [destruct X; discriminate|]. rewrite <- Ep.
  assert (Hs : strip_trailing_slashes_rev (rev (X ++ sl :: b)) = rev (X ++ sl :: b)).
  { apply strip_keeps. rewrite rev_app_distr. cbn [rev]. destruct b as [|x b'] using rev_ind; [congruence|].
    rewrite rev_app_distr. cbn [rev app]. intros ->. apply Hns. apply in_or_app. right. now left. }
  rewrite Hs, rev_involutive. rewrite Ep. rewrite <- Ep. rewrite pathsplit_snoc by exact Hns. reflexivity.
Qed.

(* a clean absolute path other than "/" is determined by its directory and its last element *)
Lemma dir_base_inj p q : is_abs p = true -> clean p = p -> is_abs q = true -> clean q = q ->
  p <> [sl] -> q <> [sl] -> pathdir p = pathdir q -> pathbase p = pathbase q -> p = q.
Proof.
  intros Ap Cp Aq Cq Np Nq Hd Hb.
  destruct (clean_abs_shape p Cp Ap Np) as (cs & Hcs & HP & ->).
  destruct (clean_abs_shape q Cq Aq Nq) as (ds & Hds & HQ & ->).
  destruct cs as [|b cs'] using rev_ind; [congruence|]. clear IHcs'.
  destruct ds as [|b2 ds'] using rev_ind; [congruence|]. clear IHds'.
  apply Forall_app in HP as [HP1 HP2]. inversion HP2 as [|? ? Hb1 _]; subst.
  apply Forall_app in HQ as [HQ1 HQ2]. inversion HQ2 as [|? ? Hb2 _]; subst.
  rewrite !pth_snoc in Hb. rewrite !pathbase_snoc in Hb by assumption. subst b2.
  destruct cs' as [|c0 cr], ds' as [|d0 dr].
  - reflexivity.
  - exfalso. change ([] ++ [b]) with [b] in Hd. rewrite pathdir_pth_one in Hd by assumption.
    rewrite pathdir_pth_snoc in Hd by (auto; discriminate). symmetry in Hd. revert Hd. apply pth_not_root; [discriminate|assumption].
  - exfalso. change ([] ++ [b]) with [b] in Hd. rewrite (pathdir_pth_one b) in Hd by assumption.
    rewrite pathdir_pth_snoc in Hd by (auto; discriminate). revert Hd. apply pth_not_root; [discriminate|assumption].
  - rewrite !pathdir_pth_snoc in Hd by (auto; discriminate).
    apply pth_inj in Hd; auto using plain_noslash. now rewrite Hd.
Qed.

(* ------------------------------------------------------------------ lists *)
Lemma NoDup_map_filter {A B} (g : A -> B) (P : A -> bool) l : NoDup (map g l) -> NoDup (map g (filter P l)).
Proof.
  induction l as [|a r IH]; cbn [map filter]; [constructor|]. intros H. inversion H as [|? ? Hn Hr]; subst.
  destruct (P a); [|now apply IH]. cbn [map]. constructor; [|now apply IH].
  intros Hin. apply Hn. apply in_map_iff in Hin as (x & Hx1 & Hx2). apply filter_In in Hx2 as [Hx2 _].
  rewrite <- Hx1. now apply in_map.
Qed.

Lemma NoDup_map_inj_in {A B} (g : A -> B) l : (forall x y, In x l -> In y l -> g x = g y -> x = y) ->
  NoDup l -> NoDup (map g l).
Proof.
  induction l as [|a r IH]; intros Hinj H; cbn [map]; [constructor|]. inversion H as [|? ? Hn Hr]; subst.
  constructor.
  - intros Hin. apply in_map_iff in Hin as (x & Hx1 & Hx2). apply Hn.
    rewrite <- (Hinj x a (or_intror Hx2) (or_introl eq_refl) Hx1). exact Hx2.
  - apply IH; [|exact Hr]. intros x y Hx Hy. apply Hinj; now right.
Qed.

Lemma under_not_root d q : d <> [] -> under d q = true -> q <> [sl].
Proof.
  intros Hd H ->. unfold under in H. destruct (beq d root) eqn:E.
  - apply andb_true_iff in H as [_ H]. unfold root in H. rewrite beq_refl in H. discriminate.
  - apply prefixb_spec in H as (r & E2). destruct d as [|a d']; [congruence|]. cbn [app] in E2.
    injection E2 as <- E2. destruct d'; discriminate.
Qed.

(* ------------------------------------------------------------------ the names *)
Lemma children_nodup f d : fs_paths_ok f = true -> d <> [] -> NoDup (children f d).
Proof.
  intros Hok Hd. unfold fs_paths_ok in Hok. apply andb_true_iff in Hok as [Hnd Hcl].
  apply nodup_paths_NoDup in Hnd. rewrite forallb_forall in Hcl. unfold children.
  set (P := fun e : bytes * node => under d (fst e) && beq (pathdir (fst e)) d).
  rewrite <- (map_map fst pathbase). apply NoDup_map_inj_in; [|now apply NoDup_map_filter].
  intros p q Hp Hq Hb. apply in_map_iff in Hp as (e1 & <- & He1). apply in_map_iff in Hq as (e2 & <- & He2).
  apply filter_In in He1 as [He1 Hp1]. apply filter_In in He2 as [He2 Hp2]. unfold P in Hp1, Hp2.
  apply andb_true_iff in Hp1 as [Hu1 Hd1]. apply andb_true_iff in Hp2 as [Hu2 Hd2].
  apply beq_true in Hd1, Hd2.
  pose proof (Hcl e1 He1) as C1. pose proof (Hcl e2 He2) as C2.
  apply andb_true_iff in C1 as [A1 C1]. apply andb_true_iff in C2 as [A2 C2]. apply beq_true in C1, C2.
  apply dir_base_inj; auto; try congruence; eapply under_not_root; eauto.
Qed.

Lemma read_layer_files_nodup c f : fs_paths_ok f = true -> c_layers c <> [] ->
  NoDup (map l_name (read_layer_files c f)).
Proof.
  intros Hok Hd. unfold read_layer_files.
  pose proof (Lex.sort_nodup _ (children_nodup f (c_layers c) Hok Hd)) as Hs.
  set (step := fun n acc => if legal_name n then match load_layer c f n with Some l => l :: acc | None => acc end else acc).
  assert (G : forall ns, NoDup ns -> NoDup (map l_name (fold_right step [] ns))
                         /\ forall x, In x (map l_name (fold_right step [] ns)) -> In x ns).
  { induction ns as [|n r IH]; intros H; cbn [fold_right]; [split; [constructor|intros x []]|].
    inversion H as [|? ? Hn Hr]; subst. destruct (IH Hr) as [IH1 IH2]. unfold step at 1 3.
    destruct (legal_name n); [|split; [exact IH1|intros x Hx; right; now apply IH2]].
    destruct (load_layer c f n) as [l|] eqn:E; [|split; [exact IH1|intros x Hx; right; now apply IH2]].
    assert (Hl : l_name l = n).
    { unfold load_layer in E. destruct (if is_file f _ then _ else None); [|discriminate]. now injection E as <-. }
    cbn [map]. rewrite Hl. split.
    - constructor; [|exact IH1]. intros Hin. apply Hn. now apply IH2.
    - intros x [<-|Hx]; [now left|right; now apply IH2]. }
  apply (G _ Hs).
Qed.

Lemma NoDup_nodup_paths l : NoDup l -> nodup_paths l = true.
Proof.
  induction 1 as [|x r Hn _ IH]; [reflexivity|]. cbn [nodup_paths]. rewrite IH, andb_true_r.
  apply negb_true_iff. unfold memb. destruct (existsb (beq x) r) eqn:E; [|reflexivity].
  apply existsb_exists in E as (y & Hy & Ey). apply beq_true in Ey. subst. contradiction.
Qed.

Theorem layer_names_distinct_of_paths c w : is_abs (c_layers c) = true -> fs_paths_ok (wo_fs w) = true ->
  layer_names_distinct c w = true.
Proof.
  intros Ha Hok. unfold layer_names_distinct, layers_on_disk. apply NoDup_nodup_paths.
  apply read_layer_files_nodup; [exact Hok|]. destruct (c_layers c); discriminate.
Qed.
