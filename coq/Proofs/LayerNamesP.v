(* Names of the layers found on disk are never empty: path.Base never returns "". *)
From LC Require Import Lib.Bytes Lib.Lex Lib.Fields Lib.PathM Gen.Consts
  Model.MountInfo Model.FsTree Model.Kernel Model.Layers.

Lemma lss_file_nonempty s : forall cur acc found,
  (s = [] /\ cur <> []) \/ (s <> [] /\ last s sl <> sl) ->
  snd (last_slash_split s cur acc found) <> [].
Proof.
  induction s as [|ch r IH]; intros cur acc found H; cbn [last_slash_split].
  - destruct H as [[_ H]|[H _]]; [|congruence]. cbn [snd]. intros E.
    apply (f_equal (@rev _)) in E. rewrite rev_involutive in E. now apply H.
  - destruct H as [[H _]|[_ H]]; [discriminate|].
    destruct r as [|c2 r'].
    + cbn [last] in H. destruct (Ascii.eqb ch sl) eqn:E; [apply Ascii.eqb_eq in E; congruence|].
      cbn [last_slash_split snd]. intros E2. apply (f_equal (@rev _)) in E2. rewrite rev_involutive in E2. discriminate.
    + assert (H' : c2 :: r' <> [] /\ last (c2 :: r') sl <> sl) by (split; [discriminate|exact H]).
      destruct (Ascii.eqb ch sl); apply IH; right; exact H'.
Qed.

Lemma strip_head r : match strip_trailing_slashes_rev r with [] => True | c :: _ => c <> sl end.
Proof.
  induction r as [|c r IH]; cbn [strip_trailing_slashes_rev]; [exact I|].
  destruct (Ascii.eqb c sl) eqn:E; [exact IH|]. intros ->. now rewrite Ascii.eqb_refl in E.
Qed.

Lemma last_rev_head {A} (x : A) r d : last (rev (x :: r)) d = x.
Proof. cbn [rev]. apply last_last. Qed.

Lemma pathbase_nonempty p : pathbase p <> [].
Proof.
  unfold pathbase. destruct p as [|c p']; [discriminate|].
  pose proof (strip_head (rev (c :: p'))) as H.
  destruct (strip_trailing_slashes_rev (rev (c :: p'))) as [|x r] eqn:E.
  - cbn [rev]. discriminate.
  - destruct (rev (x :: r)) as [|y q] eqn:E2.
    { apply (f_equal (@length _)) in E2. rewrite rev_length in E2. discriminate. }
    unfold pathsplit.
    pose proof (lss_file_nonempty (y :: q) [] [] false) as L.
    destruct (last_slash_split (y :: q) [] [] false) as [[fd d] fl]. cbn [snd] in *.
    apply L. right. split; [discriminate|]. rewrite <- E2, last_rev_head. exact H.
Qed.

Lemma read_layer_files_names c f l : In l (read_layer_files c f) -> l_name l <> [].
Proof.
  unfold read_layer_files.
  assert (Hs : forall n, In n (Lex.sort (children f (c_layers c))) -> n <> []).
  { intros n Hn. apply (proj1 (Lex.sort_in _ _)) in Hn. unfold children in Hn. apply in_map_iff in Hn as (e & <- & _).
    apply pathbase_nonempty. }
  induction (Lex.sort (children f (c_layers c))) as [|n r IH]; cbn [fold_right]; [intros []|].
  assert (IH' : In l (fold_right (fun n acc => if legal_name n then match load_layer c f n with Some l => l :: acc | None => acc end else acc) [] r) -> l_name l <> [])
    by (apply IH; intros n' Hn'; apply Hs; now right).
  destruct (legal_name n); [|exact IH'].
  destruct (load_layer c f n) as [l0|] eqn:E; [|exact IH'].
  intros [<-|Hin]; [|now apply IH'].
  unfold load_layer in E. destruct (if is_file f _ then _ else None); [|discriminate].
  injection E as <-. cbn [l_name]. apply Hs. now left.
Qed.
