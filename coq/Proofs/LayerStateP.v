(* findLayerstate as a function: the layer it returns is the given layer with its kernel mounts
   recorded and its state set to [fls_state]; probing never changes the static part of a layer. *)
From LC Require Import Lib.Bytes Lib.Lex Lib.Fields Lib.PathM Gen.Consts
  Model.MountInfo Model.FsTree Model.Kernel Model.Layers Proofs.LayerMapP.
Open Scope N_scope.

Definition fl_step (c : cfgT) (f : fsT) (ms : list mount) (ds : list device)
  (acc : N * bool * bool) (x : xmount) : N * bool * bool :=
  let '(num, bad, missing) := acc in
  if negb (exists_ f (x_mount x)) then (num, bad, true)
  else if is_abs (x_source x) && negb (exists_ f (x_source x))
          && negb (in_any_layer_dir 64 (c_layers c) (x_source x))
  then (num, bad || match get_mount ms (x_mount x) with Some _ => true | None => false end, true)
  else match get_mount ms (x_mount x) with
       | None => acc
       | Some mnt =>
         let is_bind := beq (x_fstype x) (bs "bind") || beq (x_fstype x) (bs "rbind") in
         (num + 1,
          bad || negb (source_is_expected ds mnt (x_source x))
              || (negb is_bind && negb (beq (m_fstype mnt) (x_fstype x))),
          missing)
       end.

Definition fl_estep (f : fsT) (builddir : bytes) (acc : bool * bool) (x : xmount) : bool * bool :=
  let '(bad, missing) := acc in
  if negb (is_descendant builddir (x_source x)) && negb (beq builddir (x_source x)) then (true, missing)
  else if negb (exists_ f (x_source x)) then (bad, true)
  else if is_symlink f (x_mount x) then
    match readlink f (x_mount x) with
    | Some t => (bad || negb (beq (x_source x) t), missing)
    | None => (true, missing)
    end
  else acc.

Definition fls_tail (c : cfgT) (f : fsT) (ld : ldefs) (l : layer) (num0 : N) : N :=
  let builddir := build_path c l in
  if negb (minimal_dirs_present f builddir) then st_complete else
  match expand_config_mounts c (ld_map ld) l with
  | None => st_inhabited
  | Some xs =>
    let '(num, bad, missing) :=
      fold_left (fl_step c f (pr_mounts (ld_probe ld)) (pr_devs (ld_probe ld))) xs (num0, false, false) in
    let '(bad, missing) :=
      match expand_config_exports c l with
      | None => (true, missing)
      | Some es => fold_left (fl_estep f builddir) es (bad, missing)
      end in
    if bad then st_error
    else if missing then st_inhabited
    else if num =? 0 then st_mountable
    else if num <? N.of_nat (length (l_mounts l)) + num0 then st_partial
    else if l_mbusy l || l_overlain l then st_mounted_busy
    else st_mounted
  end.

Definition fls_state (c : cfgT) (f : fsT) (ld : ldefs) (l : layer) : N :=
  if l_state l <? st_complete then l_state l else
  let builddir := build_path c l in
  let ms := pr_mounts (ld_probe ld) in
  match l_base l with
  | [] => fls_tail c f ld l 0
  | _ =>
    match lm_get (ld_map ld) (l_base l) with
    | None => st_complete
    | Some bl =>
      if l_state bl <? st_mountable then st_complete else
      match get_mount ms builddir with
      | None => st_mountable
      | Some mnt =>
        if negb (beq (m_fstype mnt) overlay) then st_error
        else if negb (beq (m_source mnt) (build_path c bl)) || negb (beq (m_source2 mnt) (upper_path c l))
                || negb (beq (m_workdir mnt) (work_path c l)) then st_error
        else fls_tail c f ld l 1
      end
    end
  end.

Lemma find_layer_base_lsim m : forall fuel l l', lsim l l' ->
  option_map l_path (find_layer_base fuel m l) = option_map l_path (find_layer_base fuel m l').
Proof.
  intros fuel l l' (H1 & H2 & H3 & H4 & H5). destruct fuel; cbn [find_layer_base]; rewrite <- H2;
    destruct (l_base l); cbn [option_map]; try congruence; reflexivity.
Qed.

Lemma expand_config_mounts_lsim c m l l' : lsim l l' ->
  expand_config_mounts c m l = expand_config_mounts c m l'.
Proof.
  intros H. pose proof (find_layer_base_lsim m (S (length m)) l l' H) as Hb.
  pose proof (lsim_build c _ _ H) as Hbp.
  destruct H as (H1 & H2 & H3 & H4 & H5). unfold expand_config_mounts. rewrite <- H3, <- Hbp, <- H5.
  destruct (find_layer_base (S (length m)) m l) as [b|], (find_layer_base (S (length m)) m l') as [b'|];
    cbn [option_map] in Hb; try discriminate; [injection Hb as ->|]; reflexivity.
Qed.

Lemma expand_config_exports_lsim c l l' : lsim l l' ->
  expand_config_exports c l = expand_config_exports c l'.
Proof.
  intros (H1 & H2 & H3 & H4 & H5). unfold expand_config_exports. now rewrite <- H1, <- H4, <- H5.
Qed.

Ltac tail_tac :=
  cbn [negb];
  match goal with |- context [expand_config_mounts ?a ?b ?c] => destruct (expand_config_mounts a b c) end; [|reflexivity];
  match goal with |- context [fold_left ?g ?l (?n0, false, false)] => destruct (fold_left g l (n0, false, false)) as [[? ?] ?] end;
  match goal with |- context [expand_config_exports ?a ?b] => destruct (expand_config_exports a b) end;
  [ match goal with |- context [fold_left ?g ?l (?x, ?y)] => destruct (fold_left g l (x, y)) as [[|] [|]] end
  | ];
  try reflexivity;
  repeat match goal with |- context [if ?b then _ else _] => destruct b end; reflexivity.

Lemma find_layerstate_eq c f ld l :
  find_layerstate c f ld l
  = set_state (set_kmounts l (mounts_at_or_below (ld_probe ld) (build_path c l))) (fls_state c f ld l).
Proof.
  unfold find_layerstate, fls_state, fls_tail, fl_step, fl_estep.
  set (km := mounts_at_or_below (ld_probe ld) (build_path c l)).
  destruct l as [n b mts exs p st mb nb ov ch kms].
  cbv beta iota zeta delta [set_kmounts set_state l_state l_base l_name l_mounts l_exports l_path l_mbusy l_nmbusy l_overlain l_chroot l_kmounts].
  set (l0 := MkL n b mts exs p st mb nb ov ch kms) in *.
  assert (Hx : forall st' km', expand_config_mounts c (ld_map ld) (MkL n b mts exs p st' mb nb ov ch km')
                               = expand_config_mounts c (ld_map ld) l0)
    by (intros; apply expand_config_mounts_lsim; repeat split).
  assert (Hy : forall st' km', expand_config_exports c (MkL n b mts exs p st' mb nb ov ch km')
                               = expand_config_exports c l0)
    by (intros; apply expand_config_exports_lsim; repeat split).
  assert (Hb : forall st' km', build_path c (MkL n b mts exs p st' mb nb ov ch km') = build_path c l0) by reflexivity.
  assert (Hu : forall st' km', upper_path c (MkL n b mts exs p st' mb nb ov ch km') = upper_path c l0) by reflexivity.
  assert (Hw : forall st' km', work_path c (MkL n b mts exs p st' mb nb ov ch km') = work_path c l0) by reflexivity.
  rewrite !Hx, !Hy, ?Hu, ?Hw.
  destruct (st <? st_complete) eqn:Est; [reflexivity|].
  destruct b as [|b0 br]; cbv beta iota.
  - destruct (minimal_dirs_present f (build_path c l0)); cbv beta iota; [|reflexivity].
    tail_tac.
  - destruct (lm_get (ld_map ld) (b0 :: br)) as [bl|]; [|reflexivity].
    match goal with |- context [if ?x <? st_mountable then _ else _] => destruct (x <? st_mountable) end; [reflexivity|].
    destruct (get_mount (pr_mounts (ld_probe ld)) (build_path c l0)) as [mnt|]; [|reflexivity].
    destruct (negb (beq (m_fstype mnt) overlay)); [reflexivity|].
    match goal with |- context [if ?x || ?y || ?z then _ else _] => destruct (x || y || z) end; [reflexivity|].
    destruct (minimal_dirs_present f (build_path c l0)); cbv beta iota; [|reflexivity].
    tail_tac.
Qed.

Lemma find_layerstate_lsim c f ld l : lsim l (find_layerstate c f ld l).
Proof. rewrite find_layerstate_eq. repeat split. Qed.

Lemma find_layerstate_state c f ld l : l_state (find_layerstate c f ld l) = fls_state c f ld l.
Proof. rewrite find_layerstate_eq. reflexivity. Qed.

Lemma find_layerstate_flags c f ld l :
  l_mbusy (find_layerstate c f ld l) = l_mbusy l /\ l_nmbusy (find_layerstate c f ld l) = l_nmbusy l
  /\ l_overlain (find_layerstate c f ld l) = l_overlain l /\ l_chroot (find_layerstate c f ld l) = l_chroot l.
Proof. rewrite find_layerstate_eq. repeat split. Qed.

(* ------------------------------------------------------------------ probe_layer *)
Lemma probe_layer_order c f um ld n : ld_order (probe_layer c f um ld n) = ld_order ld.
Proof. unfold probe_layer. destruct (lm_get (ld_map ld) n) as [l|]; reflexivity. Qed.
Lemma probe_layer_probe c f um ld n : ld_probe (probe_layer c f um ld n) = ld_probe ld.
Proof. unfold probe_layer. destruct (lm_get (ld_map ld) n) as [l|]; reflexivity. Qed.

(* the layer that probe_layer writes back: users and mounts are recorded for every layer, the
   state is computed unless the layerconfig did not load cleanly *)
Definition probed (c : cfgT) (f : fsT) (um : users_map) (ld : ldefs) (l : layer) : layer :=
  let l1 := set_kmounts (classify_users c l (users_of um (l_name l)))
              (mounts_at_or_below (ld_probe ld) (build_path c l)) in
  if l_state l =? st_error then l1
  else if negb (is_dir f (build_path c l)) then set_state l1 st_incomplete
  else if (match l_base l with [] => false | _ => true end)
          && (negb (is_dir f (work_path c l)) || negb (is_dir f (upper_path c l)))
  then set_state l1 st_incomplete
  else find_layerstate c f ld (set_state l1 st_complete).

Lemma probe_layer_eq c f um ld n :
  probe_layer c f um ld n =
  match lm_get (ld_map ld) n with
  | None => ld
  | Some l => MkLD (lm_set (ld_map ld) (probed c f um ld l)) (ld_order ld) (ld_probe ld)
  end.
Proof.
  unfold probe_layer. destruct (lm_get (ld_map ld) n) as [l|] eqn:E; [|reflexivity].
  unfold probed. rewrite (lm_get_name _ _ _ E). reflexivity.
Qed.

Lemma probed_lsim c f um ld l : lsim l (probed c f um ld l).
Proof.
  unfold probed.
  set (l1 := set_kmounts _ _).
  assert (H1 : lsim l l1) by (repeat split).
  destruct (l_state l =? st_error); [exact H1|].
  destruct (negb (is_dir f (build_path c l))); [exact H1|].
  destruct (_ && _); [exact H1|].
  eapply lsim_trans; [|apply find_layerstate_lsim]. exact H1.
Qed.

Lemma probe_layer_msim c f um ld n : msim (ld_map ld) (ld_map (probe_layer c f um ld n)).
Proof.
  rewrite probe_layer_eq. destruct (lm_get (ld_map ld) n) as [l|] eqn:E; [|apply msim_refl].
  cbn [ld_map]. eapply msim_set; [exact E|apply probed_lsim].
Qed.

Lemma fold_probe_order c f um ns : forall ld, ld_order (fold_left (probe_layer c f um) ns ld) = ld_order ld.
Proof. induction ns as [|n r IH]; intros ld; cbn [fold_left]; [reflexivity|]. now rewrite IH, probe_layer_order. Qed.
Lemma fold_probe_probe c f um ns : forall ld, ld_probe (fold_left (probe_layer c f um) ns ld) = ld_probe ld.
Proof. induction ns as [|n r IH]; intros ld; cbn [fold_left]; [reflexivity|]. now rewrite IH, probe_layer_probe. Qed.
Lemma fold_probe_msim c f um ns : forall ld, msim (ld_map ld) (ld_map (fold_left (probe_layer c f um) ns ld)).
Proof.
  induction ns as [|n r IH]; intros ld; cbn [fold_left]; [apply msim_refl|].
  eapply msim_trans; [apply probe_layer_msim|apply IH].
Qed.

(* an invariant of the individual layers that probing establishes or keeps *)
Lemma fold_probe_inv c f um (P : layer -> Prop) :
  (forall ld l, P l -> P (probed c f um ld l)) ->
  forall ns ld, (forall l, In l (ld_map ld) -> P l) ->
  forall l, In l (ld_map (fold_left (probe_layer c f um) ns ld)) -> P l.
Proof.
  intros HP. induction ns as [|n r IH]; intros ld H; cbn [fold_left]; [exact H|].
  apply IH. intros l. rewrite probe_layer_eq.
  destruct (lm_get (ld_map ld) n) as [l0|] eqn:E; [|apply H]. cbn [ld_map].
  intros Hin. apply lm_set_in in Hin as [->|Hin]; [|now apply H].
  apply HP, H. now apply (lm_get_in _ n).
Qed.
