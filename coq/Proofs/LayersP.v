(* Facts about the layer map of Model/Layers.v: probing changes only the dynamic fields of a
   layer (state, busy flags, kernel mounts), never name / base / imports / exports / path;
   loading the layers does not touch the file tree. *)
From LC Require Import Lib.Bytes Lib.Lex Lib.Fields Lib.PathM Gen.Consts
  Model.MountInfo Model.FsTree Model.Kernel Model.Layers Proofs.FsxMonadP.
Close Scope string_scope.
Open Scope list_scope.

Definition static (l : layer) : bytes * bytes * list nmount * list nmount * bytes :=
  (l_name l, l_base l, l_mounts l, l_exports l, l_path l).

Lemma static_name l l' : static l = static l' -> l_name l = l_name l'.
Proof. unfold static. congruence. Qed.
Lemma static_base l l' : static l = static l' -> l_base l = l_base l'.
Proof. unfold static. congruence. Qed.
Lemma static_mounts l l' : static l = static l' -> l_mounts l = l_mounts l'.
Proof. unfold static. congruence. Qed.
Lemma static_exports l l' : static l = static l' -> l_exports l = l_exports l'.
Proof. unfold static. congruence. Qed.
Lemma static_path l l' : static l = static l' -> l_path l = l_path l'.
Proof. unfold static. congruence. Qed.

Lemma static_set_state l s : static (set_state l s) = static l.
Proof. reflexivity. Qed.
Lemma static_set_kmounts l m : static (set_kmounts l m) = static l.
Proof. reflexivity. Qed.
Lemma static_set_busy l a b c : static (set_busy l a b c) = static l.
Proof. reflexivity. Qed.
Lemma static_set_overlain l o : static (set_overlain l o) = static l.
Proof. reflexivity. Qed.
Lemma static_classify c l us : static (classify_users c l us) = static l.
Proof. reflexivity. Qed.

Ltac atom :=
  match goal with
  | |- context [lm_get ?a ?b] => destruct (lm_get a b)
  | |- context [get_mount ?a ?b] => destruct (get_mount a b)
  | |- context [minimal_dirs_present ?a ?b] => destruct (minimal_dirs_present a b)
  | |- context [expand_config_mounts ?a ?b ?c] => destruct (expand_config_mounts a b c)
  | |- context [expand_config_exports ?a ?b] => destruct (expand_config_exports a b)
  | |- context [fold_left ?f ?xs ?a] => first [destruct (fold_left f xs a) as [[? ?] ?] | destruct (fold_left f xs a) as [? ?]]
  | |- context [N.ltb ?a ?b] => destruct (N.ltb a b)
  | |- context [N.eqb ?a ?b] => destruct (N.eqb a b)
  | |- context [beq ?a ?b] => destruct (beq a b)
  | |- context [l_mbusy ?a] => destruct (l_mbusy a)
  | |- context [l_overlain ?a] => destruct (l_overlain a)
  | |- context [if ?b then _ else _] => is_var b; destruct b
  end.
Lemma find_layerstate_static c f ld l : static (find_layerstate c f ld l) = static l.
Proof.
  unfold find_layerstate. cbn [l_base l_state set_kmounts set_state].
  destruct (l_base l) eqn:EB; repeat (atom; cbn [negb orb andb]); reflexivity.
Qed.

(* ------------------------------------------------------------------ layer maps *)
Lemma lm_get_in m n l : lm_get m n = Some l -> In l m /\ l_name l = n.
Proof.
  induction m as [|x r IH]; cbn; [discriminate|]. destruct (beq (l_name x) n) eqn:E.
  - intros H. injection H as ->. apply beq_true in E. split; [now left|exact E].
  - intros H. destruct (IH H). split; [now right|assumption].
Qed.

Lemma lm_set_static m l' l : lm_get m (l_name l') = Some l -> static l' = static l ->
  map static (lm_set m l') = map static m.
Proof.
  induction m as [|x r IH]; cbn; [discriminate|]. destruct (beq (l_name x) (l_name l')) eqn:E.
  - intros H Hs. injection H as ->. cbn. now rewrite Hs.
  - intros H Hs. cbn. now rewrite IH.
Qed.

Lemma lm_get_static m m' n : map static m = map static m' ->
  match lm_get m n, lm_get m' n with
  | Some l, Some l' => static l = static l'
  | None, None => True
  | _, _ => False
  end.
Proof.
  revert m'. induction m as [|x r IH]; intros [|x' r'] H; cbn in *; try discriminate; auto.
  assert (Hx : static x = static x') by congruence.
  assert (Hr : map static r = map static r') by congruence.
  rewrite <- (static_name _ _ Hx).
  destruct (beq (l_name x) n); [exact Hx|now apply IH].
Qed.

Lemma map_static_overlain (g : layer -> bool) m :
  map static (map (fun l => set_overlain l (g l)) m) = map static m.
Proof. rewrite map_map. apply map_ext. reflexivity. Qed.

Lemma probe_layer_static c f um ld n :
  map static (ld_map (probe_layer c f um ld n)) = map static (ld_map ld).
Proof.
  unfold probe_layer. destruct (lm_get (ld_map ld) n) as [l|] eqn:E; [|reflexivity].
  cbv zeta. cbn [ld_map].
  destruct (lm_get_in _ _ _ E) as [_ Hn].
  eapply lm_set_static.
  - match goal with |- lm_get _ (l_name ?x) = _ => assert (Hx : l_name x = n) end.
    { repeat match goal with
      | |- l_name (if ?b then _ else _) = _ => destruct b
      end; try (rewrite (static_name _ _ (find_layerstate_static _ _ _ _))); exact Hn. }
    rewrite Hx. exact E.
  - repeat match goal with
    | |- static (if ?b then _ else _) = _ => destruct b
    end; try rewrite find_layerstate_static; reflexivity.
Qed.

Lemma fold_probe_static c f um order : forall ld,
  map static (ld_map (fold_left (probe_layer c f um) order ld)) = map static (ld_map ld).
Proof.
  induction order as [|n r IH]; intros ld; cbn [fold_left]; [reflexivity|].
  now rewrite IH, probe_layer_static.
Qed.

(* loading and probing the layers reads the tree f0 and leaves it alone *)
Lemma find_layers_spec c f0 :
  hoare (fun g => g = f0) (find_layers c)
        (fun ld g => g = f0 /\ ld_map ld = read_layer_files c f0) (fun g => g = f0).
Proof.
  unfold find_layers.
  apply h_bind with (Q := fun f g => g = f0 /\ f = g); [apply h_get_fs|]. intros f.
  destruct (negb (is_dir f (c_layers c))); [apply h_fail; tauto|].
  destruct (negb (check_inheritance (read_layer_files c f))); [apply h_fail; tauto|].
  destruct (normalize_order (read_layer_files c f)); [|apply h_diverge; tauto].
  apply h_ret. intros g [-> ->]. auto.
Qed.
Lemma refresh_mounts_spec (P : fsT -> Prop) c ld :
  hoare P (refresh_mounts c ld)
        (fun ld' g => P g /\ map static (ld_map ld') = map static (ld_map ld)) P.
Proof.
  unfold refresh_mounts.
  apply h_bind with (Q := fun _ g => P g); [apply h_get_ks|]. intros k.
  destruct (probe_of k); [apply h_panic; tauto|].
  apply h_ret. intros g Hg. split; [exact Hg|]. cbn [ld_map]. apply map_static_overlain.
Qed.
Lemma probe_all_spec (P : fsT -> Prop) c um ld :
  hoare P (probe_all c um ld)
        (fun ld' g => P g /\ map static (ld_map ld') = map static (ld_map ld)) P.
Proof.
  unfold probe_all. eapply h_bind; [apply refresh_mounts_spec|]. intros ld1.
  apply h_bind with (Q := fun f g => (P g /\ map static (ld_map ld1) = map static (ld_map ld)) /\ f = g).
  - apply h_conseq with (P := fun g => P g /\ map static (ld_map ld1) = map static (ld_map ld))
      (Q := fun f g => (P g /\ map static (ld_map ld1) = map static (ld_map ld)) /\ f = g)
      (E := fun g => P g /\ map static (ld_map ld1) = map static (ld_map ld)); [apply h_get_fs|auto|auto|tauto].
  - intros f. apply h_ret. intros g [[Hg E] _]. split; [exact Hg|]. now rewrite fold_probe_static.
Qed.
Lemma get_layers_spec c um f0 :
  hoare (fun g => g = f0) (get_layers c um)
        (fun ld g => g = f0 /\ map static (ld_map ld) = map static (read_layer_files c f0))
        (fun g => g = f0).
Proof.
  unfold get_layers. eapply h_bind; [apply find_layers_spec|]. intros ld.
  apply h_pure. intros E. eapply h_post; [apply probe_all_spec|].
  cbn beta. intros ld' g [-> E']. split; [reflexivity|]. now rewrite E', E.
Qed.

(* the same, remembering that the inheritance check passed *)
Lemma get_layers_spec_ci c um f0 :
  hoare (fun g => g = f0) (get_layers c um)
        (fun ld g => g = f0 /\ (map static (ld_map ld) = map static (read_layer_files c f0)
                               /\ check_inheritance (read_layer_files c f0) = true))
        (fun g => g = f0).
Proof.
  unfold get_layers. apply h_bind with (Q := fun ld g => g = f0 /\ (ld_map ld = read_layer_files c f0
                                                   /\ check_inheritance (read_layer_files c f0) = true)).
  - unfold find_layers.
    apply h_bind with (Q := fun f g => g = f0 /\ f = g); [apply h_get_fs|]. intros f.
    destruct (negb (is_dir f (c_layers c))); [apply h_fail; tauto|].
    destruct (negb (check_inheritance (read_layer_files c f))) eqn:Eci; [apply h_fail; tauto|].
    destruct (normalize_order (read_layer_files c f)); [|apply h_diverge; tauto].
    apply h_ret. intros g [-> ->]. apply negb_false_iff in Eci. auto.
  - intros ld. apply h_pure. intros [E Hci]. eapply h_post; [apply probe_all_spec|].
    cbn beta. intros ld' g [-> E']. split; [reflexivity|]. split; [now rewrite E', E|exact Hci].
Qed.

(* a loaded layer lives in <layers>/<name> *)
Lemma loaded_path c f : Forall (fun l => l_path l = layer_path c (l_name l)) (read_layer_files c f).
Proof.
  unfold read_layer_files. generalize (Lex.sort (children f (c_layers c))). intros names.
  induction names as [|n r IH]; cbn [fold_right]; [constructor|].
  destruct (legal_name n); [|exact IH]. destruct (load_layer c f n) as [l|] eqn:E; [|exact IH].
  constructor; [|exact IH]. unfold load_layer in E.
  match type of E with match ?t with _ => _ end = _ => destruct t end; [|discriminate].
  injection E as <-. reflexivity.
Qed.

(* ------------------------------------------------------------------ equality tests *)
Lemma nmount_beq_true a b : nmount_beq a b = true <-> a = b.
Proof.
  unfold nmount_beq. rewrite !andb_true_iff, !beq_true. destruct a, b; cbn. split.
  - intros [[-> ->] ->]. reflexivity.
  - intros H. injection H as -> -> ->. auto.
Qed.
Lemma nmounts_beq_refl l : list_beq nmount_beq l l = true.
Proof. apply (list_beq_true nmount_beq nmount_beq_true). reflexivity. Qed.
