(* Facts about legal layer names (Model/Layers.v: legal_name, legal_rest, name_bytes_ok) that the
   path lemmas of the properties need.  A legal name is a sequence of one-byte characters
   (ASCII letters, digits, '_', '-') and two-byte UTF-8 letters; every one of its bytes is
   either such an ASCII character or a byte >= 128, so none is '/', '.', '~' or white space. *)
From Coq Require Import ZifyBool ZifyNat ZifyN.
From LC Require Import Lib.Bytes Lib.Fields Model.Layers.
Local Open Scope N_scope.

Definition name_byte (c : ascii) : bool := legal_char c || (128 <=? bn c).

Lemma utf2_letter_bytes a b : utf2_letter a b = true ->
  (195 <= bn a <= 202 \/ 208 <= bn a <= 209) /\ 128 <= bn b <= 191.
Proof. unfold utf2_letter, letter_cp, utf2_cp. intros H. lia. Qed.

Lemma utf2_letter_name_byte a b : utf2_letter a b = true -> name_byte a = true /\ name_byte b = true.
Proof. intros H. apply utf2_letter_bytes in H. unfold name_byte. lia. Qed.

Lemma legal_char1_char c : legal_char1 c = true -> legal_char c = true.
Proof. unfold legal_char1, legal_char. intros H. lia. Qed.

Lemma legal_rest_bytes_aux s :
  (legal_rest s = true -> Forall (fun c => name_byte c = true) s)
  /\ (forall c, legal_rest (c :: s) = true -> Forall (fun c => name_byte c = true) (c :: s)).
Proof.
  induction s as [|d r [IH1 IH2]].
  - split; [constructor|]. intros c H. cbn [legal_rest] in H.
    destruct (legal_char c) eqn:Ec; [|discriminate]. constructor; [|constructor].
    unfold name_byte. now rewrite Ec.
  - split; [apply IH2|]. intros c H. cbn [legal_rest] in H. cbn [legal_rest] in IH2.
    destruct (legal_char c) eqn:Ec.
    + constructor; [unfold name_byte; now rewrite Ec|]. apply IH2. exact H.
    + apply andb_true_iff in H as [Hu Hr]. destruct (utf2_letter_name_byte c d Hu) as [Hc Hd].
      constructor; [exact Hc|]. constructor; [exact Hd|]. apply IH1. exact Hr.
Qed.
Lemma legal_rest_bytes s : legal_rest s = true -> Forall (fun c => name_byte c = true) s.
Proof. apply legal_rest_bytes_aux. Qed.

Lemma legal_name_rest n : legal_name n = true -> legal_rest n = true.
Proof.
  destruct n as [|c r]; [reflexivity|]. cbn [legal_name legal_rest].
  destruct (legal_char1 c) eqn:E1.
  - rewrite (legal_char1_char c E1). tauto.
  - destruct (legal_char c) eqn:E2; [|tauto].
    assert (Hc : bn c = 45) by (unfold legal_char in E2; unfold legal_char1 in E1; lia).
    destruct r as [|d r']; [discriminate|]. intros H. apply andb_true_iff in H as [Hu _].
    apply utf2_letter_bytes in Hu. lia.
Qed.

Lemma legal_name_bytes n : legal_name n = true -> Forall (fun c => name_byte c = true) n.
Proof. intros H. apply legal_rest_bytes, legal_name_rest, H. Qed.

(* '-' is not a legal first byte *)
Lemma legal_name_first c r : legal_name (c :: r) = true -> bn c <> 45.
Proof.
  cbn [legal_name]. destruct (legal_char1 c) eqn:E1; [unfold legal_char1, is_alnum in E1; lia|].
  destruct r as [|d r']; [discriminate|]. intros H. apply andb_true_iff in H as [Hu _].
  apply utf2_letter_bytes in Hu. lia.
Qed.

(* what the path and tokenizer lemmas use: no byte of a name is '/', '.', '~' or ASCII white space *)
Lemma name_byte_facts c : name_byte c = true ->
  bn c <> 47 /\ bn c <> 46 /\ bn c <> 126 /\ is_sp c = false.
Proof. unfold name_byte, legal_char, is_alnum, is_sp. intros H. repeat split; lia. Qed.
Lemma name_byte_sl : name_byte (nb 47) = false.
Proof. reflexivity. Qed.
Lemma name_byte_dot : name_byte (nb 46) = false.
Proof. reflexivity. Qed.
Lemma name_byte_tilde : name_byte (nb 126) = false.
Proof. reflexivity. Qed.

Lemma legal_name_in n c : legal_name n = true -> In c n -> name_byte c = true.
Proof. intros H. pose proof (legal_name_bytes n H) as HF. rewrite Forall_forall in HF. apply HF. Qed.

(* a name that contains a byte which is no name byte is illegal *)
Lemma illegal_with c n : name_byte c = false -> In c n -> legal_name n = false.
Proof.
  intros Hc Hin. destruct (legal_name n) eqn:E; [|reflexivity].
  rewrite (legal_name_in n c E Hin) in Hc. discriminate.
Qed.

(* ---- the modelled domain of byte strings (LC.wf) *)
(* legal names are inside it *)
Lemma legal_rest_ok_aux s :
  (legal_rest s = true -> name_bytes_ok s = true)
  /\ (forall c, legal_rest (c :: s) = true -> name_bytes_ok (c :: s) = true).
Proof.
  induction s as [|d r [IH1 IH2]].
  - split; [reflexivity|]. intros c H. cbn [legal_rest] in H. cbn [name_bytes_ok].
    destruct (legal_char c) eqn:Ec; [|discriminate].
    assert (Hlt : (bn c <? 128) = true) by (unfold legal_char, is_alnum in Ec; lia). now rewrite Hlt.
  - split; [apply IH2|]. intros c H. cbn [legal_rest] in H. cbn [legal_rest] in IH2.
    change (name_bytes_ok (c :: d :: r)) with
      (if bn c <? 128 then name_bytes_ok (d :: r) else utf2_letter c d && name_bytes_ok r).
    destruct (legal_char c) eqn:Ec.
    + assert (Hlt : (bn c <? 128) = true) by (unfold legal_char, is_alnum in Ec; lia). rewrite Hlt.
      apply IH2. exact H.
    + apply andb_true_iff in H as [Hu Hr]. pose proof (utf2_letter_bytes c d Hu) as Hb.
      assert (Hlt : (bn c <? 128) = false) by lia. rewrite Hlt, Hu. apply IH1. exact Hr.
Qed.
Lemma legal_name_in_domain n : legal_name n = true -> name_bytes_ok n = true.
Proof. intros H. apply legal_rest_ok_aux, legal_name_rest, H. Qed.

(* Go's strings.Fields / strings.TrimSpace split at Unicode white space; the model's [fields] and
   [trim] split at ASCII white space and are exact when no lead byte of a multi-byte space
   (C2 E1 E2 E3) occurs: [fields_exact].  The bytes of the admitted two-byte letters are
   C3..CA, D0, D1 (lead) and 80..BF (continuation): none is such a lead byte, and none is an ASCII
   white-space byte, so the ASCII definitions stay exact on the wider domain. *)
Definition dom_byte (c : ascii) : bool :=
  let n := bn c in (n <? 128) || ((128 <=? n) && (n <=? 191)) || ((195 <=? n) && (n <=? 202)) || (n =? 208) || (n =? 209).
Lemma name_bytes_ok_bytes_aux s :
  (name_bytes_ok s = true -> Forall (fun c => dom_byte c = true) s)
  /\ (forall c, name_bytes_ok (c :: s) = true -> Forall (fun c => dom_byte c = true) (c :: s)).
Proof.
  induction s as [|d r [IH1 IH2]].
  - split; [constructor|]. intros c H. cbn [name_bytes_ok] in H.
    destruct (bn c <? 128) eqn:Ec; [|discriminate]. constructor; [|constructor]. unfold dom_byte. lia.
  - split; [apply IH2|]. intros c H.
    change (name_bytes_ok (c :: d :: r)) with
      (if bn c <? 128 then name_bytes_ok (d :: r) else utf2_letter c d && name_bytes_ok r) in H.
    destruct (bn c <? 128) eqn:Ec.
    + constructor; [unfold dom_byte; lia|]. apply IH2. exact H.
    + apply andb_true_iff in H as [Hu Hr]. pose proof (utf2_letter_bytes c d Hu) as Hb.
      constructor; [unfold dom_byte; lia|]. constructor; [unfold dom_byte; lia|]. apply IH1. exact Hr.
Qed.
Lemma name_bytes_ok_bytes s : name_bytes_ok s = true -> Forall (fun c => dom_byte c = true) s.
Proof. apply name_bytes_ok_bytes_aux. Qed.
Lemma dom_byte_facts c : dom_byte c = true ->
  uni_lead c = false /\ (is_sp c = true -> bn c < 128).
Proof. unfold dom_byte, uni_lead, is_sp. intros H. split; lia. Qed.
Theorem name_bytes_ok_fields_exact s : name_bytes_ok s = true -> fields_exact s = true.
Proof.
  intros H. apply name_bytes_ok_bytes in H. unfold fields_exact. apply negb_true_iff.
  induction H as [|c r Hc _ IH]; [reflexivity|]. cbn [existsb]. rewrite IH.
  destruct (dom_byte_facts c Hc) as [Hl _]. now rewrite Hl.
Qed.

(* the decoder computes *)
Example legal_voila : legal_name (hx "766f696cc3a0") = true.   (* "voil" U+00E0 *)
Proof. vm_compute. reflexivity. Qed.
Example legal_cyr : legal_name (hx "d0a0d185") = true.         (* U+0420 U+0445 *)
Proof. vm_compute. reflexivity. Qed.
Example illegal_times : (legal_name (hx "c39778"), name_bytes_ok (hx "c39778")) = (false, false).  (* U+00D7 x *)
Proof. vm_compute. reflexivity. Qed.
Example illegal_cjk : (legal_name (hx "e4b8ad"), name_bytes_ok (hx "e4b8ad")) = (false, false).    (* U+4E2D *)
Proof. vm_compute. reflexivity. Qed.
Example illegal_nbsp : (legal_name (hx "c2a0"), name_bytes_ok (hx "c2a0")) = (false, false).       (* U+00A0 *)
Proof. vm_compute. reflexivity. Qed.
Example illegal_truncated : (legal_name (hx "61c3"), name_bytes_ok (hx "61c3")) = (false, false).
Proof. vm_compute. reflexivity. Qed.
Example illegal_stray : (legal_name (hx "61a0"), name_bytes_ok (hx "61a0")) = (false, false).
Proof. vm_compute. reflexivity. Qed.
Example in_domain_path : name_bytes_ok (hx "2f6c2f766f696cc3a02f6275696c64") = true.  (* /l/voil<U+00E0>/build *)
Proof. vm_compute. reflexivity. Qed.

Print Assumptions legal_name_bytes.
Print Assumptions name_bytes_ok_fields_exact.
