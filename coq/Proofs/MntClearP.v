(* C01 support: from known-finding class 1 to [rbind_clear].
   If no chain layer is in class 1 ([C01.rbind_over_other]: an rbind import whose mountpoint
   lies strictly above the mountpoint of another import of the same layer) and the build
   directories of different chain layers are not nested ([builds_apart]), then no expected
   mountpoint of the chain lies strictly below the mountpoint of an rbind import.
   The argument is on the components of clean absolute paths. *)
From LC Require Import Lib.Bytes Lib.Lex Lib.Fields Lib.PathM Gen.Consts
  Model.MountInfo Model.FsTree Model.Kernel Model.Layers Cases.Verdict Cases.LC Cases.C01
  Proofs.PathP Proofs.MntTraceP Proofs.MntDiskP Proofs.MntPathP Proofs.C01P.
Import LCS.
Open Scope N_scope.
Notation pplain := PathM.plain.

(* ------------------------------------------------------------------ components of clean absolute paths *)
Lemma pjoin_nil_inv cs : Forall pplain cs -> pjoin cs = [] -> cs = [].
Proof.
  intros HP E. destruct cs as [|c cs]; [reflexivity|]. inversion HP as [|? ? Hc _]; subst.
  exfalso. now apply (pjoin_plain_nonempty c cs).
Qed.

Lemma psplit_pjoin cs : cs <> [] -> Forall pplain cs -> psplit (pjoin cs) = cs.
Proof. intros Hne HP. apply split_join; [exact Hne|now apply plain_forall_noslash]. Qed.

Lemma pjoin_inj a b : Forall pplain a -> Forall pplain b -> pjoin a = pjoin b -> a = b.
Proof.
  intros Ha Hb E. destruct a as [|x a'].
  - symmetry. apply pjoin_nil_inv; [exact Hb|now rewrite <- E].
  - destruct b as [|y b'].
    + apply pjoin_nil_inv; [exact Ha|now rewrite E].
    + rewrite <- (psplit_pjoin (x :: a')), <- (psplit_pjoin (y :: b')), E; try discriminate; auto.
Qed.

(* string prefix with a slash => proper prefix of the component lists *)
Lemma prefix_comps a b : Forall pplain a -> Forall pplain b ->
  prefixb ((sl :: pjoin a) ++ [sl]) (sl :: pjoin b) = true -> exists r, r <> [] /\ b = a ++ r.
Proof.
  intros Ha Hb H. apply prefixb_spec in H as (r' & E). cbn [app] in E. injection E as E.
  rewrite <- app_assoc in E. cbn [app] in E.
  destruct a as [|x a'].
  - exfalso. change (pjoin []) with (@nil ascii) in E. cbn [app] in E.
    destruct b as [|y b']; [change (pjoin []) with (@nil ascii) in E; discriminate E|].
    inversion Hb as [|? ? Hy _]; subst. destruct (plain_nonempty_noslash _ Hy) as (c0 & y' & -> & Hc0).
    destruct (pjoin_head (c0 :: y') b') as (t & Et). rewrite Et in E. cbn [app] in E. injection E as E0 _.
    congruence.
  - destruct b as [|y b'].
    { exfalso. change (pjoin []) with (@nil ascii) in E. destruct (pjoin (x :: a')); discriminate E. }
    assert (Hs : psplit (pjoin (y :: b')) = psplit (pjoin (x :: a') ++ sl :: r')) by now rewrite E.
    unfold psplit in Hs at 2. rewrite split_app_sep in Hs. fold psplit in Hs.
    rewrite !psplit_pjoin in Hs by (try discriminate; assumption).
    exists (psplit r'). split; [apply split_acc_nonempty|exact Hs].
Qed.

Lemma comps_at_or_under a b : Forall pplain a -> Forall pplain b ->
  at_or_under (sl :: pjoin a) (sl :: pjoin b) = true -> exists r, b = a ++ r.
Proof.
  intros Ha Hb H. destruct a as [|x a']; [now exists b|].
  unfold at_or_under in H. apply orb_true_iff in H as [H|H].
  - apply beq_true in H. apply (f_equal (@tl ascii)) in H. change (pjoin b = pjoin (x :: a')) in H.
    apply pjoin_inj in H; [|assumption|assumption].
    exists []. now rewrite app_nil_r.
  - unfold under in H.
    assert (Hne : beq (sl :: pjoin (x :: a')) root = false).
    { apply beq_false. unfold root. intros E. injection E as E. inversion Ha; subst.
      now apply (pjoin_plain_nonempty x a'). }
    rewrite Hne in H. destruct (prefix_comps _ _ Ha Hb H) as (r & _ & E). now exists r.
Qed.

Lemma comps_at_or_under_intro a r : Forall pplain a -> Forall pplain r ->
  at_or_under (sl :: pjoin a) (sl :: pjoin (a ++ r)) = true.
Proof.
  intros Ha Hr. unfold at_or_under. destruct r as [|m1 ms'].
  - rewrite app_nil_r, beq_refl. reflexivity.
  - apply orb_true_iff. right. unfold under. inversion Hr as [|? ? Hm1 Hm2]; subst.
    destruct a as [|b1 bs'].
    + change (beq (sl :: pjoin []) root) with (beq root root). rewrite beq_refl. cbn [app].
      change (is_abs (sl :: pjoin (m1 :: ms'))) with (Ascii.eqb sl sl). rewrite Ascii.eqb_refl. cbn [andb].
      apply negb_true_iff. apply beq_false. unfold root. intros E. injection E as E.
      now apply (pjoin_plain_nonempty m1 ms').
    + inversion Ha as [|? ? Hb1 Hb2]; subst.
      assert (Hne : beq (sl :: pjoin (b1 :: bs')) root = false).
      { apply beq_false. unfold root. intros E. injection E as E. now apply (pjoin_plain_nonempty b1 bs'). }
      rewrite Hne. rewrite pjoin_app by discriminate.
      apply prefixb_spec. exists (pjoin (m1 :: ms')). cbn [app]. now rewrite <- app_assoc.
Qed.

(* two prefixes of one list are comparable *)
Lemma prefixes_comparable {A} (a b ra rb : list A) : a ++ ra = b ++ rb ->
  (exists r, b = a ++ r) \/ (exists r, a = b ++ r).
Proof.
  revert b. induction a as [|x a IH]; intros b E; [left; now exists b|].
  destruct b as [|y b]; [right; now exists (x :: a)|].
  cbn [app] in E. injection E as -> E. destruct (IH b E) as [(r & ->)|(r & ->)]; [left|right]; now exists r.
Qed.

(* ------------------------------------------------------------------ the hypotheses *)
Definition chain_no_kf1 (ch : list layer) : bool := forallb (fun x => negb (C01.rbind_over_other x)) ch.
(* build directories of different chain layers are not nested *)
Definition builds_apart (c : cfgT) (ch : list layer) : bool :=
  forallb (fun x => forallb (fun y => beq (l_name x) (l_name y)
                                      || negb (at_or_under (build_path c x) (build_path c y))) ch) ch.

(* an expected mount: the overlay on the build directory, or an import below it *)
Lemma expected_cases c ch x em : In em (expected_mounts c ch x) ->
  (em_fstype em = overlay /\ em_target em = build_path c x)
  \/ (exists nm, In nm (l_mounts x) /\ em_target em = pathjoin [build_path c x; nm_mount nm]
                 /\ em_fstype em = nm_fstype nm).
Proof.
  unfold expected_mounts. intros H. apply in_app_or in H as [H|H].
  - left. destruct (l_base x); [destruct H|]. destruct H as [<-|[]]. split; reflexivity.
  - right. apply in_flat_map in H as (nm & Hnm & H). exists nm. split; [exact Hnm|].
    destruct (resolve_source c ch x (nm_source nm)); [|destruct H]. destruct H as [<-|[]]. split; reflexivity.
Qed.

Theorem kf_clear c f n : is_abs (c_layers c) = true ->
  chain_no_kf1 (chain c f n) = true -> builds_apart c (chain c f n) = true ->
  rbind_clear c (chain c f n) = true.
Proof.
  intros Habs Hkf Hap. set (ch := chain c f n) in *.
  unfold rbind_clear, expected_chain_mounts. apply forallb_forall. intros em1 Hem1.
  apply in_flat_map in Hem1 as (x & Hx & Hem1).
  destruct (beq (em_fstype em1) (bs "rbind")) eqn:Erb; [|reflexivity]. cbn [negb orb].
  apply forallb_forall. intros em2 Hem2. apply in_flat_map in Hem2 as (y & Hy & Hem2).
  apply negb_true_iff. destruct (prefixb (em_target em1 ++ [sl]) (em_target em2)) eqn:Epre; [exfalso|reflexivity].
  (* layers and their build directories *)
  pose proof (read_layer_files_ok c f) as Hok. rewrite Forall_forall in Hok.
  pose proof (Hok x (chain_in_disk c f n x Hx)) as Hokx. pose proof (Hok y (chain_in_disk c f n y Hy)) as Hoky.
  destruct (build_cabs c x Habs Hokx) as (cbx & Pbx & Ebx).
  destruct (build_cabs c y Habs Hoky) as (cby & Pby & Eby).
  (* em1 is an rbind import of x *)
  apply beq_true in Erb.
  destruct (expected_cases _ _ _ _ Hem1) as [[Eo _]|(nm1 & Hnm1 & Et1 & Ety1)].
  { rewrite Eo in Erb. discriminate Erb. }
  destruct Hokx as [_ Hmx]. rewrite Forall_forall in Hmx. destruct (Hmx _ Hnm1) as [(raw1 & Eraw1) _].
  destruct (clean_cabs (sl :: raw1) eq_refl) as (cm1 & Pm1 & Em1). rewrite <- Eraw1 in Em1.
  rewrite (join_cabs _ _ cbx cm1 Pbx Pm1 Ebx Em1) in Et1.
  (* the components of em2's target: those of build y, then some more *)
  assert (H2 : exists s, Forall pplain s /\ em_target em2 = sl :: pjoin (cby ++ s)
                /\ (s = [] \/ exists nm2, In nm2 (l_mounts y) /\ nm_mount nm2 = sl :: pjoin s)).
  { destruct (expected_cases _ _ _ _ Hem2) as [[_ Et2]|(nm2 & Hnm2 & Et2 & _)].
    - exists []. rewrite app_nil_r. split; [constructor|]. split; [now rewrite Et2|now left].
    - destruct Hoky as [_ Hmy]. rewrite Forall_forall in Hmy. destruct (Hmy _ Hnm2) as [(raw2 & Eraw2) _].
      destruct (clean_cabs (sl :: raw2) eq_refl) as (cm2 & Pm2 & Em2). rewrite <- Eraw2 in Em2.
      exists cm2. split; [exact Pm2|]. split; [|right; now exists nm2].
      rewrite Et2. now apply join_cabs. }
  destruct H2 as (s & Ps & Et2 & Hs).
  rewrite Et1, Et2 in Epre.
  destruct (prefix_comps (cbx ++ cm1) (cby ++ s)) as (r & Hr & Er);
    [apply Forall_app; now split|apply Forall_app; now split|exact Epre|].
  rewrite <- app_assoc in Er.
  destruct (beq (l_name x) (l_name y)) eqn:Exy.
  - (* the same layer *)
    apply beq_true in Exy. pose proof (chain_get c f n) as Hg. rewrite Forall_forall in Hg.
    pose proof (Hg x Hx) as Gx. pose proof (Hg y Hy) as Gy. rewrite Exy in Gx. rewrite Gx in Gy.
    injection Gy as <-.
    assert (cby = cbx).
    { apply pjoin_inj; [assumption|assumption|]. rewrite Ebx in Eby. now injection Eby. }
    subst cby. apply app_inv_head in Er.
    destruct Hs as [->|(nm2 & Hnm2 & Em2)].
    + destruct cm1; [destruct r; [congruence|discriminate Er]|discriminate Er].
    + (* under (nm_mount nm1) (nm_mount nm2): class 1 *)
      unfold chain_no_kf1 in Hkf. rewrite forallb_forall in Hkf. specialize (Hkf x Hx).
      apply negb_true_iff in Hkf.
      assert (Hk : C01.rbind_over_other x = true).
      { unfold C01.rbind_over_other. apply existsb_exists. exists nm1. split; [exact Hnm1|].
        rewrite <- Ety1, Erb, beq_refl. cbn [andb]. apply existsb_exists. exists nm2. split; [exact Hnm2|].
        rewrite Em1, Em2, Er.
        assert (Pr : Forall pplain r) by (rewrite Er in Ps; now apply Forall_app in Ps).
        pose proof (comps_at_or_under_intro cm1 r Pm1 Pr) as Hau.
        unfold at_or_under in Hau. apply orb_true_iff in Hau as [Hau|Hau]; [|exact Hau].
        exfalso. apply beq_true in Hau. injection Hau as Hau.
        apply pjoin_inj in Hau; [|apply Forall_app; now split|assumption].
        rewrite <- (app_nil_r cm1) in Hau at 2. apply app_inv_head in Hau. contradiction. }
      congruence.
  - (* different layers: their build directories would be nested *)
    unfold builds_apart in Hap. rewrite forallb_forall in Hap.
    pose proof (Hap x Hx) as Hxy. rewrite forallb_forall in Hxy. specialize (Hxy y Hy).
    pose proof (Hap y Hy) as Hyx. rewrite forallb_forall in Hyx. specialize (Hyx x Hx).
    rewrite Exy in Hxy. rewrite beq_sym, Exy in Hyx. cbn [orb] in Hxy, Hyx.
    apply negb_true_iff in Hxy, Hyx.
    symmetry in Er.
    destruct (prefixes_comparable _ _ _ _ Er) as [(r0 & E0)|(r0 & E0)].
    + assert (P0 : Forall pplain r0) by (rewrite E0 in Pby; now apply Forall_app in Pby).
      pose proof (comps_at_or_under_intro cbx r0 Pbx P0) as Hau.
      rewrite <- E0, <- Ebx, <- Eby in Hau. congruence.
    + assert (P0 : Forall pplain r0) by (rewrite E0 in Pbx; now apply Forall_app in Pbx).
      pose proof (comps_at_or_under_intro cby r0 Pby P0) as Hau.
      rewrite <- E0, <- Ebx, <- Eby in Hau. congruence.
Qed.

(* ------------------------------------------------------------------ (d2)/(d3) under "no chain layer in class 1" *)
Import LC.

Theorem C01_post_count_kf_partial_proof cfg w e n um : plain_env e = true ->
  wf_table (ks_tab (wo_ks w)) = true ->
  is_abs (c_layers cfg) = true ->
  chain_no_kf1 (chain cfg (wo_fs w) n) = true ->
  builds_apart cfg (chain cfg (wo_fs w) n) = true ->
  v_res (mview cfg w e n um) = ROk ->
  count_post cfg (chain cfg (wo_fs w) n) (ks_tab (wo_ks w))
             (ks_tab (wo_ks (v_after (mview cfg w e n um)))) = true.
Proof.
  intros He Hw Habs Hkf Hap Hr. apply C01_post_count_partial_proof; try assumption.
  now apply kf_clear.
Qed.

Theorem C01_post_kf_partial_proof cfg w e n um : plain_env e = true ->
  wf_table (ks_tab (wo_ks w)) = true ->
  is_abs (c_layers cfg) = true ->
  chain_no_kf1 (chain cfg (wo_fs w) n) = true ->
  builds_apart cfg (chain cfg (wo_fs w) n) = true ->
  pre_right cfg (wo_fs w) (chain cfg (wo_fs w) n) (ks_tab (wo_ks w)) = true ->
  nodup_targets cfg (chain cfg (wo_fs w) n) = true ->
  nocomma_paths cfg (layers_on_disk cfg (wo_fs w)) (chain cfg (wo_fs w) n) = true ->
  ids_ok (wo_ks w) = true ->
  id_bound (wo_ks (v_after (mview cfg w e n um))) = true ->
  v_res (mview cfg w e n um) = ROk ->
  C01.mount_post cfg (wo_fs w) (layers_on_disk cfg (wo_fs w)) (chain cfg (wo_fs w) n)
    (ks_tab (wo_ks w)) (ks_tab (wo_ks (v_after (mview cfg w e n um)))) = true.
Proof.
  intros He Hw Habs Hkf Hap Hpr Hnd Hnc Hids Hb Hr. apply C01_post_partial_proof; try assumption.
  now apply kf_clear.
Qed.

(* the case-level class: kf c = 0 says that no layer on disk (initially) is in class 1, in
   particular none of the chain of a mount from the initial world *)
Lemma kf_zero_chain c n : C01.kf c = 0 -> chain_no_kf1 (chain (c_cfg c) (c_fs0 c) n) = true.
Proof.
  unfold C01.kf. destruct (existsb C01.rbind_over_other (layers_on_disk (c_cfg c) (c_fs0 c))) eqn:E;
    [discriminate|]. intros _.
  unfold chain_no_kf1. apply forallb_forall. intros x Hx. apply negb_true_iff.
  destruct (C01.rbind_over_other x) eqn:Ex; [|reflexivity].
  assert (existsb C01.rbind_over_other (layers_on_disk (c_cfg c) (c_fs0 c)) = true).
  { apply existsb_exists. exists x. split; [now apply (chain_in_disk _ _ n)|exact Ex]. }
  congruence.
Qed.
