(* C01 (d), "exactly one mount": a cache-free view of the trace ([gtrace]: an item is skipped
   when its target IS mounted, mounted when it is NOT), and the count of lines per expected
   mountpoint along it. *)
From LC Require Import Lib.Bytes Lib.Lex Lib.Fields Lib.PathM Gen.Consts
  Model.MountInfo Model.FsTree Model.Kernel Model.Layers Cases.Verdict Cases.LC Cases.C01
  Proofs.MountInfoP Proofs.MntSimP Proofs.MntWpP Proofs.MntTraceP Proofs.MntDiskP
  Proofs.MntOrderP Proofs.MntKernelP Proofs.MntPathP Proofs.MntNeededP.
Import LCS.
From Coq Require Import ZifyBool ZifyNat.
Open Scope N_scope.

(* ------------------------------------------------------------------ the trace without caches *)
Inductive gtrace : kstate -> list item -> list op -> kstate -> tstat -> Prop :=
| G_nil ks : gtrace ks [] [] ks TDone
| G_stop ks its : gtrace ks its [] ks TStop
| G_skip ks it its ops ks' st :
    In (it_tgt it) (mps ks) -> gtrace ks its ops ks' st -> gtrace ks (it :: its) ops ks' st
| G_mount ks it its f ks1 ops ks' st :
    ~ In (it_tgt it) (mps ks) -> kmount_it f ks it = KOk ks1 ->
    gtrace ks1 its ops ks' st -> gtrace ks (it :: its) (mops it true ++ ops) ks' st
| G_fail ks it its f :
    ~ In (it_tgt it) (mps ks) -> kmount_it f ks it = KErr ->
    gtrace ks (it :: its) (mops it false) ks TFailed.

Lemma itrace_g ks its ops ks' st :
  itrace ks its ops ks' st -> wf_table (ks_tab ks) = true -> tys_ok its ->
  gtrace ks its ops ks' st.
Proof.
  induction 1 as [ks|ks its|ks it its ops ks' st Hc Ht IH
                 |ks it its f0 ks1 ops ks' st Hc Hk Ht IH|ks it its f0 Hc Hk];
    intros Hw Hty.
  - constructor.
  - constructor.
  - inversion Hty as [|? ? Hty1 Hty2]; subst. apply G_skip; [|now apply IH].
    apply mounted_at_in. now rewrite <- cmounted_wf.
  - inversion Hty as [|? ? Hty1 Hty2]; subst.
    eapply G_mount; [|exact Hk|].
    + rewrite cmounted_wf in Hc by exact Hw. now apply mounted_at_false in Hc.
    + apply IH; [|exact Hty2]. eapply kmount_wf; [exact Hw|exact Hty1|exact Hk].
  - eapply G_fail; [|exact Hk].
    rewrite cmounted_wf in Hc by exact Hw. now apply mounted_at_false in Hc.
Qed.

Lemma gtrace_app ks a ops1 ks1 st1 : gtrace ks a ops1 ks1 st1 -> st1 = TDone ->
  forall b ops2 ks2 st, gtrace ks1 b ops2 ks2 st -> gtrace ks (a ++ b) (ops1 ++ ops2) ks2 st.
Proof.
  induction 1 as [ks|ks its|ks it its ops ks' st Hin Hg IH|ks it its f ks1' ops ks' st Hn Hk Hg IH|ks it its f Hn Hk];
    intros Hd b ops2 ks2 st2 H2; try discriminate; cbn [app].
  - exact H2.
  - apply G_skip; [exact Hin|now apply IH].
  - rewrite <- app_assoc. eapply G_mount; [exact Hn|exact Hk|now apply IH].
Qed.

Lemma gtrace_app_stop ks a ops1 ks1 st1 : gtrace ks a ops1 ks1 st1 -> st1 <> TDone ->
  forall b, gtrace ks (a ++ b) ops1 ks1 st1.
Proof.
  induction 1 as [ks|ks its|ks it its ops ks' st Hin Hg IH|ks it its f ks1' ops ks' st Hn Hk Hg IH|ks it its f Hn Hk];
    intros Hd b; try congruence; cbn [app].
  - constructor.
  - apply G_skip; [exact Hin|now apply IH].
  - eapply G_mount; [exact Hn|exact Hk|now apply IH].
  - eapply G_fail; eassumption.
Qed.

Lemma ltrace_g ks ls ops ks' st :
  ltrace ks ls ops ks' st -> wf_table (ks_tab ks) = true -> Forall tys_ok ls ->
  gtrace ks (concat ls) ops ks' st.
Proof.
  induction 1 as [ks|ks ls|ks its ls ops1 ks1 ops2 ks2 st Hi Hl IH|ks its ls ops1 ks1 st Hst Hi];
    intros Hw Hty; cbn [concat].
  - constructor.
  - constructor.
  - inversion Hty as [|? ? Hty1 Hty2]; subst.
    eapply gtrace_app; [|reflexivity|].
    + eapply itrace_g; eassumption.
    + apply IH; [|exact Hty2]. eapply itrace_wf; eassumption.
  - inversion Hty as [|? ? Hty1 Hty2]; subst.
    apply gtrace_app_stop; [|exact Hst]. eapply itrace_g; eassumption.
Qed.

(* ------------------------------------------------------------------ counting *)
Definition cntl (M : list bytes) (p : bytes) : nat := length (filter (fun q => beq q p) M).

Lemma count_at_cntl tab p : count_at tab p = cntl (map k_mp tab) p.
Proof.
  unfold count_at, cntl. induction tab as [|k tab IH]; cbn [filter map]; [reflexivity|].
  destruct (beq (k_mp k) p); cbn [length]; now rewrite IH.
Qed.
Lemma cntl_app a b p : cntl (a ++ b) p = (cntl a p + cntl b p)%nat.
Proof. unfold cntl. now rewrite filter_app, app_length. Qed.
Lemma cntl_notin M p : ~ In p M -> cntl M p = 0%nat.
Proof.
  unfold cntl. induction M as [|q M IH]; intros H; cbn [filter]; [reflexivity|].
  destruct (beq q p) eqn:E.
  - apply beq_true in E. subst. exfalso. apply H. now left.
  - apply IH. intros Hin. apply H. now right.
Qed.
Lemma cntl_in M p : In p M -> (1 <= cntl M p)%nat.
Proof.
  unfold cntl. induction M as [|q M IH]; intros H; [destruct H|]. cbn [filter].
  destruct (beq q p) eqn:E; [cbn; lia|]. destruct H as [->|H]; [rewrite beq_refl in E; discriminate|now apply IH].
Qed.

Lemma rel_suffix_sl s p : under s p = true -> exists r, rel_suffix s p = sl :: r.
Proof.
  unfold under, rel_suffix. destruct (beq s root).
  - intros H. apply andb_true_iff in H as [H1 H2]. apply negb_true_iff in H2. rewrite H2.
    destruct p as [|a p']; [discriminate|]. cbn in H1. apply Ascii.eqb_eq in H1. subst a. now exists p'.
  - intros H. apply prefixb_spec in H as (r & ->). rewrite <- app_assoc. cbn [app].
    exists r. rewrite skipn_app, skipn_all, Nat.sub_diag. reflexivity.
Qed.

(* the lines a mount call adds that carry mountpoint t *)
Lemma delta_count it M t :
  (mount_flags (it_ty it) = MS_BIND + MS_REC -> prefixb (it_tgt it ++ [sl]) t = false) ->
  (cntl (delta (mount_flags (it_ty it)) (it_src it) (it_tgt it) M) t <= (if beq (it_tgt it) t then 1 else 0))%nat.
Proof.
  intros Hrb. unfold delta.
  destruct (mount_flags_cases (it_ty it)) as [E|[E|[E|E]]]; rewrite E in *.
  - change (has_flag MS_BIND MS_REMOUNT) with false. change (has_flag MS_BIND MS_SLAVE) with false.
    change (has_flag MS_BIND MS_BIND) with true. change (has_flag MS_BIND MS_REC) with false.
    cbv iota. unfold cntl. cbn [filter]. destruct (beq (it_tgt it) t); cbn; lia.
  - change (has_flag (MS_BIND + MS_REC) MS_REMOUNT) with false.
    change (has_flag (MS_BIND + MS_REC) MS_SLAVE) with false.
    change (has_flag (MS_BIND + MS_REC) MS_BIND) with true.
    change (has_flag (MS_BIND + MS_REC) MS_REC) with true. cbv iota.
    change (it_tgt it :: map (fun p => it_tgt it ++ rel_suffix (it_src it) p) (filter (under (it_src it)) M))
      with ([it_tgt it] ++ map (fun p => it_tgt it ++ rel_suffix (it_src it) p) (filter (under (it_src it)) M)).
    rewrite cntl_app.
    assert (Hc : cntl (map (fun p => it_tgt it ++ rel_suffix (it_src it) p) (filter (under (it_src it)) M)) t = 0%nat).
    { apply cntl_notin. intros Hin. apply in_map_iff in Hin as (p & Ep & Hp).
      apply filter_In in Hp as [_ Hu]. destruct (rel_suffix_sl _ _ Hu) as (r & Er). rewrite Er in Ep.
      specialize (Hrb eq_refl).
      assert (Hpre : prefixb (it_tgt it ++ [sl]) t = true).
      { apply prefixb_spec. exists r. rewrite <- Ep, <- app_assoc. reflexivity. }
      congruence. }
    rewrite Hc. unfold cntl. cbn [filter]. destruct (beq (it_tgt it) t); cbn; lia.
  - change (has_flag MS_REMOUNT MS_REMOUNT) with true. cbv iota. cbn. lia.
  - change (has_flag 0 MS_REMOUNT) with false. change (has_flag 0 MS_SLAVE) with false.
    change (has_flag 0 MS_BIND) with false. cbv iota. unfold cntl. cbn [filter].
    destruct (beq (it_tgt it) t); cbn; lia.
Qed.

(* no expected target lies strictly below the target of an rbind item *)
Definition rbind_clear_items (its : list item) (T : list bytes) : Prop :=
  forall it t, In it its -> In t T -> mount_flags (it_ty it) = MS_BIND + MS_REC ->
               prefixb (it_tgt it ++ [sl]) t = false.

(* per expected mountpoint: the count is what it was at the start (table [M0]), or the point
   was free and this run put exactly one mount there *)
Definition cinv (T M0 : list bytes) (ks : kstate) : Prop :=
  forall t, In t T ->
    cntl (mps ks) t = cntl M0 t \/ (cntl M0 t = 0%nat /\ cntl (mps ks) t = 1%nat).

Lemma gtrace_count T M0 ks its ops ks' st :
  gtrace ks its ops ks' st -> rbind_clear_items its T -> cinv T M0 ks -> cinv T M0 ks'.
Proof.
  induction 1 as [ks|ks its|ks it its ops ks' st Hin Hg IH|ks it its f ks1 ops ks' st Hn Hk Hg IH|ks it its f Hn Hk];
    intros Hrb Hc; auto.
  - apply IH; [|exact Hc]. intros it' t' Hi'. apply Hrb. now right.
  - apply IH; [intros it' t' Hi'; apply Hrb; now right|].
    intros t' Ht'. pose proof Hk as Hk0. unfold kmount_it in Hk0.
    rewrite (kmount_mps _ _ _ _ _ _ _ _ Hk0), cntl_app.
    pose proof (delta_count it (mps ks) t' (Hrb it t' (or_introl eq_refl) Ht')) as Hd.
    destruct (beq (it_tgt it) t') eqn:E.
    + apply beq_true in E. subst t'. pose proof (cntl_notin _ _ Hn) as H0.
      pose proof (kmount_ok_mounted _ _ _ _ _ _ _ _ Hk0) as Hin1. apply cntl_in in Hin1.
      rewrite (kmount_mps _ _ _ _ _ _ _ _ Hk0), cntl_app in Hin1.
      destruct (Hc _ Ht') as [Hc1|[Hc1 Hc2]]; [right; split; lia|lia].
    + destruct (Hc t' Ht') as [Hc1|[Hc1 Hc2]]; [left; lia|right; split; lia].
Qed.
