(* C01 support: the layer definitions read from disk, the chain of a layer, and the relation
   between the items the model works through ([layer_items], from the model's
   expand_config_mounts / find_layer_base) and the mounts the specification expects
   ([LCS.expected_mounts], with [LCS.root_base] of the chain). *)
From LC Require Import Lib.Bytes Lib.Lex Lib.Fields Lib.PathM Gen.Consts
  Model.MountInfo Model.FsTree Model.Kernel Model.Layers Cases.Verdict Cases.LC
  Proofs.MntSimP Proofs.MntWpP Proofs.MntTraceP.
Import LCS.
Open Scope N_scope.

(* ------------------------------------------------------------------ chains *)
(* [linked m n q]: q is the chain root ... layer named n, following l_base upwards *)
Inductive linked (m : lmap) : bytes -> list layer -> Prop :=
| L_nil : linked m [] []
| L_snoc n l pre : n <> [] -> lm_get m n = Some l -> linked m (l_base l) pre -> linked m n (pre ++ [l]).

Lemma anc_linked fuel : forall m n acc ch, ancestors_and_self fuel m n acc = Some ch ->
  exists pre, ch = pre ++ acc /\ (length pre <= fuel)%nat /\ linked m n pre.
Proof.
  induction fuel as [|fuel IH]; intros m n acc ch; cbn [ancestors_and_self].
  - destruct n; [|discriminate]. intros H. injection H as <-. exists []. repeat split; [cbn; lia|constructor].
  - destruct n as [|a r].
    + intros H. injection H as <-. exists []. repeat split; [cbn; lia|constructor].
    + destruct (lm_get m (a :: r)) as [l|] eqn:El; [|discriminate]. intros H.
      destruct (IH _ _ _ _ H) as (pre & -> & Hlen & Hl).
      exists (pre ++ [l]). split; [now rewrite <- app_assoc|]. split.
      * rewrite app_length. cbn. lia.
      * apply L_snoc; [discriminate|exact El|exact Hl].
Qed.

Lemma linked_nil_inv m q : linked m [] q -> q = [].
Proof. intros H. inversion H; subst; [reflexivity|congruence]. Qed.

Lemma linked_nonempty m n q : linked m n q -> n <> [] -> q <> [].
Proof.
  intros H Hn. inversion H as [E|n0 l0 pre Hn0 Hg Hl E1 E2]; subst; [congruence|].
  destruct pre; discriminate.
Qed.

Lemma linked_snoc_inv m n q l : linked m n (q ++ [l]) ->
  n <> [] /\ lm_get m n = Some l /\ linked m (l_base l) q.
Proof.
  intros H. inversion H as [E|n0 l0 pre Hn Hg Hl E1 E2]; subst.
  - destruct q; discriminate.
  - apply app_inj_tail in E2 as [-> ->]. auto.
Qed.

Lemma flb_linked m : forall n q, linked m n q -> forall pre l, q = pre ++ [l] ->
  forall fuel, (length pre <= fuel)%nat -> find_layer_base fuel m l = Some (hd l q).
Proof.
  induction 1 as [|n l0 pre0 Hn Hg Hl IH]; intros pre l E fuel Hf.
  - destruct pre; discriminate.
  - apply app_inj_tail in E as [<- <-].
    destruct (l_base l0) as [|b r] eqn:Eb.
    + apply linked_nil_inv in Hl. subst pre0.
      destruct fuel; cbn [find_layer_base]; rewrite Eb; reflexivity.
    + destruct pre0 as [|p pre1 _] using rev_ind.
      * exfalso. apply (linked_nonempty _ _ _ Hl); [discriminate|reflexivity].
      * apply linked_snoc_inv in Hl as (_ & Hgp & _).
        rewrite app_length in Hf. cbn in Hf.
        destruct fuel as [|fuel]; [lia|]. cbn [find_layer_base]. rewrite Eb, Hgp.
        rewrite (IH pre1 p eq_refl fuel) by lia.
        destruct pre1; reflexivity.
Qed.

Lemma linked_prefix m : forall q2 n q1 x, linked m n ((q1 ++ [x]) ++ q2) ->
  exists n', linked m n' (q1 ++ [x]).
Proof.
  induction q2 as [|l q2 IH] using rev_ind; intros n q1 x H.
  - rewrite app_nil_r in H. now exists n.
  - rewrite app_assoc in H. apply linked_snoc_inv in H as (_ & _ & H). now apply IH in H.
Qed.

Lemma chain_root_base c f n x : In x (chain c f n) ->
  find_layer_base (S (length (layers_on_disk c f))) (layers_on_disk c f) x
  = Some (root_base (chain c f n) x).
Proof.
  unfold chain. set (m := layers_on_disk c f).
  destruct (ancestors_and_self (S (length m)) m n []) as [ch|] eqn:Ea; [|intros []].
  intros Hin. destruct (anc_linked _ _ _ _ _ Ea) as (pre & E & Hlen & Hl).
  rewrite app_nil_r in E. subst pre.
  apply in_split in Hin as (q1 & q2 & ->).
  change (q1 ++ x :: q2) with (q1 ++ [x] ++ q2) in *. rewrite app_assoc in *.
  destruct (linked_prefix _ _ _ _ _ Hl) as (n' & Hl').
  rewrite (flb_linked m _ _ Hl' q1 x eq_refl).
  - unfold root_base. destruct q1; reflexivity.
  - rewrite !app_length in Hlen. cbn in Hlen. lia.
Qed.

Lemma chain_get c f n : Forall (fun x => lm_get (layers_on_disk c f) (l_name x) = Some x) (chain c f n).
Proof.
  unfold chain. destruct (ancestors_and_self _ _ n []) as [ch|] eqn:Ea; [|constructor].
  eapply ancestors_get; [|exact Ea]. constructor.
Qed.

Lemma lm_get_in m n l : lm_get m n = Some l -> In l m.
Proof.
  induction m as [|x m IH]; cbn [lm_get]; [discriminate|].
  destruct (beq (l_name x) n); [intros H; injection H as <-; now left|intros H; right; now apply IH].
Qed.

Lemma chain_in_disk c f n x : In x (chain c f n) -> In x (layers_on_disk c f).
Proof.
  intros H. pose proof (chain_get c f n) as G. rewrite Forall_forall in G.
  eapply lm_get_in. now apply G.
Qed.

(* ------------------------------------------------------------------ items against expected mounts *)
Lemma adjust_prefixed_ext p cb1 cb2 : (forall n, cb1 n = cb2 n) ->
  adjust_prefixed p cb1 = adjust_prefixed p cb2.
Proof.
  intros H. unfold adjust_prefixed. destruct p as [|a p]; [reflexivity|].
  destruct (span_while is_sigil (a :: p)) as [sigil rest].
  destruct (span_while (fun ch => negb (Ascii.eqb ch sl)) rest) as [name tail].
  rewrite H. reflexivity.
Qed.

Definition item_em (it : item) : emount :=
  MkEM (it_tgt it) (it_src it) (it_ty it) (negb (it_imp it)).

Lemma imports_expected (adj : nmount -> option bytes) (bp : bytes) (l : list nmount) :
  match map_opt (fun nm => match adj nm with
                           | Some src => Some (MkX (pathjoin [bp; nm_mount nm]) src (nm_fstype nm) (nm_mount nm))
                           | None => None end) l with
  | Some xs =>
    flat_map (fun nm => match adj nm with
                        | Some s => [MkEM (pathjoin [bp; nm_mount nm]) s (nm_fstype nm) false]
                        | None => [] end) l
    = map item_em (map xitem xs)
  | None => True
  end.
Proof.
  induction l as [|nm l IH]; cbn [map_opt flat_map]; [reflexivity|].
  destruct (adj nm) as [src|]; [|exact I].
  destruct (map_opt _ l) as [xs|]; [|exact I].
  cbn [map app]. now rewrite IH.
Qed.

Lemma items_expected c f n x : In x (chain c f n) ->
  exists rest,
    expected_mounts c (chain c f n) x = map item_em (layer_items c (layers_on_disk c f) x) ++ rest
    /\ (expand_config_mounts c (layers_on_disk c f) x <> None -> rest = []).
Proof.
  intros Hin. set (m := layers_on_disk c f). set (ch := chain c f n).
  pose proof (chain_root_base c f n x Hin) as Hrb. fold m ch in Hrb.
  unfold expected_mounts, layer_items, ovl_items, imp_items, expand_config_mounts.
  rewrite Hrb.
  set (adj := fun nm : nmount => resolve_source c ch x (nm_source nm)).
  assert (Hadj : forall nm,
            adjust_prefixed (nm_source nm)
              (fun name => if beq name (bs "base") then Some (l_path (root_base ch x))
                           else if beq name (bs "self") then Some (l_path x) else None)
            = adj nm) by reflexivity.
  pose proof (imports_expected adj (build_path c x) (l_mounts x)) as Himp.
  unfold adj in Himp at 1. unfold resolve_source in Himp at 1.
  destruct (map_opt _ (l_mounts x)) as [xs|] eqn:Emo.
  - exists []. split; [|reflexivity]. rewrite app_nil_r, map_app. f_equal.
    + destruct (l_base x); reflexivity.
    + exact Himp.
  - exists (flat_map (fun nm => match resolve_source c ch x (nm_source nm) with
                        | Some s => [MkEM (pathjoin [build_path c x; nm_mount nm]) s (nm_fstype nm) false]
                        | None => [] end) (l_mounts x)).
    split; [|congruence]. rewrite app_nil_r.
    f_equal. destruct (l_base x); reflexivity.
Qed.
