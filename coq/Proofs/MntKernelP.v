(* C01 support: facts about the kernel model (Model/Kernel.v) and the probe of its table.
   - [mounted_at] is membership in the list of mountpoints [mps];
   - a successful [kmount] appends to [mps] a list [delta] that depends only on the call and
     on [mps] itself, monotonically;
   - [kmount] keeps the table well-formed ([wf_table]) when the file-system type has no space;
   - on a well-formed table the probe's GetMount answers exactly [mounted_at]. *)
From LC Require Import Lib.Bytes Lib.Lex Lib.Fields Lib.PathM Gen.Consts
  Model.MountInfo Model.FsTree Model.Kernel Model.Layers Cases.Verdict Cases.LC
  Proofs.MountInfoP Proofs.MntTraceP.
Import LCS.
From Coq Require Import ZifyBool ZifyNat ZifyN.
Open Scope N_scope.

Definition mps (ks : kstate) : list bytes := map k_mp (ks_tab ks).

(* ------------------------------------------------------------------ top_at / mounted_at *)
Lemma top_at_fold tab p : forall acc,
  (match fold_left (fun best k => if beq (k_mp k) p then Some k else best) tab acc with
   | Some _ => true | None => false end)
  = (match acc with Some _ => true | None => false end) || existsb (fun k => beq (k_mp k) p) tab.
Proof.
  induction tab as [|k tab IH]; intros acc; cbn [fold_left existsb].
  - now rewrite orb_false_r.
  - rewrite IH. destruct (beq (k_mp k) p); destruct acc; reflexivity.
Qed.

Lemma mounted_at_existsb tab p : mounted_at tab p = existsb (fun k => beq (k_mp k) p) tab.
Proof. unfold mounted_at, top_at. now rewrite top_at_fold. Qed.

Lemma mounted_at_in tab p : mounted_at tab p = true <-> In p (map k_mp tab).
Proof.
  rewrite mounted_at_existsb. split.
  - intros H. apply existsb_exists in H as (k & Hk & E). apply beq_true in E. subst. now apply in_map.
  - intros H. apply in_map_iff in H as (k & <- & Hk). apply existsb_exists. exists k. split; [exact Hk|apply beq_refl].
Qed.

Lemma mounted_at_false tab p : mounted_at tab p = false <-> ~ In p (map k_mp tab).
Proof.
  rewrite <- mounted_at_in. destruct (mounted_at tab p); split; intros H; try congruence; auto.
Qed.

(* ------------------------------------------------------------------ what kmount adds *)
Definition delta (fl : N) (s t : bytes) (M : list bytes) : list bytes :=
  if has_flag fl MS_REMOUNT then []
  else if has_flag fl MS_SLAVE then []
  else if has_flag fl MS_BIND then
    t :: (if has_flag fl MS_REC then map (fun p => t ++ rel_suffix s p) (filter (under s) M) else [])
  else [t].

Lemma rbind_copies_mps src tgt : forall subs id tab tab2 id2,
  rbind_copies id tab subs src tgt = (tab2, id2) ->
  map k_mp tab2 = map k_mp tab ++ map (fun m => tgt ++ rel_suffix src (k_mp m)) subs.
Proof.
  induction subs as [|m r IH]; intros id tab tab2 id2; cbn [rbind_copies map].
  - intros H. injection H as <- _. now rewrite app_nil_r.
  - intros H. apply IH in H. rewrite H, map_app. cbn [map k_mp]. now rewrite <- app_assoc.
Qed.

Lemma map_filter_mp (g : bytes -> bool) tab :
  map k_mp (filter (fun m => g (k_mp m)) tab) = filter g (map k_mp tab).
Proof.
  induction tab as [|k tab IH]; cbn [filter map]; [reflexivity|].
  destruct (g (k_mp k)); cbn [map]; now rewrite IH.
Qed.

Lemma kmount_mps f ks s t ty fl d ks' :
  kmount f ks s t ty fl d = KOk ks' -> mps ks' = mps ks ++ delta fl s t (mps ks).
Proof.
  unfold kmount, delta, mps.
  destruct (has_flag fl MS_REMOUNT).
  { destruct (top_at (ks_tab ks) t); [|discriminate]. intros H. injection H as <-. now rewrite app_nil_r. }
  destruct (has_flag fl MS_SLAVE).
  { destruct (top_at (ks_tab ks) t); [|discriminate]. intros H. injection H as <-. now rewrite app_nil_r. }
  destruct (negb (exists_ f t)); [discriminate|].
  destruct (has_flag fl MS_BIND).
  - destruct (negb (exists_ f s)); [discriminate|].
    destruct (covering (ks_tab ks) s) as [cv|]; [|discriminate].
    destruct (has_flag fl MS_REC).
    + destruct (rbind_copies _ _ _ s t) as [tab2 id2] eqn:Er. intros H. injection H as <-.
      cbn [ks_tab]. apply rbind_copies_mps in Er. rewrite Er, map_app. cbn [map bind_line k_mp].
      rewrite <- app_assoc. cbn [app]. do 2 f_equal.
      rewrite <- (map_filter_mp (under s)), map_map. reflexivity.
    + intros H. injection H as <-. cbn [ks_tab]. rewrite map_app. reflexivity.
  - destruct (beq ty overlay).
    + destruct (is_dir f _ && is_dir f _ && is_dir f _ && is_dir f t); [|discriminate].
      intros H. injection H as <-. cbn [ks_tab]. rewrite map_app. reflexivity.
    + destruct ty; [discriminate|]. intros H. injection H as <-. cbn [ks_tab]. rewrite map_app. reflexivity.
Qed.

Lemma delta_incl fl s t M1 M2 : incl M1 M2 -> incl (delta fl s t M1) (delta fl s t M2).
Proof.
  intros H. unfold delta.
  destruct (has_flag fl MS_REMOUNT); [apply incl_refl|].
  destruct (has_flag fl MS_SLAVE); [apply incl_refl|].
  destruct (has_flag fl MS_BIND); [|apply incl_refl].
  destruct (has_flag fl MS_REC); [|apply incl_refl].
  intros x [<-|Hx]; [now left|right].
  apply in_map_iff in Hx as (p & <- & Hp). apply filter_In in Hp as [Hp1 Hp2].
  apply (in_map (fun p0 => t ++ rel_suffix s p0)). apply filter_In. split; [now apply H|exact Hp2].
Qed.

Lemma kmount_mono f ks s t ty fl d ks' :
  kmount f ks s t ty fl d = KOk ks' -> incl (mps ks) (mps ks').
Proof. intros H. rewrite (kmount_mps _ _ _ _ _ _ _ _ H). now apply incl_appl. Qed.

Lemma kmount_ok_mounted f ks s t ty fl d ks' :
  kmount f ks s t ty fl d = KOk ks' -> In t (mps ks').
Proof.
  intros H. pose proof (kmount_mps _ _ _ _ _ _ _ _ H) as E. rewrite E. unfold delta.
  unfold kmount in H.
  destruct (has_flag fl MS_REMOUNT).
  { destruct (top_at (ks_tab ks) t) eqn:Et; [|discriminate]. apply in_or_app. left.
    apply mounted_at_in. unfold mounted_at. now rewrite Et. }
  destruct (has_flag fl MS_SLAVE).
  { destruct (top_at (ks_tab ks) t) eqn:Et; [|discriminate]. apply in_or_app. left.
    apply mounted_at_in. unfold mounted_at. now rewrite Et. }
  apply in_or_app. right. destruct (has_flag fl MS_BIND); now left.
Qed.

(* ------------------------------------------------------------------ well-formed tables *)
Lemma nospace_cons c s : nospace (c :: s) = negb (Ascii.eqb c sp) && nospace s.
Proof. unfold nospace, nosepb. cbn [existsb]. now rewrite negb_orb. Qed.

Lemma dec_fuel_nospace fuel : forall n acc, nospace acc = true -> nospace (dec_fuel fuel n acc) = true.
Proof.
  induction fuel as [|fuel IH]; intros n acc Ha; cbn [dec_fuel]; [exact Ha|].
  assert (Hc : nospace (nb (48 + n mod 10) :: acc) = true).
  { rewrite nospace_cons, Ha, andb_true_r. apply negb_true_iff. apply Ascii.eqb_neq. intros E.
    apply (f_equal bn) in E. rewrite bn_nb in E.
    - change (bn sp) with 32 in E. lia.
    - pose proof (N.mod_lt n 10). lia. }
  destruct (n / 10 =? 0); [exact Hc|now apply IH].
Qed.
Lemma dec_nospace n : nospace (dec n) = true.
Proof. apply dec_fuel_nospace. reflexivity. Qed.

Lemma nospace_app a b : nospace (a ++ b) = nospace a && nospace b.
Proof. unfold nospace, nosepb. rewrite existsb_app, negb_orb. reflexivity. Qed.

Lemma covering_in tab p k : covering tab p = Some k -> In k tab.
Proof.
  unfold covering.
  assert (G : forall l acc, fold_left (fun best k0 =>
              if at_or_under (k_mp k0) p then
                match best with
                | Some b0 => if (length (k_mp b0) <=? length (k_mp k0))%nat then Some k0 else best
                | None => Some k0
                end
              else best) l acc = Some k -> acc = Some k \/ In k l).
  { induction l as [|x l IH]; intros acc; cbn [fold_left]; [auto|].
    intros H. apply IH in H as [H|H]; [|right; now right].
    destruct (at_or_under (k_mp x) p); [|now left].
    destruct acc as [b0|].
    - destruct (length (k_mp b0) <=? length (k_mp x))%nat; [injection H as <-; right; now left|now left].
    - injection H as <-. right. now left. }
  intros H. apply G in H as [H|H]; [discriminate|exact H].
Qed.

Lemma wf_kline_proj k : wf_kline k = true ->
  nospace (k_id k) = true /\ nospace (k_parent k) = true /\ nospace (k_dev k) = true
  /\ nospace (k_opts k) = true
  /\ forallb (fun f => nospace f && negb (beq f dash)) (k_optional k) = true
  /\ nospace (k_fstype k) = true
  /\ forallb (fun kv => plainopt (fst kv)) (k_sopts k) = true
  /\ negb (beq (k_fstype k) overlay && match k_sopts k with [] => true | _ => false end) = true.
Proof. unfold wf_kline. rewrite !andb_true_iff. tauto. Qed.

Lemma wf_kline_intro k :
  nospace (k_id k) = true -> nospace (k_parent k) = true -> nospace (k_dev k) = true ->
  nospace (k_opts k) = true ->
  forallb (fun f => nospace f && negb (beq f dash)) (k_optional k) = true ->
  nospace (k_fstype k) = true ->
  forallb (fun kv => plainopt (fst kv)) (k_sopts k) = true ->
  negb (beq (k_fstype k) overlay && match k_sopts k with [] => true | _ => false end) = true ->
  wf_kline k = true.
Proof. intros. unfold wf_kline. rewrite !andb_true_iff. tauto. Qed.

Lemma wf_table_in tab k : wf_table tab = true -> In k tab -> wf_kline k = true.
Proof. unfold wf_table. rewrite forallb_forall. auto. Qed.

Lemma wf_table_app tab l : wf_table (tab ++ l) = wf_table tab && wf_table l.
Proof. unfold wf_table. apply forallb_app. Qed.

Lemma parent_id_nospace tab p : wf_table tab = true -> nospace (parent_id tab p) = true.
Proof.
  intros H. unfold parent_id. destruct (covering tab p) as [k|] eqn:E; [|reflexivity].
  apply covering_in in E. apply (wf_table_in _ _ H) in E. now apply wf_kline_proj in E.
Qed.

Lemma rbind_copies_wf src tgt : forall subs id tab tab2 id2,
  wf_table tab = true -> wf_table subs = true ->
  rbind_copies id tab subs src tgt = (tab2, id2) -> wf_table tab2 = true.
Proof.
  induction subs as [|m r IH]; intros id tab tab2 id2 Ht Hs; cbn [rbind_copies].
  - intros H. now injection H as <- _.
  - cbn [wf_table forallb] in Hs. apply andb_true_iff in Hs as [Hm Hr].
    apply IH; [|exact Hr]. rewrite wf_table_app, Ht. cbn [wf_table forallb andb]. rewrite andb_true_r.
    apply wf_kline_proj in Hm as (H1 & H2 & H3 & H4 & H5 & H6 & H7 & H8).
    apply wf_kline_intro; cbn [k_id k_parent k_dev k_opts k_optional k_fstype k_sopts]; auto.
    + apply dec_nospace.
    + now apply parent_id_nospace.
Qed.

Lemma wf_filter (g : kline -> bool) tab : wf_table tab = true -> wf_table (filter g tab) = true.
Proof.
  unfold wf_table. rewrite !forallb_forall. intros H k Hk. apply filter_In in Hk as [Hk _]. now apply H.
Qed.

Lemma kmount_wf f ks s t ty fl d ks' :
  wf_table (ks_tab ks) = true -> nospace ty = true ->
  kmount f ks s t ty fl d = KOk ks' -> wf_table (ks_tab ks') = true.
Proof.
  intros Hw Hty. unfold kmount.
  destruct (has_flag fl MS_REMOUNT).
  { destruct (top_at (ks_tab ks) t); [|discriminate]. intros H. now injection H as <-. }
  destruct (has_flag fl MS_SLAVE).
  { destruct (top_at (ks_tab ks) t); [|discriminate]. intros H. now injection H as <-. }
  destruct (negb (exists_ f t)); [discriminate|].
  destruct (has_flag fl MS_BIND).
  - destruct (negb (exists_ f s)); [discriminate|].
    destruct (covering (ks_tab ks) s) as [cv|] eqn:Ec; [|discriminate].
    assert (Hb : wf_table (ks_tab ks ++ [bind_line (ks_nextid ks) (ks_tab ks) cv s t]) = true).
    { rewrite wf_table_app, Hw. cbn [wf_table forallb andb]. rewrite andb_true_r.
      apply covering_in in Ec. apply (wf_table_in _ _ Hw) in Ec.
      apply wf_kline_proj in Ec as (H1 & H2 & H3 & H4 & H5 & H6 & H7 & H8).
      apply wf_kline_intro; cbn [bind_line k_id k_parent k_dev k_opts k_optional k_fstype k_sopts]; auto.
      - apply dec_nospace.
      - now apply parent_id_nospace. }
    destruct (has_flag fl MS_REC).
    + destruct (rbind_copies _ _ _ s t) as [tab2 id2] eqn:Er. intros H. injection H as <-. cbn [ks_tab].
      eapply rbind_copies_wf; [exact Hb| |exact Er]. now apply wf_filter.
    + intros H. injection H as <-. exact Hb.
  - destruct (beq ty overlay) eqn:Eo.
    + destruct (is_dir f _ && is_dir f _ && is_dir f _ && is_dir f t); [|discriminate].
      intros H. injection H as <-. cbn [ks_tab].
      rewrite wf_table_app, Hw. cbn [wf_table forallb andb]. rewrite andb_true_r.
      apply wf_kline_intro; cbn [k_id k_parent k_dev k_opts k_optional k_fstype k_sopts]; auto.
      * apply dec_nospace.
      * now apply parent_id_nospace.
      * rewrite !nospace_cons, dec_nospace. reflexivity.
    + destruct ty as [|a ty']; [discriminate|]. intros H. injection H as <-. cbn [ks_tab].
      rewrite wf_table_app, Hw. cbn [wf_table forallb andb]. rewrite andb_true_r.
      apply wf_kline_intro; cbn [k_id k_parent k_dev k_opts k_optional k_fstype k_sopts]; auto.
      * apply dec_nospace.
      * now apply parent_id_nospace.
      * rewrite !nospace_cons, dec_nospace. reflexivity.
      * rewrite Eo. reflexivity.
Qed.

(* ------------------------------------------------------------------ the probe of a well-formed table *)
Lemma pstep_fold_mps rs : forall st,
  map m_mp (p_mounts (fold_left pstep rs st)) = rev (map r_mp rs) ++ map m_mp (p_mounts st).
Proof.
  induction rs as [|r rs IH]; intros st; cbn [fold_left map rev]; [reflexivity|].
  rewrite IH. cbn [pstep p_mounts map m_mp]. now rewrite <- app_assoc.
Qed.

Lemma view_mps T : map m_mp (pr_mounts (view T)) = map k_mp T.
Proof.
  unfold view. cbn [pr_mounts]. rewrite map_rev, pstep_fold_mps. cbn [p_mounts map].
  rewrite app_nil_r, rev_involutive, map_map. reflexivity.
Qed.

Lemma get_mount_existsb ms p :
  (match get_mount ms p with Some _ => true | None => false end)
  = existsb (fun q => beq q p) (map m_mp ms).
Proof.
  induction ms as [|m ms IH]; cbn [get_mount map existsb]; [reflexivity|].
  rewrite <- IH. destruct (get_mount ms p); [now rewrite orb_true_r|].
  rewrite orb_false_r. destruct (beq (m_mp m) p); reflexivity.
Qed.

Lemma existsb_map {A B} (g : A -> B) (h : B -> bool) l : existsb h (map g l) = existsb (fun x => h (g x)) l.
Proof. induction l as [|x l IH]; cbn; [reflexivity|now rewrite IH]. Qed.

Theorem cmounted_wf ks t : wf_table (ks_tab ks) = true ->
  cmounted ks t = mounted_at (ks_tab ks) t.
Proof.
  intros Hw. unfold cmounted, probe_of. rewrite (probe_render _ Hw).
  rewrite get_mount_existsb, view_mps, existsb_map, mounted_at_existsb. reflexivity.
Qed.
