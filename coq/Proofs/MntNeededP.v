(* C01 (c) only-as-needed, the "everything is mounted afterwards" half of (d), and the core
   of (e) idempotence, derived from the mount trace and the kernel lemmas. *)
From LC Require Import Lib.Bytes Lib.Lex Lib.Fields Lib.PathM Gen.Consts
  Model.MountInfo Model.FsTree Model.Kernel Model.Layers Cases.Verdict Cases.LC Cases.C01
  Proofs.MountInfoP Proofs.MntSimP Proofs.MntWpP Proofs.MntTraceP Proofs.MntDiskP
  Proofs.MntOrderP Proofs.MntKernelP Proofs.MntPathP.
Import LCS.
Open Scope N_scope.

(* the per-call predicate of C01.step_spec *)
Definition Pc (c : cfgT) (ch : list layer) (ks : kstate) (o : op) : bool :=
  match o with
  | OMount _ t _ fl _ =>
    if has_flag fl MS_SLAVE then true
    else negb (mounted_at (ks_tab ks) t)
         && existsb (fun x => at_or_under (build_path c x) t) ch
  | OUmount _ _ => false
  | _ => true
  end.

(* ------------------------------------------------------------------ well-formedness along a trace *)
Definition tys_ok (its : list item) : Prop := Forall (fun it => nospace (it_ty it) = true) its.

Lemma itrace_wf ks its ops ks' st :
  itrace ks its ops ks' st -> wf_table (ks_tab ks) = true -> tys_ok its ->
  wf_table (ks_tab ks') = true.
Proof.
  induction 1 as [ks|ks its|ks it its ops ks' st Hc Ht IH
                 |ks it its f ks1 ops ks' st Hc Hk Ht IH|ks it its f Hc Hk];
    intros Hw Hty; auto.
  - inversion Hty; subst. now apply IH.
  - inversion Hty as [|? ? Hty1 Hty2]; subst. apply IH; [|exact Hty2].
    eapply kmount_wf; [exact Hw|exact Hty1|exact Hk].
Qed.

Lemma ltrace_wf ks ls ops ks' st :
  ltrace ks ls ops ks' st -> wf_table (ks_tab ks) = true -> Forall tys_ok ls ->
  wf_table (ks_tab ks') = true.
Proof.
  induction 1 as [ks|ks ls|ks its ls ops1 ks1 ops2 ks2 st Hi Hl IH|ks its ls ops1 ks1 st Hst Hi];
    intros Hw Hty; auto.
  - inversion Hty; subst. apply IH; [|assumption]. eapply itrace_wf; eassumption.
  - inversion Hty; subst. eapply itrace_wf; eassumption.
Qed.

(* ------------------------------------------------------------------ (c) *)
Lemma replay_mops_true c ch f ksr it R : Pc c ch ksr (op1 it) = true ->
  replay_calls f ksr (mops it true ++ R) (Pc c ch)
  = replay_calls f (match kmount_it f ksr it with KOk k => k | KErr => ksr end) R (Pc c ch).
Proof.
  intros HP. unfold mops. cbn [andb].
  assert (Hs : forall k, replay_calls f k (op2 it :: R) (Pc c ch) = replay_calls f k R (Pc c ch)).
  { intros k. cbn [replay_calls op2 Pc].
    change (has_flag (MS_SLAVE + MS_REC) MS_SLAVE) with true. cbn [andb].
    destruct (kmount f k [] (it_tgt it) [] (MS_SLAVE + MS_REC) (it_data it)) as [k'|] eqn:E; [|reflexivity].
    apply slave_keeps in E. now subst k'. }
  destruct (memb (it_src it) propagation_sources); cbn [app].
  - change (replay_calls f ksr (op1 it :: op2 it :: R) (Pc c ch))
      with (Pc c ch ksr (op1 it) &&
            match kmount_it f ksr it with
            | KOk k => replay_calls f k (op2 it :: R) (Pc c ch)
            | KErr => replay_calls f ksr (op2 it :: R) (Pc c ch)
            end).
    rewrite HP. cbn [andb]. destruct (kmount_it f ksr it); apply Hs.
  - change (replay_calls f ksr (op1 it :: R) (Pc c ch))
      with (Pc c ch ksr (op1 it) &&
            match kmount_it f ksr it with
            | KOk k => replay_calls f k R (Pc c ch)
            | KErr => replay_calls f ksr R (Pc c ch)
            end).
    rewrite HP. cbn [andb]. destruct (kmount_it f ksr it); reflexivity.
Qed.

Lemma Pc_op1 c ch bd ks it :
  ~ In (it_tgt it) (mps ks) -> item_ok bd it -> (exists x, In x ch /\ bd = build_path c x) ->
  Pc c ch ks (op1 it) = true.
Proof.
  intros Hn (_ & Hu & _) (x & Hx & ->). unfold Pc, op1. rewrite mount_flags_noslave.
  apply andb_true_iff. split.
  - apply negb_true_iff. now apply mounted_at_false.
  - apply existsb_exists. exists x. split; assumption.
Qed.

(* every decision is taken on a fresh probe of a well-formed table: a target that is mounted on
   is not a mountpoint; the replay (over any file tree) keeps a subset of the model's mountpoints *)
Lemma itrace_needed c ch bd ks its ops ks' st :
  itrace ks its ops ks' st ->
  wf_table (ks_tab ks) = true ->
  Forall (item_ok bd) its -> (exists x, In x ch /\ bd = build_path c x) ->
  forall f ksr, incl (mps ksr) (mps ks) ->
    (st = TFailed -> replay_calls f ksr ops (Pc c ch) = true)
    /\ (st <> TFailed ->
        exists ksr', incl (mps ksr') (mps ks')
          /\ forall rest, replay_calls f ksr (ops ++ rest) (Pc c ch) = replay_calls f ksr' rest (Pc c ch)).
Proof.
  induction 1 as [ks|ks its|ks it its ops ks' st Hc Ht IH
                 |ks it its f0 ks1 ops ks' st Hc Hk Ht IH|ks it its f0 Hc Hk];
    intros Hw Hok Hbd f ksr Hincl.
  - split; [discriminate|]. intros _. exists ksr. split; [exact Hincl|reflexivity].
  - split; [discriminate|]. intros _. exists ksr. split; [exact Hincl|reflexivity].
  - inversion Hok as [|? ? Hok1 Hok2]; subst. now apply IH.
  - inversion Hok as [|? ? Hok1 Hok2]; subst.
    assert (Hnk : ~ In (it_tgt it) (mps ks)).
    { rewrite cmounted_wf in Hc by exact Hw. now apply mounted_at_false in Hc. }
    assert (Hnr : ~ In (it_tgt it) (mps ksr)) by (intros Hin; apply Hnk; now apply Hincl).
    pose proof (Pc_op1 c ch bd ksr it Hnr Hok1 Hbd) as HP.
    destruct Hok1 as (Hty & Hu & Hov).
    assert (Hw1 : wf_table (ks_tab ks1) = true) by (eapply kmount_wf; [exact Hw|exact Hty|exact Hk]).
    set (ksr1 := match kmount_it f ksr it with KOk k => k | KErr => ksr end).
    assert (Hincl1 : incl (mps ksr1) (mps ks1)).
    { unfold ksr1. pose proof (kmount_mps _ _ _ _ _ _ _ _ Hk) as E1.
      destruct (kmount_it f ksr it) as [k|] eqn:Ekr.
      - rewrite (kmount_mps _ _ _ _ _ _ _ _ Ekr), E1.
        apply incl_app; [now apply incl_appl|apply incl_appr; now apply delta_incl].
      - rewrite E1. now apply incl_appl. }
    destruct (IH Hw1 Hok2 Hbd f ksr1 Hincl1) as [IH1 IH2].
    split.
    + intros Hst. rewrite replay_mops_true by exact HP. now apply IH1.
    + intros Hst. destruct (IH2 Hst) as (ksr' & Hi' & Hr'). exists ksr'. split; [exact Hi'|].
      intros rest. rewrite <- app_assoc, replay_mops_true by exact HP. apply Hr'.
  - split; [|congruence]. intros _.
    inversion Hok as [|? ? Hok1 Hok2]; subst.
    assert (Hnk : ~ In (it_tgt it) (mps ks)).
    { rewrite cmounted_wf in Hc by exact Hw. now apply mounted_at_false in Hc. }
    assert (Hnr : ~ In (it_tgt it) (mps ksr)) by (intros Hin; apply Hnk; now apply Hincl).
    pose proof (Pc_op1 c ch bd ksr it Hnr Hok1 Hbd) as HP.
    unfold mops. cbn [andb].
    change (replay_calls f ksr [op1 it] (Pc c ch))
      with (Pc c ch ksr (op1 it) &&
            match kmount_it f ksr it with
            | KOk k => true
            | KErr => true
            end).
    rewrite HP. destruct (kmount_it f ksr it); reflexivity.
Qed.

Definition layer_clean (c : cfgT) (ch : list layer) (its : list item) : Prop :=
  exists x, In x ch /\ Forall (item_ok (build_path c x)) its.

Lemma item_ok_tys bd its : Forall (item_ok bd) its -> tys_ok its.
Proof. intros H. eapply Forall_impl; [|exact H]. intros it (Ht & _). exact Ht. Qed.

Lemma ltrace_needed c ch ks ls ops ks' st :
  ltrace ks ls ops ks' st -> wf_table (ks_tab ks) = true -> Forall (layer_clean c ch) ls ->
  forall f ksr, incl (mps ksr) (mps ks) -> replay_calls f ksr ops (Pc c ch) = true.
Proof.
  induction 1 as [ks|ks ls|ks its ls ops1 ks1 ops2 ks2 st Hi Hl IH|ks its ls ops1 ks1 st Hst Hi];
    intros Hw Hcl f ksr Hincl; try reflexivity.
  - inversion Hcl as [|? ? (x & Hx & Hok) Hcl2]; subst.
    destruct (itrace_needed c ch (build_path c x) _ _ _ _ _ Hi Hw Hok
                (ex_intro _ x (conj Hx eq_refl)) f ksr Hincl) as [_ H2].
    destruct (H2 ltac:(discriminate)) as (ksr' & Hi' & Hr'). rewrite Hr'.
    apply IH; [|exact Hcl2|exact Hi'].
    eapply itrace_wf; [exact Hi|exact Hw|]. eapply item_ok_tys; exact Hok.
  - inversion Hcl as [|? ? (x & Hx & Hok) Hcl2]; subst.
    destruct (itrace_needed c ch (build_path c x) _ _ _ _ _ Hi Hw Hok
                (ex_intro _ x (conj Hx eq_refl)) f ksr Hincl) as [H1 H2].
    destruct st; [congruence| |now apply H1].
    destruct (H2 ltac:(discriminate)) as (ksr' & Hi' & Hr').
    rewrite <- (app_nil_r ops1), Hr'. reflexivity.
Qed.

(* ------------------------------------------------------------------ (d), first half: everything is mounted *)
Lemma itrace_mounted ks its ops ks' st :
  itrace ks its ops ks' st -> st = TDone -> tys_ok its -> wf_table (ks_tab ks) = true ->
  incl (mps ks) (mps ks') /\ Forall (fun it => In (it_tgt it) (mps ks')) its.
Proof.
  induction 1 as [ks|ks its|ks it its ops ks' st Hc Ht IH
                 |ks it its f ks1 ops ks' st Hc Hk Ht IH|ks it its f Hc Hk];
    intros Hst Hty Hw; try discriminate.
  - split; [apply incl_refl|constructor].
  - inversion Hty as [|? ? Hty1 Hty2]; subst. destruct (IH eq_refl Hty2 Hw) as [H1 H2].
    split; [exact H1|]. constructor; [|exact H2].
    rewrite cmounted_wf in Hc by exact Hw. apply mounted_at_in in Hc. apply H1, Hc.
  - inversion Hty as [|? ? Hty1 Hty2]; subst.
    assert (Hw1 : wf_table (ks_tab ks1) = true) by (eapply kmount_wf; [exact Hw|exact Hty1|exact Hk]).
    pose proof (kmount_mono _ _ _ _ _ _ _ _ Hk) as Hm.
    destruct (IH eq_refl Hty2 Hw1) as [H1 H2].
    split; [eapply incl_tran; eassumption|]. constructor; [|exact H2].
    apply H1. eapply kmount_ok_mounted. exact Hk.
Qed.

Lemma ltrace_mounted ks ls ops ks' st :
  ltrace ks ls ops ks' st -> st = TDone -> wf_table (ks_tab ks) = true -> Forall tys_ok ls ->
  incl (mps ks) (mps ks') /\ Forall (Forall (fun it => In (it_tgt it) (mps ks'))) ls.
Proof.
  induction 1 as [ks|ks ls|ks its ls ops1 ks1 ops2 ks2 st Hi Hl IH|ks its ls ops1 ks1 st Hst Hi];
    intros Hd Hw Hty; try discriminate; try congruence.
  - split; [apply incl_refl|constructor].
  - inversion Hty as [|? ? Hty1 Hty2]; subst.
    destruct (itrace_mounted _ _ _ _ _ Hi eq_refl Hty1 Hw) as [H1 H2].
    assert (Hw1 : wf_table (ks_tab ks1) = true) by (eapply itrace_wf; eassumption).
    destruct (IH eq_refl Hw1 Hty2) as [H3 H4].
    split; [eapply incl_tran; eassumption|]. constructor; [|exact H4].
    eapply Forall_impl; [|exact H2]. intros it Hit. now apply H3.
Qed.

(* ------------------------------------------------------------------ (e): nothing to do when everything is mounted *)
Lemma itrace_idle ks its ops ks' st :
  itrace ks its ops ks' st -> wf_table (ks_tab ks) = true ->
  Forall (fun it => In (it_tgt it) (mps ks)) its -> ops = [] /\ ks' = ks.
Proof.
  induction 1 as [ks|ks its|ks it its ops ks' st Hc Ht IH
                 |ks it its f ks1 ops ks' st Hc Hk Ht IH|ks it its f Hc Hk];
    intros Hw Hall; auto.
  - inversion Hall; subst. now apply IH.
  - exfalso. inversion Hall as [|? ? Hin _]; subst.
    rewrite cmounted_wf in Hc by exact Hw. apply mounted_at_false in Hc. contradiction.
  - exfalso. inversion Hall as [|? ? Hin _]; subst.
    rewrite cmounted_wf in Hc by exact Hw. apply mounted_at_false in Hc. contradiction.
Qed.

Lemma ltrace_idle ks ls ops ks' st :
  ltrace ks ls ops ks' st -> wf_table (ks_tab ks) = true ->
  Forall (Forall (fun it => In (it_tgt it) (mps ks))) ls -> ops = [] /\ ks' = ks.
Proof.
  induction 1 as [ks|ks ls|ks its ls ops1 ks1 ops2 ks2 st Hi Hl IH|ks its ls ops1 ks1 st Hst Hi];
    intros Hw Hall; auto.
  - inversion Hall as [|? ? Ha1 Ha2]; subst.
    destruct (itrace_idle _ _ _ _ _ Hi Hw Ha1) as (-> & ->).
    destruct (IH Hw Ha2) as (-> & ->). auto.
  - inversion Hall as [|? ? Ha1 Ha2]; subst.
    destruct (itrace_idle _ _ _ _ _ Hi Hw Ha1) as (-> & ->). auto.
Qed.
