(* C01 (a) ordering and (b) propagation, derived from the mount trace. *)
From LC Require Import Lib.Bytes Lib.Lex Lib.Fields Lib.PathM Gen.Consts
  Model.MountInfo Model.FsTree Model.Kernel Model.Layers Cases.Verdict Cases.LC Cases.C01
  Proofs.MntSimP Proofs.MntWpP Proofs.MntTraceP Proofs.MntDiskP.
Import LCS.
Open Scope N_scope.

(* ------------------------------------------------------------------ subsequences *)
Inductive Subseq : list bytes -> list bytes -> Prop :=
| SS_nil b : Subseq [] b
| SS_skip a y b : Subseq a b -> Subseq a (y :: b)
| SS_take x a b : Subseq a b -> Subseq (x :: a) (x :: b).

Lemma Subseq_tail x a b : Subseq (x :: a) b -> Subseq a b.
Proof.
  induction b as [|y b IH]; intros H; inversion H; subst.
  - apply SS_skip. now apply IH.
  - now apply SS_skip.
Qed.

Lemma subseq_complete b : forall a, Subseq a b -> subseq a b = true.
Proof.
  induction b as [|y b IH]; intros a H.
  - inversion H. reflexivity.
  - destruct a as [|x a]; [reflexivity|]. cbn [subseq].
    destruct (beq x y) eqn:E.
    + apply IH. inversion H; subst; [eapply Subseq_tail; eassumption|assumption].
    + apply IH. inversion H; subst; [assumption|]. rewrite beq_refl in E. discriminate.
Qed.

Lemma Subseq_refl a : Subseq a a.
Proof. induction a as [|x a IH]; [constructor|now apply SS_take]. Qed.
Lemma Subseq_app a1 b1 a2 b2 : Subseq a1 b1 -> Subseq a2 b2 -> Subseq (a1 ++ a2) (b1 ++ b2).
Proof.
  induction 1 as [b|a y b _ IH|x a b _ IH]; intros H2; cbn [app].
  - induction b as [|y b IHb]; cbn [app]; [exact H2|now apply SS_skip].
  - apply SS_skip. now apply IH.
  - apply SS_take. now apply IH.
Qed.
Lemma Subseq_app_r a b c : Subseq a b -> Subseq a (b ++ c).
Proof. intros H. rewrite <- (app_nil_r a). apply Subseq_app; [exact H|constructor]. Qed.

(* ------------------------------------------------------------------ the calls of a trace *)
Lemma mount_flags_cases ty :
  mount_flags ty = MS_BIND \/ mount_flags ty = MS_BIND + MS_REC \/ mount_flags ty = MS_REMOUNT
  \/ mount_flags ty = 0.
Proof.
  unfold mount_flags. destruct (beq ty (bs "bind")); [auto|].
  destruct (beq ty (bs "rbind")); [auto|]. destruct (beq ty (bs "remount")); auto.
Qed.

Lemma mount_flags_noslave ty : has_flag (mount_flags ty) MS_SLAVE = false.
Proof. destruct (mount_flags_cases ty) as [H|[H|[H|H]]]; rewrite H; reflexivity. Qed.

Lemma mount_targets_app a b : mount_targets (a ++ b) = mount_targets a ++ mount_targets b.
Proof. unfold mount_targets. apply flat_map_app. Qed.

Lemma mount_targets_mops it ok : mount_targets (mops it ok) = [it_tgt it].
Proof.
  unfold mops, mount_targets. cbn [flat_map op1]. rewrite mount_flags_noslave.
  destruct (ok && memb (it_src it) propagation_sources); reflexivity.
Qed.

Lemma itrace_targets ks its ops ks' st :
  itrace ks its ops ks' st -> Subseq (mount_targets ops) (map it_tgt its).
Proof.
  induction 1 as [ks|ks its|ks it its ops ks' st Hc Ht IH
                 |ks it its f ks1 ops ks' st Hc Hk Ht IH|ks it its f Hc Hk]; cbn [map].
  - constructor.
  - constructor.
  - now apply SS_skip.
  - rewrite mount_targets_app, mount_targets_mops. cbn [app]. now apply SS_take.
  - rewrite mount_targets_mops. apply SS_take. constructor.
Qed.

Lemma ltrace_targets ks ls ops ks' st :
  ltrace ks ls ops ks' st -> Subseq (mount_targets ops) (concat (map (map it_tgt) ls)).
Proof.
  induction 1 as [ks|ks ls|ks its ls ops1 ks1 ops2 ks2 st Hi Hl IH|ks its ls ops1 ks1 st Hst Hi];
    cbn [map concat].
  - constructor.
  - constructor.
  - rewrite mount_targets_app. apply Subseq_app; [eapply itrace_targets; exact Hi|exact IH].
  - apply Subseq_app_r. eapply itrace_targets; exact Hi.
Qed.

(* the items of the chain against the expected mounts *)
Lemma chain_targets_expected c f n : forall ch', incl ch' (chain c f n) ->
  Subseq (concat (map (map it_tgt) (map (layer_items c (layers_on_disk c f)) ch')))
         (map em_target (flat_map (expected_mounts c (chain c f n)) ch')).
Proof.
  induction ch' as [|x r IH]; intros Hin; cbn [map concat flat_map]; [constructor|].
  rewrite map_app. apply Subseq_app.
  - destruct (items_expected c f n x) as (rest & -> & _); [apply Hin; now left|].
    rewrite map_app, map_map. cbn [item_em em_target]. apply Subseq_app_r. apply Subseq_refl.
  - apply IH. intros y Hy. apply Hin. now right.
Qed.

Theorem order_of_trace c f n ks ops ks' st :
  ltrace ks (chain_items c f n) ops ks' st ->
  subseq (mount_targets ops) (map em_target (expected_chain_mounts c (chain c f n))) = true.
Proof.
  intros Ht. apply subseq_complete. apply ltrace_targets in Ht.
  unfold chain_items in Ht. unfold expected_chain_mounts.
  pose proof (chain_targets_expected c f n (chain c f n) (incl_refl _)) as H.
  clear - Ht H.
  revert Ht H. generalize (mount_targets ops), (concat (map (map it_tgt) (map (layer_items c (layers_on_disk c f)) (chain c f n)))),
    (map em_target (flat_map (expected_mounts c (chain c f n)) (chain c f n))).
  intros a b d Hab Hbd. revert a Hab.
  induction Hbd as [d|b y d _ IH|x b d _ IH]; intros a Hab.
  - inversion Hab. constructor.
  - apply SS_skip. now apply IH.
  - inversion Hab; subst; [constructor|apply SS_skip; now apply IH|apply SS_take; now apply IH].
Qed.

(* ------------------------------------------------------------------ propagation *)
Lemma prop_mops_true fl it rest :
  C01.propagation_ok fl (mops it true ++ rest) = C01.propagation_ok fl rest.
Proof.
  unfold mops. cbn [andb].
  destruct (memb (it_src it) propagation_sources) eqn:Em.
  - cbn [app C01.propagation_ok op1 op2]. rewrite mount_flags_noslave, Em.
    change (has_flag (MS_SLAVE + MS_REC) MS_SLAVE) with true. cbv iota.
    cbn [beq]. rewrite beq_refl, N.eqb_refl. reflexivity.
  - cbn [app C01.propagation_ok op1]. rewrite mount_flags_noslave, Em. reflexivity.
Qed.

Lemma prop_mops_false it : C01.propagation_ok true (mops it false) = true.
Proof.
  unfold mops. cbn [andb C01.propagation_ok op1]. rewrite mount_flags_noslave.
  destruct (memb (it_src it) propagation_sources); reflexivity.
Qed.

Lemma itrace_prop fl ks its ops ks' st :
  itrace ks its ops ks' st -> st <> TFailed ->
  forall rest, C01.propagation_ok fl (ops ++ rest) = C01.propagation_ok fl rest.
Proof.
  induction 1 as [ks|ks its|ks it its ops ks' st Hc Ht IH
                 |ks it its f ks1 ops ks' st Hc Hk Ht IH|ks it its f Hc Hk];
    intros Hst rest; try reflexivity.
  - now apply IH.
  - rewrite <- app_assoc, prop_mops_true. now apply IH.
  - congruence.
Qed.

Lemma itrace_prop_failed ks its ops ks' st :
  itrace ks its ops ks' st -> st = TFailed -> C01.propagation_ok true ops = true.
Proof.
  induction 1 as [ks|ks its|ks it its ops ks' st Hc Ht IH
                 |ks it its f ks1 ops ks' st Hc Hk Ht IH|ks it its f Hc Hk];
    intros Hst; try discriminate.
  - now apply IH.
  - rewrite prop_mops_true. now apply IH.
  - apply prop_mops_false.
Qed.

Lemma ltrace_prop fl ks ls ops ks' st :
  ltrace ks ls ops ks' st -> st <> TFailed ->
  forall rest, C01.propagation_ok fl (ops ++ rest) = C01.propagation_ok fl rest.
Proof.
  induction 1 as [ks|ks ls|ks its ls ops1 ks1 ops2 ks2 st Hi Hl IH|ks its ls ops1 ks1 st Hst Hi];
    intros Hnf rest; try reflexivity.
  - rewrite <- app_assoc. rewrite (itrace_prop fl _ _ _ _ _ Hi) by discriminate. now apply IH.
  - now apply (itrace_prop fl _ _ _ _ _ Hi).
Qed.

Lemma ltrace_prop_failed ks ls ops ks' st :
  ltrace ks ls ops ks' st -> st = TFailed -> C01.propagation_ok true ops = true.
Proof.
  induction 1 as [ks|ks ls|ks its ls ops1 ks1 ops2 ks2 st Hi Hl IH|ks its ls ops1 ks1 st Hst Hi];
    intros Hf; try discriminate.
  - rewrite (itrace_prop true _ _ _ _ _ Hi) by discriminate. now apply IH.
  - now apply (itrace_prop_failed _ _ _ _ _ Hi).
Qed.

(* the propagation conjunct, for the flag the specification passes (result = RFail) *)
Theorem propagation_of_trace fl ks ls ops ks' st :
  ltrace ks ls ops ks' st -> (st = TFailed -> fl = true) -> C01.propagation_ok fl ops = true.
Proof.
  intros Ht Hfl. destruct st.
  - rewrite <- (app_nil_r ops), (ltrace_prop fl _ _ _ _ _ Ht) by discriminate. reflexivity.
  - rewrite <- (app_nil_r ops), (ltrace_prop fl _ _ _ _ _ Ht) by discriminate. reflexivity.
  - rewrite (Hfl eq_refl). now apply (ltrace_prop_failed _ _ _ _ _ Ht).
Qed.
