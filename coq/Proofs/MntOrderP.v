(* C01 (a) ordering and (b) propagation, derived from the mount trace. *)
From LC Require Import Lib.Bytes Lib.Lex Lib.Fields Lib.PathM Gen.Consts
  Model.MountInfo Model.FsTree Model.Kernel Model.Layers Cases.Verdict Cases.LC Cases.C01
  Proofs.MonadP Proofs.MntSimP Proofs.MntWpP Proofs.MntTraceP Proofs.MntDiskP.
Import LCS.
Open Scope N_scope.

(* ------------------------------------------------------------------ subsequences *)
Inductive Subseq : list bytes -> list bytes -> Prop :=
| SS_nil b : Subseq [] b
| SS_skip a y b : Subseq a b -> Subseq a (y :: b)
| SS_take x a b : Subseq a b -> Subseq (x :: a) (x :: b).

Lemma Subseq_tail x a b : Subseq (x :: a) b -> Subseq a b.
Proof.
  induction b as [|y b IH]; intros H; inversion H; subst.
  - apply SS_skip. now apply IH.
  - now apply SS_skip.
Qed.

Lemma subseq_complete b : forall a, Subseq a b -> subseq a b = true.
Proof.
  induction b as [|y b IH]; intros a H.
  - inversion H. reflexivity.
  - destruct a as [|x a]; [reflexivity|]. cbn [subseq].
    destruct (beq x y) eqn:E.
    + apply IH. inversion H; subst; [eapply Subseq_tail; eassumption|assumption].
    + apply IH. inversion H; subst; [assumption|]. rewrite beq_refl in E. discriminate.
Qed.

Lemma Subseq_refl a : Subseq a a.
Proof. induction a as [|x a IH]; [constructor|now apply SS_take]. Qed.
Lemma Subseq_app a1 b1 a2 b2 : Subseq a1 b1 -> Subseq a2 b2 -> Subseq (a1 ++ a2) (b1 ++ b2).
Proof.
  induction 1 as [b|a y b _ IH|x a b _ IH]; intros H2; cbn [app].
  - induction b as [|y b IHb]; cbn [app]; [exact H2|now apply SS_skip].
  - apply SS_skip. now apply IH.
  - apply SS_take. now apply IH.
Qed.
Lemma Subseq_app_r a b c : Subseq a b -> Subseq a (b ++ c).
Proof. intros H. rewrite <- (app_nil_r a). apply Subseq_app; [exact H|constructor]. Qed.

(* ------------------------------------------------------------------ the calls of a trace *)
Lemma mount_flags_cases ty :
  mount_flags ty = MS_BIND \/ mount_flags ty = MS_BIND + MS_REC \/ mount_flags ty = MS_REMOUNT
  \/ mount_flags ty = 0.
Proof.
  unfold mount_flags. destruct (beq ty (bs "bind")); [auto|].
  destruct (beq ty (bs "rbind")); [auto|]. destruct (beq ty (bs "remount")); auto.
Qed.

Lemma mount_flags_noslave ty : has_flag (mount_flags ty) MS_SLAVE = false.
Proof. destruct (mount_flags_cases ty) as [H|[H|[H|H]]]; rewrite H; reflexivity. Qed.

Lemma mount_targets_app a b : mount_targets (a ++ b) = mount_targets a ++ mount_targets b.
Proof. unfold mount_targets. apply flat_map_app. Qed.

Lemma mount_targets_mops it ok : mount_targets (mops it ok) = [it_tgt it].
Proof.
  unfold mops, mount_targets. cbn [flat_map op1]. rewrite mount_flags_noslave.
  destruct (ok && memb (it_src it) propagation_sources); reflexivity.
Qed.

Lemma itrace_targets ks ksc its ops ks' ksc' st :
  itrace ks ksc its ops ks' ksc' st -> Subseq (mount_targets ops) (map it_tgt its).
Proof.
  induction 1 as [ks ksc|ks ksc its|ks ksc it its ops ks' ksc' st Hc Ht IH
                 |ks ksc it its f ks1 ops ks' ksc' st Hc Hk Ht IH|ks ksc it its f Hc Hk]; cbn [map].
  - constructor.
  - constructor.
  - now apply SS_skip.
  - rewrite mount_targets_app, mount_targets_mops. cbn [app]. now apply SS_take.
  - rewrite mount_targets_mops. apply SS_take. constructor.
Qed.

Lemma ltrace_targets ks ls ops ks' st :
  ltrace ks ls ops ks' st -> Subseq (mount_targets ops) (concat (map (map it_tgt) ls)).
Proof.
  induction 1 as [ks|ks ls|ks its ls ops1 ks1 ksc1 ops2 ks2 st Hi Hl IH|ks its ls ops1 ks1 ksc1 st Hst Hi];
    cbn [map concat].
  - constructor.
  - constructor.
  - rewrite mount_targets_app. apply Subseq_app; [eapply itrace_targets; exact Hi|exact IH].
  - apply Subseq_app_r. eapply itrace_targets; exact Hi.
Qed.

(* the items of the chain against the expected mounts *)
Lemma chain_targets_expected c f n : forall ch', incl ch' (chain c f n) ->
  Subseq (concat (map (map it_tgt) (map (layer_items c (layers_on_disk c f)) ch')))
         (map em_target (flat_map (expected_mounts c (chain c f n)) ch')).
Proof.
  induction ch' as [|x r IH]; intros Hin; cbn [map concat flat_map]; [constructor|].
  rewrite map_app. apply Subseq_app.
  - destruct (items_expected c f n x) as (rest & -> & _); [apply Hin; now left|].
    rewrite map_app, map_map. cbn [item_em em_target]. apply Subseq_app_r. apply Subseq_refl.
  - apply IH. intros y Hy. apply Hin. now right.
Qed.

Theorem order_of_trace c f n ks ops ks' st :
  ltrace ks (chain_items c f n) ops ks' st ->
  subseq (mount_targets ops) (map em_target (expected_chain_mounts c (chain c f n))) = true.
Proof.
  intros Ht. apply subseq_complete. apply ltrace_targets in Ht.
  unfold chain_items in Ht. unfold expected_chain_mounts.
  pose proof (chain_targets_expected c f n (chain c f n) (incl_refl _)) as H.
  clear - Ht H.
  revert Ht H. generalize (mount_targets ops), (concat (map (map it_tgt) (map (layer_items c (layers_on_disk c f)) (chain c f n)))),
    (map em_target (flat_map (expected_mounts c (chain c f n)) (chain c f n))).
  intros a b d Hab Hbd. revert a Hab.
  induction Hbd as [d|b y d _ IH|x b d _ IH]; intros a Hab.
  - inversion Hab. constructor.
  - apply SS_skip. now apply IH.
  - inversion Hab; subst; [constructor|apply SS_skip; now apply IH|apply SS_take; now apply IH].
Qed.

(* ------------------------------------------------------------------ propagation *)
(* a source /dev, /sys, /run is only ever imported with type rbind *)
Definition psrc_ok (it : item) : bool :=
  negb (memb (it_src it) propagation_sources) || beq (it_ty it) (bs "rbind").

Lemma prop_mops_true it rest : psrc_ok it = true ->
  C01.propagation_ok (mops it true ++ rest) = C01.propagation_ok rest.
Proof.
  unfold psrc_ok, mops. cbn [andb]. intros H.
  destruct (memb (it_src it) propagation_sources) eqn:Em.
  - cbn [negb orb] in H. apply beq_true in H.
    cbn [app C01.propagation_ok op1 op2]. rewrite H, Em.
    change (mount_flags (bs "rbind")) with (MS_BIND + MS_REC).
    change (has_flag (MS_BIND + MS_REC) MS_SLAVE) with false.
    change (has_flag (MS_BIND + MS_REC) MS_BIND) with true.
    change (has_flag (MS_BIND + MS_REC) MS_REC) with true.
    cbn [andb beq]. rewrite beq_refl, N.eqb_refl. reflexivity.
  - cbn [app C01.propagation_ok op1]. rewrite mount_flags_noslave, Em, !andb_false_r. reflexivity.
Qed.

Lemma itrace_prop ks ksc its ops ks' ksc' st :
  itrace ks ksc its ops ks' ksc' st -> forallb psrc_ok its = true -> st <> TFailed ->
  forall rest, C01.propagation_ok (ops ++ rest) = C01.propagation_ok rest.
Proof.
  induction 1 as [ks ksc|ks ksc its|ks ksc it its ops ks' ksc' st Hc Ht IH
                 |ks ksc it its f ks1 ops ks' ksc' st Hc Hk Ht IH|ks ksc it its f Hc Hk];
    cbn [forallb]; intros Hok Hst rest; try reflexivity.
  - apply andb_true_iff in Hok as [_ Hok]. now apply IH.
  - apply andb_true_iff in Hok as [H1 Hok]. rewrite <- app_assoc, prop_mops_true by exact H1. now apply IH.
  - congruence.
Qed.

Lemma ltrace_prop ks ls ops ks' st :
  ltrace ks ls ops ks' st -> forallb (forallb psrc_ok) ls = true -> st <> TFailed ->
  forall rest, C01.propagation_ok (ops ++ rest) = C01.propagation_ok rest.
Proof.
  induction 1 as [ks|ks ls|ks its ls ops1 ks1 ksc1 ops2 ks2 st Hi Hl IH|ks its ls ops1 ks1 ksc1 st Hst Hi];
    cbn [forallb]; intros Hok Hnf rest; try reflexivity.
  - apply andb_true_iff in Hok as [H1 Hok]. rewrite <- app_assoc.
    rewrite (itrace_prop _ _ _ _ _ _ _ Hi H1) by discriminate. now apply IH.
  - apply andb_true_iff in Hok as [H1 Hok]. now apply (itrace_prop _ _ _ _ _ _ _ Hi H1).
Qed.

(* the hypothesis in the vocabulary of the specification *)
Definition psources_rbind (c : cfgT) (ch : list layer) : bool :=
  forallb (fun em => negb (memb (em_source em) propagation_sources) || beq (em_fstype em) (bs "rbind"))
          (expected_chain_mounts c ch).

Lemma psources_items c f n : psources_rbind c (chain c f n) = true ->
  forallb (forallb psrc_ok) (chain_items c f n) = true.
Proof.
  unfold psources_rbind, expected_chain_mounts, chain_items. intros H.
  rewrite forallb_forall in H. apply forallb_forall. intros its Hits.
  apply in_map_iff in Hits as (x & <- & Hx). apply forallb_forall. intros it Hit.
  destruct (items_expected c f n x Hx) as (rest & E & _).
  apply (H (item_em it)). apply in_flat_map. exists x. split; [exact Hx|].
  rewrite E. apply in_or_app. left. now apply in_map.
Qed.

Theorem propagation_of_trace c f n ks ops ks' st :
  ltrace ks (chain_items c f n) ops ks' st -> psources_rbind c (chain c f n) = true ->
  st <> TFailed -> C01.propagation_ok ops = true.
Proof.
  intros Ht Hp Hst. rewrite <- (app_nil_r ops).
  rewrite (ltrace_prop _ _ _ _ _ Ht (psources_items c f n Hp) Hst). reflexivity.
Qed.

(* when the run stopped on a failed mount call, everything before that call is well paired *)
Lemma itrace_prop_failed ks ksc its ops ks' ksc' st :
  itrace ks ksc its ops ks' ksc' st -> forallb psrc_ok its = true -> st = TFailed ->
  exists pre o, ops = pre ++ [o]
    /\ forall rest, C01.propagation_ok (pre ++ rest) = C01.propagation_ok rest.
Proof.
  induction 1 as [ks ksc|ks ksc its|ks ksc it its ops ks' ksc' st Hc Ht IH
                 |ks ksc it its f ks1 ops ks' ksc' st Hc Hk Ht IH|ks ksc it its f Hc Hk];
    cbn [forallb]; intros Hok Hst; try discriminate.
  - apply andb_true_iff in Hok as [_ Hok]. now apply IH.
  - apply andb_true_iff in Hok as [H1 Hok]. destruct (IH Hok Hst) as (pre & o & -> & Hp).
    exists (mops it true ++ pre), o. split; [now rewrite app_assoc|].
    intros rest. rewrite <- app_assoc, prop_mops_true by exact H1. apply Hp.
  - exists [], (op1 it). split; reflexivity.
Qed.

Lemma ltrace_prop_failed ks ls ops ks' st :
  ltrace ks ls ops ks' st -> forallb (forallb psrc_ok) ls = true -> st = TFailed ->
  exists pre o, ops = pre ++ [o]
    /\ forall rest, C01.propagation_ok (pre ++ rest) = C01.propagation_ok rest.
Proof.
  induction 1 as [ks|ks ls|ks its ls ops1 ks1 ksc1 ops2 ks2 st Hi Hl IH|ks its ls ops1 ks1 ksc1 st Hst Hi];
    cbn [forallb]; intros Hok Hf; try discriminate.
  - apply andb_true_iff in Hok as [H1 Hok]. destruct (IH Hok Hf) as (pre & o & -> & Hp).
    exists (ops1 ++ pre), o. split; [now rewrite app_assoc|].
    intros rest. rewrite <- app_assoc.
    rewrite (itrace_prop _ _ _ _ _ _ _ Hi H1) by discriminate. apply Hp.
  - apply andb_true_iff in Hok as [H1 Hok]. now apply (itrace_prop_failed _ _ _ _ _ _ _ Hi H1).
Qed.

Theorem propagation_of_trace_failed c f n ks ops ks' st :
  ltrace ks (chain_items c f n) ops ks' st -> psources_rbind c (chain c f n) = true ->
  st = TFailed -> C01.propagation_ok (removelast ops) = true.
Proof.
  intros Ht Hp Hst.
  destruct (ltrace_prop_failed _ _ _ _ _ Ht (psources_items c f n Hp) Hst) as (pre & o & -> & Hpre).
  rewrite removelast_last, <- (app_nil_r pre), Hpre. reflexivity.
Qed.
