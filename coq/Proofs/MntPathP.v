(* C01 support: (1) joining a clean absolute mountpoint below a clean absolute build
   directory stays at or under that directory; (2) what read_layer_files guarantees about the
   layers it returns (directory, shape of import mountpoints, import types are single
   tokens); (3) the resulting facts about the items of a chain. *)
From LC Require Import Lib.Bytes Lib.Lex Lib.Fields Lib.PathM Gen.Consts
  Model.MountInfo Model.FsTree Model.Kernel Model.Layers Model.Config Cases.Verdict Cases.LC
  Proofs.PathP Proofs.MntSimP Proofs.MntWpP Proofs.MntTraceP Proofs.MntDiskP.
Import LCS.
Open Scope N_scope.
Notation pplain := PathM.plain.

(* ------------------------------------------------------------------ clean absolute paths *)
Definition cabs (p : bytes) : Prop := exists ps, Forall pplain ps /\ p = sl :: pjoin ps.

Lemma clean_cabs p : is_rooted p = true -> cabs (clean p).
Proof.
  intros Hr. destruct p as [|a p']; [discriminate|]. rewrite clean_unfold by discriminate.
  pose proof (cstack_nf (a :: p')) as Hnf. rewrite Hr in *.
  exists (cstack (a :: p')). split; [now apply nf_rooted_plain|reflexivity].
Qed.

Lemma cabs_rooted p : cabs p -> is_rooted p = true.
Proof. intros (ps & _ & ->). reflexivity. Qed.

Lemma pathjoin_cabs a rest : is_rooted a = true -> cabs (pathjoin (a :: rest)).
Proof.
  intros Hr. unfold pathjoin. cbn [filter].
  destruct a as [|x a']; [discriminate|]. cbn [beq negb].
  apply clean_cabs. destruct (pjoin_head (x :: a') (filter (fun e => negb (beq e [])) rest)) as (t & ->).
  exact Hr.
Qed.

Lemma psplit_sl X : psplit (sl :: X) = [] :: psplit X.
Proof. unfold psplit, split. cbn [split_acc]. rewrite Ascii.eqb_refl. reflexivity. Qed.

Lemma plain_forall_noslash ps : Forall pplain ps -> Forall noslash ps.
Proof. intros H. eapply Forall_impl; [|exact H]. intros a (_ & _ & _ & Ha). exact Ha. Qed.

Lemma fold_cabs ps st : Forall pplain ps ->
  fold_left (stepc true) (psplit (sl :: pjoin ps)) st = rev ps ++ st.
Proof.
  intros HP. rewrite psplit_sl. cbn [fold_left]. change (stepc true st []) with st.
  destruct ps as [|p ps'].
  - reflexivity.
  - unfold psplit, pjoin. rewrite split_join; [|discriminate|now apply plain_forall_noslash].
    now apply fold_plain.
Qed.

Lemma pjoin_app a b : a <> [] -> b <> [] -> pjoin (a ++ b) = pjoin a ++ sl :: pjoin b.
Proof.
  intros Ha Hb. induction a as [|x a IH]; [congruence|].
  destruct a as [|y a'].
  - cbn [app]. destruct b; [congruence|reflexivity].
  - change ((x :: y :: a') ++ b) with (x :: (y :: a') ++ b).
    change (pjoin (x :: (y :: a') ++ b)) with (x ++ sl :: pjoin ((y :: a') ++ b)).
    rewrite IH by discriminate. change (pjoin (x :: y :: a')) with (x ++ sl :: pjoin (y :: a')).
    now rewrite <- app_assoc.
Qed.

Lemma pjoin_plain_nonempty p ps : pplain p -> pjoin (p :: ps) <> [].
Proof.
  intros (Hne & _). destruct (pjoin_head p ps) as (t & ->). destruct p; [congruence|discriminate].
Qed.

Lemma join_cabs b mnt bs ms : Forall pplain bs -> Forall pplain ms ->
  b = sl :: pjoin bs -> mnt = sl :: pjoin ms -> pathjoin [b; mnt] = sl :: pjoin (bs ++ ms).
Proof.
  intros Hb Hm -> ->. unfold pathjoin. cbn [filter beq negb].
  change (pjoin [sl :: pjoin bs; sl :: pjoin ms]) with ((sl :: pjoin bs) ++ sl :: (sl :: pjoin ms)).
  set (q := (sl :: pjoin bs) ++ sl :: sl :: pjoin ms).
  assert (Hq : q <> []) by discriminate.
  rewrite (clean_unfold q Hq). change (is_rooted q) with (Ascii.eqb sl sl). rewrite Ascii.eqb_refl.
  unfold assemble. f_equal. f_equal. unfold cstack.
  change (is_rooted q) with (Ascii.eqb sl sl). rewrite Ascii.eqb_refl.
  unfold q, psplit. rewrite split_app_sep. fold psplit. rewrite fold_left_app.
  rewrite !fold_cabs by assumption. rewrite app_nil_r, rev_app_distr, !rev_involutive. reflexivity.
Qed.

Theorem join_under b mnt : cabs b -> cabs mnt -> at_or_under b (pathjoin [b; mnt]) = true.
Proof.
  intros (bs & Hb & Eb) (ms & Hm & Em). rewrite (join_cabs b mnt bs ms Hb Hm Eb Em). subst b.
  unfold at_or_under. destruct ms as [|m1 ms'].
  - rewrite app_nil_r, beq_refl. reflexivity.
  - apply orb_true_iff. right. unfold under.
    inversion Hm as [|? ? Hm1 Hm2]; subst.
    destruct bs as [|b1 bs'].
    + change (beq (sl :: pjoin []) root) with (beq root root). rewrite beq_refl. cbn [app].
      change (is_abs (sl :: pjoin (m1 :: ms'))) with (Ascii.eqb sl sl). rewrite Ascii.eqb_refl. cbn [andb].
      apply negb_true_iff. apply beq_false. unfold root. intros E. injection E as E.
      now apply (pjoin_plain_nonempty m1 ms').
    + inversion Hb as [|? ? Hb1 Hb2]; subst.
      assert (Hne : beq (sl :: pjoin (b1 :: bs')) root = false).
      { apply beq_false. unfold root. intros E. injection E as E. now apply (pjoin_plain_nonempty b1 bs'). }
      rewrite Hne. rewrite pjoin_app by discriminate.
      apply prefixb_spec. exists (pjoin (m1 :: ms')). cbn [app]. now rewrite <- app_assoc.
Qed.

(* ------------------------------------------------------------------ strings.Fields yields tokens *)
Lemma fields_tok s : Forall tok_ok (fields s).
Proof.
  unfold fields.
  assert (G : forall s st,
            forallb (fun c => negb (is_sp c)) (fst st) = true -> Forall tok_ok (snd st) ->
            forallb (fun c => negb (is_sp c)) (fst (fold_left fstep s st)) = true
            /\ Forall tok_ok (snd (fold_left fstep s st))).
  { clear s. induction s as [|c s IH]; intros [cur out] Hc Ho; cbn [fold_left]; [auto|].
    apply IH; unfold fstep; cbn [fst snd] in *.
    - destruct (is_sp c) eqn:Ec; [destruct cur; reflexivity|]. cbn [fst forallb]. now rewrite Ec, Hc.
    - destruct (is_sp c) eqn:Ec; [|exact Ho]. destruct cur as [|x cur']; [exact Ho|]. cbn [snd].
      constructor; [|exact Ho]. split.
      + intros E. apply (f_equal (@length _)) in E. rewrite rev_length in E. discriminate.
      + rewrite forallb_forall in *. intros y Hy. apply Hc. now apply in_rev. }
  destruct (G s ([], []) eq_refl (Forall_nil _)) as [H1 H2].
  destruct (fold_left fstep s ([], [])) as [cur out]. cbn [fst snd] in *. unfold ffinish.
  destruct cur as [|x cur'].
  - now apply Forall_rev.
  - apply Forall_rev. constructor; [|exact H2]. split.
    + intros E. apply (f_equal (@length _)) in E. rewrite rev_length in E. discriminate.
    + rewrite forallb_forall in *. intros y Hy. apply H1. now apply in_rev.
Qed.

Lemma tok_nospace t : tok_ok t -> nospace t = true.
Proof.
  intros [_ H]. unfold nospace, nosepb. apply negb_true_iff.
  destruct (existsb (fun x => Ascii.eqb x sp) t) eqn:E; [|reflexivity].
  apply existsb_exists in E as (x & Hx & Ex). apply Ascii.eqb_eq in Ex. subst x.
  rewrite forallb_forall in H. specialize (H _ Hx). discriminate H.
Qed.

(* ------------------------------------------------------------------ read_layerfile / read_layer_files *)
Definition nm_ok (nm : nmount) : Prop :=
  (exists raw, nm_mount nm = clean (sl :: raw)) /\ nospace (nm_fstype nm) = true.

Lemma lf_step_ok st line : Forall nm_ok (lf_mounts st) -> Forall nm_ok (lf_mounts (lf_step st line)).
Proof.
  intros H. unfold lf_step. destruct (Layers.is_comment (trim line)); [exact H|].
  pose proof (fields_tok (trim line)) as HF.
  destruct (fields (trim line)) as [|kw args]; [exact H|].
  destruct (beq kw (bs "base")).
  { destruct args; [exact H|]. destruct (lf_base st); [exact H|]. destruct (beq _ _); exact H. }
  destruct (beq kw (bs "import")).
  { destruct args as [|ty [|src [|mnt rest]]]; try exact H. cbn [lf_mounts].
    apply Forall_app. split; [exact H|]. constructor; [|constructor].
    split; cbn [nm_mount nm_fstype]; [now exists mnt|].
    apply tok_nospace. inversion HF as [|? ? _ HF2]; subst. now inversion HF2. }
  destruct (beq kw (bs "export")).
  { destruct args as [|ty [|src [|mnt rest]]]; exact H. }
  exact H.
Qed.

Lemma read_layerfile_ok content : Forall nm_ok (lf_mounts (read_layerfile content)).
Proof.
  unfold read_layerfile.
  assert (G : forall ls st, Forall nm_ok (lf_mounts st) -> Forall nm_ok (lf_mounts (fold_left lf_step ls st))).
  { induction ls as [|l ls IH]; intros st H; cbn [fold_left]; [exact H|]. apply IH. now apply lf_step_ok. }
  apply G. constructor.
Qed.

Definition layer_ok (c : cfgT) (l : layer) : Prop :=
  l_path l = layer_path c (l_name l) /\ Forall nm_ok (l_mounts l).

Lemma read_layer_files_ok c f : Forall (layer_ok c) (read_layer_files c f).
Proof.
  unfold read_layer_files. induction (Lex.sort (children f (c_layers c))) as [|n ns IH]; cbn [fold_right].
  - constructor.
  - destruct (legal_name n); [|exact IH].
    destruct (load_layer c f n) as [l|] eqn:El; [|exact IH].
    constructor; [|exact IH]. unfold load_layer in El.
    match type of El with match ?x with _ => _ end = _ => destruct x as [content|] end; [|discriminate].
    injection El as <-. split; [reflexivity|]. cbn [l_mounts]. apply read_layerfile_ok.
Qed.

(* ------------------------------------------------------------------ the items of a chain layer *)
Definition item_ok (bd : bytes) (it : item) : Prop :=
  nospace (it_ty it) = true /\ at_or_under bd (it_tgt it) = true
  /\ (it_imp it = false -> it_ty it = overlay /\ it_src it = overlay /\ it_tgt it = bd).

Lemma map_opt_in {A B} (F : A -> option B) l : forall ys y,
  map_opt F l = Some ys -> In y ys -> exists a, In a l /\ F a = Some y.
Proof.
  induction l as [|a l IH]; intros ys y; cbn [map_opt].
  - intros H. injection H as <-. intros [].
  - destruct (F a) as [b|] eqn:Ea; [|discriminate]. destruct (map_opt F l) as [bs0|]; [|discriminate].
    intros H. injection H as <-. intros [<-|Hy].
    + exists a. split; [now left|exact Ea].
    + destruct (IH _ _ eq_refl Hy) as (a' & Ha' & Ea'). exists a'. split; [now right|exact Ea'].
Qed.

Lemma build_cabs c l : is_abs (c_layers c) = true -> layer_ok c l -> cabs (build_path c l).
Proof.
  intros Habs [Hp _]. unfold build_path. apply pathjoin_cabs. rewrite Hp. unfold layer_path.
  apply cabs_rooted. now apply pathjoin_cabs.
Qed.

Lemma layer_items_ok c m l : is_abs (c_layers c) = true -> layer_ok c l ->
  Forall (item_ok (build_path c l)) (layer_items c m l).
Proof.
  intros Habs Hok. pose proof (build_cabs c l Habs Hok) as Hb.
  unfold layer_items, ovl_items, imp_items. apply Forall_app. split.
  - destruct (l_base l); constructor; [|constructor]. unfold item_ok. cbn [it_ty it_tgt it_src it_imp].
    split; [reflexivity|]. split; [|auto]. unfold at_or_under. now rewrite beq_refl.
  - unfold expand_config_mounts. destruct (map_opt _ (l_mounts l)) as [xs|] eqn:Em; [|constructor].
    apply Forall_forall. intros it Hit. apply in_map_iff in Hit as (x & <- & Hx).
    destruct (map_opt_in _ _ _ _ Em Hx) as (nm & Hnm & Enm).
    destruct (adjust_prefixed (nm_source nm) _) as [src|]; [|discriminate]. injection Enm as <-.
    destruct Hok as [_ Hmo]. rewrite Forall_forall in Hmo. destruct (Hmo _ Hnm) as [(raw & Eraw) Hty].
    unfold item_ok, xitem. cbn [it_ty it_tgt it_src it_imp x_mount x_fstype x_source].
    split; [exact Hty|]. split; [|discriminate].
    apply join_under; [exact Hb|]. rewrite Eraw. apply clean_cabs. reflexivity.
Qed.

Lemma chain_items_ok c f n x : is_abs (c_layers c) = true -> In x (chain c f n) ->
  Forall (item_ok (build_path c x)) (layer_items c (layers_on_disk c f) x).
Proof.
  intros Habs Hin. apply layer_items_ok; [exact Habs|].
  pose proof (read_layer_files_ok c f) as H. rewrite Forall_forall in H. apply H.
  now apply (chain_in_disk c f n).
Qed.
