(* C01 (d), kind and source of the mounts: table-level facts about [kmount] (what line it
   appends, which ids it uses), decimal ids are injective below 10^24, [before_line] is stable
   under appending, and the induction along the cache-free trace [gtrace] showing that after a
   completed run every item has a line of the right kind/source at its target. *)
From LC Require Import Lib.Bytes Lib.Lex Lib.Fields Lib.PathM Gen.Consts
  Model.MountInfo Model.FsTree Model.Kernel Model.Layers Cases.Verdict Cases.LC Cases.C01
  Proofs.MountInfoP Proofs.MntSimP Proofs.MntWpP Proofs.MntTraceP Proofs.MntDiskP
  Proofs.MntOrderP Proofs.MntKernelP Proofs.MntPathP Proofs.MntNeededP Proofs.MntCountP.
Import LCS.
From Coq Require Import ZifyBool ZifyNat ZifyN.
Open Scope N_scope.

(* ------------------------------------------------------------------ decimal ids *)
Fixpoint dv (s : bytes) (acc : N) : N :=
  match s with [] => acc | c :: r => dv r (acc * 10 + (bn c - 48)) end.

Lemma dec_fuel_dv fuel : forall n acc, n < 10 ^ N.of_nat fuel -> dv (dec_fuel fuel n acc) 0 = dv acc n.
Proof.
  induction fuel as [|fuel IH]; intros n acc Hn.
  - cbn [dec_fuel]. change (10 ^ N.of_nat 0) with 1 in Hn. assert (n = 0) by lia. now subst.
  - cbn [dec_fuel].
    assert (Hd : bn (nb (48 + n mod 10)) - 48 = n mod 10).
    { rewrite bn_nb; [lia|]. pose proof (N.mod_lt n 10). lia. }
    assert (Hdm : n = 10 * (n / 10) + n mod 10) by (apply N.div_mod; lia).
    destruct (n / 10 =? 0) eqn:E.
    + cbn [dv]. rewrite Hd. apply N.eqb_eq in E. f_equal. lia.
    + rewrite IH.
      * cbn [dv]. rewrite Hd. f_equal. lia.
      * rewrite Nat2N.inj_succ, N.pow_succ_r' in Hn. apply N.div_lt_upper_bound; lia.
Qed.

Definition id_limit : N := 10 ^ 24.

Lemma dec_inj a b : a < id_limit -> b < id_limit -> dec a = dec b -> a = b.
Proof.
  intros Ha Hb E. unfold dec in E.
  pose proof (dec_fuel_dv 24 a [] Ha) as H1. pose proof (dec_fuel_dv 24 b [] Hb) as H2.
  rewrite E in H1. cbn [dv] in H1, H2. congruence.
Qed.

(* ------------------------------------------------------------------ before_line *)
Lemma before_line_app_in tab ext k : (exists m, In m tab /\ k_id m = k_id k) ->
  before_line (tab ++ ext) k = before_line tab k.
Proof.
  induction tab as [|m tab IH]; intros (m0 & Hin & Eid); [destruct Hin|]. cbn [app before_line].
  destruct (beq (k_id m) (k_id k)) eqn:E; [reflexivity|]. f_equal. apply IH.
  destruct Hin as [->|Hin]; [|now exists m0]. rewrite Eid, beq_refl in E. discriminate.
Qed.

Lemma before_line_fresh tab k rest : (forall m, In m tab -> k_id m <> k_id k) ->
  before_line (tab ++ k :: rest) k = tab.
Proof.
  induction tab as [|m tab IH]; intros H; cbn [app before_line].
  - now rewrite beq_refl.
  - assert (E : beq (k_id m) (k_id k) = false) by (apply beq_false, H; now left).
    rewrite E. f_equal. apply IH. intros m' Hm'. apply H. now right.
Qed.

(* ------------------------------------------------------------------ what kmount appends *)
Definition idsok (ks : kstate) : Prop :=
  forall k, In k (ks_tab ks) -> exists j, j < ks_nextid ks /\ k_id k = dec j.

Lemma rbind_copies_shape src tgt : forall subs id tab tab2 id2,
  rbind_copies id tab subs src tgt = (tab2, id2) ->
  exists copies, tab2 = tab ++ copies /\ id <= id2
    /\ forall m, In m copies -> exists j, id <= j /\ j < id2 /\ k_id m = dec j.
Proof.
  induction subs as [|m r IH]; intros id tab tab2 id2; cbn [rbind_copies].
  - intros H. injection H as <- <-. exists []. rewrite app_nil_r. repeat split; [lia|intros ? []].
  - intros H. apply IH in H as (copies & -> & Hle & Hc).
    eexists (_ :: copies). rewrite <- app_assoc. cbn [app]. split; [reflexivity|]. split; [lia|].
    intros m' [<-|Hm'].
    + exists id. cbn [k_id]. repeat split; lia.
    + destruct (Hc m' Hm') as (j & H1 & H2 & H3). exists j. repeat split; [lia|exact H2|exact H3].
Qed.

Definition ovl_sopts (d : bytes) : list (bytes * option bytes) :=
  [(bs "rw", None); (bs "lowerdir", Some (data_get (bs "lowerdir") (parse_data d)));
   (bs "upperdir", Some (data_get (bs "upperdir") (parse_data d)));
   (bs "workdir", Some (data_get (bs "workdir") (parse_data d)))].

Lemma kmount_new f ks s t ty fl d ks' :
  kmount f ks s t ty fl d = KOk ks' ->
  has_flag fl MS_REMOUNT = false -> has_flag fl MS_SLAVE = false ->
  exists line copies,
    ks_tab ks' = ks_tab ks ++ line :: copies
    /\ k_mp line = t /\ k_id line = dec (ks_nextid ks)
    /\ ks_nextid ks < ks_nextid ks'
    /\ (forall m, In m copies -> exists j, ks_nextid ks < j /\ j < ks_nextid ks' /\ k_id m = dec j)
    /\ (has_flag fl MS_BIND = true ->
        exists cv, covering (ks_tab ks) s = Some cv /\ line = bind_line (ks_nextid ks) (ks_tab ks) cv s t)
    /\ (has_flag fl MS_BIND = false ->
        k_source line = s
        /\ (if beq ty overlay then k_fstype line = overlay /\ k_sopts line = ovl_sopts d
            else k_fstype line = ty)).
Proof.
  unfold kmount. intros H Hr Hs. rewrite Hr, Hs in H.
  destruct (negb (exists_ f t)); [discriminate|].
  destruct (has_flag fl MS_BIND) eqn:Hb.
  - destruct (negb (exists_ f s)); [discriminate|].
    destruct (covering (ks_tab ks) s) as [cv|] eqn:Ec; [|discriminate].
    destruct (has_flag fl MS_REC).
    + destruct (rbind_copies _ _ _ s t) as [tab2 id2] eqn:Er. injection H as <-. cbn [ks_tab ks_nextid].
      apply rbind_copies_shape in Er as (copies & -> & Hle & Hc).
      exists (bind_line (ks_nextid ks) (ks_tab ks) cv s t), copies.
      rewrite <- app_assoc. cbn [app].
      split; [reflexivity|]. split; [reflexivity|]. split; [reflexivity|]. split; [lia|].
      split; [|split].
      * intros m Hm. destruct (Hc m Hm) as (j & H1 & H2 & H3). exists j. repeat split; [lia|exact H2|exact H3].
      * intros _. now exists cv.
      * discriminate.
    + injection H as <-. cbn [ks_tab ks_nextid].
      exists (bind_line (ks_nextid ks) (ks_tab ks) cv s t), [].
      split; [reflexivity|]. split; [reflexivity|]. split; [reflexivity|]. split; [lia|].
      split; [|split].
      * intros ? [].
      * intros _. now exists cv.
      * discriminate.
  - destruct (beq ty overlay) eqn:Eo.
    + destruct (is_dir f _ && is_dir f _ && is_dir f _ && is_dir f t); [|discriminate].
      injection H as <-. cbn [ks_tab ks_nextid]. eexists _, []. split; [reflexivity|].
      cbn [k_mp k_id k_source k_fstype k_sopts].
      split; [reflexivity|]. split; [reflexivity|]. split; [lia|].
      split; [|split].
      * intros ? [].
      * discriminate.
      * intros _. split; [reflexivity|]. split; reflexivity.
    + destruct ty as [|a ty']; [discriminate|]. injection H as <-. cbn [ks_tab ks_nextid].
      eexists _, []. split; [reflexivity|].
      cbn [k_mp k_id k_source k_fstype k_sopts].
      split; [reflexivity|]. split; [reflexivity|]. split; [lia|].
      split; [|split].
      * intros ? [].
      * discriminate.
      * intros _. split; reflexivity.
Qed.

Lemma kmount_idsok f ks s t ty fl d ks' :
  kmount f ks s t ty fl d = KOk ks' -> idsok ks -> idsok ks' /\ ks_nextid ks <= ks_nextid ks'.
Proof.
  intros H Hi.
  destruct (has_flag fl MS_REMOUNT) eqn:Hr.
  { unfold kmount in H. rewrite Hr in H. destruct (top_at (ks_tab ks) t); [|discriminate].
    injection H as <-. split; [exact Hi|lia]. }
  destruct (has_flag fl MS_SLAVE) eqn:Hs.
  { unfold kmount in H. rewrite Hr, Hs in H. destruct (top_at (ks_tab ks) t); [|discriminate].
    injection H as <-. split; [exact Hi|lia]. }
  destruct (kmount_new _ _ _ _ _ _ _ _ H Hr Hs) as (line & copies & Et & _ & Eid & Hlt & Hc & _).
  split; [|lia]. intros k Hk. rewrite Et in Hk. apply in_app_or in Hk as [Hk|[<-|Hk]].
  - destruct (Hi k Hk) as (j & Hj & Ej). exists j. split; [lia|exact Ej].
  - exists (ks_nextid ks). split; [lia|exact Eid].
  - destruct (Hc k Hk) as (j & H1 & H2 & H3). exists j. split; [exact H2|exact H3].
Qed.

(* ------------------------------------------------------------------ "the right mount" for an item *)
Definition dget (key : bytes) (it : item) : bytes := data_get key (parse_data (it_data it)).
Definition right_it (it : item) (tab : list kline) (k : kline) : bool :=
  if it_imp it then shows_source tab k (it_src it) (it_ty it)
  else beq (k_fstype k) overlay
       && beq (sopt k (bs "lowerdir")) (dget (bs "lowerdir") it)
       && beq (sopt k (bs "upperdir")) (dget (bs "upperdir") it)
       && beq (sopt k (bs "workdir")) (dget (bs "workdir") it).

Lemma right_it_stable it tab ext k : In k tab -> right_it it (tab ++ ext) k = right_it it tab k.
Proof.
  intros Hk. unfold right_it, shows_source. destruct (it_imp it); [|reflexivity].
  destruct (is_bind_type (it_ty it)); [|reflexivity].
  rewrite before_line_app_in; [reflexivity|]. now exists k.
Qed.

Lemma is_bind_flags ty : is_bind_type ty = has_flag (mount_flags ty) MS_BIND.
Proof.
  unfold is_bind_type, mount_flags. destruct (beq ty (bs "bind")); [reflexivity|].
  destruct (beq ty (bs "rbind")); [reflexivity|]. destruct (beq ty (bs "remount")); reflexivity.
Qed.

Definition item_shape (it : item) : Prop := it_imp it = false -> it_ty it = overlay.

(* the line a successful mount of [it] appends is right, given fresh ids *)
Lemma new_line_right f ks it ks1 :
  kmount_it f ks it = KOk ks1 -> ~ In (it_tgt it) (mps ks) -> item_shape it ->
  idsok ks -> ks_nextid ks1 < id_limit ->
  exists line copies,
    ks_tab ks1 = ks_tab ks ++ line :: copies /\ k_mp line = it_tgt it
    /\ right_it it (ks_tab ks1) line = true.
Proof.
  intros Hk Hn Hsh Hids Hlim. unfold kmount_it in Hk.
  assert (Hr : has_flag (mount_flags (it_ty it)) MS_REMOUNT = false).
  { destruct (has_flag (mount_flags (it_ty it)) MS_REMOUNT) eqn:E; [|reflexivity]. exfalso.
    unfold kmount in Hk. rewrite E in Hk. destruct (top_at (ks_tab ks) (it_tgt it)) eqn:Et; [|discriminate].
    apply Hn. apply mounted_at_in. unfold mounted_at. now rewrite Et. }
  pose proof (mount_flags_noslave (it_ty it)) as Hs.
  destruct (kmount_new _ _ _ _ _ _ _ _ Hk Hr Hs) as (line & copies & Et & Emp & Eid & Hlt & Hc & Hbind & Hnb).
  exists line, copies. split; [exact Et|]. split; [exact Emp|].
  unfold right_it. destruct (it_imp it) eqn:Erf.
  - unfold shows_source. rewrite is_bind_flags.
    destruct (has_flag (mount_flags (it_ty it)) MS_BIND) eqn:Eb.
    + destruct (Hbind eq_refl) as (cv & Ecv & ->). rewrite Et.
      rewrite before_line_fresh.
      * rewrite Ecv. cbn [bind_line k_dev k_root]. now rewrite !beq_refl.
      * intros m Hm Eq. destruct (Hids m Hm) as (j & Hj & Ej). cbn [bind_line k_id] in Eq.
        rewrite Ej in Eq. apply dec_inj in Eq; lia.
    + destruct (Hnb eq_refl) as [Esrc Hty]. rewrite Esrc, beq_refl, andb_true_r.
      destruct (beq (it_ty it) overlay) eqn:Eo.
      * destruct Hty as [-> _]. now rewrite beq_sym.
      * rewrite Hty. apply beq_refl.
  - rewrite (Hsh Erf) in *.
    change (has_flag (mount_flags overlay) MS_BIND) with false in Hnb.
    destruct (Hnb eq_refl) as [_ Hty]. change (beq overlay overlay) with true in Hty.
    destruct Hty as [Ef Eso]. rewrite Ef. unfold sopt, dget. rewrite Eso. unfold ovl_sopts.
    cbn [last_opt]. change (beq (bs "lowerdir") (bs "lowerdir")) with true.
    change (beq (bs "upperdir") (bs "lowerdir")) with false.
    change (beq (bs "workdir") (bs "lowerdir")) with false.
    change (beq (bs "lowerdir") (bs "upperdir")) with false.
    change (beq (bs "upperdir") (bs "upperdir")) with true.
    change (beq (bs "workdir") (bs "upperdir")) with false.
    change (beq (bs "lowerdir") (bs "workdir")) with false.
    change (beq (bs "upperdir") (bs "workdir")) with false.
    change (beq (bs "workdir") (bs "workdir")) with true.
    cbv iota. now rewrite !beq_refl.
Qed.

(* ------------------------------------------------------------------ top_at under appending *)
Lemma top_at_app tab ext p :
  top_at (tab ++ ext) p = match top_at ext p with Some k => Some k | None => top_at tab p end.
Proof.
  unfold top_at. rewrite fold_left_app.
  generalize (fold_left (fun best k => if beq (k_mp k) p then Some k else best) tab None).
  induction ext as [|x ext IH]; intros acc; cbn [fold_left].
  - reflexivity.
  - rewrite IH. rewrite (IH (if beq (k_mp x) p then Some x else None)).
    destruct (fold_left _ ext None); [reflexivity|]. destruct (beq (k_mp x) p); reflexivity.
Qed.

Lemma top_at_notin ext p : ~ In p (map k_mp ext) -> top_at ext p = None.
Proof.
  intros H. apply mounted_at_false in H. unfold mounted_at in H.
  destruct (top_at ext p); [discriminate|reflexivity].
Qed.

Lemma top_at_stable tab ext p : ~ In p (map k_mp ext) -> top_at (tab ++ ext) p = top_at tab p.
Proof. intros H. now rewrite top_at_app, (top_at_notin _ _ H). Qed.

Lemma top_at_some tab p k : top_at tab p = Some k -> In k tab /\ k_mp k = p.
Proof.
  unfold top_at.
  assert (G : forall l acc, fold_left (fun best k0 => if beq (k_mp k0) p then Some k0 else best) l acc = Some k ->
            acc = Some k \/ (In k l /\ k_mp k = p)).
  { induction l as [|x l IH]; intros acc; cbn [fold_left]; [auto|].
    intros H. apply IH in H as [H|[H1 H2]]; [|right; split; [now right|exact H2]].
    destruct (beq (k_mp x) p) eqn:E; [|now left].
    injection H as <-. right. split; [now left|now apply beq_true]. }
  intros H. apply G in H as [H|H]; [discriminate|exact H].
Qed.

Lemma prefix_self_false t : prefixb (t ++ [sl]) t = false.
Proof.
  destruct (prefixb (t ++ [sl]) t) eqn:E; [|reflexivity].
  apply prefixb_spec in E as (r & E). apply (f_equal (@length _)) in E.
  rewrite !app_length in E. cbn in E. lia.
Qed.

(* the new line is the top line at its target *)
Lemma new_line_top f ks it ks1 line copies :
  kmount_it f ks it = KOk ks1 -> ks_tab ks1 = ks_tab ks ++ line :: copies -> k_mp line = it_tgt it ->
  top_at (ks_tab ks1) (it_tgt it) = Some line
  /\ map k_mp (line :: copies) = delta (mount_flags (it_ty it)) (it_src it) (it_tgt it) (mps ks).
Proof.
  intros Hk Et Emp. unfold kmount_it in Hk.
  pose proof (kmount_mps _ _ _ _ _ _ _ _ Hk) as E. unfold mps in E at 1. rewrite Et, map_app in E.
  apply app_inv_head in E. split; [|exact E].
  pose proof (delta_count it (mps ks) (it_tgt it) (fun _ => prefix_self_false _)) as Hd.
  rewrite beq_refl, <- E in Hd. cbn [map] in Hd. rewrite Emp in Hd.
  change (it_tgt it :: map k_mp copies) with ([it_tgt it] ++ map k_mp copies) in Hd.
  rewrite cntl_app in Hd. unfold cntl at 1 in Hd. cbn [filter] in Hd. rewrite beq_refl in Hd. cbn [length] in Hd.
  assert (Hn : ~ In (it_tgt it) (map k_mp copies)).
  { intros Hin. apply cntl_in in Hin. lia. }
  rewrite Et. change (line :: copies) with ([line] ++ copies). rewrite app_assoc.
  rewrite (top_at_stable _ _ _ Hn), top_at_app. unfold top_at at 1. cbn [fold_left].
  rewrite Emp, beq_refl. reflexivity.
Qed.

(* ------------------------------------------------------------------ along the trace *)
Lemma gtrace_right T ks its ops ks' st :
  gtrace ks its ops ks' st -> st = TDone ->
  idsok ks -> ks_nextid ks' < id_limit ->
  (forall it, In it its -> In (it_tgt it) (mps ks) ->
     exists k, top_at (ks_tab ks) (it_tgt it) = Some k /\ right_it it (ks_tab ks) k = true) ->
  rbind_clear_items its T -> (forall it, In it its -> In (it_tgt it) T) ->
  NoDup (map it_tgt its) -> Forall item_shape its ->
  (exists ext, ks_tab ks' = ks_tab ks ++ ext
     /\ forall t, In t T -> ~ In t (map it_tgt its) -> ~ In t (map k_mp ext))
  /\ ks_nextid ks <= ks_nextid ks'
  /\ forall it, In it its ->
       exists k, top_at (ks_tab ks') (it_tgt it) = Some k /\ right_it it (ks_tab ks') k = true.
Proof.
  induction 1 as [ks|ks its|ks it its ops ks' st Hin Hg IH|ks it its f ks1 ops ks' st Hn Hk Hg IH|ks it its f Hn Hk];
    intros Hd Hids Hlim Hpre Hrb HT Hnd Hsh; try discriminate.
  - split; [exists []; split; [now rewrite app_nil_r|intros ? ? ? []]|]. split; [lia|]. intros it [].
  - (* skipped: the line is there already and stays the top one *)
    inversion Hnd as [|? ? Hnd1 Hnd2]; subst. inversion Hsh as [|? ? Hsh1 Hsh2]; subst.
    destruct (IH eq_refl Hids Hlim) as ((ext & Eext & Hext) & Hle & Hall); auto.
    { intros it' Hi'. apply Hpre. now right. }
    { intros it' t' Hi'. apply Hrb. now right. }
    { intros it' Hi'. apply HT. now right. }
    split.
    { exists ext. split; [exact Eext|]. intros t Ht Hnot. apply Hext; [exact Ht|].
      intros Hin'. apply Hnot. now right. }
    split; [exact Hle|].
    intros it' [<-|Hi']; [|now apply Hall].
    destruct (Hpre it (or_introl eq_refl) Hin) as (k & Hk1 & Hk3).
    exists k. rewrite Eext.
    rewrite (top_at_stable _ _ _ (Hext _ (HT it (or_introl eq_refl)) Hnd1)).
    split; [exact Hk1|]. rewrite right_it_stable; [exact Hk3|]. now apply top_at_some in Hk1.
  - (* mounted *)
    inversion Hnd as [|? ? Hnd1 Hnd2]; subst. inversion Hsh as [|? ? Hsh1 Hsh2]; subst.
    destruct (kmount_idsok _ _ _ _ _ _ _ _ Hk Hids) as [Hids1 Hle1].
    assert (Hstep : exists ext1, ks_tab ks1 = ks_tab ks ++ ext1).
    { unfold kmount_it in Hk. destruct (has_flag (mount_flags (it_ty it)) MS_REMOUNT) eqn:Hr.
      - unfold kmount in Hk. rewrite Hr in Hk. destruct (top_at (ks_tab ks) (it_tgt it)); [|discriminate].
        injection Hk as <-. exists []. now rewrite app_nil_r.
      - destruct (kmount_new _ _ _ _ _ _ _ _ Hk Hr (mount_flags_noslave _)) as (line & copies & Et & _).
        now exists (line :: copies). }
    destruct Hstep as (ext1 & Eext1).
    assert (Edelta : map k_mp ext1 = delta (mount_flags (it_ty it)) (it_src it) (it_tgt it) (mps ks)).
    { pose proof Hk as Hk0. unfold kmount_it in Hk0.
      pose proof (kmount_mps _ _ _ _ _ _ _ _ Hk0) as E. unfold mps in E at 1.
      rewrite Eext1, map_app in E. now apply app_inv_head in E. }
    (* a T-point other than this target gets no new line *)
    assert (Hclear1 : forall t, In t T -> t <> it_tgt it -> ~ In t (map k_mp ext1)).
    { intros t Ht Hne Hin1. rewrite Edelta in Hin1. apply cntl_in in Hin1.
      pose proof (delta_count it (mps ks) t (Hrb it t (or_introl eq_refl) Ht)) as Hd0.
      assert (E : beq (it_tgt it) t = false) by (apply beq_false; congruence).
      rewrite E in Hd0. lia. }
    assert (Hpre1 : forall it', In it' its -> In (it_tgt it') (mps ks1) ->
              exists k, top_at (ks_tab ks1) (it_tgt it') = Some k /\ right_it it' (ks_tab ks1) k = true).
    { intros it' Hi' Hm1.
      assert (Hne : it_tgt it' <> it_tgt it).
      { intros E. apply Hnd1. rewrite <- E. now apply in_map. }
      pose proof (Hclear1 _ (HT it' (or_intror Hi')) Hne) as Hno.
      assert (Hm0 : In (it_tgt it') (mps ks)).
      { unfold mps in Hm1. rewrite Eext1, map_app in Hm1.
        apply in_app_or in Hm1 as [Hm1|Hm1]; [exact Hm1|contradiction]. }
      destruct (Hpre it' (or_intror Hi') Hm0) as (k & Hk1 & Hk3).
      exists k. rewrite Eext1, (top_at_stable _ _ _ Hno).
      split; [exact Hk1|]. rewrite right_it_stable; [exact Hk3|]. now apply top_at_some in Hk1. }
    destruct (IH eq_refl Hids1 Hlim Hpre1) as ((ext & Eext & Hext) & Hle & Hall); auto.
    { intros it' t' Hi'. apply Hrb. now right. }
    { intros it' Hi'. apply HT. now right. }
    split.
    { exists (ext1 ++ ext). split; [now rewrite Eext, Eext1, app_assoc|].
      intros t Ht Hnot. rewrite map_app. intros Hin'. apply in_app_or in Hin' as [Hin'|Hin'].
      - apply (Hclear1 t Ht); [|exact Hin']. intros E. apply Hnot. left. now symmetry.
      - apply (Hext t Ht); [|exact Hin']. intros Hin2. apply Hnot. now right. }
    split; [lia|].
    intros it' [<-|Hi']; [|now apply Hall].
    destruct (new_line_right _ _ _ _ Hk Hn Hsh1 Hids ltac:(lia)) as (line & copies & Et & Emp & Hright).
    destruct (new_line_top _ _ _ _ _ _ Hk Et Emp) as [Htop _].
    exists line. rewrite Eext.
    rewrite (top_at_stable _ _ _ (Hext _ (HT it (or_introl eq_refl)) Hnd1)).
    split; [exact Htop|]. rewrite right_it_stable; [exact Hright|].
    rewrite Et. apply in_or_app. right. now left.
Qed.

(* ------------------------------------------------------------------ the overlay data string *)
Lemma nosep_app sep a b : nosep sep a -> nosep sep b -> nosep sep (a ++ b).
Proof. intros Ha Hb Hin. apply in_app_or in Hin as [H|H]; auto. Qed.

Lemma parse_ovl_data c bl l :
  nosepb comma (build_path c bl) = true -> nosepb comma (upper_path c l) = true ->
  nosepb comma (work_path c l) = true ->
  parse_data (ovl_data c bl l)
  = [(bs "lowerdir", Some (build_path c bl)); (bs "upperdir", Some (upper_path c l));
     (bs "workdir", Some (work_path c l))].
Proof.
  intros H1 H2 H3. apply nosepb_spec in H1, H2, H3.
  set (p1 := bs "lowerdir=" ++ build_path c bl).
  set (p2 := bs "upperdir=" ++ upper_path c l).
  set (p3 := bs "workdir=" ++ work_path c l).
  assert (E : ovl_data c bl l = join comma [p1; p2; p3]).
  { unfold ovl_data, p1, p2, p3. cbn [join]. rewrite <- !app_assoc. reflexivity. }
  assert (Hlit : forall s : string, nosepb comma (bs s) = true -> nosep comma (bs s)) by (intros s; apply nosepb_spec).
  unfold parse_data. rewrite E.
  rewrite split_join.
  - destruct (join comma [p1; p2; p3]) eqn:Ej.
    { exfalso. unfold p1 in Ej. cbn in Ej. discriminate. }
    cbn [map]. unfold p1, p2, p3.
    change (bs "lowerdir=") with (bs "lowerdir" ++ [eqc]).
    change (bs "upperdir=") with (bs "upperdir" ++ [eqc]).
    change (bs "workdir=") with (bs "workdir" ++ [eqc]).
    rewrite <- !app_assoc. cbn [app].
    unfold split2.
    rewrite !split2_acc_app by (apply nosepb_spec; reflexivity).
    reflexivity.
  - discriminate.
  - repeat constructor; unfold p1, p2, p3; apply nosep_app; try assumption; apply Hlit; reflexivity.
Qed.
