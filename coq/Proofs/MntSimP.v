(* C01 support: structural similarity of layer maps.

   The commands only ever change the probe-derived fields of a layer (state, busy flags,
   kernel mounts); name, base, imports, exports and directory stay what FindLayers read from
   disk.  [msim] is that relation, lifted to maps; the lemmas show that every operation used
   by `mount` preserves it and that the configuration-derived functions
   ([expand_config_mounts], [ancestors_and_self], [find_layer_base]) do not distinguish
   similar maps. *)
From LC Require Import Lib.Bytes Lib.Lex Lib.Fields Lib.PathM Gen.Consts
  Model.MountInfo Model.FsTree Model.Kernel Model.Layers.
Open Scope N_scope.

Definition core (l : layer) : bytes * bytes * list nmount * list nmount * bytes :=
  (l_name l, l_base l, l_mounts l, l_exports l, l_path l).
Definition lsame (a b : layer) : Prop := core a = core b.

Lemma lsame_refl a : lsame a a.
Proof. reflexivity. Qed.
Lemma lsame_sym a b : lsame a b -> lsame b a.
Proof. unfold lsame. congruence. Qed.
Lemma lsame_trans a b c : lsame a b -> lsame b c -> lsame a c.
Proof. unfold lsame. congruence. Qed.

Lemma lsame_proj a b : lsame a b ->
  l_name a = l_name b /\ l_base a = l_base b /\ l_mounts a = l_mounts b
  /\ l_exports a = l_exports b /\ l_path a = l_path b.
Proof. unfold lsame, core. intros H. injection H as H1 H2 H3 H4 H5. auto. Qed.

Lemma core_set_state l s : core (set_state l s) = core l.
Proof. reflexivity. Qed.
Lemma core_set_kmounts l m : core (set_kmounts l m) = core l.
Proof. reflexivity. Qed.
Lemma core_set_busy l a b c : core (set_busy l a b c) = core l.
Proof. reflexivity. Qed.
Lemma core_set_overlain l o : core (set_overlain l o) = core l.
Proof. reflexivity. Qed.

Lemma lsame_build c a b : lsame a b -> build_path c a = build_path c b.
Proof. intros H. apply lsame_proj in H as (_ & _ & _ & _ & H). unfold build_path. now rewrite H. Qed.
Lemma lsame_upper c a b : lsame a b -> upper_path c a = upper_path c b.
Proof. intros H. apply lsame_proj in H as (_ & _ & _ & _ & H). unfold upper_path. now rewrite H. Qed.
Lemma lsame_work c a b : lsame a b -> work_path c a = work_path c b.
Proof. intros H. apply lsame_proj in H as (_ & _ & _ & _ & H). unfold work_path. now rewrite H. Qed.

(* ------------------------------------------------------------------ find_layerstate *)
Ltac break_inner :=
  match goal with
  | |- context [match ?x with _ => _ end] =>
    lazymatch x with
    | context [match _ with _ => _ end] => fail
    | _ => destruct x eqn:?
    end
  end.

Lemma fls_core c f ld l : core (find_layerstate c f ld l) = core l.
Proof.
  unfold find_layerstate. cbv zeta.
  repeat first
    [ rewrite core_set_state
    | rewrite core_set_kmounts
    | reflexivity
    | break_inner
    | match goal with
      | |- context [match fold_left ?g ?xs ?a with _ => _ end] => destruct (fold_left g xs a) eqn:?
      end
    | match goal with |- context [let (_, _) := ?p in _] => destruct p end ].
Qed.

Lemma fls_same c f ld l : lsame l (find_layerstate c f ld l).
Proof. unfold lsame. now rewrite fls_core. Qed.

(* ------------------------------------------------------------------ maps *)
Definition msim (m m' : lmap) : Prop := Forall2 lsame m m'.

Lemma msim_refl m : msim m m.
Proof. induction m; constructor; auto using lsame_refl. Qed.
Lemma msim_trans a b c : msim a b -> msim b c -> msim a c.
Proof.
  intros H. revert c. induction H as [|x y a b Hxy _ IH]; intros c Hc; inversion Hc; subst; constructor.
  - eapply lsame_trans; eauto.
  - now apply IH.
Qed.
Lemma msim_sym a b : msim a b -> msim b a.
Proof. induction 1; constructor; auto using lsame_sym. Qed.
Lemma msim_length a b : msim a b -> length a = length b.
Proof. induction 1; cbn; congruence. Qed.

Lemma msim_get m m' n : msim m m' ->
  match lm_get m n, lm_get m' n with
  | Some l, Some l' => lsame l l'
  | None, None => True
  | _, _ => False
  end.
Proof.
  induction 1 as [|x y a b Hxy _ IH]; cbn [lm_get]; [exact I|].
  pose proof (lsame_proj _ _ Hxy) as (Hn & _). rewrite <- Hn.
  destruct (beq (l_name x) n); [exact Hxy|exact IH].
Qed.

Lemma msim_get_some m m' n l : msim m m' -> lm_get m n = Some l ->
  exists l', lm_get m' n = Some l' /\ lsame l l'.
Proof.
  intros H E. pose proof (msim_get m m' n H) as G. rewrite E in G.
  destruct (lm_get m' n) as [l'|]; [|contradiction]. now exists l'.
Qed.
Lemma msim_get_none m m' n : msim m m' -> lm_get m n = None -> lm_get m' n = None.
Proof.
  intros H E. pose proof (msim_get m m' n H) as G. rewrite E in G.
  destruct (lm_get m' n); [contradiction|reflexivity].
Qed.

Lemma lm_get_name m n l : lm_get m n = Some l -> l_name l = n.
Proof.
  induction m as [|x m IH]; cbn [lm_get]; [discriminate|].
  destruct (beq (l_name x) n) eqn:E; [|exact IH].
  intros H. injection H as <-. now apply beq_true.
Qed.

Lemma msim_set m m' l : msim m m' ->
  (exists l0, lm_get m' (l_name l) = Some l0 /\ lsame l0 l) -> msim m (lm_set m' l).
Proof.
  intros H. induction H as [|x y a b Hxy Hab IH]; cbn [lm_get lm_set]; intros (l0 & E & S).
  - discriminate.
  - destruct (beq (l_name y) (l_name l)) eqn:Eb.
    + injection E as <-. constructor; [eapply lsame_trans; eauto|exact Hab].
    + constructor; [exact Hxy|]. apply IH. now exists l0.
Qed.

Lemma msim_map_overlain m (g : layer -> bool) : msim m (map (fun l => set_overlain l (g l)) m).
Proof. induction m; cbn; constructor; auto. reflexivity. Qed.

(* ------------------------------------------------------------------ configuration-derived functions *)
Lemma sim_find_layer_base fuel : forall m m' l l', msim m m' -> lsame l l' ->
  match find_layer_base fuel m l, find_layer_base fuel m' l' with
  | Some b, Some b' => lsame b b'
  | None, None => True
  | _, _ => False
  end.
Proof.
  induction fuel as [|fuel IH]; intros m m' l l' Hm Hl; cbn [find_layer_base];
    pose proof (lsame_proj _ _ Hl) as (_ & Hb & _); rewrite <- Hb.
  - destruct (l_base l); [exact Hl|exact I].
  - destruct (l_base l) as [|ch r] eqn:Eb; [exact Hl|].
    pose proof (msim_get m m' (ch :: r) Hm) as G.
    destruct (lm_get m (ch :: r)) as [p|], (lm_get m' (ch :: r)) as [p'|]; try contradiction; [|exact I].
    now apply IH.
Qed.

Lemma sim_expand_mounts c m m' l l' : msim m m' -> lsame l l' ->
  expand_config_mounts c m l = expand_config_mounts c m' l'.
Proof.
  intros Hm Hl. unfold expand_config_mounts.
  pose proof (lsame_proj _ _ Hl) as (_ & _ & Hmo & _ & Hp).
  rewrite <- Hmo, <- (lsame_build c _ _ Hl), <- Hp, <- (msim_length _ _ Hm).
  pose proof (sim_find_layer_base (S (length m)) m m' l l' Hm Hl) as G.
  assert (E : (match find_layer_base (S (length m)) m l with Some b0 => Some (l_path b0) | None => None end)
            = (match find_layer_base (S (length m)) m' l' with Some b0 => Some (l_path b0) | None => None end)).
  { destruct (find_layer_base (S (length m)) m l) as [b|], (find_layer_base (S (length m)) m' l') as [b'|];
      try contradiction; [|reflexivity].
    apply lsame_proj in G as (_ & _ & _ & _ & G). now rewrite G. }
  rewrite E. reflexivity.
Qed.

Lemma sim_ancestors fuel : forall m m' n acc acc', msim m m' -> Forall2 lsame acc acc' ->
  match ancestors_and_self fuel m n acc, ancestors_and_self fuel m' n acc' with
  | Some a, Some a' => Forall2 lsame a a'
  | None, None => True
  | _, _ => False
  end.
Proof.
  induction fuel as [|fuel IH]; intros m m' n acc acc' Hm Ha; cbn [ancestors_and_self].
  - destruct n; [exact Ha|exact I].
  - destruct n as [|ch r]; [exact Ha|].
    pose proof (msim_get m m' (ch :: r) Hm) as G.
    destruct (lm_get m (ch :: r)) as [p|], (lm_get m' (ch :: r)) as [p'|]; try contradiction; [|exact I].
    pose proof (lsame_proj _ _ G) as (_ & Hb & _). rewrite <- Hb.
    apply IH; [exact Hm|]. constructor; assumption.
Qed.

Lemma Forall2_lsame_names a a' : Forall2 lsame a a' -> map l_name a = map l_name a'.
Proof.
  induction 1 as [|x y a b Hxy _ IH]; cbn; [reflexivity|].
  apply lsame_proj in Hxy as (Hn & _). now rewrite Hn, IH.
Qed.
